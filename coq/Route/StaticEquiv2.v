(* StaticEquiv2 — C01, M1 = S, stages 2-4 (named parameters, suffix and infix catch-all, backtracking).
   M2 = structurally recursive DFS matcher over the tree; M1 = M2 (the explicit
   skipped-node stack is the DFS continuation); M2 = S by induction on the tree.
   Owner: proof agent p-equiv. *)
From FoxBase Require Import Bytes.
From FoxRoute Require Import Node Lookup Spec SpecFacts Tree Corr StaticEquiv.
Open Scope char_scope.

(* ------------------------------------------------------------------ *)
(* keys as token lists                                                  *)
(* ------------------------------------------------------------------ *)
Definition render_tok (t : token) : bytes :=
  match t with
  | TStatic c => [c]
  | TParam n => "{" :: n ++ ["}"]
  | TCatch n => "*" :: "{" :: n ++ ["}"]
  end.
Definition render (ts : list token) : bytes := flat_map render_tok ts.

Definition name_ok (n : bytes) : bool := negb (existsb (Ascii.eqb "}") n).

(* stage 2 tokens: static bytes other than '{' '*', and named parameters *)
Definition ptok_ok (t : token) : bool :=
  match t with TStatic c => sbyte c | TParam n => name_ok n | TCatch _ => false end.

Lemma render_app a b : render (a ++ b) = render a ++ render b.
Proof. unfold render. apply flat_map_app. Qed.

Lemma render_tok_nonnil t : render_tok t <> [].
Proof. destruct t; simpl; discriminate. Qed.

Lemma render_nil kt : render kt = [] -> kt = [].
Proof.
  destruct kt as [|t kt]; auto. simpl. intros H. apply app_eq_nil in H. destruct H as [H _].
  exfalso. eapply render_tok_nonnil; eauto.
Qed.

(* ---- parse_wildcard on a rendered key ---- *)
Lemma pw_name : forall nm rest pos acc st, (st = PwParam \/ st = PwCatch) -> name_ok nm = true ->
  parse_wildcard_go (nm ++ "}" :: rest) pos st acc =
  {| pkey := rev acc ++ nm;
     pend := match rest with [] => None | _ => Some (S (pos + List.length nm)) end;
     pcatch := match st with PwCatch => true | _ => false end |}
  :: parse_wildcard_go rest (S (pos + List.length nm)) PwDefault [].
Proof.
  induction nm as [|c nm IH]; intros rest pos acc st Hst Hok.
  - simpl. rewrite app_nil_r, Nat.add_0_r. destruct Hst as [-> | ->]; reflexivity.
  - unfold name_ok in Hok. simpl in Hok. apply negb_true_iff in Hok. apply orb_false_elim in Hok.
    destruct Hok as [Hc Hok].
    assert (Ascii.eqb c "}" = false) as Hc' by (rewrite Ascii.eqb_sym; exact Hc).
    assert (name_ok nm = true) as Hok' by (unfold name_ok; rewrite Hok; reflexivity).
    specialize (IH rest (S pos) (c :: acc) st Hst Hok').
    simpl app. destruct Hst as [-> | ->]; cbn [parse_wildcard_go]; rewrite Hc'; rewrite IH;
      simpl; rewrite <- app_assoc; simpl; replace (pos + S (List.length nm)) with (S (pos + List.length nm)) by lia;
      reflexivity.
Qed.

Fixpoint pw_spec (kt : list token) (pos : nat) : list param :=
  match kt with
  | [] => []
  | TStatic _ :: r => pw_spec r (S pos)
  | TParam nm :: r =>
      {| pkey := nm; pend := match r with [] => None | _ => Some (pos + List.length nm + 2) end; pcatch := false |}
      :: pw_spec r (pos + List.length nm + 2)
  | TCatch nm :: r =>
      {| pkey := nm; pend := match r with [] => None | _ => Some (pos + List.length nm + 3) end; pcatch := true |}
      :: pw_spec r (pos + List.length nm + 3)
  end.

Definition tok_ok (t : token) : bool :=
  match t with TStatic c => sbyte c | TParam n => name_ok n | TCatch n => name_ok n end.

Lemma ptok_tok t : ptok_ok t = true -> tok_ok t = true.
Proof. destruct t; simpl; auto; discriminate. Qed.

Lemma pw_render : forall kt pos, forallb tok_ok kt = true ->
  parse_wildcard_go (render kt) pos PwDefault [] = pw_spec kt pos.
Proof.
  induction kt as [|t kt IH]; intros pos Hok; [reflexivity|].
  simpl in Hok. apply andb_prop in Hok. destruct Hok as [Ht Hok].
  destruct t as [c|nm|nm]; simpl in Ht.
  - unfold sbyte in Ht. apply andb_prop in Ht. destruct Ht as [H1 H2]. apply negb_true_iff in H1, H2.
    simpl. rewrite H2, H1. apply IH; auto.
  - change (render (TParam nm :: kt)) with ("{" :: (nm ++ ["}"]) ++ render kt). rewrite <- app_assoc.
    cbn [parse_wildcard_go]. cbn [Ascii.eqb Bool.eqb andb app].
    rewrite pw_name by auto. simpl. rewrite IH by auto.
    replace (S (S (pos + List.length nm))) with (pos + List.length nm + 2) by lia.
    f_equal. f_equal. destruct kt as [|t' kt]; [reflexivity|].
    destruct (render (t' :: kt)) eqn:E; [apply render_nil in E; discriminate|reflexivity].
  - change (render (TCatch nm :: kt)) with ("*" :: "{" :: (nm ++ ["}"]) ++ render kt). rewrite <- app_assoc.
    cbn [parse_wildcard_go]. cbn [Ascii.eqb Bool.eqb andb app].
    rewrite pw_name by auto. simpl. rewrite IH by auto.
    replace (S (S (S (pos + List.length nm)))) with (pos + List.length nm + 3) by lia.
    f_equal. f_equal. destruct kt as [|t' kt]; [reflexivity|].
    destruct (render (t' :: kt)) eqn:E; [apply render_nil in E; discriminate|reflexivity].
Qed.

Definition is_wild (t : token) : bool := match t with TStatic _ => false | _ => true end.
Definition cnt_wild (kt : list token) : nat := List.length (filter is_wild kt).

Lemma nth_error_0 {A} (l : list A) : nth_error l 0 = hd_error l.
Proof. destruct l; reflexivity. Qed.

Lemma pw_spec_nth : forall done t kt pos q, is_wild t = true -> q = pos + List.length (render done) ->
  nth_error (pw_spec (done ++ t :: kt) pos) (cnt_wild done) = hd_error (pw_spec (t :: kt) q).
Proof.
  induction done as [|d done IH]; intros t kt pos q Hw Hq.
  - simpl in Hq. rewrite Nat.add_0_r in Hq. subst q. apply nth_error_0.
  - destruct d as [c|nm|nm].
    + change (pw_spec ((TStatic c :: done) ++ t :: kt) pos) with (pw_spec (done ++ t :: kt) (S pos)).
      change (cnt_wild (TStatic c :: done)) with (cnt_wild done).
      apply IH; auto. simpl in Hq. lia.
    + change (cnt_wild (TParam nm :: done)) with (S (cnt_wild done)).
      simpl app. cbn [pw_spec nth_error]. apply IH; auto.
      subst q. simpl. rewrite !app_length. simpl. lia.
    + change (cnt_wild (TCatch nm :: done)) with (S (cnt_wild done)).
      simpl app. cbn [pw_spec nth_error]. apply IH; auto.
      subst q. simpl. rewrite !app_length. simpl. lia.
Qed.

(* ------------------------------------------------------------------ *)
(* matching one key (token list) against the remaining path             *)
(* ------------------------------------------------------------------ *)
Definition is_slash (x : ascii) : bool := Ascii.eqb x "/".

(* token validity of a key: static bytes, {name}, *{name}; a catch-all may END the key only
   when allowed (b: the node is a leaf whose children, if any, are a single "/..." child) *)
Fixpoint kt_ok (b : bool) (kt : list token) : bool :=
  match kt with
  | [] => true
  | t :: kt' =>
    match t with
    | TCatch nm => name_ok nm && (match kt' with [] => b | _ => true end) && kt_ok b kt'
    | _ => ptok_ok t && kt_ok b kt'
    end
  end.

Lemma kt_ok_cons b t kt : kt_ok b (t :: kt) = true ->
  (ptok_ok t = true /\ kt_ok b kt = true) \/
  (exists nm, t = TCatch nm /\ name_ok nm = true /\ kt_ok b kt = true /\ (kt = [] -> b = true)).
Proof.
  cbn [kt_ok]. destruct t as [d|nm|nm].
  - intros H. apply andb_prop in H. left. exact H.
  - intros H. apply andb_prop in H. left. exact H.
  - intros H. apply andb_prop in H. destruct H as [H H3]. apply andb_prop in H. destruct H as [H1 H2].
    right. exists nm. repeat split; auto. intros ->. exact H2.
Qed.

Lemma kt_ok_tok b kt : kt_ok b kt = true -> forallb tok_ok kt = true.
Proof.
  induction kt as [|t kt IH]; intros H; auto. apply kt_ok_cons in H.
  destruct H as [[H1 H2]|(nm & -> & H1 & H2 & _)].
  - simpl. rewrite (ptok_tok _ H1), IH; auto.
  - simpl. rewrite H1, IH; auto.
Qed.

Lemma kt_ok_of_ptok b kt : forallb ptok_ok kt = true -> kt_ok b kt = true.
Proof.
  induction kt as [|t kt IH]; intros H; auto. simpl in H. apply andb_prop in H. destruct H as [H1 H2].
  specialize (IH H2).
  destruct t as [d|nm|nm]; simpl in H1; try discriminate; cbn [kt_ok ptok_ok]; rewrite H1; auto.
Qed.

Lemma index_byte_seg : forall p,
  match index_byte p "/" with
  | Some d => seg is_slash p = firstn d p /\ d < List.length p /\ List.length (seg is_slash p) = d
  | None => seg is_slash p = p
  end.
Proof.
  induction p as [|x p IH]; simpl; auto.
  assert (is_slash x = Ascii.eqb x "/") as Hx by reflexivity. rewrite Hx.
  destruct (Ascii.eqb x "/"); simpl.
  - repeat split. lia.
  - destruct (index_byte p "/") as [d|]; simpl.
    + destruct IH as (H1 & H2 & H3). rewrite H1 at 1. repeat split; auto. lia.
    + rewrite IH. reflexivity.
Qed.

Lemma nth_error_app_len {A} (a b : list A) : nth_error (a ++ b) (List.length a) = hd_error b.
Proof. induction a; simpl; auto. Qed.

(* parameter lists only grow below a choice point *)
Definition extends (a l : list kv) : Prop := firstn (List.length a) l = a.
Lemma extends_refl a : extends a a.
Proof. unfold extends. apply firstn_all. Qed.
Lemma extends_app a b l : extends (a ++ b) l -> extends a l.
Proof.
  unfold extends. intros H. rewrite app_length in H.
  assert (firstn (List.length a) (firstn (List.length a + List.length b) l) = firstn (List.length a) (a ++ b)) as H'
    by (rewrite H; reflexivity).
  rewrite firstn_firstn in H'. replace (Nat.min (List.length a) (List.length a + List.length b)) with (List.length a) in H' by lia.
  rewrite H'. rewrite firstn_app, Nat.sub_diag, firstn_all. simpl. apply app_nil_r.
Qed.
Lemma extends_len a l : extends a l -> List.length a <= List.length l.
Proof. unfold extends. intros H. rewrite <- H at 1. rewrite firstn_length. lia. Qed.

Definition addp (lazy : bool) (pss vals : list kv) : list kv := if lazy then pss else pss ++ vals.
Lemma addp_nil lazy pss : addp lazy pss [] = pss.
Proof. destruct lazy; simpl; auto. apply app_nil_r. Qed.
Lemma addp_addp lazy pss a b : addp lazy (addp lazy pss a) b = addp lazy pss (a ++ b).
Proof. destruct lazy; simpl; auto. rewrite app_assoc. reflexivity. Qed.
Lemma extends_addp lazy a v l : extends (addp lazy a v) l -> extends a l.
Proof. destruct lazy; simpl; auto. apply extends_app. Qed.

Lemma extends_addp_self lazy a v : extends a (addp lazy a v).
Proof.
  destruct lazy; simpl; [apply extends_refl|].
  unfold extends. rewrite firstn_app, Nat.sub_diag, firstn_all. simpl. apply app_nil_r.
Qed.

(* the run reaches Backtrack without having produced a result *)
Definition backs (path : bytes) (lazy : bool) (fuel : nat) (ph : phase) (s : st) (cost : nat) : Prop :=
  exists fuel' s', lbp fuel path lazy ph s = lbp fuel' path lazy PBack s' /\ fuel <= fuel' + cost /\
                   sks s' = sks s /\ extends (ps s) (ps s') /\ tinv s' /\ pkc s' = 0.

(* a direct hit on a node carrying the same route as l (inside an infix catch-all sub-lookup the
   matcher returns the truncated copy of the node, "inode", not the tree node itself) *)
Definition found_as (r : lres) (l : node) (pss : list kv) : Prop :=
  exists l' tps', r = Found (Some l') false pss tps' /\ nroute l' = nroute l.

Lemma backs_after path lazy fuel s cost :
  is_leaf (cur s) && Nat.eqb (cm s) (List.length path) && Nat.eqb (cmn s) (List.length (nkey (cur s))) = false ->
  tinv s -> 1 <= fuel -> 1 <= cost -> backs path lazy fuel PAfter s cost.
Proof.
  intros Hno Ht Hf Hc. destruct fuel as [|f]; [lia|].
  destruct (after_fail f path lazy s Hno Ht) as (s' & He & Hcore & Ht' & _ & Hk).
  destruct Hcore as (_ & _ & _ & _ & Hs & Hp).
  exists f, s'. repeat split; auto; try lia. unfold extends. rewrite Hp. apply firstn_all.
Qed.

Lemma cm_lt_nofound (path : bytes) s : cm s < List.length path ->
  is_leaf (cur s) && Nat.eqb (cm s) (List.length path) && Nat.eqb (cmn s) (List.length (nkey (cur s))) = false.
Proof.
  intros H. replace (Nat.eqb (cm s) (List.length path)) with false by (symmetry; apply Nat.eqb_neq; lia).
  rewrite andb_false_r. reflexivity.
Qed.

Lemma cmn_lt_nofound (path : bytes) s : cmn s < List.length (nkey (cur s)) ->
  is_leaf (cur s) && Nat.eqb (cm s) (List.length path) && Nat.eqb (cmn s) (List.length (nkey (cur s))) = false.
Proof.
  intros H. replace (Nat.eqb (cmn s) (List.length (nkey (cur s)))) with false by (symmetry; apply Nat.eqb_neq; lia).
  apply andb_false_r.
Qed.

(* ------------------------------------------------------------------ *)
(* single steps of the inner key loop                                   *)
(* ------------------------------------------------------------------ *)
Lemma inner_exit f path lazy i s :
  List.length path <= cm s \/ List.length (nkey (cur s)) <= i ->
  lbp (S f) path lazy (PInner i) s = lbp f path lazy PSelect s.
Proof.
  intros H. cbn [lbp]. destruct (Nat.ltb (cm s) (List.length path)) eqn:E1; cbn [negb]; [|reflexivity].
  destruct H as [H|H]; [apply Nat.ltb_lt in E1; lia|]. apply Nat.ltb_ge in H. rewrite H. reflexivity.
Qed.

Lemma inner_static_step f path lazy i s d c :
  nth_error (nkey (cur s)) i = Some d -> nth_error path (cm s) = Some c -> sbyte d = true ->
  lbp (S f) path lazy (PInner i) s =
  if Ascii.eqb d c && sbyte c then lbp f path lazy (PInner (S i)) (adv s 1) else lbp f path lazy PAfter s.
Proof.
  intros Hk Hp Hd. cbn [lbp].
  assert (i < List.length (nkey (cur s))) as Hi by (apply nth_error_Some; congruence).
  assert (cm s < List.length path) as Hc by (apply nth_error_Some; congruence).
  apply Nat.ltb_lt in Hi, Hc. rewrite Hi, Hc. cbn [negb]. rewrite Hk, Hp.
  unfold sbyte in Hd. apply andb_prop in Hd. destruct Hd as [H1 H2]. apply negb_true_iff in H1, H2.
  rewrite H1, H2. unfold sbyte.
  destruct (Ascii.eqb d c); cbn [negb orb andb].
  - destruct (Ascii.eqb c "{"); cbn [negb orb andb]; [reflexivity|].
    destruct (Ascii.eqb c "*"); cbn [negb orb andb]; reflexivity.
  - reflexivity.
Qed.

Definition pstate (lazy : bool) (s : st) (cm' adv : nat) (nm v : bytes) : st :=
  {| cur := cur s; par := par s; cm := cm'; cmn := cmn s + adv;
     pcnt := if lazy then pcnt s else S (pcnt s); pkc := S (pkc s); sks := sks s;
     ps := if lazy then ps s else ps s ++ [(nm, v)];
     tsr := tsr s; tn := tn s; tps := tps s |}.

Definition adv_of (prm : param) (s : st) : nat :=
  let rest := List.length (nkey (cur s)) - cmn s in
  match pend prm with
  | Some e => if Nat.leb (cmn s) e then e - cmn s else rest
  | None => rest end.

Lemma inner_param_step f path lazy i s c prm :
  nth_error (nkey (cur s)) i = Some "{" -> nth_error path (cm s) = Some c ->
  nth_error (nparams (cur s)) (pkc s) = Some prm ->
  lbp (S f) path lazy (PInner i) s =
  match index_byte (skipn (cm s) path) "/" with
  | Some O => lbp f path lazy PAfter s
  | idx =>
    let cm' := match idx with Some d => cm s + d | None => List.length path end in
    lbp f path lazy (PInner (i + adv_of prm s))
      (pstate lazy s cm' (adv_of prm s) (pkey prm) (slice path (cm s) cm'))
  end.
Proof.
  intros Hk Hp Hprm. cbn [lbp].
  assert (i < List.length (nkey (cur s))) as Hi by (apply nth_error_Some; congruence).
  assert (cm s < List.length path) as Hc by (apply nth_error_Some; congruence).
  apply Nat.ltb_lt in Hi, Hc. rewrite Hi, Hc. cbn [negb]. rewrite Hk, Hp.
  assert (negb (Ascii.eqb "{" c) || Ascii.eqb c "{" || Ascii.eqb c "*" = true) as ->.
  { rewrite (Ascii.eqb_sym "{" c). destruct (Ascii.eqb c "{"); reflexivity. }
  cbn [Ascii.eqb Bool.eqb andb]. rewrite Hprm.
  destruct (index_byte (skipn (cm s) path) "/") as [[|d]|]; reflexivity.
Qed.

Lemma extends_trans a b c : extends a b -> extends b c -> extends a c.
Proof.
  intros Hab Hbc. pose proof (extends_len _ _ Hab) as Hl. unfold extends in *.
  transitivity (firstn (List.length a) (firstn (List.length b) c)).
  - rewrite firstn_firstn. f_equal. lia.
  - rewrite Hbc. exact Hab.
Qed.

Lemma backs_step path lazy fuel ph s cost fuel1 ph1 s1 cost1 k :
  lbp fuel path lazy ph s = lbp fuel1 path lazy ph1 s1 ->
  backs path lazy fuel1 ph1 s1 cost1 ->
  sks s1 = sks s -> extends (ps s) (ps s1) -> fuel <= fuel1 + k -> cost1 + k <= cost ->
  backs path lazy fuel ph s cost.
Proof.
  intros He (fuel' & s' & He' & Hf & Hs & Hx & Ht & Hk) Hs1 Hx1 Hf1 Hc.
  exists fuel', s'. repeat split; auto; try congruence; try lia. eapply extends_trans; eauto.
Qed.

Lemma forallb_ptok_tok kt : forallb ptok_ok kt = true -> forallb tok_ok kt = true.
Proof.
  intros H. apply forallb_forall. intros t Ht. apply ptok_tok. rewrite forallb_forall in H. auto.
Qed.

Lemma param_info s done nm kt' :
  nkey (cur s) = render (done ++ TParam nm :: kt') -> forallb tok_ok (done ++ TParam nm :: kt') = true ->
  cmn s = List.length (render done) -> pkc s = cnt_wild done ->
  exists prm, nth_error (nparams (cur s)) (pkc s) = Some prm /\ pkey prm = nm /\
              adv_of prm s = List.length nm + 2.
Proof.
  intros Hk Hok Hcmn Hpkc. unfold nparams, parse_wildcard. rewrite Hk, pw_render by exact Hok.
  rewrite Hpkc. rewrite (pw_spec_nth done (TParam nm) kt' 0 (List.length (render done))) by auto.
  cbn [pw_spec hd_error]. eexists. split; [reflexivity|]. split; [reflexivity|].
  unfold adv_of. cbn [pend]. rewrite Hk, Hcmn, render_app, app_length.
  destruct kt' as [|t kt'].
  - change (render [TParam nm]) with (("{" :: nm ++ ["}"]) ++ []). rewrite app_nil_r.
    cbn [List.length]. rewrite app_length. simpl. lia.
  - replace (Nat.leb (List.length (render done)) (List.length (render done) + List.length nm + 2)) with true
      by (symmetry; apply Nat.leb_le; lia). lia.
Qed.

Lemma render_cons_len t kt : List.length (render (t :: kt)) = List.length (render_tok t) + List.length (render kt).
Proof. simpl. apply app_length. Qed.

Lemma render_tok_len_pos t : 1 <= List.length (render_tok t).
Proof. destruct t; simpl; lia. Qed.

Lemma forallb_app_l {A} (f : A -> bool) a b : forallb f (a ++ b) = true -> forallb f a = true /\ forallb f b = true.
Proof. rewrite forallb_app. intros H. apply andb_prop in H. exact H. Qed.

Ltac fin := eauto; try lia; try apply extends_refl; try (rewrite addp_nil; reflexivity); try reflexivity.

Lemma found_step path lazy fuel ph s l v0 vals1 fuel1 ph1 s1 :
  lbp fuel path lazy ph s = lbp fuel1 path lazy ph1 s1 ->
  found_as (lbp fuel1 path lazy ph1 s1) l (addp lazy (ps s1) vals1) ->
  ps s1 = addp lazy (ps s) v0 ->
  found_as (lbp fuel path lazy ph s) l (addp lazy (ps s) (v0 ++ vals1)).
Proof.
  intros He (l' & tps' & Hf & Hr) Hps. exists l', tps'. rewrite He, Hf, Hps, addp_addp. auto.
Qed.

(* ---- catch-all steps ---- *)
Lemma inner_catch_step f path lazy i s c prm :
  nth_error (nkey (cur s)) i = Some "*" -> nth_error path (cm s) = Some c ->
  nth_error (nparams (cur s)) (pkc s) = Some prm -> pend prm = None -> nchildren (cur s) = [] ->
  lbp (S f) path lazy (PInner i) s =
  Found (Some (cur s)) false (addp lazy (ps s) [(pkey prm, skipn (cm s) path)]) (tps s).
Proof.
  intros Hk Hp Hprm Hpe Hch. cbn [lbp].
  assert (i < List.length (nkey (cur s))) as Hi by (apply nth_error_Some; congruence).
  assert (cm s < List.length path) as Hc by (apply nth_error_Some; congruence).
  apply Nat.ltb_lt in Hi, Hc. rewrite Hi, Hc. cbn [negb]. rewrite Hk, Hp.
  assert (negb (Ascii.eqb "*" c) || Ascii.eqb c "{" || Ascii.eqb c "*" = true) as ->.
  { rewrite (Ascii.eqb_sym "*" c). destruct (Ascii.eqb c "*"); [apply orb_true_r|reflexivity]. }
  cbn [Ascii.eqb Bool.eqb andb]. rewrite Hprm, Hpe, Hch. reflexivity.
Qed.

Definition cstate (s : st) (d : nat) : st :=
  {| cur := cur s; par := par s; cm := cm s; cmn := cmn s + d; pcnt := pcnt s; pkc := pkc s;
     sks := sks s; ps := ps s; tsr := tsr s; tn := tn s; tps := tps s |}.

(* suffix catch-all on a leaf that has children: scan with the first child *)
Lemma inner_catchc_step f path lazy i s c prm c0 rest :
  nth_error (nkey (cur s)) i = Some "*" -> nth_error path (cm s) = Some c ->
  nth_error (nparams (cur s)) (pkc s) = Some prm -> pend prm = None -> nchildren (cur s) = c0 :: rest ->
  lbp (S f) path lazy (PInner i) s =
  lbp f path lazy (PCatch c0 (cm s)) (cstate s (List.length (nkey (cur s)) - cmn s)).
Proof.
  intros Hk Hp Hprm Hpe Hch. cbn [lbp].
  assert (i < List.length (nkey (cur s))) as Hi by (apply nth_error_Some; congruence).
  assert (cm s < List.length path) as Hc by (apply nth_error_Some; congruence).
  apply Nat.ltb_lt in Hi, Hc. rewrite Hi, Hc. cbn [negb]. rewrite Hk, Hp.
  assert (negb (Ascii.eqb "*" c) || Ascii.eqb c "{" || Ascii.eqb c "*" = true) as ->.
  { rewrite (Ascii.eqb_sym "*" c). destruct (Ascii.eqb c "*"); [apply orb_true_r|reflexivity]. }
  cbn [Ascii.eqb Bool.eqb andb]. rewrite Hprm, Hpe, Hch. reflexivity.
Qed.

(* infix catch-all: scan with the truncated copy of the node *)
Lemma inner_infix_step f path lazy i s c prm e ino :
  nth_error (nkey (cur s)) i = Some "*" -> nth_error path (cm s) = Some c ->
  nth_error (nparams (cur s)) (pkc s) = Some prm -> pend prm = Some e -> cmn s <= e ->
  inode (cur s) = Some ino ->
  lbp (S f) path lazy (PInner i) s = lbp f path lazy (PCatch ino (cm s)) (cstate s (e - cmn s)).
Proof.
  intros Hk Hp Hprm Hpe Hle Hino. cbn [lbp].
  assert (i < List.length (nkey (cur s))) as Hi by (apply nth_error_Some; congruence).
  assert (cm s < List.length path) as Hc by (apply nth_error_Some; congruence).
  apply Nat.ltb_lt in Hi, Hc. rewrite Hi, Hc. cbn [negb]. rewrite Hk, Hp.
  assert (negb (Ascii.eqb "*" c) || Ascii.eqb c "{" || Ascii.eqb c "*" = true) as ->.
  { rewrite (Ascii.eqb_sym "*" c). destruct (Ascii.eqb c "*"); [apply orb_true_r|reflexivity]. }
  cbn [Ascii.eqb Bool.eqb andb]. rewrite Hprm, Hpe. apply Nat.leb_le in Hle. rewrite Hle, Hino. reflexivity.
Qed.

Lemma catch_info s done nm kt' :
  nkey (cur s) = render (done ++ TCatch nm :: kt') -> forallb tok_ok (done ++ TCatch nm :: kt') = true ->
  pkc s = cnt_wild done ->
  exists prm, nth_error (nparams (cur s)) (pkc s) = Some prm /\ pkey prm = nm /\
    pend prm = match kt' with [] => None | _ => Some (List.length (render done) + List.length nm + 3) end.
Proof.
  intros Hk Hok Hpkc. unfold nparams, parse_wildcard. rewrite Hk, pw_render by exact Hok.
  rewrite Hpkc. rewrite (pw_spec_nth done (TCatch nm) kt' 0 (List.length (render done))) by auto.
  cbn [pw_spec hd_error]. eexists. split; [reflexivity|]. split; reflexivity.
Qed.

Lemma first_infix_render : forall done nm kt' pos, forallb ptok_ok done = true -> kt' <> [] ->
  first_infix_catch (pw_spec (done ++ TCatch nm :: kt') pos) = Some (pos + List.length (render done) + List.length nm + 3).
Proof.
  induction done as [|d done IH]; intros nm kt' pos Hok Hne.
  - simpl. destruct kt'; [congruence|]. simpl. f_equal. lia.
  - simpl in Hok. apply andb_prop in Hok. destruct Hok as [Hd Hok].
    destruct d as [c|pn|pn]; simpl in Hd; try discriminate.
    + simpl app. cbn [pw_spec]. rewrite IH by auto. f_equal. simpl. lia.
    + simpl app. cbn [pw_spec first_infix_catch pcatch]. rewrite IH by auto. f_equal.
      simpl. rewrite !app_length. simpl. lia.
Qed.

Lemma skipn_render_catch done nm kt' :
  skipn (List.length (render done) + List.length nm + 3) (render (done ++ TCatch nm :: kt')) = render kt'.
Proof.
  rewrite render_app. change (render (TCatch nm :: kt')) with (("*" :: "{" :: nm ++ ["}"]) ++ render kt').
  rewrite app_assoc.
  replace (List.length (render done) + List.length nm + 3) with (List.length (render done ++ "*" :: "{" :: nm ++ ["}"]))
    by (rewrite app_length; simpl; rewrite app_length; simpl; lia).
  rewrite skipn_app, skipn_all, Nat.sub_diag. reflexivity.
Qed.

Lemma inode_render n done nm kt' :
  nkey n = render (done ++ TCatch nm :: kt') -> forallb ptok_ok done = true ->
  forallb tok_ok (done ++ TCatch nm :: kt') = true -> kt' <> [] ->
  inode n = Some (Node (render kt') (nroute n) (nchildren n)).
Proof.
  intros Hk Hd Hok Hne. unfold inode, nparams, parse_wildcard. rewrite Hk, pw_render by exact Hok.
  rewrite first_infix_render by auto. simpl. rewrite skipn_render_catch. reflexivity.
Qed.

(* ---- the catch-all loop ---- *)
Definition with_cm (s : st) (c : nat) : st :=
  {| cur := cur s; par := par s; cm := c; cmn := cmn s; pcnt := pcnt s; pkc := pkc s;
     sks := sks s; ps := ps s; tsr := tsr s; tn := tn s; tps := tps s |}.

Lemma pcatch_found f path lazy ino start s prm d sn sps stps :
  nth_error (nparams (cur s)) (pkc s) = Some prm ->
  index_byte (skipn (cm s) path) "/" = Some (S d) ->
  lbp f (skipn (cm s + S d) path) false PWalk (init_st ino [] []) = Found (Some sn) false sps stps ->
  lbp (S f) path lazy (PCatch ino start) s =
  Found (Some sn) false (addp lazy (ps s) ((pkey prm, slice path start (cm s + S d)) :: sps)) (tps s).
Proof. intros Hprm Hidx Hsub. cbn [lbp]. rewrite Hprm, Hidx, Hsub. reflexivity. Qed.

Lemma pcatch_next f path lazy ino start s prm d tn' tsr' sps stps :
  nth_error (nparams (cur s)) (pkc s) = Some prm ->
  index_byte (skipn (cm s) path) "/" = Some (S d) ->
  lbp f (skipn (cm s + S d) path) false PWalk (init_st ino [] []) = Found tn' tsr' sps stps ->
  (tsr' = false -> tn' = None) -> tinv s ->
  exists s1, lbp (S f) path lazy (PCatch ino start) s = lbp f path lazy (PCatch ino start) (with_cm s1 (S (cm s + S d)))
             /\ same_core s s1 /\ tinv s1 /\ pcnt s1 = pcnt s /\ pkc s1 = pkc s.
Proof.
  intros Hprm Hidx Hsub Hnd Ht. cbn [lbp]. rewrite Hprm, Hidx, Hsub.
  destruct tn' as [sn|].
  - destruct tsr'; [|specialize (Hnd eq_refl); discriminate].
    destruct (tsr s) eqn:Ets.
    + exists s. split; [destruct s; reflexivity|]. repeat split; auto.
    + eexists. split; [reflexivity|]. repeat split. apply set_tsr_tinv.
  - exists s. split; [destruct s; reflexivity|]. repeat split; auto.
Qed.

Lemma pcatch_final_suffix f path lazy ino start s prm :
  nth_error (nparams (cur s)) (pkc s) = Some prm -> pend prm = None ->
  (index_byte (skipn (cm s) path) "/" = Some 0 \/ index_byte (skipn (cm s) path) "/" = None) ->
  lbp (S f) path lazy (PCatch ino start) s =
  Found (Some (cur s)) false (addp lazy (ps s) [(pkey prm, skipn start path)]) (tps s).
Proof.
  intros Hprm Hpe Hidx. cbn [lbp]. rewrite Hprm, Hpe. destruct Hidx as [-> | ->]; reflexivity.
Qed.

Lemma pcatch_final_infix f path lazy ino start s prm e :
  nth_error (nparams (cur s)) (pkc s) = Some prm -> pend prm = Some e -> start < List.length path ->
  (index_byte (skipn (cm s) path) "/" = Some 0 \/ index_byte (skipn (cm s) path) "/" = None) ->
  exists s1, lbp (S f) path lazy (PCatch ino start) s = lbp f path lazy PAfter s1 /\
    cur s1 = cur s /\ cmn s1 = cmn s /\ sks s1 = sks s /\ extends (ps s) (ps s1) /\
    tsr s1 = tsr s /\ tn s1 = tn s.
Proof.
  intros Hprm Hpe Hst Hidx. cbn [lbp]. rewrite Hprm, Hpe.
  destruct (nth_error path start) as [c0|] eqn:Ec; [|apply nth_error_None in Ec; lia].
  assert (forall (X : lres), match index_byte (skipn (cm s) path) "/" with Some (S d) => X | _ =>
            if Ascii.eqb c0 "/" then lbp f path lazy PAfter s
            else lbp f path lazy PAfter
                   {| cur := cur s; par := par s; cm := List.length path; cmn := cmn s; pcnt := pcnt s; pkc := pkc s;
                      sks := sks s; ps := if lazy then ps s else ps s ++ [(pkey prm, skipn start path)];
                      tsr := tsr s; tn := tn s; tps := tps s |} end =
          if Ascii.eqb c0 "/" then lbp f path lazy PAfter s
            else lbp f path lazy PAfter
                   {| cur := cur s; par := par s; cm := List.length path; cmn := cmn s; pcnt := pcnt s; pkc := pkc s;
                      sks := sks s; ps := if lazy then ps s else ps s ++ [(pkey prm, skipn start path)];
                      tsr := tsr s; tn := tn s; tps := tps s |}) as HX
    by (intros X; destruct Hidx as [-> | ->]; reflexivity).
  destruct Hidx as [Hi|Hi]; rewrite Hi; destruct (Ascii.eqb c0 "/").
  - exists s. repeat split; auto. apply extends_refl.
  - eexists. split; [reflexivity|]. cbn. repeat split; auto. apply (extends_addp_self lazy (ps s) [(pkey prm, skipn start path)]).
  - exists s. repeat split; auto. apply extends_refl.
  - eexists. split; [reflexivity|]. cbn. repeat split; auto. apply (extends_addp_self lazy (ps s) [(pkey prm, skipn start path)]).
Qed.

(* ------------------------------------------------------------------ *)
(* child selection and Backtrack steps                                  *)
(* ------------------------------------------------------------------ *)
Definition heads (l : list node) : list (option ascii) := map (fun c => hd_byte (nkey c)) l.

Lemma starts_with_hd c k : starts_with c k = true <-> hd_byte k = Some c.
Proof.
  destruct k as [|x k]; simpl; split; try discriminate.
  - intros H. apply Ascii.eqb_eq in H. congruence.
  - intros [= ->]. apply Ascii.eqb_refl.
Qed.

Lemma last_index_find c : forall l i acc, NoDup (heads l) ->
  last_index_from i c l acc = match find_child_from i c l with Some j => Some j | None => acc end.
Proof.
  induction l as [|x l IH]; intros i acc Hnd; simpl; auto.
  inversion Hnd as [|? ? Hni Hnd']; subst.
  destruct (starts_with c (nkey x)) eqn:E.
  - apply last_index_none. intros y Hy. destruct (starts_with c (nkey y)) eqn:Ey; auto.
    exfalso. apply Hni. apply starts_with_hd in E, Ey. rewrite E, <- Ey. exact (in_map (fun c0 => hd_byte (nkey c0)) l y Hy).
  - apply IH; auto.
Qed.

Lemma index_first c n : NoDup (heads (nchildren n)) ->
  match last_index_from 0 c (nchildren n) None with
  | Some j => nth_error (nchildren n) j = first_child c (nchildren n) /\ first_child c (nchildren n) <> None
  | None => first_child c (nchildren n) = None
  end.
Proof.
  intros Hnd. rewrite last_index_find by exact Hnd.
  pose proof (find_child_first n c) as H. unfold find_child in H.
  destruct (find_child_from 0 c (nchildren n)); auto.
Qed.

Lemma select_static_push f path lazy s c x pi :
  cm s < List.length path -> nth_error path (cm s) = Some c ->
  first_child c (nchildren (cur s)) = Some x ->
  param_child_index (cur s) = Some pi -> wildcard_child_index (cur s) = None ->
  lbp (S f) path lazy PSelect s = lbp f path lazy PWalk (descend (push s pi) x).
Proof.
  intros Hlt Hc Hx Hp Hw. cbn [lbp]. apply Nat.ltb_lt in Hlt. rewrite Hlt, Hc.
  pose proof (find_child_first (cur s) c) as Hf. destruct (find_child (cur s) c) as [j|].
  - destruct Hf as [Hj _]. rewrite Hp, Hw, Hj, Hx. reflexivity.
  - congruence.
Qed.

Lemma select_param f path lazy s c y pi :
  cm s < List.length path -> nth_error path (cm s) = Some c ->
  first_child c (nchildren (cur s)) = None ->
  param_child_index (cur s) = Some pi -> nth_error (nchildren (cur s)) pi = Some y ->
  wildcard_child_index (cur s) = None -> tinv s ->
  exists s1, lbp (S f) path lazy PSelect s = lbp f path lazy PWalk (descend s1 y)
             /\ same_core s s1 /\ tinv s1 /\ pcnt s1 = pcnt s.
Proof.
  intros Hlt Hc Hx Hp Hy Hw Ht. cbn [lbp]. apply Nat.ltb_lt in Hlt. rewrite Hlt, Hc.
  pose proof (find_child_first (cur s) c) as Hf. destruct (find_child (cur s) c) as [j|].
  - destruct Hf as [_ Hj]. congruence.
  - match goal with |- context [if ?b then set_tsr lazy s (cur s) (ps s) else s] => destruct b end.
    + change (cur (set_tsr lazy s (cur s) (ps s))) with (cur s). rewrite Hp, Hw, Hy.
      eexists; split; [reflexivity|]. split; [apply set_tsr_core|]. split; [apply set_tsr_tinv|reflexivity].
    + rewrite Hp, Hw, Hy. eexists; split; [reflexivity|]. split; [apply same_core_refl|]. split; auto.
Qed.

Definition popped (s : st) (sk : skipped) (rest : list skipped) (y : node) : st :=
  {| cur := y; par := Some (sk_n sk); cm := sk_path sk; cmn := cmn s; pcnt := sk_pcnt sk; pkc := pkc s;
     sks := rest; ps := firstn (sk_pcnt sk) (ps s); tsr := tsr s; tn := tn s; tps := tps s |}.

Lemma back_pop f path lazy s sk rest y :
  sks s = sk :: rest -> nth_error (nchildren (sk_n sk)) (sk_child sk) = Some y ->
  sk_pcnt sk <= List.length (ps s) ->
  lbp (S f) path lazy PBack s = lbp f path lazy PWalk (popped s sk rest y).
Proof.
  intros Hs Hy Hle. cbn [lbp]. rewrite Hs, Hy. apply Nat.ltb_ge in Hle. rewrite Hle. reflexivity.
Qed.

(* ------------------------------------------------------------------ *)
(* tokenize inverts render                                              *)
(* ------------------------------------------------------------------ *)
Lemma take_name_render : forall nm rest, name_ok nm = true -> take_name (nm ++ "}" :: rest) = (nm, rest).
Proof.
  induction nm as [|c nm IH]; intros rest Hok.
  - reflexivity.
  - unfold name_ok in Hok. simpl in Hok. apply negb_true_iff in Hok. apply orb_false_elim in Hok.
    destruct Hok as [Hc Hok].
    assert (Ascii.eqb c "}" = false) as Hc' by (rewrite Ascii.eqb_sym; exact Hc).
    cbn [app take_name]. rewrite Hc'. rewrite IH; [reflexivity|]. unfold name_ok. rewrite Hok. reflexivity.
Qed.

Lemma tokenize_fuel_render : forall kt f, forallb tok_ok kt = true -> List.length kt <= f ->
  tokenize_fuel f (render kt) = kt.
Proof.
  induction kt as [|t kt IH]; intros f Hok Hf.
  - destruct f; reflexivity.
  - destruct f as [|f]; [simpl in Hf; lia|]. simpl in Hok. apply andb_prop in Hok. destruct Hok as [Ht Hok].
    simpl in Hf. destruct t as [c|nm|nm]; simpl in Ht.
    + change (render (TStatic c :: kt)) with (c :: render kt). rewrite tokenize_step by exact Ht.
      f_equal. apply IH; auto. lia.
    + change (render (TParam nm :: kt)) with ("{" :: (nm ++ ["}"]) ++ render kt). rewrite <- app_assoc.
      cbn [tokenize_fuel]. simpl app. rewrite take_name_render by exact Ht. f_equal. apply IH; auto. lia.
    + change (render (TCatch nm :: kt)) with ("*" :: "{" :: (nm ++ ["}"]) ++ render kt). rewrite <- app_assoc.
      cbn [tokenize_fuel]. simpl app. rewrite take_name_render by exact Ht. f_equal. apply IH; auto. lia.
Qed.

Lemma render_len_ge kt : List.length kt <= List.length (render kt).
Proof.
  induction kt as [|t kt IH]; simpl; auto. rewrite app_length. pose proof (render_tok_len_pos t). lia.
Qed.

Lemma tokenize_render kt : forallb tok_ok kt = true -> tokenize (render kt) = kt.
Proof. intros H. apply tokenize_fuel_render; auto. pose proof (render_len_ge kt). lia. Qed.

(* ------------------------------------------------------------------ *)
(* M2: DFS matcher without an explicit stack                            *)
(* ------------------------------------------------------------------ *)
Definition mres := option (node * list kv).
Definition with_vals (vals : list kv) (r : mres) : mres :=
  match r with Some (l, v2) => Some (l, vals ++ v2) | None => None end.
Definition alt (a b : mres) : mres := match a with Some _ => a | None => b end.

(* the catch-all loop: q = rest of the path from the current segment start, v = value so far.
   At each '/' that ends a non-empty segment try [sub] on the rest (which starts with that '/');
   stop at an empty segment or at the end of the path. *)
Fixpoint scan (fuel : nat) (sub fin : bytes -> mres) (nm : bytes) (v q : bytes) : mres :=
  match fuel with
  | O => None
  | S f =>
    match index_byte q "/" with
    | Some (S d) =>
        let sg := firstn (S d) q in
        let q' := skipn (S d) q in
        match sub q' with
        | Some (l, kvs) => Some (l, (nm, v ++ sg) :: kvs)
        | None => scan f sub fin nm (v ++ sg ++ ["/"]) (skipn 1 q')
        end
    | _ => fin (v ++ q)
    end
  end.

(* matching the tokens of one key; K = what happens once the key is consumed; sub0 = matcher of
   the first child (used when the key ends with a catch-all and the node has children) *)
Section KM.
  Variable self : node.
  Variable K : bytes -> mres.
  Variable sub0 : option (bytes -> mres).
  Fixpoint km (kt : list token) (p : bytes) : mres :=
    match kt with
    | [] => K p
    | t :: kt' =>
      match p with
      | [] => None
      | c :: p' =>
        match t with
        | TStatic d => if Ascii.eqb d c && sbyte c then km kt' p' else None
        | TParam nm =>
            match seg is_slash p with
            | [] => None
            | v => with_vals [(nm, v)] (km kt' (skipn (List.length v) p))
            end
        | TCatch nm =>
            match kt' with
            | [] => match sub0 with
                    | None => Some (self, [(nm, p)])
                    | Some sb => scan (S (List.length p)) sb (fun v => Some (self, [(nm, v)])) nm [] p
                    end
            | _ => scan (S (List.length p)) (fun q => km kt' q) (fun _ => None) nm [] p
            end
        end
      end
    end.
End KM.

Fixpoint m2 (n : node) (p : bytes) : mres :=
  match n with
  | Node k r ch =>
    let try := fix go (cc : ascii) (l : list node) (q : bytes) {struct l} : mres :=
                 match l with
                 | [] => None
                 | x :: l' => if starts_with cc (nkey x) then m2 x q else go cc l' q
                 end in
    let K := fun rest =>
               match rest with
               | [] => match r with Some _ => Some (n, []) | None => None end
               | c :: _ => alt (try c ch rest) (alt (try "{" ch rest) (try "*" ch rest))
               end in
    let sub0 := match ch with c0 :: _ => Some (m2 c0) | [] => None end in
    km n K sub0 (tokenize k) p
  end.

Definition m2_child (cc : ascii) (ch : list node) (p : bytes) : mres :=
  match first_child cc ch with Some x => m2 x p | None => None end.

(* the continuation at the end of a key: leaf test, or the children in DFS order *)
Definition Kof (n : node) (rest : bytes) : mres :=
  match rest with
  | [] => match nroute n with Some _ => Some (n, []) | None => None end
  | c :: _ => alt (m2_child c (nchildren n) rest) (alt (m2_child "{" (nchildren n) rest) (m2_child "*" (nchildren n) rest))
  end.
Definition sub0of (ch : list node) : option (bytes -> mres) :=
  match ch with c0 :: _ => Some (m2 c0) | [] => None end.

Lemma km_ext self K K' sub0 : (forall q, K q = K' q) -> forall kt p, km self K sub0 kt p = km self K' sub0 kt p.
Proof.
  intros HK. induction kt as [|t kt IH]; intros p; cbn [km]; auto.
  destruct p as [|c p']; auto. destruct t as [d|nm|nm].
  - destruct (Ascii.eqb d c && sbyte c); auto.
  - destruct (seg is_slash (c :: p')); auto. rewrite IH. reflexivity.
  - destruct kt as [|t' kt']; auto.
    assert (forall fuel v q, scan fuel (fun q0 => km self K sub0 (t' :: kt') q0) (fun _ => None) nm v q =
                             scan fuel (fun q0 => km self K' sub0 (t' :: kt') q0) (fun _ => None) nm v q) as Hs.
    { induction fuel as [|f IHf]; intros v q; [reflexivity|]. cbn [scan].
      destruct (index_byte q "/") as [[|d]|]; auto. rewrite IH.
      destruct (km self K' sub0 (t' :: kt') (skipn (S d) q)) as [[l kvs]|]; auto. }
    apply Hs.
Qed.

Lemma m2_eq k r ch p :
  m2 (Node k r ch) p = km (Node k r ch) (Kof (Node k r ch)) (sub0of ch) (tokenize k) p.
Proof.
  cbn [m2]. apply km_ext. intros q. unfold Kof. cbn [nroute nchildren]. destruct q as [|c q']; auto.
  assert (forall cc, (fix go (cc : ascii) (l : list node) (q : bytes) {struct l} : mres :=
                        match l with
                        | [] => None
                        | x :: l' => if starts_with cc (nkey x) then m2 x q else go cc l' q
                        end) cc ch (c :: q') = m2_child cc ch (c :: q')) as H.
  { intros cc. unfold m2_child. induction ch as [|x ch IH]; simpl; auto. destruct (starts_with cc (nkey x)); auto. }
  rewrite !H. reflexivity.
Qed.

(* a key may end with a catch-all only on a leaf whose children, if any, are one "/..." child *)
Definition cend (r : option route) (ch : list node) : bool :=
  match r with
  | Some _ => match ch with [] => true | [c0] => starts_with "/" (nkey c0) | _ => false end
  | None => false
  end.

(* invariant: keys are whole tokens (static bytes, {name}, *{name}); sibling keys start with
   pairwise distinct bytes (hence at most one parameter child and one catch-all child); a leaf's
   pattern is the concatenation of the keys on its branch *)
Inductive pwf : bytes -> node -> Prop :=
| PWF pre k r ch kt :
    kt <> [] -> k = render kt -> kt_ok (cend r ch) kt = true ->
    (forall rt, r = Some rt -> rpat rt = pre ++ k) ->
    NoDup (heads ch) ->
    Forall (pwf (pre ++ k)) ch ->
    pwf pre (Node k r ch).

Lemma pwf_inv pre k r ch : pwf pre (Node k r ch) ->
  exists kt, kt <> [] /\ k = render kt /\ kt_ok (cend r ch) kt = true /\
             (forall rt, r = Some rt -> rpat rt = pre ++ k) /\ NoDup (heads ch) /\ Forall (pwf (pre ++ k)) ch.
Proof. inversion 1; subst. exists kt. auto 7. Qed.

Lemma cend_leaf r ch : cend r ch = true -> r <> None.
Proof. destruct r; simpl; try discriminate. Qed.
Lemma cend_children r ch : cend r ch = true -> ch = [] \/ exists c0, ch = [c0] /\ starts_with "/" (nkey c0) = true.
Proof. destruct r; simpl; [|discriminate]. destruct ch as [|c0 [|c1 ch]]; auto; [|discriminate]. intros H. right. exists c0. auto. Qed.

(* fuel: L bounds the length of the request path *)
Fixpoint kcost (L Csel C0 : nat) (kt : list token) : nat :=
  match kt with
  | [] => Csel + 4
  | TCatch _ :: kt' => 8 + (L + 2) * (8 + match kt' with [] => C0 | _ => kcost L Csel C0 kt' end)
  | _ :: kt' => 6 + kcost L Csel C0 kt'
  end.

Fixpoint ncost (L : nat) (n : node) : nat :=
  match n with
  | Node k r ch =>
      6 + kcost L (3 * (fix sum (l : list node) : nat :=
                          match l with [] => 0 | x :: l' => S (ncost L x) + sum l' end) ch + 14)
                  (match ch with c0 :: _ => ncost L c0 + 8 | [] => 0 end) (tokenize k)
  end.
Fixpoint ncost_sum (L : nat) (l : list node) : nat :=
  match l with [] => 0 | x :: l' => S (ncost L x) + ncost_sum L l' end.
Definition c0cost (L : nat) (ch : list node) : nat := match ch with c0 :: _ => ncost L c0 + 8 | [] => 0 end.
Lemma ncost_eq L k r ch : ncost L (Node k r ch) = 6 + kcost L (3 * ncost_sum L ch + 14) (c0cost L ch) (tokenize k).
Proof.
  cbn [ncost].
  assert ((fix sum (l : list node) : nat := match l with [] => 0 | x :: l' => S (ncost L x) + sum l' end) ch = ncost_sum L ch) as ->.
  { induction ch as [|x ch IH]; simpl; auto. }
  reflexivity.
Qed.
Lemma ncost_in L x ch : In x ch -> S (ncost L x) <= ncost_sum L ch.
Proof. induction ch as [|y ch IH]; simpl; [tauto|]. intros [->|H]; [lia|]. apply IH in H. lia. Qed.

(* ------------------------------------------------------------------ *)
(* M1 = M2                                                              *)
(* ------------------------------------------------------------------ *)
Definition reset_cmn (s : st) : st :=
  {| cur := cur s; par := par s; cm := cm s; cmn := 0; pcnt := pcnt s; pkc := pkc s; sks := sks s;
     ps := ps s; tsr := tsr s; tn := tn s; tps := tps s |}.

Lemma walk_lt' f path lazy s : cm s < List.length path ->
  lbp (S f) path lazy PWalk s = lbp f path lazy (PInner 0) (reset_cmn s).
Proof. exact (walk_lt f path lazy s). Qed.

Definition optl {A} (o : option A) : list A := match o with Some x => [x] | None => [] end.

Fixpoint push_all (s : st) (idxs : list nat) : st :=
  match idxs with [] => s | i :: r => push (push_all s r) i end.

Definition entry (s : st) (i : nat) : skipped :=
  {| sk_n := cur s; sk_path := cm s; sk_pcnt := pcnt s; sk_child := i |}.

Lemma push_all_core s idxs :
  cur (push_all s idxs) = cur s /\ par (push_all s idxs) = par s /\ cm (push_all s idxs) = cm s /\
  cmn (push_all s idxs) = cmn s /\ pcnt (push_all s idxs) = pcnt s /\ pkc (push_all s idxs) = pkc s /\
  ps (push_all s idxs) = ps s /\ tsr (push_all s idxs) = tsr s /\ tn (push_all s idxs) = tn s.
Proof. induction idxs as [|i r IH]; simpl; tauto. Qed.

Lemma push_all_sks s idxs : sks (push_all s idxs) = map (entry s) idxs ++ sks s.
Proof.
  induction idxs as [|i r IH]; simpl; auto.
  destruct (push_all_core s r) as (H1 & _ & H3 & _ & H5 & _).
  rewrite IH, H1, H3, H5. reflexivity.
Qed.

(* the alternatives tried at a node, in order: static child, parameter child, catch-all child *)
Definition alts_nodes (c : ascii) (ch : list node) : list node :=
  optl (first_child c ch) ++ optl (first_child "{" ch) ++ optl (first_child "*" ch).

Lemma select_alts f path lazy s c :
  cm s < List.length path -> nth_error path (cm s) = Some c ->
  NoDup (heads (nchildren (cur s))) -> tinv s ->
  exists s1 es, map snd es = alts_nodes c (nchildren (cur s)) /\
    (forall e, In e es -> nth_error (nchildren (cur s)) (fst e) = Some (snd e)) /\
    same_core s s1 /\ tinv s1 /\ pcnt s1 = pcnt s /\
    lbp (S f) path lazy PSelect s =
    match es with
    | [] => lbp f path lazy PAfter s1
    | e1 :: rest => lbp f path lazy PWalk (descend (push_all s1 (map fst rest)) (snd e1))
    end.
Proof.
  intros Hlt Hc Hnd Ht. cbn [lbp]. apply Nat.ltb_lt in Hlt. rewrite Hlt, Hc.
  pose proof (find_child_first (cur s) c) as Hfc.
  pose proof (index_first "{" (cur s) Hnd) as Hpc.
  pose proof (index_first "*" (cur s) Hnd) as Hwc.
  change (last_index_from 0 "{" (nchildren (cur s)) None) with (param_child_index (cur s)) in Hpc.
  change (last_index_from 0 "*" (nchildren (cur s)) None) with (wildcard_child_index (cur s)) in Hwc.
  unfold alts_nodes.
  destruct (find_child (cur s) c) as [i|].
  - destruct Hfc as [Hfi Hfn]. destruct (first_child c (nchildren (cur s))) as [x|] eqn:Ex; [|congruence].
    rewrite Hfi.
    destruct (param_child_index (cur s)) as [pi|]; destruct (wildcard_child_index (cur s)) as [wi|].
    + destruct Hpc as [Hp1 Hp2]. destruct Hwc as [Hw1 Hw2].
      destruct (first_child "{" (nchildren (cur s))) as [y|] eqn:Ey; [|congruence].
      destruct (first_child "*" (nchildren (cur s))) as [w|] eqn:Ew; [|congruence].
      exists s, [(i, x); (pi, y); (wi, w)]. simpl. repeat split; auto.
      intros e [<-|[<-|[<-|[]]]]; auto.
    + destruct Hpc as [Hp1 Hp2]. rewrite Hwc.
      destruct (first_child "{" (nchildren (cur s))) as [y|] eqn:Ey; [|congruence].
      exists s, [(i, x); (pi, y)]. simpl. repeat split; auto.
      intros e [<-|[<-|[]]]; auto.
    + destruct Hwc as [Hw1 Hw2]. rewrite Hpc.
      destruct (first_child "*" (nchildren (cur s))) as [w|] eqn:Ew; [|congruence].
      exists s, [(i, x); (wi, w)]. simpl. repeat split; auto.
      intros e [<-|[<-|[]]]; auto.
    + rewrite Hpc, Hwc. exists s, [(i, x)]. simpl. repeat split; auto.
      intros e [<-|[]]; auto.
  - rewrite Hfc.
    match goal with |- context [if ?b then set_tsr lazy s (cur s) (ps s) else s] =>
      set (s1 := if b then set_tsr lazy s (cur s) (ps s) else s) end.
    assert (Hs1 : same_core s s1 /\ tinv s1 /\ pcnt s1 = pcnt s /\ cur s1 = cur s).
    { unfold s1. match goal with |- context [if ?b then _ else _] => destruct b end.
      - repeat split. apply set_tsr_tinv.
      - repeat split. exact Ht. }
    destruct Hs1 as (Hcore & Ht1 & Hpc1 & Hcur1). rewrite Hcur1.
    pose proof Hcore as (Hco1 & Hco2 & Hco3 & Hco4 & Hco5 & Hco6).
    destruct (param_child_index (cur s)) as [pi|]; destruct (wildcard_child_index (cur s)) as [wi|].
    + destruct Hpc as [Hp1 Hp2]. destruct Hwc as [Hw1 Hw2].
      destruct (first_child "{" (nchildren (cur s))) as [y|] eqn:Ey; [|congruence].
      destruct (first_child "*" (nchildren (cur s))) as [w|] eqn:Ew; [|congruence].
      rewrite Hp1. exists s1, [(pi, y); (wi, w)]. simpl. repeat split; auto.
      intros e [<-|[<-|[]]]; auto.
    + destruct Hpc as [Hp1 Hp2]. rewrite Hwc.
      destruct (first_child "{" (nchildren (cur s))) as [y|] eqn:Ey; [|congruence].
      rewrite Hp1. exists s1, [(pi, y)]. simpl. repeat split; auto.
      intros e [<-|[]]; auto.
    + destruct Hwc as [Hw1 Hw2]. rewrite Hpc.
      destruct (first_child "*" (nchildren (cur s))) as [w|] eqn:Ew; [|congruence].
      rewrite Hw1. exists s1, [(wi, w)]. simpl. repeat split; auto.
      intros e [<-|[]]; auto.
    + rewrite Hpc, Hwc. exists s1, []. simpl. repeat split; auto. intros e [].
Qed.

(* L bounds the length of every path looked up (sub-lookups of a catch-all see suffixes) *)
Definition walk_ok (L : nat) (y : node) : Prop :=
  forall lazy path fuel s, List.length path <= L ->
  cur s = y -> cm s < List.length path -> pkc s = 0 -> pcnt s = List.length (ps s) -> tinv s ->
  ncost L y <= fuel ->
  match m2 y (skipn (cm s) path) with
  | Some (l, vals) => found_as (lbp fuel path lazy PWalk s) l (addp lazy (ps s) vals)
  | None => backs path lazy fuel PWalk s (ncost L y)
  end.

(* a result that is not a direct hit *)
Definition nodirect2 (r : lres) : Prop :=
  exists tn' tsr' ps' tps', r = Found tn' tsr' ps' tps' /\ (tsr' = false -> tn' = None).

(* a complete lookup from a fresh state (what the catch-all loop runs on the rest of the path) *)
Definition fresh_ok (L : nat) (ino : node) (sub : bytes -> mres) (C : nat) : Prop :=
  forall q fuel, List.length q <= L -> C <= fuel ->
  match sub q with
  | Some (l, v) => found_as (lbp fuel q false PWalk (init_st ino [] [])) l v
  | None => nodirect2 (lbp fuel q false PWalk (init_st ino [] []))
  end.

Fixpoint first_some (l : list mres) : mres := match l with [] => None | a :: r => alt a (first_some r) end.
Fixpoint es_cost (L : nat) (es : list (nat * node)) : nat :=
  match es with [] => 0 | e :: r => S (ncost L (snd e)) + es_cost L r end.

Lemma alt_none_r a : alt a None = a.
Proof. destruct a; reflexivity. Qed.

Lemma alts_first_some c ch q :
  alt (m2_child c ch q) (alt (m2_child "{" ch q) (m2_child "*" ch q)) =
  first_some (map (fun x => m2 x q) (alts_nodes c ch)).
Proof.
  unfold m2_child, alts_nodes.
  destruct (first_child c ch), (first_child "{" ch), (first_child "*" ch); simpl; rewrite ?alt_none_r; reflexivity.
Qed.

(* Backtrack through the remaining alternatives of one node *)
Lemma pop_alts L path lazy parent cmv ps0 sks0 : List.length path <= L -> forall es fuel s2,
  sks s2 = map (fun e => {| sk_n := parent; sk_path := cmv; sk_pcnt := List.length ps0; sk_child := fst e |}) es ++ sks0 ->
  (forall e, In e es -> nth_error (nchildren parent) (fst e) = Some (snd e) /\ walk_ok L (snd e)) ->
  extends ps0 (ps s2) -> tinv s2 -> pkc s2 = 0 -> cmv < List.length path -> es_cost L es <= fuel ->
  match first_some (map (fun e => m2 (snd e) (skipn cmv path)) es) with
  | Some (l, v2) => found_as (lbp fuel path lazy PBack s2) l (addp lazy ps0 v2)
  | None => exists fuel' s3, lbp fuel path lazy PBack s2 = lbp fuel' path lazy PBack s3 /\
              fuel <= fuel' + es_cost L es /\ sks s3 = sks0 /\ extends ps0 (ps s3) /\ tinv s3 /\ pkc s3 = 0
  end.
Proof.
  intros HL. induction es as [|e es IH]; intros fuel s2 Hsk Hes Hx Ht Hk Hcm Hf.
  - simpl. exists fuel, s2. simpl in Hsk. repeat split; auto. simpl; lia.
  - cbn [map first_some es_cost] in *.
    destruct (Hes e (or_introl eq_refl)) as [Hnth Hwalk].
    destruct fuel as [|f]; [lia|].
    set (sk := {| sk_n := parent; sk_path := cmv; sk_pcnt := List.length ps0; sk_child := fst e |}) in *.
    set (rest := map (fun e0 => {| sk_n := parent; sk_path := cmv; sk_pcnt := List.length ps0; sk_child := fst e0 |}) es ++ sks0) in *.
    assert (Hpop : lbp (S f) path lazy PBack s2 = lbp f path lazy PWalk (popped s2 sk rest (snd e))).
    { apply back_pop; auto. simpl. apply extends_len. exact Hx. }
    set (s3 := popped s2 sk rest (snd e)) in *.
    assert (Hps3 : ps s3 = ps0) by exact Hx.
    pose proof (Hwalk lazy path f s3 HL eq_refl Hcm Hk) as Hw. rewrite Hps3 in Hw.
    specialize (Hw eq_refl Ht ltac:(lia)). change (cm s3) with cmv in Hw.
    destruct (m2 (snd e) (skipn cmv path)) as [[l v2]|].
    + cbn [alt]. destruct Hw as (l' & tps' & E & Er). exists l', tps'. rewrite Hpop, E. auto.
    + cbn [alt]. destruct Hw as (f4 & s4 & He4 & Hf4 & Hsk4 & Hx4 & Ht4 & Hk4).
      change (sks s3) with rest in Hsk4. rewrite Hps3 in Hx4.
      specialize (IH f4 s4 Hsk4 (fun e0 H0 => Hes e0 (or_intror H0)) Hx4 Ht4 Hk4 Hcm ltac:(lia)).
      destruct (first_some (map (fun e0 => m2 (snd e0) (skipn cmv path)) es)) as [[l v2]|].
      * destruct IH as (l' & tps' & E & Er). exists l', tps'. rewrite Hpop, He4, E. auto.
      * destruct IH as (f5 & s5 & He5 & Hf5 & Hsk5 & Hx5 & Ht5 & Hk5).
        exists f5, s5. split; [rewrite Hpop, He4; exact He5|]. repeat split; auto. lia.
Qed.

Lemma es_cost_le L ch : forall es, (forall e, In e es -> In (snd e) ch) ->
  List.length es <= 3 -> es_cost L es <= 3 * ncost_sum L ch.
Proof.
  intros es Hin Hlen.
  assert (forall e, In e es -> S (ncost L (snd e)) <= ncost_sum L ch) as H by (intros e He; apply ncost_in; auto).
  destruct es as [|e1 [|e2 [|e3 [|e4 es]]]]; simpl in *; try lia.
  - pose proof (H e1 (or_introl eq_refl)). lia.
  - pose proof (H e1 (or_introl eq_refl)). pose proof (H e2 (or_intror (or_introl eq_refl))). lia.
  - pose proof (H e1 (or_introl eq_refl)). pose proof (H e2 (or_intror (or_introl eq_refl))).
    pose proof (H e3 (or_intror (or_intror (or_introl eq_refl)))). lia.
Qed.

Lemma alts_nodes_len c ch : List.length (alts_nodes c ch) <= 3.
Proof. unfold alts_nodes. destruct (first_child c ch), (first_child "{" ch), (first_child "*" ch); simpl; lia. Qed.

(* what happens at PSelect once the key of the current node (a tree node or its truncated copy) has
   been consumed *)
Definition sel_ok (L : nat) (n : node) (Csel : nat) : Prop :=
  forall lazy path fuel s', List.length path <= L ->
  nroute (cur s') = nroute n -> nchildren (cur s') = nchildren n ->
  cmn s' = List.length (nkey (cur s')) -> cm s' <= List.length path ->
  pcnt s' = List.length (ps s') -> tinv s' -> Csel <= fuel ->
  match Kof n (skipn (cm s') path) with
  | Some (l, v2) => found_as (lbp fuel path lazy PSelect s') l (addp lazy (ps s') v2)
  | None => backs path lazy fuel PSelect s' Csel
  end.

Lemma sel_ok_node L n : NoDup (heads (nchildren n)) -> (forall x, In x (nchildren n) -> walk_ok L x) ->
  sel_ok L n (3 * ncost_sum L (nchildren n) + 14).
Proof.
  intros Hnd Hwalk lazy path f2 s' HL Hrt Hch' Hcmn' Hcm' Hpc' Ht' Hf2.
  set (ch := nchildren n) in *.
  destruct (skipn (cm s') path) as [|c rest'] eqn:Hrest.
  - (* the path ends with this key *)
    apply skipn_nil_len in Hrest. cbn [Kof].
    destruct f2 as [|[|f3]]; try lia.
    pose proof (select_ge f3 path lazy s' Hrest) as Hsel.
    destruct (nroute n) as [rt|] eqn:Er.
    + destruct f3 as [|f4]; [lia|].
      exists (cur s'), (tps s'). rewrite Hsel.
      rewrite after_found; [| unfold is_leaf; rewrite Hrt; reflexivity | lia | exact Hcmn'].
      rewrite addp_nil. split; [reflexivity|]. congruence.
    + eapply (backs_step path lazy (S (S f3)) PSelect s' _ f3 PAfter s' 1 2).
      * exact Hsel.
      * apply backs_after; auto; try lia. unfold is_leaf. rewrite Hrt. reflexivity.
      * reflexivity.
      * apply extends_refl.
      * lia.
      * lia.
  - (* the path continues: children, in the order static, parameter, catch-all *)
    pose proof (skipn_cons_nth _ _ _ _ Hrest) as (Hnc & _ & Hlt').
    cbn [Kof]. fold ch.
    destruct f2 as [|f3]; [lia|].
    destruct (select_alts f3 path lazy s' c Hlt' Hnc) as (s1 & es & Hmap & Hnth & Hcore & Ht1 & Hpc1 & Hsel); auto.
    { rewrite Hch'. exact Hnd. }
    rewrite Hch' in Hmap, Hnth.
    destruct Hcore as (Hc1 & _ & Hcm1 & _ & Hsk1 & Hps1).
    rewrite alts_first_some, <- Hmap, map_map.
    assert (Hes : forall e, In e es -> nth_error (nchildren (cur s1)) (fst e) = Some (snd e) /\ walk_ok L (snd e)).
    { intros e He0. pose proof (Hnth e He0) as Hn. split; [rewrite Hc1, Hch'; exact Hn|].
      apply nth_error_In in Hn. apply Hwalk. exact Hn. }
    assert (Hescost : es_cost L es <= 3 * ncost_sum L ch).
    { apply es_cost_le.
      - intros e He0. eapply nth_error_In. apply Hnth; exact He0.
      - rewrite <- (map_length snd), Hmap. apply alts_nodes_len. }
    destruct es as [|e1 rest].
    + (* no child to try *)
      cbn [map first_some].
      eapply (backs_step path lazy (S f3) PSelect s' _ f3 PAfter s1 1 2).
      * exact Hsel.
      * apply backs_after; auto; try lia. apply cm_lt_nofound. lia.
      * congruence.
      * rewrite Hps1. apply extends_refl.
      * lia.
      * lia.
    + cbn [map first_some].
      set (sd := descend (push_all s1 (map fst rest)) (snd e1)) in *.
      destruct (push_all_core s1 (map fst rest)) as (Hq1 & Hq2 & Hq3 & Hq4 & Hq5 & Hq6 & Hq7 & Hq8 & Hq9).
      destruct (Hes e1 (or_introl eq_refl)) as [_ Hwalk1].
      cbn [es_cost] in Hescost.
      pose proof (Hwalk1 lazy path f3 sd HL eq_refl) as H1.
      change (cm sd) with (cm (push_all s1 (map fst rest))) in H1.
      change (ps sd) with (ps (push_all s1 (map fst rest))) in H1.
      change (pcnt sd) with (pcnt (push_all s1 (map fst rest))) in H1.
      rewrite Hq3, Hq5, Hq7, Hcm1, Hps1, Hpc1 in H1.
      assert (Htd : tinv sd).
      { unfold tinv. change (tsr sd) with (tsr (push_all s1 (map fst rest))).
        change (tn sd) with (tn (push_all s1 (map fst rest))). rewrite Hq8, Hq9. exact Ht1. }
      specialize (H1 Hlt' eq_refl Hpc' Htd ltac:(lia)). rewrite Hrest in H1.
      destruct (m2 (snd e1) (c :: rest')) as [[l v2]|].
      * cbn [alt]. destruct H1 as (l' & tps' & E & Er). exists l', tps'. rewrite Hsel, E. auto.
      * cbn [alt].
        destruct H1 as (f4 & s2 & He2 & Hf4 & Hsk2 & Hx2 & Ht2 & Hk2).
        change (sks sd) with (sks (push_all s1 (map fst rest))) in Hsk2. rewrite push_all_sks in Hsk2.
        change (ps sd) with (ps (push_all s1 (map fst rest))) in Hx2. rewrite Hq7, Hps1 in Hx2.
        pose proof (pop_alts L path lazy (cur s1) (cm s1) (ps s') (sks s1) HL rest f4 s2) as Hpop.
        assert (Hsk2' : sks s2 = map (fun e => {| sk_n := cur s1; sk_path := cm s1; sk_pcnt := List.length (ps s');
                                                   sk_child := fst e |}) rest ++ sks s1).
        { rewrite Hsk2, map_map. unfold entry. rewrite Hpc1, Hpc'. reflexivity. }
        specialize (Hpop Hsk2' (fun e0 H0 => Hes e0 (or_intror H0)) Hx2 Ht2 Hk2 ltac:(lia) ltac:(lia)).
        rewrite Hcm1, Hrest in Hpop.
        destruct (first_some (map (fun e => m2 (snd e) (c :: rest')) rest)) as [[l v2]|].
        -- destruct Hpop as (l' & tps' & E & Er). exists l', tps'. rewrite Hsel, He2, E. auto.
        -- destruct Hpop as (f5 & s5 & He5 & Hf5 & Hsk5 & Hx5 & Ht5 & Hk5).
           exists f5, s5. split; [rewrite Hsel, He2; exact He5|].
           repeat split; auto; try congruence; try lia.
Qed.

Lemma firstn_plus {A} : forall m k (l : list A), firstn (m + k) l = firstn m l ++ firstn k (skipn m l).
Proof.
  induction m as [|m IH]; intros k l; simpl; auto. destruct l as [|x l]; simpl.
  - rewrite firstn_nil. reflexivity.
  - rewrite IH. reflexivity.
Qed.

Lemma slice_app (p : bytes) a b c : a <= b -> b <= c -> slice p a c = slice p a b ++ slice p b c.
Proof.
  intros H1 H2. unfold slice. replace (c - a) with ((b - a) + (c - b)) by lia.
  rewrite firstn_plus, skipn_skipn'. replace (b - a + a) with b by lia. reflexivity.
Qed.

Lemma slice_skipn (p : bytes) a b : a <= b -> slice p a b ++ skipn b p = skipn a p.
Proof.
  intros H. unfold slice. replace (skipn b p) with (skipn (b - a) (skipn a p)).
  - apply firstn_skipn.
  - rewrite skipn_skipn'. f_equal. lia.
Qed.

Lemma index_byte_nth : forall q d, index_byte q "/" = Some d -> nth_error q d = Some "/" /\ d < List.length q.
Proof.
  induction q as [|x q IH]; intros d; simpl; [discriminate|].
  destruct (Ascii.eqb_spec x "/") as [->|Hn].
  - intros [= <-]. simpl. split; auto. lia.
  - destruct (index_byte q "/") as [d'|]; simpl; [|discriminate]. intros [= <-].
    destruct (IH d' eq_refl) as [H1 H2]. simpl. split; auto. lia.
Qed.

Definition cinv (cur0 : node) (cmn0 pkc0 : nat) (sks0 : list skipped) (ps0 : list kv) (s : st) : Prop :=
  cur s = cur0 /\ cmn s = cmn0 /\ pkc s = pkc0 /\ sks s = sks0 /\ ps s = ps0 /\ tinv s.

Lemma pcatch_loop L lazy path ino sub fin C Cfin start prm cur0 cmn0 pkc0 sks0 ps0 :
  List.length path <= L -> fresh_ok L ino sub C ->
  nth_error (nparams cur0) pkc0 = Some prm ->
  (forall f s1, cinv cur0 cmn0 pkc0 sks0 ps0 s1 ->
     (index_byte (skipn (cm s1) path) "/" = Some 0 \/ index_byte (skipn (cm s1) path) "/" = None) ->
     Cfin <= S f ->
     match fin (skipn start path) with
     | Some (l, kv) => found_as (lbp (S f) path lazy (PCatch ino start) s1) l (addp lazy ps0 kv)
     | None => exists fuel' s', lbp (S f) path lazy (PCatch ino start) s1 = lbp fuel' path lazy PBack s' /\
                 S f <= fuel' + Cfin /\ sks s' = sks0 /\ extends ps0 (ps s') /\ tinv s' /\ pkc s' = 0
     end) ->
  forall sf s v q fuel, cinv cur0 cmn0 pkc0 sks0 ps0 s ->
    skipn (cm s) path = q -> start <= cm s -> cm s <= List.length path -> v = slice path start (cm s) ->
    List.length q < sf -> (List.length q + 1) * (C + 2) + Cfin + 1 <= fuel ->
    match scan sf sub fin (pkey prm) v q with
    | Some (l, kvs) => found_as (lbp fuel path lazy (PCatch ino start) s) l (addp lazy ps0 kvs)
    | None => exists fuel' s', lbp fuel path lazy (PCatch ino start) s = lbp fuel' path lazy PBack s' /\
                fuel <= fuel' + ((List.length q + 1) * (C + 2) + Cfin + 1) /\
                sks s' = sks0 /\ extends ps0 (ps s') /\ tinv s' /\ pkc s' = 0
    end.
Proof.
  intros HL Hsub Hprm0 Hfin.
  induction sf as [|sf IH]; intros s v q fuel Hinv Hq Hst Hcm Hv Hsf Hfuel; [lia|].
  subst q v. set (q := skipn (cm s) path) in *. set (v := slice path start (cm s)) in *.
  assert (Hq : skipn (cm s) path = q) by reflexivity. assert (Hv : v = slice path start (cm s)) by reflexivity.
  pose proof Hinv as (Hc & Hcn & Hpk & Hsk & Hps & Ht).
  assert (Hprm : nth_error (nparams (cur s)) (pkc s) = Some prm) by (rewrite Hc, Hpk; exact Hprm0).
  cbn [scan]. destruct fuel as [|f]; [lia|].
  destruct (index_byte q "/") as [[|d]|] eqn:Eidx.
  - (* empty segment: stop *)
    unfold v, q. rewrite slice_skipn by exact Hst.
    specialize (Hfin f s Hinv (or_introl Eidx) ltac:(lia)).
    destruct (fin (skipn start path)) as [[l kv]|]; [exact Hfin|].
    destruct Hfin as (f' & s' & He & Hf' & H1 & H2 & H3 & H4). exists f', s'. repeat split; auto. lia.
  - (* a non-empty segment ends at the next '/' *)
    pose proof (index_byte_nth q (S d) Eidx) as [Hnth Hdl].
    set (cm' := cm s + S d).
    assert (Hq' : skipn cm' path = skipn (S d) q).
    { unfold cm'. rewrite <- Hq, skipn_skipn'. f_equal. lia. }
    assert (Hlenq : List.length q = List.length path - cm s) by (rewrite <- Hq; apply skipn_length).
    assert (Hsg : v ++ firstn (S d) q = slice path start cm').
    { rewrite (slice_app path start (cm s) cm') by (unfold cm'; lia). rewrite <- Hv. f_equal.
      unfold slice, cm'. rewrite Hq. f_equal. lia. }
    assert (HLq : List.length (skipn cm' path) <= L) by (rewrite skipn_length; lia).
    pose proof (Hsub (skipn cm' path) f HLq) as Hs.
    assert (Hfc : C <= f).
    { assert ((List.length q + 1) * (C + 2) >= C + 2) by nia. lia. }
    specialize (Hs Hfc). rewrite <- Hq'.
    destruct (sub (skipn cm' path)) as [[l kvs]|].
    + destruct Hs as (l' & stps & Es & Er).
      exists l', (tps s). rewrite (pcatch_found f path lazy ino start s prm d l' kvs stps Hprm Eidx Es).
      rewrite Hps, Hsg. auto.
    + destruct Hs as (tn' & tsr' & sps & stps & Es & Hnd).
      destruct (pcatch_next f path lazy ino start s prm d tn' tsr' sps stps Hprm Eidx Es Hnd Ht)
        as (s1 & He1 & Hcore & Ht1 & Hpc1 & Hpk1).
      destruct Hcore as (Hc1 & _ & _ & Hcn1 & Hsk1 & Hps1).
      set (s2 := with_cm s1 (S cm')) in *.
      assert (Hinv2 : cinv cur0 cmn0 pkc0 sks0 ps0 s2).
      { unfold cinv, s2, with_cm; cbn. repeat split; try congruence. exact Ht1. }
      assert (Hlen2 : List.length (skipn 1 (skipn cm' path)) = List.length q - S (S d)).
      { rewrite Hq', !skipn_length. lia. }
      specialize (IH s2 ((v ++ firstn (S d) q) ++ ["/"]) (skipn 1 (skipn cm' path)) f Hinv2).
      assert (Hsk2 : skipn (cm s2) path = skipn 1 (skipn cm' path)).
      { change (cm s2) with (S cm'). rewrite skipn_skipn'. reflexivity. }
      assert (Hnth' : nth_error path cm' = Some "/").
      { unfold cm'. rewrite <- Hnth, <- Hq. clear. revert path. generalize (cm s) as a. generalize (S d) as b.
        intros b a path. revert b. revert path. induction a as [|a IHa]; intros path b; simpl.
        - reflexivity.
        - destruct path as [|x path]; simpl; [destruct b; reflexivity|]. apply IHa. }
      specialize (IH Hsk2 ltac:(change (cm s2) with (S cm'); unfold cm'; lia)
                     ltac:(change (cm s2) with (S cm'); unfold cm'; lia)).
      assert (Hv2 : (v ++ firstn (S d) q) ++ ["/"] = slice path start (cm s2)).
      { change (cm s2) with (S cm'). rewrite (slice_app path start cm' (S cm')) by (unfold cm'; lia).
        rewrite Hsg. f_equal. unfold slice. replace (S cm' - cm') with 1 by lia.
        destruct (skipn cm' path) as [|x r] eqn:E.
        - apply skipn_nil_len in E. apply nth_error_None in E. congruence.
        - apply skipn_cons_nth in E. destruct E as [E _]. simpl. congruence. }
      specialize (IH Hv2 ltac:(lia)).
      assert (Hfu : (List.length (skipn 1 (skipn cm' path)) + 1) * (C + 2) + Cfin + 1 <= f).
      { rewrite Hlen2. assert ((List.length q + 1) * (C + 2) >= (List.length q - S (S d) + 1) * (C + 2) + (C + 2)) by nia. lia. }
      specialize (IH Hfu).
      replace (v ++ firstn (S d) q ++ ["/"]) with ((v ++ firstn (S d) q) ++ ["/"]) by (rewrite <- app_assoc; reflexivity).
      destruct (scan sf sub fin (pkey prm) ((v ++ firstn (S d) q) ++ ["/"]) (skipn 1 (skipn cm' path))) as [[l kvs]|].
      * destruct IH as (l' & tps' & E & Er). exists l', tps'. rewrite He1. fold cm'. fold s2. rewrite E. auto.
      * destruct IH as (f' & s' & He & Hf' & H1 & H2 & H3 & H4). exists f', s'.
        split; [rewrite He1; fold cm'; fold s2; exact He|]. repeat split; auto.
        rewrite Hlen2 in Hf'. assert ((List.length q + 1) * (C + 2) >= (List.length q - S (S d) + 1) * (C + 2) + (C + 2)) by nia. lia.
  - (* no more '/' *)
    unfold v, q. rewrite slice_skipn by exact Hst.
    specialize (Hfin f s Hinv (or_intror Eidx) ltac:(lia)).
    destruct (fin (skipn start path)) as [[l kv]|]; [exact Hfin|].
    destruct Hfin as (f' & s' & He & Hf' & H1 & H2 & H3 & H4). exists f', s'. repeat split; auto. lia.
Qed.

Lemma kcost_ge L Csel C0 kt : 6 <= kcost L Csel C0 kt \/ kt = [].
Proof. destruct kt as [|[d|nm|nm] kt]; auto; left; simpl; lia. Qed.

Lemma kcost_catch_cons L Csel C0 nm t' kt' :
  kcost L Csel C0 (TCatch nm :: t' :: kt') = 8 + (L + 2) * (8 + kcost L Csel C0 (t' :: kt')).
Proof. reflexivity. Qed.
Lemma kcost_catch_nil L Csel C0 nm : kcost L Csel C0 [TCatch nm] = 8 + (L + 2) * (8 + C0).
Proof. reflexivity. Qed.

Lemma kcost_nil L Csel C0 : kcost L Csel C0 [] = Csel + 4.
Proof. reflexivity. Qed.

Lemma fresh_of_key L ino kt (sub : bytes -> mres) Ck :
  nkey ino = render kt -> kt <> [] -> sub [] = None ->
  (forall path s fuel, List.length path <= L -> s = reset_cmn (init_st ino [] []) -> 0 < List.length path ->
     Ck <= fuel ->
     match sub path with
     | Some (l, vals) => found_as (lbp fuel path false (PInner 0) s) l vals
     | None => backs path false fuel (PInner 0) s Ck
     end) ->
  fresh_ok L ino sub (Ck + 6).
Proof.
  intros Hk Hne Hnil Hrun q fuel HL Hf.
  destruct q as [|c q].
  - rewrite Hnil. destruct fuel as [|[|[|f]]]; try lia.
    rewrite walk_ge by (simpl; lia).
    set (s := init_st ino [] []).
    destruct (after_fail (S f) [] false s) as (s' & -> & Hc & Ht' & _).
    + apply cmn_lt_nofound. change (cmn s) with 0. change (nkey (cur s)) with (nkey ino). rewrite Hk.
      destruct kt as [|t kt]; [congruence|]. rewrite render_cons_len. pose proof (render_tok_len_pos t). lia.
    + unfold tinv; simpl; auto.
    + destruct Hc as (_ & _ & _ & _ & Hs & _). rewrite back_nil by (rewrite Hs; reflexivity).
      do 4 eexists. split; [reflexivity|exact Ht'].
  - destruct fuel as [|f]; [lia|].
    rewrite (walk_lt' f (c :: q) false (init_st ino [] [])) by (simpl; lia).
    specialize (Hrun (c :: q) _ f HL eq_refl ltac:(simpl; lia) ltac:(lia)).
    destruct (sub (c :: q)) as [[l vals]|]; [exact Hrun|].
    destruct Hrun as (f' & s' & -> & Hf' & Hs & _ & Ht' & _). simpl in Hs.
    destruct f' as [|f']; [lia|]. rewrite back_nil by exact Hs.
    do 4 eexists. split; [reflexivity|exact Ht'].
Qed.

Lemma key_walk L n Csel :
  sel_ok L n Csel ->
  match nchildren n with c0 :: _ => fresh_ok L c0 (m2 c0) (c0cost L (nchildren n)) | [] => True end ->
  forall kt done lazy path s fuel, List.length path <= L ->
    nkey (cur s) = render (done ++ kt) -> nroute (cur s) = nroute n -> nchildren (cur s) = nchildren n ->
    forallb ptok_ok done = true -> kt_ok (cend (nroute n) (nchildren n)) kt = true ->
    cmn s = List.length (render done) -> pkc s = cnt_wild done -> pcnt s = List.length (ps s) -> tinv s ->
    cm s <= List.length path ->
    kcost L Csel (c0cost L (nchildren n)) kt <= fuel ->
    match km n (Kof n) (sub0of (nchildren n)) kt (skipn (cm s) path) with
    | Some (l, vals) => found_as (lbp fuel path lazy (PInner (cmn s)) s) l (addp lazy (ps s) vals)
    | None => backs path lazy fuel (PInner (cmn s)) s (kcost L Csel (c0cost L (nchildren n)) kt)
    end.
Proof.
  intros Hsel Hc0.
  set (r := nroute n) in *. set (ch := nchildren n) in *. set (C0 := c0cost L ch) in *.
  induction kt as [|t kt IH]; intros done lazy path s fuel HL Hk Hrt Hch Hokd Hokt0 Hcmn Hpkc Hpc Ht Hcm Hf.
  - (* key consumed *)
    cbn [km]. rewrite kcost_nil in *. destruct fuel as [|f]; [lia|].
    assert (Hex : lbp (S f) path lazy (PInner (cmn s)) s = lbp f path lazy PSelect s).
    { apply inner_exit. right. rewrite Hk, app_nil_r, Hcmn. lia. }
    pose proof (Hsel lazy path f s HL Hrt Hch) as Hs.
    specialize (Hs ltac:(rewrite Hk, app_nil_r; exact Hcmn) Hcm Hpc Ht ltac:(lia)).
    destruct (Kof n (skipn (cm s) path)) as [[l v2]|].
    + destruct Hs as (l' & tps' & E & Er). exists l', tps'. rewrite Hex, E. auto.
    + eapply (backs_step path lazy (S f) _ s _ f PSelect s Csel 1); fin.
  - assert (Hklen : List.length (nkey (cur s)) = List.length (render done) + List.length (render (t :: kt)))
      by (rewrite Hk, render_app, app_length; reflexivity).
    pose proof (render_cons_len t kt) as Hrl. pose proof (render_tok_len_pos t) as Htl.
    assert (Hk6 : 6 <= kcost L Csel C0 (t :: kt)) by (destruct (kcost_ge L Csel C0 (t :: kt)) as [H|H]; [exact H|discriminate]).
    destruct (skipn (cm s) path) as [|c p'] eqn:Ep.
    + (* path exhausted inside the key *)
      cbn [km]. apply skipn_nil_len in Ep.
      destruct fuel as [|[|[|f]]]; try lia.
      eapply backs_step with (k := 3) (cost1 := 1).
      * rewrite inner_exit by (left; exact Ep). rewrite select_ge by exact Ep. reflexivity.
      * apply backs_after; auto; try lia. apply cmn_lt_nofound. lia.
      * reflexivity.
      * apply extends_refl.
      * lia.
      * lia.
    + pose proof (skipn_cons_nth _ _ _ _ Ep) as (Hpc0 & Hp' & Hlt).
      assert (Hkey : nth_error (nkey (cur s)) (cmn s) = hd_error (render (t :: kt))).
      { rewrite Hk, render_app, Hcmn. apply nth_error_app_len. }
      pose proof (kt_ok_tok _ _ Hokt0) as Htok0.
      assert (Htokall : forallb tok_ok (done ++ t :: kt) = true)
        by (rewrite forallb_app, (forallb_ptok_tok _ Hokd); exact Htok0).
      destruct (kt_ok_cons _ _ _ Hokt0) as [[Hokt1 Hokt2]|(cn & -> & Hcn & Hokt2 & Hend)].
      2:{ (* catch-all *)
          simpl in Hkey.
          destruct (catch_info s done cn kt Hk Htokall Hpkc) as (prm & Hprm & Hpk & Hpe).
          destruct fuel as [|f]; [lia|].
          assert (Hlenp : List.length (c :: p') = List.length path - cm s) by (rewrite <- Ep; apply skipn_length).
          assert (Hv0 : [] = slice path (cm s) (cm s)) by (unfold slice; rewrite Nat.sub_diag; reflexivity).
          assert (HlenL : List.length (c :: p') <= L) by lia.
          cbn [km].
          destruct kt as [|t' kt'].
          - (* the catch-all ends the key *)
            specialize (Hend eq_refl). destruct (cend_children _ _ Hend) as [Hnil|(c0 & Hc0e & Hc0s)].
            + (* no children: it takes the rest of the path *)
              rewrite Hnil. cbn [sub0of].
              rewrite (inner_catch_step f path lazy (cmn s) s c prm Hkey Hpc0 Hprm Hpe) by (rewrite Hch; exact Hnil).
              exists (cur s), (tps s). rewrite Hpk, Ep. split; [reflexivity|exact Hrt].
            + (* one "/..." child: loop with it *)
              rewrite Hc0e in Hc0 |- *. cbn [sub0of].
              assert (Hchs : nchildren (cur s) = c0 :: []) by (rewrite Hch; exact Hc0e).
              pose proof (inner_catchc_step f path lazy (cmn s) s c prm c0 [] Hkey Hpc0 Hprm Hpe Hchs) as Hstep.
              set (sc := cstate s (List.length (nkey (cur s)) - cmn s)) in *.
              pose proof (pcatch_loop L lazy path c0 (m2 c0) (fun v => Some (n, [(cn, v)])) C0 1 (cm s) prm
                            (cur s) (cmn sc) (pkc s) (sks s) (ps s) HL Hc0 Hprm) as Hloop.
              assert (Hfin : forall f1 s1, cinv (cur s) (cmn sc) (pkc s) (sks s) (ps s) s1 ->
                        (index_byte (skipn (cm s1) path) "/" = Some 0 \/ index_byte (skipn (cm s1) path) "/" = None) ->
                        1 <= S f1 ->
                        found_as (lbp (S f1) path lazy (PCatch c0 (cm s)) s1) n
                                 (addp lazy (ps s) [(cn, skipn (cm s) path)])).
              { intros f1 s1 (Hi1 & Hi2 & Hi3 & Hi4 & Hi5 & Hi6) Hidx _.
                rewrite (pcatch_final_suffix f1 path lazy c0 (cm s) s1 prm) by (try rewrite Hi1, Hi3; auto).
                exists (cur s1), (tps s1). rewrite Hi5, Hpk, Hi1. auto. }
              specialize (Hloop Hfin (S (List.length (c :: p'))) sc [] (c :: p') f).
              assert (Hinv : cinv (cur s) (cmn sc) (pkc s) (sks s) (ps s) sc) by (repeat split; auto).
              specialize (Hloop Hinv Ep (Nat.le_refl _) Hcm Hv0 (Nat.lt_succ_diag_r _)).
              assert (Hfu : (List.length (c :: p') + 1) * (C0 + 2) + 1 + 1 <= f).
              { rewrite kcost_catch_nil in Hf. assert ((L + 2) * (8 + C0) >= (List.length (c :: p') + 2) * (8 + C0)) by (apply Nat.mul_le_mono_r; lia). nia. }
              specialize (Hloop Hfu). rewrite Hpk in Hloop.
              match type of Hloop with match ?X with _ => _ end =>
                match goal with |- match ?Y with _ => _ end => change Y with X; destruct X as [[l kvs]|] end end.
              * destruct Hloop as (l' & tps' & E & Er). exists l', tps'. rewrite Hstep, E. auto.
              * destruct Hloop as (f' & s' & He & Hf' & H1 & H2 & H3 & H4). exists f', s'.
                split; [rewrite Hstep; exact He|]. repeat split; auto.
                rewrite kcost_catch_nil. assert ((L + 2) * (8 + C0) >= (List.length (c :: p') + 2) * (8 + C0)) by (apply Nat.mul_le_mono_r; lia). nia.
          - (* infix catch-all: loop with the truncated copy of the node *)
            set (kt1 := t' :: kt') in *.
            set (e := List.length (render done) + List.length cn + 3) in *.
            set (ino := Node (render kt1) (nroute (cur s)) (nchildren (cur s))).
            assert (Hino : inode (cur s) = Some ino) by (apply (inode_render (cur s) done cn kt1); auto; discriminate).
            assert (Hpe' : pend prm = Some e) by exact Hpe.
            pose proof (inner_infix_step f path lazy (cmn s) s c prm e ino Hkey Hpc0 Hprm Hpe' ltac:(unfold e; lia) Hino) as Hstep.
            set (sc := cstate s (e - cmn s)) in *.
            set (Ck := kcost L Csel C0 kt1) in *.
            assert (Hfresh : fresh_ok L ino (km n (Kof n) (sub0of ch) kt1) (Ck + 6)).
            { apply (fresh_of_key L ino kt1); [reflexivity|discriminate|reflexivity|].
              intros path0 s0 fuel0 HL0 Hs0 Hpos Hfu0.
              pose proof (IH [] false path0 s0 fuel0 HL0) as IH0. subst s0.
              specialize (IH0 eq_refl Hrt Hch eq_refl Hokt2 eq_refl eq_refl eq_refl).
              specialize (IH0 ltac:(unfold tinv; simpl; auto) ltac:(simpl; lia) Hfu0).
              exact IH0. }
            pose proof (pcatch_loop L lazy path ino (km n (Kof n) (sub0of ch) kt1) (fun _ => None) (Ck + 6) 3 (cm s) prm
                          (cur s) (cmn sc) (pkc s) (sks s) (ps s) HL Hfresh Hprm) as Hloop.
            assert (Hfin : forall f1 s1, cinv (cur s) (cmn sc) (pkc s) (sks s) (ps s) s1 ->
                      (index_byte (skipn (cm s1) path) "/" = Some 0 \/ index_byte (skipn (cm s1) path) "/" = None) ->
                      3 <= S f1 ->
                      exists fuel' s', lbp (S f1) path lazy (PCatch ino (cm s)) s1 = lbp fuel' path lazy PBack s' /\
                        S f1 <= fuel' + 3 /\ sks s' = sks s /\ extends (ps s) (ps s') /\ tinv s' /\ pkc s' = 0).
            { intros f1 s1 (Hi1 & Hi2 & Hi3 & Hi4 & Hi5 & Hi6) Hidx Hf1.
              destruct (pcatch_final_infix f1 path lazy ino (cm s) s1 prm e) as (s2 & He2 & Hc2 & Hn2 & Hk2 & Hx2 & Hts2 & Htn2);
                try rewrite Hi1, Hi3; auto.
              destruct f1 as [|f2]; [lia|].
              destruct (after_fail f2 path lazy s2) as (s3 & He3 & Hcore3 & Ht3 & _ & Hk3).
              - apply cmn_lt_nofound. rewrite Hn2, Hi2, Hc2, Hi1, Hklen.
                change (cmn sc) with (cmn s + (e - cmn s)). unfold e.
                change (render (TCatch cn :: kt1)) with (("*" :: "{" :: cn ++ ["}"]) ++ render kt1).
                rewrite app_length. cbn [List.length]. rewrite app_length. cbn [List.length].
                pose proof (render_cons_len t' kt'). pose proof (render_tok_len_pos t'). fold kt1 in H. lia.
              - unfold tinv. rewrite Hts2, Htn2. exact Hi6.
              - destruct Hcore3 as (_ & _ & _ & _ & Hs3 & Hp3).
                exists f2, s3. split; [rewrite He2; exact He3|]. repeat split; auto; try lia; try congruence. }
            specialize (Hloop Hfin (S (List.length (c :: p'))) sc [] (c :: p') f).
            assert (Hinv : cinv (cur s) (cmn sc) (pkc s) (sks s) (ps s) sc) by (repeat split; auto).
            specialize (Hloop Hinv Ep (Nat.le_refl _) Hcm Hv0 (Nat.lt_succ_diag_r _)).
            assert (Hfu : (List.length (c :: p') + 1) * (Ck + 6 + 2) + 3 + 1 <= f).
            { unfold kt1 in Hf. rewrite kcost_catch_cons in Hf. fold kt1 in Hf. fold Ck in Hf.
              assert ((L + 2) * (8 + Ck) >= (List.length (c :: p') + 2) * (8 + Ck)) by (apply Nat.mul_le_mono_r; lia). nia. }
            specialize (Hloop Hfu). rewrite Hpk in Hloop.
            match type of Hloop with match ?X with _ => _ end =>
              match goal with |- match ?Y with _ => _ end => change Y with X; destruct X as [[l kvs]|] end end.
            + destruct Hloop as (l' & tps' & E & Er). exists l', tps'. rewrite Hstep, E. auto.
            + destruct Hloop as (f' & s' & He & Hf' & H1 & H2 & H3 & H4). exists f', s'.
              split; [rewrite Hstep; exact He|]. repeat split; auto.
              unfold kt1. rewrite kcost_catch_cons. fold kt1. fold Ck.
              assert ((L + 2) * (8 + Ck) >= (List.length (c :: p') + 2) * (8 + Ck)) by (apply Nat.mul_le_mono_r; lia). nia. }
      destruct t as [d|nm|nm]; [| |discriminate].
      * (* static byte *)
        simpl in Hkey, Hokt1. cbn [km].
        destruct fuel as [|f]; [lia|].
        pose proof (inner_static_step f path lazy (cmn s) s d c Hkey Hpc0 Hokt1) as Hstep.
        destruct (Ascii.eqb d c && sbyte c) eqn:E.
        -- assert (Hr1 : List.length (render (done ++ [TStatic d])) = S (List.length (render done)))
             by (rewrite render_app, app_length; simpl; lia).
           assert (Hcw : cnt_wild (done ++ [TStatic d]) = cnt_wild done).
           { unfold cnt_wild. rewrite filter_app, app_length. simpl. lia. }
           assert (IH' := IH (done ++ [TStatic d]) lazy path (adv s 1) f HL).
           rewrite <- app_assoc in IH'. simpl app in IH'.
           assert (Hd1 : forallb ptok_ok (done ++ [TStatic d]) = true)
             by (rewrite forallb_app, Hokd; simpl; rewrite Hokt1; reflexivity).
           specialize (IH' Hk Hrt Hch Hd1 Hokt2).
           specialize (IH' ltac:(change (cmn (adv s 1)) with (S (cmn s)); rewrite Hr1; lia)
                           ltac:(change (pkc (adv s 1)) with (pkc s); rewrite Hcw; exact Hpkc) Hpc Ht
                           ltac:(change (cm (adv s 1)) with (S (cm s)); lia) ltac:(cbn [kcost] in Hf; lia)).
           change (cm (adv s 1)) with (S (cm s)) in IH'. rewrite Hp' in IH'.
           change (cmn (adv s 1)) with (S (cmn s)) in IH'.
           cbn [kcost].
           destruct (km n (Kof n) (sub0of ch) kt p') as [[l vals]|].
           ++ replace vals with ([] ++ vals) by reflexivity.
              eapply (found_step path lazy (S f) _ s _ [] vals f _ (adv s 1)); fin.
           ++ eapply (backs_step path lazy (S f) _ s _ f _ (adv s 1) _ 1); fin.
        -- eapply (backs_step path lazy (S f) _ s _ f PAfter s 1 1); fin.
           apply backs_after; auto; try lia. apply cm_lt_nofound. exact Hlt.
      * (* named parameter *)
        simpl in Hkey.
        destruct (param_info s done nm kt Hk) as (prm & Hprm & Hpk & Hadv); auto.
        destruct fuel as [|f]; [lia|].
        pose proof (inner_param_step f path lazy (cmn s) s c prm Hkey Hpc0 Hprm) as Hstep.
        rewrite Hadv, Hpk, Ep in Hstep.
        pose proof (index_byte_seg (c :: p')) as Hseg.
        cbn [km].
        assert (Hgen : forall cm', cm' = cm s + List.length (seg is_slash (c :: p')) ->
                  seg is_slash (c :: p') <> [] ->
                  List.length (seg is_slash (c :: p')) <= List.length (c :: p') ->
                  slice path (cm s) cm' = seg is_slash (c :: p') ->
                  lbp (S f) path lazy (PInner (cmn s)) s =
                  lbp f path lazy (PInner (cmn s + (List.length nm + 2)))
                    (pstate lazy s cm' (List.length nm + 2) nm (slice path (cm s) cm')) ->
                  match match seg is_slash (c :: p') with
                        | [] => None
                        | a :: l => with_vals [(nm, a :: l)] (km n (Kof n) (sub0of ch) kt (skipn (List.length (a :: l)) (c :: p')))
                        end with
                  | Some (l, vals) => found_as (lbp (S f) path lazy (PInner (cmn s)) s) l (addp lazy (ps s) vals)
                  | None => backs path lazy (S f) (PInner (cmn s)) s (kcost L Csel C0 (TParam nm :: kt))
                  end).
        { intros cm' Hcm' Hvne Hvlen Hslice Hst. clear Hseg.
          destruct (seg is_slash (c :: p')) as [|v0 vv] eqn:Ev; [congruence|]. set (v := v0 :: vv) in *.
          rewrite Hslice in Hst. set (s1 := pstate lazy s cm' (List.length nm + 2) nm v) in *.
          assert (Hr1 : List.length (render (done ++ [TParam nm])) = List.length (render done) + (List.length nm + 2)).
          { rewrite render_app, app_length. f_equal. change (render [TParam nm]) with (("{" :: nm ++ ["}"]) ++ []).
            rewrite app_nil_r. cbn [List.length]. rewrite app_length. simpl. lia. }
          assert (Hcw : cnt_wild (done ++ [TParam nm]) = S (cnt_wild done)).
          { unfold cnt_wild. rewrite filter_app, app_length. simpl. lia. }
          assert (Hlenp : List.length (c :: p') = List.length path - cm s) by (rewrite <- Ep; apply skipn_length).
          assert (IH' := IH (done ++ [TParam nm]) lazy path s1 f HL).
          rewrite <- app_assoc in IH'. simpl app in IH'.
          assert (Hd1 : forallb ptok_ok (done ++ [TParam nm]) = true)
            by (rewrite forallb_app, Hokd; cbn [forallb]; rewrite Hokt1; reflexivity).
          specialize (IH' Hk Hrt Hch Hd1 Hokt2).
          specialize (IH' ltac:(change (cmn s1) with (cmn s + (List.length nm + 2)); rewrite Hr1; lia)
                          ltac:(change (pkc s1) with (S (pkc s)); rewrite Hcw, Hpkc; reflexivity)).
          assert (Hpc1 : pcnt s1 = List.length (ps s1)).
          { unfold s1, pstate; cbn [pcnt ps]. destruct lazy; auto. rewrite app_length. simpl. lia. }
          specialize (IH' Hpc1 Ht ltac:(change (cm s1) with cm'; lia) ltac:(cbn [kcost] in Hf; lia)).
          change (cm s1) with cm' in IH'.
          assert (Hsk : skipn cm' path = skipn (List.length v) (c :: p')).
          { rewrite <- Ep, skipn_skipn'. f_equal. lia. }
          rewrite Hsk in IH'.
          assert (Hx : extends (ps s) (ps s1)).
          { unfold s1, pstate; cbn [ps]. destruct lazy; [apply extends_refl|].
            unfold extends. rewrite firstn_app, Nat.sub_diag, firstn_all. simpl. apply app_nil_r. }
          cbn [kcost].
          destruct (km n (Kof n) (sub0of ch) kt (skipn (List.length v) (c :: p'))) as [[l vals]|]; cbn [with_vals].
          - eapply (found_step path lazy (S f) _ s _ [(nm, v)] vals f _ s1); fin.
          - eapply (backs_step path lazy (S f) _ s _ f _ s1 _ 1); fin. }
        destruct (index_byte (c :: p') "/") as [[|dd]|] eqn:Eidx.
        -- (* empty segment *)
           destruct Hseg as (Hs1 & _ & _). rewrite Hs1. cbn [firstn].
           eapply (backs_step path lazy (S f) _ s _ f PAfter s 1 1); fin.
           apply backs_after; auto; try lia. apply cm_lt_nofound. exact Hlt.
        -- destruct Hseg as (Hs1 & Hs2 & Hs3). cbv zeta in Hstep.
           apply (Hgen (cm s + S dd)); auto.
           ++ rewrite Hs1. simpl. discriminate.
           ++ lia.
           ++ unfold slice. rewrite Ep, Hs1. f_equal. lia.
        -- cbv zeta in Hstep.
           assert (Hlenp : List.length (c :: p') = List.length path - cm s) by (rewrite <- Ep; apply skipn_length).
           apply (Hgen (List.length path)); auto.
           ++ rewrite Hseg, Hlenp. lia.
           ++ rewrite Hseg. discriminate.
           ++ rewrite Hseg. lia.
           ++ unfold slice. rewrite Ep, Hseg, <- Hlenp. apply firstn_all.
Qed.

Lemma m2_nil_path k r ch kt : k = render kt -> kt <> [] -> forallb tok_ok kt = true -> m2 (Node k r ch) [] = None.
Proof.
  intros -> Hne Hok. rewrite m2_eq, tokenize_render by exact Hok. destruct kt as [|t kt]; [congruence|]. reflexivity.
Qed.

Lemma fresh_of_walk L pre c0 : pwf pre c0 -> walk_ok L c0 -> fresh_ok L c0 (m2 c0) (ncost L c0 + 8).
Proof.
  intros Hwf Hwalk q fuel HL Hf. destruct c0 as [k r ch].
  pose proof (pwf_inv _ _ _ _ Hwf) as (kt & Hne & Hk & Hok & _).
  destruct q as [|c q].
  - rewrite (m2_nil_path k r ch kt Hk Hne (kt_ok_tok _ _ Hok)).
    destruct fuel as [|[|[|f]]]; try lia.
    rewrite walk_ge by (simpl; lia).
    set (s := init_st (Node k r ch) [] []).
    destruct (after_fail (S f) [] false s) as (s' & -> & Hc & Ht' & _).
    + apply cmn_lt_nofound. change (cmn s) with 0. change (nkey (cur s)) with k. rewrite Hk.
      destruct kt as [|t kt]; [congruence|]. rewrite render_cons_len. pose proof (render_tok_len_pos t). lia.
    + unfold tinv; simpl; auto.
    + destruct Hc as (_ & _ & _ & _ & Hs & _). rewrite back_nil by (rewrite Hs; reflexivity).
      do 4 eexists. split; [reflexivity|exact Ht'].
  - pose proof (Hwalk false (c :: q) fuel (init_st (Node k r ch) [] []) HL eq_refl) as H.
    simpl cm in H. simpl skipn in H.
    specialize (H ltac:(simpl; lia) eq_refl eq_refl ltac:(unfold tinv; simpl; auto) ltac:(lia)).
    destruct (m2 (Node k r ch) (c :: q)) as [[l vals]|]; [exact H|].
    destruct H as (f' & s' & -> & Hf' & Hs & _ & Ht' & _). simpl in Hs.
    destruct f' as [|f']; [lia|]. rewrite back_nil by exact Hs.
    do 4 eexists. split; [reflexivity|exact Ht'].
Qed.

Lemma walk_m2 L : forall n pre, pwf pre n -> walk_ok L n.
Proof.
  induction n as [k r ch IH] using node_ind'. intros pre Hwf.
  pose proof (pwf_inv _ _ _ _ Hwf) as (kt & Hne & Hk & Hok & Hr & Hnd & Hch).
  rewrite Forall_forall in IH, Hch.
  assert (Hwalk : forall x, In x ch -> walk_ok L x) by (intros x Hx; apply (IH x Hx (pre ++ k)); auto).
  pose proof (sel_ok_node L (Node k r ch) Hnd Hwalk) as Hsel. cbn [nchildren] in Hsel.
  assert (Hc0 : match ch with c0 :: _ => fresh_ok L c0 (m2 c0) (c0cost L ch) | [] => True end).
  { destruct ch as [|c0 ch']; [exact I|]. cbn [c0cost].
    apply (fresh_of_walk L (pre ++ k)); [apply Hch|apply Hwalk]; left; reflexivity. }
  intros lazy path fuel s HL Hcur Hlt Hpkc Hpc Ht Hfuel.
  rewrite ncost_eq in *.
  assert (Htk : tokenize k = kt) by (rewrite Hk; apply tokenize_render; eapply kt_ok_tok; eauto).
  rewrite Htk in *.
  destruct fuel as [|f1]; [lia|].
  pose proof (walk_lt' f1 path lazy s Hlt) as Hw.
  set (s0 := reset_cmn s) in *.
  pose proof (key_walk L (Node k r ch) _ Hsel Hc0 kt [] lazy path s0 f1 HL) as Hkw.
  simpl app in Hkw. change (cur s0) with (cur s) in Hkw. rewrite Hcur in Hkw. cbn [nkey nroute nchildren] in Hkw.
  specialize (Hkw Hk eq_refl eq_refl eq_refl Hok eq_refl Hpkc Hpc Ht
                  ltac:(change (cm s0) with (cm s); lia) ltac:(lia)).
  change (cm s0) with (cm s) in Hkw. change (cmn s0) with 0 in Hkw. change (ps s0) with (ps s) in Hkw.
  rewrite m2_eq, Htk.
  destruct (km (Node k r ch) (Kof (Node k r ch)) (sub0of ch) kt (skipn (cm s) path)) as [[l vals]|].
  - destruct Hkw as (l' & tps' & E & Er). exists l', tps'. rewrite Hw, E. auto.
  - eapply (backs_step path lazy (S f1) PWalk s _ f1 _ s0 _ 1); [exact Hw|exact Hkw|reflexivity|apply extends_refl|lia|lia].
Qed.

Definition m2_fuel (path : bytes) (t : node) : nat := ncost (List.length path) t + 8.

Theorem lbp_eq_m2 t path lazy fuel : pwf [] t -> m2_fuel path t <= fuel ->
  match m2 t path with
  | Some (l, vals) => found_as (lookup_by_path fuel t path lazy [] []) l (addp lazy [] vals)
  | None => nodirect2 (lookup_by_path fuel t path lazy [] [])
  end.
Proof.
  intros Hwf Hf. unfold lookup_by_path, m2_fuel in *.
  destruct path as [|c path].
  - destruct t as [k r ch]. pose proof (pwf_inv _ _ _ _ Hwf) as (kt & Hne & Hk & Hok & _).
    rewrite (m2_nil_path k r ch kt Hk Hne (kt_ok_tok _ _ Hok)).
    destruct fuel as [|[|[|f]]]; try lia.
    rewrite walk_ge by (simpl; lia).
    set (s := init_st (Node k r ch) [] []).
    destruct (after_fail (S f) [] lazy s) as (s' & -> & Hc & Ht' & _).
    + apply cmn_lt_nofound. change (cmn s) with 0. change (nkey (cur s)) with k. rewrite Hk.
      destruct kt as [|t kt]; [congruence|]. rewrite render_cons_len. pose proof (render_tok_len_pos t). lia.
    + unfold tinv; simpl; auto.
    + destruct Hc as (_ & _ & _ & _ & Hs & _). rewrite back_nil by (rewrite Hs; reflexivity).
      do 4 eexists. split; [reflexivity|exact Ht'].
  - pose proof (walk_m2 (List.length (c :: path)) t [] Hwf lazy (c :: path) fuel (init_st t [] []) (Nat.le_refl _) eq_refl) as H.
    simpl cm in H. simpl skipn in H.
    specialize (H ltac:(simpl; lia) eq_refl eq_refl ltac:(unfold tinv; simpl; auto) ltac:(lia)).
    destruct (m2 t (c :: path)) as [[l vals]|]; [exact H|].
    destruct H as (f' & s' & -> & Hf' & Hs & _ & Ht' & _). simpl in Hs.
    destruct f' as [|f']; [lia|]. rewrite back_nil by exact Hs.
    do 4 eexists. split; [reflexivity|exact Ht'].
Qed.


(* ------------------------------------------------------------------ *)
(* M2 = S: candidates of a subtree                                      *)
(* ------------------------------------------------------------------ *)
Definition prep (kt : list token) (c : cand) : cand := {| pat := pat c; toks := kt ++ toks c |}.
Definition own (r : option route) : list cand :=
  match r with Some rt => [{| pat := rpat rt; toks := [] |}] | None => [] end.

Fixpoint cands_of (n : node) : list cand :=
  match n with
  | Node k r ch => map (prep (tokenize k)) (own r ++ flat_map cands_of ch)
  end.
Definition below (r : option route) (ch : list node) : list cand := own r ++ flat_map cands_of ch.
Definition cands (kt : list token) (r : option route) (ch : list node) : list cand := map (prep kt) (below r ch).

Lemma cands_of_eq k r ch : cands_of (Node k r ch) = cands (tokenize k) r ch.
Proof. reflexivity. Qed.

Lemma prep_nil c : prep [] c = c.
Proof. destruct c; reflexivity. Qed.
Lemma cands_nil r ch : cands [] r ch = below r ch.
Proof. unfold cands. rewrite (map_ext _ (fun c => c)) by apply prep_nil. apply map_id. Qed.

Lemma select_nil : forall fuel s h vals, select fuel [] s h vals = None.
Proof.
  destruct fuel as [|fuel]; intros s h vals; [reflexivity|]. cbn [select]. destruct s as [|c r]; [reflexivity|].
  simpl. unfold orelse. destruct (Ascii.eqb c "{" || Ascii.eqb c "*"); simpl; destruct (negb (Nat.eqb h 0)); reflexivity.
Qed.

Lemma match_nil_select fuel (cs : list cand) s h vals :
  match cs with [] => None | c0 :: l => select fuel (c0 :: l) s h vals end = select fuel cs s h vals.
Proof. destruct cs; auto. rewrite select_nil. reflexivity. Qed.

(* advancing a candidate list whose members all start with the same token *)
Lemma adv_static_cands_static c d kt r ch :
  adv_static c (cands (TStatic d :: kt) r ch) = if Ascii.eqb c d then cands kt r ch else [].
Proof.
  unfold cands, adv_static. induction (below r ch) as [|k l IH]; simpl.
  - destruct (Ascii.eqb c d); reflexivity.
  - rewrite IH. destruct (Ascii.eqb c d); reflexivity.
Qed.
Lemma adv_static_cands_param c nm kt r ch : adv_static c (cands (TParam nm :: kt) r ch) = [].
Proof. unfold cands, adv_static. induction (below r ch) as [|k l IH]; simpl; auto. Qed.
Lemma adv_param_cands_static d kt r ch : adv_param (cands (TStatic d :: kt) r ch) = [].
Proof. unfold cands, adv_param. induction (below r ch) as [|k l IH]; simpl; auto. Qed.
Lemma adv_param_cands_param nm kt r ch : adv_param (cands (TParam nm :: kt) r ch) = cands kt r ch.
Proof. unfold cands, adv_param. induction (below r ch) as [|k l IH]; simpl; auto. rewrite IH. reflexivity. Qed.
Lemma adv_catch_cands_static d kt r ch : adv_catch (cands (TStatic d :: kt) r ch) = [].
Proof. unfold cands, adv_catch. induction (below r ch) as [|k l IH]; simpl; auto. Qed.
Lemma adv_catch_cands_param nm kt r ch : adv_catch (cands (TParam nm :: kt) r ch) = [].
Proof. unfold cands, adv_catch. induction (below r ch) as [|k l IH]; simpl; auto. Qed.

Lemma adv_static_cands_catch c nm kt r ch : adv_static c (cands (TCatch nm :: kt) r ch) = [].
Proof. unfold cands, adv_static. induction (below r ch) as [|k l IH]; simpl; auto. Qed.
Lemma adv_param_cands_catch nm kt r ch : adv_param (cands (TCatch nm :: kt) r ch) = [].
Proof. unfold cands, adv_param. induction (below r ch) as [|k l IH]; simpl; auto. Qed.
Lemma adv_catch_cands_catch nm kt r ch : adv_catch (cands (TCatch nm :: kt) r ch) = cands kt r ch.
Proof. unfold cands, adv_catch. induction (below r ch) as [|k l IH]; simpl; auto. rewrite IH. reflexivity. Qed.

Lemma leaf_cands_cons t kt r ch : leaf (cands (t :: kt) r ch) = None.
Proof. unfold cands, leaf. induction (below r ch) as [|k l IH]; simpl; auto. Qed.

Lemma flat_map_nil_in {A B} (f : A -> list B) l : (forall x, In x l -> f x = []) -> flat_map f l = [].
Proof. induction l as [|x l IH]; simpl; auto. intros H. rewrite (H x) by auto. apply IH. auto. Qed.

Lemma sbyte_split c : sbyte c = true -> Ascii.eqb c "{" = false /\ Ascii.eqb c "*" = false.
Proof. unfold sbyte. intros H. apply andb_prop in H. destruct H as [H1 H2]. apply negb_true_iff in H1, H2. auto. Qed.

Lemma sbyte_false c : sbyte c = false -> Ascii.eqb c "{" || Ascii.eqb c "*" = true.
Proof. unfold sbyte. destruct (Ascii.eqb c "{"), (Ascii.eqb c "*"); simpl; auto. Qed.

Lemma select_cands_short f t kt r ch vals : select (S f) (cands (t :: kt) r ch) [] 0 vals = None.
Proof. cbn [select]. rewrite leaf_cands_cons. reflexivity. Qed.

Lemma select_cands_static f d kt r ch c p' vals :
  select (S f) (cands (TStatic d :: kt) r ch) (c :: p') 0 vals =
  if Ascii.eqb d c && sbyte c then select f (cands kt r ch) p' 0 vals else None.
Proof.
  cbn [select]. rewrite adv_param_cands_static, adv_catch_cands_static, adv_static_cands_static.
  cbn [Nat.eqb negb pred]. unfold orelse. rewrite (Ascii.eqb_sym d c).
  destruct (sbyte c) eqn:Es.
  - destruct (sbyte_split c Es) as [-> ->]. cbn [orb]. rewrite andb_true_r.
    destruct (Ascii.eqb c d); [|reflexivity].
    rewrite match_nil_select. destruct (select f (cands kt r ch) p' 0 vals); reflexivity.
  - rewrite (sbyte_false c Es). rewrite andb_false_r. reflexivity.
Qed.

Lemma select_cands_param f nm kt r ch c p' vals :
  select (S f) (cands (TParam nm :: kt) r ch) (c :: p') 0 vals =
  match seg is_slash (c :: p') with
  | [] => None
  | v => select f (cands kt r ch) (skipn (List.length v) (c :: p')) 0 (v :: vals)
  end.
Proof.
  cbn [select]. rewrite adv_param_cands_param, adv_catch_cands_param, adv_static_cands_param.
  cbn [Nat.eqb negb]. unfold orelse.
  assert ((if Ascii.eqb c "{" || Ascii.eqb c "*" then None else @None (bytes * list bytes)) = None) as ->
    by (destruct (Ascii.eqb c "{" || Ascii.eqb c "*"); reflexivity).
  change (seg (fun x : ascii => Ascii.eqb x "/") (c :: p')) with (seg is_slash (c :: p')).
  destruct (cands kt r ch) as [|k0 l] eqn:E.
  - destruct (seg is_slash (c :: p')); [reflexivity|]. rewrite select_nil. reflexivity.
  - rewrite <- E. destruct (seg is_slash (c :: p')) as [|v0 v]; [reflexivity|].
    replace (0 - List.length (v0 :: v)) with 0 by lia.
    destruct (select f (cands kt r ch) _ 0 _); reflexivity.
Qed.

(* ---- suffix catch-all on the S side ---- *)
Lemma select_done_nonempty fuel cs c r vals :
  (forall k, In k cs -> toks k = []) -> select fuel cs (c :: r) 0 vals = None.
Proof.
  intros H. destruct fuel as [|f]; [reflexivity|]. cbn [select].
  assert (adv_static c cs = [] /\ adv_param cs = [] /\ adv_catch cs = []) as (-> & -> & ->).
  { unfold adv_static, adv_param, adv_catch. repeat split; apply flat_map_nil_in; intros k Hk; rewrite (H k Hk); reflexivity. }
  cbn [Nat.eqb negb]. unfold orelse. destruct (Ascii.eqb c "{" || Ascii.eqb c "*"); reflexivity.
Qed.

Lemma try_splits_S {A} k i s (F : bytes -> bytes -> option A) :
  try_splits (S k) i s F =
  orelse (if split_ok s i then F (firstn i s) (skipn i s) else None) (fun _ => try_splits k (S i) s F).
Proof. reflexivity. Qed.

Lemma try_splits_suffix {A} (F : bytes -> bytes -> option A) s : forall d i,
  (forall j, j < List.length s -> F (firstn j s) (skipn j s) = None) ->
  i + d = List.length s -> 1 <= i ->
  try_splits (S d) i s F = F s [].
Proof.
  induction d as [|d IH]; intros i HF Hi H1.
  - rewrite try_splits_S. unfold split_ok. replace i with (List.length s) by lia.
    rewrite skipn_all, firstn_all. unfold orelse. simpl. destruct (F s []); reflexivity.
  - rewrite try_splits_S. rewrite (IH (S i)) by (auto; lia).
    unfold orelse. destruct (split_ok s i); [|reflexivity]. rewrite HF by lia. reflexivity.
Qed.

Lemma select_catch_last f rt c p' vals (cs' : list cand) :
  cs' = [{| pat := rpat rt; toks := [] |}] ->
  try_splits (List.length (c :: p')) 1 (c :: p') (fun v rest => select (S f) cs' rest 0 (v :: vals)) =
  Some (rpat rt, rev ((c :: p') :: vals)).
Proof.
  intros ->. change (List.length (c :: p')) with (S (List.length p')).
  rewrite (try_splits_suffix _ (c :: p') (List.length p') 1).
  - reflexivity.
  - intros j Hj. destruct (skipn j (c :: p')) as [|x r] eqn:E.
    + apply skipn_nil_len in E. lia.
    + apply select_done_nonempty. intros k [<-|[]]. reflexivity.
  - simpl. lia.
  - lia.
Qed.

(* ---- advancing the candidates below a node ---- *)
Lemma adv_static_app c a b : adv_static c (a ++ b) = adv_static c a ++ adv_static c b.
Proof. unfold adv_static. apply flat_map_app. Qed.
Lemma adv_param_app a b : adv_param (a ++ b) = adv_param a ++ adv_param b.
Proof. unfold adv_param. apply flat_map_app. Qed.
Lemma adv_catch_app a b : adv_catch (a ++ b) = adv_catch a ++ adv_catch b.
Proof. unfold adv_catch. apply flat_map_app. Qed.

Lemma adv_static_flat c {A} (g : A -> list cand) l :
  adv_static c (flat_map g l) = flat_map (fun x => adv_static c (g x)) l.
Proof. induction l as [|x l IH]; simpl; auto. rewrite adv_static_app, IH. reflexivity. Qed.
Lemma adv_param_flat {A} (g : A -> list cand) l :
  adv_param (flat_map g l) = flat_map (fun x => adv_param (g x)) l.
Proof. induction l as [|x l IH]; simpl; auto. rewrite adv_param_app, IH. reflexivity. Qed.
Lemma adv_catch_flat {A} (g : A -> list cand) l :
  adv_catch (flat_map g l) = flat_map (fun x => adv_catch (g x)) l.
Proof. induction l as [|x l IH]; simpl; auto. rewrite adv_catch_app, IH. reflexivity. Qed.

Lemma flat_map_nil {A B} (f : A -> list B) l : (forall x, In x l -> f x = []) -> flat_map f l = [].
Proof. induction l as [|x l IH]; simpl; auto. intros H. rewrite (H x) by auto. apply IH. auto. Qed.

Lemma flat_map_first (f g : node -> list cand) c ch :
  NoDup (heads ch) ->
  (forall x, In x ch -> f x = if starts_with c (nkey x) then g x else []) ->
  flat_map f ch = match first_child c ch with Some x => g x | None => [] end.
Proof.
  induction ch as [|x ch IH]; intros Hnd Hf; simpl; auto.
  inversion Hnd as [|? ? Hni Hnd']; subst.
  rewrite (Hf x) by (left; reflexivity). destruct (starts_with c (nkey x)) eqn:E.
  - rewrite flat_map_nil; [apply app_nil_r|]. intros y Hy. rewrite (Hf y) by (right; exact Hy).
    destruct (starts_with c (nkey y)) eqn:Ey; auto. exfalso. apply Hni.
    apply starts_with_hd in E, Ey. rewrite E, <- Ey. exact (in_map (fun c0 => hd_byte (nkey c0)) ch y Hy).
  - simpl. apply IH; auto. intros y Hy. apply Hf. right; exact Hy.
Qed.

Definition tl_cands (x : node) : list cand := cands (tl (tokenize (nkey x))) (nroute x) (nchildren x).

Lemma pwf_tokens pre x : pwf pre x ->
  exists t kt, tokenize (nkey x) = t :: kt /\ nkey x = render (t :: kt) /\
               kt_ok (cend (nroute x) (nchildren x)) (t :: kt) = true.
Proof.
  destruct x as [k r ch]. intros H. apply pwf_inv in H. destruct H as (kt & Hne & -> & Hok & _).
  destruct kt as [|t kt]; [congruence|]. exists t, kt. cbn [nkey nroute nchildren].
  rewrite tokenize_render by (eapply kt_ok_tok; eauto). auto.
Qed.

Lemma cands_of_tokens x : cands_of x = cands (tokenize (nkey x)) (nroute x) (nchildren x).
Proof. destruct x; reflexivity. Qed.

Lemma adv_static_child c pre x : pwf pre x -> sbyte c = true ->
  adv_static c (cands_of x) = if starts_with c (nkey x) then tl_cands x else [].
Proof.
  intros Hwf Hc. destruct (pwf_tokens _ _ Hwf) as (t & kt & Ht & Hk & Hok).
  unfold tl_cands. rewrite cands_of_tokens, Ht, Hk. simpl tl.
  destruct (sbyte_split c Hc) as [H1 H2].
  destruct t as [d|nm|nm].
  - rewrite adv_static_cands_static. change (render (TStatic d :: kt)) with (d :: render kt).
    cbn [starts_with]. rewrite (Ascii.eqb_sym d c). reflexivity.
  - rewrite adv_static_cands_param. change (render (TParam nm :: kt)) with ("{" :: (nm ++ ["}"]) ++ render kt).
    cbn [starts_with]. rewrite Ascii.eqb_sym, H1. reflexivity.
  - rewrite adv_static_cands_catch. change (render (TCatch nm :: kt)) with ("*" :: "{" :: (nm ++ ["}"]) ++ render kt).
    cbn [starts_with]. rewrite Ascii.eqb_sym, H2. reflexivity.
Qed.

Lemma kt_ok_head_static b d kt : kt_ok b (TStatic d :: kt) = true -> sbyte d = true.
Proof. intros H. apply kt_ok_cons in H. destruct H as [[H _]|(nm & H & _)]; [exact H|discriminate]. Qed.

Lemma adv_param_child pre x : pwf pre x ->
  adv_param (cands_of x) = if starts_with "{" (nkey x) then tl_cands x else [].
Proof.
  intros Hwf. destruct (pwf_tokens _ _ Hwf) as (t & kt & Ht & Hk & Hok).
  unfold tl_cands. rewrite cands_of_tokens, Ht, Hk. simpl tl.
  destruct t as [d|nm|nm].
  - rewrite adv_param_cands_static. change (render (TStatic d :: kt)) with (d :: render kt).
    cbn [starts_with]. destruct (sbyte_split d (kt_ok_head_static _ _ _ Hok)) as [H1 _]. rewrite H1. reflexivity.
  - rewrite adv_param_cands_param. reflexivity.
  - rewrite adv_param_cands_catch. reflexivity.
Qed.

Lemma adv_catch_child pre x : pwf pre x ->
  adv_catch (cands_of x) = if starts_with "*" (nkey x) then tl_cands x else [].
Proof.
  intros Hwf. destruct (pwf_tokens _ _ Hwf) as (t & kt & Ht & Hk & Hok).
  unfold tl_cands. rewrite cands_of_tokens, Ht, Hk. simpl tl.
  destruct t as [d|nm|nm].
  - rewrite adv_catch_cands_static. change (render (TStatic d :: kt)) with (d :: render kt).
    cbn [starts_with]. destruct (sbyte_split d (kt_ok_head_static _ _ _ Hok)) as [_ H2]. rewrite H2. reflexivity.
  - rewrite adv_catch_cands_param. reflexivity.
  - rewrite adv_catch_cands_catch. reflexivity.
Qed.

Lemma leaf_none cs : (forall k, In k cs -> toks k <> []) -> leaf cs = None.
Proof.
  unfold leaf. induction cs as [|k cs IH]; intros H; simpl; auto.
  destruct (toks k) eqn:E; [exfalso; apply (H k); auto; left; reflexivity|].
  apply IH. intros k' Hk'. apply H. right; exact Hk'.
Qed.

Lemma cands_of_toks pre x k : pwf pre x -> In k (cands_of x) -> toks k <> [].
Proof.
  intros Hwf Hin. destruct (pwf_tokens _ _ Hwf) as (t & kt & Ht & _ & _).
  rewrite cands_of_tokens, Ht in Hin. unfold cands in Hin. apply in_map_iff in Hin.
  destruct Hin as (k0 & <- & _). simpl. discriminate.
Qed.

Lemma adv_own c r : adv_static c (own r) = [] /\ adv_param (own r) = [] /\ adv_catch (own r) = [].
Proof. destruct r; simpl; auto. Qed.

(* one step of S on the candidates below a node whose key has been consumed *)
Lemma select_below pre f r ch c p' vals :
  NoDup (heads ch) -> (forall x, In x ch -> pwf pre x) ->
  select (S f) (below r ch) (c :: p') 0 vals =
  orelse (if sbyte c then
            match first_child c ch with Some x => select f (tl_cands x) p' 0 vals | None => None end
          else None)
    (fun _ =>
     orelse
       (match first_child "{" ch with
        | Some y => match seg is_slash (c :: p') with
                    | [] => None
                    | a :: l => select f (tl_cands y) (skipn (List.length (a :: l)) (c :: p')) 0 ((a :: l) :: vals)
                    end
        | None => None
        end)
       (fun _ =>
        match first_child "*" ch with
        | Some w => try_splits (List.length (c :: p')) 1 (c :: p')
                      (fun v rest => select f (tl_cands w) rest 0 (v :: vals))
        | None => None
        end)).
Proof.
  intros Hnd Hch. cbn [select]. cbn [Nat.eqb negb pred].
  destruct (adv_own c r) as (Ho1 & Ho2 & Ho3).
  assert (Hcatch : adv_catch (below r ch) = match first_child "*" ch with Some w => tl_cands w | None => [] end).
  { unfold below. rewrite adv_catch_app, Ho3, adv_catch_flat. simpl. apply flat_map_first; auto.
    intros x Hx. eapply adv_catch_child; eauto. }
  assert (Hparam : adv_param (below r ch) = match first_child "{" ch with Some y => tl_cands y | None => [] end).
  { unfold below. rewrite adv_param_app, Ho2, adv_param_flat. simpl. apply flat_map_first; auto.
    intros x Hx. eapply adv_param_child; eauto. }
  rewrite Hcatch, Hparam.
  change (seg (fun x : ascii => Ascii.eqb x "/") (c :: p')) with (seg is_slash (c :: p')).
  assert (HB : match match first_child "{" ch with Some y => tl_cands y | None => [] end with
               | [] => None
               | c0 :: l =>
                   match seg is_slash (c :: p') with
                   | [] => None
                   | _ :: _ => select f (c0 :: l) (skipn (List.length (seg is_slash (c :: p'))) (c :: p'))
                                 (0 - List.length (seg is_slash (c :: p'))) (seg is_slash (c :: p') :: vals)
                   end
               end =
               match first_child "{" ch with
               | Some y => match seg is_slash (c :: p') with
                           | [] => None
                           | a :: l => select f (tl_cands y) (skipn (List.length (a :: l)) (c :: p')) 0 ((a :: l) :: vals)
                           end
               | None => None
               end).
  { destruct (first_child "{" ch) as [y|]; [|reflexivity].
    destruct (seg is_slash (c :: p')) as [|a l0].
    - destruct (tl_cands y); reflexivity.
    - replace (0 - List.length (a :: l0)) with 0 by lia.
      destruct (tl_cands y) eqn:E; [rewrite select_nil; reflexivity|reflexivity]. }
  assert (HC : match match first_child "*" ch with Some w => tl_cands w | None => [] end with
               | [] => None
               | c0 :: l => try_splits (List.length (c :: p')) 1 (c :: p')
                              (fun v rest => select f (c0 :: l) rest 0 (v :: vals))
               end =
               match first_child "*" ch with
               | Some w => try_splits (List.length (c :: p')) 1 (c :: p')
                             (fun v rest => select f (tl_cands w) rest 0 (v :: vals))
               | None => None
               end).
  { destruct (first_child "*" ch) as [w|]; [|reflexivity].
    destruct (tl_cands w) eqn:E; [|reflexivity].
    symmetry. clear. generalize 1 at 1. generalize (List.length (c :: p')).
    induction n as [|n IH]; intros i; [reflexivity|]. rewrite try_splits_S, IH. unfold orelse.
    destruct (split_ok (c :: p') i); [rewrite select_nil|]; reflexivity. }
  rewrite HB, HC. clear HB HC.
  destruct (sbyte c) eqn:Es.
  - destruct (sbyte_split c Es) as [-> ->]. cbn [orb].
    assert (Hstatic : adv_static c (below r ch) = match first_child c ch with Some x => tl_cands x | None => [] end).
    { unfold below. rewrite adv_static_app, Ho1, adv_static_flat. simpl. apply flat_map_first; auto.
      intros x Hx. eapply adv_static_child; eauto. }
    rewrite Hstatic. destruct (first_child c ch) as [x|]; [|reflexivity].
    rewrite match_nil_select. reflexivity.
  - rewrite (sbyte_false c Es). reflexivity.
Qed.

Definition lpat (l : node) : bytes := match nroute l with Some rt => rpat rt | None => [] end.
Definition res_of (vals : list bytes) (r : mres) : option (bytes * list bytes) :=
  match r with Some (l, kvs) => Some (lpat l, rev vals ++ map snd kvs) | None => None end.

Lemma try_splits_none {A} (F : bytes -> bytes -> option A) s : (forall v rest, F v rest = None) ->
  forall k i, try_splits k i s F = None.
Proof.
  intros HF. induction k as [|k IH]; intros i; [reflexivity|]. rewrite try_splits_S, IH, HF.
  unfold orelse. destruct (split_ok s i); reflexivity.
Qed.

Lemma select_cands_catch f nm kt r ch c p' vals :
  select (S f) (cands (TCatch nm :: kt) r ch) (c :: p') 0 vals =
  try_splits (List.length (c :: p')) 1 (c :: p') (fun v rest => select f (cands kt r ch) rest 0 (v :: vals)).
Proof.
  cbn [select]. rewrite adv_param_cands_catch, adv_catch_cands_catch, adv_static_cands_catch.
  cbn [Nat.eqb negb]. unfold orelse at 1 2.
  assert ((if Ascii.eqb c "{" || Ascii.eqb c "*" then None else @None (bytes * list bytes)) = None) as ->
    by (destruct (Ascii.eqb c "{" || Ascii.eqb c "*"); reflexivity).
  destruct (cands kt r ch) as [|k0 l] eqn:E; [|reflexivity].
  symmetry. apply try_splits_none. intros v rest. apply select_nil.
Qed.

(* ---- try_splits against the catch-all scan ---- *)
Lemma ts_skip {A} (F : bytes -> bytes -> option A) s : forall m k i,
  (forall j, i <= j < i + m -> split_ok s j = false) ->
  try_splits (m + k) i s F = try_splits k (i + m) s F.
Proof.
  induction m as [|m IH]; intros k i H.
  - simpl. rewrite Nat.add_0_r. reflexivity.
  - change (S m + k) with (S (m + k)). rewrite try_splits_S. rewrite (H i) by lia. unfold orelse.
    rewrite IH by (intros j Hj; apply H; lia). f_equal. lia.
Qed.

Lemma split_ok_nonslash s j x r : skipn j s = x :: r -> x <> "/" -> split_ok s j = false.
Proof.
  intros H Hx. unfold split_ok. rewrite H.
  destruct x as [b0 b1 b2 b3 b4 b5 b6 b7].
  destruct b0, b1, b2, b3, b4, b5, b6, b7; try reflexivity. congruence.
Qed.

Lemma split_ok_slash s j r : skipn j s = "/" :: r -> last (firstn j s) "/" <> "/" -> hd "/" s <> "/" ->
  split_ok s j = true.
Proof.
  intros H H1 H2. unfold split_ok. rewrite H.
  destruct (Ascii.eqb_spec (last (firstn j s) "/") "/"); [congruence|].
  destruct (Ascii.eqb_spec (hd "/" s) "/"); [congruence|]. reflexivity.
Qed.

Lemma index_byte_before : forall q n, index_byte q "/" = Some n ->
  forall t, t < n -> exists x r, skipn t q = x :: r /\ x <> "/".
Proof.
  induction q as [|y q IH]; intros n; simpl; [discriminate|].
  destruct (Ascii.eqb_spec y "/") as [->|Hn].
  - intros [= <-] t Ht. lia.
  - destruct (index_byte q "/") as [n'|] eqn:E; simpl; [|discriminate]. intros [= <-] t Ht.
    destruct t as [|t].
    + exists y, q. auto.
    + simpl. apply (IH n' eq_refl). lia.
Qed.

Lemma index_byte_none_all : forall q, index_byte q "/" = None ->
  forall t, t < List.length q -> exists x r, skipn t q = x :: r /\ x <> "/".
Proof.
  induction q as [|y q IH]; simpl; intros H t Ht; [lia|].
  destruct (Ascii.eqb_spec y "/") as [->|Hn]; [discriminate|].
  destruct (index_byte q "/") eqn:E; [discriminate|].
  destruct t as [|t].
  - exists y, q. auto.
  - simpl. apply IH; auto. lia.
Qed.

Lemma skipn_app_len {A} (v q : list A) t : skipn (List.length v + t) (v ++ q) = skipn t q.
Proof. induction v; simpl; auto. Qed.
Lemma firstn_app_len {A} (v q : list A) t : firstn (List.length v + t) (v ++ q) = v ++ firstn t q.
Proof. induction v; simpl; auto. f_equal; auto. Qed.

Fixpoint noempty (s : bytes) : bool :=
  match s with
  | [] => true
  | c1 :: r => match r with c2 :: _ => negb (Ascii.eqb c1 "/" && Ascii.eqb c2 "/") | [] => true end && noempty r
  end.
Definition segstart (q : bytes) : bool := match q with c :: _ => negb (Ascii.eqb c "/") | [] => true end.

Lemma noempty_skipn : forall j s, noempty s = true -> noempty (skipn j s) = true.
Proof.
  induction j as [|j IH]; intros s H; [exact H|]. destruct s as [|c s]; [reflexivity|].
  simpl. apply IH. simpl in H. apply andb_prop in H. tauto.
Qed.

Lemma noempty_after_slash q r : noempty q = true -> q = "/" :: r -> segstart r = true.
Proof.
  intros H ->. simpl in H. destruct r as [|c2 r]; [reflexivity|]. simpl.
  apply andb_prop in H. destruct H as [H _]. destruct (Ascii.eqb c2 "/"); [discriminate|reflexivity].
Qed.

Lemma last_app_nonnil {A} (v w : list A) d : w <> [] -> last (v ++ w) d = last w d.
Proof.
  intros Hw. induction v as [|x v IH]; auto. simpl. destruct (v ++ w) eqn:E; [|exact IH].
  apply app_eq_nil in E. tauto.
Qed.

Lemma last_firstn_S {A} : forall d (q : list A) x r dflt, skipn d q = x :: r -> last (firstn (S d) q) dflt = x.
Proof.
  induction d as [|d IH]; intros q x r dflt H.
  - simpl in H. subst q. reflexivity.
  - destruct q as [|y q]; [discriminate|]. simpl in H.
    change (firstn (S (S d)) (y :: q)) with (y :: firstn (S d) q).
    specialize (IH q x r dflt H). destruct (firstn (S d) q) eqn:E; [|exact IH].
    destruct q as [|z q]; [rewrite skipn_nil in H; discriminate|simpl in E; discriminate].
Qed.

Lemma res_of_scan_hit vals nm v (l : node) kvs :
  res_of (v :: vals) (Some (l, kvs)) = res_of vals (Some (l, (nm, v) :: kvs)).
Proof. simpl. rewrite <- app_assoc. reflexivity. Qed.

Lemma ts_scan (F : bytes -> bytes -> option (bytes * list bytes)) (sub fin : bytes -> mres) nm vals s :
  s <> [] -> hd "/" s <> "/" ->
  (forall j r, skipn j s = "/" :: r -> F (firstn j s) ("/" :: r) = res_of (firstn j s :: vals) (sub ("/" :: r))) ->
  F s [] = res_of vals (fin s) ->
  forall sf v q i, s = v ++ q -> i = Nat.max 1 (List.length v) ->
    segstart q = true -> noempty q = true -> List.length q < sf ->
    try_splits (List.length s + 1 - i) i s F = res_of vals (scan sf sub fin nm v q).
Proof.
  intros Hne Hhd HF Hfin.
  induction sf as [|sf IH]; intros v q i Hs Hi Hseg Hno Hsf; [lia|].
  cbn [scan].
  assert (Hlen : List.length s = List.length v + List.length q) by (rewrite Hs; apply app_length).
  assert (Hspos : 1 <= List.length s) by (destruct s; [congruence|simpl; lia]).
  destruct (index_byte q "/") as [[|d]|] eqn:Eidx.
  - (* q starts with '/': excluded *)
    destruct q as [|c q']; [discriminate|]. simpl in Eidx, Hseg.
    destruct (Ascii.eqb c "/"); [discriminate|]. destruct (index_byte q' "/"); discriminate.
  - pose proof (index_byte_nth q (S d) Eidx) as [Hnth Hdl].
    remember (List.length v + S d) as j eqn:Hj.
    assert (Hskj : skipn j s = skipn (S d) q) by (rewrite Hj, Hs; apply skipn_app_len).
    assert (Hfij : firstn j s = v ++ firstn (S d) q) by (rewrite Hj, Hs; apply firstn_app_len).
    destruct (skipn (S d) q) as [|x q''] eqn:Eq'; [apply skipn_nil_len in Eq'; lia|].
    assert (x = "/") as ->.
    { pose proof (skipn_cons_nth _ _ _ _ Eq') as (H1 & _). congruence. }
    replace (List.length s + 1 - i) with ((j - i) + S (List.length s - j)) by lia.
    rewrite ts_skip.
    2:{ intros t Ht.
        destruct (index_byte_before q (S d) Eidx (t - List.length v) ltac:(lia)) as (y & r & Hy & Hyn).
        apply (split_ok_nonslash s t y r); auto.
        rewrite Hs. replace t with (List.length v + (t - List.length v)) by lia. rewrite skipn_app_len. exact Hy. }
    replace (i + (j - i)) with j by lia.
    rewrite try_splits_S.
    assert (Hok : split_ok s j = true).
    { apply (split_ok_slash s j q''); auto. rewrite Hfij.
      destruct (index_byte_before q (S d) Eidx d ltac:(lia)) as (y & r & Hy & Hyn).
      rewrite last_app_nonnil
        by (intros Hc; apply (f_equal (@List.length ascii)) in Hc; rewrite firstn_length in Hc; cbn [List.length] in Hc; lia).
      rewrite (last_firstn_S d q y r "/" Hy). exact Hyn. }
    rewrite Hok, Hskj. rewrite (HF j q'' Hskj). rewrite Hfij.
    destruct (sub ("/" :: q'')) as [[l kvs]|].
    + unfold orelse. rewrite res_of_scan_hit with (nm := nm). reflexivity.
    + unfold orelse. cbn [res_of].
      assert (Hq : q = firstn (S d) q ++ "/" :: q'') by (rewrite <- Eq'; symmetry; apply firstn_skipn).
      specialize (IH (v ++ firstn (S d) q ++ ["/"]) q'' (S j)).
      assert (Hl2 : List.length (v ++ firstn (S d) q ++ ["/"]) = S j).
      { rewrite !app_length, firstn_length. cbn [List.length]. lia. }
      replace (List.length s - j) with (List.length s + 1 - S j) by lia.
      change (skipn 1 ("/" :: q'')) with q''.
      apply IH.
      * rewrite Hs. rewrite Hq at 1. rewrite <- !app_assoc. reflexivity.
      * rewrite Hl2. lia.
      * apply (noempty_after_slash ("/" :: q'') q''); auto. rewrite <- Eq'. apply noempty_skipn. exact Hno.
      * assert (noempty ("/" :: q'') = true) as H by (rewrite <- Eq'; apply noempty_skipn; exact Hno).
        simpl in H. apply andb_prop in H. tauto.
      * assert (List.length ("/" :: q'') = List.length q - S d) by (rewrite <- Eq'; apply skipn_length).
        simpl in H. lia.
  - (* no further '/' *)
    replace (List.length s + 1 - i) with ((List.length s - i) + 1) by lia.
    rewrite ts_skip.
    2:{ intros t Ht.
        destruct (index_byte_none_all q Eidx (t - List.length v) ltac:(lia)) as (y & r & Hy & Hyn).
        apply (split_ok_nonslash s t y r); auto.
        rewrite Hs. replace t with (List.length v + (t - List.length v)) by lia. rewrite skipn_app_len. exact Hy. }
    replace (i + (List.length s - i)) with (List.length s) by lia.
    rewrite try_splits_S. unfold split_ok. rewrite skipn_all, firstn_all. cbn [try_splits orelse].
    rewrite Hfin, <- Hs. destruct (res_of vals (fin s)); reflexivity.
Qed.

Lemma ts_slash_start {A} (F : bytes -> bytes -> option A) s : hd "a" s = "/" ->
  try_splits (List.length s) 1 s F = F s [].
Proof.
  intros Hhd. destruct s as [|c s']; [discriminate|]. simpl in Hhd. subst c.
  replace (List.length ("/" :: s')) with ((List.length ("/" :: s') - 1) + 1) by (simpl; lia).
  rewrite ts_skip.
  - replace (1 + (List.length ("/" :: s') - 1)) with (List.length ("/" :: s')) by (simpl; lia).
    rewrite try_splits_S. unfold split_ok. rewrite skipn_all, firstn_all. cbn [try_splits orelse].
    destruct (F ("/" :: s') []); reflexivity.
  - intros j Hj. unfold split_ok. destruct (skipn j ("/" :: s')) as [|x r] eqn:E.
    + apply skipn_nil_len in E. simpl in *. lia.
    + destruct x as [b0 b1 b2 b3 b4 b5 b6 b7].
      destruct b0, b1, b2, b3, b4, b5, b6, b7; try reflexivity.
      simpl. apply andb_false_r.
Qed.

Lemma with_vals_app a b r : with_vals (a ++ b) r = with_vals a (with_vals b r).
Proof. destruct r as [[l v]|]; simpl; auto. rewrite app_assoc. reflexivity. Qed.
Lemma res_of_with_vals vals nm v r : res_of vals (with_vals [(nm, v)] r) = res_of (v :: vals) r.
Proof. destruct r as [[l kvs]|]; simpl; auto. rewrite <- app_assoc. reflexivity. Qed.
Lemma res_of_alt vals a b : res_of vals (alt a b) = orelse (res_of vals a) (fun _ => res_of vals b).
Proof. destruct a as [[l kvs]|]; reflexivity. Qed.

(* side conditions of stages 3-4: no '*' byte and no empty segment in the request — or no
   catch-all in the tree at all *)
Definition nostar (p : bytes) : bool := forallb (fun c => negb (Ascii.eqb c "*")) p.
Fixpoint plain (n : node) : bool :=
  match n with Node k _ ch => forallb ptok_ok (tokenize k) && forallb plain ch end.
Definition okpath (p : bytes) : bool := nostar p && noempty p.

Lemma nostar_skipn p : forall j, nostar p = true -> nostar (skipn j p) = true.
Proof.
  induction p as [|c p IH]; intros j H; destruct j; simpl; auto.
  simpl in H. apply andb_prop in H. destruct H as [_ H]. apply IH; auto.
Qed.
Lemma okpath_skipn p j : okpath p = true -> okpath (skipn j p) = true.
Proof.
  unfold okpath. intros H. apply andb_prop in H. destruct H as [H1 H2].
  rewrite nostar_skipn, noempty_skipn; auto.
Qed.
Lemma okpath_tl c p : okpath (c :: p) = true -> okpath p = true.
Proof. apply (okpath_skipn (c :: p) 1). Qed.

Lemma plain_no_star x : plain x = true -> starts_with "*" (nkey x) = false.
Proof.
  destruct x as [k r ch]. cbn [plain nkey]. intros H. apply andb_prop in H. destruct H as [H _].
  destruct k as [|c k]; [reflexivity|]. cbn [starts_with].
  destruct (Ascii.eqb c "*") eqn:E; [|reflexivity]. apply Ascii.eqb_eq in E. subst c.
  destruct k as [|c2 k].
  - discriminate.
  - destruct (Ascii.eqb c2 "{") eqn:E2.
    + apply Ascii.eqb_eq in E2. subst c2. unfold tokenize in H. cbn [tokenize_fuel List.length] in H.
      destruct (take_name k) as [nm r'] eqn:Et. simpl in H. discriminate.
    + unfold tokenize in H.
      assert (tokenize_fuel (S (List.length ("*" :: c2 :: k))) ("*" :: c2 :: k) =
              TStatic "*" :: tokenize_fuel (List.length ("*" :: c2 :: k)) (c2 :: k)) as Hs.
      { destruct c2 as [[] [] [] [] [] [] [] []]; try reflexivity; discriminate. }
      rewrite Hs in H. simpl in H. discriminate.
Qed.

Lemma m2_km x p : m2 x p = km x (Kof x) (sub0of (nchildren x)) (tokenize (nkey x)) p.
Proof. destruct x as [k r ch]. apply m2_eq. Qed.

Definition side (p : bytes) (n : node) (kt : list token) : Prop :=
  okpath p = true \/ (plain n = true /\ forallb ptok_ok kt = true).

Lemma km_select : forall n pre, pwf pre n ->
  forall kt fuel p vals, kt_ok (cend (nroute n) (nchildren n)) kt = true -> List.length p + 1 < fuel ->
  side p n kt ->
  select fuel (cands kt (nroute n) (nchildren n)) p 0 vals =
  res_of vals (km n (Kof n) (sub0of (nchildren n)) kt p).
Proof.
  induction n as [k r ch IH] using node_ind'. intros pre Hwf.
  pose proof (pwf_inv _ _ _ _ Hwf) as (kt0 & Hne0 & Hk0 & Hok0 & Hr & Hnd & Hch).
  rewrite Forall_forall in IH, Hch. cbn [nroute nchildren].
  set (n := Node k r ch) in *.
  assert (Hside_child : forall p x, In x ch -> okpath p = true \/ plain n = true ->
            forall ktx, tokenize (nkey x) = ktx -> forall kt', (exists t, ktx = t :: kt') -> side p x kt').
  { intros p x Hx [H|H] ktx Hkx kt' (t & Ht); [left; exact H|right].
    unfold n in H. cbn [plain] in H. apply andb_prop in H. destruct H as [_ H].
    rewrite forallb_forall in H. specialize (H x Hx). split; [exact H|].
    destruct x as [kx rx chx]. cbn [plain nkey] in *. apply andb_prop in H. destruct H as [H _].
    rewrite Hkx, Ht in H. simpl in H. apply andb_prop in H. tauto. }
  assert (Hside_weak : forall p kt, side p n kt -> okpath p = true \/ plain n = true).
  { intros p kt [H|[H _]]; auto. }
  induction kt as [|t kt IHkt]; intros fuel p vals Hok Hf Hs.
  - (* the key is consumed *)
    rewrite cands_nil. cbn [km].
    destruct fuel as [|f]; [lia|].
    destruct p as [|c p'].
    + cbn [select Kof nroute]. unfold n at 1. cbn [nroute]. destruct r as [rt|].
      * simpl. rewrite app_nil_r. reflexivity.
      * unfold below. simpl own. simpl app. rewrite leaf_none; [reflexivity|].
        intros k0 Hk0'. apply in_flat_map in Hk0'. destruct Hk0' as (x & Hx & Hk0').
        apply (cands_of_toks (pre ++ k) x k0 (Hch x Hx) Hk0').
    + rewrite (select_below (pre ++ k)) by auto.
      cbn [Kof]. unfold n at 1 2 3. cbn [nchildren]. rewrite !res_of_alt.
      pose proof (Hside_weak _ _ Hs) as Hsw.
      assert (Hstat : forall x, first_child c ch = Some x -> sbyte c = true ->
                select f (tl_cands x) p' 0 vals = res_of vals (m2 x (c :: p'))).
      { intros x Hx Hc. apply first_child_in in Hx. destruct Hx as [Hinx Hsw'].
        destruct (pwf_tokens _ _ (Hch x Hinx)) as (t & kt' & Htk & Hkx & Hokx).
        rewrite m2_km, Htk. unfold tl_cands. rewrite Htk. simpl tl.
        rewrite Hkx in Hsw'. destruct (sbyte_split c Hc) as [Hc1 Hc2].
        destruct t as [d|nm|nm].
        - change (render (TStatic d :: kt')) with (d :: render kt') in Hsw'. cbn [starts_with] in Hsw'.
          apply Ascii.eqb_eq in Hsw'. subst d.
          destruct (kt_ok_cons _ _ _ Hokx) as [[_ Hokx']|(nm & Hbad & _)]; [|discriminate].
          rewrite (IH x Hinx (pre ++ k) (Hch x Hinx) kt' f p' vals Hokx').
          + cbn [km]. rewrite Ascii.eqb_refl, Hc. reflexivity.
          + simpl in Hf; lia.
          + apply (Hside_child p' x Hinx) with (ktx := TStatic c :: kt'); eauto.
            destruct Hsw as [H|H]; [left; eapply okpath_tl; eauto|right; exact H].
        - change (render (TParam nm :: kt')) with ("{" :: (nm ++ ["}"]) ++ render kt') in Hsw'. cbn [starts_with] in Hsw'.
          apply Ascii.eqb_eq in Hsw'. subst c. discriminate.
        - change (render (TCatch nm :: kt')) with ("*" :: "{" :: (nm ++ ["}"]) ++ render kt') in Hsw'. cbn [starts_with] in Hsw'.
          apply Ascii.eqb_eq in Hsw'. subst c. discriminate. }
      assert (Hpar : match first_child "{" ch with
                     | Some y => match seg is_slash (c :: p') with
                                 | [] => None
                                 | a :: l => select f (tl_cands y) (skipn (List.length (a :: l)) (c :: p')) 0 ((a :: l) :: vals)
                                 end
                     | None => None
                     end = res_of vals (m2_child "{" ch (c :: p'))).
      { unfold m2_child. destruct (first_child "{" ch) as [y|] eqn:Ey; [|reflexivity].
        apply first_child_in in Ey. destruct Ey as [Hiny Hsw'].
        destruct (pwf_tokens _ _ (Hch y Hiny)) as (t & kt' & Htk & Hky & Hoky).
        rewrite m2_km, Htk. unfold tl_cands. rewrite Htk. simpl tl.
        rewrite Hky in Hsw'. destruct t as [d|nm|nm].
        - change (render (TStatic d :: kt')) with (d :: render kt') in Hsw'. cbn [starts_with] in Hsw'.
          apply Ascii.eqb_eq in Hsw'. subst d. pose proof (kt_ok_head_static _ _ _ Hoky). discriminate.
        - destruct (kt_ok_cons _ _ _ Hoky) as [[_ Hoky']|(nm' & Hbad & _)]; [|discriminate].
          cbn [km].
          destruct (seg is_slash (c :: p')) as [|v0 vv] eqn:Ev; [reflexivity|].
          rewrite res_of_with_vals.
          apply (IH y Hiny (pre ++ k) (Hch y Hiny)); auto.
          + rewrite skipn_length. simpl in Hf |- *. lia.
          + apply (Hside_child _ y Hiny) with (ktx := TParam nm :: kt'); eauto.
            destruct Hsw as [H|H]; [left; apply okpath_skipn; exact H|right; exact H].
        - change (render (TCatch nm :: kt')) with ("*" :: "{" :: (nm ++ ["}"]) ++ render kt') in Hsw'. cbn [starts_with] in Hsw'.
          discriminate. }
      assert (Hcat : match first_child "*" ch with
                     | Some w => try_splits (List.length (c :: p')) 1 (c :: p')
                                   (fun v rest => select f (tl_cands w) rest 0 (v :: vals))
                     | None => None
                     end = res_of vals (m2_child "*" ch (c :: p'))).
      { unfold m2_child. destruct (first_child "*" ch) as [w|] eqn:Ew; [|reflexivity].
        apply first_child_in in Ew. destruct Ew as [Hinw Hsw'].
        destruct (pwf_tokens _ _ (Hch w Hinw)) as (t & kt' & Htk & Hkw & Hokw).
        rewrite m2_km, Htk. unfold tl_cands. rewrite Htk. simpl tl.
        rewrite Hkw in Hsw'. destruct t as [d|nm|nm].
        - change (render (TStatic d :: kt')) with (d :: render kt') in Hsw'. cbn [starts_with] in Hsw'.
          apply Ascii.eqb_eq in Hsw'. subst d. pose proof (kt_ok_head_static _ _ _ Hokw). discriminate.
        - change (render (TParam nm :: kt')) with ("{" :: (nm ++ ["}"]) ++ render kt') in Hsw'. cbn [starts_with] in Hsw'.
          discriminate.
        - rewrite <- (select_cands_catch f nm kt' (nroute w) (nchildren w) c p' vals).
          apply (IH w Hinw (pre ++ k) (Hch w Hinw)); auto.
          destruct Hsw as [H|H]; [left; exact H|].
          exfalso. unfold n in H. cbn [plain] in H. apply andb_prop in H. destruct H as [_ H].
          rewrite forallb_forall in H. specialize (H w Hinw). destruct w as [kw rw chw].
          cbn [plain nkey] in *. apply andb_prop in H. destruct H as [H _]. rewrite Htk in H. simpl in H. discriminate. }
      rewrite Hpar, Hcat.
      destruct (sbyte c) eqn:Es.
      * assert (Hc1 : m2_child c ch (c :: p') = match first_child c ch with Some x => m2 x (c :: p') | None => None end)
          by reflexivity.
        rewrite Hc1. clear Hc1. destruct (first_child c ch) as [x|] eqn:Ex.
        -- rewrite (Hstat x eq_refl eq_refl). reflexivity.
        -- reflexivity.
      * unfold orelse at 1.
        apply sbyte_false in Es. apply orb_prop in Es. destruct Es as [Es|Es]; apply Ascii.eqb_eq in Es; subst c.
        -- unfold orelse. destruct (res_of vals (m2_child "{" ch ("{" :: p'))); reflexivity.
        -- destruct Hsw as [Hsw|Hsw].
           { unfold okpath in Hsw. simpl in Hsw. discriminate. }
           assert (first_child "*" ch = None) as Hns.
           { destruct (first_child "*" ch) as [x|] eqn:Ex; auto. apply first_child_in in Ex.
             destruct Ex as [Hinx Hsw'].
             unfold n in Hsw. cbn [plain] in Hsw. apply andb_prop in Hsw. destruct Hsw as [_ Hsw].
             rewrite forallb_forall in Hsw. rewrite (plain_no_star x (Hsw x Hinx)) in Hsw'. discriminate. }
           assert (Hc1 : m2_child "*" ch ("*" :: p') = match first_child "*" ch with Some x => m2 x ("*" :: p') | None => None end)
             by reflexivity.
           rewrite Hc1, Hns. reflexivity.
  - destruct fuel as [|f]; [lia|].
    destruct p as [|c p'].
    + rewrite select_cands_short. reflexivity.
    + destruct (kt_ok_cons _ _ _ Hok) as [[Hokt Hok']|(nm' & -> & Hnok & Hok' & Hend)].
      * assert (Hs' : forall q, (okpath (c :: p') = true -> okpath q = true) -> side q n kt).
        { intros q Hq. destruct Hs as [H|[H1 H2]]; [left; auto|right]. split; auto.
          simpl in H2. apply andb_prop in H2. tauto. }
        destruct t as [d|nm|nm]; simpl in Hokt; [| |discriminate].
        -- rewrite select_cands_static. cbn [km].
           destruct (Ascii.eqb d c && sbyte c); [|reflexivity].
           apply IHkt; auto; [simpl in Hf; lia|]. apply Hs'. apply okpath_tl.
        -- rewrite select_cands_param. cbn [km].
           destruct (seg is_slash (c :: p')) as [|v0 vv] eqn:Ev; [reflexivity|].
           rewrite res_of_with_vals.
           apply IHkt; auto; [rewrite skipn_length; simpl in Hf |- *; lia|]. apply Hs'. intros H. apply okpath_skipn; exact H.
      * (* catch-all *)
        destruct Hs as [Hs|[_ Hbad]]; [|simpl in Hbad; discriminate].
        rewrite select_cands_catch.
        set (s := c :: p') in *.
        assert (Hf2 : 2 <= f) by (unfold s in Hf; simpl in Hf; lia).
        assert (IHF : forall v rest, List.length rest < List.length s -> okpath rest = true ->
                  select f (cands kt r ch) rest 0 (v :: vals) = res_of (v :: vals) (km n (Kof n) (sub0of ch) kt rest)).
        { intros v rest Hl Ho. apply IHkt; auto; [lia|]. left; exact Ho. }
        assert (Hsuf : forall j r0, skipn j s = "/" :: r0 -> c <> "/" ->
                  List.length ("/" :: r0) < List.length s /\ okpath ("/" :: r0) = true).
        { intros j r0 Hj Hc. split.
          - destruct j as [|j]; [unfold s in Hj; simpl in Hj; congruence|].
            rewrite <- Hj, skipn_length. unfold s. simpl. lia.
          - rewrite <- Hj. apply okpath_skipn. exact Hs. }
        assert (Hno : noempty s = true) by (unfold okpath in Hs; apply andb_prop in Hs; tauto).
        cbn [km]. destruct kt as [|t' kt''].
        -- (* the catch-all ends the key *)
           specialize (Hend eq_refl). destruct (cend_children _ _ Hend) as [Hnil|(c0 & Hc0e & Hc0s)].
           ++ subst ch. cbn [sub0of]. destruct r as [rt|]; [|discriminate].
              destruct f as [|f']; [lia|].
              rewrite cands_nil. unfold below. simpl own. simpl app.
              rewrite (select_catch_last f' rt c p' vals) by reflexivity.
              cbn [res_of]. unfold lpat, n. simpl. reflexivity.
           ++ subst ch. cbn [sub0of]. destruct r as [rt|]; [|discriminate].
              assert (Hfin : select f (cands [] (Some rt) [c0]) [] 0 (s :: vals) =
                             res_of vals (Some (n, [(nm', s)]))).
              { transitivity (res_of (s :: vals) (km n (Kof n) (sub0of [c0]) [] []));
                  [apply IHF; [unfold s; simpl; lia|reflexivity]|]. cbn [km Kof]. unfold n at 1. cbn [nroute res_of].
                cbn [map snd rev]. rewrite app_nil_r. reflexivity. }
              destruct (Ascii.eqb_spec c "/") as [->|Hcs].
              ** rewrite ts_slash_start by reflexivity. cbv beta. etransitivity; [exact Hfin|reflexivity].
              ** replace (List.length s) with (List.length s + 1 - 1) by lia.
                 apply (ts_scan _ (m2 c0) (fun v => Some (n, [(nm', v)])) nm' vals s);
                   [discriminate | unfold s; simpl; exact Hcs | | exact Hfin | reflexivity | reflexivity
                    | unfold s; simpl; destruct (Ascii.eqb_spec c "/"); [congruence|reflexivity] | exact Hno | lia].
                 intros j r0 Hj. destruct (Hsuf j r0 Hj Hcs) as [Hl Ho].
                 cbv beta. etransitivity; [apply (IHF _ _ Hl Ho)|].
                 cbn [km Kof]. unfold m2_child, n. cbn [nchildren first_child]. rewrite Hc0s.
                 assert (starts_with "{" (nkey c0) = false /\ starts_with "*" (nkey c0) = false) as [-> ->].
                 { destruct (nkey c0) as [|x kk]; [discriminate|]. simpl in *. apply Ascii.eqb_eq in Hc0s. subst x. auto. }
                 destruct (m2 c0 ("/" :: r0)); reflexivity.
        -- (* infix catch-all *)
           assert (Hfin : select f (cands (t' :: kt'') r ch) [] 0 (s :: vals) = None).
           { destruct f as [|f']; [lia|]. apply select_cands_short. }
           destruct (Ascii.eqb_spec c "/") as [->|Hcs].
           ++ rewrite ts_slash_start by reflexivity. cbv beta. etransitivity; [exact Hfin|reflexivity].
           ++ replace (List.length s) with (List.length s + 1 - 1) by lia.
              apply (ts_scan _ (fun q => km n (Kof n) (sub0of ch) (t' :: kt'') q) (fun _ => None) nm' vals s);
                [discriminate | unfold s; simpl; exact Hcs | | exact Hfin | reflexivity | reflexivity
                 | unfold s; simpl; destruct (Ascii.eqb_spec c "/"); [congruence|reflexivity] | exact Hno | lia].
              intros j r0 Hj. destruct (Hsuf j r0 Hj Hcs) as [Hl Ho]. cbv beta. apply IHF; auto.
Qed.

Lemma prep_prep a b c : prep a (prep b c) = prep (a ++ b) c.
Proof. unfold prep. simpl. rewrite app_assoc. reflexivity. Qed.

Lemma map_flat_map {A B C} (f : B -> C) (g : A -> list B) l : map f (flat_map g l) = flat_map (fun x => map f (g x)) l.
Proof. induction l as [|x l IH]; simpl; auto. rewrite map_app, IH. reflexivity. Qed.

Lemma flat_map_ext_in {A B} (f g : A -> list B) l : (forall x, In x l -> f x = g x) -> flat_map f l = flat_map g l.
Proof. induction l as [|x l IH]; simpl; auto. intros H. rewrite (H x) by auto. rewrite IH; auto. Qed.

Lemma cands_of_routes : forall n pre pt, pwf pre n -> pre = render pt -> forallb tok_ok pt = true ->
  map mk_cand (map rpat (routes_s n)) = map (prep pt) (cands_of n).
Proof.
  induction n as [k r ch IH] using node_ind'. intros pre pt Hwf Hpre Hpt.
  apply pwf_inv in Hwf. destruct Hwf as (kt & Hne & Hk & Hok & Hr & Hnd & Hch).
  pose proof (kt_ok_tok _ _ Hok) as Hok'.
  subst k. cbn [routes_s cands_of]. rewrite tokenize_render by exact Hok'.
  rewrite !map_app, map_map. f_equal.
  - destruct r as [rt|]; simpl; auto. unfold mk_cand, prep. simpl. rewrite (Hr rt eq_refl), Hpre.
    rewrite <- render_app, tokenize_render, app_nil_r; auto.
    rewrite forallb_app, Hpt, Hok'. reflexivity.
  - rewrite (map_map (prep kt) (prep pt)).
    rewrite (map_ext _ (prep (pt ++ kt))) by (intros; apply prep_prep).
    rewrite (map_map rpat mk_cand). rewrite !map_flat_map. apply flat_map_ext_in. intros x Hx.
    rewrite Forall_forall in IH, Hch. rewrite <- (map_map rpat mk_cand).
    apply (IH x Hx (pre ++ render kt)); auto.
    + rewrite Hpre, render_app. reflexivity.
    + rewrite forallb_app, Hpt, Hok'. reflexivity.
Qed.

Lemma m2_child_some cc ch q l v2 : m2_child cc ch q = Some (l, v2) -> exists x, In x ch /\ m2 x q = Some (l, v2).
Proof.
  unfold m2_child. destruct (first_child cc ch) as [x|] eqn:E; [|discriminate].
  intros H. exists x. split; auto. apply first_child_in in E. tauto.
Qed.

Lemma wildcard_names_app a b : wildcard_names (a ++ b) = wildcard_names a ++ wildcard_names b.
Proof. unfold wildcard_names. apply flat_map_app. Qed.

Lemma scan_some sub fin nm : forall sf v q l kvs, scan sf sub fin nm v q = Some (l, kvs) ->
  (exists q' kvs' v', sub q' = Some (l, kvs') /\ kvs = (nm, v') :: kvs') \/ (exists v', fin v' = Some (l, kvs)).
Proof.
  induction sf as [|sf IH]; intros v q l kvs H; [discriminate|]. cbn [scan] in H.
  destruct (index_byte q "/") as [[|d]|].
  - right. eexists; exact H.
  - destruct (sub (skipn (S d) q)) as [[l' kvs']|] eqn:E.
    + inversion H; subst. left. do 3 eexists. split; [exact E|reflexivity].
    + eapply IH; eauto.
  - right. eexists; exact H.
Qed.

(* what a match reports: a registered route whose pattern is the branch, with the branch's names *)
Definition sound_res (n : node) (pre : bytes) (l : node) (kvs : list kv) : Prop :=
  exists rt bt, nroute l = Some rt /\ In rt (routes_s n) /\ rpat rt = pre ++ render bt /\
                forallb tok_ok bt = true /\ map fst kvs = wildcard_names bt.

Lemma m2_sound : forall n pre p l kvs, pwf pre n -> m2 n p = Some (l, kvs) -> sound_res n pre l kvs.
Proof.
  induction n as [k r ch IH] using node_ind'. intros pre p l kvs Hwf.
  pose proof (pwf_inv _ _ _ _ Hwf) as (kt0 & Hne & Hk & Hok & Hr & Hnd & Hch).
  rewrite Forall_forall in IH, Hch.
  set (n := Node k r ch) in *.
  assert (Hchild : forall x q l kvs, In x ch -> m2 x q = Some (l, kvs) ->
            exists rt bt, nroute l = Some rt /\ In rt (routes_s n) /\ rpat rt = (pre ++ k) ++ render bt /\
                          forallb tok_ok bt = true /\ map fst kvs = wildcard_names bt).
  { intros x q l0 kvs0 Hx Hm. destruct (IH x Hx (pre ++ k) q l0 kvs0 (Hch x Hx) Hm) as (rt & bt & H1 & H2 & H3 & H4 & H5).
    exists rt, bt. repeat split; auto. unfold n. cbn [routes_s]. apply in_or_app. right. apply in_flat_map. exists x; auto. }
  assert (Hgen : forall kt done p l kvs, k = render (done ++ kt) -> forallb tok_ok done = true ->
            kt_ok (cend r ch) kt = true ->
            km n (Kof n) (sub0of ch) kt p = Some (l, kvs) ->
            exists rt bt, nroute l = Some rt /\ In rt (routes_s n) /\ rpat rt = pre ++ render (done ++ kt ++ bt) /\
                          forallb tok_ok bt = true /\ map fst kvs = wildcard_names (kt ++ bt)).
  { induction kt as [|t kt IHkt]; intros done p0 l0 kvs0 Hkd Hdone Hokt Hm.
    - cbn [km] in Hm. rewrite app_nil_r in Hkd. destruct p0 as [|c p'].
      + cbn [Kof] in Hm. unfold n in Hm at 1. cbn [nroute] in Hm. destruct r as [rt|]; [|discriminate].
        inversion Hm; subst l0 kvs0. exists rt, []. simpl. rewrite app_nil_r. repeat split; auto;
          try (unfold n; simpl; auto; fail).
        rewrite (Hr rt eq_refl), Hkd. reflexivity.
      + cbn [Kof] in Hm. unfold n in Hm at 1 2 3. cbn [nchildren] in Hm.
        assert (exists x, In x ch /\ m2 x (c :: p') = Some (l0, kvs0)) as (x & Hx & Hmx).
        { unfold alt in Hm. destruct (m2_child c ch (c :: p')) as [[l1 v1]|] eqn:E1.
          - inversion Hm; subst. eapply m2_child_some; eauto.
          - destruct (m2_child "{" ch (c :: p')) as [[l1 v1]|] eqn:E2.
            + inversion Hm; subst. eapply m2_child_some; eauto.
            + eapply m2_child_some; eauto. }
        destruct (Hchild x _ _ _ Hx Hmx) as (rt & bt & H1 & H2 & H3 & H4 & H5).
        exists rt, bt. simpl. repeat split; auto. rewrite H3, Hkd, render_app, app_assoc. reflexivity.
    - destruct p0 as [|c p']; [discriminate|].
      assert (Hstep : forall kvs1, km n (Kof n) (sub0of ch) kt (match t with TStatic _ => p' | _ => c :: p' end) = Some (l0, kvs1) -> True) by auto.
      destruct (kt_ok_cons _ _ _ Hokt) as [[Hokt1 Hokt2]|(nm & -> & Hnm & Hokt2 & Hend)].
      + assert (Hd1 : forallb tok_ok (done ++ [t]) = true)
          by (rewrite forallb_app, Hdone; simpl; rewrite (ptok_tok _ Hokt1); reflexivity).
        assert (Hk1 : k = render ((done ++ [t]) ++ kt)) by (rewrite <- app_assoc; exact Hkd).
        destruct t as [d|nm|nm]; simpl in Hokt1; try discriminate; cbn [km] in Hm.
        * destruct (Ascii.eqb d c && sbyte c); [|discriminate].
          destruct (IHkt (done ++ [TStatic d]) _ _ _ Hk1 Hd1 Hokt2 Hm) as (rt & bt & H1 & H2 & H3 & H4 & H5).
          exists rt, bt. repeat split; auto. rewrite H3, <- app_assoc. reflexivity.
        * destruct (seg is_slash (c :: p')) as [|v0 vv]; [discriminate|].
          destruct (km n (Kof n) (sub0of ch) kt (skipn (List.length (v0 :: vv)) (c :: p'))) as [[l1 kvs1]|] eqn:E; [|discriminate].
          simpl in Hm. inversion Hm; subst l0 kvs0.
          destruct (IHkt (done ++ [TParam nm]) _ _ _ Hk1 Hd1 Hokt2 E) as (rt & bt & H1 & H2 & H3 & H4 & H5).
          exists rt, bt. repeat split; auto.
          -- rewrite H3, <- app_assoc. reflexivity.
          -- simpl. f_equal. exact H5.
      + assert (Hd1 : forallb tok_ok (done ++ [TCatch nm]) = true)
          by (rewrite forallb_app, Hdone; simpl; rewrite Hnm; reflexivity).
        assert (Hk1 : k = render ((done ++ [TCatch nm]) ++ kt)) by (rewrite <- app_assoc; exact Hkd).
        cbn [km] in Hm. destruct kt as [|t' kt'].
        * specialize (Hend eq_refl). pose proof (cend_leaf _ _ Hend) as Hleaf.
          destruct r as [rt|]; [|congruence].
          assert (Hown : exists rt0 bt, nroute n = Some rt0 /\ In rt0 (routes_s n) /\
                         rpat rt0 = pre ++ render (done ++ [TCatch nm] ++ bt) /\ forallb tok_ok bt = true /\ bt = []).
          { exists rt, []. unfold n. simpl. repeat split; auto. rewrite (Hr rt eq_refl), Hkd. reflexivity. }
          destruct (sub0of ch) as [sb|] eqn:Esb.
          -- apply scan_some in Hm. destruct Hm as [(q' & kvs' & v' & Hsb & ->)|(v' & Hfin)].
             ++ destruct ch as [|c0 ch']; [discriminate|]. cbn [sub0of] in Esb. inversion Esb; subst sb.
                destruct (Hchild c0 _ _ _ (or_introl eq_refl) Hsb) as (rt1 & bt & H1 & H2 & H3 & H4 & H5).
                exists rt1, bt. repeat split; auto.
                ** rewrite H3, Hkd. rewrite !render_app. rewrite <- !app_assoc. reflexivity.
                ** simpl. f_equal. exact H5.
             ++ inversion Hfin; subst l0 kvs0. destruct Hown as (rt0 & bt & H1 & H2 & H3 & H4 & ->).
                exists rt0, []. repeat split; auto.
          -- inversion Hm; subst l0 kvs0. destruct Hown as (rt0 & bt & H1 & H2 & H3 & H4 & ->).
             exists rt0, []. repeat split; auto.
        * apply scan_some in Hm. destruct Hm as [(q' & kvs' & v' & Hsb & ->)|(v' & Hfin)]; [|discriminate].
          destruct (IHkt (done ++ [TCatch nm]) _ _ _ Hk1 Hd1 Hokt2 Hsb) as (rt & bt & H1 & H2 & H3 & H4 & H5).
          exists rt, bt. repeat split; auto.
          -- rewrite H3, <- app_assoc. reflexivity.
          -- simpl. f_equal. exact H5. }
  intros Hm. unfold n in Hm. rewrite m2_eq in Hm. fold n in Hm.
  rewrite Hk, tokenize_render in Hm by (eapply kt_ok_tok; eauto).
  destruct (Hgen kt0 [] p l kvs Hk eq_refl Hok Hm) as (rt & bt & H1 & H2 & H3 & H4 & H5).
  exists rt, (kt0 ++ bt). repeat split; auto. rewrite forallb_app, (kt_ok_tok _ _ Hok), H4. reflexivity.
Qed.

Lemma combine_fst_snd {A B} (l : list (A * B)) : combine (map fst l) (map snd l) = l.
Proof. induction l as [|[a b] l IH]; simpl; auto. rewrite IH. reflexivity. Qed.

Lemma pwf_routes_prefix : forall n pre rt, pwf pre n -> In rt (routes_s n) -> exists q, rpat rt = pre ++ nkey n ++ q.
Proof.
  induction n as [k r ch IH] using node_ind'. intros pre rt Hwf Hin.
  apply pwf_inv in Hwf. destruct Hwf as (kt & _ & _ & _ & Hr & _ & Hch).
  cbn [routes_s] in Hin. apply in_app_or in Hin. destruct Hin as [Hin|Hin].
  - destruct r as [r0|]; simpl in Hin; [|tauto]. destruct Hin as [<-|[]].
    exists []. simpl. rewrite app_nil_r. apply Hr; reflexivity.
  - apply in_flat_map in Hin. destruct Hin as (x & Hx & Hrt).
    rewrite Forall_forall in IH, Hch.
    destruct (IH x Hx (pre ++ k) rt (Hch x Hx) Hrt) as [q Hq].
    exists (nkey x ++ q). simpl. rewrite Hq, <- app_assoc. reflexivity.
Qed.

Lemma pwf_routes_path t : pwf [] t -> starts_with "/" (nkey t) = true ->
  Forall (fun p => is_path_pattern p = true) (map rpat (routes_of_node t)).
Proof.
  intros Hwf Hsl. rewrite Forall_forall. intros p Hp. apply in_map_iff in Hp. destruct Hp as (rt & <- & Hin).
  rewrite routes_of_node_s in Hin. destruct (pwf_routes_prefix t [] rt Hwf Hin) as [q Hq]. rewrite Hq. simpl.
  destruct (nkey t) as [|d kk]; simpl in *; [discriminate|]. apply Ascii.eqb_eq in Hsl. subst d. reflexivity.
Qed.

(* S on the routes of the tree = M2 *)
Theorem spec_eq_m2 t host path : pwf [] t -> starts_with "/" (nkey t) = true ->
  okpath path = true \/ plain t = true ->
  select_in (map rpat (routes_of_node t)) host path false = res_of [] (m2 t path).
Proof.
  intros Hwf Hsl Hs. unfold select_in.
  assert (filter (fun p => is_path_pattern p) (map rpat (routes_of_node t)) = map rpat (routes_of_node t)) as ->.
  { pose proof (pwf_routes_path t Hwf Hsl) as H. induction H as [|p l Hp _ IH]; simpl; auto. rewrite Hp, IH. reflexivity. }
  rewrite routes_of_node_s, (cands_of_routes t [] [] Hwf eq_refl eq_refl).
  rewrite (map_ext _ (fun c => c)) by apply prep_nil. rewrite map_id.
  rewrite cands_of_tokens, m2_km.
  destruct t as [k r ch]. pose proof (pwf_inv _ _ _ _ Hwf) as (kt & _ & Hk & Hok & _).
  cbn [nkey nroute nchildren].
  assert (Htk : tokenize k = kt) by (rewrite Hk; apply tokenize_render; eapply kt_ok_tok; eauto).
  rewrite Htk.
  apply (km_select (Node k r ch) [] Hwf kt); auto.
  - unfold spec_fuel. lia.
  - destruct Hs as [Hs|Hs]; [left; exact Hs|right]. split; auto.
    cbn [plain] in Hs. apply andb_prop in Hs. rewrite <- Htk. tauto.
Qed.

(* M1 = S, direct matches, with parameter values *)
Theorem lbp_param_eq_spec t host path fuel :
  pwf [] t -> starts_with "/" (nkey t) = true -> m2_fuel path t <= fuel ->
  okpath path = true \/ plain t = true ->
  direct_obs (lookup_by_path fuel t path false [] []) = spec_direct (map rpat (routes_of_node t)) host path.
Proof.
  intros Hwf Hsl Hf Hs. unfold spec_direct. rewrite (spec_eq_m2 t host path Hwf Hsl Hs).
  pose proof (lbp_eq_m2 t path false fuel Hwf Hf) as H.
  destruct (m2 t path) as [[l kvs]|] eqn:Em.
  - destruct H as (l' & tps' & -> & Hrt). destruct (m2_sound _ _ _ _ _ Hwf Em) as (rt & bt & H1 & H2 & H3 & H4 & H5).
    simpl. unfold lpat. rewrite Hrt, H1. f_equal. f_equal.
    unfold name_values. simpl in H3. rewrite H3, tokenize_render by exact H4. rewrite <- H5. symmetry. apply combine_fst_snd.
  - destruct H as (a & b & c & d & -> & Hi). simpl.
    destruct a as [n|]; auto. destruct b; auto. specialize (Hi eq_refl). discriminate.
Qed.

(* with lazy parameter capture (Reverse / Iter.Reverse) the same route is selected *)
Theorem lbp_param_eq_spec_lazy t host path fuel lazy :
  pwf [] t -> starts_with "/" (nkey t) = true -> m2_fuel path t <= fuel ->
  okpath path = true \/ plain t = true ->
  option_map fst (direct_obs (lookup_by_path fuel t path lazy [] [])) =
  option_map fst (spec_direct (map rpat (routes_of_node t)) host path).
Proof.
  intros Hwf Hsl Hf Hs. unfold spec_direct. rewrite (spec_eq_m2 t host path Hwf Hsl Hs).
  pose proof (lbp_eq_m2 t path lazy fuel Hwf Hf) as H.
  destruct (m2 t path) as [[l kvs]|] eqn:Em.
  - destruct H as (l' & tps' & -> & Hrt). destruct (m2_sound _ _ _ _ _ Hwf Em) as (rt & bt & H1 & _).
    simpl. unfold lpat. rewrite Hrt, H1. reflexivity.
  - destruct H as (a & b & c & d & -> & Hi). simpl.
    destruct a as [n|]; auto. destruct b; auto. specialize (Hi eq_refl). discriminate.
Qed.

(* never Panic / OutOfFuel under the bound *)
Theorem lbp_param_total t path lazy fuel :
  pwf [] t -> m2_fuel path t <= fuel ->
  exists n tp pss tpss, lookup_by_path fuel t path lazy [] [] = Found n tp pss tpss.
Proof.
  intros Hwf Hf. pose proof (lbp_eq_m2 t path lazy fuel Hwf Hf) as H.
  destruct (m2 t path) as [[l kvs]|].
  - destruct H as (l' & tps' & -> & _). do 4 eexists; reflexivity.
  - destruct H as (a & b & c & d & -> & _). do 4 eexists; reflexivity.
Qed.

Theorem roots_lookup_param_eq_spec r m t host path fuel :
  path_only_root r m t -> pwf [] t -> m2_fuel path t <= fuel ->
  okpath path = true \/ plain t = true ->
  direct_obs (roots_lookup fuel r m host path false [] []) =
  sres_direct (spec_lookup (method_patterns r m) host path).
Proof.
  intros Hr Hwf Hf Hs. rewrite (roots_lookup_path_only _ _ _ _ _ _ _ _ t Hr), (method_patterns_path_only _ _ t Hr).
  destruct Hr as (i & root & _ & _ & _ & _ & Hsl).
  rewrite spec_lookup_direct_path_only by (apply pwf_routes_path; auto).
  apply lbp_param_eq_spec; auto.
Qed.

(* ---- boolean checker for pwf (non-vacuity examples) ---- *)
Fixpoint pwfb (pre : bytes) (n : node) : bool :=
  match n with
  | Node k r ch =>
      negb (Spec.is_nil (tokenize k)) && bytes_eqb (render (tokenize k)) k && kt_ok (cend r ch) (tokenize k)
      && match r with Some rt => bytes_eqb (rpat rt) (pre ++ k) | None => true end
      && nodupb (heads ch)
      && forallb (pwfb (pre ++ k)) ch
  end.

Lemma pwfb_sound : forall n pre, pwfb pre n = true -> pwf pre n.
Proof.
  induction n as [k r ch IH] using node_ind'. intros pre H. cbn [pwfb] in H.
  repeat (apply andb_prop in H; destruct H as [H ?]).
  apply (PWF pre k r ch (tokenize k)); auto.
  - destruct (tokenize k); [discriminate|congruence].
  - symmetry. apply bytes_eqb_eq; auto.
  - intros rt ->. apply bytes_eqb_eq; auto.
  - apply nodupb_sound; auto.
  - rewrite Forall_forall in *. intros x Hx. apply IH; auto.
    match goal with Hf : forallb _ ch = true |- _ => rewrite forallb_forall in Hf; apply Hf; auto end.
Qed.
