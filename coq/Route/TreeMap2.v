(* TreeMap2 — the radix forest refines the map specification (MapSpec):
   token-level meaning of the byte-level conflict relations, the abstraction
   relation, one refinement theorem per operation, and the theorem for
   arbitrary histories with transactions (C02_refines_map). *)
From FoxBase Require Import Bytes.
From FoxRoute Require Import Node Lookup Spec Tree MapSpec CorrHist WFDef TreeWF TreeWF2 TreeMap.
From Coq Require Import Sorting.Sorted Permutation.
Open Scope char_scope.

(* ---------- the tokenizer ---------- *)
Lemma tokenize_fuel_eq f s : tokenize_fuel (S f) s =
  match s with
  | [] => []
  | c :: r =>
    if Ascii.eqb c "{" then (let '(n, r') := take_name r in TParam n :: tokenize_fuel f r')
    else if Ascii.eqb c "*" then
      match r with
      | d :: r1 => if Ascii.eqb d "{" then (let '(n, r') := take_name r1 in TCatch n :: tokenize_fuel f r')
                   else TStatic c :: tokenize_fuel f r
      | [] => TStatic c :: tokenize_fuel f r
      end
    else TStatic c :: tokenize_fuel f r
  end.
Proof.
  destruct s as [|c r]; [reflexivity|].
  destruct c as [[|] [|] [|] [|] [|] [|] [|] [|]]; try reflexivity.
  destruct r as [|d r1]; [reflexivity|].
  destruct d as [[|] [|] [|] [|] [|] [|] [|] [|]]; reflexivity.
Qed.

Lemma take_name_len s : List.length (snd (take_name s)) <= List.length s.
Proof.
  induction s as [|c r IH]; simpl; [lia|]. destruct (Ascii.eqb c "}"); simpl; [lia|].
  destruct (take_name r) as [n r']. simpl in *. lia.
Qed.

Lemma tokenize_fuel_indep : forall f1 f2 s, List.length s < f1 -> List.length s < f2 ->
  tokenize_fuel f1 s = tokenize_fuel f2 s.
Proof.
  induction f1 as [|f1 IH]; intros f2 s H1 H2; [lia|]. destruct f2 as [|f2]; [lia|].
  rewrite !tokenize_fuel_eq. destruct s as [|c r]; [reflexivity|]. simpl in H1, H2.
  destruct (Ascii.eqb c "{").
  - pose proof (take_name_len r) as Hl. destruct (take_name r) as [n r']. simpl in Hl. f_equal. apply IH; lia.
  - destruct (Ascii.eqb c "*").
    + destruct r as [|d r1]; [f_equal; apply IH; simpl; lia|]. simpl in H1, H2. destruct (Ascii.eqb d "{").
      * pose proof (take_name_len r1) as Hl. destruct (take_name r1) as [n r']. simpl in Hl. f_equal. apply IH; lia.
      * f_equal. apply IH; simpl; lia.
    + f_equal. apply IH; lia.
Qed.

Lemma tokenize_cons c r : tokenize (c :: r) =
    if Ascii.eqb c "{" then (let '(n, r') := take_name r in TParam n :: tokenize r')
    else if Ascii.eqb c "*" then
      match r with
      | d :: r1 => if Ascii.eqb d "{" then (let '(n, r') := take_name r1 in TCatch n :: tokenize r')
                   else TStatic c :: tokenize r
      | [] => TStatic c :: tokenize r
      end
    else TStatic c :: tokenize r.
Proof.
  unfold tokenize. rewrite tokenize_fuel_eq. simpl List.length.
  destruct (Ascii.eqb c "{").
  - pose proof (take_name_len r) as Hl. destruct (take_name r) as [n r']. simpl in Hl. f_equal.
    apply tokenize_fuel_indep; lia.
  - destruct (Ascii.eqb c "*"); [|reflexivity].
    destruct r as [|d r1]; [reflexivity|]. destruct (Ascii.eqb d "{"); [|reflexivity].
    pose proof (take_name_len r1) as Hl. destruct (take_name r1) as [n r']. simpl in Hl. f_equal.
    apply tokenize_fuel_indep; simpl; lia.
Qed.

Lemma take_name_app2 nm w : ~ In "}" nm ->
  take_name (nm ++ w) = (nm ++ fst (take_name w), snd (take_name w)).
Proof.
  induction nm as [|c nm IH]; intros Hni; simpl.
  - destruct (take_name w); reflexivity.
  - destruct (Ascii.eqb_spec c "}") as [->|Hne]; [exfalso; apply Hni; left; reflexivity|].
    rewrite IH by (intros H; apply Hni; right; exact H). reflexivity.
Qed.

Lemma take_name_app nm r2 : ~ In "}" nm -> take_name (nm ++ "}" :: r2) = (nm, r2).
Proof. intros H. rewrite take_name_app2 by exact H. simpl. rewrite app_nil_r. reflexivity. Qed.

Lemma vname_run : forall r h, vclosed (fold_left vstep r (h, VName)) = true ->
  exists nm r2, r = nm ++ "}" :: r2 /\ ~ In "}" nm /\
                fold_left vstep r (h, VName) = fold_left vstep r2 (h, VAfter).
Proof.
  induction r as [|c r IH]; intros h Hc; [discriminate|].
  destruct (Ascii.eqb_spec c "}") as [->|Hne].
  - exists [], r. simpl. auto.
  - simpl in Hc. destruct (Ascii.eqb_spec c "}"); [contradiction|].
    destruct (Ascii.eqb c "/" || Ascii.eqb c "*" || Ascii.eqb c "{" || h && Ascii.eqb c ".") eqn:E.
    + rewrite vbad_abs in Hc. discriminate.
    + destruct (IH h Hc) as [nm [r2 [-> [Hni Hf]]]]. exists (c :: nm), r2. split; [reflexivity|]. split.
      * intros [H|H]; [congruence|contradiction].
      * simpl. destruct (Ascii.eqb_spec c "}"); [contradiction|]. rewrite E. exact Hf.
Qed.

Definition okstart (s : bool * vst) : Prop := snd s = VDef \/ snd s = VAfter.

Lemma tokenize_app_gen : forall n u s0 v, List.length u <= n -> okstart s0 ->
  vclosed (fold_left vstep u s0) = true -> tokenize (u ++ v) = tokenize u ++ tokenize v.
Proof.
  induction n as [|n IH]; intros u s0 v Hl Hs Hc.
  { destruct u; [reflexivity|simpl in Hl; lia]. }
  destruct u as [|c r]; [reflexivity|]. simpl in Hl. destruct s0 as [h st]. simpl app.
  rewrite !tokenize_cons. cbn [fold_left] in Hc.
  assert (forall s1, vstep (h, st) c = s1 -> okstart s1 ->
            TStatic c :: tokenize (r ++ v) = (TStatic c :: tokenize r) ++ tokenize v) as Hstatic.
  { intros s1 E Hs1. rewrite E in Hc. simpl. f_equal. apply (IH r s1); auto; lia. }
  destruct Hs as [Hs|Hs]; simpl in Hs; subst st.
  - destruct (Ascii.eqb_spec c "{") as [->|N1].
    + simpl in Hc. destruct (vname_run r h Hc) as [nm [r2 [-> [Hni Hf]]]].
      rewrite <- app_assoc. simpl. rewrite !take_name_app by exact Hni. simpl. f_equal.
      rewrite Hf in Hc. apply (IH r2 (h, VAfter)); [rewrite app_length in Hl; simpl in Hl; lia|right; reflexivity|exact Hc].
    + destruct (Ascii.eqb_spec c "*") as [->|N2].
      * simpl in Hc. destruct h; [rewrite vbad_abs in Hc; discriminate|].
        destruct r as [|d r1]; [discriminate|]. simpl in Hc.
        destruct (Ascii.eqb_spec d "{") as [->|N3]; [|rewrite vbad_abs in Hc; discriminate].
        destruct (vname_run r1 false Hc) as [nm [r2 [-> [Hni Hf]]]].
        simpl. rewrite <- app_assoc. simpl. rewrite !take_name_app by exact Hni. simpl. f_equal.
        rewrite Hf in Hc. apply (IH r2 (false, VAfter)); [simpl in Hl; rewrite app_length in Hl; simpl in Hl; lia|right; reflexivity|exact Hc].
      * simpl in Hc. destruct (Ascii.eqb_spec c "/") as [->|N3].
        -- eapply Hstatic; [simpl; reflexivity|left; reflexivity].
        -- apply (Hstatic (h, VDef)); [|left; reflexivity]. simpl.
           destruct (Ascii.eqb_spec c "/"); [contradiction|]. destruct (Ascii.eqb_spec c "{"); [contradiction|].
           destruct (Ascii.eqb_spec c "*"); [contradiction|]. reflexivity.
  - simpl in Hc. destruct (Ascii.eqb_spec c "/") as [->|N1].
    + simpl. eapply Hstatic; [simpl; reflexivity|left; reflexivity].
    + destruct (h && Ascii.eqb c ".") eqn:E; [|rewrite vbad_abs in Hc; discriminate].
      apply andb_true_iff in E. destruct E as [-> E]. apply Ascii.eqb_eq in E. subst c. simpl.
      eapply Hstatic; [simpl; reflexivity|left; reflexivity].
Qed.

Lemma tokenize_app u v : closed u = true -> tokenize (u ++ v) = tokenize u ++ tokenize v.
Proof. intros H. apply (tokenize_app_gen (List.length u) u vinit v); auto. left. reflexivity. Qed.

Lemma token_eqb_refl x : token_eqb x x = true.
Proof. destruct x; simpl; [apply Ascii.eqb_refl|apply bytes_eqb_refl|apply bytes_eqb_refl]. Qed.

Lemma tokens_conflict_app t a b : tokens_conflict (t ++ a) (t ++ b) = tokens_conflict a b.
Proof. induction t as [|x t IH]; simpl; [reflexivity|]. rewrite token_eqb_refl. exact IH. Qed.

Lemma tokens_conflict_nil_r a : tokens_conflict a [] = false.
Proof. destruct a; reflexivity. Qed.

(* first token of a non-empty string *)
Lemma tokenize_head a s : exists t ts, tokenize (a :: s) = t :: ts /\
  match t with
  | TStatic c => c = a
  | TParam _ => a = "{"
  | TCatch _ => a = "*"
  end.
Proof.
  rewrite tokenize_cons. destruct (Ascii.eqb_spec a "{") as [->|N1].
  - destruct (take_name s) as [n r']. do 2 eexists; split; reflexivity.
  - destruct (Ascii.eqb_spec a "*") as [->|N2].
    + destruct s as [|d r1]; [do 2 eexists; split; reflexivity|].
      destruct (Ascii.eqb d "{"); [|do 2 eexists; split; reflexivity].
      destruct (take_name r1) as [n r']. do 2 eexists; split; reflexivity.
    + do 2 eexists; split; reflexivity.
Qed.

Theorem apart_no_conflict p q : apart p q -> patterns_conflict p q = false /\ p <> q.
Proof.
  unfold patterns_conflict. intros [[k [Hk [-> Hc]]]|[[k [Hk [-> Hc]]]|[u [a [s [b [s' [-> [-> [Hab Hc]]]]]]]]]].
  - split.
    + rewrite tokenize_app by exact Hc. rewrite <- (app_nil_r (tokenize p)) at 1.
      rewrite tokens_conflict_app. reflexivity.
    + intros E. symmetry in E. revert E. apply app_ne_self. exact Hk.
  - split.
    + rewrite tokenize_app by exact Hc. rewrite <- (app_nil_r (tokenize q)) at 2.
      rewrite tokens_conflict_app. apply tokens_conflict_nil_r.
    + apply app_ne_self. exact Hk.
  - split.
    + rewrite !tokenize_app by exact Hc. rewrite tokens_conflict_app.
      destruct (tokenize_head a s) as [t1 [ts1 [-> H1]]]. destruct (tokenize_head b s') as [t2 [ts2 [-> H2]]].
      simpl. destruct t1 as [c1|n1|n1], t2 as [c2|n2|n2]; simpl; subst; try reflexivity; try congruence.
      destruct (Ascii.eqb_spec a b); [congruence|reflexivity].
    + intros E. apply app_inv_head in E. congruence.
Qed.

Lemma vstar_split u s0 : okstart s0 -> snd (fold_left vstep u s0) = VStar ->
  exists u', u = u' ++ ["*"] /\ vclosed (fold_left vstep u' s0) = true.
Proof.
  intros Hs H. destruct u as [|c u _] using rev_ind.
  - simpl in H. destruct Hs; congruence.
  - rewrite fold_left_app in H. simpl in H. destruct (fold_left vstep u s0) as [h st] eqn:E.
    exists u. destruct st; simpl in H; deqb; try destruct h; simpl in *; try congruence.
    all: split; [reflexivity|rewrite E; reflexivity].
Qed.

Lemma vname_split : forall u s0, okstart s0 -> snd (fold_left vstep u s0) = VName ->
  exists u0 nm (catch : bool), u = u0 ++ (if catch then ["*"; "{"] else ["{"]) ++ nm /\
    vclosed (fold_left vstep u0 s0) = true /\ ~ In "}" nm.
Proof.
  induction u as [|c u IH] using rev_ind; intros s0 Hs H.
  - simpl in H. destruct Hs; congruence.
  - rewrite fold_left_app in H. simpl in H. destruct (fold_left vstep u s0) as [h st] eqn:E.
    destruct st.
    + (* VDef: c = "{" *)
      exists u, [], false. simpl in H. deqb; try destruct h; simpl in *; try congruence.
      all: split; [try rewrite app_nil_r; reflexivity|]; split; [rewrite E; reflexivity|tauto].
    + (* VStar: c = "{" after "*" *)
      destruct (vstar_split u s0 Hs) as [u' [-> Hc']]; [rewrite E; reflexivity|].
      exists u', [], true. simpl in H. deqb; try congruence.
      split; [rewrite <- app_assoc; reflexivity|]. split; [exact Hc'|tauto].
    + (* VName: the name goes on *)
      destruct (IH s0 Hs) as [u0 [nm [catch [-> [Hc' Hni]]]]]; [rewrite E; reflexivity|].
      exists u0, (nm ++ [c]), catch. split; [rewrite <- !app_assoc; reflexivity|]. split; [exact Hc'|].
      intros Hin. apply in_app_or in Hin. destruct Hin as [Hin|[Ec|[]]]; [contradiction|].
      subst c. simpl in H. congruence.
    + simpl in H. deqb; try destruct h; simpl in *; congruence.
    + simpl in H. congruence.
Qed.

Lemma take_name_diff a s b s' : a <> b -> fst (take_name (a :: s)) <> fst (take_name (b :: s')).
Proof.
  intros Hab. simpl. destruct (Ascii.eqb_spec a "}") as [->|Na]; destruct (Ascii.eqb_spec b "}") as [->|Nb]; simpl.
  - congruence.
  - destruct (take_name s'); simpl; congruence.
  - destruct (take_name s); simpl; congruence.
  - destruct (take_name s), (take_name s'); simpl; congruence.
Qed.

Theorem clash_conflict p q : clash p q -> patterns_conflict p q = true /\ p <> q.
Proof.
  intros [u [a [s [b [s' [-> [-> [Hab Hn]]]]]]]]. split.
  2:{ intros E. apply app_inv_head in E. congruence. }
  destruct (vname_split u vinit (or_introl eq_refl) Hn) as [u0 [nm [catch [-> [Hc Hni]]]]].
  unfold patterns_conflict. rewrite <- !app_assoc. rewrite !(tokenize_app u0) by exact Hc.
  rewrite tokens_conflict_app.
  pose proof (take_name_diff a s b s' Hab) as Hd.
  destruct catch; simpl app; rewrite !tokenize_cons; simpl;
    rewrite !take_name_app2 by exact Hni;
    destruct (take_name (a :: s)) as [n1 r1], (take_name (b :: s')) as [n2 r2]; simpl in *;
    (destruct (bytes_eqb_spec (nm ++ n1) (nm ++ n2)) as [E|E]; [apply app_inv_head in E; contradiction|reflexivity]).
Qed.

(* ---------- the abstraction relation ---------- *)
Definition flat (e : mkey * N) : bytes * bytes * N := (fst (fst e), snd (fst e), snd e).

(* the forest holds exactly the entries of the map (as a multiset), and the map has one entry per key *)
Definition Rel (t : txn) (s : mstate) : Prop :=
  Permutation (routes_of_txn t) (map flat s) /\ NoDup (map fst s).

Lemma mkey_eqb_eq a b : mkey_eqb a b = true <-> a = b.
Proof.
  destruct a as [a1 a2], b as [b1 b2]. unfold mkey_eqb. simpl. rewrite andb_true_iff, !bytes_eqb_eq.
  split; [intros [-> ->]; reflexivity|intros [= -> ->]; auto].
Qed.

Lemma mfind_some s k v : mfind s k = Some v -> In (k, v) s.
Proof.
  induction s as [|[k' v'] s IH]; simpl; [discriminate|].
  destruct (mkey_eqb k k') eqn:E.
  - intros [= <-]. apply mkey_eqb_eq in E. subst. left. reflexivity.
  - intros H. right. auto.
Qed.

Lemma mfind_none s k : mfind s k = None <-> ~ In k (map fst s).
Proof.
  induction s as [|[k' v'] s IH]; simpl; [tauto|].
  destruct (mkey_eqb k k') eqn:E.
  - apply mkey_eqb_eq in E. subst. split; [discriminate|]. intros H. exfalso. apply H. left. reflexivity.
  - rewrite IH. split; [|tauto]. intros H [H1|H1]; [|tauto]. subst.
    assert (mkey_eqb k k = true) by (apply mkey_eqb_eq; reflexivity). congruence.
Qed.

Lemma perm_filter {A} (f : A -> bool) (l l' : list A) : Permutation l l' -> Permutation (filter f l) (filter f l').
Proof.
  intros H. induction H; simpl.
  - reflexivity.
  - destruct (f x); [constructor|]; assumption.
  - destruct (f x), (f y); try reflexivity. apply perm_swap.
  - etransitivity; eauto.
Qed.

Lemma flat_in (s : mstate) m p id : In (m, p, id) (map flat s) <-> In ((m, p), id) s.
Proof.
  rewrite in_map_iff. split.
  - intros [[[m' p'] id'] [E H]]. unfold flat in E. simpl in E. injection E as -> -> ->. exact H.
  - intros H. exists ((m, p), id). auto.
Qed.

Lemma mpats_in t m p : In p (mpats t m) <-> exists id, In (m, p, id) (routes_of_txn t).
Proof.
  unfold mpats. rewrite in_map_iff. split.
  - intros [[[m' p'] id] [E H]]. simpl in E. subst p'. apply filter_In in H. destruct H as [H Hm].
    simpl in Hm. apply bytes_eqb_eq in Hm. subst m'. eauto.
  - intros [id H]. exists (m, p, id). split; [reflexivity|]. apply filter_In. split; [exact H|].
    simpl. apply bytes_eqb_refl.
Qed.

Lemma keys_in (s : mstate) k : In k (map fst s) <-> exists v, In (k, v) s.
Proof.
  rewrite in_map_iff. split.
  - intros [[k' v] [E H]]. simpl in E. subst. eauto.
  - intros [v H]. exists (k, v). auto.
Qed.

Lemma mpats_rel t s m p : Rel t s -> (In p (mpats t m) <-> In (m, p) (map fst s)).
Proof.
  intros [Hp _]. rewrite mpats_in, keys_in. split; intros [id H]; exists id.
  - apply flat_in. eapply Permutation_in; eauto.
  - eapply Permutation_in; [symmetry; exact Hp|]. apply flat_in. exact H.
Qed.

Lemma conflicts_of_in s m p q :
  In q (conflicts_of s m p) <-> In (m, q) (map fst s) /\ patterns_conflict p q = true.
Proof.
  unfold conflicts_of. rewrite in_map_iff. split.
  - intros [[[m' q'] id] [E H]]. simpl in E. subst q'. apply filter_In in H. destruct H as [H Hc].
    simpl in Hc. apply andb_true_iff in Hc. destruct Hc as [Hm Hc]. apply bytes_eqb_eq in Hm. subst m'.
    split; [|exact Hc]. apply keys_in. eauto.
  - intros [H Hc]. apply keys_in in H. destruct H as [id H]. exists ((m, q), id). split; [reflexivity|].
    apply filter_In. split; [exact H|]. simpl. rewrite bytes_eqb_refl. exact Hc.
Qed.

Lemma no_elements {A} (l : list A) : (forall x, ~ In x l) -> l = [].
Proof. destruct l as [|x l]; [reflexivity|]. intros H. exfalso. apply (H x). left. reflexivity. Qed.

(* ---------- insert ---------- *)
Theorem insert_refines t s m ri : WF_txn t -> Rel t s -> valid_rinfo ri ->
  match insert t m ri, m_handle s true m (rpat (ri_route ri)) (rid (ri_route ri)) with
  | ROk t', (s', MOk) => WF_txn t' /\ Rel t' s'
  | RExist e, (s', MExist) => e = rpat (ri_route ri) /\ s' = s
  | RConflict ps, (s', MConflict cs) => s' = s /\ (forall q, In q ps <-> In q cs)
  | _, _ => False
  end.
Proof.
  intros Hw Hrel Hv. pose proof (insert_tree_spec t m ri Hw Hv) as H. cbv zeta in H.
  set (p := rpat (ri_route ri)) in *. set (id := rid (ri_route ri)) in *.
  unfold m_handle. cbn [negb].
  destruct (insert t m ri) as [t'|e|ps|].
  - destruct H as [Hw' [Hperm Hap]]. rewrite Forall_forall in Hap.
    assert (mfind s (m, p) = None) as ->.
    { apply mfind_none. intros Hin. apply (mpats_rel t s m p Hrel) in Hin.
      destruct (apart_no_conflict p p (Hap p Hin)) as [_ Hne]. congruence. }
    assert (conflicts_of s m p = []) as ->.
    { apply no_elements. intros q Hq. apply conflicts_of_in in Hq. destruct Hq as [Hin Hc].
      apply (mpats_rel t s m q Hrel) in Hin. destruct (apart_no_conflict p q (Hap q Hin)) as [Hf _]. congruence. }
    split; [exact Hw'|]. destruct Hrel as [Hp Hnd]. split.
    + rewrite Hperm, Hp, map_app. simpl. apply Permutation_cons_append.
    + rewrite map_app. simpl. apply (Permutation_NoDup (l := (m, p) :: map fst s)); [apply Permutation_cons_append|].
      constructor; [|exact Hnd]. intros Hin. apply (mpats_rel t s m p (conj Hp Hnd)) in Hin.
      destruct (apart_no_conflict p p (Hap p Hin)) as [_ Hne]. congruence.
  - destruct H as [-> Hin]. apply (mpats_rel t s m p Hrel) in Hin.
    destruct (mfind s (m, p)) eqn:E; [auto|]. apply mfind_none in E. contradiction.
  - destruct H as [Hne [others [Hperm [Hcl Hap]]]]. rewrite Forall_forall in Hcl, Hap.
    assert (forall q, In q (mpats t m) -> In q ps \/ In q others) as Hsplit.
    { intros q Hq. apply in_app_or. eapply Permutation_in; eauto. }
    assert (mfind s (m, p) = None) as ->.
    { apply mfind_none. intros Hin. apply (mpats_rel t s m p Hrel) in Hin. destruct (Hsplit p Hin) as [Hq|Hq].
      - destruct (clash_conflict p p (Hcl p Hq)) as [_ Hn]. congruence.
      - destruct (apart_no_conflict p p (Hap p Hq)) as [_ Hn]. congruence. }
    assert (forall q, In q ps <-> In q (conflicts_of s m p)) as Hiff.
    { intros q. rewrite conflicts_of_in. split.
      - intros Hq. split; [|apply (clash_conflict p q (Hcl q Hq))].
        apply (mpats_rel t s m q Hrel). eapply Permutation_in; [symmetry; exact Hperm|]. apply in_or_app. auto.
      - intros [Hin Hc]. apply (mpats_rel t s m q Hrel) in Hin. destruct (Hsplit q Hin) as [Hq|Hq]; [exact Hq|].
        destruct (apart_no_conflict p q (Hap q Hq)) as [Hf _]. congruence. }
    destruct (conflicts_of s m p) as [|c cs] eqn:Ec.
    + destruct ps as [|q ps]; [congruence|]. apply (Hiff q). left. reflexivity.
    + split; [reflexivity|exact Hiff].
  - exact H.
Qed.

(* ---------- update ---------- *)
Lemma mreplace_perm k id : forall s v, NoDup (map fst s) -> In (k, v) s ->
  exists s0, Permutation s ((k, v) :: s0) /\ Permutation (mreplace s k id) ((k, id) :: s0) /\
             map fst (mreplace s k id) = map fst s.
Proof.
  induction s as [|[k' v'] s IH]; intros v Hnd Hin; [destruct Hin|]. simpl in *.
  inversion Hnd as [|? ? Hni Hnd']; subst. destruct (mkey_eqb k k') eqn:E.
  - apply mkey_eqb_eq in E. subst k'. destruct Hin as [Hin|Hin].
    + injection Hin as ->. exists s. simpl. auto.
    + exfalso. apply Hni. apply keys_in. eauto.
  - destruct Hin as [Hin|Hin].
    + injection Hin as -> ->. assert (mkey_eqb k k = true) by (apply mkey_eqb_eq; reflexivity). congruence.
    + destruct (IH v Hnd' Hin) as [s0 [H1 [H2 H3]]]. exists ((k', v') :: s0). simpl. repeat split.
      * rewrite H1. apply perm_swap.
      * rewrite H2. apply perm_swap.
      * f_equal. exact H3.
Qed.

(* with one entry per key, the remainder of the map after removing a key is determined *)
Lemma key_cancel (s0 : mstate) (m p : bytes) (v v' : N) (l : list (bytes * bytes * N)) :
  ~ In (m, p) (map fst s0) -> Permutation ((m, p, v) :: map flat s0) ((m, p, v') :: l) ->
  v = v' /\ Permutation (map flat s0) l.
Proof.
  intros Hni Hp.
  assert (In (m, p, v') ((m, p, v) :: map flat s0)) as Hin
    by (eapply Permutation_in; [symmetry; exact Hp|left; reflexivity]).
  destruct Hin as [Hin|Hin].
  - injection Hin as Hv. subst v'. split; [reflexivity|]. exact (Permutation_cons_inv Hp).
  - exfalso. apply Hni. apply (proj1 (flat_in s0 m p v')) in Hin. apply keys_in. eauto.
Qed.

Theorem update_refines t s m ri : WF_txn t -> Rel t s -> rpat (ri_route ri) <> [] ->
  match update t m ri, m_update s true m (rpat (ri_route ri)) (rid (ri_route ri)) with
  | ROk t', (s', MOk) => WF_txn t' /\ Rel t' s'
  | RNotFound, (s', MNotFound) => s' = s
  | _, _ => False
  end.
Proof.
  intros Hw Hrel Hne. pose proof (update_tree_spec t m ri Hw Hne) as H. cbv zeta in H.
  set (p := rpat (ri_route ri)) in *. set (id := rid (ri_route ri)) in *.
  unfold m_update. cbn [negb].
  destruct (update t m ri) as [t'|e|ps|]; try contradiction.
  - destruct H as [Hw' [old [l [Hp1 Hp2]]]]. destruct Hrel as [Hp Hnd].
    assert (In (m, p) (map fst s)) as Hin.
    { apply keys_in. exists old. apply flat_in. eapply Permutation_in; [exact Hp|].
      eapply Permutation_in; [symmetry; exact Hp1|left; reflexivity]. }
    destruct (mfind s (m, p)) as [v|] eqn:E; [|apply mfind_none in E; contradiction].
    apply mfind_some in E. destruct (mreplace_perm (m, p) id s v Hnd E) as [s0 [H1 [H2 H3]]].
    assert (~ In (m, p) (map fst s0)) as Hni.
    { apply (Permutation_map fst) in H1. simpl in H1. apply (Permutation_NoDup H1) in Hnd.
      inversion Hnd; assumption. }
    assert (Permutation ((m, p, v) :: map flat s0) ((m, p, old) :: l)) as Hc.
    { rewrite <- Hp1, Hp. apply (Permutation_map flat) in H1. symmetry. exact H1. }
    destruct (key_cancel s0 m p v old l Hni Hc) as [_ Hl].
    split; [exact Hw'|]. split.
    + rewrite Hp2. apply (Permutation_map flat) in H2. rewrite H2. simpl. unfold flat at 2. simpl.
      apply perm_skip. symmetry. exact Hl.
    + rewrite H3. exact Hnd.
  - destruct (mfind s (m, p)) as [v|] eqn:E; [|reflexivity].
    apply mfind_some in E. apply H. apply (mpats_rel t s m p Hrel). apply keys_in. eauto.
Qed.

(* ---------- remove ---------- *)
Lemma mremove_perm k : forall s v, NoDup (map fst s) -> In (k, v) s ->
  Permutation s ((k, v) :: mremove s k) /\ ~ In k (map fst (mremove s k)) /\ NoDup (map fst (mremove s k)).
Proof.
  unfold mremove. induction s as [|[k' v'] s IH]; intros v Hnd Hin; [destruct Hin|]. simpl in *.
  inversion Hnd as [|? ? Hni Hnd']; subst. destruct (mkey_eqb k k') eqn:E; simpl.
  - apply mkey_eqb_eq in E. subst k'.
    assert (filter (fun e => negb (mkey_eqb k (fst e))) s = s) as ->.
    { apply filter_all_true. intros [k2 v2] H2. simpl. destruct (mkey_eqb k k2) eqn:E2; [|reflexivity].
      apply mkey_eqb_eq in E2. subst. exfalso. apply Hni. apply keys_in. eauto. }
    destruct Hin as [Hin|Hin].
    + injection Hin as ->. auto.
    + exfalso. apply Hni. apply keys_in. eauto.
  - destruct Hin as [Hin|Hin].
    + injection Hin as -> ->. assert (mkey_eqb k k = true) by (apply mkey_eqb_eq; reflexivity). congruence.
    + destruct (IH v Hnd' Hin) as [H1 [H2 H3]]. repeat split.
      * rewrite H1 at 1. apply perm_swap.
      * intros [H|H]; [|contradiction]. subst.
        assert (mkey_eqb k k = true) by (apply mkey_eqb_eq; reflexivity). congruence.
      * constructor; [|exact H3]. intros H. apply Hni. apply in_map_iff in H. destruct H as [e [He H]].
        apply filter_In in H. destruct H as [H _]. apply in_map_iff. eauto.
Qed.

Lemma m_delete_some s m p v : mfind s (m, p) = Some v -> m_delete s true m p = (mremove s (m, p), MOk, Some v).
Proof. intros E. unfold m_delete. cbn [negb]. rewrite E. reflexivity. Qed.
Lemma m_delete_none s m p : mfind s (m, p) = None -> m_delete s true m p = (s, MNotFound, None).
Proof. intros E. unfold m_delete. cbn [negb]. rewrite E. reflexivity. Qed.

Theorem remove_refines t s m p : WF_txn t -> Rel t s -> p <> [] ->
  match remove t m p, m_delete s true m p with
  | DOk t' r, (s', MOk, Some v) => WF_txn t' /\ Rel t' s' /\ rid r = v /\ rpat r = p
  | DNotFound, (s', MNotFound, None) => s' = s
  | _, _ => False
  end.
Proof.
  intros Hw Hrel Hne. pose proof (remove_tree_spec t m p Hw Hne) as H.
  destruct (remove t m p) as [t' r|].
  - destruct H as [Hw' [Hrp Hp1]]. destruct Hrel as [Hp Hnd].
    assert (In (m, p) (map fst s)) as Hin.
    { apply keys_in. exists (rid r). apply flat_in. eapply Permutation_in; [exact Hp|].
      eapply Permutation_in; [symmetry; exact Hp1|left; reflexivity]. }
    destruct (mfind s (m, p)) as [v|] eqn:E; [|apply mfind_none in E; contradiction].
    rewrite (m_delete_some s m p v E).
    apply mfind_some in E. destruct (mremove_perm (m, p) s v Hnd E) as [H1 [H2 H3]].
    assert (Permutation ((m, p, v) :: map flat (mremove s (m, p))) ((m, p, rid r) :: routes_of_txn t')) as Hc.
    { rewrite <- Hp1, Hp. apply (Permutation_map flat) in H1. symmetry. exact H1. }
    destruct (key_cancel _ m p v (rid r) _ H2 Hc) as [Hv Hl].
    split; [exact Hw'|]. split; [split; [symmetry; exact Hl|exact H3]|]. auto.
  - destruct (mfind s (m, p)) as [v|] eqn:E; [|rewrite (m_delete_none s m p E); reflexivity].
    exfalso. apply mfind_some in E. apply H. apply (mpats_rel t s m p Hrel). apply keys_in. eauto.
Qed.

(* ---------- truncate ---------- *)
Lemma map_flat_filter ms s :
  map flat (filter (fun e => negb (existsb (bytes_eqb (fst (fst e))) ms)) s) = filter (not_in_methods ms) (map flat s).
Proof.
  induction s as [|e s IH]; [reflexivity|]. cbn [filter map].
  change (not_in_methods ms (flat e)) with (negb (existsb (bytes_eqb (fst (fst e))) ms)).
  destruct (negb (existsb (bytes_eqb (fst (fst e))) ms)); cbn [map]; rewrite IH; reflexivity.
Qed.

Lemma NoDup_map_filter {A B} (f : A -> B) (g : A -> bool) l : NoDup (map f l) -> NoDup (map f (filter g l)).
Proof.
  induction l as [|x l IH]; simpl; intros H; [constructor|]. inversion H; subst.
  destruct (g x); simpl; [|auto]. constructor; [|auto]. intros Hin. apply H2.
  apply in_map_iff in Hin. destruct Hin as [y [E Hy]]. apply filter_In in Hy. destruct Hy as [Hy _].
  apply in_map_iff. eauto.
Qed.

Theorem truncate_refines t s ms : WF_txn t -> Rel t s ->
  WF_txn (truncate t ms) /\ Rel (truncate t ms) (m_truncate s ms).
Proof.
  intros Hw [Hp Hnd]. destruct (truncate_tree_spec t ms Hw) as [Hw' Hr]. split; [exact Hw'|].
  unfold Rel. rewrite Hr. unfold m_truncate. destruct ms as [|m more].
  - split; [reflexivity|constructor].
  - split.
    + rewrite map_flat_filter. apply perm_filter. exact Hp.
    + apply NoDup_map_filter. exact Hnd.
Qed.

(* ---------- histories with transactions ---------- *)
Definition hop_ri (o : hop) : rinfo :=
  {| ri_route := {| rpat := h_pat o; rid := h_rid o |}; ri_pslen := h_pslen o; ri_hostsplit := h_hostsplit o |}.

(* the validation oracle of a history step is sound: an accepted pattern is a valid
   pattern and the recorded hostSplit is the index of its first '/' (property C10) *)
Definition hop_ok (o : hop) : Prop := h_valid o = true -> valid_rinfo (hop_ri o).

Definition SRel (hs : hstate) (ss : sstate) : Prop :=
  WF_txn (pub hs) /\ Rel (pub hs) (spub ss) /\
  match cur hs, scur ss with
  | None, None => True
  | Some t, Some s => WF_txn t /\ Rel t s
  | _, _ => False
  end.

Lemma SRel_visible hs ss : SRel hs ss -> WF_txn (visible hs) /\ Rel (visible hs) (svisible ss).
Proof.
  intros [H1 [H2 H3]]. unfold visible, svisible. destruct (cur hs), (scur ss); try contradiction; tauto.
Qed.

Lemma SRel_put hs ss t' s' : SRel hs ss -> WF_txn t' -> Rel t' s' -> SRel (put hs t') (sput ss s').
Proof.
  intros [H1 [H2 H3]] Hw Hr. unfold put, sput, SRel. destruct (cur hs), (scur ss); try contradiction; simpl; tauto.
Qed.

Lemma sput_same ss : sput ss (svisible ss) = ss.
Proof. destruct ss as [p [c|]]; reflexivity. Qed.

Lemma forallb_subset (a b : list bytes) : (forall q, In q a -> In q b) ->
  forallb (fun p => existsb (bytes_eqb p) b) a = true.
Proof. intros H. apply forallb_forall. intros q Hq. apply existsb_bytes_In. auto. Qed.

Theorem step_refines hs ss o : SRel hs ss -> hop_ok o ->
  match hstep hs o, sstep ss o with
  | (hs', out, rm), (ss', mo, rm') => SRel hs' ss' /\ mout_matches mo out = true /\ rm = rm'
  end.
Proof.
  intros HS Hok. destruct (SRel_visible hs ss HS) as [Hw Hrel].
  unfold hstep, sstep. fold (hop_ri o).
  destruct (h_kind o).
  - (* Handle *)
    destruct (valid_method_handle (h_method o)); cbn [negb orb andb];
      [|unfold m_handle; cbn [negb]; rewrite sput_same; auto].
    destruct (h_valid o) eqn:Ev; cbn [negb];
      [|unfold m_handle; cbn [negb]; rewrite sput_same; auto].
    pose proof (insert_refines (visible hs) (svisible ss) (h_method o) (hop_ri o) Hw Hrel (Hok Ev)) as H.
    cbn [hop_ri ri_route rpat rid] in H.
    destruct (insert (visible hs) (h_method o) (hop_ri o)) as [t'|e|ps|];
      destruct (m_handle (svisible ss) true (h_method o) (h_pat o) (h_rid o)) as [s' [| | |cs|]]; try contradiction.
    + destruct H as [Hw' Hr']. split; [apply SRel_put; auto|auto].
    + destruct H as [_ ->]. rewrite sput_same. auto.
    + destruct H as [-> Hiff]. rewrite sput_same. split; [exact HS|]. split; [|reflexivity].
      simpl. apply andb_true_iff. split; apply forallb_subset; intros q Hq; apply Hiff; exact Hq.
  - (* Update *)
    destruct (Tree.is_nil (h_method o)); cbn [negb orb andb];
      [unfold m_update; cbn [negb]; rewrite sput_same; auto|].
    destruct (h_valid o) eqn:Ev; cbn [negb];
      [|unfold m_update; cbn [negb]; rewrite sput_same; auto].
    assert (rpat (ri_route (hop_ri o)) <> []) as Hne by (apply valid_nonempty; auto).
    pose proof (update_refines (visible hs) (svisible ss) (h_method o) (hop_ri o) Hw Hrel Hne) as H.
    cbn [hop_ri ri_route rpat rid] in H.
    destruct (update (visible hs) (h_method o) (hop_ri o)) as [t'|e|ps|];
      destruct (m_update (svisible ss) true (h_method o) (h_pat o) (h_rid o)) as [s' [| | |cs|]]; try contradiction.
    + destruct H as [Hw' Hr']. split; [apply SRel_put; auto|auto].
    + subst s'. rewrite sput_same. auto.
  - (* Delete *)
    destruct (Tree.is_nil (h_method o)); cbn [negb orb andb];
      [unfold m_delete; cbn [negb]; rewrite sput_same; auto|].
    destruct (h_valid o) eqn:Ev; cbn [negb];
      [|unfold m_delete; cbn [negb]; rewrite sput_same; auto].
    assert (h_pat o <> []) as Hne by (apply (valid_nonempty (hop_ri o)); auto).
    pose proof (remove_refines (visible hs) (svisible ss) (h_method o) (h_pat o) Hw Hrel Hne) as H.
    destruct (remove (visible hs) (h_method o) (h_pat o)) as [t' r|];
      destruct (m_delete (svisible ss) true (h_method o) (h_pat o)) as [[s' [| | |cs|]] [v|]]; try contradiction.
    + destruct H as [Hw' [Hr' [Hv _]]]. split; [apply SRel_put; auto|]. split; [reflexivity|congruence].
    + subst s'. rewrite sput_same. auto.
  - (* Truncate *)
    destruct (truncate_refines (visible hs) (svisible ss) (h_methods o) Hw Hrel) as [Hw' Hr'].
    split; [apply SRel_put; auto|auto].
  - (* Begin *)
    destruct HS as [H1 [H2 H3]]. split; [|auto]. unfold SRel. simpl. tauto.
  - (* Commit *)
    split; [|auto]. destruct HS as [H1 [H2 H3]]. unfold SRel.
    destruct (cur hs) eqn:E1, (scur ss) eqn:E2; simpl in *; rewrite ?E1, ?E2; try contradiction; tauto.
  - (* Abort *)
    destruct HS as [H1 [H2 H3]]. split; [|auto]. unfold SRel. simpl. tauto.
Qed.

Definition sinit : sstate := {| spub := []; scur := None |}.

Lemma SRel_init : SRel init_hstate sinit.
Proof.
  unfold SRel. simpl. split; [exact WF_empty|]. split; [|exact I]. split; [reflexivity|constructor].
Qed.

(* every step of every history: same outcome (conflict lists as sets), same removed
   route, same visible contents, Len = cardinality, and a well-formed forest *)
Fixpoint hist_ok (hs : hstate) (ss : sstate) (ops : list hop) : Prop :=
  match ops with
  | [] => True
  | o :: r =>
    match hstep hs o, sstep ss o with
    | (hs', out, rm), (ss', mo, rm') =>
        mout_matches mo out = true /\ rm = rm' /\
        WF_txn (visible hs') /\
        Permutation (all_of (visible hs')) (map flat (svisible ss')) /\
        t_size (visible hs') = Z.of_nat (List.length (svisible ss')) /\
        hist_ok hs' ss' r
    end
  end.

Lemma hist_ok_from ops : Forall hop_ok ops -> forall hs ss, SRel hs ss -> hist_ok hs ss ops.
Proof.
  induction ops as [|o r IH]; intros Hok hs ss HS; [exact I|].
  inversion Hok as [|? ? Ho Hr]; subst. cbn [hist_ok].
  pose proof (step_refines hs ss o HS Ho) as H.
  destruct (hstep hs o) as [[hs' out] rm]. destruct (sstep ss o) as [[ss' mo] rm'].
  destruct H as [HS' [Hm Hrm]]. destruct (SRel_visible hs' ss' HS') as [Hw' [Hp' Hnd']].
  split; [exact Hm|]. split; [exact Hrm|]. split; [exact Hw'|]. split; [|split].
  - rewrite (all_of_routes _ Hw'). exact Hp'.
  - destruct Hw' as [_ Hsz]. rewrite Hsz, (Permutation_length Hp'), map_length. reflexivity.
  - apply IH; assumption.
Qed.

Theorem C02_refines_map_thm ops : Forall hop_ok ops -> hist_ok init_hstate sinit ops.
Proof. intros H. apply hist_ok_from; [exact H|exact SRel_init]. Qed.

(* reachable states are well formed: the published forest and the open transaction *)
Definition hrun_state (hs : hstate) (ops : list hop) : hstate :=
  fold_left (fun s o => fst (fst (hstep s o))) ops hs.
Definition srun_state (ss : sstate) (ops : list hop) : sstate :=
  fold_left (fun s o => fst (fst (sstep s o))) ops ss.

Lemma SRel_run ops : Forall hop_ok ops -> forall hs ss, SRel hs ss -> SRel (hrun_state hs ops) (srun_state ss ops).
Proof.
  induction ops as [|o r IH]; intros Hok hs ss HS; [exact HS|].
  inversion Hok as [|? ? Ho Hr]; subst. simpl.
  pose proof (step_refines hs ss o HS Ho) as H.
  destruct (hstep hs o) as [[hs' out] rm]. destruct (sstep ss o) as [[ss' mo] rm'].
  apply IH; [exact Hr|]. apply H.
Qed.

Theorem WF_reachable_thm ops : Forall hop_ok ops ->
  WF_txn (pub (hrun_state init_hstate ops)) /\
  (forall t, cur (hrun_state init_hstate ops) = Some t -> WF_txn t).
Proof.
  intros Hok. destruct (SRel_run ops Hok _ _ SRel_init) as [H1 [_ H3]]. split; [exact H1|].
  intros t E. rewrite E in H3. destruct (scur (srun_state sinit ops)); [tauto|contradiction].
Qed.

(* ---------- the outcome of Handle, in "iff" form ---------- *)
Corollary insert_ok_iff t s m ri : WF_txn t -> Rel t s -> valid_rinfo ri ->
  ((exists t', insert t m ri = ROk t') <->
   snd (m_handle s true m (rpat (ri_route ri)) (rid (ri_route ri))) = MOk).
Proof.
  intros Hw Hr Hv. pose proof (insert_refines t s m ri Hw Hr Hv) as H.
  destruct (insert t m ri) as [t'|e|ps|];
    destruct (m_handle s true m (rpat (ri_route ri)) (rid (ri_route ri))) as [s' [| | |cs|]];
    try contradiction; simpl; split; try discriminate; eauto; intros [x Hx]; discriminate.
Qed.

Corollary insert_exist_iff t s m ri : WF_txn t -> Rel t s -> valid_rinfo ri ->
  ((exists e, insert t m ri = RExist e) <-> mfind s (m, rpat (ri_route ri)) <> None).
Proof.
  intros Hw Hr Hv. pose proof (insert_refines t s m ri Hw Hr Hv) as H. unfold m_handle in H. cbn [negb] in H.
  destruct (mfind s (m, rpat (ri_route ri))) as [v|].
  - destruct (insert t m ri) as [t'|e|ps|]; try contradiction. split; [discriminate|eauto].
  - split; [|congruence]. intros [e He]. rewrite He in H. destruct (conflicts_of s m (rpat (ri_route ri))); contradiction.
Qed.

Corollary insert_conflict_iff t s m ri : WF_txn t -> Rel t s -> valid_rinfo ri ->
  ((exists ps, insert t m ri = RConflict ps) <->
   (mfind s (m, rpat (ri_route ri)) = None /\ conflicts_of s m (rpat (ri_route ri)) <> [])) /\
  (forall ps, insert t m ri = RConflict ps ->
     forall q, In q ps <-> In q (conflicts_of s m (rpat (ri_route ri)))).
Proof.
  intros Hw Hr Hv. pose proof (insert_refines t s m ri Hw Hr Hv) as H. unfold m_handle in H. cbn [negb] in H.
  destruct (mfind s (m, rpat (ri_route ri))) as [v|].
  - destruct (insert t m ri) as [t'|e|ps|]; try contradiction. split.
    + split; [intros [x Hx]; discriminate|intros [Hx _]; discriminate].
    + intros ps Hps. discriminate.
  - destruct (conflicts_of s m (rpat (ri_route ri))) as [|c cs] eqn:Ec.
    + destruct (insert t m ri) as [t'|e|ps|]; try contradiction. split.
      * split; [intros [x Hx]; discriminate|intros [_ Hx]; congruence].
      * intros ps Hps. discriminate.
    + destruct (insert t m ri) as [t'|e|ps|]; try contradiction. destruct H as [_ Hiff]. split.
      * split; [intros _; split; [reflexivity|discriminate]|eauto].
      * intros ps' [= <-]. exact Hiff.
Qed.

(* ---------- a concrete history (non-vacuity of the hypotheses) ---------- *)
Definition dummy_obs : hobs :=
  {| o_out := OutOk; o_removed := None; o_tree := []; o_size := 0; o_maxp := 0; o_depth := 0; o_all := []; o_len := 0 |}.
Definition mkop (k : opk) (m p : string) (id : N) (ms : list bytes) : hop :=
  {| h_kind := k; h_method := S2B m; h_pat := S2B p; h_valid := valid_patternb (S2B p);
     h_pslen := count_wildcards (tokenize (S2B p));
     h_hostsplit := match index_byte (S2B p) "/" with Some i => i | None => 0 end;
     h_rid := id; h_methods := ms; h_obs := dummy_obs |}.

Definition ex_history : list hop :=
  [ mkop KHandle "GET" "/foo/{id}" 1 []; mkop KHandle "GET" "/foo/{name}" 2 [];      (* conflict *)
    mkop KHandle "GET" "a.com/x" 3 []; mkop KBegin "" "" 0 [];
    mkop KHandle "PURGE" "/c/*{k}" 4 []; mkop KHandle "GET" "/foo/{id}/x" 5 [];
    mkop KDelete "GET" "/foo/{id}" 0 []; mkop KAbort "" "" 0 [];
    mkop KHandle "GET" "{sub}.a.com/" 6 []; mkop KUpdate "GET" "a.com/x" 7 [];
    mkop KHandle "GET" "/bad/{x" 8 [];                                                 (* invalid *)
    mkop KBegin "" "" 0 []; mkop KDelete "GET" "a.com/x" 0 []; mkop KTruncate "" "" 0 [S2B "POST"];
    mkop KCommit "" "" 0 []; mkop KHandle "GET" "/foo/{id}" 9 [] ].                    (* exists *)

Example ex_history_ok : Forall hop_ok ex_history.
Proof.
  unfold ex_history. repeat (constructor; [intros Hv; vm_compute in Hv; try discriminate; split; reflexivity|]).
  constructor.
Qed.

Example ex_history_outcomes :
  map (fun x => snd (fst x))
      (snd (fold_left (fun acc o => let '(s, l) := acc in let r := hstep s o in (fst (fst r), l ++ [r]))
                      ex_history (init_hstate, [])))
  = [OutOk; OutConflict [S2B "/foo/{id}"]; OutOk; OutOk; OutOk; OutOk; OutOk; OutOk; OutOk; OutOk; OutInvalid;
     OutOk; OutOk; OutOk; OutOk; OutExist].
Proof. vm_compute. reflexivity. Qed.

(* ---------- iteration order (bonus): DFS pre-order = byte-lexicographic pattern order ---------- *)
Definition blt (a b : bytes) : Prop := bytes_ltb a b = true.

Lemma bytes_ltb_prefix u k : k <> [] -> bytes_ltb u (u ++ k) = true.
Proof.
  intros Hk. induction u as [|x u IH]; simpl.
  - destruct k; [congruence|reflexivity].
  - rewrite Nat.ltb_irrefl. exact IH.
Qed.

Lemma bytes_ltb_diverge u a s b s' : nat_of_ascii a < nat_of_ascii b -> bytes_ltb (u ++ a :: s) (u ++ b :: s') = true.
Proof.
  intros H. induction u as [|x u IH]; simpl.
  - apply Nat.ltb_lt in H. rewrite H. reflexivity.
  - rewrite Nat.ltb_irrefl. exact IH.
Qed.

Lemma StronglySorted_app {A} (R : A -> A -> Prop) l1 l2 :
  StronglySorted R l1 -> StronglySorted R l2 -> (forall x y, In x l1 -> In y l2 -> R x y) ->
  StronglySorted R (l1 ++ l2).
Proof.
  induction l1 as [|x l1 IH]; simpl; intros H1 H2 Hc; [exact H2|].
  inversion H1 as [|? ? Ha Hb]; subst. constructor.
  - apply IH; auto.
  - apply Forall_app. split; [exact Hb|]. apply Forall_forall. intros y Hy. apply Hc; auto.
Qed.

Lemma children_routes_sorted : forall ch pre, sorted_fb ch -> Forall (WF_node pre) ch ->
  Forall (fun c => StronglySorted blt (map rpat (rlist c))) ch ->
  StronglySorted blt (map rpat (flat_map rlist ch)).
Proof.
  induction ch as [|c ch IH]; intros pre Hs Hw Hr; [constructor|].
  inversion Hs as [|? ? Hs' Hlt]; subst. inversion Hw as [|? ? Hwc Hw']; subst. inversion Hr as [|? ? Hrc Hr']; subst.
  simpl. rewrite map_app. apply StronglySorted_app; [exact Hrc|eapply IH; eauto|].
  intros x y Hx Hy. apply in_map_iff in Hx, Hy. destruct Hx as [r1 [<- Hx]], Hy as [r2 [<- Hy]].
  destruct (WF_rlist_pat c pre r1 Hwc Hx) as [k1 [E1 _]].
  destruct (WF_children_pat ch pre r2 Hw' Hy) as [c2 [k2 [Hc2 [_ [Hne2 [E2 _]]]]]].
  rewrite Forall_forall in Hlt. specialize (Hlt c2 Hc2). unfold fb in Hlt.
  pose proof (WF_node_key_ne _ _ Hwc) as Hne1.
  destruct (nkey c) as [|a s1]; [congruence|]. destruct (nkey c2) as [|b s2]; [congruence|].
  unfold blt. rewrite E1, E2, <- !app_assoc. simpl. apply bytes_ltb_diverge. exact Hlt.
Qed.

Lemma rlist_sorted : forall n pre, WF_node pre n -> StronglySorted blt (map rpat (rlist n)).
Proof.
  induction n as [k r ch IH] using node_ind2. intros pre Hw.
  inversion Hw as [? ? ? ? H1 H2 H3 H4 H5 H6 H7]; subst. cbn [rlist]. rewrite map_app.
  assert (StronglySorted blt (map rpat (flat_map rlist ch))) as Hch.
  { apply (children_routes_sorted ch (pre ++ k)); auto.
    rewrite Forall_forall in *. intros c Hc. apply (IH c Hc (pre ++ k)). auto. }
  apply StronglySorted_app; [destruct r; repeat constructor|exact Hch|].
  intros x y Hx Hy. destruct r as [rt|]; [|destruct Hx]. destruct Hx as [<-|[]].
  destruct (H5 rt eq_refl) as [E _]. apply in_map_iff in Hy. destruct Hy as [r2 [<- Hy]].
  destruct (WF_children_pat ch (pre ++ k) r2 H7 Hy) as [c2 [k2 [_ [_ [Hne2 [E2 _]]]]]].
  unfold blt. rewrite E, E2. apply bytes_ltb_prefix. intros E0. apply app_eq_nil in E0. tauto.
Qed.

(* Iter().All(): the roots in slice order; within one method the patterns strictly increase *)
Theorem iter_sorted_thm t : WF_txn t ->
  all_of t = flat_map routes_of_root (t_roots t) /\
  Forall (fun root => map (fun e => snd (fst e)) (routes_of_root root) = map rpat (rlist root) /\
                      StronglySorted blt (map rpat (rlist root))) (t_roots t).
Proof.
  intros Hw. split; [exact (all_of_routes t Hw)|]. destruct Hw as [[_ [_ [_ Hr]]] _].
  eapply Forall_impl; [|exact Hr]. intros root [Hn [Hs Hf]]. split.
  - unfold routes_of_root. rewrite map_map. reflexivity.
  - rewrite (rlist_root_children root Hn). apply (children_routes_sorted _ []); auto.
    rewrite Forall_forall in *. intros c Hc. eapply rlist_sorted; eauto.
Qed.

(* ---------- evaluable forms for the correspondence check ---------- *)
(* the hypothesis of C02_refines_map, as a boolean on a recorded step *)
Definition hop_okb (o : hop) : bool :=
  negb (h_valid o) ||
  (valid_patternb (h_pat o) && opt_eqb Nat.eqb (index_byte (h_pat o) "/") (Some (h_hostsplit o))).
(* the forest dumped from the implementation after a step is well formed *)
Definition obs_wfb (o : hop) : bool :=
  wf_txnb {| t_roots := o_tree (h_obs o); t_size := o_size (h_obs o);
             t_maxparams := o_maxp (h_obs o); t_depth := o_depth (h_obs o) |}.

Lemma hop_okb_ok o : hop_okb o = true -> hop_ok o.
Proof.
  unfold hop_okb, hop_ok. intros H Hv. rewrite Hv in H. simpl in H. apply andb_true_iff in H.
  destruct H as [H1 H2]. split; [exact H1|]. simpl.
  destruct (index_byte (h_pat o) "/") as [i|]; [|discriminate]. simpl in H2. apply Nat.eqb_eq in H2. congruence.
Qed.

Lemma hops_okb_ok ops : forallb hop_okb ops = true -> Forall hop_ok ops.
Proof. intros H. apply Forall_forall. intros o Ho. apply hop_okb_ok. rewrite forallb_forall in H. auto. Qed.
