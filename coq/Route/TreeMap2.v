(* TreeMap2 — the radix forest refines the map specification (MapSpec):
   token-level meaning of the byte-level conflict relations, the abstraction
   relation, one refinement theorem per operation, and the theorem for
   arbitrary histories with transactions (C02_refines_map). *)
From FoxBase Require Import Bytes.
From FoxRoute Require Import Node Lookup Spec Tree MapSpec CorrHist WFDef TreeWF TreeWF2 TreeMap.
From Coq Require Import Sorting.Sorted Permutation.
Open Scope char_scope.

(* ---------- the tokenizer ---------- *)
Lemma tokenize_fuel_eq f s : tokenize_fuel (S f) s =
  match s with
  | [] => []
  | c :: r =>
    if Ascii.eqb c "{" then (let '(n, r') := take_name r in TParam n :: tokenize_fuel f r')
    else if Ascii.eqb c "*" then
      match r with
      | d :: r1 => if Ascii.eqb d "{" then (let '(n, r') := take_name r1 in TCatch n :: tokenize_fuel f r')
                   else TStatic c :: tokenize_fuel f r
      | [] => TStatic c :: tokenize_fuel f r
      end
    else TStatic c :: tokenize_fuel f r
  end.
Proof.
  destruct s as [|c r]; [reflexivity|].
  destruct c as [[|] [|] [|] [|] [|] [|] [|] [|]]; try reflexivity.
  destruct r as [|d r1]; [reflexivity|].
  destruct d as [[|] [|] [|] [|] [|] [|] [|] [|]]; reflexivity.
Qed.

Lemma take_name_len s : List.length (snd (take_name s)) <= List.length s.
Proof.
  induction s as [|c r IH]; simpl; [lia|]. destruct (Ascii.eqb c "}"); simpl; [lia|].
  destruct (take_name r) as [n r']. simpl in *. lia.
Qed.

Lemma tokenize_fuel_indep : forall f1 f2 s, List.length s < f1 -> List.length s < f2 ->
  tokenize_fuel f1 s = tokenize_fuel f2 s.
Proof.
  induction f1 as [|f1 IH]; intros f2 s H1 H2; [lia|]. destruct f2 as [|f2]; [lia|].
  rewrite !tokenize_fuel_eq. destruct s as [|c r]; [reflexivity|]. simpl in H1, H2.
  destruct (Ascii.eqb c "{").
  - pose proof (take_name_len r) as Hl. destruct (take_name r) as [n r']. simpl in Hl. f_equal. apply IH; lia.
  - destruct (Ascii.eqb c "*").
    + destruct r as [|d r1]; [f_equal; apply IH; simpl; lia|]. simpl in H1, H2. destruct (Ascii.eqb d "{").
      * pose proof (take_name_len r1) as Hl. destruct (take_name r1) as [n r']. simpl in Hl. f_equal. apply IH; lia.
      * f_equal. apply IH; simpl; lia.
    + f_equal. apply IH; lia.
Qed.

Lemma tokenize_cons c r : tokenize (c :: r) =
    if Ascii.eqb c "{" then (let '(n, r') := take_name r in TParam n :: tokenize r')
    else if Ascii.eqb c "*" then
      match r with
      | d :: r1 => if Ascii.eqb d "{" then (let '(n, r') := take_name r1 in TCatch n :: tokenize r')
                   else TStatic c :: tokenize r
      | [] => TStatic c :: tokenize r
      end
    else TStatic c :: tokenize r.
Proof.
  unfold tokenize. rewrite tokenize_fuel_eq. simpl List.length.
  destruct (Ascii.eqb c "{").
  - pose proof (take_name_len r) as Hl. destruct (take_name r) as [n r']. simpl in Hl. f_equal.
    apply tokenize_fuel_indep; lia.
  - destruct (Ascii.eqb c "*"); [|reflexivity].
    destruct r as [|d r1]; [reflexivity|]. destruct (Ascii.eqb d "{"); [|reflexivity].
    pose proof (take_name_len r1) as Hl. destruct (take_name r1) as [n r']. simpl in Hl. f_equal.
    apply tokenize_fuel_indep; simpl; lia.
Qed.

Lemma take_name_app2 nm w : ~ In "}" nm ->
  take_name (nm ++ w) = (nm ++ fst (take_name w), snd (take_name w)).
Proof.
  induction nm as [|c nm IH]; intros Hni; simpl.
  - destruct (take_name w); reflexivity.
  - destruct (Ascii.eqb_spec c "}") as [->|Hne]; [exfalso; apply Hni; left; reflexivity|].
    rewrite IH by (intros H; apply Hni; right; exact H). reflexivity.
Qed.

Lemma take_name_app nm r2 : ~ In "}" nm -> take_name (nm ++ "}" :: r2) = (nm, r2).
Proof. intros H. rewrite take_name_app2 by exact H. simpl. rewrite app_nil_r. reflexivity. Qed.

Lemma vname_run : forall r h, vclosed (fold_left vstep r (h, VName)) = true ->
  exists nm r2, r = nm ++ "}" :: r2 /\ ~ In "}" nm /\
                fold_left vstep r (h, VName) = fold_left vstep r2 (h, VAfter).
Proof.
  induction r as [|c r IH]; intros h Hc; [discriminate|].
  destruct (Ascii.eqb_spec c "}") as [->|Hne].
  - exists [], r. simpl. auto.
  - simpl in Hc. destruct (Ascii.eqb_spec c "}"); [contradiction|].
    destruct (Ascii.eqb c "/" || Ascii.eqb c "*" || Ascii.eqb c "{" || h && Ascii.eqb c ".") eqn:E.
    + rewrite vbad_abs in Hc. discriminate.
    + destruct (IH h Hc) as [nm [r2 [-> [Hni Hf]]]]. exists (c :: nm), r2. split; [reflexivity|]. split.
      * intros [H|H]; [congruence|contradiction].
      * simpl. destruct (Ascii.eqb_spec c "}"); [contradiction|]. rewrite E. exact Hf.
Qed.

Definition okstart (s : bool * vst) : Prop := snd s = VDef \/ snd s = VAfter.

Lemma tokenize_app_gen : forall n u s0 v, List.length u <= n -> okstart s0 ->
  vclosed (fold_left vstep u s0) = true -> tokenize (u ++ v) = tokenize u ++ tokenize v.
Proof.
  induction n as [|n IH]; intros u s0 v Hl Hs Hc.
  { destruct u; [reflexivity|simpl in Hl; lia]. }
  destruct u as [|c r]; [reflexivity|]. simpl in Hl. destruct s0 as [h st]. simpl app.
  rewrite !tokenize_cons. cbn [fold_left] in Hc.
  assert (forall s1, vstep (h, st) c = s1 -> okstart s1 ->
            TStatic c :: tokenize (r ++ v) = (TStatic c :: tokenize r) ++ tokenize v) as Hstatic.
  { intros s1 E Hs1. rewrite E in Hc. simpl. f_equal. apply (IH r s1); auto; lia. }
  destruct Hs as [Hs|Hs]; simpl in Hs; subst st.
  - destruct (Ascii.eqb_spec c "{") as [->|N1].
    + simpl in Hc. destruct (vname_run r h Hc) as [nm [r2 [-> [Hni Hf]]]].
      rewrite <- app_assoc. simpl. rewrite !take_name_app by exact Hni. simpl. f_equal.
      rewrite Hf in Hc. apply (IH r2 (h, VAfter)); [rewrite app_length in Hl; simpl in Hl; lia|right; reflexivity|exact Hc].
    + destruct (Ascii.eqb_spec c "*") as [->|N2].
      * simpl in Hc. destruct h; [rewrite vbad_abs in Hc; discriminate|].
        destruct r as [|d r1]; [discriminate|]. simpl in Hc.
        destruct (Ascii.eqb_spec d "{") as [->|N3]; [|rewrite vbad_abs in Hc; discriminate].
        destruct (vname_run r1 false Hc) as [nm [r2 [-> [Hni Hf]]]].
        simpl. rewrite <- app_assoc. simpl. rewrite !take_name_app by exact Hni. simpl. f_equal.
        rewrite Hf in Hc. apply (IH r2 (false, VAfter)); [simpl in Hl; rewrite app_length in Hl; simpl in Hl; lia|right; reflexivity|exact Hc].
      * simpl in Hc. destruct (Ascii.eqb_spec c "/") as [->|N3].
        -- eapply Hstatic; [simpl; reflexivity|left; reflexivity].
        -- apply (Hstatic (h, VDef)); [|left; reflexivity]. simpl.
           destruct (Ascii.eqb_spec c "/"); [contradiction|]. destruct (Ascii.eqb_spec c "{"); [contradiction|].
           destruct (Ascii.eqb_spec c "*"); [contradiction|]. reflexivity.
  - simpl in Hc. destruct (Ascii.eqb_spec c "/") as [->|N1].
    + simpl. eapply Hstatic; [simpl; reflexivity|left; reflexivity].
    + destruct (h && Ascii.eqb c ".") eqn:E; [|rewrite vbad_abs in Hc; discriminate].
      apply andb_true_iff in E. destruct E as [-> E]. apply Ascii.eqb_eq in E. subst c. simpl.
      eapply Hstatic; [simpl; reflexivity|left; reflexivity].
Qed.

Lemma tokenize_app u v : closed u = true -> tokenize (u ++ v) = tokenize u ++ tokenize v.
Proof. intros H. apply (tokenize_app_gen (List.length u) u vinit v); auto. left. reflexivity. Qed.

Lemma token_eqb_refl x : token_eqb x x = true.
Proof. destruct x; simpl; [apply Ascii.eqb_refl|apply bytes_eqb_refl|apply bytes_eqb_refl]. Qed.

Lemma tokens_conflict_app t a b : tokens_conflict (t ++ a) (t ++ b) = tokens_conflict a b.
Proof. induction t as [|x t IH]; simpl; [reflexivity|]. rewrite token_eqb_refl. exact IH. Qed.

Lemma tokens_conflict_nil_r a : tokens_conflict a [] = false.
Proof. destruct a; reflexivity. Qed.

(* first token of a non-empty string *)
Lemma tokenize_head a s : exists t ts, tokenize (a :: s) = t :: ts /\
  match t with
  | TStatic c => c = a
  | TParam _ => a = "{"
  | TCatch _ => a = "*"
  end.
Proof.
  rewrite tokenize_cons. destruct (Ascii.eqb_spec a "{") as [->|N1].
  - destruct (take_name s) as [n r']. do 2 eexists; split; reflexivity.
  - destruct (Ascii.eqb_spec a "*") as [->|N2].
    + destruct s as [|d r1]; [do 2 eexists; split; reflexivity|].
      destruct (Ascii.eqb d "{"); [|do 2 eexists; split; reflexivity].
      destruct (take_name r1) as [n r']. do 2 eexists; split; reflexivity.
    + do 2 eexists; split; reflexivity.
Qed.

Theorem apart_no_conflict p q : apart p q -> patterns_conflict p q = false /\ p <> q.
Proof.
  unfold patterns_conflict. intros [[k [Hk [-> Hc]]]|[[k [Hk [-> Hc]]]|[u [a [s [b [s' [-> [-> [Hab Hc]]]]]]]]]].
  - split.
    + rewrite tokenize_app by exact Hc. rewrite <- (app_nil_r (tokenize p)) at 1.
      rewrite tokens_conflict_app. reflexivity.
    + intros E. symmetry in E. revert E. apply app_ne_self. exact Hk.
  - split.
    + rewrite tokenize_app by exact Hc. rewrite <- (app_nil_r (tokenize q)) at 2.
      rewrite tokens_conflict_app. apply tokens_conflict_nil_r.
    + apply app_ne_self. exact Hk.
  - split.
    + rewrite !tokenize_app by exact Hc. rewrite tokens_conflict_app.
      destruct (tokenize_head a s) as [t1 [ts1 [-> H1]]]. destruct (tokenize_head b s') as [t2 [ts2 [-> H2]]].
      simpl. destruct t1 as [c1|n1|n1], t2 as [c2|n2|n2]; simpl; subst; try reflexivity; try congruence.
      destruct (Ascii.eqb_spec a b); [congruence|reflexivity].
    + intros E. apply app_inv_head in E. congruence.
Qed.

Lemma vstar_split u s0 : okstart s0 -> snd (fold_left vstep u s0) = VStar ->
  exists u', u = u' ++ ["*"] /\ vclosed (fold_left vstep u' s0) = true.
Proof.
  intros Hs H. destruct u as [|c u _] using rev_ind.
  - simpl in H. destruct Hs; congruence.
  - rewrite fold_left_app in H. simpl in H. destruct (fold_left vstep u s0) as [h st] eqn:E.
    exists u. destruct st; simpl in H; deqb; try destruct h; simpl in *; try congruence.
    all: split; [reflexivity|rewrite E; reflexivity].
Qed.

Lemma vname_split : forall u s0, okstart s0 -> snd (fold_left vstep u s0) = VName ->
  exists u0 nm (catch : bool), u = u0 ++ (if catch then ["*"; "{"] else ["{"]) ++ nm /\
    vclosed (fold_left vstep u0 s0) = true /\ ~ In "}" nm.
Proof.
  induction u as [|c u IH] using rev_ind; intros s0 Hs H.
  - simpl in H. destruct Hs; congruence.
  - rewrite fold_left_app in H. simpl in H. destruct (fold_left vstep u s0) as [h st] eqn:E.
    destruct st.
    + (* VDef: c = "{" *)
      exists u, [], false. simpl in H. deqb; try destruct h; simpl in *; try congruence.
      all: split; [try rewrite app_nil_r; reflexivity|]; split; [rewrite E; reflexivity|tauto].
    + (* VStar: c = "{" after "*" *)
      destruct (vstar_split u s0 Hs) as [u' [-> Hc']]; [rewrite E; reflexivity|].
      exists u', [], true. simpl in H. deqb; try congruence.
      split; [rewrite <- app_assoc; reflexivity|]. split; [exact Hc'|tauto].
    + (* VName: the name goes on *)
      destruct (IH s0 Hs) as [u0 [nm [catch [-> [Hc' Hni]]]]]; [rewrite E; reflexivity|].
      exists u0, (nm ++ [c]), catch. split; [rewrite <- !app_assoc; reflexivity|]. split; [exact Hc'|].
      intros Hin. apply in_app_or in Hin. destruct Hin as [Hin|[Ec|[]]]; [contradiction|].
      subst c. simpl in H. congruence.
    + simpl in H. deqb; try destruct h; simpl in *; congruence.
    + simpl in H. congruence.
Qed.

Lemma take_name_diff a s b s' : a <> b -> fst (take_name (a :: s)) <> fst (take_name (b :: s')).
Proof.
  intros Hab. simpl. destruct (Ascii.eqb_spec a "}") as [->|Na]; destruct (Ascii.eqb_spec b "}") as [->|Nb]; simpl.
  - congruence.
  - destruct (take_name s'); simpl; congruence.
  - destruct (take_name s); simpl; congruence.
  - destruct (take_name s), (take_name s'); simpl; congruence.
Qed.

Theorem clash_conflict p q : clash p q -> patterns_conflict p q = true /\ p <> q.
Proof.
  intros [u [a [s [b [s' [-> [-> [Hab Hn]]]]]]]]. split.
  2:{ intros E. apply app_inv_head in E. congruence. }
  destruct (vname_split u vinit (or_introl eq_refl) Hn) as [u0 [nm [catch [-> [Hc Hni]]]]].
  unfold patterns_conflict. rewrite <- !app_assoc. rewrite !(tokenize_app u0) by exact Hc.
  rewrite tokens_conflict_app.
  pose proof (take_name_diff a s b s' Hab) as Hd.
  destruct catch; simpl app; rewrite !tokenize_cons; simpl;
    rewrite !take_name_app2 by exact Hni;
    destruct (take_name (a :: s)) as [n1 r1], (take_name (b :: s')) as [n2 r2]; simpl in *;
    (destruct (bytes_eqb_spec (nm ++ n1) (nm ++ n2)) as [E|E]; [apply app_inv_head in E; contradiction|reflexivity]).
Qed.
