(* Props_C07_canon — property theorems of the proof agent owning this topic: only Theorem ... exact ... Qed. Print Assumptions. *)
From FoxBase Require Import Bytes.
From FoxRoute Require Import Node Tree WFDef TreeMap Canon Canon2.
From Coq Require Import Sorting.Permutation.

(* the executable checker decides the canonical-form predicate *)
Theorem C07_canonicalb_exact : forall root, canonicalb root = true <-> Canonical root.
Proof. exact canonicalb_spec. Qed.
Print Assumptions C07_canonicalb_exact.

Theorem C07_canon_rootsb_exact : forall rs, canon_rootsb rs = true <-> CanonRoots rs.
Proof. exact canon_rootsb_spec. Qed.
Print Assumptions C07_canon_rootsb_exact.

(* a canonical method tree is determined by its set of (pattern, route) pairs *)
Theorem C07_canonical_unique : forall a b,
  Canonical a -> Canonical b ->
  (forall x, In x (routes_of a) <-> In x (routes_of b)) ->
  nkey a = nkey b -> a = b.
Proof. exact canonical_unique. Qed.
Print Assumptions C07_canonical_unique.

Theorem C07_canonical_unique_perm : forall a b,
  Canonical a -> Canonical b -> Permutation (routes_of a) (routes_of b) -> nkey a = nkey b -> a = b.
Proof. exact canonical_unique_perm. Qed.
Print Assumptions C07_canonical_unique_perm.

(* ... and already by its set of route values (the pattern is a field of the route) *)
Theorem C07_canonical_unique_routes : forall a b,
  Canonical a -> Canonical b ->
  (forall r, In r (map snd (routes_of a)) <-> In r (map snd (routes_of b))) ->
  nkey a = nkey b -> a = b.
Proof. exact canonical_unique_routes. Qed.
Print Assumptions C07_canonical_unique_routes.

(* root slice / txn: the four fixed verb roots coincide, the custom-method roots coincide as a set *)
Theorem C07_canon_roots_unique : forall ra rb,
  CanonRoots ra -> CanonRoots rb ->
  (forall x, In x (txn_routes ra) <-> In x (txn_routes rb)) ->
  firstn 4 ra = firstn 4 rb /\ Permutation (skipn 4 ra) (skipn 4 rb).
Proof. exact canon_roots_unique. Qed.
Print Assumptions C07_canon_roots_unique.

Theorem C07_canon_txn_unique : forall ta tb : txn,
  CanonRoots (t_roots ta) -> CanonRoots (t_roots tb) ->
  (forall x, In x (txn_routes (t_roots ta)) <-> In x (txn_routes (t_roots tb))) ->
  firstn 4 (t_roots ta) = firstn 4 (t_roots tb) /\
  Permutation (skipn 4 (t_roots ta)) (skipn 4 (t_roots tb)).
Proof. exact canon_txn_unique. Qed.
Print Assumptions C07_canon_txn_unique.

(* bridge to the invariant that the tree operations preserve (WFDef.v / TreeWF*.v) *)
Theorem C07_WF_root_Canonical : forall root, WF_root root -> Canonical root.
Proof. exact WF_root_Canonical. Qed.
Print Assumptions C07_WF_root_Canonical.

Theorem C07_WF_roots_CanonRoots : forall rs, WF_roots rs -> CanonRoots rs.
Proof. exact WF_roots_CanonRoots. Qed.
Print Assumptions C07_WF_roots_CanonRoots.

Theorem C07_WF_txn_unique : forall ta tb : txn,
  WF_txn ta -> WF_txn tb ->
  (forall x, In x (routes_of_txn ta) <-> In x (routes_of_txn tb)) ->
  firstn 4 (t_roots ta) = firstn 4 (t_roots tb) /\
  Permutation (skipn 4 (t_roots ta)) (skipn 4 (t_roots tb)).
Proof. exact WF_txn_unique. Qed.
Print Assumptions C07_WF_txn_unique.

(* with the preservation theorems of TreeMap.v: every reachable state is canonical, and the trees
   depend only on the final registered set *)
Theorem C07_insert_canonical : forall t m ri t',
  WF_txn t -> valid_rinfo ri -> insert t m ri = ROk t' -> CanonRoots (t_roots t').
Proof. exact insert_canonical. Qed.
Print Assumptions C07_insert_canonical.

Theorem C07_reachable_canonical : forall t, CReach t -> CanonRoots (t_roots t).
Proof. exact CReach_canonical. Qed.
Print Assumptions C07_reachable_canonical.

Theorem C07_shape_history_independent : forall ta tb : txn,
  CReach ta -> CReach tb ->
  (forall x, In x (routes_of_txn ta) <-> In x (routes_of_txn tb)) ->
  firstn 4 (t_roots ta) = firstn 4 (t_roots tb) /\
  Permutation (skipn 4 (t_roots ta)) (skipn 4 (t_roots tb)).
Proof. exact shape_history_independent. Qed.
Print Assumptions C07_shape_history_independent.

(* non-vacuity: two different histories (one with deletes and a re-insert) reach canonical,
   equal trees; the custom roots differ in order only *)
Theorem C07_canon_example :
  CanonRoots (t_roots (run_hist ex_h1)) /\ CanonRoots (t_roots (run_hist ex_h2)) /\
  firstn 4 (t_roots (run_hist ex_h1)) = firstn 4 (t_roots (run_hist ex_h2)) /\
  Permutation (skipn 4 (t_roots (run_hist ex_h1))) (skipn 4 (t_roots (run_hist ex_h2))) /\
  map nkey (skipn 4 (t_roots (run_hist ex_h1))) <> map nkey (skipn 4 (t_roots (run_hist ex_h2))).
Proof. exact ex_canon_summary. Qed.
Print Assumptions C07_canon_example.
