(* WFDef — the well-formedness invariant of fox's method trees (C02/C07).

   A registered pattern is scanned by a small automaton [vstep] that is a
   NECESSARY condition of fox's parseRoute (fox.go:662-850): it only keeps what
   the tree proofs need:
     - the pattern contains a '/' (hostname part = everything before the first);
     - '{' opens a name, '*' must be followed by '{' and is illegal in the hostname;
     - a name contains no '/', '*', '{' (and no '.' in the hostname) and is closed
       by '}', which is followed by '/', by '.' (hostname only) or by nothing.
   [valid_patternb] is this automaton; the full validator is property C10.

   WF_node pre n : n is a well-formed non-root node whose key starts after the
   bytes [pre] (the concatenation of the keys from the method root). *)
From FoxBase Require Import Bytes.
From FoxRoute Require Import Node Lookup Spec Tree.
From Coq Require Import Sorting.Sorted Permutation.
Open Scope char_scope.

(* ---------- induction on nodes ---------- *)
Lemma node_ind2 (P : node -> Prop) :
  (forall k r ch, Forall P ch -> P (Node k r ch)) -> forall n, P n.
Proof.
  intros H. fix IH 1. intros [k r ch]. apply H.
  induction ch as [|c ch IHch]; constructor; [apply IH|exact IHch].
Qed.

(* ---------- the pattern automaton ---------- *)
Inductive vst := VDef | VStar | VName | VAfter | VBad.

(* state = (no '/' seen so far, lexical state) *)
Definition vstep (s : bool * vst) (c : ascii) : bool * vst :=
  let (h, st) := s in
  match st with
  | VDef => if Ascii.eqb c "/" then (false, VDef)
            else if Ascii.eqb c "{" then (h, VName)
            else if Ascii.eqb c "*" then (if h then (h, VBad) else (h, VStar))
            else (h, VDef)
  | VStar => if Ascii.eqb c "{" then (h, VName) else (h, VBad)
  | VName => if Ascii.eqb c "}" then (h, VAfter)
             else if Ascii.eqb c "/" || Ascii.eqb c "*" || Ascii.eqb c "{" || (h && Ascii.eqb c ".")
                  then (h, VBad) else (h, VName)
  | VAfter => if Ascii.eqb c "/" then (false, VDef)
              else if h && Ascii.eqb c "." then (h, VDef)
              else (h, VBad)
  | VBad => (h, VBad)
  end.
Definition vinit : bool * vst := (true, VDef).
Definition vrun (u : bytes) : bool * vst := fold_left vstep u vinit.
Definition vclosed (s : bool * vst) : bool := match snd s with VDef | VAfter => true | _ => false end.

Definition hostpart (u : bytes) : bool := fst (vrun u).      (* u is a legal prefix without '/' *)
Definition closed (u : bytes) : bool := vclosed (vrun u).    (* u is a legal prefix that does not end inside "{..}" / "*{..}" nor on '*' *)

Definition valid_patternb (p : bytes) : bool := closed p && negb (hostpart p).

Fixpoint count_wildcards (ts : list token) : nat :=
  match ts with
  | [] => 0
  | TStatic _ :: r => count_wildcards r
  | _ :: r => S (count_wildcards r)
  end.

(* what NewRoute hands to the tree for a pattern that passed validation *)
Definition valid_rinfo (ri : rinfo) : Prop :=
  valid_patternb (rpat (ri_route ri)) = true /\
  index_byte (rpat (ri_route ri)) "/" = Some (ri_hostsplit ri).
Definition valid_rinfo_full (ri : rinfo) : Prop :=
  valid_rinfo ri /\ ri_pslen ri = count_wildcards (tokenize (rpat (ri_route ri))).

(* ---------- routes of a tree (structural version of Tree.routes_of_node) ---------- *)
Fixpoint rlist (n : node) : list route :=
  match n with
  | Node _ r ch => (match r with Some rt => [rt] | None => [] end) ++ flat_map rlist ch
  end.

Definition routes_of_root (root : node) : list (bytes * bytes * N) :=
  map (fun r => (nkey root, rpat r, rid r)) (rlist root).
Definition routes_of_txn (t : txn) : list (bytes * bytes * N) := flat_map routes_of_root (t_roots t).

(* ---------- boolean checker ---------- *)
Definition fb (n : node) : nat := match nkey n with c :: _ => nat_of_ascii c | [] => 0 end.

Fixpoint sorted_fbb (l : list node) : bool :=
  match l with
  | [] => true
  | x :: r => forallb (fun y => Nat.ltb (fb x) (fb y)) r && sorted_fbb r
  end.

Fixpoint wf_nodeb (pre : bytes) (n : node) : bool :=
  match n with
  | Node k r ch =>
    let pre' := pre ++ k in
    negb (Tree.is_nil k)
    && closed pre'
    && (negb (hostpart pre) || starts_with "/" k || hostpart pre')
    && sorted_fbb ch
    && match r with
       | Some rt => bytes_eqb (rpat rt) pre' && negb (hostpart pre')
       | None => Nat.leb 2 (List.length ch)
                 || (hostpart pre' && match ch with [g] => starts_with "/" (nkey g) | _ => false end)
       end
    && forallb (wf_nodeb pre') ch
  end.

Definition wf_rootb (root : node) : bool :=
  match nroute root with None => true | Some _ => false end
  && sorted_fbb (nchildren root) && forallb (wf_nodeb []) (nchildren root).

Fixpoint nodup_bytesb (l : list bytes) : bool :=
  match l with
  | [] => true
  | x :: r => negb (existsb (bytes_eqb x) r) && nodup_bytesb r
  end.

Definition wf_rootsb (rs : list node) : bool :=
  list_eqb bytes_eqb (map nkey (firstn 4 rs)) common_verbs
  && forallb (fun c => negb (Tree.is_nil (nchildren c))) (skipn 4 rs)
  && nodup_bytesb (map nkey rs)
  && forallb wf_rootb rs.

Definition wf_txnb (t : txn) : bool :=
  wf_rootsb (t_roots t) && Z.eqb (t_size t) (Z.of_nat (List.length (routes_of_txn t))).

(* ---------- the invariant as a proposition ---------- *)
Definition sorted_fb (l : list node) : Prop := StronglySorted (fun a b => fb a < fb b) l.

Inductive WF_node : bytes -> node -> Prop :=
| WF_intro pre k r ch :
    k <> [] ->                                              (* keys are non-empty *)
    closed (pre ++ k) = true ->                             (* no key ends inside a wildcard: wildcards are never split *)
    (hostpart pre = true -> starts_with "/" k = false ->
       hostpart (pre ++ k) = true) ->                       (* a hostname node holds no '/': host and path live in different nodes *)
    sorted_fb ch ->                                         (* children strictly increasing in their first byte *)
    (forall rt, r = Some rt ->
       rpat rt = pre ++ k /\ hostpart (pre ++ k) = false) -> (* leaf: pattern = concatenation of the keys, and it is a valid pattern *)
    (r = None -> 2 <= List.length ch \/
       (hostpart (pre ++ k) = true /\
        exists g, ch = [g] /\ starts_with "/" (nkey g) = true)) -> (* inner node: >= 2 children, or host->path split node *)
    Forall (WF_node (pre ++ k)) ch ->
    WF_node pre (Node k r ch).

Definition WF_root (root : node) : Prop :=
  nroute root = None /\ sorted_fb (nchildren root) /\ Forall (WF_node []) (nchildren root).

Definition WF_roots (rs : list node) : Prop :=
  map nkey (firstn 4 rs) = common_verbs /\                  (* GET POST PUT DELETE, in that order *)
  Forall (fun c => nchildren c <> []) (skipn 4 rs) /\       (* custom method roots are never empty *)
  NoDup (map nkey rs) /\                                    (* one root per method *)
  Forall WF_root rs.

Definition WF_txn (t : txn) : Prop :=
  WF_roots (t_roots t) /\ t_size t = Z.of_nat (List.length (routes_of_txn t)).

(* ---------- reflection ---------- *)
Lemma sorted_fbb_spec l : sorted_fbb l = true <-> sorted_fb l.
Proof.
  unfold sorted_fb. induction l as [|x r IH]; simpl.
  - split; [constructor|reflexivity].
  - rewrite andb_true_iff, IH, forallb_forall. split.
    + intros [H1 H2]. constructor; [exact H2|]. apply Forall_forall. intros y Hy.
      apply Nat.ltb_lt, H1, Hy.
    + intros H. inversion H as [|? ? H2 H3]; subst. split; [|exact H2].
      intros y Hy. apply Nat.ltb_lt. rewrite Forall_forall in H3. auto.
Qed.

Lemma is_nil_false {A} (l : list A) : Tree.is_nil l = false <-> l <> [].
Proof. destruct l; simpl; split; congruence. Qed.

Lemma wf_nodeb_spec : forall n pre, wf_nodeb pre n = true <-> WF_node pre n.
Proof.
  induction n as [k r ch IH] using node_ind2. intros pre.
  cbn [wf_nodeb]. rewrite !andb_true_iff, negb_true_iff, is_nil_false, sorted_fbb_spec, forallb_forall.
  split.
  - intros [[[[[H1 H2] H3] H4] H5] H6]. constructor; auto.
    + intros Hh Hs. rewrite Hh, Hs in H3. simpl in H3. exact H3.
    + intros rt ->. apply andb_true_iff in H5. destruct H5 as [Ha Hb].
      apply bytes_eqb_eq in Ha. apply negb_true_iff in Hb. auto.
    + intros ->. apply orb_true_iff in H5. destruct H5 as [Ha|Ha].
      * left. apply Nat.leb_le. exact Ha.
      * right. apply andb_true_iff in Ha. destruct Ha as [Ha Hb]. split; [exact Ha|].
        destruct ch as [|g [|g' ch']]; try discriminate. exists g. auto.
    + rewrite Forall_forall in *. intros c Hc. apply IH; auto.
  - intros H. inversion H as [? ? ? ? H1 H2 H3 H4 H5 H6 H7]; subst.
    repeat split; auto.
    + destruct (hostpart pre) eqn:Hh; [|reflexivity]. simpl.
      destruct (starts_with "/" k) eqn:Hs; [reflexivity|]. simpl. auto.
    + destruct r as [rt|].
      * destruct (H5 rt eq_refl) as [Ha Hb]. rewrite Ha, bytes_eqb_refl, Hb. reflexivity.
      * destruct (H6 eq_refl) as [Ha|[Ha [g [-> Hg]]]].
        -- apply Nat.leb_le in Ha. rewrite Ha. reflexivity.
        -- rewrite Ha, Hg. apply orb_true_r.
    + rewrite Forall_forall in *. intros c Hc. apply IH; auto.
Qed.

Lemma wf_rootb_spec root : wf_rootb root = true <-> WF_root root.
Proof.
  unfold wf_rootb, WF_root. rewrite !andb_true_iff, sorted_fbb_spec, forallb_forall, Forall_forall.
  split.
  - intros [[H1 H2] H3]. repeat split; auto.
    + destruct (nroute root); [discriminate|reflexivity].
    + intros c Hc. apply wf_nodeb_spec; auto.
  - intros [H1 [H2 H3]]. rewrite H1. repeat split; auto.
    intros c Hc. apply wf_nodeb_spec; auto.
Qed.

Lemma list_eqb_bytes_eq a b : list_eqb bytes_eqb a b = true <-> a = b.
Proof.
  revert b. induction a as [|x a IH]; intros [|y b]; simpl; try (split; congruence).
  rewrite andb_true_iff, bytes_eqb_eq, IH. split; [intros [-> ->]; reflexivity|intros [= -> ->]; auto].
Qed.

Lemma existsb_bytes_In x l : existsb (bytes_eqb x) l = true <-> In x l.
Proof.
  rewrite existsb_exists. split.
  - intros [y [Hy He]]. apply bytes_eqb_eq in He. subst. exact Hy.
  - intros H. exists x. split; [exact H|apply bytes_eqb_refl].
Qed.

Lemma nodup_bytesb_spec l : nodup_bytesb l = true <-> NoDup l.
Proof.
  induction l as [|x r IH]; simpl.
  - split; [constructor|reflexivity].
  - rewrite andb_true_iff, negb_true_iff, IH. split.
    + intros [H1 H2]. constructor; [|exact H2]. intros Hin. apply existsb_bytes_In in Hin. congruence.
    + intros H. inversion H as [|? ? H1 H2]; subst. split; [|exact H2].
      destruct (existsb (bytes_eqb x) r) eqn:E; [|reflexivity]. apply existsb_bytes_In in E. contradiction.
Qed.

Lemma wf_rootsb_spec rs : wf_rootsb rs = true <-> WF_roots rs.
Proof.
  unfold wf_rootsb, WF_roots.
  rewrite !andb_true_iff, list_eqb_bytes_eq, nodup_bytesb_spec, !forallb_forall, !Forall_forall.
  split.
  - intros [[[H1 H2] H3] H4]. split; [exact H1|]. split; [|split; [exact H3|]].
    + intros c Hc. apply is_nil_false. apply negb_true_iff. auto.
    + intros c Hc. apply wf_rootb_spec. auto.
  - intros [H1 [H2 [H3 H4]]]. split; [split; [split; [exact H1|]|exact H3]|].
    + intros c Hc. apply negb_true_iff. apply is_nil_false. auto.
    + intros c Hc. apply wf_rootb_spec. auto.
Qed.

Theorem wf_txnb_spec t : wf_txnb t = true <-> WF_txn t.
Proof.
  unfold wf_txnb, WF_txn. rewrite andb_true_iff, wf_rootsb_spec, Z.eqb_eq. reflexivity.
Qed.

(* "strictly increasing first bytes" is "sorted by key, pairwise distinct first bytes" *)
Lemma bytes_ltb_fb a b : nkey a <> [] -> nkey b <> [] ->
  (fb a < fb b <-> bytes_ltb (nkey a) (nkey b) = true /\ hd_byte (nkey a) <> hd_byte (nkey b)).
Proof.
  unfold fb. destruct (nkey a) as [|x ka]; [congruence|]. destruct (nkey b) as [|y kb]; [congruence|].
  intros _ _. simpl.
  destruct (Nat.ltb (nat_of_ascii x) (nat_of_ascii y)) eqn:E1.
  - apply Nat.ltb_lt in E1. split; [|tauto]. intros _. split; [reflexivity|].
    intros [= ->]. lia.
  - apply Nat.ltb_ge in E1. destruct (Nat.ltb (nat_of_ascii y) (nat_of_ascii x)) eqn:E2.
    + apply Nat.ltb_lt in E2. split; [lia|intros [? _]; discriminate].
    + apply Nat.ltb_ge in E2. assert (x = y) as ->.
      { rewrite <- (ascii_nat_embedding x), <- (ascii_nat_embedding y). f_equal. lia. }
      split; [lia|intros [_ H]; congruence].
Qed.

Lemma sorted_fb_textual l : Forall (fun c => nkey c <> []) l ->
  (sorted_fb l <->
   StronglySorted (fun a b => bytes_ltb (nkey a) (nkey b) = true) l /\ NoDup (map (fun c => hd_byte (nkey c)) l)).
Proof.
  unfold sorted_fb. induction l as [|x r IH]; intros Hne.
  - split; [intros _; split; constructor|intros _; constructor].
  - inversion Hne as [|? ? Hx Hr]; subst. specialize (IH Hr). split.
    + intros H. inversion H as [|? ? H1 H2]; subst. apply IH in H1. destruct H1 as [Ha Hb].
      rewrite Forall_forall in H2, Hr. split.
      * constructor; [exact Ha|]. apply Forall_forall. intros y Hy.
        apply (bytes_ltb_fb x y); auto.
      * simpl. constructor; [|exact Hb]. intros Hin. apply in_map_iff in Hin.
        destruct Hin as [y [He Hy]]. apply (bytes_ltb_fb x y) in H2; auto. destruct H2; congruence.
    + intros [Ha Hb]. inversion Ha as [|? ? H1 H2]; subst. simpl in Hb.
      inversion Hb as [|? ? H3 H4]; subst. constructor; [apply IH; auto|].
      rewrite Forall_forall in *. intros y Hy. apply (bytes_ltb_fb x y); auto. split; [auto|].
      intros He. apply H3. rewrite He. apply (in_map (fun c => hd_byte (nkey c))). exact Hy.
Qed.

(* ---------- examples ---------- *)
Definition mk_ri (p : bytes) (id : N) : rinfo :=
  {| ri_route := {| rpat := p; rid := id |};
     ri_pslen := count_wildcards (tokenize p);
     ri_hostsplit := match index_byte p "/" with Some i => i | None => 0 end |}.

Definition fill_ids (l : list (bytes * bytes * N)) : txn :=
  fold_left (fun t e => let '(m, p, id) := e in
               match insert t m (mk_ri p id) with ROk t' => t' | _ => t end) l empty_txn.

Definition ex_txn1 : txn := Eval vm_compute in fill_ids
  [(S2B "GET", S2B "/foo/bar", 1%N); (S2B "GET", S2B "/foo/{id}", 2%N); (S2B "GET", S2B "/foo/{id}/x", 3%N);
   (S2B "GET", S2B "/fob", 4%N); (S2B "POST", S2B "/files/*{path}", 5%N);
   (S2B "GET", S2B "a.com/x", 6%N); (S2B "GET", S2B "a.com.br/y", 7%N); (S2B "GET", S2B "{sub}.b.com/", 8%N);
   (S2B "PURGE", S2B "/cache/*{key}/drop", 9%N); (S2B "GET", S2B "/foo/{name}", 10%N)].

Example ex_txn1_wf : WF_txn ex_txn1.
Proof. apply wf_txnb_spec. vm_compute. reflexivity. Qed.
Example ex_txn1_size : t_size ex_txn1 = 9%Z.          (* the last insertion is a conflict and is refused *)
Proof. reflexivity. Qed.
Example empty_txn_wf : WF_txn empty_txn.
Proof. apply wf_txnb_spec. vm_compute. reflexivity. Qed.

Example valid_ex1 : valid_rinfo_full (mk_ri (S2B "{sub}.b.com/x/*{rest}/y") 1%N).
Proof. repeat split. Qed.
Example invalid_ex1 : valid_patternb (S2B "/a/{b}c") = false /\ valid_patternb (S2B "a.com") = false
                      /\ valid_patternb (S2B "/a/*b") = false /\ valid_patternb (S2B "/a/{b") = false
                      /\ valid_patternb (S2B "*{a}.com/") = false /\ valid_patternb (S2B "{a.b}.com/") = false.
Proof. repeat split. Qed.

(* malformed trees are rejected: an unmerged single-child inner node; a split wildcard;
   unsorted children; a leaf whose pattern is not its path; a stale size *)
Definition bad_root (ch : list node) : txn :=
  {| t_roots := Node m_get None ch :: map empty_root [m_post; m_put; m_delete];
     t_size := Z.of_nat (List.length (flat_map rlist ch)); t_maxparams := 0; t_depth := 0 |}.
Definition lf (k p : string) : node := Node (S2B k) (Some {| rpat := S2B p; rid := 0 |}) [].

Example bad_unmerged : wf_txnb (bad_root [Node (S2B "/a") None [lf "b" "/ab"]]) = false.
Proof. reflexivity. Qed.
Example bad_split_wildcard : wf_txnb (bad_root [Node (S2B "/{a") None [lf "b}" "/{ab}"; lf "c}" "/{ac}"]]) = false.
Proof. reflexivity. Qed.
Example bad_unsorted : wf_txnb (bad_root [Node (S2B "/") None [lf "b" "/b"; lf "a" "/a"]]) = false.
Proof. reflexivity. Qed.
Example bad_same_first_byte : wf_txnb (bad_root [Node (S2B "/") None [lf "ab" "/ab"; lf "ac" "/ac"]]) = false.
Proof. reflexivity. Qed.
Example bad_leaf_pattern : wf_txnb (bad_root [Node (S2B "/") None [lf "a" "/a"; lf "b" "/c"]]) = false.
Proof. reflexivity. Qed.
Example bad_host_straddle : wf_txnb (bad_root [lf "a.com/x" "a.com/x"]) = false.
Proof. reflexivity. Qed.
Example good_host_split : wf_txnb (bad_root [Node (S2B "a.com") None [lf "/x" "a.com/x"]]) = true.
Proof. reflexivity. Qed.
Example bad_size : wf_txnb {| t_roots := t_roots ex_txn1; t_size := 10; t_maxparams := 2; t_depth := 3 |} = false.
Proof. reflexivity. Qed.
Example bad_root_order : wf_txnb {| t_roots := map empty_root [m_post; m_get; m_put; m_delete];
                                    t_size := 0; t_maxparams := 0; t_depth := 0 |} = false.
Proof. reflexivity. Qed.
Example bad_empty_custom_root : wf_txnb {| t_roots := map empty_root (common_verbs ++ [S2B "PURGE"]);
                                           t_size := 0; t_maxparams := 0; t_depth := 0 |} = false.
Proof. reflexivity. Qed.
