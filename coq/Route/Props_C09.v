(* C09 property theorems (orchestrator's file; further theorem files are listed in checks/C09.py). *)
From FoxBase Require Import Bytes.
From FoxRoute Require Import Spec SpecFacts.

(* the specification never selects a route that is not registered: routes that are not
   registered, and registered routes that match neither the path nor its slash-adjusted
   form, can only influence the answer through the selection rules *)
Theorem C09_spec_selects_registered : forall pats host path p ps,
  spec_lookup pats host path = SDirect p ps \/ spec_lookup pats host path = STsr p ps -> In p pats.
Proof. exact spec_lookup_registered. Qed.
Print Assumptions C09_spec_selects_registered.
