(* Host normalisation before hostname matching (C09):
   model  = netutil.StripHostPort (internal/netutil/netutil.go:44-60) over a
            transliteration of net.SplitHostPort (Go standard library);
   spec   = "any port and one trailing dot removed", written structurally. *)
From FoxBase Require Import Bytes.
From FoxRoute Require Import Node.
Open Scope char_scope.

Fixpoint last_index (s : bytes) (c : ascii) (i : nat) (acc : option nat) : option nat :=
  match s with
  | [] => acc
  | x :: r => last_index r c (S i) (if Ascii.eqb x c then Some i else acc)
  end.

Definition contains (s : bytes) (c : ascii) : bool :=
  match index_byte s c with Some _ => true | None => false end.

Definition trim_dot (s : bytes) : bytes :=
  match rev s with "." :: r => rev r | _ => s end.

(* net.SplitHostPort: Some (host, port) or None (error) *)
Definition split_host_port (hp : bytes) : option (bytes * bytes) :=
  match last_index hp ":" 0 None with
  | None => None                                             (* missing port *)
  | Some i =>
    match hp with
    | "[" :: _ =>
        match index_byte hp "]" with
        | None => None
        | Some e =>
            if Nat.eqb (S e) (List.length hp) then None
            else if Nat.eqb (S e) i then
              let host := firstn (e - 1) (skipn 1 hp) in
              if contains (skipn 1 hp) "[" then None
              else if contains (skipn (S e) hp) "]" then None
              else Some (host, skipn (S i) hp)
            else None
        end
    | _ =>
        let host := firstn i hp in
        if contains host ":" then None
        else if contains hp "[" then None
        else if contains hp "]" then None
        else Some (host, skipn (S i) hp)
    end
  end.

Definition strip_host_port (h : bytes) : bytes :=
  match h with
  | [] => []
  | _ => if negb (contains h ":") then trim_dot h
         else match split_host_port h with
              | Some (host, _) => trim_dot host
              | None => h
              end
  end.

(* ---- specification ---- *)
Definition plain (s : bytes) : bool := negb (contains s ":") && negb (contains s "[") && negb (contains s "]").

(* h = a ++ ":" ++ port, cut at the LAST colon *)
Definition cut_last_colon (h : bytes) : option (bytes * bytes) :=
  match last_index h ":" 0 None with
  | Some i => Some (firstn i h, skipn (S i) h)
  | None => None
  end.

Definition plain_port (p : bytes) : bool := negb (contains p "[") && negb (contains p "]").

Definition strip_spec (h : bytes) : bytes :=
  match cut_last_colon h with
  | None => trim_dot h                                        (* no port: only the trailing dot *)
  | Some (a, port) =>
      match a with
      | "[" :: a' =>                                          (* [v6]:port *)
          match rev a' with
          | "]" :: ri => if negb (contains (rev ri) "[") && negb (contains (rev ri) "]") && plain_port port
                         then trim_dot (rev ri) else h
          | _ => h
          end
      | _ => if plain a && plain_port port then trim_dot a else h
      end
  end.
