(* LazyProofs2 — lazy-irrelevance and fuel monotonicity for lookupByDomain and
   roots.lookup; tiny models of the entry points (Route, Reverse, Lookup, ServeHTTP
   direct branch, Iter.Reverse, router and Txn) as wrappers of roots_lookup.
   See docs/C01_lazy.md. *)
From FoxBase Require Import Bytes.
From FoxRoute Require Import Node Lookup Tree LazyProofs.
Require Import Lia.
Open Scope char_scope.

(* ---------- lookupByDomain ---------- *)
Definition DInv (ph : dphase) (s : st) : Prop :=
  match ph with
  | DBack => chain (List.length (ps s)) (sks s)
  | _ => pcnt s <= List.length (ps s) /\ chain (pcnt s) (sks s)
  end.

Definition outd (rl rn : lres) (ph : dphase) (sn : st) : Prop :=
  strong_rel rl rn \/ (rn = LPanic /\ ~ DInv ph sn).

Lemma relaxd rl rn ph sn ph' sn' :
  (DInv ph sn -> DInv ph' sn') -> outd rl rn ph' sn' -> outd rl rn ph sn.
Proof. unfold outd; intuition. Qed.

Ltac red_d :=
  cbn [lz cur par cm cmn pcnt pkc sks ps tsr tn tps set_tsr push descend init_st par_is_leaf
       dpush dgo map zsk sk_n sk_path sk_pcnt sk_child] in *.

Ltac invd_solve :=
  cbn [DInv chain cur par cm cmn pcnt pkc sks ps tsr tn tps sk_pcnt List.length
       set_tsr push descend dpush dgo init_st];
  intros; rewrite ?app_length, ?firstn_length; cbn [List.length];
  repeat match goal with H : _ /\ _ |- _ => destruct H end;
  repeat split; try lia; try (eapply chain_mono; [|eassumption]; lia); try assumption.

(* the path sub-lookup: lazy on the lazy side, non-lazy on the other; results correspond *)
Ltac sub_lbp :=
  match goal with
  | |- context[match lookup_by_path ?f ?c ?path true ?a ?b with _ => _ end] =>
    match goal with
    | |- context[match lookup_by_path f c path false ?a' ?b' with _ => _ end] =>
      let HS := fresh "HS" in
      pose proof (lookup_by_path_lazy_irrelevant f c path a b a' b') as HS;
      destruct (lookup_by_path f c path true a b) as [? ? ? ?| |],
               (lookup_by_path f c path false a' b') as [? ? ? ?| |];
      cbn [strong_rel] in HS; try contradiction;
      try match type of HS with _ /\ _ => destruct HS; subst end
    end
  end.

Ltac leafd IH :=
  lazymatch goal with
  | |- outd (Found _ _ _ _) (Found _ _ _ _) _ _ => left; cbn; auto
  | |- outd LPanic LPanic _ _ => left; exact I
  | |- outd LOutOfFuel LOutOfFuel _ _ => left; exact I
  | |- outd (lbd _ _ _ true ?ph' ?sl') (lbd _ _ _ false ?ph' ?sn') _ _ =>
      eapply relaxd; [ | exact (IH ph' sn' (ps sl') (tps sl')) ]; invd_solve
  end.

Ltac dmsd := repeat (first [sub_lbp | dm]; red_d; try congruence).

Lemma lbd_sim host path : forall f ph sn p tp,
  outd (lbd f host path true ph (lz sn p tp)) (lbd f host path false ph sn) ph sn.
Proof.
  induction f as [|f IH]; intros ph sn p tp.
  - left; exact I.
  - destruct sn as [c pa m mn pc k sk psn t n tpsn].
    destruct ph; cbn [lbd]; red_d.
    + (* DWalk *) dmsd; leafd IH.
    + (* DInner *) dmsd; leafd IH.
    + (* DSelect *) dmsd; leafd IH.
    + (* DAfter *) dmsd; leafd IH.
    + (* DBack *)
      destruct sk as [|s0 rest]; red_d.
      * left; cbn; auto.
      * change (Nat.ltb (List.length p) 0) with false; cbv iota.
        dmsd; try leafd IH.
        right; split; [reflexivity|].
        cbn [DInv chain ps sks]; intros [H _].
        match goal with E : Nat.ltb _ _ = true |- _ => apply Nat.ltb_lt in E; lia end.
Qed.

Theorem lbd_lazy_irrelevant : forall f host path ph sl sn, lazy_rel sl sn ->
  match lbd f host path false ph sn with
  | Found n t _ _ => exists p tp, lbd f host path true ph sl = Found n t p tp
  | LOutOfFuel => lbd f host path true ph sl = LOutOfFuel
  | LPanic => True
  end.
Proof.
  intros f host path ph sl sn R. rewrite (lazy_rel_lz _ _ R).
  destruct (lbd_sim host path f ph sn (ps sl) (tps sl)) as [H|[H _]]; [|rewrite H; exact I].
  destruct (lbd f host path false ph sn), (lbd f host path true ph (lz sn (ps sl) (tps sl)));
    cbn in H; try contradiction; try exact I; try reflexivity.
  destruct H as [-> ->]; eauto.
Qed.

Theorem lbd_lazy_strong : forall f host path ph sl sn, lazy_rel sl sn -> DInv ph sn ->
  strong_rel (lbd f host path true ph sl) (lbd f host path false ph sn).
Proof.
  intros f host path ph sl sn R I. rewrite (lazy_rel_lz _ _ R).
  destruct (lbd_sim host path f ph sn (ps sl) (tps sl)) as [H|[_ H]]; [exact H|contradiction].
Qed.

Theorem lbd_lazy_irrelevant_iff : forall f host path ph sl sn, lazy_rel sl sn -> DInv ph sn ->
  (forall n t, (exists p tp, lbd f host path true ph sl = Found n t p tp) <->
               (exists p tp, lbd f host path false ph sn = Found n t p tp)) /\
  (lbd f host path true ph sl = LPanic <-> lbd f host path false ph sn = LPanic) /\
  (lbd f host path true ph sl = LOutOfFuel <-> lbd f host path false ph sn = LOutOfFuel).
Proof. intros; apply strong_rel_iff, lbd_lazy_strong; assumption. Qed.

Theorem lookup_by_domain_lazy_irrelevant : forall f target host path ps0 tps0 ps1 tps1,
  strong_rel (lookup_by_domain f target host path true ps0 tps0)
             (lookup_by_domain f target host path false ps1 tps1).
Proof.
  intros. unfold lookup_by_domain.
  repeat (dm; try congruence); try (cbn; auto; fail);
    (apply lbd_lazy_strong; [unfold lazy_rel; cbn; repeat split; reflexivity | cbn; repeat split; lia]).
Qed.

(* ---------- roots.lookup ---------- *)
Ltac sub_lbdom :=
  match goal with
  | |- context[match lookup_by_domain ?f ?c ?host ?path true ?a ?b with _ => _ end] =>
    match goal with
    | |- context[match lookup_by_domain f c host path false ?a' ?b' with _ => _ end] =>
      let HS := fresh "HS" in
      pose proof (lookup_by_domain_lazy_irrelevant f c host path a b a' b') as HS;
      destruct (lookup_by_domain f c host path true a b) as [? ? ? ?| |],
               (lookup_by_domain f c host path false a' b') as [? ? ? ?| |];
      cbn [strong_rel] in HS; try contradiction;
      try match type of HS with _ /\ _ => destruct HS; subst end
    end
  end.

Theorem roots_lookup_lazy_strong : forall f r m h p ps0 tps0 ps1 tps1,
  strong_rel (roots_lookup f r m h p true ps0 tps0) (roots_lookup f r m h p false ps1 tps1).
Proof.
  intros. unfold roots_lookup.
  repeat (first [sub_lbdom | dm]; try congruence);
    first [ apply lookup_by_path_lazy_irrelevant | cbn; auto ].
Qed.

(* the observable part of a lookup result: (node, tsr), or the failure kind *)
Inductive pres := PFound (n : option node) (tsr : bool) | PPanic | POutOfFuel.
Definition proj (r : lres) : pres :=
  match r with Found n t _ _ => PFound n t | LPanic => PPanic | LOutOfFuel => POutOfFuel end.

Lemma strong_rel_proj rl rn : strong_rel rl rn <-> proj rl = proj rn.
Proof.
  destruct rl, rn; cbn; split; intros H; try contradiction; try discriminate; auto.
  - destruct H; subst; reflexivity.
  - inversion H; auto.
Qed.

Theorem roots_lookup_lazy_irrelevant_gen : forall f r m h p ps0 tps0 ps1 tps1,
  proj (roots_lookup f r m h p true ps0 tps0) = proj (roots_lookup f r m h p false ps1 tps1).
Proof. intros; apply strong_rel_proj, roots_lookup_lazy_strong. Qed.

Theorem roots_lookup_lazy_irrelevant : forall fuel r m h p,
  proj (roots_lookup fuel r m h p true [] []) = proj (roots_lookup fuel r m h p false [] []).
Proof. intros; apply roots_lookup_lazy_irrelevant_gen. Qed.

(* ---------- fuel monotonicity ---------- *)
Lemma lookup_by_path_fuel_le : forall f k c path lazy ps0 tps0,
  lookup_by_path f c path lazy ps0 tps0 = LOutOfFuel \/
  lookup_by_path (f + k) c path lazy ps0 tps0 = lookup_by_path f c path lazy ps0 tps0.
Proof. intros; unfold lookup_by_path; apply lbp_fuel_le. Qed.

Ltac sub_fuel :=
  match goal with
  | |- context[match lookup_by_path (?f + ?k) ?c ?pa ?lz ?a ?b with _ => _ end] =>
      let E := fresh "E" in
      destruct (lookup_by_path_fuel_le f k c pa lz a b) as [E|E]; rewrite E;
      [cbv iota; left; reflexivity|]
  end.

Lemma lbd_fuel_le : forall f host path lazy k ph s,
  lbd f host path lazy ph s = LOutOfFuel \/ lbd (f + k) host path lazy ph s = lbd f host path lazy ph s.
Proof.
  induction f as [|f IH]; intros host path lazy k ph s; [left; reflexivity|].
  destruct s as [c pa m mn pc kk sk psn t n tpsn].
  destruct ph; cbn [Nat.add lbd]; red_d;
    repeat (first [sub_fuel | dm]; red_d; try congruence);
    solve [ apply IH | right; reflexivity ].
Qed.

Theorem lbd_fuel_mono : forall f k host path lazy ph s,
  lbd f host path lazy ph s <> LOutOfFuel -> lbd (f + k) host path lazy ph s = lbd f host path lazy ph s.
Proof. intros f k host path lazy ph s H. destruct (lbd_fuel_le f host path lazy k ph s); tauto. Qed.

Lemma lookup_by_domain_fuel_le : forall f k target host path lazy ps0 tps0,
  lookup_by_domain f target host path lazy ps0 tps0 = LOutOfFuel \/
  lookup_by_domain (f + k) target host path lazy ps0 tps0 = lookup_by_domain f target host path lazy ps0 tps0.
Proof.
  intros. unfold lookup_by_domain.
  repeat (dm; try congruence); solve [ apply lbd_fuel_le | right; reflexivity ].
Qed.

Theorem lookup_by_domain_fuel_mono : forall f k target host path lazy ps0 tps0,
  lookup_by_domain f target host path lazy ps0 tps0 <> LOutOfFuel ->
  lookup_by_domain (f + k) target host path lazy ps0 tps0 = lookup_by_domain f target host path lazy ps0 tps0.
Proof. intros f k t h p l a b H. destruct (lookup_by_domain_fuel_le f k t h p l a b); tauto. Qed.

Ltac sub_fuel_dom :=
  match goal with
  | |- context[match lookup_by_domain (?f + ?k) ?c ?h ?pa ?lz ?a ?b with _ => _ end] =>
      let E := fresh "E" in
      destruct (lookup_by_domain_fuel_le f k c h pa lz a b) as [E|E]; rewrite E;
      [cbv iota; left; reflexivity|]
  end.

Lemma roots_lookup_fuel_le : forall f k r m h p lazy ps0 tps0,
  roots_lookup f r m h p lazy ps0 tps0 = LOutOfFuel \/
  roots_lookup (f + k) r m h p lazy ps0 tps0 = roots_lookup f r m h p lazy ps0 tps0.
Proof.
  intros. unfold roots_lookup.
  repeat (first [sub_fuel_dom | dm]; try congruence);
    solve [ apply lookup_by_path_fuel_le | right; reflexivity ].
Qed.

Theorem roots_lookup_fuel_mono : forall f k r m h p lazy ps0 tps0,
  roots_lookup f r m h p lazy ps0 tps0 <> LOutOfFuel ->
  roots_lookup (f + k) r m h p lazy ps0 tps0 = roots_lookup f r m h p lazy ps0 tps0.
Proof. intros f k r m h p l a b H. destruct (roots_lookup_fuel_le f k r m h p l a b); tauto. Qed.

Corollary roots_lookup_fuel_mono_le : forall f f' r m h p lazy ps0 tps0, f <= f' ->
  roots_lookup f r m h p lazy ps0 tps0 <> LOutOfFuel ->
  roots_lookup f' r m h p lazy ps0 tps0 = roots_lookup f r m h p lazy ps0 tps0.
Proof.
  intros f f' r m h p l a b L H. replace f' with (f + (f' - f)) by lia.
  apply roots_lookup_fuel_mono, H.
Qed.

(* ---------- the entry points as wrappers of roots.lookup ----------
   fox.go:277-332 (Router.Route / Reverse / Lookup), fox.go:531-555 (ServeHTTP, direct branch),
   txn.go:202-268 (Txn.Route / Reverse / Lookup), iter.go:112-126 (Iter.Reverse).
   All of them take a pooled context, reset *c.params to [:0] (resetNil / reset /
   resetWithWriter; none of them resets tsrParams, hence the [tp0] argument = stale
   tsrParams) and call roots.lookup on a roots value; they differ in the lazy flag, in
   cmp.Or(path, "/") and in what they do with (n, tsr). *)
Section EntryPoints.
  Variable fuel : nat.
  Variable strip_host_port : bytes -> bytes.          (* netutil.StripHostPort (node.go:97) *)
  Variable split_host_path : bytes -> bytes * bytes.  (* SplitHostPath (path.go:170) *)
  Variable ts_opt : route -> bool.    (* route.redirectTrailingSlash || route.ignoreTrailingSlash *)

  Definition or_slash (p : bytes) : bytes := match p with [] => ["/"] | _ => p end.

  (* tree.lookup / roots.lookup with a freshly reset context *)
  Definition tree_lookup (r : roots) (method hostport path : bytes) (lazy : bool) (tp0 : list kv) : lres :=
    roots_lookup fuel r method (strip_host_port hostport) path lazy [] tp0.

  (* what an entry point selects: the matched node (its route is n.route) and the tsr flag *)
  Inductive epres := EP (sel : option (node * bool)) | EPPanic | EPOutOfFuel.

  (* n != nil && !tsr && n.route.pattern == pattern *)
  Definition route_ep (r : roots) (method pattern : bytes) (tp0 : list kv) : epres :=
    let '(host, path) := split_host_path pattern in
    match tree_lookup r method host path true tp0 with
    | Found (Some n) false _ _ =>
        match nroute n with
        | None => EPPanic                                            (* n.route.pattern, nil route *)
        | Some rt => if bytes_eqb (rpat rt) pattern then EP (Some (n, false)) else EP None
        end
    | Found _ _ _ _ => EP None
    | LPanic => EPPanic | LOutOfFuel => EPOutOfFuel
    end.
  Definition Router_Route := route_ep.
  Definition Txn_Route := route_ep.

  (* if n != nil { return n.route, tsr }; return nil, false *)
  Definition Router_Reverse (r : roots) (method host path : bytes) (tp0 : list kv) : epres :=
    match tree_lookup r method host (or_slash path) true tp0 with
    | Found (Some n) t _ _ => EP (Some (n, t))
    | Found None _ _ _ => EP None
    | LPanic => EPPanic | LOutOfFuel => EPOutOfFuel
    end.
  (* Txn.Reverse defaults the empty path like Router.Reverse (txn.go, since the fix f49b881:
     `cmp.Or(path, "/")`); before that fix it passed the path through unchanged *)
  Definition Txn_Reverse (r : roots) (method host path : bytes) (tp0 : list kv) : epres :=
    match tree_lookup r method host (or_slash path) true tp0 with
    | Found (Some n) t _ _ => EP (Some (n, t))
    | Found None _ _ _ => EP None
    | LPanic => EPPanic | LOutOfFuel => EPOutOfFuel
    end.

  (* if n != nil { return n.route, c, tsr }; return nil, nil, tsr   (route part) *)
  Definition lookup_ep (r : roots) (method host path : bytes) (tp0 : list kv) : epres :=
    match tree_lookup r method host path false tp0 with
    | Found (Some n) t _ _ => EP (Some (n, t))
    | Found None _ _ _ => EP None
    | LPanic => EPPanic | LOutOfFuel => EPOutOfFuel
    end.
  Definition Router_Lookup := lookup_ep.
  Definition Txn_Lookup := lookup_ep.

  (* ServeHTTP: if !tsr && n != nil { n.route.hall(c); return }  — EP None = not the direct branch *)
  Definition ServeHTTP_direct (r : roots) (method host path : bytes) (tp0 : list kv) : epres :=
    match tree_lookup r method host path false tp0 with
    | Found (Some n) false _ _ => EP (Some (n, false))
    | Found _ _ _ _ => EP None
    | LPanic => EPPanic | LOutOfFuel => EPOutOfFuel
    end.

  (* Iter.Reverse, one method of the sequence:
     n != nil && (!tsr || n.route.redirectTrailingSlash || n.route.ignoreTrailingSlash) *)
  Definition Iter_Reverse1 (r : roots) (method host path : bytes) (tp0 : list kv) : epres :=
    match tree_lookup r method host (or_slash path) true tp0 with
    | Found (Some n) false _ _ => EP (Some (n, false))
    | Found (Some n) true _ _ =>
        match nroute n with
        | None => EPPanic
        | Some rt => if ts_opt rt then EP (Some (n, true)) else EP None
        end
    | Found None _ _ _ => EP None
    | LPanic => EPPanic | LOutOfFuel => EPOutOfFuel
    end.
  Definition Iter_Reverse (r : roots) (methods : list bytes) (host path : bytes) (tp0 : list kv) :=
    map (fun m => (m, Iter_Reverse1 r m host path tp0)) methods.

  (* the caller-side filters, as functions of what Lookup selects *)
  Definition direct_only (e : epres) : epres :=
    match e with EP (Some (n, false)) => e | EP _ => EP None | _ => e end.
  Definition pattern_only (pattern : bytes) (e : epres) : epres :=
    match e with
    | EP (Some (n, false)) =>
        match nroute n with
        | None => EPPanic
        | Some rt => if bytes_eqb (rpat rt) pattern then e else EP None
        end
    | EP _ => EP None
    | _ => e
    end.
  Definition tsr_opt_only (e : epres) : epres :=
    match e with
    | EP (Some (n, true)) =>
        match nroute n with
        | None => EPPanic
        | Some rt => if ts_opt rt then e else EP None
        end
    | _ => e
    end.

  Lemma tree_lookup_proj r m h p tp0 tp1 :
    proj (tree_lookup r m h p true tp0) = proj (tree_lookup r m h p false tp1).
  Proof. apply roots_lookup_lazy_irrelevant_gen. Qed.

  Ltac ep_tac r m h p tp0 tp1 :=
    pose proof (tree_lookup_proj r m h p tp0 tp1) as HP;
    destruct (tree_lookup r m h p true tp0) as [[?|] [|] ? ?| |],
             (tree_lookup r m h p false tp1) as [[?|] [|] ? ?| |];
    cbn in HP; try discriminate; try (inversion HP; subst); try reflexivity.

  (* every entry point selects what Lookup selects on the same roots value, method, host and
     (defaulted) path, whatever stale state the pooled contexts carry *)
  Theorem entry_points_agree_lemma : forall r method host path pattern tp0 tp1,
    Router_Reverse r method host path tp0 = Router_Lookup r method host (or_slash path) tp1 /\
    Txn_Reverse r method host path tp0 = Txn_Lookup r method host (or_slash path) tp1 /\
    ServeHTTP_direct r method host path tp0 = direct_only (Router_Lookup r method host path tp1) /\
    Iter_Reverse1 r method host path tp0 = tsr_opt_only (Router_Lookup r method host (or_slash path) tp1) /\
    Router_Route r method pattern tp0 =
      pattern_only pattern (Router_Lookup r method (fst (split_host_path pattern)) (snd (split_host_path pattern)) tp1) /\
    Txn_Route r method pattern tp0 =
      pattern_only pattern (Txn_Lookup r method (fst (split_host_path pattern)) (snd (split_host_path pattern)) tp1) /\
    Txn_Lookup r method host path tp0 = Router_Lookup r method host path tp1.
  Proof.
    intros r m h p pat tp0 tp1.
    unfold Router_Reverse, Txn_Reverse, Router_Lookup, Txn_Lookup, ServeHTTP_direct, Iter_Reverse1,
      Router_Route, Txn_Route, route_ep, lookup_ep, direct_only, tsr_opt_only, pattern_only.
    destruct (split_host_path pat) as [ph pp]; cbn [fst snd].
    repeat split.
    - ep_tac r m h (or_slash p) tp0 tp1.
    - ep_tac r m h (or_slash p) tp0 tp1.
    - assert (HP : proj (tree_lookup r m h p false tp0) = proj (tree_lookup r m h p false tp1)).
      { rewrite <- (tree_lookup_proj r m h p tp0 tp0). apply tree_lookup_proj. }
      destruct (tree_lookup r m h p false tp0) as [[?|] [|] ? ?| |],
               (tree_lookup r m h p false tp1) as [[?|] [|] ? ?| |];
        cbn in HP; try discriminate; try (inversion HP; subst); try reflexivity.
    - ep_tac r m h (or_slash p) tp0 tp1; destruct (nroute _); try reflexivity; destruct (ts_opt _); reflexivity.
    - ep_tac r m ph pp tp0 tp1; destruct (nroute _); try reflexivity; destruct (bytes_eqb _ _); reflexivity.
    - ep_tac r m ph pp tp0 tp1; destruct (nroute _); try reflexivity; destruct (bytes_eqb _ _); reflexivity.
    - assert (HP : proj (tree_lookup r m h p false tp0) = proj (tree_lookup r m h p false tp1)).
      { rewrite <- (tree_lookup_proj r m h p tp0 tp0). apply tree_lookup_proj. }
      destruct (tree_lookup r m h p false tp0) as [[?|] [|] ? ?| |],
               (tree_lookup r m h p false tp1) as [[?|] [|] ? ?| |];
        cbn in HP; try discriminate; try (inversion HP; subst); try reflexivity.
  Qed.
End EntryPoints.

(* Router.Reverse and Txn.Reverse both default the empty path to "/": they are the same function of
   the roots value (fix f49b881; the pre-fix Txn.Reverse passed "" through and answered a trailing-slash
   match of "/" where the router answered a direct one) *)
Lemma Router_Txn_Reverse_eq fuel shp r m h p tp0 :
  Router_Reverse fuel shp r m h p tp0 = Txn_Reverse fuel shp r m h p tp0.
Proof. reflexivity. Qed.
Lemma Router_Txn_Reverse_nonempty fuel shp r m h p tp0 : p <> [] ->
  Router_Reverse fuel shp r m h p tp0 = Txn_Reverse fuel shp r m h p tp0.
Proof. intros _; apply Router_Txn_Reverse_eq. Qed.

(* ---------- examples (non-vacuity) ---------- *)
Definition mk_ri (pat : string) (pslen hs : nat) (id : N) : rinfo :=
  {| ri_route := {| rpat := S2B pat; rid := id |}; ri_pslen := pslen; ri_hostsplit := hs |}.
Definition ins_all (l : list rinfo) : roots :=
  t_roots (fold_left (fun t ri => match insert t m_get ri with ROk t' => t' | _ => t end) l empty_txn).

(* GET /a/{x}/b, /{y}/{z}/c, /f/*{w}/g, /a/{x}/c/ *)
Definition ex_path_roots : roots := Eval vm_compute in
  ins_all [mk_ri "/a/{x}/b" 1 0 1; mk_ri "/{y}/{z}/c" 2 0 2; mk_ri "/f/*{w}/g" 1 0 3; mk_ri "/a/{x}/c/" 1 0 4].
(* ... plus {sub}.ex.com/u/{id}, {sub}.ex.com/u/{id}/x, a.{t}.com/u/{id} *)
Definition ex_host_roots : roots := Eval vm_compute in
  ins_all [mk_ri "/a/{x}/b" 1 0 1; mk_ri "/{y}/{z}/c" 2 0 2; mk_ri "{sub}.ex.com/u/{id}" 2 12 5;
           mk_ri "{sub}.ex.com/u/{id}/x" 2 12 6; mk_ri "a.{t}.com/u/{id}" 2 9 7].
Definition ex_fuel : nat := 150.

Definition ex_path_node : node :=
  match ex_path_roots with Node _ _ (c :: _) :: _ => c | _ => Node [] None [] end.
Definition ex_host_node : node :=
  match ex_host_roots with r :: _ => r | _ => Node [] None [] end.

(* /a/foo/c : static a, x=foo, then b / "c/" fail (tsr candidate recorded), backtrack to {y}=a {z}=foo *)
Example lbp_lazy_irrelevant_ex :
  let s := init_st ex_path_node [] [] in
  lazy_rel s s /\ Inv PWalk s /\
  exists n kv1 kv2,
    lbp ex_fuel (S2B "/a/foo/c") false PWalk s = Found (Some n) false [kv1; kv2] [(S2B "x", S2B "foo")] /\
    lbp ex_fuel (S2B "/a/foo/c") true PWalk s = Found (Some n) false [] [].
Proof.
  cbv zeta. split; [unfold lazy_rel; cbn; repeat split; reflexivity|]. split; [apply Inv_init|].
  do 3 eexists; split; vm_compute; reflexivity.
Qed.

(* infix catch-all through the sub-lookup: w = p/q *)
Example lbp_lazy_irrelevant_catchall_ex :
  exists n,
    lookup_by_path ex_fuel ex_path_node (S2B "/f/p/q/g") false [] [] = Found (Some n) false [(S2B "w", S2B "p/q")] [] /\
    lookup_by_path ex_fuel ex_path_node (S2B "/f/p/q/g") true [] [] = Found (Some n) false [] [].
Proof. eexists; split; vm_compute; reflexivity. Qed.

(* trailing-slash recommendation: "/a/v/b/" -> tsr of /a/{x}/b; tsrParams are recorded only when
   not lazy (params holds the residue of the failed second attempt {y}/{z}) *)
Example lbp_lazy_irrelevant_tsr_ex :
  exists n,
    lookup_by_path ex_fuel ex_path_node (S2B "/a/v/b/") false [] [] =
      Found (Some n) true [(S2B "y", S2B "a"); (S2B "z", S2B "v")] [(S2B "x", S2B "v")] /\
    lookup_by_path ex_fuel ex_path_node (S2B "/a/v/b/") true [] [] = Found (Some n) true [] [].
Proof. eexists; split; vm_compute; reflexivity. Qed.

(* host a.ex.com: static a -> a.{t}.com (t = ex), path /u/42/x fails there, backtrack (params
   truncated to the saved count) to {sub} = a -> ex.com/u/{id}/x *)
Example lbd_lazy_irrelevant_ex :
  exists n,
    lookup_by_domain ex_fuel ex_host_node (S2B "a.ex.com") (S2B "/u/42/x") false [] [] =
      Found (Some n) false [(S2B "sub", S2B "a"); (S2B "id", S2B "42")] [] /\
    lookup_by_domain ex_fuel ex_host_node (S2B "a.ex.com") (S2B "/u/42/x") true [] [] = Found (Some n) false [] [].
Proof. eexists; split; vm_compute; reflexivity. Qed.

Example roots_lookup_lazy_irrelevant_ex :
  exists n,
    roots_lookup ex_fuel ex_host_roots m_get (S2B "a.ex.com") (S2B "/u/42/x") false [] [] =
      Found (Some n) false [(S2B "sub", S2B "a"); (S2B "id", S2B "42")] [] /\
    roots_lookup ex_fuel ex_host_roots m_get (S2B "a.ex.com") (S2B "/u/42/x") true [] [] = Found (Some n) false [] [] /\
    (* fallback to the path-only tree *)
    exists n',
    roots_lookup ex_fuel ex_host_roots m_get (S2B "a.ex.com") (S2B "/a/42/b") false [] [] =
      Found (Some n') false [(S2B "x", S2B "42")] [] /\
    roots_lookup ex_fuel ex_host_roots m_get (S2B "a.ex.com") (S2B "/a/42/b") true [] [] = Found (Some n') false [] [].
Proof. eexists; split; [|split; [|eexists; split]]; vm_compute; reflexivity. Qed.

Example fuel_mono_ex :
  roots_lookup 60 ex_host_roots m_get (S2B "a.ex.com") (S2B "/u/42/x") false [] [] <> LOutOfFuel /\
  roots_lookup 30 ex_host_roots m_get (S2B "a.ex.com") (S2B "/u/42/x") false [] [] = LOutOfFuel /\
  lbp 60 (S2B "/a/foo/c") false PWalk (init_st ex_path_node [] []) <> LOutOfFuel /\
  lbd 60 (S2B "a.ex.com") (S2B "/u/42/x") false DWalk (init_st ex_host_node [] []) <> LOutOfFuel.
Proof.
  split; [vm_compute; discriminate|]. split; [vm_compute; reflexivity|].
  split; vm_compute; discriminate.
Qed.

Definition ex_strip (h : bytes) : bytes := h.                 (* hosts without port in the examples *)
Definition ex_split (p : bytes) : bytes * bytes :=              (* SplitHostPath on the example pattern *)
  match index_byte p "/" with Some i => (firstn i p, skipn i p) | None => (p, ["/"]) end.

Example entry_points_agree_ex :
  exists n,
    Router_Lookup ex_fuel ex_strip ex_host_roots m_get (S2B "a.ex.com") (S2B "/u/42/x") [] = EP (Some (n, false)) /\
    Router_Reverse ex_fuel ex_strip ex_host_roots m_get (S2B "a.ex.com") (S2B "/u/42/x") [] = EP (Some (n, false)) /\
    ServeHTTP_direct ex_fuel ex_strip ex_host_roots m_get (S2B "a.ex.com") (S2B "/u/42/x") [] = EP (Some (n, false)) /\
    Iter_Reverse1 ex_fuel ex_strip (fun _ => false) ex_host_roots m_get (S2B "a.ex.com") (S2B "/u/42/x") [] = EP (Some (n, false)) /\
    nroute n = Some {| rpat := S2B "{sub}.ex.com/u/{id}/x"; rid := 6 |} /\
    exists n',
    Router_Route ex_fuel ex_strip ex_split ex_host_roots m_get (S2B "{sub}.ex.com/u/{id}/x") [] = EP (Some (n', false)) /\
    nroute n' = nroute n.
Proof.
  eexists. split; [vm_compute; reflexivity|]. split; [vm_compute; reflexivity|].
  split; [vm_compute; reflexivity|]. split; [vm_compute; reflexivity|]. split; [vm_compute; reflexivity|].
  eexists; split; vm_compute; reflexivity.
Qed.

(* regression witness of the fixed defect: with GET / registered, Reverse(GET, "", "") is a direct match
   on the router AND on a transaction (before f49b881 the transaction answered a trailing-slash match) *)
Definition ex_slash_roots : roots := Eval vm_compute in ins_all [mk_ri "/" 0 0 1].
Theorem Txn_Reverse_empty_path_agrees :
  exists r m h n,
    Router_Reverse ex_fuel ex_strip r m h [] [] = EP (Some (n, false)) /\
    Txn_Reverse ex_fuel ex_strip r m h [] [] = EP (Some (n, false)).
Proof. exists ex_slash_roots, m_get, [], (Node ["/"] (Some {| rpat := ["/"]; rid := 1 |}) []). split; vm_compute; reflexivity. Qed.
