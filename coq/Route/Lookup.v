(* M1 — transliteration of lookupByPath, lookupByDomain and roots.lookup
   (node.go:85-600) as a state machine on fuel.  The goto/label structure
   (Walk, inner key loop, child selection, the code after the loop, Backtrack,
   the infix catch-all `for {}` loop) is kept as explicit phases; variables
   keep the Go names (cm = charsMatched, cmn = charsMatchedInNodeFound,
   pcnt = paramCnt, pkc = paramKeyCnt, sks = *c.skipNds, ps = *c.params,
   tps = *c.tsrParams, tn/tsr = the named results n, tsr).
   Index expressions out of range and nil dereferences are LPanic. *)
From FoxBase Require Import Bytes.
From FoxRoute Require Import Node.
Open Scope char_scope.

Definition kv := (bytes * bytes)%type.

Record skipped := { sk_n : node; sk_path : nat; sk_pcnt : nat; sk_child : nat }.

Inductive lres :=
| Found (n : option node) (tsr : bool) (params tsrparams : list kv)
| LPanic
| LOutOfFuel.

Record st := { cur : node; par : option node; cm : nat; cmn : nat; pcnt : nat; pkc : nat;
               sks : list skipped; ps : list kv; tsr : bool; tn : option node; tps : list kv }.

Definition slice (s : bytes) (a b : nat) : bytes := firstn (b - a) (skipn a s).

Inductive phase :=
| PWalk                              (* top of `Walk: for charsMatched < len(path)` *)
| PInner (i : nat)                   (* `for i := 0; charsMatched < len(path); i++` *)
| PSelect                            (* `if charsMatched < len(path) { ...children... }` *)
| PAfter                             (* code after the Walk loop *)
| PBack                              (* Backtrack: *)
| PCatch (ino : node) (start : nat). (* infix catch-all `for {}` loop *)

Definition set_tsr (lazy : bool) (s : st) (n : node) (tp : list kv) : st :=
  {| cur := cur s; par := par s; cm := cm s; cmn := cmn s; pcnt := pcnt s; pkc := pkc s; sks := sks s;
     ps := ps s; tsr := true; tn := Some n; tps := if lazy then tps s else tp |}.

Definition push (s : st) (idx : nat) : st :=
  {| cur := cur s; par := par s; cm := cm s; cmn := cmn s; pcnt := pcnt s; pkc := pkc s;
     sks := {| sk_n := cur s; sk_path := cm s; sk_pcnt := pcnt s; sk_child := idx |} :: sks s;
     ps := ps s; tsr := tsr s; tn := tn s; tps := tps s |}.

Definition descend (s : st) (child : node) : st :=
  {| cur := child; par := Some (cur s); cm := cm s; cmn := cmn s; pcnt := pcnt s; pkc := 0; sks := sks s;
     ps := ps s; tsr := tsr s; tn := tn s; tps := tps s |}.

Definition init_st (target : node) (ps0 tps0 : list kv) : st :=
  {| cur := target; par := None; cm := 0; cmn := 0; pcnt := 0; pkc := 0; sks := [];
     ps := ps0; tsr := false; tn := None; tps := tps0 |}.

Definition par_is_leaf (s : st) : bool := match par s with Some p => is_leaf p | None => false end.

Fixpoint lbp (fuel : nat) (path : bytes) (lazy : bool) (ph : phase) (s : st) {struct fuel} : lres :=
  match fuel with O => LOutOfFuel | S f =>
  let n := List.length path in
  let key := nkey (cur s) in
  match ph with
  | PWalk =>
      if Nat.ltb (cm s) n
      then lbp f path lazy (PInner 0)
             {| cur := cur s; par := par s; cm := cm s; cmn := 0; pcnt := pcnt s; pkc := pkc s; sks := sks s;
                ps := ps s; tsr := tsr s; tn := tn s; tps := tps s |}
      else lbp f path lazy PAfter s
  | PInner i =>
      if negb (Nat.ltb (cm s) n) then lbp f path lazy PSelect s
      else if negb (Nat.ltb i (List.length key)) then lbp f path lazy PSelect s
      else
      match nth_error key i, nth_error path (cm s) with
      | Some k, Some p =>
        if negb (Ascii.eqb k p) || Ascii.eqb p "{" || Ascii.eqb p "*" then
          if Ascii.eqb k "{" then
            (* named parameter: up to the next '/' or the end *)
            match index_byte (skipn (cm s) path) "/" with
            | Some O => lbp f path lazy PAfter s                         (* empty segment: break Walk *)
            | idx =>
              let cm' := match idx with Some d => cm s + d | None => n end in
              match nth_error (nparams (cur s)) (pkc s) with
              | None => LPanic
              | Some prm =>
                let rest := List.length key - cmn s in
                let adv := match pend prm with
                           | Some e => if Nat.leb (cmn s) e then e - cmn s else rest
                           | None => rest end in
                lbp f path lazy (PInner (i + adv))
                  {| cur := cur s; par := par s; cm := cm'; cmn := cmn s + adv;
                     pcnt := if lazy then pcnt s else S (pcnt s); pkc := S (pkc s); sks := sks s;
                     ps := if lazy then ps s else ps s ++ [(pkey prm, slice path (cm s) cm')];
                     tsr := tsr s; tn := tn s; tps := tps s |}
              end
            end
          else if Ascii.eqb k "*" then
            match nth_error (nparams (cur s)) (pkc s) with
            | None => LPanic
            | Some prm =>
              let rest := List.length key - cmn s in
              let go (ino : node) (d : nat) :=
                lbp f path lazy (PCatch ino (cm s))
                  {| cur := cur s; par := par s; cm := cm s; cmn := cmn s + d; pcnt := pcnt s; pkc := pkc s;
                     sks := sks s; ps := ps s; tsr := tsr s; tn := tn s; tps := tps s |} in
              match (match pend prm with Some e => if Nat.leb (cmn s) e then Some (e - cmn s) else None | None => None end) with
              | Some d => match inode (cur s) with Some ino => go ino d | None => LPanic end
              | None =>
                match nchildren (cur s) with
                | c0 :: _ => go c0 rest
                | [] => Found (Some (cur s)) false
                          (if lazy then ps s else ps s ++ [(pkey prm, skipn (cm s) path)]) (tps s)
                end
              end
            end
          else lbp f path lazy PAfter s                                   (* break Walk *)
        else
          lbp f path lazy (PInner (S i))
            {| cur := cur s; par := par s; cm := S (cm s); cmn := S (cmn s); pcnt := pcnt s; pkc := pkc s;
               sks := sks s; ps := ps s; tsr := tsr s; tn := tn s; tps := tps s |}
      | _, _ => LPanic
      end
  | PCatch ino start =>
      match nth_error (nparams (cur s)) (pkc s) with
      | None => LPanic
      | Some prm =>
        match index_byte (skipn (cm s) path) "/" with
        | Some (S d) =>
          let cm' := cm s + S d in
          let next (s1 : st) :=
            lbp f path lazy (PCatch ino start)
              {| cur := cur s1; par := par s1; cm := S cm'; cmn := cmn s1; pcnt := pcnt s1; pkc := pkc s1;
                 sks := sks s1; ps := ps s1; tsr := tsr s1; tn := tn s1; tps := tps s1 |} in
          match lbp f (skipn cm' path) false PWalk (init_st ino [] []) with
          | Found None _ _ _ => next s
          | Found (Some sn) true _ stps =>
              next (if tsr s then s
                    else set_tsr lazy s sn (ps s ++ [(pkey prm, slice path start cm')] ++ stps))
          | Found (Some sn) false sps _ =>
              Found (Some sn) false
                (if lazy then ps s else ps s ++ [(pkey prm, slice path start cm')] ++ sps) (tps s)
          | LPanic => LPanic
          | LOutOfFuel => LOutOfFuel
          end
        | _ =>
          let ps' := if lazy then ps s else ps s ++ [(pkey prm, skipn start path)] in
          match pend prm with
          | None => Found (Some (cur s)) false ps' (tps s)
          | Some _ =>
            match nth_error path start with
            | None => LPanic
            | Some c0 =>
            if Ascii.eqb c0 "/" then lbp f path lazy PAfter s       (* infix value starting with '/': break Walk *)
            else
            lbp f path lazy PAfter
              {| cur := cur s; par := par s; cm := n; cmn := cmn s; pcnt := pcnt s; pkc := pkc s; sks := sks s;
                 ps := ps'; tsr := tsr s; tn := tn s; tps := tps s |}
            end
          end
        end
      end
  | PSelect =>
      if Nat.ltb (cm s) n then
        match nth_error path (cm s) with
        | None => LPanic
        | Some p =>
          match find_child (cur s) p with
          | None =>
            let s := if negb (tsr s) && is_leaf (cur s) && Nat.eqb (cmn s) (List.length key)
                        && Nat.eqb (n - cm s) 1 && Ascii.eqb p "/"
                     then set_tsr lazy s (cur s) (ps s) else s in
            match param_child_index (cur s) with
            | Some pi =>
              let s1 := match wildcard_child_index (cur s) with Some wi => push s wi | None => s end in
              match nth_error (nchildren (cur s)) pi with
              | Some c => lbp f path lazy PWalk (descend s1 c)
              | None => LPanic end
            | None =>
              match wildcard_child_index (cur s) with
              | Some wi =>
                match nth_error (nchildren (cur s)) wi with
                | Some c => lbp f path lazy PWalk (descend s c)
                | None => LPanic end
              | None => lbp f path lazy PAfter s                           (* break *)
              end
            end
          | Some idx =>
            let s1 := match wildcard_child_index (cur s) with Some wi => push s wi | None => s end in
            let s2 := match param_child_index (cur s) with Some pi => push s1 pi | None => s1 end in
            match nth_error (nchildren (cur s)) idx with
            | Some c => lbp f path lazy PWalk (descend s2 c)
            | None => LPanic end
          end
        end
      else lbp f path lazy PWalk s
  | PAfter =>
      (* paramCnt = 0; paramKeyCnt = 0 *)
      let s := {| cur := cur s; par := par s; cm := cm s; cmn := cmn s; pcnt := 0; pkc := 0; sks := sks s;
                  ps := ps s; tsr := tsr s; tn := tn s; tps := tps s |} in
      if negb (is_leaf (cur s)) then
        let s1 :=
          if negb (tsr s) && has_suffix_slash path && par_is_leaf s && Nat.eqb (cm s) n
             && Nat.eqb (cmn s) 1 && starts_with "/" key
          then match par s with Some p => set_tsr lazy s p (ps s) | None => s end
          else if negb (tsr s) && Nat.eqb (cm s) n && Nat.eqb (cmn s) (List.length key) && negb (has_suffix_slash path)
          then match find_child (cur s) "/" with
               | Some idx =>
                 match nth_error (nchildren (cur s)) idx with
                 | Some c => if is_leaf c && Nat.eqb (List.length (nkey c)) 1 then set_tsr lazy s c (ps s) else s
                 | None => s
                 end
               | None => s
               end
          else s in
        lbp f path lazy PBack s1
      else if Nat.eqb (cm s) n && Nat.eqb (cmn s) (List.length key) then
        Found (Some (cur s)) false (ps s) (tps s)
      else if Nat.eqb (cm s) n && Nat.ltb (cmn s) (List.length key) then
        let s1 :=
          if tsr s then s
          else if has_suffix_slash path then
            if par_is_leaf s && bytes_eqb (firstn (cmn s) key) ["/"]
            then match par s with Some p => set_tsr lazy s p (ps s) | None => s end
            else s
          else
            if bytes_eqb (skipn (cmn s) key) ["/"] then set_tsr lazy s (cur s) (ps s) else s in
        lbp f path lazy PBack s1
      else if Nat.ltb (cm s) n && Nat.eqb (cmn s) (List.length key) then
        let s1 :=
          if negb (tsr s) && bytes_eqb (skipn (cm s) path) ["/"] then set_tsr lazy s (cur s) (ps s) else s in
        lbp f path lazy PBack s1
      else lbp f path lazy PBack s
  | PBack =>
      match sks s with
      | sk :: rest =>
        match nth_error (nchildren (sk_n sk)) (sk_child sk) with
        | None => LPanic
        | Some c =>
          if Nat.ltb (List.length (ps s)) (sk_pcnt sk) then LPanic   (* [:k] beyond len: stale resurrection *)
          else
          lbp f path lazy PWalk
            {| cur := c; par := Some (sk_n sk); cm := sk_path sk; cmn := cmn s; pcnt := sk_pcnt sk; pkc := pkc s;
               sks := rest; ps := firstn (sk_pcnt sk) (ps s); tsr := tsr s; tn := tn s; tps := tps s |}
        end
      | [] => Found (tn s) (tsr s) (ps s) (tps s)
      end
  end end.

Definition lookup_by_path (fuel : nat) (target : node) (path : bytes) (lazy : bool) (ps0 tps0 : list kv) : lres :=
  lbp fuel path lazy PWalk (init_st target ps0 tps0).

(* ---------- lookupByDomain (node.go:119-299) ---------- *)
Inductive dphase := DWalk | DInner (i : nat) | DSelect | DAfter | DBack.

Definition dpush (s : st) (n : node) (idx : nat) : st :=
  {| cur := cur s; par := par s; cm := cm s; cmn := cmn s; pcnt := pcnt s; pkc := pkc s;
     sks := {| sk_n := n; sk_path := cm s; sk_pcnt := pcnt s; sk_child := idx |} :: sks s;
     ps := ps s; tsr := tsr s; tn := tn s; tps := tps s |}.

Definition dgo (s : st) (child : node) : st :=
  {| cur := child; par := None; cm := cm s; cmn := cmn s; pcnt := pcnt s; pkc := 0; sks := sks s;
     ps := ps s; tsr := tsr s; tn := tn s; tps := tps s |}.

Fixpoint lbd (fuel : nat) (host path : bytes) (lazy : bool) (ph : dphase) (s : st) {struct fuel} : lres :=
  match fuel with O => LOutOfFuel | S f =>
  let n := List.length host in
  let key := nkey (cur s) in
  match ph with
  | DWalk =>
      if Nat.ltb (cm s) n
      then lbd f host path lazy (DInner 0)
             {| cur := cur s; par := par s; cm := cm s; cmn := 0; pcnt := pcnt s; pkc := pkc s; sks := sks s;
                ps := ps s; tsr := tsr s; tn := tn s; tps := tps s |}
      else lbd f host path lazy DAfter s
  | DInner i =>
      if negb (Nat.ltb (cm s) n) then lbd f host path lazy DSelect s
      else if negb (Nat.ltb i (List.length key)) then lbd f host path lazy DSelect s
      else
      match nth_error key i, nth_error host (cm s) with
      | Some k, Some p =>
        if negb (Ascii.eqb k p) || Ascii.eqb p "{" then
          if Ascii.eqb k "{" then
            match index_byte (skipn (cm s) host) "." with
            | Some O => lbd f host path lazy DAfter s
            | idx =>
              let cm' := match idx with Some d => cm s + d | None => n end in
              match nth_error (nparams (cur s)) (pkc s) with
              | None => LPanic
              | Some prm =>
                let rest := List.length key - cmn s in
                let adv := match pend prm with
                           | Some e => if Nat.leb (cmn s) e then e - cmn s else rest
                           | None => rest end in
                lbd f host path lazy (DInner (i + adv))
                  {| cur := cur s; par := par s; cm := cm'; cmn := cmn s + adv;
                     pcnt := if lazy then pcnt s else S (pcnt s); pkc := S (pkc s); sks := sks s;
                     ps := if lazy then ps s else ps s ++ [(pkey prm, slice host (cm s) cm')];
                     tsr := tsr s; tn := tn s; tps := tps s |}
              end
            end
          else lbd f host path lazy DAfter s
        else
          lbd f host path lazy (DInner (S i))
            {| cur := cur s; par := par s; cm := S (cm s); cmn := S (cmn s); pcnt := pcnt s; pkc := pkc s;
               sks := sks s; ps := ps s; tsr := tsr s; tn := tn s; tps := tps s |}
      | _, _ => LPanic
      end
  | DSelect =>
      if Nat.ltb (cm s) n then
        match nth_error host (cm s) with
        | None => LPanic
        | Some p =>
          match find_child (cur s) p with
          | None =>
            match param_child_index (cur s) with
            | Some pi =>
              match nth_error (nchildren (cur s)) pi with
              | Some c => lbd f host path lazy DWalk (dgo s c)
              | None => LPanic end
            | None => lbd f host path lazy DAfter s
            end
          | Some idx =>
            let s1 := match param_child_index (cur s) with Some pi => dpush s (cur s) pi | None => s end in
            match nth_error (nchildren (cur s)) idx with
            | Some c => lbd f host path lazy DWalk (dgo s1 c)
            | None => LPanic end
          end
        end
      else lbd f host path lazy DWalk s
  | DAfter =>
      let s := {| cur := cur s; par := par s; cm := cm s; cmn := cmn s; pcnt := 0; pkc := 0; sks := sks s;
                  ps := ps s; tsr := tsr s; tn := tn s; tps := tps s |} in
      if Nat.eqb (cm s) n && Nat.eqb (cmn s) (List.length key) then
        match find_child (cur s) "/" with
        | None => lbd f host path lazy DBack s
        | Some idx =>
          match nth_error (nchildren (cur s)) idx with
          | None => LPanic
          | Some c =>
            match lookup_by_path f c path lazy [] [] with
            | Found None _ _ _ => lbd f host path lazy DBack s
            | Found (Some sn) true _ stps =>
                lbd f host path lazy DBack (if tsr s then s else set_tsr lazy s sn (ps s ++ stps))
            | Found (Some sn) false sps _ =>
                Found (Some sn) false (if lazy then ps s else ps s ++ sps) (tps s)
            | LPanic => LPanic
            | LOutOfFuel => LOutOfFuel
            end
          end
        end
      else lbd f host path lazy DBack s
  | DBack =>
      match sks s with
      | sk :: rest =>
        match nth_error (nchildren (sk_n sk)) (sk_child sk) with
        | None => LPanic
        | Some c =>
          if Nat.ltb (List.length (ps s)) (sk_pcnt sk) then LPanic
          else
          lbd f host path lazy DWalk
            {| cur := c; par := None; cm := sk_path sk; cmn := cmn s; pcnt := sk_pcnt sk; pkc := pkc s;
               sks := rest; ps := firstn (sk_pcnt sk) (ps s); tsr := tsr s; tn := tn s; tps := tps s |}
        end
      | [] => Found (tn s) (tsr s) (ps s) (tps s)
      end
  end end.

Definition lookup_by_domain (fuel : nat) (target : node) (host path : bytes) (lazy : bool) (ps0 tps0 : list kv) : lres :=
  match host with
  | [] => LPanic                                            (* host[0] *)
  | h0 :: _ =>
    let s0 := init_st target ps0 tps0 in
    match find_child target h0 with
    | None =>
      match param_child_index target with
      | Some pi => match nth_error (nchildren target) pi with
                   | Some c => lbd fuel host path lazy DWalk (dgo s0 c)
                   | None => LPanic end
      | None => Found None false ps0 tps0
      end
    | Some idx =>
      let s1 := match param_child_index target with Some pi => dpush s0 target pi | None => s0 end in
      match nth_error (nchildren target) idx with
      | Some c => lbd fuel host path lazy DWalk (dgo s1 c)
      | None => LPanic end
    end
  end.

(* ---------- roots.methodIndex / roots.lookup (node.go:18-37, 85-116) ---------- *)
(* host is the already stripped host (netutil.StripHostPort, modelled in HostPort.v) *)
Definition roots_lookup (fuel : nat) (r : roots) (method host path : bytes) (lazy : bool) (ps0 tps0 : list kv) : lres :=
  match method_index r method with
  | None => Found None false ps0 tps0
  | Some index =>
    match nth_error r index with
    | None => LPanic
    | Some root =>
      match nchildren root with
      | [] => Found None false ps0 tps0
      | c0 :: rest =>
        if match rest with [] => starts_with "/" (nkey c0) | _ => false end
        then lookup_by_path fuel c0 path lazy ps0 tps0
        else
          let fallback (tps1 : list kv) :=
            match find_child root "/" with
            | None => Found None false [] tps1     (* note: params already possibly modified; see below *)
            | Some idx =>
              match nth_error (nchildren root) idx with
              | Some c => lookup_by_path fuel c path lazy [] tps1
              | None => LPanic end
            end in
          match host with
          | [] => match find_child root "/" with
                  | None => Found None false ps0 tps0
                  | Some _ => fallback tps0 end
          | _ =>
            match lookup_by_domain fuel root host path lazy ps0 tps0 with
            | Found (Some n) t p tp => Found (Some n) t p tp
            | Found None _ p tp =>
                match find_child root "/" with
                | None => Found None false p tp
                | Some _ => fallback tp end
            | LPanic => LPanic
            | LOutOfFuel => LOutOfFuel
            end
          end
      end
    end
  end.

Definition big_fuel : nat := N.to_nat 400000%N.
