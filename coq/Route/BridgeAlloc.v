(* C16, tie A (docs/GenC16.md): the hand-written capacity model (Alloc.txn_caps, the counter updates of Tree.insert /
   update / remove / truncate, the growth predicates) is equal to the definitions allocgen regenerates from tree.go and
   context.go on every run (GenAlloc.v).

   What stays hand-written (tie B, harness c16 / c02): which of the four result types an insertion meets and the values
   result.depth / result.charsMatched at that point.  [ins_site] below reads them off Tree.ins (same descent, same case
   analysis); the generated gen_tXn_insert then says what the counters become at such a site. *)
From FoxBase Require Import Bytes.
From FoxRoute Require Import Node Lookup Tree Alloc AllocSem GenAlloc.
Require Import Lia ZArith.

(* ---------- allocateContext / commit / txn / clone ---------- *)
Definition gen_caps (t : txn) : hw := bufs_caps (snd (gen_tXn_commit (txn_cnt t))).

Lemma allocateContext_caps_eq : forall c, bufs_caps (gen_iTree_allocateContext c) = caps_of (c_maxparams c) (c_depth c).
Proof. intros [sz mp d]. reflexivity. Qed.

Lemma allocateContext_empty : forall c,
  s_len (b_params (gen_iTree_allocateContext c)) = 0 /\ s_len (b_tsrParams (gen_iTree_allocateContext c)) = 0 /\
  s_len (b_skipNds (gen_iTree_allocateContext c)) = 0.
Proof. intros [sz mp d]. repeat split. Qed.

Lemma commit_counters_eq : forall c, fst (gen_tXn_commit c) = c.
Proof. intros [sz mp d]. reflexivity. Qed.

Lemma commit_pool_eq : forall c, snd (gen_tXn_commit c) = gen_iTree_allocateContext (fst (gen_tXn_commit c)).
Proof. intros [sz mp d]. reflexivity. Qed.

Lemma txn_counters_eq : forall c, gen_iTree_txn c = c.
Proof. intros [sz mp d]. reflexivity. Qed.

Lemma clone_counters_eq : forall c, gen_tXn_clone c = c.
Proof. intros [sz mp d]. reflexivity. Qed.

(* fox.newTree: the first tree has all counters zero (Tree.empty_txn) and a pool built from its own counters *)
Lemma newTree_eq : forall c,
  fst (gen_Router_newTree c) = txn_cnt empty_txn /\
  snd (gen_Router_newTree c) = gen_iTree_allocateContext (fst (gen_Router_newTree c)) /\
  bufs_caps (snd (gen_Router_newTree c)) = txn_caps empty_txn.
Proof. intros c. repeat split. Qed.

(* the capacities of every pooled context of a committed tree = Alloc.txn_caps *)
Lemma gen_caps_eq_l : forall t, txn_caps t = gen_caps t.
Proof.
  intros t. unfold gen_caps. rewrite commit_pool_eq, commit_counters_eq, allocateContext_caps_eq.
  destruct t; reflexivity.
Qed.

(* ---------- updateMaxParams / updateMaxDepth ---------- *)
(* every comparison of the generated term is split; what remains is linear arithmetic with max / min *)
Ltac cmp_cases :=
  cbn [c_size c_maxparams c_depth];
  repeat (match goal with
          | |- context[Nat.ltb ?a ?b] => destruct (Nat.ltb_spec a b)
          | |- context[Nat.leb ?a ?b] => destruct (Nat.leb_spec a b)
          | |- context[Nat.eqb ?a ?b] => destruct (Nat.eqb_spec a b)
          end; cbn [c_size c_maxparams c_depth negb andb orb]);
  f_equal; lia.
Lemma updateMaxParams_eq : forall n c,
  gen_tXn_updateMaxParams n c = set_maxparams (Nat.max (c_maxparams c) n) c.
Proof.
  intros n [sz mp d]. unfold gen_tXn_updateMaxParams, set_maxparams, set_depth; cmp_cases.
Qed.

Lemma updateMaxDepth_eq : forall n c,
  gen_tXn_updateMaxDepth n c = set_depth (Nat.max (c_depth c) n) c.
Proof.
  intros n [sz mp d]. unfold gen_tXn_updateMaxDepth, set_maxparams, set_depth; cmp_cases.
Qed.

(* ---------- insert ---------- *)
(* where Tree.ins stops: result type, result.charsMatched, result.depth (copyOnWriteSearch + classify, tree.go:99-171, 740-759) *)
Fixpoint ins_site (fuel : nat) (n : node) (cm depth : nat) (rest : bytes) : option (rtype * nat * nat) :=
  match fuel with O => None | S f =>
  match rest with
  | [] => None
  | c0 :: _ =>
    match find_child n c0 with
    | None => Some (incompleteMatchToEndOfEdge, cm, depth)
    | Some i =>
      match nth_error (nchildren n) i with
      | None => None
      | Some c =>
        let lcp := List.length (common_prefix rest (nkey c)) in
        if Nat.eqb lcp (List.length (nkey c)) then
          if Nat.eqb lcp (List.length rest) then Some (exactMatch, cm + lcp, S depth)
          else ins_site f c (cm + lcp) (S depth) (skipn lcp rest)
        else if Nat.eqb lcp (List.length rest) then Some (keyEndMidEdge, cm + lcp, S depth)
        else Some (incompleteMatchToMiddleOfEdge, cm + lcp, S depth)
      end
    end
  end end.

Definition insert_site (t : txn) (method : bytes) (ri : rinfo) : option (rtype * nat * nat) :=
  let '(rs, index) := match method_index (t_roots t) method with
                      | Some i => (t_roots t, i)
                      | None => (t_roots t ++ [empty_root method], List.length (t_roots t))
                      end in
  match nth_error rs index with
  | None => None
  | Some root => ins_site (S (List.length (rpat (ri_route ri)))) root 0 0 (rpat (ri_route ri))
  end.

Definition gen_insert_at (site : rtype * nat * nat) (ri : rinfo) (c : cnt) : cnt :=
  let '(cls, cm, rd) := site in gen_tXn_insert cls (ri_pslen ri) (ri_hostsplit ri) cm rd c.

Definition ins_counters (ri : rinfo) (d : nat) (c : cnt) : cnt :=
  {| c_size := (c_size c + 1)%Z; c_maxparams := Nat.max (c_maxparams c) (ri_pslen ri); c_depth := Nat.max (c_depth c) d |}.

Ltac cnt_norm :=
  unfold gen_insert_at, gen_tXn_insert, ins_counters;
  rewrite ?updateMaxParams_eq, ?updateMaxDepth_eq;
  unfold set_size, set_maxparams, set_depth; cbn [c_size c_maxparams c_depth].

Lemma new_leaf_add : forall ri cm rest,
  snd (new_leaf ri cm rest) = if Nat.ltb 0 (ri_hostsplit ri) && Nat.ltb cm (ri_hostsplit ri) then 2 else 1.
Proof. intros. unfold new_leaf. destruct (Nat.ltb 0 (ri_hostsplit ri) && Nat.ltb cm (ri_hostsplit ri)); reflexivity. Qed.

Lemma site_exact : forall ri cm rd c, gen_insert_at (exactMatch, cm, rd) ri c = ins_counters ri 0 c.
Proof. intros ri cm rd [sz mp d]. cnt_norm. f_equal; lia. Qed.

Lemma site_keyend : forall ri cm rd c, gen_insert_at (keyEndMidEdge, cm, rd) ri c = ins_counters ri (rd + 1) c.
Proof. intros ri cm rd [sz mp d]. cnt_norm. f_equal; lia. Qed.

Lemma site_endofedge : forall ri cm rd rest c,
  gen_insert_at (incompleteMatchToEndOfEdge, cm, rd) ri c = ins_counters ri (rd + snd (new_leaf ri cm rest)) c.
Proof.
  intros ri cm rd rest [sz mp d]. rewrite new_leaf_add. cnt_norm.
  destruct (Nat.ltb 0 (ri_hostsplit ri) && Nat.ltb cm (ri_hostsplit ri)); cnt_norm; f_equal; lia.
Qed.

Lemma site_midedge : forall ri cm rd rest c,
  gen_insert_at (incompleteMatchToMiddleOfEdge, cm, rd) ri c = ins_counters ri (rd + snd (new_leaf ri cm rest)) c.
Proof.
  intros ri cm rd rest [sz mp d]. rewrite new_leaf_add. cnt_norm.
  destruct (Nat.ltb 0 (ri_hostsplit ri) && Nat.ltb cm (ri_hostsplit ri)); cnt_norm; f_equal; lia.
Qed.

Lemma ins_site_counters : forall fuel ri n cm depth rest n' d,
  ins fuel ri n cm depth rest = InsOk n' d ->
  exists site, ins_site fuel n cm depth rest = Some site /\ forall c, gen_insert_at site ri c = ins_counters ri d c.
Proof.
  induction fuel as [|f IH]; intros ri n cm depth rest n' d H; [discriminate|].
  cbn [ins] in H. cbn [ins_site].
  destruct rest as [|c0 rest']; [discriminate|].
  destruct (find_child n c0) as [i|] eqn:Hfc.
  2:{ destruct (new_leaf ri cm (c0 :: rest')) as [child add] eqn:Hnl. inversion H; subst.
      eexists; split; [reflexivity|]. intros c.
      rewrite (site_endofedge ri cm depth (c0 :: rest') c), Hnl. reflexivity. }
  destruct (nth_error (nchildren n) i) as [c|] eqn:Hnth; [|discriminate].
  cbv zeta in H. cbv zeta.
  set (lcp := List.length (common_prefix (c0 :: rest') (nkey c))) in *.
  destruct (Nat.eqb lcp (List.length (nkey c))) eqn:E1.
  - destruct (Nat.eqb lcp (List.length (c0 :: rest'))) eqn:E2.
    + destruct (nroute c); [discriminate|]. inversion H; subst.
      eexists; split; [reflexivity|]. intros c1. apply site_exact.
    + destruct (ins f ri c (cm + lcp) (S depth) (skipn lcp (c0 :: rest'))) as [c' d'|e] eqn:Hrec; [|discriminate].
      inversion H; subst. eapply IH; eauto.
  - destruct (Nat.eqb lcp (List.length (c0 :: rest'))) eqn:E2.
    + inversion H; subst. eexists; split; [reflexivity|]. intros c1.
      rewrite site_keyend. reflexivity.
    + destruct (prefix_conflict _ _); [discriminate|].
      destruct (new_leaf ri (cm + lcp) (skipn lcp (c0 :: rest'))) as [n1 add] eqn:Hnl.
      inversion H; subst. eexists; split; [reflexivity|]. intros c1.
      rewrite (site_midedge ri (cm + lcp) (S depth) (skipn lcp (c0 :: rest')) c1), Hnl. reflexivity.
Qed.

(* Tree.insert updates the counters exactly as the generated slice of tXn.insert does at the site the search stops *)
Lemma gen_insert_counters_eq_l : forall t m ri t',
  insert t m ri = ROk t' ->
  exists site, insert_site t m ri = Some site /\ txn_cnt t' = gen_insert_at site ri (txn_cnt t).
Proof.
  intros t m ri t' H. unfold insert in H. unfold insert_site.
  destruct (match method_index (t_roots t) m with
            | Some i => (t_roots t, i)
            | None => (t_roots t ++ [empty_root m], List.length (t_roots t)) end) as [rs index].
  destruct (nth_error rs index) as [root|]; [|discriminate].
  destruct (ins (S (List.length (rpat (ri_route ri)))) ri root 0 0 (rpat (ri_route ri))) as [root' d|e] eqn:Hins.
  2:{ destruct e; discriminate. }
  inversion H; subst.
  destruct (ins_site_counters _ _ _ _ _ _ _ _ Hins) as [site [Hs Hc]].
  exists site; split; [exact Hs|]. rewrite Hc. reflexivity.
Qed.

(* ---------- update / remove ---------- *)
Lemma gen_update_counters_eq_l : forall t m ri t' cm rd,
  update t m ri = ROk t' -> txn_cnt t' = gen_tXn_update (ri_pslen ri) (ri_hostsplit ri) cm rd (txn_cnt t).
Proof.
  intros t m ri t' cm rd H. unfold update in H.
  destruct (method_index (t_roots t) m); [|discriminate].
  destruct (nth_error (t_roots t) n); [|discriminate].
  destruct (upd _ _ _ _); [|discriminate]. inversion H; subst.
  unfold gen_tXn_update, txn_cnt; cbn. reflexivity.
Qed.

Lemma gen_remove_counters_eq_l : forall t m p t' r,
  remove t m p = DOk t' r -> txn_cnt t' = gen_tXn_remove (txn_cnt t).
Proof.
  intros t m p t' r H. unfold remove in H.
  destruct (method_index (t_roots t) m); [|discriminate].
  destruct (nth_error (t_roots t) n); [|discriminate].
  destruct (rem _ _ _ _); try discriminate.
  - inversion H; subst. reflexivity.
  - destruct (is_nil (nchildren parent) && is_removable m); inversion H; subst; reflexivity.
Qed.

(* ---------- truncate ---------- *)
(* per iteration of the loop of tXn.truncate: (idx < 0, countRoutes(nr[idx])), read off Tree.truncate_methods *)
Fixpoint trunc_its (rs : list node) (methods : list bytes) : list (bool * Z) :=
  match methods with
  | [] => []
  | m :: more =>
    match method_index rs m with
    | None => (true, 0%Z) :: trunc_its rs more
    | Some idx =>
      match nth_error rs idx with
      | None => (true, 0%Z) :: trunc_its rs more
      | Some root =>
        (false, Z.of_nat (List.length (routes_of_node root))) ::
        trunc_its (if negb (is_removable m) then replace_nth rs idx (empty_root (nth idx common_verbs [])) else remove_nth rs idx) more
      end
    end
  end.

Lemma truncate_loop_eq : forall methods rs c,
  gen_tXn_truncate_loop1 (trunc_its rs methods) c = set_size (snd (truncate_methods rs (c_size c) methods)) c.
Proof.
  induction methods as [|m more IH]; intros rs [sz mp d].
  - reflexivity.
  - cbn [trunc_its truncate_methods]. destruct (method_index rs m) as [idx|].
    + destruct (nth_error rs idx) as [root|].
      * cbn [gen_tXn_truncate_loop1]. destruct (negb (is_removable m)); rewrite IH; reflexivity.
      * cbn [gen_tXn_truncate_loop1]. apply IH.
    + cbn [gen_tXn_truncate_loop1]. apply IH.
Qed.

Lemma gen_truncate_counters_eq_l : forall t methods,
  txn_cnt (truncate t methods) = gen_tXn_truncate (List.length methods) (trunc_its (t_roots t) methods) (txn_cnt t).
Proof.
  intros t methods. unfold truncate, gen_tXn_truncate. destruct methods as [|m more].
  - reflexivity.
  - cbn [List.length Nat.eqb]. rewrite truncate_loop_eq.
    destruct (truncate_methods (t_roots t) (t_size t) (m :: more)) as [rs sz] eqn:E.
    unfold txn_cnt in *; cbn [c_size t_size t_maxparams t_depth set_size c_maxparams c_depth] in *. rewrite E. reflexivity.
Qed.

(* ---------- copyWithResize ---------- *)
(* the growth event of copyWithResize is Alloc's growth predicate (cap < length to reach); afterwards the buffer
   holds src, keeps at least its old capacity, and fits len(src) *)
Lemma copyWithResize_eq : forall rt dst src,
  s_len dst <= s_cap dst ->
  exists d', gen_copyWithResize rt dst src = Some (d', Nat.ltb (s_cap dst) (s_len src)) /\
             s_len d' = s_len src /\ s_data d' = s_data src /\
             s_cap d' = (if Nat.ltb (s_cap dst) (s_len src) then Nat.max rt (s_len src) else s_cap dst).
Proof.
  intros rt [dl dc dd] [sl0 sc sd] Hle. cbn [s_len s_cap] in Hle.
  cbv [gen_copyWithResize slices_Grow sl_reslice3 sl_copy s_len s_cap s_data].
  repeat (match goal with
          | |- context[Nat.ltb ?a ?b] => destruct (Nat.ltb_spec a b)
          | |- context[Nat.leb ?a ?b] => destruct (Nat.leb_spec a b)
          end; cbn [andb orb fst snd s_len s_cap s_data]); try (exfalso; lia);
  eexists; (split; [reflexivity|]); cbn [s_len s_cap s_data]; repeat split; try lia.
Qed.

(* ---------- corollaries: C16's theorems over the generated capacities ---------- *)
From FoxRoute Require Import Alloc2.

Lemma gen_params_bounded_l : forall f (t : txn) m host path lazy tps0,
  wroots (t_roots t) <= c_maxparams (fst (gen_tXn_commit (txn_cnt t))) ->
  let h := snd (roots_lookupI f (t_roots t) m host path lazy [] tps0 hw0) in
  grow_ps (gen_caps t) h = false /\ grow_tps (gen_caps t) h = false.
Proof.
  intros f t m host path lazy tps0 H. rewrite commit_counters_eq in H. rewrite <- gen_caps_eq_l.
  apply Alloc2.params_bounded. exact H.
Qed.

Lemma gen_cold_growth_only_skipnds_l : forall (t : txn) m host path stale,
  wroots (t_roots t) <= t_maxparams t ->
  grows (gen_caps t) (serve_marks (t_roots t) m host path stale) =
  grow_sks (gen_caps t) (serve_marks (t_roots t) m host path stale).
Proof. intros. rewrite <- gen_caps_eq_l. apply Alloc2.cold_context_growth_only_skipnds; assumption. Qed.

(* steady state, starting from the capacities allocateContext gives *)
Lemma gen_warm_context_no_growth_l : forall (t : txn) m host path stale1 stale2 caps',
  hw_le (hw_max (gen_caps t) (serve_marks (t_roots t) m host path stale1)) caps' ->
  grows caps' (serve_marks (t_roots t) m host path stale2) = false.
Proof. intros t m host path stale1 stale2 caps' H. eapply Alloc2.warm_context_no_growth. exact H. Qed.

Lemma gen_insert_keeps_wroots_l : forall t m ri t',
  insert t m ri = ROk t' ->
  W (rpat (ri_route ri)) <= ri_pslen ri ->
  wroots (t_roots t) <= t_maxparams t ->
  exists site, insert_site t m ri = Some site /\
               wroots (t_roots t') <= c_maxparams (gen_insert_at site ri (txn_cnt t)).
Proof.
  intros t m ri t' Hi Hw Hb. destruct (gen_insert_counters_eq_l _ _ _ _ Hi) as [site [Hs Hc]].
  exists site; split; [exact Hs|]. rewrite <- Hc. cbn [txn_cnt c_maxparams].
  eapply Alloc2.insert_keeps_wroots; eauto.
Qed.

(* CloneWith on a context of the same tree: the parameters of a routed request fit the fresh buffer *)
Lemma gen_clone_fits_l : forall rt c src,
  s_len src <= c_maxparams c ->
  exists d', gen_copyWithResize rt (b_params (snd (gen_tXn_commit c))) src = Some (d', false) /\
             gen_copyWithResize rt (b_tsrParams (snd (gen_tXn_commit c))) src = Some (d', false) /\
             s_len d' = s_len src /\ s_cap d' = c_maxparams c /\ s_data d' = s_data src.
Proof.
  intros rt [sz mp d] [l cp dt] H. cbn [s_len c_maxparams] in H.
  assert (E : Nat.ltb mp l = false) by (apply Nat.ltb_ge; lia).
  destruct (copyWithResize_eq rt (make_slice 0 mp) {| s_len := l; s_cap := cp; s_data := dt |}) as [d' [H1 [H2 [H3 H4]]]].
  { cbn. lia. }
  cbn [s_len s_cap make_slice] in *. rewrite E in *.
  exists d'. repeat split; try assumption.
Qed.

(* a buffer that copyWithResize has grown once serves every later copy that is not longer, without growth *)
Lemma gen_copyWithResize_warm_l : forall rt rt' dst src d' ev dst2 src2 d2 ev2,
  s_len dst <= s_cap dst ->
  gen_copyWithResize rt dst src = Some (d', ev) ->
  s_cap dst2 = s_cap d' -> s_len dst2 <= s_cap dst2 -> s_len src2 <= s_len src ->
  gen_copyWithResize rt' dst2 src2 = Some (d2, ev2) -> ev2 = false /\ s_cap d2 = s_cap d'.
Proof.
  intros rt rt' dst src d' ev dst2 src2 d2 ev2 Hle H1 Hc Hle2 Hs H2.
  destruct (copyWithResize_eq rt dst src Hle) as [x [E [_ [_ Ec]]]]. rewrite E in H1. inversion H1; subst x ev. clear H1.
  destruct (copyWithResize_eq rt' dst2 src2 Hle2) as [y [E2 [_ [_ Ec2]]]]. rewrite E2 in H2. inversion H2; subst y ev2. clear H2.
  assert (Hfit : s_len src <= s_cap d').
  { rewrite Ec. destruct (Nat.ltb_spec (s_cap dst) (s_len src)); lia. }
  assert (F : Nat.ltb (s_cap dst2) (s_len src2) = false) by (apply Nat.ltb_ge; lia).
  rewrite F in *. split; [reflexivity|]. lia.
Qed.

(* ---------- non-vacuity ---------- *)
Definition ex_cnt : cnt := {| c_size := 7; c_maxparams := 3; c_depth := 5 |}.
Definition ex_ri (p : string) (ps hs : nat) : rinfo := {| ri_route := {| rpat := S2B p; rid := 0%N |}; ri_pslen := ps; ri_hostsplit := hs |}.

Lemma gen_caps_example_l :
  bufs_caps (gen_iTree_allocateContext ex_cnt) = {| h_ps := 3; h_tps := 3; h_sks := 5 |} /\
  gen_tXn_commit ex_cnt = (ex_cnt, gen_iTree_allocateContext ex_cnt) /\
  gen_caps ladder_txn = txn_caps ladder_txn /\ h_sks (gen_caps ladder_txn) = 3.
Proof. repeat split; vm_compute; reflexivity. Qed.

Lemma gen_insert_example_l :
  (exists t1 t2,
    insert empty_txn (S2B "GET") (ex_ri "/a/{x}/*{y}" 2 0) = ROk t1 /\
    insert_site empty_txn (S2B "GET") (ex_ri "/a/{x}/*{y}" 2 0) = Some (incompleteMatchToEndOfEdge, 0, 0) /\
    txn_cnt t1 = {| c_size := 1; c_maxparams := 2; c_depth := 1 |} /\
    insert t1 (S2B "GET") (ex_ri "a.b/c" 0 3) = ROk t2 /\
    insert_site t1 (S2B "GET") (ex_ri "a.b/c" 0 3) = Some (incompleteMatchToEndOfEdge, 0, 0) /\
    txn_cnt t2 = {| c_size := 2; c_maxparams := 2; c_depth := 2 |}) /\
  gen_tXn_insert keyEndMidEdge 4 0 9 2 ex_cnt = {| c_size := 8; c_maxparams := 4; c_depth := 5 |} /\
  gen_tXn_insert incompleteMatchToMiddleOfEdge 1 6 2 4 ex_cnt = {| c_size := 8; c_maxparams := 3; c_depth := 6 |} /\
  gen_tXn_insert exactMatch 1 6 2 40 ex_cnt = {| c_size := 8; c_maxparams := 3; c_depth := 5 |}.
Proof. split; [eexists; eexists|]; repeat split; vm_compute; reflexivity. Qed.

Lemma gen_update_remove_truncate_example_l :
  gen_tXn_update 9 0 1 1 ex_cnt = ex_cnt /\
  gen_tXn_remove ex_cnt = {| c_size := 6; c_maxparams := 3; c_depth := 5 |} /\
  gen_tXn_truncate 0 [] ex_cnt = {| c_size := 0; c_maxparams := 3; c_depth := 5 |} /\
  gen_tXn_truncate 3 [(false, 2%Z); (true, 0%Z); (false, 4%Z)] ex_cnt = {| c_size := 1; c_maxparams := 3; c_depth := 5 |} /\
  txn_cnt (truncate wide_txn [S2B "GET"]) = {| c_size := (t_size wide_txn - 1)%Z; c_maxparams := t_maxparams wide_txn; c_depth := t_depth wide_txn |} /\
  trunc_its (t_roots wide_txn) [S2B "NOPE"; S2B "GET"] = [(true, 0%Z); (false, 1%Z)].
Proof. repeat split; vm_compute; reflexivity. Qed.

Lemma gen_copyWithResize_example_l :
  gen_copyWithResize 8 {| s_len := 1; s_cap := 2; s_data := 11 |} {| s_len := 3; s_cap := 3; s_data := 22 |}
    = Some ({| s_len := 3; s_cap := 8; s_data := 22 |}, true) /\
  gen_copyWithResize 8 {| s_len := 0; s_cap := 3; s_data := 11 |} {| s_len := 3; s_cap := 9; s_data := 22 |}
    = Some ({| s_len := 3; s_cap := 3; s_data := 22 |}, false) /\
  gen_copyWithResize 8 {| s_len := 3; s_cap := 3; s_data := 11 |} {| s_len := 1; s_cap := 9; s_data := 22 |}
    = Some ({| s_len := 1; s_cap := 3; s_data := 22 |}, false).
Proof. repeat split; vm_compute; reflexivity. Qed.
