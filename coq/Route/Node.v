(* Route area — the radix tree as a pure value.
   A Go *node is modelled by its key, its route (nil = None) and its children.
   The derived fields the Go code stores in a node (childKeys, paramChildIndex,
   wildcardChildIndex, params, inode) are functions of these three and are
   computed here on demand exactly as newNode / newNodeFromRef compute them
   (node.go:637-678); the correspondence check compares the values stored in
   the real nodes with these functions on every dumped tree. *)
From FoxBase Require Import Bytes.
Open Scope char_scope.

Record route := { rpat : bytes; rid : N }.

Inductive node := Node (key : bytes) (rt : option route) (children : list node).

Definition nkey (n : node) := match n with Node k _ _ => k end.
Definition nroute (n : node) := match n with Node _ r _ => r end.
Definition nchildren (n : node) := match n with Node _ _ c => c end.
Definition is_leaf (n : node) : bool := match nroute n with Some _ => true | None => false end.

Definition hd_byte (b : bytes) : option ascii := match b with c :: _ => Some c | [] => None end.

(* ---------- parseWildcard (node.go:874-930) ---------- *)
Record param := { pkey : bytes; pend : option nat (* None = -1 *); pcatch : bool }.

Inductive pwstate := PwDefault | PwParam | PwCatch | PwSkip (* the byte after '*' is skipped: i += 2 *).

(* pos = index of the head of s in the segment; start = bytes of the name so far (reversed) *)
Fixpoint parse_wildcard_go (s : bytes) (pos : nat) (st : pwstate) (name : bytes) : list param :=
  match s with
  | [] => []
  | c :: r =>
    match st with
    | PwParam | PwCatch =>
        if Ascii.eqb c "}" then
          {| pkey := rev name; pend := match r with [] => None | _ => Some (S pos) end;
             pcatch := match st with PwCatch => true | _ => false end |}
          :: parse_wildcard_go r (S pos) PwDefault []
        else parse_wildcard_go r (S pos) st (c :: name)
    | PwSkip => parse_wildcard_go r (S pos) PwCatch []
    | PwDefault =>
        if Ascii.eqb c "*" then parse_wildcard_go r (S pos) PwSkip []
        else if Ascii.eqb c "{" then parse_wildcard_go r (S pos) PwParam []
        else parse_wildcard_go r (S pos) PwDefault []
    end
  end.
Definition parse_wildcard (seg : bytes) : list param := parse_wildcard_go seg 0 PwDefault [].

Definition nparams (n : node) : list param := parse_wildcard (nkey n).

(* ---------- derived fields of newNode ---------- *)
Definition child_keys (n : node) : list (option ascii) := map (fun c => hd_byte (nkey c)) (nchildren n).

Definition starts_with (c : ascii) (k : bytes) : bool :=
  match k with x :: _ => Ascii.eqb x c | [] => false end.

(* index of the LAST child whose key starts with c (the loop overwrites) *)
Fixpoint last_index_from (i : nat) (c : ascii) (l : list node) (acc : option nat) : option nat :=
  match l with
  | [] => acc
  | n :: r => last_index_from (S i) c r (if starts_with c (nkey n) then Some i else acc)
  end.
Definition param_child_index (n : node) : option nat := last_index_from 0 "{" (nchildren n) None.
Definition wildcard_child_index (n : node) : option nat := last_index_from 0 "*" (nchildren n) None.

(* inode: this node with the key cut after the first infix catch-all (newNodeFromRef) *)
Fixpoint first_infix_catch (ps : list param) : option nat :=
  match ps with
  | [] => None
  | p :: r => if pcatch p then match pend p with Some e => Some e | None => first_infix_catch r end
              else first_infix_catch r
  end.
Definition inode (n : node) : option node :=
  match first_infix_catch (nparams n) with
  | Some e => Some (Node (skipn e (nkey n)) (nroute n) (nchildren n))
  | None => None
  end.

(* linear search in childKeys (getEdge below the 50-children switch; the binary
   search above it returns the same index on sorted distinct keys) *)
Fixpoint find_child_from (i : nat) (c : ascii) (l : list node) : option nat :=
  match l with
  | [] => None
  | n :: r => if starts_with c (nkey n) then Some i else find_child_from (S i) c r
  end.
Definition find_child (n : node) (c : ascii) : option nat := find_child_from 0 c (nchildren n).
Definition get_edge (n : node) (c : ascii) : option node :=
  match find_child n c with Some i => nth_error (nchildren n) i | None => None end.

(* ---------- byte-string helpers mirroring strings.* ---------- *)
Fixpoint index_byte (s : bytes) (c : ascii) : option nat :=
  match s with
  | [] => None
  | x :: r => if Ascii.eqb x c then Some 0 else option_map S (index_byte r c)
  end.
Definition has_suffix_slash (s : bytes) : bool :=
  match rev s with c :: _ => Ascii.eqb c "/" | [] => false end.

(* lexicographic byte order (cmp.Compare on strings) *)
Fixpoint bytes_ltb (a b : bytes) : bool :=
  match a, b with
  | _, [] => false
  | [], _ :: _ => true
  | x :: a', y :: b' =>
      let nx := nat_of_ascii x in let ny := nat_of_ascii y in
      if Nat.ltb nx ny then true else if Nat.ltb ny nx then false else bytes_ltb a' b'
  end.

(* insertion sort by key: slices.SortFunc(children, by key). Children have
   distinct keys wherever the code sorts, so stability is irrelevant. *)
Fixpoint insert_sorted (n : node) (l : list node) : list node :=
  match l with
  | [] => [n]
  | m :: r => if bytes_ltb (nkey m) (nkey n) then m :: insert_sorted n r else n :: l
  end.
Definition sort_nodes (l : list node) : list node := fold_right insert_sorted [] l.

(* ---------- roots.methodIndex (node.go:18-37) ---------- *)
Definition roots := list node.

Definition m_get := S2B "GET". Definition m_post := S2B "POST".
Definition m_put := S2B "PUT". Definition m_delete := S2B "DELETE".
Definition common_verbs : list bytes := [m_get; m_post; m_put; m_delete].

Fixpoint find_key_from (i : nat) (m : bytes) (l : list node) : option nat :=
  match l with
  | [] => None
  | x :: r => if bytes_eqb (nkey x) m then Some i else find_key_from (S i) m r
  end.

Definition method_index (r : roots) (m : bytes) : option nat :=
  if bytes_eqb m m_get then Some 0
  else if bytes_eqb m m_post then Some 1
  else if bytes_eqb m m_put then Some 2
  else if bytes_eqb m m_delete then Some 3
  else find_key_from 4 m (skipn 4 r).

Definition is_removable (m : bytes) : bool := negb (existsb (bytes_eqb m) common_verbs).
