(* Props_C02_tree — C02 (and the C07 prerequisite): the radix forest refines the map.
   Only statements closed by [exact], each followed by Print Assumptions.
   Definitions: WFDef.v (WF_txn, wf_txnb, valid_rinfo, routes_of_txn),
   TreeMap2.v (Rel, hop_ok, hist_ok), MapSpec.v (the specification). *)
From FoxBase Require Import Bytes.
From FoxRoute Require Import Node Lookup Spec Tree MapSpec CorrHist WFDef TreeWF TreeWF2 TreeMap TreeMap2.
From Coq Require Import Permutation.

(* 1. the invariant is decidable: the checker is the proposition *)
Theorem C02_wf_checker : forall t, wf_txnb t = true <-> WF_txn t.
Proof. exact wf_txnb_spec. Qed.
Print Assumptions C02_wf_checker.

(* 3. preservation by every operation *)
Theorem C02_WF_empty : WF_txn empty_txn.
Proof. exact WF_empty. Qed.
Print Assumptions C02_WF_empty.

Theorem C02_WF_insert : forall t m ri t', WF_txn t -> valid_rinfo ri -> insert t m ri = ROk t' -> WF_txn t'.
Proof. exact WF_insert. Qed.
Print Assumptions C02_WF_insert.

Theorem C02_WF_update : forall t m ri t', WF_txn t -> rpat (ri_route ri) <> [] -> update t m ri = ROk t' -> WF_txn t'.
Proof. exact WF_update. Qed.
Print Assumptions C02_WF_update.

Theorem C02_WF_remove : forall t m p t' r, WF_txn t -> p <> [] -> remove t m p = DOk t' r -> WF_txn t'.
Proof. exact WF_remove. Qed.
Print Assumptions C02_WF_remove.

Theorem C02_WF_truncate : forall t ms, WF_txn t -> WF_txn (truncate t ms).
Proof. exact WF_truncate. Qed.
Print Assumptions C02_WF_truncate.

(* ... hence for every state reachable by ANY history (direct calls and transactions) *)
Theorem C02_WF_reachable : forall ops, Forall hop_ok ops ->
  WF_txn (pub (hrun_state init_hstate ops)) /\
  (forall t, cur (hrun_state init_hstate ops) = Some t -> WF_txn t).
Proof. exact WF_reachable_thm. Qed.
Print Assumptions C02_WF_reachable.

(* 2. each operation refines the map operation: same outcome, same new contents *)
Theorem C02_insert_refines : forall t s m ri, WF_txn t -> Rel t s -> valid_rinfo ri ->
  match insert t m ri, m_handle s true m (rpat (ri_route ri)) (rid (ri_route ri)) with
  | ROk t', (s', MOk) => WF_txn t' /\ Rel t' s'
  | RExist e, (s', MExist) => e = rpat (ri_route ri) /\ s' = s
  | RConflict ps, (s', MConflict cs) => s' = s /\ (forall q, In q ps <-> In q cs)
  | _, _ => False
  end.
Proof. exact insert_refines. Qed.
Print Assumptions C02_insert_refines.

Theorem C02_insert_ok_iff : forall t s m ri, WF_txn t -> Rel t s -> valid_rinfo ri ->
  ((exists t', insert t m ri = ROk t') <->
   snd (m_handle s true m (rpat (ri_route ri)) (rid (ri_route ri))) = MOk).
Proof. exact insert_ok_iff. Qed.
Print Assumptions C02_insert_ok_iff.

Theorem C02_insert_exist_iff : forall t s m ri, WF_txn t -> Rel t s -> valid_rinfo ri ->
  ((exists e, insert t m ri = RExist e) <-> mfind s (m, rpat (ri_route ri)) <> None).
Proof. exact insert_exist_iff. Qed.
Print Assumptions C02_insert_exist_iff.

Theorem C02_insert_conflict_iff : forall t s m ri, WF_txn t -> Rel t s -> valid_rinfo ri ->
  ((exists ps, insert t m ri = RConflict ps) <->
   (mfind s (m, rpat (ri_route ri)) = None /\ conflicts_of s m (rpat (ri_route ri)) <> [])) /\
  (forall ps, insert t m ri = RConflict ps ->
     forall q, In q ps <-> In q (conflicts_of s m (rpat (ri_route ri)))).
Proof. exact insert_conflict_iff. Qed.
Print Assumptions C02_insert_conflict_iff.

Theorem C02_insert_routes : forall t m ri, WF_txn t -> valid_rinfo ri ->
  match insert t m ri with
  | ROk t' => WF_txn t' /\
              Permutation (routes_of_txn t') ((m, rpat (ri_route ri), rid (ri_route ri)) :: routes_of_txn t) /\
              Forall (apart (rpat (ri_route ri))) (mpats t m)
  | RExist e => e = rpat (ri_route ri) /\ In (rpat (ri_route ri)) (mpats t m)
  | RConflict ps => ps <> [] /\ exists others, Permutation (mpats t m) (ps ++ others) /\
                      Forall (clash (rpat (ri_route ri))) ps /\ Forall (apart (rpat (ri_route ri))) others
  | RNotFound => False
  end.
Proof. exact insert_tree_spec. Qed.
Print Assumptions C02_insert_routes.

(* the byte-level relations used above mean what the token-level rule of the specification says *)
Theorem C02_clash_is_conflict : forall p q, clash p q -> patterns_conflict p q = true /\ p <> q.
Proof. exact clash_conflict. Qed.
Print Assumptions C02_clash_is_conflict.

Theorem C02_apart_no_conflict : forall p q, apart p q -> patterns_conflict p q = false /\ p <> q.
Proof. exact apart_no_conflict. Qed.
Print Assumptions C02_apart_no_conflict.

Theorem C02_update_refines : forall t s m ri, WF_txn t -> Rel t s -> rpat (ri_route ri) <> [] ->
  match update t m ri, m_update s true m (rpat (ri_route ri)) (rid (ri_route ri)) with
  | ROk t', (s', MOk) => WF_txn t' /\ Rel t' s'
  | RNotFound, (s', MNotFound) => s' = s
  | _, _ => False
  end.
Proof. exact update_refines. Qed.
Print Assumptions C02_update_refines.

Theorem C02_remove_refines : forall t s m p, WF_txn t -> Rel t s -> p <> [] ->
  match remove t m p, m_delete s true m p with
  | DOk t' r, (s', MOk, Some v) => WF_txn t' /\ Rel t' s' /\ rid r = v /\ rpat r = p
  | DNotFound, (s', MNotFound, None) => s' = s
  | _, _ => False
  end.
Proof. exact remove_refines. Qed.
Print Assumptions C02_remove_refines.

Theorem C02_truncate_refines : forall t s ms, WF_txn t -> Rel t s ->
  WF_txn (truncate t ms) /\ Rel (truncate t ms) (m_truncate s ms).
Proof. exact truncate_refines. Qed.
Print Assumptions C02_truncate_refines.

(* Iter().All() lists exactly the routes of the forest *)
Theorem C02_all_is_routes : forall t, WF_txn t -> all_of t = routes_of_txn t.
Proof. exact all_of_routes. Qed.
Print Assumptions C02_all_is_routes.

(* 4. every history: equal outcomes (conflict lists as sets), equal removed ids, equal visible
   contents (as multisets), Len = cardinality, at every step *)
Theorem C02_step_refines : forall hs ss o, SRel hs ss -> hop_ok o ->
  match hstep hs o, sstep ss o with
  | (hs', out, rm), (ss', mo, rm') => SRel hs' ss' /\ mout_matches mo out = true /\ rm = rm'
  end.
Proof. exact step_refines. Qed.
Print Assumptions C02_step_refines.

Theorem C02_refines_map : forall ops, Forall hop_ok ops -> hist_ok init_hstate sinit ops.
Proof. exact C02_refines_map_thm. Qed.
Print Assumptions C02_refines_map.

(* non-vacuity: a history with conflicts, hostnames, an aborted and a committed transaction
   satisfies the hypothesis *)
Theorem C02_example_history_ok : Forall hop_ok ex_history.
Proof. exact ex_history_ok. Qed.
Print Assumptions C02_example_history_ok.

(* 5. iteration order: each method's routes come out in strictly increasing byte order of the
   pattern (hence each exactly once) *)
Theorem C02_iter_sorted : forall t, WF_txn t ->
  all_of t = flat_map routes_of_root (t_roots t) /\
  Forall (fun root => map (fun e => snd (fst e)) (routes_of_root root) = map rpat (rlist root) /\
                      Sorted.StronglySorted blt (map rpat (rlist root))) (t_roots t).
Proof. exact iter_sorted_thm. Qed.
Print Assumptions C02_iter_sorted.

(* the hypothesis of C02_refines_map is evaluable on recorded histories *)
Theorem C02_hops_okb_sound : forall ops, forallb hop_okb ops = true -> Forall hop_ok ops.
Proof. exact hops_okb_ok. Qed.
Print Assumptions C02_hops_okb_sound.
