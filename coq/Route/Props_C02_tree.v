(* Props_C02_tree — property theorems of the proof agent owning this topic: only Theorem ... exact ... Qed. Print Assumptions. *)
From FoxBase Require Import Bytes.
