(* C14 vocabulary shared by the specification and the models: what a handler can
   call on the Context's ResponseWriter, what comes back, and what the underlying
   http.ResponseWriter (the one fox wraps) gets to see. *)
From FoxBase Require Import Bytes.
Open Scope Z_scope.

(* error classes (the harness classifies Go errors the same way) *)
Inductive err :=
| ENil              (* nil *)
| EHijacked         (* errors.Is(err, http.ErrHijacked) *)
| ENotSupported     (* errors.Is(err, http.ErrNotSupported) *)
| EShortWrite       (* io.ErrShortWrite *)
| ESrc              (* the error returned by a failing source *)
| EUw               (* the error returned by the underlying writer's Write *)
| ECap              (* the error returned by a delegated optional method of the underlying writer *)
| EInvalidRedirect  (* fox.ErrInvalidRedirectCode *)
| EOther.

Definition err_eqb (a b : err) : bool :=
  match a, b with
  | ENil, ENil | EHijacked, EHijacked | ENotSupported, ENotSupported | EShortWrite, EShortWrite
  | ESrc, ESrc | EUw, EUw | ECap, ECap | EInvalidRedirect, EInvalidRedirect | EOther, EOther => true
  | _, _ => false
  end.
Definition is_nil (e : err) : bool := match e with ENil => true | _ => false end.

(* optional capabilities of an http.ResponseWriter *)
Inductive cap := KFlush | KFlushError | KHijack | KPush | KRdl | KWdl | KDup.
Definition cap_eqb (a b : cap) : bool :=
  match a, b with
  | KFlush, KFlush | KFlushError, KFlushError | KHijack, KHijack | KPush, KPush
  | KRdl, KRdl | KWdl, KWdl | KDup, KDup => true
  | _, _ => false
  end.

(* what the underlying writer sees, one event per method call it receives *)
Inductive uev :=
| EvHeader (code : Z)        (* WriteHeader(code) *)
| EvBody (accepted : bytes)  (* a Write/WriteString call; the bytes it accepted (a prefix of what it was given) *)
| EvCap (k : cap).           (* Flush / FlushError / Hijack / Push / Set*Deadline / EnableFullDuplex *)

Definition uev_eqb (a b : uev) : bool :=
  match a, b with
  | EvHeader x, EvHeader y => Z.eqb x y
  | EvBody x, EvBody y => bytes_eqb x y
  | EvCap x, EvCap y => cap_eqb x y
  | _, _ => false
  end.

(* Which optional interfaces the underlying writer offers. *)
Inductive flushkind := FNone | FFlusher | FFlushError | FBoth.
Record ucfg := mkcfg {
  c_rf : bool;          (* io.ReaderFrom *)
  c_sw : bool;          (* io.StringWriter *)
  c_flush : flushkind;  (* http.Flusher and/or FlushError() error *)
  c_hij : bool;         (* http.Hijacker *)
  c_push : bool;        (* http.Pusher *)
  c_rdl : bool;         (* SetReadDeadline *)
  c_wdl : bool;         (* SetWriteDeadline *)
  c_dup : bool          (* EnableFullDuplex *)
}.

(* A reader handed to ReadFrom / Stream: yields [s_data] in reads of at most
   [s_chunk] bytes (0 = everything at once), then io.EOF, or an error when
   [s_fail].  [s_wt]: the reader also implements io.WriterTo the way
   bytes.Reader does (one Write of everything that is left; never fails). *)
Record source := mksrc { s_data : bytes; s_fail : bool; s_chunk : nat; s_wt : bool }.

(* calls a handler can make *)
Inductive call :=
| CWriteHeader (code : Z)
| CWrite (b : bytes)
| CWriteString (b : bytes)
| CReadFrom (s : source)
| CFlushError
| CHijack
| CPush
| CSetReadDeadline
| CSetWriteDeadline
| CEnableFullDuplex
| CUnwrap
(* Context helpers (context.go) *)
| CString (code : Z) (payload : bytes)               (* c.String(code, "%s", payload) *)
| CBlob (code : Z) (ct : bytes) (payload : bytes)
| CStream (code : Z) (ct : bytes) (s : source)
| CRedirect (code : Z) (url : bytes) (body : bytes). (* body: what net/http's Redirect writes for (url, code) on a GET; oracle *)

(* what a call returns: a byte count (0 where the Go method has none) and an error class *)
Record result := mkres { r_n : Z; r_err : err }.

(* response headers the helpers touch *)
Inductive hkey := HContentType | HLocation.
Definition hkey_eqb (a b : hkey) : bool :=
  match a, b with HContentType, HContentType | HLocation, HLocation => true | _, _ => false end.

(* the answers of the ResponseWriter *)
Record answers := mkans { a_status : Z; a_written : bool; a_size : Z }.

(* status classes *)
Definition informational (c : Z) : bool := (100 <=? c) && (c <=? 199).
(* 101 Switching Protocols ends the header phase like a final status does *)
Definition final (c : Z) : bool := negb (informational c) || (c =? 101).

(* bytes offered by a call to the body (what the handler asked to send) *)
Definition payload (c : call) : bytes :=
  match c with
  | CWrite b | CWriteString b => b
  | CReadFrom s => s_data s
  | CString _ p | CBlob _ _ p => p
  | CStream _ _ s => s_data s
  | _ => []
  end.

Definition text_plain : bytes := S2B "text/plain; charset=UTF-8".   (* fox.MIMETextPlainCharsetUTF8 *)
Definition text_html : bytes := S2B "text/html; charset=utf-8".
