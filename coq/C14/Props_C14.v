(* C14 property theorems about the recorder AS IT IS in /repo (Model.v).
   Statements only, each closed by [exact].  P ranges over every deterministic
   underlying writer (its answers are an arbitrary function of everything it
   has received), cfg over every combination of optional interfaces, cs over
   every call sequence (so each statement holds after every call). *)
From FoxBase Require Import Bytes.
From FoxC14 Require Import Types Spec Model ModelFixed Lemmas Invariant Effects Corr ProofsFixed ProofsCur Examples Nested ProofsNested.
From Coq Require Import List ZArith.
Import ListNotations.
Open Scope Z_scope.

(* ---- Status is the first final status forwarded: FULL ---- *)
Theorem status_is_first_final : forall P cfg cs,
  let st := fst (run P cfg cs) in
  status_ok (lg (snd st)) (rec_answers (fst st)).
Proof. exact cur_status_is_first_final. Qed.
Print Assumptions status_is_first_final.

(* ---- Size = body bytes the underlying writer accepted: REFUTED (fast path), holds without io.ReaderFrom ---- *)
Definition size_is_accepted_bytes_statement : Prop := forall P cfg cs,
  let st := fst (run P cfg cs) in
  size_ok (lg (snd st)) (rec_answers (fst st)).
Theorem size_is_accepted_bytes_refuted : exists P cfg cs,
  let st := fst (run P cfg cs) in
  ~ size_ok (lg (snd st)) (rec_answers (fst st)).
Proof. exact cur_size_refuted. Qed.
Print Assumptions size_is_accepted_bytes_refuted.
Theorem size_is_accepted_bytes_partial : forall P cfg cs, c_rf cfg = false ->
  let st := fst (run P cfg cs) in
  size_ok (lg (snd st)) (rec_answers (fst st)).
Proof. exact cur_size_partial. Qed.
Print Assumptions size_is_accepted_bytes_partial.

(* ---- Written <-> final header forwarded or >= 1 body byte accepted: REFUTED both ways ---- *)
Definition written_iff_statement : Prop := forall P cfg cs,
  let st := fst (run P cfg cs) in
  written_ok (lg (snd st)) (rec_answers (fst st)).
Theorem written_iff_refuted : exists P cfg cs,
  let st := fst (run P cfg cs) in
  ~ written_ok (lg (snd st)) (rec_answers (fst st)).
Proof. exact cur_written_refuted. Qed.
Print Assumptions written_iff_refuted.
(* body bytes accepted, Written() = false (source failing after 5 bytes) *)
Theorem written_iff_refuted_failing_source : exists P cfg cs,
  let st := fst (run P cfg cs) in
  body (lg (snd st)) <> [] /\ a_written (rec_answers (fst st)) = false.
Proof. exact cur_written_refuted_failing. Qed.
Print Assumptions written_iff_refuted_failing_source.
(* nothing forwarded at all, Written() = true (empty source) *)
Theorem written_iff_refuted_empty_source : exists P cfg cs,
  let st := fst (run P cfg cs) in
  lg (snd st) = [] /\ a_written (rec_answers (fst st)) = true.
Proof. exact cur_written_refuted_empty. Qed.
Print Assumptions written_iff_refuted_empty_source.
Theorem written_iff_partial : forall P cfg cs, c_rf cfg = false ->
  let st := fst (run P cfg cs) in
  written_ok (lg (snd st)) (rec_answers (fst st)).
Proof. exact cur_written_partial. Qed.
Print Assumptions written_iff_partial.

(* ---- at most one final status, none after accepted body bytes: the count holds, the order is REFUTED ---- *)
Definition at_most_one_final_header_statement : Prop := forall P cfg cs,
  header_discipline (lg (snd (fst (run P cfg cs)))).
Theorem at_most_one_final_header_refuted : exists P cfg cs,
  ~ header_discipline (lg (snd (fst (run P cfg cs)))).
Proof. exact cur_discipline_refuted. Qed.
Print Assumptions at_most_one_final_header_refuted.
Theorem at_most_one_final_header_partial :
  (forall P cfg cs, (length (finals (lg (snd (fst (run P cfg cs))))) <= 1)%nat) /\
  (forall P cfg cs, c_rf cfg = false -> header_discipline (lg (snd (fst (run P cfg cs))))).
Proof. exact (conj cur_at_most_one_final cur_discipline_partial). Qed.
Print Assumptions at_most_one_final_header_partial.

(* ---- a router mounted in another router (Nested.v): after any interleaving of calls by the parent's handlers
   and by the mounted router's handlers the PARENT's Status is the first final status that reached the real
   writer, which saw at most one (Size / Written / "none after body bytes" are the clauses the pinned ReadFrom
   fast path breaks already for a single router; they are proved for the patched recorder in
   Props_C14_fixed.v) ---- *)
Theorem nested_recorder_transparent_partial : forall P cfg (cs : list (who * call)),
  let parent := snd (fst (nrun P cfg cs)) in
  status_ok (lg (snd parent)) (rec_answers (fst parent)) /\
  (length (finals (lg (snd parent))) <= 1)%nat.
Proof. exact cur_nested_recorder_transparent. Qed.
Print Assumptions nested_recorder_transparent_partial.

(* ---- every body byte forwarded in order: FULL ---- *)
Theorem bytes_forwarded_in_order : forall P cfg cs c, io_writer_contract P ->
  let st := fst (run P cfg cs) in
  let '(st', r) := step P cfg st c in
  bytes_in_order c r (lg (snd st)) (lg (snd st')).
Proof. exact cur_bytes_forwarded_in_order. Qed.
Print Assumptions bytes_forwarded_in_order.

(* ---- same answers with or without the fast paths: REFUTED for io.ReaderFrom, holds for io.StringWriter ---- *)
Definition fastpath_fallback_agree_statement : Prop := forall P a b cs,
  same_but_fast_paths a b -> run P a cs = run P b cs.
Theorem fastpath_fallback_agree_refuted : exists P a b cs, same_but_fast_paths a b /\
  map (fun rs => rec_answers (fst (snd rs))) (snd (run P a cs)) <>
  map (fun rs => rec_answers (fst (snd rs))) (snd (run P b cs)).
Proof. exact cur_agree_refuted. Qed.
Print Assumptions fastpath_fallback_agree_refuted.
Theorem fastpath_fallback_agree_partial : forall P a b cs,
  same_but_string_writer a b -> run P a cs = run P b cs.
Proof. exact cur_agree_partial. Qed.
Print Assumptions fastpath_fallback_agree_partial.

(* ---- optional capabilities delegated or ErrNotSupported: FULL (any state, any call) ---- *)
Theorem capabilities_delegate_or_notsupported : forall P cfg st c,
  let '(st', r) := step P cfg st c in
  capability_ok cfg c r (p_cap P (tl (u_tr (snd st')))) (lg (snd st)) (lg (snd st')).
Proof. exact cur_capabilities. Qed.
Print Assumptions capabilities_delegate_or_notsupported.

(* ---- String / Blob / Stream / Redirect send exactly what they are given: FULL ---- *)
Theorem helpers_exact : forall P cfg c,
  io_writer_contract P -> is_helper c = true -> final (helper_code c) = true ->
  let '(st', r) := step P cfg st_init c in
  helper_exact c r (lg (snd st')) (u_ct (snd st')) (u_loc (snd st')) (rec_answers (fst st')).
Proof. exact cur_helpers_exact. Qed.
Print Assumptions helpers_exact.
Theorem redirect_accepts_exactly_300_308 : forall P cfg st code url b,
  r_err (snd (step P cfg st (CRedirect code url b))) = ENil <-> 300 <= code <= 308.
Proof. exact (redirect_accepts_iff rec_read_from). Qed.
Print Assumptions redirect_accepts_exactly_300_308.

(* ---- the boolean checkers the case files evaluate decide the specification ---- *)
Theorem checker_header_discipline : forall l, header_discipline_b l = true <-> header_discipline l.
Proof. exact header_discipline_b_iff. Qed.
Print Assumptions checker_header_discipline.
Theorem checker_written : forall l a, written_ok_b l a = true <-> written_ok l a.
Proof. exact written_ok_b_iff. Qed.
Print Assumptions checker_written.
(* the chunk fuel of the model is sufficient: the chunks of a source are its data *)
Theorem source_chunks_complete : forall s, concat (chunks_of s) = s_data s.
Proof. exact chunks_of_concat. Qed.
Print Assumptions source_chunks_complete.

(* ---- non-vacuity ---- *)
Example contract_satisfiable : forall b cf, io_writer_contract (pol b cf).
Proof. exact pol_contract. Qed.
Example no_readerfrom_run :
  c_rf ex_none = false /\
  let st := fst (run (pol None false) ex_none ex_calls) in
  rec_answers (fst st) = mkans 404 true 8 /\
  lg (snd st) = [EvHeader 103; EvHeader 404; EvBody (S2B "abc"); EvBody (S2B "he"); EvBody (S2B "ll"); EvBody (S2B "o")].
Proof. exact ex_run_cur_norf. Qed.
Example string_writer_pair : same_but_string_writer ex_all (mkcfg true false FBoth true true true true true).
Proof. exact ex_same_but_string_writer. Qed.
Example redirect_range : map redirect_code_ok [299; 300; 304; 308; 309] = [false; true; true; true; false].
Proof. exact ex_redirect_range. Qed.
