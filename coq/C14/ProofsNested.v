(* C14, nested routers: the child's recorder is just another caller of the parent's
   recorder, so every invariant of the parent's recorder that each of its methods
   preserves survives ANY interleaving of calls by the parent's handlers and by the
   mounted router's handlers.  Instantiated with the accounting invariant [Inv] (patched
   ReadFrom: all four answer clauses) and with [InvS] (pinned ReadFrom: status and the
   at-most-one-final-status half). *)
From FoxBase Require Import Bytes.
From FoxC14 Require Import Types Spec Model ModelFixed Lemmas Invariant Effects Corr ProofsFixed ProofsCur Nested.
From Coq Require Import List Lia ZArith Bool.
Import ListNotations.
Open Scope Z_scope.

Section NestedInv.
  Variable RF : policy -> ucfg -> state -> source -> state * nat * err.
  Variable fx : bool.
  Variable P : policy.
  Variable cfg : ucfg.
  (* any property of the parent's recorder + real writer kept by every call on the parent's writer
     and by edits of the header map *)
  Variable X : state -> Prop.
  Hypothesis X_step : forall st c st' r, X st -> step_with RF P cfg st c = (st', r) -> X st'.
  Hypothesis X_on_u : forall f st, (forall u, u_tr (f u) = u_tr u) -> X st -> X (on_u f st).

  Lemma x_header s code : X s -> X (rec_write_header s code).
  Proof. intros H. apply (X_step s (CWriteHeader code) _ (res0 ENil) H). reflexivity. Qed.

  Lemma x_write s b s' n e : X s -> rec_write P s b = (s', n, e) -> X s'.
  Proof.
    intros H E. apply (X_step s (CWrite b) s' (mkres (Z.of_nat n) e) H).
    cbn [step_with]. rewrite E. reflexivity.
  Qed.

  Lemma x_write_string s b s' n e : X s -> rec_write_string P cfg s b = (s', n, e) -> X s'.
  Proof.
    intros H E. apply (X_step s (CWriteString b) s' (mkres (Z.of_nat n) e) H).
    cbn [step_with]. rewrite E. reflexivity.
  Qed.

  Lemma x_rf s src s' n e : X s -> RF P cfg s src = (s', n, e) -> X s'.
  Proof.
    intros H E. apply (X_step s (CReadFrom src) s' (mkres (Z.of_nat n) e) H).
    cbn [step_with]. rewrite E. reflexivity.
  Qed.

  Lemma x_flush s s' e : X s -> rec_flush_error P cfg s = (s', e) -> X s'.
  Proof.
    intros H E. apply (X_step s CFlushError s' (res0 e) H). cbn [step_with]. rewrite E. reflexivity.
  Qed.

  Lemma x_hijack s s' e : X s -> rec_hijack P cfg s = (s', e) -> X s'.
  Proof.
    intros H E. apply (X_step s CHijack s' (res0 e) H). cbn [step_with]. rewrite E. reflexivity.
  Qed.

  Lemma x_delegate (c : call) b k s s' e :
    (forall st, step_with RF P cfg st c = (let '(st', e) := rec_delegate P b k st in (st', res0 e))) ->
    X s -> rec_delegate P b k s = (s', e) -> X s'.
  Proof.
    intros Hc H E. apply (X_step s c s' (res0 e) H). rewrite Hc, E. reflexivity.
  Qed.

  (* ---- the child's recorder methods keep X of what lies underneath ---- *)

  Notation nheader := (nrec_write_header).
  Lemma xn_header ns code : X (snd ns) -> X (snd (nrec_write_header ns code)).
  Proof.
    destruct ns as [r s]. intros H. unfold nrec_write_header.
    destruct (r_hij r); [exact H|]. destruct (negb (r_size r =? not_written)); [exact H|].
    destruct ((100 <=? code) && (code <=? 199) && negb (code =? 101)); simpl; apply x_header; exact H.
  Qed.

  Lemma xn_commit ns : X (snd ns) -> X (snd (ncommit ns)).
  Proof.
    destruct ns as [r s]. intros H. unfold ncommit.
    destruct (r_size r =? not_written); simpl; [apply x_header|]; exact H.
  Qed.

  Lemma xn_write ns b ns' n e : X (snd ns) -> nrec_write P ns b = (ns', n, e) -> X (snd ns').
  Proof.
    intros H E. unfold nrec_write in E. destruct (r_hij (fst ns)).
    - apply pair_equal_spec in E as [E _]. apply pair_equal_spec in E as [<- _]. exact H.
    - destruct (rec_write P (snd (ncommit ns)) b) as [[s2 n2] e2] eqn:HW.
      apply pair_equal_spec in E as [E _]. apply pair_equal_spec in E as [<- _]. simpl.
      eapply x_write; [apply xn_commit; exact H|exact HW].
  Qed.

  Lemma xn_write_string ns b ns' n e : X (snd ns) -> nrec_write_string P cfg ns b = (ns', n, e) -> X (snd ns').
  Proof.
    intros H E. unfold nrec_write_string in E. destruct (r_hij (fst ns)).
    - apply pair_equal_spec in E as [E _]. apply pair_equal_spec in E as [<- _]. exact H.
    - destruct (rec_write_string P cfg (snd (ncommit ns)) b) as [[s2 n2] e2] eqn:HW.
      apply pair_equal_spec in E as [E _]. apply pair_equal_spec in E as [<- _]. simpl.
      eapply x_write_string; [apply xn_commit; exact H|exact HW].
  Qed.

  Lemma xn_read_from ns src ns' n e : X (snd ns) -> nrec_read_from RF fx P cfg ns src = (ns', n, e) -> X (snd ns').
  Proof.
    intros H E. unfold nrec_read_from in E. destruct fx.
    - destruct (r_hij (fst ns)).
      + apply pair_equal_spec in E as [E _]. apply pair_equal_spec in E as [<- _]. exact H.
      + destruct (RF P cfg (snd (ncommit ns)) src) as [[s2 n2] e2] eqn:HW.
        apply pair_equal_spec in E as [E _]. apply pair_equal_spec in E as [<- _]. simpl.
        eapply x_rf; [apply xn_commit; exact H|exact HW].
    - destruct ns as [r s]. destruct (RF P cfg s src) as [[s2 n2] e2] eqn:HW.
      apply pair_equal_spec in E as [E _]. apply pair_equal_spec in E as [<- _]. simpl.
      eapply x_rf; [exact H|exact HW].
  Qed.

  Lemma xn_copy_write : forall cs ns w fail ns' w' e,
    X (snd ns) -> copy_chunks (nrec_write P) ns cs w fail = (ns', w', e) -> X (snd ns').
  Proof.
    induction cs as [|c cs IH]; intros ns w fail ns' w' e H E; simpl in E.
    - apply pair_equal_spec in E as [E _]. apply pair_equal_spec in E as [<- _]. exact H.
    - destruct (nrec_write P ns c) as [[s1 nw] ew] eqn:HW.
      pose proof (xn_write _ _ _ _ _ H HW) as H1.
      destruct (is_nil ew).
      + destruct (Nat.eqb nw (length c)).
        * eapply IH; eauto.
        * apply pair_equal_spec in E as [E _]. apply pair_equal_spec in E as [<- _]. exact H1.
      + apply pair_equal_spec in E as [E _]. apply pair_equal_spec in E as [<- _]. exact H1.
  Qed.

  Lemma xn_on_u f ns : (forall u, u_tr (f u) = u_tr u) -> X (snd ns) -> X (snd (non_u f ns)).
  Proof. intros Hf H. simpl. apply X_on_u; assumption. Qed.

  Lemma x_cstep ns c ns' r : X (snd ns) -> cstep RF fx P cfg ns c = (ns', r) -> X (snd ns').
  Proof.
    intros H E. destruct c; cbn [cstep] in E.
    - apply pair_equal_spec in E as [<- _]. apply xn_header; exact H.
    - destruct (nrec_write P ns b) as [[s n] e] eqn:HW. apply pair_equal_spec in E as [<- _]. eapply xn_write; eauto.
    - destruct (nrec_write_string P cfg ns b) as [[s n] e] eqn:HW. apply pair_equal_spec in E as [<- _].
      eapply xn_write_string; eauto.
    - destruct (nrec_read_from RF fx P cfg ns s) as [[s1 n] e] eqn:HW. apply pair_equal_spec in E as [<- _].
      eapply xn_read_from; eauto.
    - unfold nrec_flush_error in E.
      set (ns1 := if r_size (fst ns) =? not_written then nrec_write_header ns (r_status (fst ns)) else ns) in *.
      assert (H1 : X (snd ns1)) by (unfold ns1; destruct (r_size (fst ns) =? not_written); [apply xn_header|]; exact H).
      destruct (rec_flush_error P cfg (snd ns1)) as [s2 e] eqn:HW.
      apply pair_equal_spec in E as [<- _]. simpl. eapply x_flush; eauto.
    - unfold nrec_hijack in E. destruct ns as [r0 s0].
      destruct (rec_hijack P cfg s0) as [s2 e] eqn:HW.
      apply pair_equal_spec in E as [<- _]. simpl. eapply x_hijack; eauto.
    - unfold nrec_delegate in E. destruct (rec_delegate P (c_push cfg) KPush (snd ns)) as [s2 e] eqn:HW.
      apply pair_equal_spec in E as [<- _]. simpl.
      eapply (x_delegate CPush); [|exact H|exact HW]. intros st. reflexivity.
    - unfold nrec_delegate in E. destruct (rec_delegate P (c_rdl cfg) KRdl (snd ns)) as [s2 e] eqn:HW.
      apply pair_equal_spec in E as [<- _]. simpl.
      eapply (x_delegate CSetReadDeadline); [|exact H|exact HW]. intros st. reflexivity.
    - unfold nrec_delegate in E. destruct (rec_delegate P (c_wdl cfg) KWdl (snd ns)) as [s2 e] eqn:HW.
      apply pair_equal_spec in E as [<- _]. simpl.
      eapply (x_delegate CSetWriteDeadline); [|exact H|exact HW]. intros st. reflexivity.
    - unfold nrec_delegate in E. destruct (rec_delegate P (c_dup cfg) KDup (snd ns)) as [s2 e] eqn:HW.
      apply pair_equal_spec in E as [<- _]. simpl.
      eapply (x_delegate CEnableFullDuplex); [|exact H|exact HW]. intros st. reflexivity.
    - apply pair_equal_spec in E as [<- _]. exact H.
    - unfold nctx_string in E.
      destruct (nrec_write P _ payload) as [[s n] e] eqn:HW. apply pair_equal_spec in E as [<- _].
      eapply xn_write; [|exact HW]. apply xn_header.
      destruct (ct_empty (nu ns)); [apply xn_on_u; [reflexivity|]|]; exact H.
    - unfold nctx_blob in E.
      destruct (nrec_write P _ payload) as [[s n] e] eqn:HW. apply pair_equal_spec in E as [<- _].
      eapply xn_write; [|exact HW]. apply xn_header. apply xn_on_u; [reflexivity|exact H].
    - unfold nctx_stream in E.
      assert (H1 : X (snd (nrec_write_header (non_u (fun u => set_ct u ct) ns) code)))
        by (apply xn_header; apply xn_on_u; [reflexivity|exact H]).
      destruct (s_wt s).
      + destruct (copy_chunks (nrec_write P) _ (whole (s_data s)) 0%nat false) as [[s1 n] e] eqn:HW.
        apply pair_equal_spec in E as [<- _]. eapply xn_copy_write; eauto.
      + destruct (nrec_read_from RF fx P cfg _ s) as [[s1 n] e] eqn:HW.
        apply pair_equal_spec in E as [<- _]. eapply xn_read_from; eauto.
    - unfold nctx_redirect in E.
      destruct ((code <? 300) || (308 <? code)).
      + apply pair_equal_spec in E as [<- _]. exact H.
      + assert (H0 : X (snd (non_u (fun u => set_loc u url) ns))) by (apply xn_on_u; [reflexivity|exact H]).
        destruct (u_ct (nu ns)).
        * apply pair_equal_spec in E as [<- _]. apply xn_header. exact H0.
        * destruct (nrec_write P _ body) as [[s n] e] eqn:HW.
          apply pair_equal_spec in E as [<- _].
          eapply xn_write; [|exact HW]. apply xn_header. apply xn_on_u; [reflexivity|exact H0].
  Qed.

  Lemma x_nstep ns wc ns' r : X (snd ns) -> nstep RF fx P cfg ns wc = (ns', r) -> X (snd ns').
  Proof.
    intros H E. unfold nstep in E. destruct (fst wc).
    - destruct (step_with RF P cfg (snd ns) (snd wc)) as [s' r'] eqn:HS.
      apply pair_equal_spec in E as [<- _]. simpl. eapply X_step; eauto.
    - eapply x_cstep; eauto.
  Qed.

  Lemma x_nrun : forall cs ns nsn l, X (snd ns) -> nrun_from RF fx P cfg ns cs = (nsn, l) ->
    X (snd nsn) /\ Forall (fun rs => X (snd (snd rs))) l.
  Proof.
    induction cs as [|c cs IH]; intros ns nsn l H E; simpl in E.
    - apply pair_equal_spec in E as [<- <-]. auto.
    - destruct (nstep RF fx P cfg ns c) as [ns1 r] eqn:Hs.
      destruct (nrun_from RF fx P cfg ns1 cs) as [sn l1] eqn:Hr.
      apply pair_equal_spec in E as [<- <-].
      pose proof (x_nstep _ _ _ _ H Hs) as H1.
      destruct (IH _ _ _ H1 Hr) as [A B]. split; auto.
  Qed.
End NestedInv.

(* ---------- patched ReadFrom: the parent's accounting invariant ---------- *)

Lemma inv_nrun_fixed P cfg cs : Inv (snd (fst (nrun_fixed P cfg cs))).
Proof.
  unfold nrun_fixed. destruct (nrun_from rec_read_from_fixed true P cfg nst_init cs) as [nsn l] eqn:H.
  destruct (x_nrun rec_read_from_fixed true P cfg Inv
              (fun st c st' r I E => inv_step rec_read_from_fixed P cfg (inv_rf_fixed P cfg) st c st' r I E)
              inv_on_u cs nst_init nsn l inv_init H) as [A _].
  exact A.
Qed.

Lemma fixed_nested_recorder_transparent P cfg cs :
  let parent := snd (fst (nrun_fixed P cfg cs)) in
  status_ok (lg (snd parent)) (rec_answers (fst parent)) /\
  size_ok (lg (snd parent)) (rec_answers (fst parent)) /\
  written_ok (lg (snd parent)) (rec_answers (fst parent)) /\
  header_discipline (lg (snd parent)).
Proof.
  pose proof (inv_nrun_fixed P cfg cs) as I. cbv zeta.
  repeat split; [apply inv_status_ok|apply inv_size_ok|apply inv_written_ok|apply inv_written_ok|apply inv_discipline|apply inv_discipline]; exact I.
Qed.

(* ---------- pinned ReadFrom: the weaker invariant ---------- *)

Lemma invs_nrun P cfg cs : InvS (snd (fst (nrun P cfg cs))).
Proof.
  unfold nrun. destruct (nrun_from rec_read_from false P cfg nst_init cs) as [nsn l] eqn:H.
  destruct (x_nrun rec_read_from false P cfg InvS
              (fun st c st' r I E => invs_step P cfg st c st' r I E)
              invs_on_u cs nst_init nsn l invs_init H) as [A _].
  exact A.
Qed.

Lemma cur_nested_recorder_transparent P cfg cs :
  let parent := snd (fst (nrun P cfg cs)) in
  status_ok (lg (snd parent)) (rec_answers (fst parent)) /\
  (length (finals (lg (snd parent))) <= 1)%nat.
Proof.
  pose proof (invs_nrun P cfg cs) as I. cbv zeta.
  set (st := snd (fst (nrun P cfg cs))) in *. split.
  - unfold status_ok. simpl. unfold rec_status.
    destruct (Z.eq_dec (r_size (fst st)) not_written) as [E|E].
    + destruct (invs_nw _ I E) as [-> ->]. reflexivity.
    + destruct (invs_w _ I E) as [->|[-> ->]]; reflexivity.
  - destruct (Z.eq_dec (r_size (fst st)) not_written) as [E|E].
    + destruct (invs_nw _ I E) as [-> _]. simpl. lia.
    + destruct (invs_w _ I E) as [->|[-> _]]; simpl; lia.
Qed.

(* non-vacuity / the composition at work: String(201,"created") by the mounted router's handler, then
   WriteHeader(500) by the parent's Recovery: the parent's writer answers 201 / 7 / written, the real
   writer received one final status and the 7 bytes, and the 500 was not forwarded *)
Example nested_created_then_500 :
  let cs := [(Child, CString 201 (S2B "created")); (Parent, CWriteHeader 500)] in
  let parent := snd (fst (nrun_fixed (pol None false) (mkcfg true true FBoth true true true true true) cs)) in
  rec_answers (fst parent) = mkans 201 true 7 /\
  lg (snd parent) = [EvHeader 201; EvBody (S2B "created")].
Proof. vm_compute. split; reflexivity. Qed.
