(* C14 specification, written from the property text, independent of how the
   recorder is implemented.  Everything is phrased over
     - the LOG of the underlying writer: the calls it received, oldest first
       (WriteHeader codes, Write calls with the bytes they accepted, optional
       methods), and
     - the ANSWERS of fox's ResponseWriter (Status, Written, Size) and what the
       handler's calls returned.
   Each clause comes as a Prop and, where the harness needs to evaluate it on
   observed runs, as a boolean checker (suffix _b; equivalences in Lemmas.v). *)
From FoxBase Require Import Bytes.
From FoxC14 Require Import Types.
From Coq Require Import List.
Import ListNotations.
Open Scope Z_scope.

Definition log := list uev.   (* oldest first *)

Definition headers (l : log) : list Z :=
  flat_map (fun e => match e with EvHeader c => [c] | _ => [] end) l.
(* final status codes forwarded (101 counts: it ends the header phase) *)
Definition finals (l : log) : list Z := filter final (headers l).
(* body bytes the underlying writer accepted, in the order it accepted them *)
Definition body (l : log) : bytes :=
  flat_map (fun e => match e with EvBody b => b | _ => [] end) l.

(* "Status is the first final status code forwarded" (200, what an implicit
   header would carry, while none has been) *)
Definition status_ok (l : log) (a : answers) : Prop := a_status a = hd 200 (finals l).
(* "Size the number of body bytes the underlying writer accepted" *)
Definition size_ok (l : log) (a : answers) : Prop := a_size a = Z.of_nat (length (body l)).
(* "Written is true exactly when a final header has been forwarded or at least
   one body byte accepted" *)
Definition written_ok (l : log) (a : answers) : Prop :=
  a_written a = true <-> (finals l <> [] \/ body l <> []).

(* "At most one final status is ever forwarded and none after accepted body bytes" *)
Definition header_discipline (l : log) : Prop :=
  (length (finals l) <= 1)%nat /\
  forall pre c post, l = pre ++ EvHeader c :: post -> final c = true -> body pre = [].

(* "every body byte is forwarded in order": during one call the underlying
   writer accepts a prefix of the bytes the call offers (the whole of it when the
   call reports no error), appended after everything accepted before; calls
   that return a count return the length of that prefix. *)
Definition returns_count (c : call) : bool :=
  match c with CWrite _ | CWriteString _ | CReadFrom _ => true | _ => false end.
(* Redirect's body is net/http's business: only "a prefix of it" is required *)
Definition all_on_success (c : call) : bool :=
  match c with CRedirect _ _ _ => false | _ => true end.
Definition offered_bytes (c : call) : bytes :=
  match c with CRedirect _ _ b => b | _ => payload c end.

Definition bytes_in_order (c : call) (r : result) (before after : log) : Prop :=
  exists k : nat,
    body after = body before ++ firstn k (offered_bytes c) /\
    (k <= length (offered_bytes c))%nat /\
    (returns_count c = true -> r_n r = Z.of_nat k) /\
    (r_err r = ENil -> all_on_success c = true -> k = length (offered_bytes c)).

(* "Optional capabilities are delegated when the underlying writer offers them
   and otherwise fail with an error matching http.ErrNotSupported" *)
Definition cap_of_call (cfg : ucfg) (c : call) : option (option cap) :=
  match c with
  | CFlushError => Some (match c_flush cfg with
                         | FFlushError | FBoth => Some KFlushError
                         | FFlusher => Some KFlush
                         | FNone => None end)
  | CHijack => Some (if c_hij cfg then Some KHijack else None)
  | CPush => Some (if c_push cfg then Some KPush else None)
  | CSetReadDeadline => Some (if c_rdl cfg then Some KRdl else None)
  | CSetWriteDeadline => Some (if c_wdl cfg then Some KWdl else None)
  | CEnableFullDuplex => Some (if c_dup cfg then Some KDup else None)
  | _ => None
  end.

Definition is_header (e : uev) : bool := match e with EvHeader _ => true | _ => false end.

(* [answer k] is what the underlying writer's method returned (Flush() returns
   nothing, so nil).  A flush may be preceded by the pending header, nothing else
   may be interleaved. *)
Definition capability_ok (cfg : ucfg) (c : call) (r : result) (answer : cap -> err) (before after : log) : Prop :=
  match cap_of_call cfg c with
  | None => True
  | Some None => after = before /\ r_err r = ENotSupported
  | Some (Some k) =>
      exists hs, after = before ++ hs ++ [EvCap k] /\ forallb is_header hs = true /\
                 (match k with KFlush | KFlushError => True | _ => hs = [] end) /\
                 r_err r = (match k with KFlush => ENil | _ => answer k end)
  end.

(* "the Context helpers String, Blob, Stream and Redirect send exactly the
   status, content type and bytes they are given (Redirect accepting only codes
   300 to 308)": on a response nothing has been sent on yet, for a final code. *)
Definition redirect_code_ok (code : Z) : bool := (300 <=? code) && (code <=? 308).

Definition helper_exact (c : call) (r : result) (after : log) (ct loc : option bytes) (a : answers) : Prop :=
  match c with
  | CString code p =>
      headers after = [code] /\ ct = Some text_plain /\ a_status a = code /\
      (exists k, body after = firstn k p) /\ (r_err r = ENil -> body after = p)
  | CBlob code t p =>
      headers after = [code] /\ ct = Some t /\ a_status a = code /\
      (exists k, body after = firstn k p) /\ (r_err r = ENil -> body after = p)
  | CStream code t s =>
      headers after = [code] /\ ct = Some t /\ a_status a = code /\
      (exists k, body after = firstn k (s_data s)) /\ (r_err r = ENil -> body after = s_data s)
  | CRedirect code url b =>
      if redirect_code_ok code
      then r_err r = ENil /\ headers after = [code] /\ loc = Some url /\ a_status a = code /\
           (exists k, body after = firstn k b)
      else r_err r = EInvalidRedirect /\ after = [] /\ ct = None /\ loc = None
  | _ => True
  end.

Definition is_helper (c : call) : bool :=
  match c with CString _ _ | CBlob _ _ _ | CStream _ _ _ | CRedirect _ _ _ => true | _ => false end.
Definition helper_code (c : call) : Z :=
  match c with CString k _ | CBlob k _ _ | CStream k _ _ | CRedirect k _ _ => k | _ => 0 end.

(* ---------- boolean checkers (evaluated on observed runs) ---------- *)

Definition nonempty {A} (l : list A) : bool := match l with [] => false | _ => true end.

Definition status_ok_b (l : log) (a : answers) : bool := a_status a =? hd 200 (finals l).
Definition size_ok_b (l : log) (a : answers) : bool := a_size a =? Z.of_nat (length (body l)).
Definition written_ok_b (l : log) (a : answers) : bool :=
  Bool.eqb (a_written a) (nonempty (finals l) || nonempty (body l)).

(* scan: [sf] a final header was seen, [sb] a body byte was seen *)
Fixpoint discipline_from (sf sb : bool) (l : log) : bool :=
  match l with
  | [] => true
  | EvHeader c :: t => if final c then negb sf && negb sb && discipline_from true sb t
                       else discipline_from sf sb t
  | EvBody b :: t => discipline_from sf (sb || nonempty b) t
  | EvCap _ :: t => discipline_from sf sb t
  end.
Definition header_discipline_b (l : log) : bool := discipline_from false false l.

Fixpoint is_prefix (a b : bytes) : bool :=
  match a, b with
  | [], _ => true
  | x :: a', y :: b' => Ascii.eqb x y && is_prefix a' b'
  | _, _ => false
  end.

(* [delta]: body bytes accepted during the call *)
Definition bytes_in_order_b (c : call) (r : result) (delta : bytes) : bool :=
  is_prefix delta (offered_bytes c) &&
  (negb (returns_count c) || (r_n r =? Z.of_nat (length delta))) &&
  (negb (is_nil (r_err r) && all_on_success c) || Nat.eqb (length delta) (length (offered_bytes c))).

Definition capability_ok_b (cfg : ucfg) (c : call) (r : result) (answer : cap -> err) (delta : log) : bool :=
  match cap_of_call cfg c with
  | None => true
  | Some None => match delta with [] => err_eqb (r_err r) ENotSupported | _ => false end
  | Some (Some k) =>
      match rev delta with
      | EvCap k' :: hs =>
          cap_eqb k k' && forallb is_header hs &&
          (match k with KFlush | KFlushError => true | _ => negb (nonempty hs) end) &&
          err_eqb (r_err r) (match k with KFlush => ENil | _ => answer k end)
      | _ => false
      end
  end.

Definition helper_exact_b (c : call) (r : result) (after : log) (ct loc : option bytes) (a : answers) : bool :=
  let common code ctv (p : bytes) :=
    list_eqb Z.eqb (headers after) [code] && opt_eqb bytes_eqb ct (Some ctv) && (a_status a =? code) &&
    is_prefix (body after) p && (negb (is_nil (r_err r)) || bytes_eqb (body after) p) in
  match c with
  | CString code p => common code text_plain p
  | CBlob code t p => common code t p
  | CStream code t s => common code t (s_data s)
  | CRedirect code url b =>
      if redirect_code_ok code
      then is_nil (r_err r) && list_eqb Z.eqb (headers after) [code] && opt_eqb bytes_eqb loc (Some url) &&
           (a_status a =? code) && is_prefix (body after) b
      else err_eqb (r_err r) EInvalidRedirect && negb (nonempty after) &&
           opt_eqb bytes_eqb ct None && opt_eqb bytes_eqb loc None
  | _ => true
  end.
