(* C14, tie A: property theorems about GenRec.v, the methods of `recorder`
   (response_writer.go) as harness/cmd/recgen translates them, statement by
   statement, from the tree under test on every run (docs/GenRec.md).

   1. each generated method equals the hand-written model of Model.v /
      ModelFixed.v for ALL arguments;
   2. hence the recorder a handler sees, rebuilt from the generated methods only
      (gen_step, gen_run: reset of a pooled recorder, then the handler's calls;
      gen_answers: Status/Written/Size), IS the model of Props_C14_fixed.v, and
   3. the C14 theorems hold of it.
   Used by checks/C14.py when the tree under test has the ReadFrom of the `fix:`
   commit (otherwise: Props_GenRec_cur.v). *)
From FoxBase Require Import Bytes.
From FoxC14 Require Import Types Spec Model ModelFixed RecSem GenRec BridgeRec BridgeRecFixed Lemmas Invariant Effects Corr Examples ExamplesRec.
From Coq Require Import String List ZArith.
Import ListNotations.
Open Scope Z_scope.

(* ---- 1. method by method ---- *)

Theorem gen_reset_is_model : forall st w, gen_rec_reset st w = (r_init, w).
Proof. exact gen_rec_reset_eq. Qed.
Print Assumptions gen_reset_is_model.

Theorem gen_status_is_model : forall st, gen_rec_status st = rec_status (fst st).
Proof. exact gen_rec_status_eq. Qed.
Print Assumptions gen_status_is_model.

Theorem gen_written_is_model : forall st, gen_rec_written st = rec_written (fst st).
Proof. exact gen_rec_written_eq. Qed.
Print Assumptions gen_written_is_model.

Theorem gen_size_is_model : forall st, gen_rec_size st = rec_size (fst st).
Proof. exact gen_rec_size_eq. Qed.
Print Assumptions gen_size_is_model.

Theorem gen_unwrap_is_model : forall st, gen_rec_unwrap st = snd st.
Proof. exact gen_rec_unwrap_eq. Qed.
Print Assumptions gen_unwrap_is_model.

Theorem gen_write_header_is_model : forall st code, gen_rec_write_header st code = rec_write_header st code.
Proof. exact gen_rec_write_header_eq. Qed.
Print Assumptions gen_write_header_is_model.

Theorem gen_write_is_model : forall P st buf, gen_rec_write P st buf = rec_write P st buf.
Proof. exact gen_rec_write_eq. Qed.
Print Assumptions gen_write_is_model.

Theorem gen_write_string_is_model : forall P cfg st s, gen_rec_write_string P cfg st s = rec_write_string P cfg st s.
Proof. exact gen_rec_write_string_eq. Qed.
Print Assumptions gen_write_string_is_model.

Theorem gen_read_from_is_model : forall P cfg st src, gen_rec_read_from P cfg st src = rec_read_from_fixed P cfg st src.
Proof. exact gen_rec_read_from_eq. Qed.
Print Assumptions gen_read_from_is_model.

Theorem gen_flush_error_is_model : forall P cfg st, gen_rec_flush_error P cfg st = rec_flush_error P cfg st.
Proof. exact gen_rec_flush_error_eq. Qed.
Print Assumptions gen_flush_error_is_model.

Theorem gen_hijack_is_model : forall P cfg st, gen_rec_hijack P cfg st = rec_hijack P cfg st.
Proof. exact gen_rec_hijack_eq. Qed.
Print Assumptions gen_hijack_is_model.

Theorem gen_push_is_model : forall P cfg st, gen_rec_push P cfg st = rec_delegate P (c_push cfg) KPush st.
Proof. exact gen_rec_push_eq. Qed.
Print Assumptions gen_push_is_model.

Theorem gen_set_read_deadline_is_model : forall P cfg st,
  gen_rec_set_read_deadline P cfg st = rec_delegate P (c_rdl cfg) KRdl st.
Proof. exact gen_rec_set_read_deadline_eq. Qed.
Print Assumptions gen_set_read_deadline_is_model.

Theorem gen_set_write_deadline_is_model : forall P cfg st,
  gen_rec_set_write_deadline P cfg st = rec_delegate P (c_wdl cfg) KWdl st.
Proof. exact gen_rec_set_write_deadline_eq. Qed.
Print Assumptions gen_set_write_deadline_is_model.

Theorem gen_enable_full_duplex_is_model : forall P cfg st,
  gen_rec_enable_full_duplex P cfg st = rec_delegate P (c_dup cfg) KDup st.
Proof. exact gen_rec_enable_full_duplex_eq. Qed.
Print Assumptions gen_enable_full_duplex_is_model.

Theorem gen_not_written_is_model : gen_notWritten = not_written.
Proof. exact gen_notWritten_eq. Qed.
Print Assumptions gen_not_written_is_model.

Theorem recorder_fields_foreign_writers :
  gen_rec_foreign_writers = ["cTx.Clone"%string; "newResponseWriter"%string].
Proof. exact gen_rec_foreign_writers_pinned. Qed.
Print Assumptions recorder_fields_foreign_writers.

(* ---- 2. the recorder built from the generated methods is the model ---- *)

Theorem gen_step_is_step_fixed : forall P cfg st c, gen_step P cfg st c = step_fixed P cfg st c.
Proof. exact gen_step_eq. Qed.
Print Assumptions gen_step_is_step_fixed.

(* whatever an earlier request left in the pooled recorder (st0) *)
Theorem gen_run_is_run_fixed : forall P cfg st0 cs, gen_run P cfg st0 cs = run_fixed P cfg cs.
Proof. exact gen_run_eq. Qed.
Print Assumptions gen_run_is_run_fixed.

Theorem gen_answers_is_model : forall st, gen_answers st = rec_answers (fst st).
Proof. exact gen_answers_eq. Qed.
Print Assumptions gen_answers_is_model.

(* ---- 3. the C14 theorems over runs of the generated methods ---- *)

Theorem gen_status_is_first_final : forall P cfg st0 cs,
  let st := fst (gen_run P cfg st0 cs) in
  status_ok (lg (snd st)) (gen_answers st).
Proof. exact BridgeRecFixed.gen_status_is_first_final. Qed.
Print Assumptions gen_status_is_first_final.

Theorem gen_size_is_accepted_bytes : forall P cfg st0 cs,
  let st := fst (gen_run P cfg st0 cs) in
  size_ok (lg (snd st)) (gen_answers st).
Proof. exact BridgeRecFixed.gen_size_is_accepted_bytes. Qed.
Print Assumptions gen_size_is_accepted_bytes.

Theorem gen_written_iff : forall P cfg st0 cs,
  let st := fst (gen_run P cfg st0 cs) in
  written_ok (lg (snd st)) (gen_answers st).
Proof. exact BridgeRecFixed.gen_written_iff. Qed.
Print Assumptions gen_written_iff.

Theorem gen_at_most_one_final_header : forall P cfg st0 cs,
  header_discipline (lg (snd (fst (gen_run P cfg st0 cs)))).
Proof. exact BridgeRecFixed.gen_at_most_one_final_header. Qed.
Print Assumptions gen_at_most_one_final_header.

Theorem gen_bytes_forwarded_in_order : forall P cfg st0 cs c, io_writer_contract P ->
  let st := fst (gen_run P cfg st0 cs) in
  let '(st', r) := gen_step P cfg st c in
  bytes_in_order c r (lg (snd st)) (lg (snd st')).
Proof. exact BridgeRecFixed.gen_bytes_forwarded_in_order. Qed.
Print Assumptions gen_bytes_forwarded_in_order.

Theorem gen_capabilities_delegate_or_notsupported : forall P cfg st c,
  let '(st', r) := gen_step P cfg st c in
  capability_ok cfg c r (p_cap P (tl (u_tr (snd st')))) (lg (snd st)) (lg (snd st')).
Proof. exact BridgeRecFixed.gen_capabilities_delegate_or_notsupported. Qed.
Print Assumptions gen_capabilities_delegate_or_notsupported.

(* ---- non-vacuity: the generated methods on concrete states ---- *)
Example gen_reset_example : gen_rec_reset ex_dirty u_init = st_init /\ ex_dirty <> st_init.
Proof. exact ex_gen_reset. Qed.
Example gen_getters_example :
  gen_answers st_init = mkans 200 false 0 /\
  gen_answers (mkr 5 201 false, u_init) = mkans 201 true 5 /\
  gen_answers (mkr 0 204 false, u_init) = mkans 204 true 0 /\
  gen_rec_unwrap ex_dirty = uw_header u_init 404.
Proof. exact ex_gen_getters. Qed.
Example gen_write_header_example :
  gen_rec_write_header st_init 404 = (mkr 0 404 false, uw_header u_init 404) /\
  gen_rec_write_header st_init 103 = (r_init, uw_header u_init 103) /\
  gen_rec_write_header st_init 199 = (r_init, uw_header u_init 199) /\
  gen_rec_write_header st_init 101 = (mkr 0 101 false, uw_header u_init 101) /\
  gen_rec_write_header (mkr 0 404 false, u_init) 500 = (mkr 0 404 false, u_init) /\
  gen_rec_write_header (mkr (-1) 200 true, u_init) 500 = (mkr (-1) 200 true, u_init).
Proof. exact ex_gen_write_header. Qed.
Example gen_write_example :
  gen_rec_write (pol (Some 2%nat) false) st_init (S2B "abc") =
    ((mkr 2 200 false, mku [EvBody (S2B "ab"); EvHeader 200] None None), 2%nat, EUw) /\
  gen_rec_write (pol None false) (mkr 0 200 true, u_init) (S2B "abc") = ((mkr 0 200 true, u_init), 0%nat, EHijacked).
Proof. exact ex_gen_write. Qed.
Example gen_write_string_example :
  gen_rec_write_string (pol None false) ex_all (mkr 3 201 false, u_init) (S2B "abc") =
    ((mkr 6 201 false, mku [EvBody (S2B "abc")] None None), 3%nat, ENil).
Proof. exact ex_gen_write_string. Qed.
Example gen_read_from_example :
  gen_rec_read_from (pol None false) ex_all st_init ex_src =
    ((mkr 5 200 false, mku [EvBody (S2B "o"); EvBody (S2B "ll"); EvBody (S2B "he"); EvHeader 200] None None), 5%nat, ESrc) /\
  gen_rec_read_from (pol None false) ex_all (mkr 0 200 true, u_init) ex_src = ((mkr 0 200 true, u_init), 0%nat, EHijacked).
Proof. exact ex_gen_read_from_fast. Qed.
Example gen_read_from_fallback_example :
  gen_rec_read_from (pol None false) ex_none st_init ex_src =
    ((mkr 5 200 false, mku [EvBody (S2B "o"); EvBody (S2B "ll"); EvBody (S2B "he"); EvHeader 200] None None), 5%nat, ESrc).
Proof. exact ex_gen_read_from_fallback. Qed.
Example gen_flush_error_example :
  gen_rec_flush_error (pol None false) ex_all st_init = ((mkr 0 200 false, mku [EvCap KFlushError; EvHeader 200] None None), ENil) /\
  gen_rec_flush_error (pol None false) ex_flusher_only st_init = ((mkr 0 200 false, mku [EvCap KFlush; EvHeader 200] None None), ENil) /\
  gen_rec_flush_error (pol None false) ex_none st_init = (st_init, ENotSupported).
Proof. exact ex_gen_flush_error. Qed.
Example gen_hijack_example :
  gen_rec_hijack (pol None false) ex_all st_init = ((mkr (-1) 200 true, mku [EvCap KHijack] None None), ENil) /\
  gen_rec_hijack (pol None false) ex_none st_init = (st_init, ENotSupported).
Proof. exact ex_gen_hijack. Qed.
Example gen_delegations_example :
  gen_rec_push (pol None true) ex_all st_init = ((r_init, mku [EvCap KPush] None None), ECap) /\
  gen_rec_set_read_deadline (pol None false) ex_all st_init = ((r_init, mku [EvCap KRdl] None None), ENil) /\
  gen_rec_set_write_deadline (pol None false) ex_all st_init = ((r_init, mku [EvCap KWdl] None None), ENil) /\
  gen_rec_enable_full_duplex (pol None false) ex_all st_init = ((r_init, mku [EvCap KDup] None None), ENil) /\
  gen_rec_push (pol None false) ex_none st_init = (st_init, ENotSupported).
Proof. exact ex_gen_delegations. Qed.
Example gen_run_example :
  let st := fst (gen_run (pol (Some 2%nat) false) ex_all ex_dirty ex_calls) in
  gen_answers st = mkans 200 true 2 /\
  lg (snd st) = [EvHeader 103; EvHeader 200; EvCap KFlushError; EvBody (S2B "ab"); EvBody []].
Proof. exact ex_gen_run. Qed.
Example gen_step_example :
  let '(st', r) := gen_step (pol None false) ex_all st_init (CStream 203 (S2B "text/c14") (mksrc (S2B "stream") false 4 false)) in
  lg (snd st') = [EvHeader 203; EvBody (S2B "stre"); EvBody (S2B "am")] /\ r_err r = ENil /\ gen_answers st' = mkans 203 true 6.
Proof. exact ex_gen_step. Qed.
Example gen_contract_satisfiable : forall b cf, io_writer_contract (pol b cf).
Proof. exact pol_contract. Qed.
