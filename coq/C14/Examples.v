(* C14: non-vacuity witnesses for the hypotheses of the theorems, and concrete runs. *)
From FoxBase Require Import Bytes.
From FoxC14 Require Import Types Spec Model ModelFixed Lemmas Invariant Effects Corr ProofsFixed ProofsCur.
From Coq Require Import List Lia ZArith Bool.
Import ListNotations.
Open Scope Z_scope.

(* the harness's underlying writers honour the io.Writer contract *)
Lemma pol_contract b cf : io_writer_contract (pol b cf).
Proof.
  intros tr buf. unfold pol; simpl.
  destruct (negb cf && existsb is_hijack_ev tr); simpl; [discriminate|].
  destruct b as [k|]; simpl; [|lia].
  destruct (Nat.ltb (Nat.min (length buf) (k - accepted_len tr)) (length buf)) eqn:E; [discriminate|].
  apply Nat.ltb_ge in E. lia.
Qed.

Definition ex_all : ucfg := mkcfg true true FBoth true true true true true.
Definition ex_none : ucfg := mkcfg false false FNone false false false false false.
Definition ex_calls : list call :=
  [CWriteHeader 103; CFlushError; CWriteHeader 404; CWrite (S2B "abc"); CReadFrom (mksrc (S2B "hello") true 2 false); CWriteHeader 500].

(* a run with an early hint, a flush-forced header, a superfluous header, a write cut short by the
   underlying writer (budget 2): Status 200, Written, Size 2 *)
Lemma ex_run_fixed :
  let st := fst (run_fixed (pol (Some 2%nat) false) ex_all ex_calls) in
  rec_answers (fst st) = mkans 200 true 2 /\
  lg (snd st) = [EvHeader 103; EvHeader 200; EvCap KFlushError; EvBody (S2B "ab"); EvBody []].
Proof. vm_compute. split; reflexivity. Qed.

Lemma ex_run_cur_norf :
  c_rf ex_none = false /\
  let st := fst (run (pol None false) ex_none ex_calls) in
  rec_answers (fst st) = mkans 404 true 8 /\
  lg (snd st) = [EvHeader 103; EvHeader 404; EvBody (S2B "abc"); EvBody (S2B "he"); EvBody (S2B "ll"); EvBody (S2B "o")].
Proof. vm_compute. repeat split; reflexivity. Qed.

Lemma ex_same_but_fast_paths : same_but_fast_paths ex_all (twin_cfg ex_all) /\ c_rf ex_all <> c_rf (twin_cfg ex_all).
Proof. split; [repeat split|discriminate]. Qed.

Lemma ex_same_but_string_writer :
  same_but_string_writer ex_all (mkcfg true false FBoth true true true true true).
Proof. repeat split. Qed.

(* the patched recorder on the two witnesses of the finding: both paths now give the same answers *)
Lemma ex_fixed_on_witnesses :
  map (fun rs => rec_answers (fst (snd rs))) (snd (run_fixed w_pol w_cfg [CReadFrom w_failing; CWriteHeader 500])) =
    [mkans 200 true 5; mkans 200 true 5] /\
  lg (snd (fst (run_fixed w_pol w_cfg [CReadFrom w_failing; CWriteHeader 500]))) = [EvHeader 200; EvBody (S2B "hello")] /\
  run_fixed w_pol w_cfg [CReadFrom w_empty] = run_fixed w_pol (twin_cfg w_cfg) [CReadFrom w_empty].
Proof. vm_compute. repeat split; reflexivity. Qed.

Lemma ex_helper :
  is_helper (CStream 203 (S2B "text/c14") (mksrc (S2B "stream") false 4 false)) = true /\
  final 203 = true /\
  let '(st', r) := step_fixed (pol None false) ex_all st_init (CStream 203 (S2B "text/c14") (mksrc (S2B "stream") false 4 false)) in
  lg (snd st') = [EvHeader 203; EvBody (S2B "stre"); EvBody (S2B "am")] /\ r_err r = ENil.
Proof. vm_compute. repeat split; reflexivity. Qed.

Lemma ex_redirect_range :
  map redirect_code_ok [299; 300; 304; 308; 309] = [false; true; true; true; false].
Proof. reflexivity. Qed.

(* Redirect accepts exactly 300..308 *)
Lemma redirect_accepts_iff RF P cfg st code url b :
  r_err (snd (step_with RF P cfg st (CRedirect code url b))) = ENil <-> 300 <= code <= 308.
Proof.
  cbn [step_with]. unfold ctx_redirect.
  destruct ((code <? 300) || (308 <? code)) eqn:E.
  - simpl. split; [discriminate|]. intros H. apply orb_true_iff in E. rewrite !Z.ltb_lt in E. lia.
  - apply orb_false_iff in E. rewrite !Z.ltb_ge in E.
    destruct (u_ct (snd st)); [simpl; split; auto; lia|].
    destruct (rec_write P _ b) as [[s n] e]. simpl. split; auto; lia.
Qed.
