(* C14 correspondence: evaluated by the case files the harness writes.
   A case = one call sequence run by the harness on the real recorder over a
   recording underlying writer of a given kind, with what was observed after
   every call; when the kind offers a fast path (io.ReaderFrom / io.StringWriter)
   the same sequence is also run on the same kind without them (the "twin"). *)
From FoxBase Require Import Bytes.
From FoxC14 Require Import Types Spec Model ModelFixed.
From Coq Require Import List.
Import ListNotations.
Open Scope Z_scope.

(* observation after one call *)
Record obs := mkobs {
  o_ans : answers;               (* Status(), Written(), Size() *)
  o_res : result;                (* what the call returned *)
  o_log : list uev;              (* calls the underlying writer received during the call, oldest first *)
  o_hdr : list (hkey * bytes)    (* Content-Type / Location values that changed during the call *)
}.

Record case := mkcase {
  k_cfg : ucfg;
  k_budget : option nat;   (* the underlying Write accepts this many bytes in total, then fails; None = unlimited *)
  k_capfail : bool;        (* optional methods of the underlying writer return an error *)
  k_calls : list call;
  k_obs : list obs;
  k_twin : option (list obs)
}.

(* short constructors for the case files *)
Definition O (st : Z) (w : bool) (sz n : Z) (e : err) (l : list uev) (h : list (hkey * bytes)) : obs :=
  mkobs (mkans st w sz) (mkres n e) l h.
Definition H := EvHeader.
Definition D := EvBody.
Definition K := EvCap.

(* ---------- the harness's underlying writer as a policy ---------- *)

Definition is_hijack_ev (e : uev) : bool := match e with EvCap KHijack => true | _ => false end.
Definition accepted_len (tr : list uev) : nat :=
  fold_right (fun e acc => match e with EvBody b => (length b + acc)%nat | _ => acc end) 0%nat tr.

Definition pol (budget : option nat) (capfail : bool) : policy :=
  mkpol
    (fun tr buf =>
       if negb capfail && existsb is_hijack_ev tr then (0%nat, EHijacked)
       else match budget with
            | None => (length buf, ENil)
            | Some k => let n := Nat.min (length buf) (k - accepted_len tr) in
                        (n, if Nat.ltb n (length buf) then EUw else ENil)
            end)
    (fun _ _ => if capfail then ECap else ENil).

Definition cap_answer (capfail : bool) (k : cap) : err := if capfail then ECap else ENil.

Definition twin_cfg (c : ucfg) : ucfg :=
  mkcfg false false (c_flush c) (c_hij c) (c_push c) (c_rdl c) (c_wdl c) (c_dup c).
Definition has_fast_path (c : ucfg) : bool := c_rf c || c_sw c.

(* ---------- equality of observations ---------- *)

Definition ans_eqb (a b : answers) : bool :=
  (a_status a =? a_status b) && Bool.eqb (a_written a) (a_written b) && (a_size a =? a_size b).
Definition res_eqb (a b : result) : bool := (r_n a =? r_n b) && err_eqb (r_err a) (r_err b).
Definition hdr_eqb (a b : hkey * bytes) : bool := hkey_eqb (fst a) (fst b) && bytes_eqb (snd a) (snd b).
Definition obs_eqb (a b : obs) : bool :=
  ans_eqb (o_ans a) (o_ans b) && res_eqb (o_res a) (o_res b) &&
  list_eqb uev_eqb (o_log a) (o_log b) && list_eqb hdr_eqb (o_hdr a) (o_hdr b).

(* ---------- model -> observations ---------- *)

Definition hdr_delta (u0 u1 : ustate) : list (hkey * bytes) :=
  (match u_ct u1 with
   | Some v => if opt_eqb bytes_eqb (u_ct u0) (Some v) then [] else [(HContentType, v)]
   | None => [] end) ++
  (match u_loc u1 with
   | Some v => if opt_eqb bytes_eqb (u_loc u0) (Some v) then [] else [(HLocation, v)]
   | None => [] end).

Definition obs_of (st0 : state) (r : result) (st1 : state) : obs :=
  mkobs (rec_answers (fst st1)) r
        (rev (firstn (length (u_tr (snd st1)) - length (u_tr (snd st0))) (u_tr (snd st1))))
        (hdr_delta (snd st0) (snd st1)).

Fixpoint obs_list (st0 : state) (l : list (result * state)) : list obs :=
  match l with
  | [] => []
  | (r, st1) :: t => obs_of st0 r st1 :: obs_list st1 t
  end.

Section WithRF.
  Variable RF : policy -> ucfg -> state -> source -> state * nat * err.

  Definition model_obs (cfg : ucfg) (c : case) : list obs :=
    obs_list st_init (snd (run_from RF (pol (k_budget c) (k_capfail c)) cfg st_init (k_calls c))).

  Definition model_agrees (c : case) : bool :=
    list_eqb obs_eqb (model_obs (k_cfg c) c) (k_obs c) &&
    match k_twin c with
    | None => true
    | Some t => list_eqb obs_eqb (model_obs (twin_cfg (k_cfg c)) c) t
    end.
End WithRF.

(* ---------- specification on observations ---------- *)

Definition body_of (l : list uev) : bytes := body l.

Definition apply_hdr (h : list (hkey * bytes)) (ct loc : option bytes) : option bytes * option bytes :=
  fold_left (fun acc kv => match fst kv with
                           | HContentType => (Some (snd kv), snd acc)
                           | HLocation => (fst acc, Some (snd kv)) end) h (ct, loc).

(* nothing sent yet, not hijacked, no header set: only delegated capability calls so far *)
Definition fresh (before : list uev) (ct loc : option bytes) : bool :=
  forallb (fun e => match e with EvCap KHijack => false | EvCap _ => true | _ => false end) before &&
  opt_eqb bytes_eqb ct None && opt_eqb bytes_eqb loc None.

Definition step_spec_b (cfg : ucfg) (capfail : bool) (before : list uev) (ct loc : option bytes)
           (c : call) (o : obs) : bool :=
  let after := before ++ o_log o in
  let '(ct', loc') := apply_hdr (o_hdr o) ct loc in
  status_ok_b after (o_ans o) && size_ok_b after (o_ans o) && written_ok_b after (o_ans o) &&
  header_discipline_b after &&
  bytes_in_order_b c (o_res o) (body (o_log o)) &&
  capability_ok_b cfg c (o_res o) (cap_answer capfail) (o_log o) &&
  (negb (is_helper c && fresh before ct loc && final (helper_code c)) ||
   helper_exact_b c (o_res o) (o_log o) ct' loc' (o_ans o)) &&
  (match c with CUnwrap => is_nil (r_err (o_res o)) && negb (nonempty (o_log o)) | _ => true end).

Fixpoint run_spec_b (cfg : ucfg) (capfail : bool) (before : list uev) (ct loc : option bytes)
         (cs : list call) (os : list obs) : bool :=
  match cs, os with
  | [], [] => true
  | c :: cs', o :: os' =>
      step_spec_b cfg capfail before ct loc c o &&
      (let '(ct', loc') := apply_hdr (o_hdr o) ct loc in
       run_spec_b cfg capfail (before ++ o_log o) ct' loc' cs' os')
  | _, _ => false
  end.

(* "all these answers are the same whether or not the underlying writer
   supports the optional fast paths" *)
Definition spec_ok (c : case) : bool :=
  run_spec_b (k_cfg c) (k_capfail c) [] None None (k_calls c) (k_obs c) &&
  match k_twin c with
  | None => negb (has_fast_path (k_cfg c))
  | Some t => run_spec_b (twin_cfg (k_cfg c)) (k_capfail c) [] None None (k_calls c) t &&
              list_eqb obs_eqb (k_obs c) t
  end.

(* ---------- attribution to the known finding c14_readfrom_accounting ---------- *)

Definition rstate_eqb (a b : rstate) : bool :=
  (r_size a =? r_size b) && (r_status a =? r_status b) && Bool.eqb (r_hij a) (r_hij b).
Definition ustate_eqb (a b : ustate) : bool :=
  list_eqb uev_eqb (u_tr a) (u_tr b) && opt_eqb bytes_eqb (u_ct a) (u_ct b) && opt_eqb bytes_eqb (u_loc a) (u_loc b).
Definition outcome_eqb (a b : state * result) : bool :=
  rstate_eqb (fst (fst a)) (fst (fst b)) && ustate_eqb (snd (fst a)) (snd (fst b)) && res_eqb (snd a) (snd b).

(* the call goes through recorder.ReadFrom's fast path (response_writer.go:192-201)
   and what that branch does differs from the repaired ReadFrom *)
Definition defect_at (P : policy) (cfg : ucfg) (st : state) (c : call) : bool :=
  c_rf cfg &&
  match c with
  | CReadFrom _ => true
  | CStream _ _ s => negb (s_wt s)
  | _ => false
  end &&
  negb (outcome_eqb (step P cfg st c) (step_fixed P cfg st c)).

(* index of the first call at which the pinned code takes the defective branch *)
Fixpoint first_defect (P : policy) (cfg : ucfg) (st : state) (cs : list call) (i : nat) : option nat :=
  match cs with
  | [] => None
  | c :: cs' => if defect_at P cfg st c then Some i
                else first_defect P cfg (fst (step P cfg st c)) cs' (S i)
  end.

Definition truncate (n : nat) (c : case) : case :=
  mkcase (k_cfg c) (k_budget c) (k_capfail c) (firstn n (k_calls c)) (firstn n (k_obs c))
         (option_map (firstn n) (k_twin c)).

(* a failing case is attributed to the finding when everything before the first
   defective fast-path ReadFrom satisfies the specification *)
Definition known_readfrom (c : case) : bool :=
  negb (spec_ok c) &&
  match first_defect (pol (k_budget c) (k_capfail c)) (k_cfg c) st_init (k_calls c) 0%nat with
  | Some i => spec_ok (truncate i c)
  | None => false
  end.

Definition mismatches_cur (cs : list case) : list nat := true_idx (map (fun c => negb (model_agrees rec_read_from c)) cs).
Definition mismatches_fixed (cs : list case) : list nat := true_idx (map (fun c => negb (model_agrees rec_read_from_fixed c)) cs).
Definition spec_violations (cs : list case) : list nat := true_idx (map (fun c => negb (spec_ok c)) cs).
Definition known_cur (cs : list case) : list nat := true_idx (map known_readfrom cs).
(* no fuel anywhere in the model: split_chunks gets len(data) as fuel, which Lemmas.v proves sufficient *)
Definition fuel_outs (cs : list case) : list nat := @nil nat.
