(* C14: the patched recorder (ModelFixed.v) satisfies every clause of the property. *)
From FoxBase Require Import Bytes.
From FoxC14 Require Import Types Spec Model ModelFixed Lemmas Invariant Effects.
From Coq Require Import List Lia ZArith Bool.
Import ListNotations.
Open Scope Z_scope.

(* ---------- ReadFrom (fixed) preserves the invariant ---------- *)

Lemma inv_rf_fixed P cfg st src st' n e :
  Inv st -> rec_read_from_fixed P cfg st src = (st', n, e) -> Inv st'.
Proof.
  destruct st as [r u]. intros I H. unfold rec_read_from_fixed in H.
  destruct (r_hij r) eqn:Hh.
  - apply pair_equal_spec in H as [H _]. apply pair_equal_spec in H as [<- _]. exact I.
  - destruct (r_size r =? not_written) eqn:E.
    + apply eqb_nw_true in E. pose proof (inv_implicit_header r u I E) as I1. rewrite Hh in I1.
      destruct (c_rf cfg).
      * destruct (uw_read_from P (uw_header u (r_status r)) src) as [[u2 n2] e2] eqn:HR.
        apply pair_equal_spec in H as [H _]. apply pair_equal_spec in H as [<- _].
        eapply (inv_uw_read_from P _ _ _ _ _ _ _ I1); [simpl; discriminate|exact HR].
      * eapply inv_copy_rec_write; [exact I1|exact H].
    + apply eqb_nw_false in E.
      destruct (c_rf cfg).
      * destruct (uw_read_from P u src) as [[u2 n2] e2] eqn:HR.
        apply pair_equal_spec in H as [H _]. apply pair_equal_spec in H as [<- _].
        eapply (inv_uw_read_from P _ _ _ _ _ _ _ I); [exact E|exact HR].
      * eapply inv_copy_rec_write; [exact I|exact H].
Qed.

Lemma inv_run_fixed P cfg cs : Inv (fst (run_fixed P cfg cs)).
Proof.
  unfold run_fixed. destruct (run_from rec_read_from_fixed P cfg st_init cs) as [stn l] eqn:H.
  destruct (inv_run rec_read_from_fixed P cfg (inv_rf_fixed P cfg) _ _ _ _ inv_init H) as [A _]. exact A.
Qed.

(* ---------- the answers, after any call sequence on any underlying writer ---------- *)

Definition final_log_fixed P cfg cs : list uev := lg (snd (fst (run_fixed P cfg cs))).
Definition final_answers_fixed P cfg cs : answers := rec_answers (fst (fst (run_fixed P cfg cs))).

Lemma fixed_status_is_first_final P cfg cs : status_ok (final_log_fixed P cfg cs) (final_answers_fixed P cfg cs).
Proof. apply inv_status_ok, inv_run_fixed. Qed.
Lemma fixed_size_is_accepted_bytes P cfg cs : size_ok (final_log_fixed P cfg cs) (final_answers_fixed P cfg cs).
Proof. apply inv_size_ok, inv_run_fixed. Qed.
Lemma fixed_written_iff P cfg cs : written_ok (final_log_fixed P cfg cs) (final_answers_fixed P cfg cs).
Proof. apply inv_written_ok, inv_run_fixed. Qed.
Lemma fixed_at_most_one_final_header P cfg cs : header_discipline (final_log_fixed P cfg cs).
Proof. apply inv_discipline, inv_run_fixed. Qed.

(* ---------- bytes in order ---------- *)

Lemma rf_fixed_bytes P cfg : rf_bytes_ok Inv rec_read_from_fixed P cfg.
Proof.
  intros [r u] src st' n e I H. unfold rec_read_from_fixed in H.
  destruct (r_hij r).
  - apply pair_equal_spec in H as [H <-]. apply pair_equal_spec in H as [<- <-].
    exists 0%nat. simpl. rewrite app_nil_r. repeat split; auto; try lia. discriminate.
  - assert (X : forall r1 u1, bodyst (r1, u1) = bodyst (r, u) ->
                (if c_rf cfg
                 then let '(u2, n, e) := uw_read_from P u1 src in
                      ((mkr (r_size r1 + Z.of_nat n) (r_status r1) (r_hij r1), u2), n, e)
                 else copy_chunks (rec_write P) (r1, u1) (chunks_of src) 0%nat (src_fails src)) = (st', n, e) ->
                exists k, bodyst st' = bodyst (r, u) ++ firstn k (s_data src) /\
                          (k <= length (s_data src))%nat /\ n = k /\ (e = ENil -> k = length (s_data src))).
    { intros r1 u1 Hb H1. destruct (c_rf cfg).
      - destruct (uw_read_from P u1 src) as [[u2 n2] e2] eqn:HR.
        apply pair_equal_spec in H1 as [H1 <-]. apply pair_equal_spec in H1 as [<- <-].
        destruct (uw_read_from_body _ _ _ _ _ _ HR) as (k & A & B & C & D).
        exists k. unfold bodyst in *. simpl in *. rewrite A, Hb. auto.
      - destruct (copy_rec_write_body _ _ _ _ _ _ _ _ H1) as (k & A & B & C & D).
        rewrite chunks_of_concat in *. exists k. rewrite A, Hb. repeat split; auto. apply D; auto. }
    destruct (r_size r =? not_written).
    + eapply X; [|exact H]. unfold bodyst; simpl. rewrite lg_header, body_app. simpl. apply app_nil_r.
    + eapply X; [|exact H]. reflexivity.
Qed.

Lemma fixed_bytes_forwarded_in_order P cfg cs c :
  io_writer_contract P ->
  let st := fst (run_fixed P cfg cs) in
  let '(st', r) := step_fixed P cfg st c in
  bytes_in_order c r (lg (snd st)) (lg (snd st')).
Proof.
  intros C st. destruct (step_fixed P cfg st c) as [st' r] eqn:H.
  eapply (step_bytes rec_read_from_fixed P cfg Inv); eauto using rf_fixed_bytes.
  - intros s v c0 Is. apply inv_rec_write_header. apply inv_on_u; auto.
  - apply inv_run_fixed.
Qed.

(* ---------- with or without the fast paths ---------- *)

(* the fallback loop through recorder.Write is the automaton's own copy loop plus the size update *)
Lemma copy_rec_write_eq P : forall cs r u w fail,
  r_hij r = false -> 0 <= r_size r ->
  copy_chunks (rec_write P) (r, u) cs w fail =
  let '(u', w', e) := copy_chunks (uw_write P) u cs w fail in
  ((mkr (r_size r + (Z.of_nat w' - Z.of_nat w)) (r_status r) false, u'), w', e).
Proof.
  induction cs as [|c cs IH]; intros r u w fail Hh Hs.
  - simpl. destruct r as [sz stt hj]; simpl in *; subst hj.
    replace (sz + (Z.of_nat w - Z.of_nat w)) with sz by lia. reflexivity.
  - cbn [copy_chunks].
    assert (HW : rec_write P (r, u) c =
                 let '(u2, n, e) := uw_write P u c in ((mkr (r_size r + Z.of_nat n) (r_status r) false, u2), n, e)).
    { unfold rec_write. rewrite Hh.
      destruct (r_size r =? not_written) eqn:E; [apply eqb_nw_true in E; unfold not_written in E; lia|].
      destruct (uw_write P u c) as [[u2 n] e]. rewrite Hh. reflexivity. }
    rewrite HW. destruct (uw_write P u c) as [[u2 n] e].
    destruct (is_nil e); [destruct (Nat.eqb n (length c))|].
    + rewrite IH; [|reflexivity|simpl; lia].
      destruct (copy_chunks (uw_write P) u2 cs (w + n) fail) as [[u' w'] e']. simpl.
      do 4 f_equal. lia.
    + do 4 f_equal. lia.
    + do 4 f_equal. lia.
Qed.

(* ReadFrom (fixed) does not depend on which interfaces the underlying writer offers *)
Definition rf_canon (P : policy) (st : state) (src : source) : state * nat * err :=
  let '(r, u) := st in
  if r_hij r then (st, 0%nat, EHijacked)
  else
    let '(r1, u1) := if r_size r =? not_written
                     then (mkr 0 (r_status r) (r_hij r), uw_header u (r_status r))
                     else (r, u) in
    let '(u2, n, e) := uw_read_from P u1 src in
    ((mkr (r_size r1 + Z.of_nat n) (r_status r1) (r_hij r1), u2), n, e).

Definition size_sane (st : state) : Prop := r_size (fst st) = not_written \/ 0 <= r_size (fst st).

Lemma rf_fixed_canon_sane P cfg st src : size_sane st -> rec_read_from_fixed P cfg st src = rf_canon P st src.
Proof.
  destruct st as [r u]. intros Hs. unfold rec_read_from_fixed, rf_canon. unfold size_sane in Hs. simpl in Hs.
  destruct (r_hij r) eqn:Hh; [reflexivity|].
  destruct (c_rf cfg).
  - destruct (r_size r =? not_written); reflexivity.
  - 
    destruct (r_size r =? not_written) eqn:E.
    + rewrite copy_rec_write_eq; [|reflexivity|simpl; lia].
      unfold uw_read_from. destruct (copy_chunks (uw_write P) _ _ _ _) as [[u' w'] e']. simpl.
      do 4 f_equal. lia.
    + apply eqb_nw_false in E. destruct Hs as [Hs|Hs]; [contradiction|].
      rewrite copy_rec_write_eq; auto.
      unfold uw_read_from. destruct (copy_chunks (uw_write P) _ _ _ _) as [[u' w'] e']. simpl.
      rewrite Hh. do 4 f_equal. lia.
Qed.

Lemma rf_fixed_canon P cfg st src : Inv st -> rec_read_from_fixed P cfg st src = rf_canon P st src.
Proof. intros I. apply rf_fixed_canon_sane. apply size_cases; auto. Qed.


Lemma step_fixed_agree P a b st c :
  same_but_fast_paths a b -> Inv st -> step_fixed P a st c = step_fixed P b st c.
Proof.
  intros (Hf & Hh & Hp & Hr & Hw & Hd) I. unfold step_fixed.
  destruct c; cbn [step_with]; try reflexivity.
  - rewrite !rec_write_string_eq. reflexivity.
  - rewrite !rf_fixed_canon; auto.
  - unfold rec_flush_error. rewrite Hf. reflexivity.
  - unfold rec_hijack. rewrite Hh. reflexivity.
  - rewrite Hp. reflexivity.
  - rewrite Hr. reflexivity.
  - rewrite Hw. reflexivity.
  - rewrite Hd. reflexivity.
  - unfold ctx_stream. destruct (s_wt s); [reflexivity|].
    rewrite !rf_fixed_canon; auto; apply inv_rec_write_header; apply inv_on_u; auto.
Qed.

Lemma run_fixed_agree_from P a b : same_but_fast_paths a b ->
  forall cs st, Inv st -> run_from rec_read_from_fixed P a st cs = run_from rec_read_from_fixed P b st cs.
Proof.
  intros S. induction cs as [|c cs IH]; intros st I; [reflexivity|].
  cbn [run_from]. fold (step_fixed P a st c) (step_fixed P b st c).
  rewrite (step_fixed_agree P a b st c S I).
  destruct (step_fixed P b st c) as [st1 r] eqn:Hs.
  assert (I1 : Inv st1) by (eapply (inv_step rec_read_from_fixed P b (inv_rf_fixed P b)); eauto).
  rewrite (IH _ I1). reflexivity.
Qed.

Lemma fixed_fastpath_fallback_agree P a b cs :
  same_but_fast_paths a b -> run_fixed P a cs = run_fixed P b cs.
Proof. intros S. apply run_fixed_agree_from; auto using inv_init. Qed.

(* ---------- capabilities ---------- *)

Lemma fixed_capabilities P cfg st c :
  let '(st', r) := step_fixed P cfg st c in
  capability_ok cfg c r (p_cap P (tl (u_tr (snd st')))) (lg (snd st)) (lg (snd st')).
Proof.
  destruct (step_fixed P cfg st c) as [st' r] eqn:H. eapply step_caps; eauto.
Qed.

(* ---------- helpers ---------- *)

Lemma rf_fixed_after_header P cfg code ct src st' n e :
  rec_read_from_fixed P cfg (mkr 0 code false, mku [EvHeader code] (Some ct) None) src = (st', n, e) ->
  sent_exactly code (Some ct) None (s_data src) st' e.
Proof.
  rewrite rf_fixed_canon_sane; [|right; simpl; lia].
  unfold rf_canon. simpl.
  destruct (uw_read_from P (mku [EvHeader code] (Some ct) None) src) as [[u2 n2] e2] eqn:HR.
  intros H. apply pair_equal_spec in H as [H <-]. apply pair_equal_spec in H as [<- <-].
  destruct (uw_read_from_log _ _ _ _ _ _ HR) as (bs & k & Hl & Hc & Hn & He & Hct & Hloc).
  unfold sent_exactly. simpl. rewrite Hl, headers_app, headers_map_body, body_app, body_map_body. simpl.
  repeat split; auto. exists k. auto.
Qed.

Lemma fixed_helpers_exact P cfg c :
  io_writer_contract P -> is_helper c = true -> final (helper_code c) = true ->
  let '(st', r) := step_fixed P cfg st_init c in
  helper_exact c r (lg (snd st')) (u_ct (snd st')) (u_loc (snd st')) (rec_answers (fst st')).
Proof.
  intros C. apply step_helper_exact; auto. apply rf_fixed_after_header.
Qed.
