(* C14, tie A, for a tree whose ReadFrom is the one after the `fix:` commit:
   gen_rec_read_from (GenRec.v) = rec_read_from_fixed (ModelFixed.v) for all
   arguments, hence the recorder built from the generated methods only (gen_step,
   gen_run) is the model the C14 theorems of Props_C14_fixed.v are about, and those
   theorems hold of it. *)
From FoxBase Require Import Bytes.
From FoxC14 Require Import Types Spec Model ModelFixed RecSem GenRec BridgeRec Lemmas Invariant Effects Corr ProofsFixed Examples ExamplesRec.
From Coq Require Import List ZArith Bool.
Import ListNotations.
Open Scope Z_scope.

Lemma gen_rec_read_from_eq : forall P cfg st src,
  gen_rec_read_from P cfg st src = rec_read_from_fixed P cfg st src.
Proof. read_from_tac. Qed.

Lemma gen_step_eq : forall P cfg st c, gen_step P cfg st c = step_fixed P cfg st c.
Proof. exact (gen_step_eq_with rec_read_from_fixed gen_rec_read_from_eq). Qed.

Lemma gen_run_eq : forall P cfg st0 cs, gen_run P cfg st0 cs = run_fixed P cfg cs.
Proof. exact (gen_run_eq_with rec_read_from_fixed gen_rec_read_from_eq). Qed.

(* ---------- the C14 theorems, over runs of the generated methods ---------- *)

Lemma gen_status_is_first_final : forall P cfg st0 cs,
  let st := fst (gen_run P cfg st0 cs) in
  status_ok (lg (snd st)) (gen_answers st).
Proof. intros P cfg st0 cs. cbv zeta. rewrite gen_run_eq, gen_answers_eq. apply fixed_status_is_first_final. Qed.

Lemma gen_size_is_accepted_bytes : forall P cfg st0 cs,
  let st := fst (gen_run P cfg st0 cs) in
  size_ok (lg (snd st)) (gen_answers st).
Proof. intros P cfg st0 cs. cbv zeta. rewrite gen_run_eq, gen_answers_eq. apply fixed_size_is_accepted_bytes. Qed.

Lemma gen_written_iff : forall P cfg st0 cs,
  let st := fst (gen_run P cfg st0 cs) in
  written_ok (lg (snd st)) (gen_answers st).
Proof. intros P cfg st0 cs. cbv zeta. rewrite gen_run_eq, gen_answers_eq. apply fixed_written_iff. Qed.

Lemma gen_at_most_one_final_header : forall P cfg st0 cs,
  header_discipline (lg (snd (fst (gen_run P cfg st0 cs)))).
Proof. intros P cfg st0 cs. rewrite gen_run_eq. apply fixed_at_most_one_final_header. Qed.

Lemma gen_bytes_forwarded_in_order : forall P cfg st0 cs c, io_writer_contract P ->
  let st := fst (gen_run P cfg st0 cs) in
  let '(st', r) := gen_step P cfg st c in
  bytes_in_order c r (lg (snd st)) (lg (snd st')).
Proof.
  intros P cfg st0 cs c HP. cbv zeta. rewrite gen_run_eq, gen_step_eq.
  exact (fixed_bytes_forwarded_in_order P cfg cs c HP).
Qed.

Lemma gen_capabilities_delegate_or_notsupported : forall P cfg st c,
  let '(st', r) := gen_step P cfg st c in
  capability_ok cfg c r (p_cap P (tl (u_tr (snd st')))) (lg (snd st)) (lg (snd st')).
Proof. intros P cfg st c. rewrite gen_step_eq. exact (fixed_capabilities P cfg st c). Qed.

(* ---------- non-vacuity ---------- *)

(* fast path (underlying io.ReaderFrom) and a source failing midway: header first, the 5 bytes counted *)
Lemma ex_gen_read_from_fast :
  gen_rec_read_from (pol None false) ex_all st_init ex_src =
    ((mkr 5 200 false, mku [EvBody (S2B "o"); EvBody (S2B "ll"); EvBody (S2B "he"); EvHeader 200] None None), 5%nat, ESrc) /\
  gen_rec_read_from (pol None false) ex_all (mkr 0 200 true, u_init) ex_src = ((mkr 0 200 true, u_init), 0%nat, EHijacked).
Proof. vm_compute. split; reflexivity. Qed.

(* the run of Examples.ex_run_fixed, on a recorder taken dirty from the pool, through the generated methods *)
Lemma ex_gen_run :
  let st := fst (gen_run (pol (Some 2%nat) false) ex_all ex_dirty ex_calls) in
  gen_answers st = mkans 200 true 2 /\
  lg (snd st) = [EvHeader 103; EvHeader 200; EvCap KFlushError; EvBody (S2B "ab"); EvBody []].
Proof. vm_compute. split; reflexivity. Qed.

Lemma ex_gen_step :
  let '(st', r) := gen_step (pol None false) ex_all st_init (CStream 203 (S2B "text/c14") (mksrc (S2B "stream") false 4 false)) in
  lg (snd st') = [EvHeader 203; EvBody (S2B "stre"); EvBody (S2B "am")] /\ r_err r = ENil /\ gen_answers st' = mkans 203 true 6.
Proof. vm_compute. repeat split; reflexivity. Qed.
