(* C14 model: the recorder of /repo/response_writer.go as it is, over an explicit
   underlying-writer automaton, plus the Context helpers of /repo/context.go:295-327.

   The underlying http.ResponseWriter is NOT fox code.  It is modelled as an
   automaton that logs every method call it receives ([u_tr], newest first) and
   whose answers are given by an arbitrary [policy] (a function of that log), so
   theorems quantify over every deterministic underlying writer.  The response
   header map (owned by the underlying writer, reached through the embedded
   Header()) is reduced to the two keys the helpers touch. *)
From FoxBase Require Import Bytes.
From FoxC14 Require Import Types.
From Coq Require Import List.
Import ListNotations.
Open Scope Z_scope.

(* ---------- underlying writer automaton ---------- *)

Record policy := mkpol {
  (* Write(buf) -> (n, err); n is clamped to len(buf) below *)
  p_write : list uev -> bytes -> nat * err;
  (* answer of an optional method (FlushError, Hijack, Push, Set*Deadline, EnableFullDuplex) *)
  p_cap : list uev -> cap -> err
}.

Record ustate := mku {
  u_tr : list uev;          (* calls received, newest first *)
  u_ct : option bytes;      (* Header()["Content-Type"] *)
  u_loc : option bytes      (* Header()["Location"] *)
}.

Definition u_init : ustate := mku [] None None.

Definition uw_header (u : ustate) (code : Z) : ustate :=
  mku (EvHeader code :: u_tr u) (u_ct u) (u_loc u).

Definition uw_write (P : policy) (u : ustate) (buf : bytes) : ustate * nat * err :=
  let '(n0, e) := p_write P (u_tr u) buf in
  let n := Nat.min n0 (length buf) in
  (mku (EvBody (firstn n buf) :: u_tr u) (u_ct u) (u_loc u), n, e).

(* io.StringWriter of the automaton (when offered) behaves like its Write;
   io.WriteString falls back to Write([]byte(s)) otherwise: same log either way *)
Definition uw_write_string (P : policy) (cfg : ucfg) (u : ustate) (s : bytes) : ustate * nat * err :=
  if c_sw cfg then uw_write P u s else uw_write P u s.

Definition uw_cap (P : policy) (u : ustate) (k : cap) : ustate * err :=
  (mku (EvCap k :: u_tr u) (u_ct u) (u_loc u), p_cap P (u_tr u) k).

Definition set_ct (u : ustate) (v : bytes) : ustate := mku (u_tr u) (Some v) (u_loc u).
Definition set_loc (u : ustate) (v : bytes) : ustate := mku (u_tr u) (u_ct u) (Some v).

(* ---------- sources and the io.Copy loop ---------- *)

(* successive Read results of a source: chunks of at most k bytes (k >= 1) *)
Fixpoint split_chunks (fuel : nat) (k : nat) (d : bytes) : list bytes :=
  match fuel with
  | O => []
  | S f => match d with
           | [] => []
           | _ => firstn k d :: split_chunks f k (skipn k d)
           end
  end.

Definition whole (d : bytes) : list bytes := match d with [] => [] | _ => [d] end.

Definition chunks_of (s : source) : list bytes :=
  if s_wt s then whole (s_data s)
  else match s_chunk s with
       | O => whole (s_data s)
       | S k => split_chunks (length (s_data s)) (S k) (s_data s)
       end.

(* does the source end with an error instead of io.EOF *)
Definition src_fails (s : source) : bool := if s_wt s then false else s_fail s.

(* io.CopyBuffer(dst, src, buf) (io.go copyBuffer): for each chunk read, one
   dst.Write; stop on a write error, on a short write (io.ErrShortWrite) or when
   the source ends (EOF -> nil, otherwise its error).  A source with WriteTo
   makes one Write of all its bytes, and none when it is empty: the same loop
   over [whole data].  W is dst.Write on an abstract destination state. *)
Section Copy.
  Context {S : Type} (W : S -> bytes -> S * nat * err).
  Fixpoint copy_chunks (s : S) (cs : list bytes) (written : nat) (fail : bool) : S * nat * err :=
    match cs with
    | [] => (s, written, if fail then ESrc else ENil)
    | c :: cs' =>
        let '(s', nw, ew) := W s c in
        let written' := (written + nw)%nat in
        if is_nil ew then
          if Nat.eqb nw (length c) then copy_chunks s' cs' written' fail
          else (s', written', EShortWrite)
        else (s', written', ew)
    end.
End Copy.

(* ReadFrom of the automaton (when offered): io.Copy onto its own Write, as
   net/http's response.ReadFrom does for small bodies *)
Definition uw_read_from (P : policy) (u : ustate) (src : source) : ustate * nat * err :=
  copy_chunks (uw_write P) u (chunks_of src) 0%nat (src_fails src).

(* ---------- the recorder (response_writer.go:81-288) ---------- *)

Definition not_written : Z := -1.

Record rstate := mkr { r_size : Z; r_status : Z; r_hij : bool }.
Definition r_init : rstate := mkr not_written 200 false.   (* recorder.reset *)

Definition state := (rstate * ustate)%type.
Definition st_init : state := (r_init, u_init).

Definition rec_status (r : rstate) : Z := r_status r.
Definition rec_written (r : rstate) : bool := negb (r_size r =? not_written).
Definition rec_size (r : rstate) : Z := if r_size r <? 0 then 0 else r_size r.
Definition rec_answers (r : rstate) : answers := mkans (rec_status r) (rec_written r) (rec_size r).

(* WriteHeader, :121-144 (log output not modelled) *)
Definition rec_write_header (st : state) (code : Z) : state :=
  let '(r, u) := st in
  if r_hij r then st
  else if negb (r_size r =? not_written) then st
  else if (100 <=? code) && (code <=? 199) && negb (code =? 101) then (r, uw_header u code)
  else (mkr 0 code (r_hij r), uw_header u code).

(* Write, :148-165 *)
Definition rec_write (P : policy) (st : state) (buf : bytes) : state * nat * err :=
  let '(r, u) := st in
  if r_hij r then (st, 0%nat, EHijacked)
  else
    let '(r1, u1) := if r_size r =? not_written
                     then (mkr 0 (r_status r) (r_hij r), uw_header u (r_status r))
                     else (r, u) in
    let '(u2, n, e) := uw_write P u1 buf in
    ((mkr (r_size r1 + Z.of_nat n) (r_status r1) (r_hij r1), u2), n, e).

(* WriteString, :170-187 *)
Definition rec_write_string (P : policy) (cfg : ucfg) (st : state) (s : bytes) : state * nat * err :=
  let '(r, u) := st in
  if r_hij r then (st, 0%nat, EHijacked)
  else
    let '(r1, u1) := if r_size r =? not_written
                     then (mkr 0 (r_status r) (r_hij r), uw_header u (r_status r))
                     else (r, u) in
    let '(u2, n, e) := uw_write_string P cfg u1 s in
    ((mkr (r_size r1 + Z.of_nat n) (r_status r1) (r_hij r1), u2), n, e).

(* ReadFrom, :191-209, AS IT IS: the fast path neither forwards a header nor
   checks hijacked, and counts the bytes only when err == nil *)
Definition rec_read_from (P : policy) (cfg : ucfg) (st : state) (src : source) : state * nat * err :=
  let '(r, u) := st in
  if c_rf cfg then
    let '(u', n, e) := uw_read_from P u src in
    let r' := if is_nil e
              then mkr ((if r_size r =? not_written then 0 else r_size r) + Z.of_nat n) (r_status r) (r_hij r)
              else r in
    ((r', u'), n, e)
  else
    (* io.CopyBuffer(onlyWrite{r}, src, buf) *)
    copy_chunks (rec_write P) st (chunks_of src) 0%nat (src_fails src).

(* FlushError, :213-229 *)
Definition rec_flush_error (P : policy) (cfg : ucfg) (st : state) : state * err :=
  match c_flush cfg with
  | FFlushError | FBoth =>
      let st1 := if r_size (fst st) =? not_written then rec_write_header st (r_status (fst st)) else st in
      let '(u2, e) := uw_cap P (snd st1) KFlushError in
      ((fst st1, u2), e)
  | FFlusher =>
      let st1 := if r_size (fst st) =? not_written then rec_write_header st (r_status (fst st)) else st in
      let '(u2, _) := uw_cap P (snd st1) KFlush in
      ((fst st1, u2), ENil)
  | FNone => (st, ENotSupported)
  end.

(* Push / SetReadDeadline / SetWriteDeadline / EnableFullDuplex, :233-288 *)
Definition rec_delegate (P : policy) (offered : bool) (k : cap) (st : state) : state * err :=
  if offered then let '(u2, e) := uw_cap P (snd st) k in ((fst st, u2), e)
  else (st, ENotSupported).

(* Hijack, :242-248: the flag is set before the underlying answer is known *)
Definition rec_hijack (P : policy) (cfg : ucfg) (st : state) : state * err :=
  if c_hij cfg then
    let '(r, u) := st in
    let '(u2, e) := uw_cap P u KHijack in
    ((mkr (r_size r) (r_status r) true, u2), e)
  else (st, ENotSupported).

(* ---------- Context helpers (context.go:295-327) ---------- *)

Definition ct_empty (u : ustate) : bool :=
  match u_ct u with None => true | Some [] => true | Some _ => false end.

Definition on_u (f : ustate -> ustate) (st : state) : state := (fst st, f (snd st)).

Section Step.
  (* the ReadFrom implementation is a parameter so that ModelFixed.v can reuse
     everything else unchanged *)
  Variable RF : policy -> ucfg -> state -> source -> state * nat * err.
  Variable P : policy.
  Variable cfg : ucfg.

  (* String: fmt.Fprintf makes exactly one Write of the formatted bytes *)
  Definition ctx_string (st : state) (code : Z) (p : bytes) : state * err :=
    let st0 := if ct_empty (snd st) then on_u (fun u => set_ct u text_plain) st else st in
    let st1 := rec_write_header st0 code in
    let '(st2, _, e) := rec_write P st1 p in
    (st2, e).

  Definition ctx_blob (st : state) (code : Z) (ct p : bytes) : state * err :=
    let st0 := on_u (fun u => set_ct u ct) st in
    let st1 := rec_write_header st0 code in
    let '(st2, _, e) := rec_write P st1 p in
    (st2, e).

  (* Stream: io.Copy(c.w, r) = r.WriteTo(c.w) when r has it, else c.w.ReadFrom(r) *)
  Definition ctx_stream (st : state) (code : Z) (ct : bytes) (src : source) : state * err :=
    let st0 := on_u (fun u => set_ct u ct) st in
    let st1 := rec_write_header st0 code in
    let '(st2, _, e) :=
      if s_wt src then copy_chunks (rec_write P) st1 (whole (s_data src)) 0%nat false
      else RF P cfg st1 src in
    (st2, e).

  (* Redirect: range check, then net/http's Redirect on a GET request: Location,
     Content-Type and the HTML body only when no Content-Type key was present *)
  Definition ctx_redirect (st : state) (code : Z) (url body : bytes) : state * err :=
    if (code <? 300) || (308 <? code) then (st, EInvalidRedirect)
    else
      let had_ct := match u_ct (snd st) with Some _ => true | None => false end in
      let st0 := on_u (fun u => set_loc u url) st in
      let st1 := if had_ct then st0 else on_u (fun u => set_ct u text_html) st0 in
      let st2 := rec_write_header st1 code in
      if had_ct then (st2, ENil)
      else let '(st3, _, _) := rec_write P st2 body in (st3, ENil).

  Definition res0 (e : err) : result := mkres 0 e.

  Definition step_with (st : state) (c : call) : state * result :=
    match c with
    | CWriteHeader code => (rec_write_header st code, res0 ENil)
    | CWrite b => let '(st', n, e) := rec_write P st b in (st', mkres (Z.of_nat n) e)
    | CWriteString b => let '(st', n, e) := rec_write_string P cfg st b in (st', mkres (Z.of_nat n) e)
    | CReadFrom s => let '(st', n, e) := RF P cfg st s in (st', mkres (Z.of_nat n) e)
    | CFlushError => let '(st', e) := rec_flush_error P cfg st in (st', res0 e)
    | CHijack => let '(st', e) := rec_hijack P cfg st in (st', res0 e)
    | CPush => let '(st', e) := rec_delegate P (c_push cfg) KPush st in (st', res0 e)
    | CSetReadDeadline => let '(st', e) := rec_delegate P (c_rdl cfg) KRdl st in (st', res0 e)
    | CSetWriteDeadline => let '(st', e) := rec_delegate P (c_wdl cfg) KWdl st in (st', res0 e)
    | CEnableFullDuplex => let '(st', e) := rec_delegate P (c_dup cfg) KDup st in (st', res0 e)
    | CUnwrap => (st, res0 ENil)          (* returns the underlying writer itself *)
    | CString code p => let '(st', e) := ctx_string st code p in (st', res0 e)
    | CBlob code ct p => let '(st', e) := ctx_blob st code ct p in (st', res0 e)
    | CStream code ct s => let '(st', e) := ctx_stream st code ct s in (st', res0 e)
    | CRedirect code url body => let '(st', e) := ctx_redirect st code url body in (st', res0 e)
    end.

  (* a whole handler: the calls in order; returns the final state and, oldest
     first, what each call returned together with the state right after it *)
  Fixpoint run_from (st : state) (cs : list call) : state * list (result * state) :=
    match cs with
    | [] => (st, [])
    | c :: cs' =>
        let '(st1, r) := step_with st c in
        let '(stn, l) := run_from st1 cs' in
        (stn, (r, st1) :: l)
    end.
End Step.

(* the code as it is now *)
Definition step := step_with rec_read_from.
Definition run (P : policy) (cfg : ucfg) (cs : list call) := run_from rec_read_from P cfg st_init cs.
