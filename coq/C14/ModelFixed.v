(* C14 model of the recorder WITH proposed_fixes/C14_readfrom.patch applied: only
   ReadFrom changes (hijacked check, header forwarded first exactly as Write does,
   bytes always counted on the fast path); everything else is Model.v. *)
From FoxBase Require Import Bytes.
From FoxC14 Require Import Types Model.
From Coq Require Import List.
Import ListNotations.
Open Scope Z_scope.

Definition rec_read_from_fixed (P : policy) (cfg : ucfg) (st : state) (src : source) : state * nat * err :=
  let '(r, u) := st in
  if r_hij r then (st, 0%nat, EHijacked)
  else
    let '(r1, u1) := if r_size r =? not_written
                     then (mkr 0 (r_status r) (r_hij r), uw_header u (r_status r))
                     else (r, u) in
    if c_rf cfg then
      let '(u2, n, e) := uw_read_from P u1 src in
      ((mkr (r_size r1 + Z.of_nat n) (r_status r1) (r_hij r1), u2), n, e)
    else
      copy_chunks (rec_write P) (r1, u1) (chunks_of src) 0%nat (src_fails src).

Definition step_fixed := step_with rec_read_from_fixed.
Definition run_fixed (P : policy) (cfg : ucfg) (cs : list call) := run_from rec_read_from_fixed P cfg st_init cs.
