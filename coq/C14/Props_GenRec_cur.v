(* C14, tie A, for a tree whose ReadFrom is NOT the one after the `fix:` commit
   (checks/C14.py: behaviour "cur"): the same method-by-method theorems as
   Props_GenRec.v except ReadFrom, which is only shown to be one of the two bodies
   the models know (ModelFixed.v / Model.v), and the recorder built from the
   generated methods to be the corresponding model.  Every statement here holds on
   both kinds of tree, so this file is part of the area's ordinary build. *)
From FoxBase Require Import Bytes.
From FoxC14 Require Import Types Spec Model ModelFixed RecSem GenRec BridgeRec Lemmas Invariant Corr Examples ExamplesRec.
From Coq Require Import String List ZArith.
Import ListNotations.
Open Scope Z_scope.

(* ---- 1. method by method ---- *)

Theorem gen_reset_is_model : forall st w, gen_rec_reset st w = (r_init, w).
Proof. exact gen_rec_reset_eq. Qed.
Print Assumptions gen_reset_is_model.

Theorem gen_status_is_model : forall st, gen_rec_status st = rec_status (fst st).
Proof. exact gen_rec_status_eq. Qed.
Print Assumptions gen_status_is_model.

Theorem gen_written_is_model : forall st, gen_rec_written st = rec_written (fst st).
Proof. exact gen_rec_written_eq. Qed.
Print Assumptions gen_written_is_model.

Theorem gen_size_is_model : forall st, gen_rec_size st = rec_size (fst st).
Proof. exact gen_rec_size_eq. Qed.
Print Assumptions gen_size_is_model.

Theorem gen_unwrap_is_model : forall st, gen_rec_unwrap st = snd st.
Proof. exact gen_rec_unwrap_eq. Qed.
Print Assumptions gen_unwrap_is_model.

Theorem gen_write_header_is_model : forall st code, gen_rec_write_header st code = rec_write_header st code.
Proof. exact gen_rec_write_header_eq. Qed.
Print Assumptions gen_write_header_is_model.

Theorem gen_write_is_model : forall P st buf, gen_rec_write P st buf = rec_write P st buf.
Proof. exact gen_rec_write_eq. Qed.
Print Assumptions gen_write_is_model.

Theorem gen_write_string_is_model : forall P cfg st s, gen_rec_write_string P cfg st s = rec_write_string P cfg st s.
Proof. exact gen_rec_write_string_eq. Qed.
Print Assumptions gen_write_string_is_model.

Theorem gen_flush_error_is_model : forall P cfg st, gen_rec_flush_error P cfg st = rec_flush_error P cfg st.
Proof. exact gen_rec_flush_error_eq. Qed.
Print Assumptions gen_flush_error_is_model.

Theorem gen_hijack_is_model : forall P cfg st, gen_rec_hijack P cfg st = rec_hijack P cfg st.
Proof. exact gen_rec_hijack_eq. Qed.
Print Assumptions gen_hijack_is_model.

Theorem gen_push_is_model : forall P cfg st, gen_rec_push P cfg st = rec_delegate P (c_push cfg) KPush st.
Proof. exact gen_rec_push_eq. Qed.
Print Assumptions gen_push_is_model.

Theorem gen_set_read_deadline_is_model : forall P cfg st,
  gen_rec_set_read_deadline P cfg st = rec_delegate P (c_rdl cfg) KRdl st.
Proof. exact gen_rec_set_read_deadline_eq. Qed.
Print Assumptions gen_set_read_deadline_is_model.

Theorem gen_set_write_deadline_is_model : forall P cfg st,
  gen_rec_set_write_deadline P cfg st = rec_delegate P (c_wdl cfg) KWdl st.
Proof. exact gen_rec_set_write_deadline_eq. Qed.
Print Assumptions gen_set_write_deadline_is_model.

Theorem gen_enable_full_duplex_is_model : forall P cfg st,
  gen_rec_enable_full_duplex P cfg st = rec_delegate P (c_dup cfg) KDup st.
Proof. exact gen_rec_enable_full_duplex_eq. Qed.
Print Assumptions gen_enable_full_duplex_is_model.

Theorem gen_not_written_is_model : gen_notWritten = not_written.
Proof. exact gen_notWritten_eq. Qed.
Print Assumptions gen_not_written_is_model.

Theorem recorder_fields_foreign_writers :
  gen_rec_foreign_writers = ["cTx.Clone"%string; "newResponseWriter"%string].
Proof. exact gen_rec_foreign_writers_pinned. Qed.
Print Assumptions recorder_fields_foreign_writers.

(* ---- ReadFrom, and the recorder built from the generated methods ---- *)

Theorem gen_read_from_is_a_known_variant :
  (forall P cfg st src, gen_rec_read_from P cfg st src = rec_read_from_fixed P cfg st src) \/
  (forall P cfg st src, gen_rec_read_from P cfg st src = rec_read_from P cfg st src).
Proof. exact gen_rec_read_from_known_variant. Qed.
Print Assumptions gen_read_from_is_a_known_variant.

Theorem gen_step_is_a_model_step :
  (forall P cfg st c, gen_step P cfg st c = step_with rec_read_from_fixed P cfg st c) \/
  (forall P cfg st c, gen_step P cfg st c = step P cfg st c).
Proof. exact gen_step_known_variant. Qed.
Print Assumptions gen_step_is_a_model_step.

Theorem gen_run_is_a_model_run :
  (forall P cfg st0 cs, gen_run P cfg st0 cs = run_fixed P cfg cs) \/
  (forall P cfg st0 cs, gen_run P cfg st0 cs = run P cfg cs).
Proof. exact gen_run_known_variant. Qed.
Print Assumptions gen_run_is_a_model_run.

Theorem gen_answers_is_model : forall st, gen_answers st = rec_answers (fst st).
Proof. exact gen_answers_eq. Qed.
Print Assumptions gen_answers_is_model.

(* ---- non-vacuity ---- *)
Example gen_reset_example : gen_rec_reset ex_dirty u_init = st_init /\ ex_dirty <> st_init.
Proof. exact ex_gen_reset. Qed.
Example gen_write_example :
  gen_rec_write (pol (Some 2%nat) false) st_init (S2B "abc") =
    ((mkr 2 200 false, mku [EvBody (S2B "ab"); EvHeader 200] None None), 2%nat, EUw) /\
  gen_rec_write (pol None false) (mkr 0 200 true, u_init) (S2B "abc") = ((mkr 0 200 true, u_init), 0%nat, EHijacked).
Proof. exact ex_gen_write. Qed.
Example gen_read_from_fallback_example :
  gen_rec_read_from (pol None false) ex_none st_init ex_src =
    ((mkr 5 200 false, mku [EvBody (S2B "o"); EvBody (S2B "ll"); EvBody (S2B "he"); EvHeader 200] None None), 5%nat, ESrc).
Proof. exact ex_gen_read_from_fallback. Qed.
Example gen_flush_error_example :
  gen_rec_flush_error (pol None false) ex_all st_init = ((mkr 0 200 false, mku [EvCap KFlushError; EvHeader 200] None None), ENil) /\
  gen_rec_flush_error (pol None false) ex_flusher_only st_init = ((mkr 0 200 false, mku [EvCap KFlush; EvHeader 200] None None), ENil) /\
  gen_rec_flush_error (pol None false) ex_none st_init = (st_init, ENotSupported).
Proof. exact ex_gen_flush_error. Qed.
Example gen_hijack_example :
  gen_rec_hijack (pol None false) ex_all st_init = ((mkr (-1) 200 true, mku [EvCap KHijack] None None), ENil) /\
  gen_rec_hijack (pol None false) ex_none st_init = (st_init, ENotSupported).
Proof. exact ex_gen_hijack. Qed.
