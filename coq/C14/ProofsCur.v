(* C14: the recorder AS IT IS (Model.v).
   Full:     status_is_first_final, bytes_forwarded_in_order, capabilities, helpers_exact,
             "at most one final status" (the counting half of the header discipline).
   Refuted:  size_is_accepted_bytes, written_iff, "no final status after accepted body bytes",
             fastpath_fallback_agree, each with a concrete witness through the ReadFrom fast path
             (response_writer.go:192-201).
   Partial:  the refuted clauses hold for every underlying writer without io.ReaderFrom. *)
From FoxBase Require Import Bytes.
From FoxC14 Require Import Types Spec Model ModelFixed Lemmas Invariant Effects Corr.
From Coq Require Import List Lia ZArith Bool.
Import ListNotations.
Open Scope Z_scope.

(* ---------- a weaker invariant that survives the fast path ---------- *)

Record InvS (st : state) : Prop := mkInvS {
  invs_sane : r_size (fst st) = not_written \/ 0 <= r_size (fst st);
  invs_nw : r_size (fst st) = not_written -> finals (lg (snd st)) = [] /\ r_status (fst st) = 200;
  invs_w : r_size (fst st) <> not_written ->
           finals (lg (snd st)) = [r_status (fst st)] \/
           (finals (lg (snd st)) = [] /\ r_status (fst st) = 200)
}.

Lemma invs_init : InvS st_init.
Proof. split; simpl; auto. Qed.

(* transitions that keep InvS *)
Lemma invs_keep st st' :
  InvS st ->
  finals (lg (snd st')) = finals (lg (snd st)) -> r_status (fst st') = r_status (fst st) ->
  (r_size (fst st') = r_size (fst st) \/ (0 <= r_size (fst st'))) ->
  InvS st'.
Proof.
  intros [S A B] Hf Hs Hz. split; rewrite ?Hf, ?Hs.
  - destruct Hz as [->|Hz]; auto.
  - intros E. destruct Hz as [Hz|Hz]; [rewrite Hz in E; auto|unfold not_written in E; lia].
  - intros E. destruct (Z.eq_dec (r_size (fst st)) not_written) as [X|X].
    + right. auto.
    + auto.
Qed.

Lemma invs_final st st' c :
  InvS st -> r_size (fst st) = not_written -> final c = true ->
  finals (lg (snd st')) = finals (lg (snd st)) ++ [c] -> r_status (fst st') = c -> 0 <= r_size (fst st') ->
  InvS st'.
Proof.
  intros [S A B] E Hc Hf Hs Hz. destruct (A E) as [Af As]. split; rewrite ?Hf, ?Hs, ?Af; simpl; auto.
  intros X. unfold not_written in X. lia.
Qed.

Lemma finals_snoc_header l c : finals (l ++ [EvHeader c]) = finals l ++ (if final c then [c] else []).
Proof. rewrite finals_app. unfold finals at 2. simpl. destruct (final c); reflexivity. Qed.
Lemma finals_snoc_body l b : finals (l ++ [EvBody b]) = finals l.
Proof. rewrite finals_app. apply app_nil_r. Qed.
Lemma finals_snoc_cap l k : finals (l ++ [EvCap k]) = finals l.
Proof. rewrite finals_app. apply app_nil_r. Qed.

Lemma invs_rec_write_header st c : InvS st -> InvS (rec_write_header st c).
Proof.
  destruct st as [r u]. intros I. unfold rec_write_header.
  destruct (r_hij r); auto.
  destruct (r_size r =? not_written) eqn:E; cbn [negb]; auto. apply eqb_nw_true in E.
  destruct ((100 <=? c) && (c <=? 199) && negb (c =? 101)) eqn:Hc.
  - apply (invs_keep (r, u)); simpl; auto.
    rewrite lg_header, finals_snoc_header, final_spec, Hc. simpl. apply app_nil_r.
  - apply (invs_final (r, u) _ c); simpl; auto; try lia.
    + rewrite final_spec, Hc. reflexivity.
    + rewrite lg_header, finals_snoc_header, final_spec, Hc. reflexivity.
Qed.

Lemma invs_rec_write P st b st' n e : InvS st -> rec_write P st b = (st', n, e) -> InvS st'.
Proof.
  destruct st as [r u]. intros I H. unfold rec_write in H.
  destruct (r_hij r).
  - apply pair_equal_spec in H as [H _]. apply pair_equal_spec in H as [<- _]. exact I.
  - destruct (r_size r =? not_written) eqn:E.
    + apply eqb_nw_true in E.
      destruct (uw_write P (uw_header u (r_status r)) b) as [[u2 n2] e2] eqn:HW.
      apply pair_equal_spec in H as [H _]. apply pair_equal_spec in H as [<- _].
      destruct (uw_write_log _ _ _ _ _ _ HW) as (Hl & _).
      destruct (invs_nw _ I E) as [_ Hs]. simpl in Hs.
      apply (invs_final (r, u) _ (r_status r)); simpl; auto; try lia.
      * rewrite Hs. reflexivity.
      * unfold lg in *. rewrite Hl. fold (lg (uw_header u (r_status r))).
        rewrite finals_snoc_body, lg_header, finals_snoc_header, Hs. reflexivity.
    + apply eqb_nw_false in E.
      destruct (uw_write P u b) as [[u2 n2] e2] eqn:HW.
      apply pair_equal_spec in H as [H _]. apply pair_equal_spec in H as [<- _].
      destruct (uw_write_log _ _ _ _ _ _ HW) as (Hl & _).
      apply (invs_keep (r, u)); simpl; auto.
      * unfold lg in *. rewrite Hl. apply finals_snoc_body.
      * right. destruct (invs_sane _ I) as [X|X]; simpl in X; [contradiction|lia].
Qed.

Lemma invs_copy_rec_write P : forall cs st w fail st' w' e,
  InvS st -> copy_chunks (rec_write P) st cs w fail = (st', w', e) -> InvS st'.
Proof.
  induction cs as [|c cs IH]; intros st w fail st' w' e I H; simpl in H.
  - apply pair_equal_spec in H as [H _]. apply pair_equal_spec in H as [<- _]. exact I.
  - destruct (rec_write P st c) as [[s1 n] ew] eqn:HW.
    pose proof (invs_rec_write _ _ _ _ _ _ I HW) as I1.
    destruct (is_nil ew); [destruct (Nat.eqb n (length c))|].
    + eapply IH; eauto.
    + apply pair_equal_spec in H as [H _]. apply pair_equal_spec in H as [<- _]. exact I1.
    + apply pair_equal_spec in H as [H _]. apply pair_equal_spec in H as [<- _]. exact I1.
Qed.

Lemma invs_rf_cur P cfg st src st' n e : InvS st -> rec_read_from P cfg st src = (st', n, e) -> InvS st'.
Proof.
  destruct st as [r u]. intros I H. unfold rec_read_from in H.
  destruct (c_rf cfg).
  - destruct (uw_read_from P u src) as [[u2 n2] e2] eqn:HR.
    apply pair_equal_spec in H as [H _]. apply pair_equal_spec in H as [<- _].
    destruct (uw_read_from_log _ _ _ _ _ _ HR) as (bs & k & Hl & _).
    apply (invs_keep (r, u)); auto.
    + simpl. rewrite Hl, finals_app, finals_map_body. apply app_nil_r.
    + simpl. destruct (is_nil e2); reflexivity.
    + simpl. destruct (is_nil e2); auto. simpl. right.
      destruct (r_size r =? not_written) eqn:E; [lia|].
      apply eqb_nw_false in E. destruct (invs_sane _ I) as [X|X]; simpl in X; [contradiction|lia].
  - eapply invs_copy_rec_write; eauto.
Qed.

Lemma invs_cap st k h :
  InvS st -> InvS (mkr (r_size (fst st)) (r_status (fst st)) h, mku (EvCap k :: u_tr (snd st)) (u_ct (snd st)) (u_loc (snd st))).
Proof.
  intros I. apply (invs_keep st); simpl; auto. unfold lg. simpl. apply finals_snoc_cap.
Qed.

Lemma invs_cap' st k :
  InvS st -> InvS (fst st, mku (EvCap k :: u_tr (snd st)) (u_ct (snd st)) (u_loc (snd st))).
Proof.
  intros I. apply (invs_keep st); simpl; auto. unfold lg. simpl. apply finals_snoc_cap.
Qed.

Lemma invs_on_u f st : (forall u, u_tr (f u) = u_tr u) -> InvS st -> InvS (on_u f st).
Proof.
  intros Hf I. apply (invs_keep st); simpl; auto. unfold lg. now rewrite Hf.
Qed.

Lemma invs_step P cfg st c st' r : InvS st -> step P cfg st c = (st', r) -> InvS st'.
Proof.
  intros I H. unfold step in H. destruct c; cbn [step_with] in H.
  - apply pair_equal_spec in H as [<- _]. apply invs_rec_write_header; auto.
  - destruct (rec_write P st b) as [[s n] e] eqn:HW. apply pair_equal_spec in H as [<- _]. eapply invs_rec_write; eauto.
  - rewrite rec_write_string_eq in H.
    destruct (rec_write P st b) as [[s n] e] eqn:HW. apply pair_equal_spec in H as [<- _]. eapply invs_rec_write; eauto.
  - destruct (rec_read_from P cfg st s) as [[s1 n] e] eqn:HW. apply pair_equal_spec in H as [<- _]. eapply invs_rf_cur; eauto.
  - destruct (rec_flush_error P cfg st) as [s e] eqn:HW. apply pair_equal_spec in H as [<- _].
    unfold rec_flush_error, uw_cap in HW.
    assert (I1 : InvS (if r_size (fst st) =? not_written then rec_write_header st (r_status (fst st)) else st))
      by (destruct (r_size (fst st) =? not_written); auto using invs_rec_write_header).
    destruct (c_flush cfg); apply pair_equal_spec in HW as [<- _]; auto; apply invs_cap'; exact I1.
  - destruct (rec_hijack P cfg st) as [s e] eqn:HW. apply pair_equal_spec in H as [<- _].
    unfold rec_hijack, uw_cap in HW. destruct (c_hij cfg).
    + destruct st as [r0 u0]. apply pair_equal_spec in HW as [<- _]. apply (invs_cap (r0, u0) KHijack true I).
    + apply pair_equal_spec in HW as [<- _]. exact I.
  - unfold rec_delegate, uw_cap in H. destruct (c_push cfg); apply pair_equal_spec in H as [<- _]; auto using invs_cap'.
  - unfold rec_delegate, uw_cap in H. destruct (c_rdl cfg); apply pair_equal_spec in H as [<- _]; auto using invs_cap'.
  - unfold rec_delegate, uw_cap in H. destruct (c_wdl cfg); apply pair_equal_spec in H as [<- _]; auto using invs_cap'.
  - unfold rec_delegate, uw_cap in H. destruct (c_dup cfg); apply pair_equal_spec in H as [<- _]; auto using invs_cap'.
  - apply pair_equal_spec in H as [<- _]. exact I.
  - unfold ctx_string in H.
    destruct (rec_write P _ payload) as [[s n] e] eqn:HW. apply pair_equal_spec in H as [<- _].
    eapply invs_rec_write; [|exact HW]. apply invs_rec_write_header.
    destruct (ct_empty (snd st)); auto. apply invs_on_u; auto.
  - unfold ctx_blob in H.
    destruct (rec_write P _ payload) as [[s n] e] eqn:HW. apply pair_equal_spec in H as [<- _].
    eapply invs_rec_write; [|exact HW]. apply invs_rec_write_header. apply invs_on_u; auto.
  - unfold ctx_stream in H.
    assert (I1 : InvS (rec_write_header (on_u (fun u => set_ct u ct) st) code))
      by (apply invs_rec_write_header; apply invs_on_u; auto).
    destruct (s_wt s).
    + destruct (copy_chunks (rec_write P) _ (whole (s_data s)) 0%nat false) as [[s1 n] e] eqn:HW.
      apply pair_equal_spec in H as [<- _]. eapply invs_copy_rec_write; eauto.
    + destruct (rec_read_from P cfg _ s) as [[s1 n] e] eqn:HW. apply pair_equal_spec in H as [<- _]. eapply invs_rf_cur; eauto.
  - unfold ctx_redirect in H.
    destruct ((code <? 300) || (308 <? code)).
    + apply pair_equal_spec in H as [<- _]. exact I.
    + assert (I0 : InvS (on_u (fun u => set_loc u url) st)) by (apply invs_on_u; auto).
      destruct (u_ct (snd st)).
      * apply pair_equal_spec in H as [<- _]. apply invs_rec_write_header. exact I0.
      * destruct (rec_write P _ body) as [[s n] e] eqn:HW. apply pair_equal_spec in H as [<- _].
        eapply invs_rec_write; [|exact HW]. apply invs_rec_write_header. apply invs_on_u; auto.
Qed.

Lemma invs_run_from P cfg : forall cs st stn l, InvS st -> run_from rec_read_from P cfg st cs = (stn, l) -> InvS stn.
Proof.
  induction cs as [|c cs IH]; intros st stn l I H; simpl in H.
  - apply pair_equal_spec in H as [<- _]. exact I.
  - fold (step P cfg st c) in H. destruct (step P cfg st c) as [st1 r] eqn:Hs.
    destruct (run_from rec_read_from P cfg st1 cs) as [sn l1] eqn:Hr.
    apply pair_equal_spec in H as [<- _]. eapply IH; [|exact Hr]. eapply invs_step; eauto.
Qed.

Lemma invs_run P cfg cs : InvS (fst (run P cfg cs)).
Proof.
  unfold run. destruct (run_from rec_read_from P cfg st_init cs) as [stn l] eqn:H.
  eapply invs_run_from; eauto using invs_init.
Qed.

Definition final_log P cfg cs : list uev := lg (snd (fst (run P cfg cs))).
Definition final_answers P cfg cs : answers := rec_answers (fst (fst (run P cfg cs))).

(* ---------- full theorems about the pinned code ---------- *)

Lemma cur_status_is_first_final P cfg cs : status_ok (final_log P cfg cs) (final_answers P cfg cs).
Proof.
  unfold status_ok, final_log, final_answers. pose proof (invs_run P cfg cs) as I.
  set (st := fst (run P cfg cs)) in *. simpl. unfold rec_status.
  destruct (Z.eq_dec (r_size (fst st)) not_written) as [E|E].
  - destruct (invs_nw _ I E) as [-> ->]. reflexivity.
  - destruct (invs_w _ I E) as [->|[-> ->]]; reflexivity.
Qed.

Lemma cur_at_most_one_final P cfg cs : (length (finals (final_log P cfg cs)) <= 1)%nat.
Proof.
  unfold final_log. pose proof (invs_run P cfg cs) as I. set (st := fst (run P cfg cs)) in *.
  destruct (Z.eq_dec (r_size (fst st)) not_written) as [E|E].
  - destruct (invs_nw _ I E) as [-> _]. simpl. lia.
  - destruct (invs_w _ I E) as [->|[-> _]]; simpl; lia.
Qed.

Lemma rf_cur_bytes P cfg : rf_bytes_ok (fun _ => True) rec_read_from P cfg.
Proof.
  intros [r u] src st' n e _ H. unfold rec_read_from in H. destruct (c_rf cfg).
  - destruct (uw_read_from P u src) as [[u2 n2] e2] eqn:HR.
    apply pair_equal_spec in H as [H <-]. apply pair_equal_spec in H as [<- <-].
    destruct (uw_read_from_body _ _ _ _ _ _ HR) as (k & A & B & C & D).
    exists k. unfold bodyst. simpl. auto.
  - destruct (copy_rec_write_body _ _ _ _ _ _ _ _ H) as (k & A & B & C & D).
    rewrite chunks_of_concat in *. exists k. repeat split; auto. apply D; auto.
Qed.

Lemma cur_bytes_forwarded_in_order P cfg cs c :
  io_writer_contract P ->
  let st := fst (run P cfg cs) in
  let '(st', r) := step P cfg st c in
  bytes_in_order c r (lg (snd st)) (lg (snd st')).
Proof.
  intros C st. destruct (step P cfg st c) as [st' r] eqn:H.
  eapply (step_bytes rec_read_from P cfg (fun _ => True)); eauto using rf_cur_bytes.
Qed.

Lemma cur_capabilities P cfg st c :
  let '(st', r) := step P cfg st c in
  capability_ok cfg c r (p_cap P (tl (u_tr (snd st')))) (lg (snd st)) (lg (snd st')).
Proof. destruct (step P cfg st c) as [st' r] eqn:H. eapply step_caps; eauto. Qed.

Lemma rf_cur_after_header P cfg code ct src st' n e :
  rec_read_from P cfg (mkr 0 code false, mku [EvHeader code] (Some ct) None) src = (st', n, e) ->
  sent_exactly code (Some ct) None (s_data src) st' e.
Proof.
  unfold rec_read_from. destruct (c_rf cfg).
  - destruct (uw_read_from P (mku [EvHeader code] (Some ct) None) src) as [[u2 n2] e2] eqn:HR.
    intros H. apply pair_equal_spec in H as [H <-]. apply pair_equal_spec in H as [<- <-].
    destruct (uw_read_from_log _ _ _ _ _ _ HR) as (bs & k & Hl & Hc & Hn & He & Hct & Hloc).
    unfold sent_exactly. cbn [fst snd]. rewrite Hl, headers_app, headers_map_body, body_app, body_map_body. simpl.
    repeat split; auto.
    + destruct (is_nil e2); reflexivity.
    + exists k. auto.
  - intros H. rewrite <- chunks_of_concat. eapply copy_after_header; eauto.
Qed.

Lemma cur_helpers_exact P cfg c :
  io_writer_contract P -> is_helper c = true -> final (helper_code c) = true ->
  let '(st', r) := step P cfg st_init c in
  helper_exact c r (lg (snd st')) (u_ct (snd st')) (u_loc (snd st')) (rec_answers (fst st')).
Proof. intros C. apply step_helper_exact; auto. apply rf_cur_after_header. Qed.

(* ---------- partial: every clause holds when the underlying writer has no io.ReaderFrom ---------- *)

Lemma inv_rf_cur_norf P cfg st src st' n e :
  c_rf cfg = false -> Inv st -> rec_read_from P cfg st src = (st', n, e) -> Inv st'.
Proof. intros Hc I H. unfold rec_read_from in H. destruct st as [r u]. rewrite Hc in H. eapply inv_copy_rec_write; eauto. Qed.

Lemma inv_run_norf P cfg cs : c_rf cfg = false -> Inv (fst (run P cfg cs)).
Proof.
  intros Hc. unfold run. destruct (run_from rec_read_from P cfg st_init cs) as [stn l] eqn:H.
  destruct (inv_run rec_read_from P cfg (fun st src st' n e => inv_rf_cur_norf P cfg st src st' n e Hc) _ _ _ _ inv_init H) as [A _].
  exact A.
Qed.

Lemma cur_size_partial P cfg cs : c_rf cfg = false -> size_ok (final_log P cfg cs) (final_answers P cfg cs).
Proof. intros Hc. apply inv_size_ok, inv_run_norf, Hc. Qed.
Lemma cur_written_partial P cfg cs : c_rf cfg = false -> written_ok (final_log P cfg cs) (final_answers P cfg cs).
Proof. intros Hc. apply inv_written_ok, inv_run_norf, Hc. Qed.
Lemma cur_discipline_partial P cfg cs : c_rf cfg = false -> header_discipline (final_log P cfg cs).
Proof. intros Hc. apply inv_discipline, inv_run_norf, Hc. Qed.

(* the StringWriter fast path alone never changes anything *)
Definition same_but_string_writer (a b : ucfg) : Prop := c_rf a = c_rf b /\ same_but_fast_paths a b.

Lemma cur_agree_partial P a b cs : same_but_string_writer a b -> run P a cs = run P b cs.
Proof.
  intros (Hrf & Hf & Hh & Hp & Hr & Hw & Hd). unfold run. generalize st_init.
  induction cs as [|c cs IH]; intros st; [reflexivity|].
  cbn [run_from].
  assert (E : step_with rec_read_from P a st c = step_with rec_read_from P b st c).
  { destruct c; cbn [step_with]; try reflexivity.
    - rewrite !rec_write_string_eq. reflexivity.
    - unfold rec_read_from. rewrite Hrf. reflexivity.
    - unfold rec_flush_error. rewrite Hf. reflexivity.
    - unfold rec_hijack. rewrite Hh. reflexivity.
    - rewrite Hp. reflexivity.
    - rewrite Hr. reflexivity.
    - rewrite Hw. reflexivity.
    - rewrite Hd. reflexivity.
    - unfold ctx_stream, rec_read_from. rewrite Hrf. reflexivity. }
  rewrite E. destruct (step_with rec_read_from P b st c) as [st1 r]. rewrite IH. reflexivity.
Qed.

(* ---------- refuted: witnesses through the fast path ---------- *)

Definition w_cfg : ucfg := mkcfg true false FNone false false false false false.   (* only io.ReaderFrom *)
Definition w_pol : policy := pol None false.                                        (* accepts everything *)
Definition w_failing : source := mksrc (S2B "hello") true 0 false.                  (* 5 bytes, then an error *)
Definition w_empty : source := mksrc [] false 0 false.                              (* EOF at once *)

(* ReadFrom(failing source): 5 bytes accepted, Size() = 0 *)
Lemma cur_size_refuted :
  exists P cfg cs, ~ size_ok (final_log P cfg cs) (final_answers P cfg cs).
Proof. exists w_pol, w_cfg, [CReadFrom w_failing]. vm_compute. discriminate. Qed.

(* same call: 5 bytes accepted, Written() = false *)
Lemma cur_written_refuted_failing :
  exists P cfg cs, body (final_log P cfg cs) <> [] /\ a_written (final_answers P cfg cs) = false.
Proof. exists w_pol, w_cfg, [CReadFrom w_failing]. vm_compute. split; [discriminate|reflexivity]. Qed.

(* ReadFrom(empty source): nothing forwarded, Written() = true *)
Lemma cur_written_refuted_empty :
  exists P cfg cs, final_log P cfg cs = [] /\ a_written (final_answers P cfg cs) = true.
Proof. exists w_pol, w_cfg, [CReadFrom w_empty]. vm_compute. split; reflexivity. Qed.

Lemma cur_written_refuted :
  exists P cfg cs, ~ written_ok (final_log P cfg cs) (final_answers P cfg cs).
Proof.
  exists w_pol, w_cfg, [CReadFrom w_empty]. intros H. apply written_ok_b_iff in H. vm_compute in H. discriminate.
Qed.

(* ReadFrom(failing source) then WriteHeader(500) (what Recovery does): a final status after body bytes *)
Lemma cur_discipline_refuted :
  exists P cfg cs, ~ header_discipline (final_log P cfg cs).
Proof.
  exists w_pol, w_cfg, [CReadFrom w_failing; CWriteHeader 500].
  intros H. apply header_discipline_b_iff in H. vm_compute in H. discriminate.
Qed.

(* the same calls answer differently with and without io.ReaderFrom *)
Lemma cur_agree_refuted :
  exists P a b cs, same_but_fast_paths a b /\
    map (fun rs => rec_answers (fst (snd rs))) (snd (run P a cs)) <>
    map (fun rs => rec_answers (fst (snd rs))) (snd (run P b cs)).
Proof.
  exists w_pol, w_cfg, (twin_cfg w_cfg), [CReadFrom w_failing].
  split; [repeat split|]. vm_compute. discriminate.
Qed.
