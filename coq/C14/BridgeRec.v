(* C14, tie A: the methods of `recorder` as recgen translates them from the tree
   under test (GenRec.v) are equal, for ALL arguments, to the hand-written model
   (Model.v).  ReadFrom is bridged in BridgeRecFixed.v (against ModelFixed.v);
   here it is only shown to be one of the two variants the models know.  Also:
   the handler-visible step function rebuilt from arbitrary method
   implementations (step_of), used to transport the C14 theorems. *)
From FoxBase Require Import Bytes.
From FoxC14 Require Import Types Model ModelFixed RecSem GenRec.
From Coq Require Import List ZArith Bool Lia.
Import ListNotations.
Open Scope Z_scope.

Lemma gen_notWritten_eq : gen_notWritten = not_written.
Proof. reflexivity. Qed.

(* ---------- reset and the getters ---------- *)

Lemma gen_rec_reset_eq : forall st w, gen_rec_reset st w = (r_init, w).
Proof. intros [[sz stt hj] u] w. reflexivity. Qed.

Lemma gen_rec_status_eq : forall st, gen_rec_status st = rec_status (fst st).
Proof. intros [[sz stt hj] u]. reflexivity. Qed.

Lemma gen_rec_written_eq : forall st, gen_rec_written st = rec_written (fst st).
Proof. intros [[sz stt hj] u]. reflexivity. Qed.

Lemma gen_rec_size_eq : forall st, gen_rec_size st = rec_size (fst st).
Proof. intros [[sz stt hj] u]. reflexivity. Qed.

Lemma gen_rec_unwrap_eq : forall st, gen_rec_unwrap st = snd st.
Proof. intros [[sz stt hj] u]. reflexivity. Qed.

(* ---------- WriteHeader / Write / WriteString ---------- *)

Lemma gen_rec_write_header_eq : forall st code, gen_rec_write_header st code = rec_write_header st code.
Proof.
  intros [[sz stt hj] u] code.
  unfold gen_rec_write_header, rec_write_header, gen_notWritten, not_written, set_size, set_status.
  cbn [r_hij r_size r_status].
  destruct hj; [reflexivity|].
  destruct (sz =? -1); cbn [negb]; [|reflexivity].
  (* the informational guard, whatever comparison operators the Go text spells it with
     (code <= 199 and code < 200 are the same test): decide every comparison, then both sides are closed terms *)
  repeat match goal with
  | |- context [Z.geb ?a ?b] => destruct (Z.geb_spec a b)
  | |- context [Z.gtb ?a ?b] => destruct (Z.gtb_spec a b)
  | |- context [Z.leb ?a ?b] => destruct (Z.leb_spec a b)
  | |- context [Z.ltb ?a ?b] => destruct (Z.ltb_spec a b)
  | |- context [Z.eqb ?a ?b] => destruct (Z.eqb_spec a b)
  end; cbn [andb negb]; try reflexivity; lia.
Qed.

Lemma gen_rec_write_eq : forall P st buf, gen_rec_write P st buf = rec_write P st buf.
Proof.
  intros P [[sz stt hj] u] buf.
  unfold gen_rec_write, rec_write, gen_notWritten, not_written, set_size.
  cbn [r_hij r_size r_status].
  destruct hj; [reflexivity|].
  destruct (sz =? -1); cbn [r_hij r_size r_status];
    match goal with |- context [uw_write ?P ?u ?b] => destruct (uw_write P u b) as [[u2 n] e] end; reflexivity.
Qed.

Lemma gen_rec_write_string_eq : forall P cfg st s, gen_rec_write_string P cfg st s = rec_write_string P cfg st s.
Proof.
  intros P cfg [[sz stt hj] u] s.
  unfold gen_rec_write_string, rec_write_string, gen_notWritten, not_written, set_size.
  cbn [r_hij r_size r_status].
  destruct hj; [reflexivity|].
  destruct (sz =? -1); cbn [r_hij r_size r_status];
    match goal with |- context [uw_write_string ?P ?c ?u ?b] => destruct (uw_write_string P c u b) as [[u2 n] e] end; reflexivity.
Qed.

(* ---------- FlushError ---------- *)

Lemma gen_rec_flush_error_eq : forall P cfg st, gen_rec_flush_error P cfg st = rec_flush_error P cfg st.
Proof.
  intros P cfg [[sz stt hj] u].
  unfold gen_rec_flush_error, rec_flush_error, offers_flush_error, offers_flusher, gen_notWritten, not_written.
  cbn [fst snd r_hij r_size r_status].
  destruct (c_flush cfg); try reflexivity;
    (destruct (sz =? -1);
     [ rewrite gen_rec_write_header_eq; destruct (rec_write_header _ _) as [r1 u1] | ];
     cbn [fst snd];
     match goal with |- context [uw_cap ?P ?u ?k] => destruct (uw_cap P u k) as [u2 e] end; reflexivity).
Qed.

(* ---------- Hijack and the plain delegations ---------- *)

Lemma gen_rec_hijack_eq : forall P cfg st, gen_rec_hijack P cfg st = rec_hijack P cfg st.
Proof.
  intros P cfg [[sz stt hj] u].
  unfold gen_rec_hijack, rec_hijack, set_hij. cbn [r_hij r_size r_status].
  destruct (c_hij cfg); [|reflexivity].
  destruct (uw_cap P u KHijack) as [u2 e]; reflexivity.
Qed.

Ltac delegation :=
  intros P cfg [[sz stt hj] u]; unfold rec_delegate; cbn [fst snd];
  match goal with |- context [if ?c then _ else _] => destruct c end; [|reflexivity];
  match goal with |- context [uw_cap ?P ?u ?k] => destruct (uw_cap P u k) as [u2 e] end; reflexivity.

Lemma gen_rec_push_eq : forall P cfg st, gen_rec_push P cfg st = rec_delegate P (c_push cfg) KPush st.
Proof. unfold gen_rec_push. delegation. Qed.

Lemma gen_rec_set_read_deadline_eq : forall P cfg st,
  gen_rec_set_read_deadline P cfg st = rec_delegate P (c_rdl cfg) KRdl st.
Proof. unfold gen_rec_set_read_deadline. delegation. Qed.

Lemma gen_rec_set_write_deadline_eq : forall P cfg st,
  gen_rec_set_write_deadline P cfg st = rec_delegate P (c_wdl cfg) KWdl st.
Proof. unfold gen_rec_set_write_deadline. delegation. Qed.

Lemma gen_rec_enable_full_duplex_eq : forall P cfg st,
  gen_rec_enable_full_duplex P cfg st = rec_delegate P (c_dup cfg) KDup st.
Proof. unfold gen_rec_enable_full_duplex. delegation. Qed.

(* ---------- ReadFrom ---------- *)

Lemma copy_chunks_ext : forall (S : Type) (W1 W2 : S -> bytes -> S * nat * err),
  (forall s b, W1 s b = W2 s b) ->
  forall cs s w f, copy_chunks W1 s cs w f = copy_chunks W2 s cs w f.
Proof.
  intros S W1 W2 HW cs. induction cs as [|c cs IH]; intros s w f; cbn [copy_chunks]; [reflexivity|].
  rewrite HW. destruct (W2 s c) as [[s' nw] ew].
  destruct (is_nil ew); [|reflexivity].
  destruct (Nat.eqb nw (length c)); [apply IH|reflexivity].
Qed.

Definition read_from_is_fixed : Prop :=
  forall P cfg st src, gen_rec_read_from P cfg st src = rec_read_from_fixed P cfg st src.
Definition read_from_is_prefix : Prop :=
  forall P cfg st src, gen_rec_read_from P cfg st src = rec_read_from P cfg st src.

Ltac read_from_tac :=
  intros P cfg [[sz stt hj] u] src;
  unfold gen_rec_read_from, rec_read_from_fixed, rec_read_from, io_copy_buffer, gen_notWritten, not_written, set_size;
  cbn [r_hij r_size r_status];
  repeat match goal with
         | |- context [if ?c then _ else _] =>
             lazymatch c with
             | context [if _ then _ else _] => fail
             | _ => destruct c eqn:?
             end; cbn [r_hij r_size r_status is_nil]
         | |- context [copy_chunks (gen_rec_write ?P)] =>
             rewrite (copy_chunks_ext _ _ _ (gen_rec_write_eq P))
         | |- context [uw_read_from ?P ?u ?s] => destruct (uw_read_from P u s) as [[?u ?n] ?e]
         | |- context [copy_chunks ?W ?s ?cs ?w ?f] => destruct (copy_chunks W s cs w f) as [[[?r ?u] ?n] ?e]
         end;
  try reflexivity; try discriminate.

(* whatever the tree under test has, it is one of the two ReadFrom bodies the
   models know: the one after the `fix:` commit (ModelFixed.v) or the one before *)
Lemma gen_rec_read_from_known_variant : read_from_is_fixed \/ read_from_is_prefix.
Proof. first [ left; red; read_from_tac; fail | right; red; read_from_tac; fail ]. Qed.

(* ---------- the step function over arbitrary method implementations ---------- *)

Section StepOf.
  Variable WH : state -> Z -> state.
  Variable W : policy -> state -> bytes -> state * nat * err.
  Variable WS : policy -> ucfg -> state -> bytes -> state * nat * err.
  Variable RF : policy -> ucfg -> state -> source -> state * nat * err.
  Variable FE HJ PU RD WD FD : policy -> ucfg -> state -> state * err.
  Variable P : policy.
  Variable cfg : ucfg.

  (* the Context helpers of Model.v (context.go), over WH / W / RF *)
  Definition ctx_string_of (st : state) (code : Z) (p : bytes) : state * err :=
    let st0 := if ct_empty (snd st) then on_u (fun u => set_ct u text_plain) st else st in
    let st1 := WH st0 code in
    let '(st2, _, e) := W P st1 p in
    (st2, e).

  Definition ctx_blob_of (st : state) (code : Z) (ct p : bytes) : state * err :=
    let st0 := on_u (fun u => set_ct u ct) st in
    let st1 := WH st0 code in
    let '(st2, _, e) := W P st1 p in
    (st2, e).

  Definition ctx_stream_of (st : state) (code : Z) (ct : bytes) (src : source) : state * err :=
    let st0 := on_u (fun u => set_ct u ct) st in
    let st1 := WH st0 code in
    let '(st2, _, e) :=
      if s_wt src then copy_chunks (W P) st1 (whole (s_data src)) 0%nat false
      else RF P cfg st1 src in
    (st2, e).

  Definition ctx_redirect_of (st : state) (code : Z) (url body : bytes) : state * err :=
    if (code <? 300) || (308 <? code) then (st, EInvalidRedirect)
    else
      let had_ct := match u_ct (snd st) with Some _ => true | None => false end in
      let st0 := on_u (fun u => set_loc u url) st in
      let st1 := if had_ct then st0 else on_u (fun u => set_ct u text_html) st0 in
      let st2 := WH st1 code in
      if had_ct then (st2, ENil)
      else let '(st3, _, _) := W P st2 body in (st3, ENil).

  Definition step_of (st : state) (c : call) : state * result :=
    match c with
    | CWriteHeader code => (WH st code, res0 ENil)
    | CWrite b => let '(st', n, e) := W P st b in (st', mkres (Z.of_nat n) e)
    | CWriteString b => let '(st', n, e) := WS P cfg st b in (st', mkres (Z.of_nat n) e)
    | CReadFrom s => let '(st', n, e) := RF P cfg st s in (st', mkres (Z.of_nat n) e)
    | CFlushError => let '(st', e) := FE P cfg st in (st', res0 e)
    | CHijack => let '(st', e) := HJ P cfg st in (st', res0 e)
    | CPush => let '(st', e) := PU P cfg st in (st', res0 e)
    | CSetReadDeadline => let '(st', e) := RD P cfg st in (st', res0 e)
    | CSetWriteDeadline => let '(st', e) := WD P cfg st in (st', res0 e)
    | CEnableFullDuplex => let '(st', e) := FD P cfg st in (st', res0 e)
    | CUnwrap => (st, res0 ENil)
    | CString code p => let '(st', e) := ctx_string_of st code p in (st', res0 e)
    | CBlob code ct p => let '(st', e) := ctx_blob_of st code ct p in (st', res0 e)
    | CStream code ct s => let '(st', e) := ctx_stream_of st code ct s in (st', res0 e)
    | CRedirect code url body => let '(st', e) := ctx_redirect_of st code url body in (st', res0 e)
    end.

  Fixpoint run_of (st : state) (cs : list call) : state * list (result * state) :=
    match cs with
    | [] => (st, [])
    | c :: cs' =>
        let '(st1, r) := step_of st c in
        let '(stn, l) := run_of st1 cs' in
        (stn, (r, st1) :: l)
    end.
End StepOf.

(* step_of is extensional in the methods (no functional-extensionality axiom) *)
Lemma step_of_ext : forall WH WH' W W' WS WS' RF RF' FE FE' HJ HJ' PU PU' RD RD' WD WD' FD FD',
  (forall st c, WH st c = WH' st c) ->
  (forall P st b, W P st b = W' P st b) ->
  (forall P cfg st b, WS P cfg st b = WS' P cfg st b) ->
  (forall P cfg st s, RF P cfg st s = RF' P cfg st s) ->
  (forall P cfg st, FE P cfg st = FE' P cfg st) ->
  (forall P cfg st, HJ P cfg st = HJ' P cfg st) ->
  (forall P cfg st, PU P cfg st = PU' P cfg st) ->
  (forall P cfg st, RD P cfg st = RD' P cfg st) ->
  (forall P cfg st, WD P cfg st = WD' P cfg st) ->
  (forall P cfg st, FD P cfg st = FD' P cfg st) ->
  forall P cfg st c,
    step_of WH W WS RF FE HJ PU RD WD FD P cfg st c = step_of WH' W' WS' RF' FE' HJ' PU' RD' WD' FD' P cfg st c.
Proof.
  intros WH WH' W W' WS WS' RF RF' FE FE' HJ HJ' PU PU' RD RD' WD WD' FD FD'
         HWH HW HWS HRF HFE HHJ HPU HRD HWD HFD P cfg st c.
  destruct c; cbn [step_of];
    unfold ctx_string_of, ctx_blob_of, ctx_stream_of, ctx_redirect_of;
    rewrite ?HWH, ?HW, ?HWS, ?HRF, ?HFE, ?HHJ, ?HPU, ?HRD, ?HWD, ?HFD;
    rewrite ?(copy_chunks_ext _ _ _ (HW P)); reflexivity.
Qed.

Lemma run_of_ext : forall WH W WS RF FE HJ PU RD WD FD WH' W' WS' RF' FE' HJ' PU' RD' WD' FD' P cfg,
  (forall st c, step_of WH W WS RF FE HJ PU RD WD FD P cfg st c = step_of WH' W' WS' RF' FE' HJ' PU' RD' WD' FD' P cfg st c) ->
  forall cs st, run_of WH W WS RF FE HJ PU RD WD FD P cfg st cs = run_of WH' W' WS' RF' FE' HJ' PU' RD' WD' FD' P cfg st cs.
Proof.
  intros until cfg. intros H cs. induction cs as [|c cs IH]; intros st; cbn [run_of]; [reflexivity|].
  rewrite H. destruct (step_of _ _ _ _ _ _ _ _ _ _ _ _ st c) as [st1 r]. rewrite IH. reflexivity.
Qed.

(* the hand-written step function is step_of over the hand-written methods *)
Definition model_delegate (offered : ucfg -> bool) (k : cap) (P : policy) (cfg : ucfg) (st : state) : state * err :=
  rec_delegate P (offered cfg) k st.

Lemma step_with_is_step_of : forall RF P cfg st c,
  step_with RF P cfg st c =
  step_of rec_write_header rec_write rec_write_string RF rec_flush_error rec_hijack
          (model_delegate c_push KPush) (model_delegate c_rdl KRdl) (model_delegate c_wdl KWdl) (model_delegate c_dup KDup)
          P cfg st c.
Proof. intros RF P cfg st c. destruct c; reflexivity. Qed.

Lemma run_from_is_run_of : forall RF P cfg cs st,
  run_from RF P cfg st cs =
  run_of rec_write_header rec_write rec_write_string RF rec_flush_error rec_hijack
         (model_delegate c_push KPush) (model_delegate c_rdl KRdl) (model_delegate c_wdl KWdl) (model_delegate c_dup KDup)
         P cfg st cs.
Proof.
  intros RF P cfg cs. induction cs as [|c cs IH]; intros st; cbn [run_from run_of]; [reflexivity|].
  rewrite step_with_is_step_of.
  destruct (step_of _ _ _ _ _ _ _ _ _ _ _ _ st c) as [st1 r]. rewrite IH. reflexivity.
Qed.

(* ---------- the recorder a handler sees, built from the GENERATED methods only ---------- *)

Definition gen_step : policy -> ucfg -> state -> call -> state * result :=
  step_of gen_rec_write_header gen_rec_write gen_rec_write_string gen_rec_read_from gen_rec_flush_error gen_rec_hijack
          gen_rec_push gen_rec_set_read_deadline gen_rec_set_write_deadline gen_rec_enable_full_duplex.

Definition gen_run_from : policy -> ucfg -> state -> list call -> state * list (result * state) :=
  run_of gen_rec_write_header gen_rec_write gen_rec_write_string gen_rec_read_from gen_rec_flush_error gen_rec_hijack
         gen_rec_push gen_rec_set_read_deadline gen_rec_set_write_deadline gen_rec_enable_full_duplex.

(* a request: the pooled recorder, whatever an earlier request left in it (st0), is
   reset onto a fresh underlying writer, then the handler's calls run *)
Definition gen_run (P : policy) (cfg : ucfg) (st0 : state) (cs : list call) :=
  gen_run_from P cfg (gen_rec_reset st0 u_init) cs.

(* Status() / Written() / Size() *)
Definition gen_answers (st : state) : answers :=
  mkans (gen_rec_status st) (gen_rec_written st) (gen_rec_size st).

Lemma gen_answers_eq : forall st, gen_answers st = rec_answers (fst st).
Proof.
  intros st. unfold gen_answers, rec_answers.
  rewrite gen_rec_status_eq, gen_rec_written_eq, gen_rec_size_eq. reflexivity.
Qed.

Lemma gen_step_eq_with : forall RF,
  (forall P cfg st s, gen_rec_read_from P cfg st s = RF P cfg st s) ->
  forall P cfg st c, gen_step P cfg st c = step_with RF P cfg st c.
Proof.
  intros RF HRF P cfg st c. rewrite step_with_is_step_of. unfold gen_step.
  apply step_of_ext; intros; unfold model_delegate;
    auto using gen_rec_write_header_eq, gen_rec_write_eq, gen_rec_write_string_eq, gen_rec_flush_error_eq,
      gen_rec_hijack_eq, gen_rec_push_eq, gen_rec_set_read_deadline_eq, gen_rec_set_write_deadline_eq,
      gen_rec_enable_full_duplex_eq.
Qed.

Lemma gen_run_eq_with : forall RF,
  (forall P cfg st s, gen_rec_read_from P cfg st s = RF P cfg st s) ->
  forall P cfg st0 cs, gen_run P cfg st0 cs = run_from RF P cfg st_init cs.
Proof.
  intros RF HRF P cfg st0 cs. unfold gen_run, gen_run_from.
  rewrite gen_rec_reset_eq, run_from_is_run_of. fold st_init.
  apply run_of_ext. intros st c.
  pose proof (gen_step_eq_with RF HRF P cfg st c) as H. unfold gen_step in H. rewrite H.
  apply step_with_is_step_of.
Qed.

(* whichever of the two ReadFrom bodies the tree has, the recorder built from the
   generated methods is the corresponding model *)
Lemma gen_step_known_variant :
  (forall P cfg st c, gen_step P cfg st c = step_with rec_read_from_fixed P cfg st c) \/
  (forall P cfg st c, gen_step P cfg st c = step P cfg st c).
Proof.
  destruct gen_rec_read_from_known_variant as [H|H]; [left|right]; exact (gen_step_eq_with _ H).
Qed.

Lemma gen_run_known_variant :
  (forall P cfg st0 cs, gen_run P cfg st0 cs = run_fixed P cfg cs) \/
  (forall P cfg st0 cs, gen_run P cfg st0 cs = run P cfg cs).
Proof.
  destruct gen_rec_read_from_known_variant as [H|H]; [left|right]; exact (gen_run_eq_with _ H).
Qed.
