(* C14 correspondence for NESTED routers (Nested.v): a case = one request served by a
   parent fox router over a recording underlying writer, in which a handler of the
   parent mounts a child fox router on the parent's Context.Writer() (WrapH, WrapF,
   child.ServeHTTP(c.Writer(), r), NewTestContext(c.Writer(), r)).  The calls are
   tagged with who makes them (a parent handler on the parent's Context, or the child's
   handler on the child's Context).  After EVERY call the harness reads the PARENT's
   Status/Written/Size (what the parent's Logger / Recovery / metrics middleware see),
   the calls that reached the real writer and the header changes, and for the child's
   calls also the child's own Status/Written/Size. *)
From FoxBase Require Import Bytes.
From FoxC14 Require Import Types Spec Model ModelFixed Corr Nested.
From Coq Require Import List.
Import ListNotations.
Open Scope Z_scope.

Record nobs := mknobs {
  no_obs : obs;                 (* PARENT's answers; what the call returned; log / header delta at the real writer *)
  no_child : option answers     (* the child's own answers (child calls only) *)
}.
Definition NP (o : obs) : nobs := mknobs o None.
Definition NC (o : obs) (st : Z) (w : bool) (sz : Z) : nobs := mknobs o (Some (mkans st w sz)).
Definition PC (c : call) : who * call := (Parent, c).
Definition CC (c : call) : who * call := (Child, c).

Record ncase := mkncase {
  n_cfg : ucfg;
  n_budget : option nat;
  n_capfail : bool;
  n_calls : list (who * call);
  n_obs : list nobs;
  n_twin : option (list nobs)     (* the same request on the kind without ReaderFrom / StringWriter *)
}.

Definition nobs_eqb (a b : nobs) : bool :=
  obs_eqb (no_obs a) (no_obs b) && opt_eqb ans_eqb (no_child a) (no_child b).

(* ---------- model -> observations ---------- *)

Definition nobs_of (ns0 : nstate) (w : who) (r : result) (ns1 : nstate) : nobs :=
  mknobs (obs_of (snd ns0) r (snd ns1))
         (match w with Child => Some (rec_answers (fst ns1)) | Parent => None end).

Fixpoint nobs_list (ns0 : nstate) (cs : list (who * call)) (l : list (result * nstate)) : list nobs :=
  match cs, l with
  | wc :: cs', (r, ns1) :: t => nobs_of ns0 (fst wc) r ns1 :: nobs_list ns1 cs' t
  | _, _ => []
  end.

Section WithRF.
  Variable RF : policy -> ucfg -> state -> source -> state * nat * err.
  Variable fx : bool.

  Definition nmodel_obs (cfg : ucfg) (c : ncase) : list nobs :=
    nobs_list nst_init (n_calls c)
              (snd (nrun_from RF fx (pol (n_budget c) (n_capfail c)) cfg nst_init (n_calls c))).

  Definition nmodel_agrees (c : ncase) : bool :=
    list_eqb nobs_eqb (nmodel_obs (n_cfg c) c) (n_obs c) &&
    match n_twin c with
    | None => true
    | Some t => list_eqb nobs_eqb (nmodel_obs (twin_cfg (n_cfg c)) c) t
    end.
End WithRF.

(* ---------- specification on observations ----------
   The clauses of Spec.v, with the PARENT's answers against the log of the real writer:
   whoever wrote (a parent handler or the mounted router), Status / Size / Written of the
   parent's ResponseWriter reflect what was really sent, at most one final status reaches the
   real writer and none after accepted body bytes, the bytes of every call arrive in order. *)

(* a capability called on the CHILD's writer: delegated down to the real writer when it
   offers it, exactly as for a single recorder; when it does not, the error matches
   ErrNotSupported and nothing reaches the real writer, except that a Flush may have
   committed the pending header (the child sees a parent that HAS FlushError) *)
Definition ncap_ok_b (cfg : ucfg) (c : call) (r : result) (answer : cap -> err) (delta : list uev) : bool :=
  match cap_of_call cfg c with
  | Some None =>
      forallb is_header delta &&
      (match c with CFlushError => true | _ => negb (nonempty delta) end) &&
      err_eqb (r_err r) ENotSupported
  | _ => capability_ok_b cfg c r answer delta
  end.

Definition is_hijack_call (c : call) : bool := match c with CHijack => true | _ => false end.

(* [chij]: the child's handler called Hijack earlier (the child's recorder then refuses
   every write, whatever the answer was: helper exactness is claimed for a response
   nothing has been attempted on) *)
Definition nstep_spec_b (cfg : ucfg) (capfail : bool) (before : list uev) (ct loc : option bytes) (chij : bool)
           (wc : who * call) (o : nobs) : bool :=
  let c := snd wc in
  let ob := no_obs o in
  let after := before ++ o_log ob in
  let '(ct', loc') := apply_hdr (o_hdr ob) ct loc in
  status_ok_b after (o_ans ob) && size_ok_b after (o_ans ob) && written_ok_b after (o_ans ob) &&
  header_discipline_b after &&
  bytes_in_order_b c (o_res ob) (body (o_log ob)) &&
  (match fst wc with
   | Parent => capability_ok_b cfg c (o_res ob) (cap_answer capfail) (o_log ob)
   | Child => ncap_ok_b cfg c (o_res ob) (cap_answer capfail) (o_log ob)
   end) &&
  (negb (is_helper c && fresh before ct loc && final (helper_code c) &&
         (match fst wc with Parent => true | Child => negb chij end)) ||
   (helper_exact_b c (o_res ob) (o_log ob) ct' loc' (o_ans ob) &&
    match no_child o with
    | Some a => helper_exact_b c (o_res ob) (o_log ob) ct' loc' a
    | None => true
    end)) &&
  (match c with CUnwrap => is_nil (r_err (o_res ob)) && negb (nonempty (o_log ob)) | _ => true end).

Fixpoint nrun_spec_b (cfg : ucfg) (capfail : bool) (before : list uev) (ct loc : option bytes) (chij : bool)
         (cs : list (who * call)) (os : list nobs) : bool :=
  match cs, os with
  | [], [] => true
  | wc :: cs', o :: os' =>
      nstep_spec_b cfg capfail before ct loc chij wc o &&
      (let '(ct', loc') := apply_hdr (o_hdr (no_obs o)) ct loc in
       nrun_spec_b cfg capfail (before ++ o_log (no_obs o)) ct' loc'
                   (chij || (match fst wc with Child => is_hijack_call (snd wc) | Parent => false end))
                   cs' os')
  | _, _ => false
  end.

Definition nspec_ok (c : ncase) : bool :=
  nrun_spec_b (n_cfg c) (n_capfail c) [] None None false (n_calls c) (n_obs c) &&
  match n_twin c with
  | None => negb (has_fast_path (n_cfg c))
  | Some t => nrun_spec_b (twin_cfg (n_cfg c)) (n_capfail c) [] None None false (n_calls c) t &&
              list_eqb nobs_eqb (n_obs c) t
  end.

(* ---------- attribution to the known finding c14_readfrom_accounting (pinned ReadFrom only) ---------- *)

Definition noutcome_eqb (a b : nstate * result) : bool :=
  rstate_eqb (fst (fst a)) (fst (fst b)) &&
  rstate_eqb (fst (snd (fst a))) (fst (snd (fst b))) &&
  ustate_eqb (snd (snd (fst a))) (snd (snd (fst b))) &&
  res_eqb (snd a) (snd b).

Definition ndefect_at (P : policy) (cfg : ucfg) (ns : nstate) (wc : who * call) : bool :=
  match snd wc with
  | CReadFrom _ => true
  | CStream _ _ s => negb (s_wt s)
  | _ => false
  end &&
  negb (noutcome_eqb (nstep rec_read_from false P cfg ns wc) (nstep rec_read_from_fixed true P cfg ns wc)).

Fixpoint nfirst_defect (P : policy) (cfg : ucfg) (ns : nstate) (cs : list (who * call)) (i : nat) : option nat :=
  match cs with
  | [] => None
  | c :: cs' => if ndefect_at P cfg ns c then Some i
                else nfirst_defect P cfg (fst (nstep rec_read_from false P cfg ns c)) cs' (S i)
  end.

Definition ntruncate (n : nat) (c : ncase) : ncase :=
  mkncase (n_cfg c) (n_budget c) (n_capfail c) (firstn n (n_calls c)) (firstn n (n_obs c))
          (option_map (firstn n) (n_twin c)).

Definition nknown_readfrom (c : ncase) : bool :=
  negb (nspec_ok c) &&
  match nfirst_defect (pol (n_budget c) (n_capfail c)) (n_cfg c) nst_init (n_calls c) 0%nat with
  | Some i => nspec_ok (ntruncate i c)
  | None => false
  end.

(* ---------- both families of cases in one list ---------- *)

Definition xcase := (case + ncase)%type.
Definition S1 (c : case) : xcase := inl c.
Definition N2 (c : ncase) : xcase := inr c.

Definition xmismatches_cur (cs : list xcase) : list nat :=
  true_idx (map (fun x => match x with
                          | inl c => negb (model_agrees rec_read_from c)
                          | inr n => negb (nmodel_agrees rec_read_from false n)
                          end) cs).
Definition xmismatches_fixed (cs : list xcase) : list nat :=
  true_idx (map (fun x => match x with
                          | inl c => negb (model_agrees rec_read_from_fixed c)
                          | inr n => negb (nmodel_agrees rec_read_from_fixed true n)
                          end) cs).
Definition xspec_violations (cs : list xcase) : list nat :=
  true_idx (map (fun x => match x with inl c => negb (spec_ok c) | inr n => negb (nspec_ok n) end) cs).
Definition xknown_cur (cs : list xcase) : list nat :=
  true_idx (map (fun x => match x with inl c => known_readfrom c | inr n => nknown_readfrom n end) cs).
Definition xfuel_outs (cs : list xcase) : list nat := @nil nat.
