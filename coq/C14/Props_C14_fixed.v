(* C14 property theorems about the recorder WITH proposed_fixes/C14_readfrom.patch
   (ModelFixed.v): every clause at full strength.  Used by checks/C14.py when the
   tree under test shows the patched ReadFrom behaviour. *)
From FoxBase Require Import Bytes.
From FoxC14 Require Import Types Spec Model ModelFixed Lemmas Invariant Effects Corr ProofsFixed ProofsCur Examples Nested ProofsNested.
From Coq Require Import List ZArith.
Import ListNotations.
Open Scope Z_scope.

Theorem status_is_first_final : forall P cfg cs,
  let st := fst (run_fixed P cfg cs) in
  status_ok (lg (snd st)) (rec_answers (fst st)).
Proof. exact fixed_status_is_first_final. Qed.
Print Assumptions status_is_first_final.

Theorem size_is_accepted_bytes : forall P cfg cs,
  let st := fst (run_fixed P cfg cs) in
  size_ok (lg (snd st)) (rec_answers (fst st)).
Proof. exact fixed_size_is_accepted_bytes. Qed.
Print Assumptions size_is_accepted_bytes.

Theorem written_iff : forall P cfg cs,
  let st := fst (run_fixed P cfg cs) in
  written_ok (lg (snd st)) (rec_answers (fst st)).
Proof. exact fixed_written_iff. Qed.
Print Assumptions written_iff.

Theorem at_most_one_final_header : forall P cfg cs,
  header_discipline (lg (snd (fst (run_fixed P cfg cs)))).
Proof. exact fixed_at_most_one_final_header. Qed.
Print Assumptions at_most_one_final_header.

Theorem bytes_forwarded_in_order : forall P cfg cs c, io_writer_contract P ->
  let st := fst (run_fixed P cfg cs) in
  let '(st', r) := step_fixed P cfg st c in
  bytes_in_order c r (lg (snd st)) (lg (snd st')).
Proof. exact fixed_bytes_forwarded_in_order. Qed.
Print Assumptions bytes_forwarded_in_order.

(* final state, every returned value and every intermediate state (hence every
   answer and the whole underlying log) are identical *)
Theorem fastpath_fallback_agree : forall P a b cs,
  same_but_fast_paths a b -> run_fixed P a cs = run_fixed P b cs.
Proof. exact fixed_fastpath_fallback_agree. Qed.
Print Assumptions fastpath_fallback_agree.

Theorem capabilities_delegate_or_notsupported : forall P cfg st c,
  let '(st', r) := step_fixed P cfg st c in
  capability_ok cfg c r (p_cap P (tl (u_tr (snd st')))) (lg (snd st)) (lg (snd st')).
Proof. exact fixed_capabilities. Qed.
Print Assumptions capabilities_delegate_or_notsupported.

Theorem helpers_exact : forall P cfg c,
  io_writer_contract P -> is_helper c = true -> final (helper_code c) = true ->
  let '(st', r) := step_fixed P cfg st_init c in
  helper_exact c r (lg (snd st')) (u_ct (snd st')) (u_loc (snd st')) (rec_answers (fst st')).
Proof. exact fixed_helpers_exact. Qed.
Print Assumptions helpers_exact.
Theorem redirect_accepts_exactly_300_308 : forall P cfg st code url b,
  r_err (snd (step_fixed P cfg st (CRedirect code url b))) = ENil <-> 300 <= code <= 308.
Proof. exact (redirect_accepts_iff rec_read_from_fixed). Qed.
Print Assumptions redirect_accepts_exactly_300_308.

Theorem checker_header_discipline : forall l, header_discipline_b l = true <-> header_discipline l.
Proof. exact header_discipline_b_iff. Qed.
Print Assumptions checker_header_discipline.
Theorem checker_written : forall l a, written_ok_b l a = true <-> written_ok l a.
Proof. exact written_ok_b_iff. Qed.
Print Assumptions checker_written.
Theorem source_chunks_complete : forall s, concat (chunks_of s) = s_data s.
Proof. exact chunks_of_concat. Qed.
Print Assumptions source_chunks_complete.

(* ---- a router mounted in another router (WrapH(child), child.ServeHTTP(c.Writer(), r)): the child's recorder
   is stacked on the PARENT's recorder (Nested.v).  After ANY interleaving of calls by the parent's handlers (on
   the parent's Context) and by the mounted router's handlers (on the child's Context), the PARENT's Status /
   Size / Written reflect what reached the real writer, which saw at most one final status and none after
   accepted body bytes ---- *)
Theorem nested_recorder_transparent : forall P cfg (cs : list (who * call)),
  let parent := snd (fst (nrun_fixed P cfg cs)) in
  status_ok (lg (snd parent)) (rec_answers (fst parent)) /\
  size_ok (lg (snd parent)) (rec_answers (fst parent)) /\
  written_ok (lg (snd parent)) (rec_answers (fst parent)) /\
  header_discipline (lg (snd parent)).
Proof. exact fixed_nested_recorder_transparent. Qed.
Print Assumptions nested_recorder_transparent.

(* ---- non-vacuity ---- *)
Example contract_satisfiable : forall b cf, io_writer_contract (pol b cf).
Proof. exact pol_contract. Qed.
Example fixed_run :
  let st := fst (run_fixed (pol (Some 2%nat) false) ex_all ex_calls) in
  rec_answers (fst st) = mkans 200 true 2 /\
  lg (snd st) = [EvHeader 103; EvHeader 200; EvCap KFlushError; EvBody (S2B "ab"); EvBody []].
Proof. exact ex_run_fixed. Qed.
Example fast_path_pair : same_but_fast_paths ex_all (twin_cfg ex_all) /\ c_rf ex_all <> c_rf (twin_cfg ex_all).
Proof. exact ex_same_but_fast_paths. Qed.
(* the witnesses of finding c14_readfrom_accounting on the patched recorder *)
Example fixed_on_witnesses :
  map (fun rs => rec_answers (fst (snd rs))) (snd (run_fixed w_pol w_cfg [CReadFrom w_failing; CWriteHeader 500])) =
    [mkans 200 true 5; mkans 200 true 5] /\
  lg (snd (fst (run_fixed w_pol w_cfg [CReadFrom w_failing; CWriteHeader 500]))) = [EvHeader 200; EvBody (S2B "hello")] /\
  run_fixed w_pol w_cfg [CReadFrom w_empty] = run_fixed w_pol (twin_cfg w_cfg) [CReadFrom w_empty].
Proof. exact ex_fixed_on_witnesses. Qed.
Example stream_helper :
  is_helper (CStream 203 (S2B "text/c14") (mksrc (S2B "stream") false 4 false)) = true /\
  final 203 = true /\
  let '(st', r) := step_fixed (pol None false) ex_all st_init (CStream 203 (S2B "text/c14") (mksrc (S2B "stream") false 4 false)) in
  lg (snd st') = [EvHeader 203; EvBody (S2B "stre"); EvBody (S2B "am")] /\ r_err r = ENil.
Proof. exact ex_helper. Qed.
Example nested_run :
  let cs := [(Child, CString 201 (S2B "created")); (Parent, CWriteHeader 500)] in
  let parent := snd (fst (nrun_fixed (pol None false) (mkcfg true true FBoth true true true true true) cs)) in
  rec_answers (fst parent) = mkans 201 true 7 /\
  lg (snd parent) = [EvHeader 201; EvBody (S2B "created")].
Proof. exact nested_created_then_500. Qed.
