(* C14, tie A: meaning of the primitives that harness/cmd/recgen emits in GenRec.v
   besides the operations of Model.v (hand-written, trusted; no proofs here).

     r.size = e / r.status = e / r.hijacked = e      set_size / set_status / set_hij
     x, ok := r.ResponseWriter.(I)                   the capability flag of ucfg for I
                                                     (c_rf, c_hij, c_push, c_rdl, c_wdl, c_dup, and for the
                                                     two flushing interfaces the predicates below)
     io.CopyBuffer(onlyWrite{r}, src, buf)           io_copy_buffer: Model.copy_chunks over the source's chunks

   Calls on the embedded writer are Model.uw_header / uw_write / uw_write_string /
   uw_read_from / uw_cap. *)
From FoxBase Require Import Bytes.
From FoxC14 Require Import Types Model.
From Coq Require Import List.
Import ListNotations.
Open Scope Z_scope.

Definition set_size (r : rstate) (v : Z) : rstate := mkr v (r_status r) (r_hij r).
Definition set_status (r : rstate) (v : Z) : rstate := mkr (r_size r) v (r_hij r).
Definition set_hij (r : rstate) (b : bool) : rstate := mkr (r_size r) (r_status r) b.

(* r.ResponseWriter.(interface{ FlushError() error }) succeeds *)
Definition offers_flush_error (cfg : ucfg) : bool :=
  match c_flush cfg with FFlushError | FBoth => true | _ => false end.
(* r.ResponseWriter.(http.Flusher) succeeds *)
Definition offers_flusher (cfg : ucfg) : bool :=
  match c_flush cfg with FFlusher | FBoth => true | _ => false end.

(* io.CopyBuffer(dst, src, buf) where dst offers only Write (W) *)
Definition io_copy_buffer {S : Type} (W : S -> bytes -> S * nat * err) (s : S) (src : source) : S * nat * err :=
  copy_chunks W s (chunks_of src) 0%nat (src_fails src).
