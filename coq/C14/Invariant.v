(* C14: the accounting invariant of the recorder and its preservation by every
   method except ReadFrom (which differs between Model.v and ModelFixed.v and is
   a hypothesis of the section at the end). *)
From FoxBase Require Import Bytes.
From FoxC14 Require Import Types Spec Model Lemmas.
From Coq Require Import List Lia ZArith Bool.
Import ListNotations.
Open Scope Z_scope.

(* the underlying log, oldest first *)
Definition lg (u : ustate) : list uev := rev (u_tr u).

Record Inv (st : state) : Prop := mkInv {
  inv_nw : r_size (fst st) = not_written ->
           finals (lg (snd st)) = [] /\ body (lg (snd st)) = [] /\ r_status (fst st) = 200;
  inv_w : r_size (fst st) <> not_written ->
          r_size (fst st) = Z.of_nat (length (body (lg (snd st)))) /\
          finals (lg (snd st)) = [r_status (fst st)];
  inv_disc : header_discipline_b (lg (snd st)) = true
}.

Lemma inv_init : Inv st_init.
Proof. split; simpl; auto. intros H; exfalso; apply H; reflexivity. Qed.

Lemma lg_header u c : lg (uw_header u c) = lg u ++ [EvHeader c].
Proof. reflexivity. Qed.

Lemma eqb_nw_true z : (z =? not_written) = true -> z = not_written.
Proof. apply Z.eqb_eq. Qed.
Lemma eqb_nw_false z : (z =? not_written) = false -> z <> not_written.
Proof. apply Z.eqb_neq. Qed.

(* Inv only looks at size, status and the log *)
Lemma inv_ext r u r' u' :
  Inv (r, u) -> r_size r' = r_size r -> r_status r' = r_status r -> u_tr u' = u_tr u -> Inv (r', u').
Proof.
  intros [A B C] Hs Ht Hl. unfold lg in *. simpl in *.
  split; unfold lg; simpl; rewrite ?Hs, ?Ht, ?Hl; auto.
Qed.

Lemma inv_forward_final r u code h :
  Inv (r, u) -> r_size r = not_written -> final code = true ->
  Inv (mkr 0 code h, uw_header u code).
Proof.
  intros [A B C] Hs Hf. simpl in *. destruct (A Hs) as (Af & Ab & _).
  split; simpl; rewrite lg_header.
  - intros H; discriminate.
  - intros _. rewrite body_app, finals_app, Af, Ab. unfold finals; simpl. rewrite Hf. auto.
  - apply discipline_snoc; auto.
Qed.

Lemma inv_forward_info r u code :
  Inv (r, u) -> final code = false -> Inv (r, uw_header u code).
Proof.
  intros [A B C] Hf. simpl in *.
  assert (F : finals (lg u ++ [EvHeader code]) = finals (lg u)).
  { rewrite finals_app. unfold finals at 2; simpl. rewrite Hf. apply app_nil_r. }
  assert (Bd : body (lg u ++ [EvHeader code]) = body (lg u)).
  { rewrite body_app. apply app_nil_r. }
  split; simpl; rewrite lg_header, ?F, ?Bd; auto.
  apply discipline_snoc; auto. congruence.
Qed.

Lemma inv_rec_write_header st code : Inv st -> Inv (rec_write_header st code).
Proof.
  destruct st as [r u]. intros I. unfold rec_write_header.
  destruct (r_hij r); auto.
  destruct (r_size r =? not_written) eqn:E; cbn [negb]; auto.
  apply eqb_nw_true in E.
  destruct ((100 <=? code) && (code <=? 199) && negb (code =? 101)) eqn:Hc.
  - apply (inv_forward_info r u code); auto. rewrite final_spec, Hc. reflexivity.
  - apply (inv_forward_final r u code); auto. rewrite final_spec, Hc. reflexivity.
Qed.

(* the implicit header a first body write forwards *)
Lemma inv_implicit_header r u :
  Inv (r, u) -> r_size r = not_written -> Inv (mkr 0 (r_status r) (r_hij r), uw_header u (r_status r)).
Proof.
  intros I Hs. apply (inv_forward_final r u); auto.
  destruct I as [A _ _]. simpl in A. destruct (A Hs) as (_ & _ & ->). reflexivity.
Qed.

Lemma inv_accept r u u' bs h :
  Inv (r, u) -> r_size r <> not_written -> lg u' = lg u ++ map EvBody bs ->
  Inv (mkr (r_size r + Z.of_nat (length (concat bs))) (r_status r) h, u').
Proof.
  intros [A B C] Hs Hl. simpl in *. destruct (B Hs) as (Bs & Bf).
  assert (Hge : 0 <= r_size r) by lia.
  split; simpl; rewrite Hl.
  - intros H. unfold not_written in *. lia.
  - intros _. rewrite body_app, finals_app, body_map_body, finals_map_body, app_nil_r, app_length.
    split; auto. lia.
  - clear - C. induction bs as [|b bs IH] using rev_ind; simpl.
    + now rewrite app_nil_r.
    + rewrite map_app, app_assoc. apply discipline_snoc; auto.
Qed.

Lemma inv_accept1 r u u' b h :
  Inv (r, u) -> r_size r <> not_written -> lg u' = lg u ++ [EvBody b] ->
  Inv (mkr (r_size r + Z.of_nat (length b)) (r_status r) h, u').
Proof.
  intros I Hs Hl. pose proof (inv_accept r u u' [b] h I Hs) as X.
  simpl in X. rewrite app_nil_r in X. apply X. exact Hl.
Qed.

Lemma firstn_min_length {A} n0 (l : list A) : length (firstn (Nat.min n0 (length l)) l) = Nat.min n0 (length l).
Proof. rewrite firstn_length. lia. Qed.

Lemma uw_write_len P u c u' n e : uw_write P u c = (u', n, e) -> length (firstn n c) = n.
Proof.
  unfold uw_write. destruct (p_write P (u_tr u) c) as [n0 e0].
  intros H; injection H as _ <- _. apply firstn_min_length.
Qed.

Lemma inv_rec_write P st b st' n e : Inv st -> rec_write P st b = (st', n, e) -> Inv st'.
Proof.
  destruct st as [r u]. intros I H. unfold rec_write in H.
  destruct (r_hij r) eqn:Hh.
  - injection H as <- _ _. exact I.
  - destruct (r_size r =? not_written) eqn:E.
    + apply eqb_nw_true in E.
      destruct (uw_write P (uw_header u (r_status r)) b) as [[u2 n2] e2] eqn:HW.
      injection H as <- <- <-.
      pose proof (inv_implicit_header r u I E) as I1.
      destruct (uw_write_log _ _ _ _ _ _ HW) as (Hl & _).
      rewrite <- (uw_write_len _ _ _ _ _ _ HW) at 1.
      apply (inv_accept1 _ _ _ _ _ I1); auto. simpl. discriminate.
    + apply eqb_nw_false in E.
      destruct (uw_write P u b) as [[u2 n2] e2] eqn:HW.
      injection H as <- <- <-.
      destruct (uw_write_log _ _ _ _ _ _ HW) as (Hl & _).
      rewrite <- (uw_write_len _ _ _ _ _ _ HW) at 1.
      apply (inv_accept1 _ _ _ _ _ I); auto.
Qed.

Lemma rec_write_string_eq P cfg st s : rec_write_string P cfg st s = rec_write P st s.
Proof.
  destruct st as [r u]. unfold rec_write_string, rec_write, uw_write_string.
  destruct (c_sw cfg); reflexivity.
Qed.

Lemma inv_copy_rec_write P : forall cs st w fail st' w' e,
  Inv st -> copy_chunks (rec_write P) st cs w fail = (st', w', e) -> Inv st'.
Proof.
  induction cs as [|c cs IH]; intros st w fail st' w' e I H; simpl in H.
  - injection H as <- _ _. exact I.
  - destruct (rec_write P st c) as [[s1 n] ew] eqn:HW.
    pose proof (inv_rec_write _ _ _ _ _ _ I HW) as I1.
    destruct (is_nil ew); [destruct (Nat.eqb n (length c))|].
    + eapply IH; eauto.
    + injection H as <- _ _. exact I1.
    + injection H as <- _ _. exact I1.
Qed.

(* the automaton copying onto itself (fast path), from a state that already sent its header *)
Lemma inv_uw_read_from P r u src u' n e h :
  Inv (r, u) -> r_size r <> not_written -> uw_read_from P u src = (u', n, e) ->
  Inv (mkr (r_size r + Z.of_nat n) (r_status r) h, u').
Proof.
  intros I Hs H. unfold uw_read_from in H.
  destruct (copy_chunks_log (uw_write P) lg (fun _ => True)) with (cs := chunks_of src) (s := u) (w := 0%nat)
    (fail := src_fails src) (s' := u') (w' := n) (e := e) as (_ & bs & k & Hl & Hc & Hk & Hn & _); auto.
  - intros s c s' n0 e0 _ HW. destruct (uw_write_log _ _ _ _ _ _ HW) as (A & B & _). auto.
  - simpl in Hn. subst n.
    replace k with (length (concat bs)).
    + apply (inv_accept r u); auto.
    + rewrite Hc, firstn_length. lia.
Qed.

Lemma inv_cap P r u k h : Inv (r, u) -> Inv (mkr (r_size r) (r_status r) h, fst (uw_cap P u k)).
Proof.
  intros [A B C]. simpl in *.
  assert (F : finals (lg u ++ [EvCap k]) = finals (lg u)) by (rewrite finals_app; apply app_nil_r).
  assert (Bd : body (lg u ++ [EvCap k]) = body (lg u)) by (rewrite body_app; apply app_nil_r).
  split; unfold lg; simpl; fold (lg u); rewrite ?F, ?Bd; auto.
  apply discipline_snoc; auto.
Qed.

Lemma inv_cap' st k : Inv st -> Inv (fst st, mku (EvCap k :: u_tr (snd st)) (u_ct (snd st)) (u_loc (snd st))).
Proof.
  destruct st as [r u]. intros I. pose proof (inv_cap (mkpol (fun _ _ => (0%nat, ENil)) (fun _ _ => ENil)) r u k (r_hij r) I) as X.
  destruct r; exact X.
Qed.

Lemma inv_on_u f st : (forall u, u_tr (f u) = u_tr u) -> Inv st -> Inv (on_u f st).
Proof. destruct st as [r u]. intros Hf I. eapply inv_ext; eauto. Qed.

Lemma inv_flush P cfg st st' e : Inv st -> rec_flush_error P cfg st = (st', e) -> Inv st'.
Proof.
  intros I H. unfold rec_flush_error, uw_cap in H.
  assert (I1 : Inv (if r_size (fst st) =? not_written then rec_write_header st (r_status (fst st)) else st)).
  { destruct (r_size (fst st) =? not_written); auto using inv_rec_write_header. }
  destruct (c_flush cfg); injection H as <- _; auto; apply inv_cap'; exact I1.
Qed.

Lemma inv_delegate P b k st st' e : Inv st -> rec_delegate P b k st = (st', e) -> Inv st'.
Proof.
  intros I H. unfold rec_delegate, uw_cap in H. destruct b; injection H as <- _; auto.
  apply inv_cap'; exact I.
Qed.

Lemma inv_hijack P cfg st st' e : Inv st -> rec_hijack P cfg st = (st', e) -> Inv st'.
Proof.
  intros I H. unfold rec_hijack, uw_cap in H. destruct (c_hij cfg).
  - destruct st as [r u]. injection H as <- _. apply (inv_cap P r u KHijack true I).
  - injection H as <- _. exact I.
Qed.

(* ---------- every call preserves the invariant, given that ReadFrom does ---------- *)

Section StepInv.
  Variable RF : policy -> ucfg -> state -> source -> state * nat * err.
  Variable P : policy.
  Variable cfg : ucfg.
  Hypothesis RF_inv : forall st src st' n e, Inv st -> RF P cfg st src = (st', n, e) -> Inv st'.

  Lemma inv_set_ct st v : Inv st -> Inv (on_u (fun u => set_ct u v) st).
  Proof. apply inv_on_u. reflexivity. Qed.
  Lemma inv_set_loc st v : Inv st -> Inv (on_u (fun u => set_loc u v) st).
  Proof. apply inv_on_u. reflexivity. Qed.

  Lemma inv_step st c st' r : Inv st -> step_with RF P cfg st c = (st', r) -> Inv st'.
  Proof.
    intros I H. destruct c; simpl in H.
    - injection H as <- _. apply inv_rec_write_header; auto.
    - destruct (rec_write P st b) as [[s n] e] eqn:HW. injection H as <- _. eapply inv_rec_write; eauto.
    - rewrite rec_write_string_eq in H.
      destruct (rec_write P st b) as [[s n] e] eqn:HW. injection H as <- _. eapply inv_rec_write; eauto.
    - destruct (RF P cfg st s) as [[s1 n] e] eqn:HW. injection H as <- _. eapply RF_inv; eauto.
    - destruct (rec_flush_error P cfg st) as [s e] eqn:HW. injection H as <- _. eapply inv_flush; eauto.
    - destruct (rec_hijack P cfg st) as [s e] eqn:HW. injection H as <- _. eapply inv_hijack; eauto.
    - destruct (rec_delegate P (c_push cfg) KPush st) as [s e] eqn:HW. injection H as <- _. eapply inv_delegate; eauto.
    - destruct (rec_delegate P (c_rdl cfg) KRdl st) as [s e] eqn:HW. injection H as <- _. eapply inv_delegate; eauto.
    - destruct (rec_delegate P (c_wdl cfg) KWdl st) as [s e] eqn:HW. injection H as <- _. eapply inv_delegate; eauto.
    - destruct (rec_delegate P (c_dup cfg) KDup st) as [s e] eqn:HW. injection H as <- _. eapply inv_delegate; eauto.
    - injection H as <- _. exact I.
    - unfold ctx_string in H.
      destruct (rec_write P _ payload) as [[s n] e] eqn:HW. injection H as <- _.
      eapply inv_rec_write; [|exact HW]. apply inv_rec_write_header.
      destruct (ct_empty (snd st)); auto using inv_set_ct.
    - unfold ctx_blob in H.
      destruct (rec_write P _ payload) as [[s n] e] eqn:HW. injection H as <- _.
      eapply inv_rec_write; [|exact HW]. apply inv_rec_write_header. auto using inv_set_ct.
    - unfold ctx_stream in H.
      assert (I1 : Inv (rec_write_header (on_u (fun u => set_ct u ct) st) code))
        by (apply inv_rec_write_header; auto using inv_set_ct).
      destruct (s_wt s).
      + destruct (copy_chunks (rec_write P) _ (whole (s_data s)) 0%nat false) as [[s1 n] e] eqn:HW.
        injection H as <- _. eapply inv_copy_rec_write; eauto.
      + destruct (RF P cfg _ s) as [[s1 n] e] eqn:HW. injection H as <- _. eapply RF_inv; eauto.
    - unfold ctx_redirect in H.
      destruct ((code <? 300) || (308 <? code)).
      + apply pair_equal_spec in H as [<- _]. exact I.
      + assert (I0 : Inv (on_u (fun u => set_loc u url) st)) by auto using inv_set_loc.
        destruct (u_ct (snd st)).
        * apply pair_equal_spec in H as [<- _]. apply inv_rec_write_header. exact I0.
        * destruct (rec_write P _ body) as [[s n] e] eqn:HW.
          apply pair_equal_spec in H as [<- _].
          eapply inv_rec_write; [|exact HW]. apply inv_rec_write_header.
          apply inv_set_ct. exact I0.
  Qed.

  Lemma inv_run : forall cs st stn l, Inv st -> run_from RF P cfg st cs = (stn, l) ->
    Inv stn /\ Forall (fun rs => Inv (snd rs)) l.
  Proof.
    induction cs as [|c cs IH]; intros st stn l I H; simpl in H.
    - injection H as <- <-. auto.
    - destruct (step_with RF P cfg st c) as [st1 r] eqn:Hs.
      destruct (run_from RF P cfg st1 cs) as [sn l1] eqn:Hr.
      injection H as <- <-.
      pose proof (inv_step _ _ _ _ I Hs) as I1.
      destruct (IH _ _ _ I1 Hr) as [A B]. split; auto.
  Qed.
End StepInv.

(* ---------- what the invariant says about the answers ---------- *)

Section Answers.
  Variable st : state.
  Hypothesis I : Inv st.

  Lemma size_cases : r_size (fst st) = not_written \/ 0 <= r_size (fst st).
  Proof.
    destruct (Z.eq_dec (r_size (fst st)) not_written) as [E|E]; auto.
    right. destruct (inv_w _ I E) as [Hs _]. rewrite Hs. lia.
  Qed.

  Lemma inv_status_ok : status_ok (lg (snd st)) (rec_answers (fst st)).
  Proof.
    unfold status_ok; simpl. unfold rec_status.
    destruct (Z.eq_dec (r_size (fst st)) not_written) as [E|E].
    - destruct (inv_nw _ I E) as (Hf & _ & Hs). rewrite Hf, Hs. reflexivity.
    - destruct (inv_w _ I E) as (_ & Hf). rewrite Hf. reflexivity.
  Qed.

  Lemma inv_size_ok : size_ok (lg (snd st)) (rec_answers (fst st)).
  Proof.
    unfold size_ok; simpl. unfold rec_size.
    destruct (Z.eq_dec (r_size (fst st)) not_written) as [E|E].
    - destruct (inv_nw _ I E) as (_ & Hb & _). rewrite Hb, E. reflexivity.
    - destruct (inv_w _ I E) as (Hs & _).
      destruct (r_size (fst st) <? 0) eqn:Hlt; [apply Z.ltb_lt in Hlt; lia|exact Hs].
  Qed.

  Lemma inv_written_ok : written_ok (lg (snd st)) (rec_answers (fst st)).
  Proof.
    unfold written_ok; simpl. unfold rec_written.
    destruct (Z.eq_dec (r_size (fst st)) not_written) as [E|E].
    - destruct (inv_nw _ I E) as (Hf & Hb & _). rewrite Hf, Hb, E. simpl.
      split; [discriminate|intros [H|H]; congruence].
    - destruct (inv_w _ I E) as (_ & Hf).
      apply Z.eqb_neq in E. rewrite E. simpl. split; auto. intros _. left. rewrite Hf. discriminate.
  Qed.

  Lemma inv_discipline : header_discipline (lg (snd st)).
  Proof. apply header_discipline_b_iff. apply (inv_disc _ I). Qed.
End Answers.
