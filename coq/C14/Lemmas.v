(* C14: facts about the specification vocabulary, the boolean checkers and the
   copy loop that both models share. *)
From FoxBase Require Import Bytes.
From FoxC14 Require Import Types Spec Model.
From Coq Require Import List Lia ZArith Bool.
Import ListNotations.
Open Scope Z_scope.

(* ---------- logs ---------- *)

Lemma headers_app a b : headers (a ++ b) = headers a ++ headers b.
Proof. unfold headers. now rewrite flat_map_app. Qed.
Lemma finals_app a b : finals (a ++ b) = finals a ++ finals b.
Proof. unfold finals. now rewrite headers_app, filter_app. Qed.
Lemma body_app a b : body (a ++ b) = body a ++ body b.
Proof. unfold body. now rewrite flat_map_app. Qed.

Lemma final_spec c : final c = negb ((100 <=? c) && (c <=? 199) && negb (c =? 101)).
Proof.
  unfold final, informational.
  destruct (100 <=? c), (c <=? 199), (c =? 101); reflexivity.
Qed.

Lemma final_200 : final 200 = true.
Proof. reflexivity. Qed.

Lemma nonempty_app {A} (a b : list A) : nonempty (a ++ b) = nonempty a || nonempty b.
Proof. destruct a; reflexivity. Qed.

Lemma nonempty_false {A} (l : list A) : nonempty l = false <-> l = [].
Proof. destruct l; simpl; split; congruence. Qed.
Lemma nonempty_true {A} (l : list A) : nonempty l = true <-> l <> [].
Proof. destruct l; simpl; split; congruence. Qed.

(* ---------- header discipline: checker = declarative statement ---------- *)

Lemma discipline_app sf sb l1 l2 :
  discipline_from sf sb (l1 ++ l2) =
  discipline_from sf sb l1 &&
  discipline_from (sf || nonempty (finals l1)) (sb || nonempty (body l1)) l2.
Proof.
  revert sf sb; induction l1 as [|e l1 IH]; intros sf sb.
  - simpl. now rewrite !orb_false_r.
  - destruct e as [c|b|k]; simpl.
    + unfold finals; simpl. fold (finals l1).
      destruct (final c) eqn:Hf; simpl.
      * rewrite IH. rewrite orb_true_r. simpl.
        destruct (negb sf), (negb sb); simpl; try reflexivity.
      * apply IH.
    + rewrite IH. unfold body at 2; simpl. fold (body l1).
      rewrite nonempty_app, orb_assoc. reflexivity.
    + apply IH.
Qed.

Lemma final_in_finals pre c post : final c = true -> In c (finals (pre ++ EvHeader c :: post)).
Proof.
  intros Hc. unfold finals. apply filter_In; split; auto.
  rewrite headers_app. apply in_or_app. right. left. reflexivity.
Qed.

Lemma discipline_sound sf sb l :
  discipline_from sf sb l = true ->
  (sf = true -> finals l = []) /\
  (length (finals l) <= 1)%nat /\
  (forall pre c post, l = pre ++ EvHeader c :: post -> final c = true -> sb = false /\ body pre = []).
Proof.
  revert sf sb; induction l as [|e l IH]; intros sf sb H.
  - split; [auto|]. split; [simpl; lia|].
    intros pre c post E. destruct pre; discriminate.
  - destruct e as [c|b|k]; simpl in H.
    + destruct (final c) eqn:Hf.
      * apply andb_prop in H as [H H3]. apply andb_prop in H as [H1 H2].
        apply negb_true_iff in H1, H2. subst.
        destruct (IH _ _ H3) as (A & B & C).
        assert (Hl : finals l = []) by (apply A; reflexivity).
        assert (Hfl : finals (EvHeader c :: l) = [c]).
        { unfold finals in *; simpl; rewrite Hf, Hl; reflexivity. }
        split; [discriminate|]. split; [rewrite Hfl; simpl; lia|].
        intros pre c0 post E Hc0.
        destruct pre as [|x pre]; simpl in E; injection E as E1 E2.
        -- auto.
        -- exfalso. subst l. pose proof (final_in_finals pre c0 post Hc0) as Hin.
           rewrite Hl in Hin. destruct Hin.
      * destruct (IH _ _ H) as (A & B & C).
        assert (Hfl : finals (EvHeader c :: l) = finals l).
        { unfold finals; simpl; rewrite Hf; reflexivity. }
        rewrite Hfl.
        split; [auto|]. split; [auto|].
        intros pre c0 post E Hc0.
        destruct pre as [|x pre]; simpl in E; injection E as E1 E2.
        -- congruence.
        -- subst. destruct (C _ _ _ eq_refl Hc0) as [-> E]. split; auto.
    + destruct (IH _ _ H) as (A & B & C).
      assert (Hfl : finals (EvBody b :: l) = finals l) by reflexivity.
      rewrite Hfl. split; [auto|]. split; [auto|].
      intros pre c0 post E Hc0.
      destruct pre as [|x pre]; simpl in E; [discriminate|]. injection E as E1 E2. subst.
      destruct (C _ _ _ eq_refl Hc0) as [E E2]. apply orb_false_elim in E as [-> E].
      apply nonempty_false in E. subst. split; auto.
    + destruct (IH _ _ H) as (A & B & C).
      assert (Hfl : finals (EvCap k :: l) = finals l) by reflexivity.
      rewrite Hfl. split; [auto|]. split; [auto|].
      intros pre c0 post E Hc0.
      destruct pre as [|x pre]; simpl in E; [discriminate|]. injection E as E1 E2. subst.
      destruct (C _ _ _ eq_refl Hc0) as [-> E2]. split; auto.
Qed.

Lemma discipline_complete sf sb l :
  (sf = true -> finals l = []) ->
  (length (finals l) <= 1)%nat ->
  (forall pre c post, l = pre ++ EvHeader c :: post -> final c = true -> sb = false /\ body pre = []) ->
  discipline_from sf sb l = true.
Proof.
  revert sf sb; induction l as [|e l IH]; intros sf sb A B C; [reflexivity|].
  destruct e as [c|b|k]; simpl.
  - destruct (final c) eqn:Hf.
    + unfold finals in A, B; simpl in A, B; rewrite Hf in A, B. simpl in B.
      destruct sf; [specialize (A eq_refl); discriminate|].
      destruct (C [] c l eq_refl Hf) as [-> _]. simpl.
      apply IH.
      * intros _. destruct (filter final (headers l)) eqn:E; auto. simpl in B. lia.
      * unfold finals. lia.
      * intros pre c0 post -> Hc0. exfalso.
        rewrite headers_app, filter_app in B. simpl in B. rewrite Hc0 in B.
        rewrite app_length in B. simpl in B. lia.
    + unfold finals in A, B; simpl in A, B; rewrite Hf in A, B.
      apply IH; auto.
      intros pre c0 post -> Hc0. apply (C (EvHeader c :: pre) c0 post eq_refl Hc0).
  - apply IH; auto.
    intros pre c0 post -> Hc0.
    destruct (C (EvBody b :: pre) c0 post eq_refl Hc0) as [-> E].
    unfold body in E; simpl in E. apply app_eq_nil in E as [-> E]. simpl. split; auto.
  - apply IH; auto.
    intros pre c0 post -> Hc0. apply (C (EvCap k :: pre) c0 post eq_refl Hc0).
Qed.

Theorem header_discipline_b_iff l : header_discipline_b l = true <-> header_discipline l.
Proof.
  unfold header_discipline_b, header_discipline. split.
  - intros H. destruct (discipline_sound _ _ _ H) as (_ & B & C). split; auto.
    intros pre c post E Hc. eapply C; eauto.
  - intros [B C]. apply discipline_complete; auto; try discriminate.
    intros pre c post E Hc. split; auto. eapply C; eauto.
Qed.

Lemma status_ok_b_iff l a : status_ok_b l a = true <-> status_ok l a.
Proof. unfold status_ok_b, status_ok. apply Z.eqb_eq. Qed.
Lemma size_ok_b_iff l a : size_ok_b l a = true <-> size_ok l a.
Proof. unfold size_ok_b, size_ok. apply Z.eqb_eq. Qed.
Lemma written_ok_b_iff l a : written_ok_b l a = true <-> written_ok l a.
Proof.
  unfold written_ok_b, written_ok. rewrite eqb_true_iff.
  assert (X : nonempty (finals l) || nonempty (body l) = true <-> finals l <> [] \/ body l <> []).
  { rewrite orb_true_iff, !nonempty_true. tauto. }
  rewrite <- X.
  destruct (a_written a), (nonempty (finals l) || nonempty (body l)); intuition congruence.
Qed.

(* snoc rules used by the invariant proofs *)
Lemma discipline_snoc l e :
  header_discipline_b l = true ->
  (match e with EvHeader c => final c = true -> finals l = [] /\ body l = [] | _ => True end) ->
  header_discipline_b (l ++ [e]) = true.
Proof.
  unfold header_discipline_b. intros H He. rewrite discipline_app, H. simpl.
  destruct e as [c|b|k]; simpl; auto.
  destruct (final c) eqn:Hf; auto.
  destruct (He eq_refl) as [-> ->]. reflexivity.
Qed.

(* ---------- chunking ---------- *)

Lemma split_chunks_concat k d fuel :
  (length d <= fuel)%nat -> concat (split_chunks fuel (S k) d) = d.
Proof.
  revert d; induction fuel as [|f IH]; intros d Hd.
  - destruct d; simpl in *; [reflexivity|lia].
  - destruct d as [|x d]; [reflexivity|].
    cbn [split_chunks concat].
    rewrite IH.
    + apply firstn_skipn.
    + rewrite skipn_length. simpl in *. lia.
Qed.

Lemma whole_concat d : concat (whole d) = d.
Proof. destruct d; simpl; auto. now rewrite app_nil_r. Qed.

Lemma chunks_of_concat s : concat (chunks_of s) = s_data s.
Proof.
  unfold chunks_of. destruct (s_wt s); [apply whole_concat|].
  destruct (s_chunk s); [apply whole_concat|].
  apply split_chunks_concat. lia.
Qed.

(* ---------- the copy loop over a destination that appends what it accepts ---------- *)

Section CopyLemma.
  Context {S : Type} (W : S -> bytes -> S * nat * err).
  Variable lg : S -> list uev.           (* the underlying log (oldest first) seen through the destination *)
  Variable good : S -> Prop.
  Hypothesis W_ok : forall s c s' n e, good s -> W s c = (s', n, e) ->
    good s' /\ lg s' = lg s ++ [EvBody (firstn n c)] /\ (n <= length c)%nat.

  Lemma copy_chunks_log : forall cs s w fail s' w' e,
    good s -> copy_chunks W s cs w fail = (s', w', e) ->
    good s' /\
    exists bs k, lg s' = lg s ++ map EvBody bs /\ concat bs = firstn k (concat cs) /\
                 (k <= length (concat cs))%nat /\ w' = (w + k)%nat /\
                 (e = ENil -> k = length (concat cs) /\ fail = false).
  Proof.
    induction cs as [|c cs IH]; intros s w fail s' w' e Hg H; simpl in H.
    - injection H as <- <- <-. split; auto. exists [], 0%nat. simpl.
      rewrite app_nil_r. repeat split; auto; destruct fail; congruence.
    - destruct (W s c) as [[s1 n] ew] eqn:HW.
      destruct (W_ok _ _ _ _ _ Hg HW) as (Hg1 & Hl1 & Hn).
      destruct (is_nil ew) eqn:Hnil.
      + destruct (Nat.eqb n (length c)) eqn:Hfull.
        * apply Nat.eqb_eq in Hfull. subst n.
          destruct (IH _ _ _ _ _ _ Hg1 H) as (Hg' & bs & k & Hl & Hc & Hk & Hw & He).
          split; auto. exists (c :: bs), (length c + k)%nat.
          rewrite firstn_all in Hl1.
          repeat split.
          -- rewrite Hl, Hl1. simpl. now rewrite <- app_assoc.
          -- simpl. rewrite Hc. rewrite firstn_app_2. reflexivity.
          -- simpl. rewrite app_length. lia.
          -- lia.
          -- simpl. rewrite app_length. destruct (He H0). lia.
          -- apply He; auto.
        * injection H as <- <- <-. split; auto.
          exists [firstn n c], n. apply Nat.eqb_neq in Hfull.
          repeat split.
          -- simpl. exact Hl1.
          -- simpl. rewrite app_nil_r. rewrite firstn_app.
             replace (n - length c)%nat with 0%nat by lia. simpl. now rewrite app_nil_r.
          -- simpl. rewrite app_length. lia.
          -- discriminate.
          -- discriminate.
      + injection H as <- <- <-. split; auto.
        exists [firstn n c], n.
        repeat split.
        -- simpl. exact Hl1.
        -- simpl. rewrite app_nil_r. rewrite firstn_app.
           replace (n - length c)%nat with 0%nat by lia. simpl. now rewrite app_nil_r.
        -- simpl. rewrite app_length. lia.
        -- match goal with H : _ = ENil |- _ => rewrite H in Hnil; discriminate end.
        -- match goal with H : _ = ENil |- _ => rewrite H in Hnil; discriminate end.
  Qed.
End CopyLemma.

Lemma headers_map_body bs : headers (map EvBody bs) = [].
Proof. induction bs; simpl; auto. Qed.
Lemma finals_map_body bs : finals (map EvBody bs) = [].
Proof. unfold finals. now rewrite headers_map_body. Qed.
Lemma body_map_body bs : body (map EvBody bs) = concat bs.
Proof. induction bs; simpl; auto. unfold body in *. simpl. now rewrite IHbs. Qed.

(* the automaton's Write *)
Lemma uw_write_log P u c u' n e :
  uw_write P u c = (u', n, e) ->
  rev (u_tr u') = rev (u_tr u) ++ [EvBody (firstn n c)] /\ (n <= length c)%nat /\
  u_ct u' = u_ct u /\ u_loc u' = u_loc u.
Proof.
  unfold uw_write. destruct (p_write P (u_tr u) c) as [n0 e0].
  intros H; injection H as <- <- <-. simpl. repeat split; auto. lia.
Qed.
