(* C14: what one call does to the underlying log (body bytes in order,
   capability delegation), for every method except ReadFrom, whose effect is a
   hypothesis instantiated by ProofsFixed.v / ProofsCur.v. *)
From FoxBase Require Import Bytes.
From FoxC14 Require Import Types Spec Model Lemmas Invariant.
From Coq Require Import List Lia ZArith Bool.
Import ListNotations.
Open Scope Z_scope.

(* io.Writer contract: "Write must return a non-nil error if it returns n < len(p)" *)
Definition io_writer_contract (P : policy) : Prop :=
  forall tr buf, snd (p_write P tr buf) = ENil -> (length buf <= fst (p_write P tr buf))%nat.

(* same optional capabilities, possibly different fast paths *)
Definition same_but_fast_paths (a b : ucfg) : Prop :=
  c_flush a = c_flush b /\ c_hij a = c_hij b /\ c_push a = c_push b /\
  c_rdl a = c_rdl b /\ c_wdl a = c_wdl b /\ c_dup a = c_dup b.

(* ---------- body-only version of the copy-loop lemma ---------- *)
Section CopyBody.
  Context {S : Type} (W : S -> bytes -> S * nat * err).
  Variable bd : S -> bytes.
  Hypothesis W_ok : forall s c s' n e, W s c = (s', n, e) ->
    bd s' = bd s ++ firstn n c /\ (n <= length c)%nat.

  Lemma copy_chunks_body : forall cs s w fail s' w' e,
    copy_chunks W s cs w fail = (s', w', e) ->
    exists k, bd s' = bd s ++ firstn k (concat cs) /\
              (k <= length (concat cs))%nat /\ w' = (w + k)%nat /\
              (e = ENil -> k = length (concat cs) /\ fail = false).
  Proof.
    induction cs as [|c cs IH]; intros s w fail s' w' e H; simpl in H.
    - injection H as <- <- <-. exists 0%nat. simpl. rewrite app_nil_r.
      split; [auto|]. split; [auto|]. split; [lia|]. destruct fail; [discriminate|auto].
    - destruct (W s c) as [[s1 n] ew] eqn:HW.
      destruct (W_ok _ _ _ _ _ HW) as (Hb1 & Hn).
      assert (Hstop : bd s1 = bd s ++ firstn n (c ++ concat cs)).
      { rewrite Hb1, firstn_app. replace (n - length c)%nat with 0%nat by lia.
        simpl. now rewrite app_nil_r. }
      destruct (is_nil ew) eqn:Hnil.
      + destruct (Nat.eqb n (length c)) eqn:Hfull.
        * apply Nat.eqb_eq in Hfull. subst n.
          destruct (IH _ _ _ _ _ _ H) as (k & Hb & Hk & Hw & He).
          exists (length c + k)%nat. simpl. rewrite app_length.
          split; [|split; [lia|split; [lia|]]].
          -- rewrite Hb, Hb1, firstn_all, firstn_app_2, app_assoc. reflexivity.
          -- intros E. destruct (He E). split; [lia|auto].
        * injection H as <- <- <-. apply Nat.eqb_neq in Hfull.
          exists n. simpl. rewrite app_length.
          split; [exact Hstop|]. split; [lia|]. split; [lia|discriminate].
      + injection H as <- <- <-.
        exists n. simpl. rewrite app_length.
        split; [exact Hstop|]. split; [lia|]. split; [lia|].
        intros E. rewrite E in Hnil. discriminate.
  Qed.
End CopyBody.

Definition bodyst (st : state) : bytes := body (lg (snd st)).

Lemma uw_write_body P u c u' n e :
  uw_write P u c = (u', n, e) -> body (lg u') = body (lg u) ++ firstn n c /\ (n <= length c)%nat.
Proof.
  intros H. destruct (uw_write_log _ _ _ _ _ _ H) as (Hl & Hn & _).
  unfold lg. rewrite Hl, body_app. simpl. rewrite app_nil_r. auto.
Qed.

Lemma uw_write_contract P u c u' n e :
  io_writer_contract P -> uw_write P u c = (u', n, e) -> e = ENil -> n = length c.
Proof.
  unfold uw_write. intros C H E. specialize (C (u_tr u) c).
  destruct (p_write P (u_tr u) c) as [n0 e0]. injection H as _ <- <-. simpl in C.
  specialize (C E). lia.
Qed.

Lemma rec_write_header_log st c :
  exists hs, lg (snd (rec_write_header st c)) = lg (snd st) ++ hs /\ forallb is_header hs = true.
Proof.
  destruct st as [r u]. unfold rec_write_header.
  destruct (r_hij r); [exists []; simpl; now rewrite app_nil_r|].
  destruct (negb (r_size r =? not_written)); [exists []; simpl; now rewrite app_nil_r|].
  destruct ((100 <=? c) && (c <=? 199) && negb (c =? 101)); exists [EvHeader c]; auto.
Qed.

Lemma body_headers_only l hs : forallb is_header hs = true -> body (l ++ hs) = body l.
Proof.
  intros H. rewrite body_app. replace (body hs) with (@nil ascii); [apply app_nil_r|].
  induction hs as [|h hs IH]; auto. simpl in H. apply andb_prop in H as [H1 H2].
  destruct h; try discriminate. simpl. auto.
Qed.

Lemma rec_write_header_body st c : bodyst (rec_write_header st c) = bodyst st.
Proof.
  unfold bodyst. destruct (rec_write_header_log st c) as (hs & -> & H). now apply body_headers_only.
Qed.

Lemma rec_write_body P st b st' n e :
  rec_write P st b = (st', n, e) ->
  bodyst st' = bodyst st ++ firstn n b /\ (n <= length b)%nat /\
  (io_writer_contract P -> e = ENil -> n = length b).
Proof.
  destruct st as [r u]. unfold rec_write. destruct (r_hij r).
  - intros H; injection H as <- <- <-. simpl. rewrite app_nil_r. split; auto. split; [lia|discriminate].
  - destruct (r_size r =? not_written).
    + destruct (uw_write P (uw_header u (r_status r)) b) as [[u2 n2] e2] eqn:HW.
      intros H; injection H as <- <- <-. destruct (uw_write_body _ _ _ _ _ _ HW) as [A B].
      unfold bodyst; simpl. rewrite A, lg_header, body_app. simpl. rewrite app_nil_r.
      split; auto. split; auto. intros C E. eapply uw_write_contract; eauto.
    + destruct (uw_write P u b) as [[u2 n2] e2] eqn:HW.
      intros H; injection H as <- <- <-. destruct (uw_write_body _ _ _ _ _ _ HW) as [A B].
      unfold bodyst; simpl. split; auto. split; auto. intros C E. eapply uw_write_contract; eauto.
Qed.

Lemma copy_rec_write_body P cs st w fail st' w' e :
  copy_chunks (rec_write P) st cs w fail = (st', w', e) ->
  exists k, bodyst st' = bodyst st ++ firstn k (concat cs) /\
            (k <= length (concat cs))%nat /\ w' = (w + k)%nat /\
            (e = ENil -> k = length (concat cs) /\ fail = false).
Proof.
  apply (copy_chunks_body (rec_write P) bodyst).
  intros s c s' n e0 H. destruct (rec_write_body _ _ _ _ _ _ H) as (A & B & _). auto.
Qed.

Lemma uw_read_from_body P u src u' n e :
  uw_read_from P u src = (u', n, e) ->
  exists k, body (lg u') = body (lg u) ++ firstn k (s_data src) /\
            (k <= length (s_data src))%nat /\ n = k /\
            (e = ENil -> k = length (s_data src)).
Proof.
  unfold uw_read_from. intros H.
  destruct (copy_chunks_body (uw_write P) (fun u => body (lg u))) with (cs := chunks_of src) (s := u)
    (w := 0%nat) (fail := src_fails src) (s' := u') (w' := n) (e := e) as (k & A & B & C & D); auto.
  - intros s c s' n0 e0 HW. apply (uw_write_body _ _ _ _ _ _ HW).
  - rewrite chunks_of_concat in *. exists k. split; auto. split; auto. split; auto.
    intros E. apply D; auto.
Qed.

Lemma on_u_body f st : (forall u, u_tr (f u) = u_tr u) -> bodyst (on_u f st) = bodyst st.
Proof. intros H. unfold bodyst, on_u, lg. simpl. now rewrite H. Qed.

(* ---------- the bytes-in-order clause, one call ---------- *)

Definition rf_bytes_ok (G : state -> Prop) (RF : policy -> ucfg -> state -> source -> state * nat * err) (P : policy) (cfg : ucfg) : Prop :=
  forall st src st' n e, G st -> RF P cfg st src = (st', n, e) ->
    exists k, bodyst st' = bodyst st ++ firstn k (s_data src) /\
              (k <= length (s_data src))%nat /\ n = k /\ (e = ENil -> k = length (s_data src)).

Section StepBytes.
  Variable RF : policy -> ucfg -> state -> source -> state * nat * err.
  Variable P : policy.
  Variable cfg : ucfg.
  (* G: what is known about the state when ReadFrom is reached (the accounting invariant for the
     patched recorder, nothing for the pinned one) *)
  Variable G : state -> Prop.
  Hypothesis G_hdr : forall st v c, G st -> G (rec_write_header (on_u (fun u => set_ct u v) st) c).
  Hypothesis RF_bytes : rf_bytes_ok G RF P cfg.
  Hypothesis contract : io_writer_contract P.

  Ltac unchanged :=
    exists 0%nat; simpl; rewrite ?app_nil_r; split; [auto|]; split; [lia|]; split; [auto; discriminate|auto; try (intros; discriminate)].

  Lemma delegate_body b k st st' e : rec_delegate P b k st = (st', e) -> bodyst st' = bodyst st.
  Proof.
    unfold rec_delegate, uw_cap. destruct b; intros H; apply pair_equal_spec in H as [<- _]; auto.
    unfold bodyst, lg; simpl. rewrite body_app. simpl. now rewrite app_nil_r.
  Qed.

  Lemma step_bytes st c st' r :
    G st -> step_with RF P cfg st c = (st', r) ->
    bytes_in_order c r (lg (snd st)) (lg (snd st')).
  Proof.
    intros I H. unfold bytes_in_order. fold (bodyst st) (bodyst st'). destruct c; simpl in H.
    - apply pair_equal_spec in H as [<- <-]. rewrite rec_write_header_body. unchanged.
    - destruct (rec_write P st b) as [[s n] e] eqn:HW. apply pair_equal_spec in H as [<- <-].
      destruct (rec_write_body _ _ _ _ _ _ HW) as (A & B & C).
      exists n. simpl. repeat split; auto.
    - rewrite rec_write_string_eq in H.
      destruct (rec_write P st b) as [[s n] e] eqn:HW. apply pair_equal_spec in H as [<- <-].
      destruct (rec_write_body _ _ _ _ _ _ HW) as (A & B & C).
      exists n. simpl. repeat split; auto.
    - destruct (RF P cfg st s) as [[s1 n] e] eqn:HW. apply pair_equal_spec in H as [<- <-].
      destruct (RF_bytes _ _ _ _ _ I HW) as (k & A & B & -> & D).
      exists k. simpl. repeat split; auto.
    - destruct (rec_flush_error P cfg st) as [s e] eqn:HW. apply pair_equal_spec in H as [<- <-].
      assert (E : bodyst s = bodyst st).
      { unfold rec_flush_error, uw_cap in HW.
        assert (X : bodyst (if r_size (fst st) =? not_written then rec_write_header st (r_status (fst st)) else st) = bodyst st)
          by (destruct (r_size (fst st) =? not_written); auto using rec_write_header_body).
        destruct (c_flush cfg); apply pair_equal_spec in HW as [<- _]; auto;
          unfold bodyst, lg in *; simpl; rewrite body_app; simpl; rewrite app_nil_r; exact X. }
      rewrite E. unchanged.
    - destruct (rec_hijack P cfg st) as [s e] eqn:HW. apply pair_equal_spec in H as [<- <-].
      assert (E : bodyst s = bodyst st).
      { unfold rec_hijack, uw_cap in HW. destruct (c_hij cfg).
        - destruct st as [r0 u0]. apply pair_equal_spec in HW as [<- _].
          unfold bodyst, lg; simpl. rewrite body_app. simpl. now rewrite app_nil_r.
        - apply pair_equal_spec in HW as [<- _]. reflexivity. }
      rewrite E. unchanged.
    - destruct (rec_delegate P (c_push cfg) KPush st) as [s e] eqn:HW. apply pair_equal_spec in H as [<- <-].
      rewrite (delegate_body _ _ _ _ _ HW). unchanged.
    - destruct (rec_delegate P (c_rdl cfg) KRdl st) as [s e] eqn:HW. apply pair_equal_spec in H as [<- <-].
      rewrite (delegate_body _ _ _ _ _ HW). unchanged.
    - destruct (rec_delegate P (c_wdl cfg) KWdl st) as [s e] eqn:HW. apply pair_equal_spec in H as [<- <-].
      rewrite (delegate_body _ _ _ _ _ HW). unchanged.
    - destruct (rec_delegate P (c_dup cfg) KDup st) as [s e] eqn:HW. apply pair_equal_spec in H as [<- <-].
      rewrite (delegate_body _ _ _ _ _ HW). unchanged.
    - apply pair_equal_spec in H as [<- <-]. unchanged.
    - unfold ctx_string in H.
      destruct (rec_write P _ payload) as [[s n] e] eqn:HW. apply pair_equal_spec in H as [<- <-].
      destruct (rec_write_body _ _ _ _ _ _ HW) as (A & B & C).
      rewrite rec_write_header_body in A.
      assert (E : bodyst (if ct_empty (snd st) then on_u (fun u => set_ct u text_plain) st else st) = bodyst st)
        by (destruct (ct_empty (snd st)); auto).
      rewrite E in A. exists n. simpl. split; auto. split; auto. split; [discriminate|auto].
    - unfold ctx_blob in H.
      destruct (rec_write P _ payload) as [[s n] e] eqn:HW. apply pair_equal_spec in H as [<- <-].
      destruct (rec_write_body _ _ _ _ _ _ HW) as (A & B & C).
      rewrite rec_write_header_body in A. change (bodyst (on_u (fun u => set_ct u ct) st)) with (bodyst st) in A.
      exists n. simpl. split; auto. split; auto. split; [discriminate|auto].
    - unfold ctx_stream in H.
      assert (I1 : G (rec_write_header (on_u (fun u => set_ct u ct) st) code)) by auto.
      assert (E : bodyst (rec_write_header (on_u (fun u => set_ct u ct) st) code) = bodyst st)
        by (rewrite rec_write_header_body; reflexivity).
      destruct (s_wt s).
      + destruct (copy_chunks (rec_write P) _ (whole (s_data s)) 0%nat false) as [[s1 n] e] eqn:HW.
        apply pair_equal_spec in H as [<- <-].
        destruct (copy_rec_write_body _ _ _ _ _ _ _ _ HW) as (k & A & B & _ & D).
        rewrite whole_concat in *. rewrite E in A.
        exists k. simpl. split; auto. split; auto. split; [discriminate|]. intros X _. apply D; auto.
      + destruct (RF P cfg _ s) as [[s1 n] e] eqn:HW. apply pair_equal_spec in H as [<- <-].
        destruct (RF_bytes _ _ _ _ _ I1 HW) as (k & A & B & _ & D). rewrite E in A.
        exists k. simpl. split; auto. split; auto. split; [discriminate|auto].
    - unfold ctx_redirect in H.
      destruct ((code <? 300) || (308 <? code)).
      + apply pair_equal_spec in H as [<- <-]. unchanged.
      + destruct (u_ct (snd st)).
        * apply pair_equal_spec in H as [<- <-]. rewrite rec_write_header_body.
          change (bodyst (on_u (fun u => set_loc u url) st)) with (bodyst st). unchanged.
        * destruct (rec_write P _ body) as [[s n] e] eqn:HW. apply pair_equal_spec in H as [<- <-].
          destruct (rec_write_body _ _ _ _ _ _ HW) as (A & B & _).
          rewrite rec_write_header_body in A.
          change (bodyst (on_u _ (on_u _ st))) with (bodyst st) in A.
          exists n. simpl. split; auto. split; auto. split; discriminate.
  Qed.
End StepBytes.

(* ---------- capability delegation, one call (independent of ReadFrom) ---------- *)

Section StepCaps.
  Variable RF : policy -> ucfg -> state -> source -> state * nat * err.
  Variable P : policy.
  Variable cfg : ucfg.

  Lemma delegate_cap b k st st' e :
    rec_delegate P b k st = (st', e) ->
    if b then lg (snd st') = lg (snd st) ++ [] ++ [EvCap k] /\ e = p_cap P (tl (u_tr (snd st'))) k
    else lg (snd st') = lg (snd st) /\ e = ENotSupported.
  Proof.
    unfold rec_delegate, uw_cap. destruct b; intros H; apply pair_equal_spec in H as [<- <-]; auto.
  Qed.

  Lemma step_caps st c st' r :
    step_with RF P cfg st c = (st', r) ->
    capability_ok cfg c r (p_cap P (tl (u_tr (snd st')))) (lg (snd st)) (lg (snd st')).
  Proof.
    intros H. unfold capability_ok. destruct c; simpl in H; simpl; auto.
    - (* FlushError *)
      destruct (rec_flush_error P cfg st) as [s e] eqn:HW. apply pair_equal_spec in H as [<- <-].
      unfold rec_flush_error, uw_cap in HW.
      assert (X : exists hs, lg (snd (if r_size (fst st) =? not_written then rec_write_header st (r_status (fst st)) else st)) = lg (snd st) ++ hs /\ forallb is_header hs = true).
      { destruct (r_size (fst st) =? not_written); [apply rec_write_header_log|].
        exists []. now rewrite app_nil_r. }
      destruct X as (hs & Hl & Hh).
      set (st1 := if r_size (fst st) =? not_written then rec_write_header st (r_status (fst st)) else st) in *.
      destruct (c_flush cfg); apply pair_equal_spec in HW as [<- <-]; [auto| | |];
        exists hs; unfold lg in *; cbn [snd fst u_tr rev tl];
        (split; [etransitivity; [apply (f_equal (fun l => l ++ _)); exact Hl | rewrite <- app_assoc; reflexivity]
                | repeat split; auto]).
    - (* Hijack *)
      destruct (rec_hijack P cfg st) as [s e] eqn:HW. apply pair_equal_spec in H as [<- <-].
      unfold rec_hijack, uw_cap in HW. destruct (c_hij cfg).
      + destruct st as [r0 u0]. apply pair_equal_spec in HW as [<- <-]. exists []. simpl. auto.
      + apply pair_equal_spec in HW as [<- <-]. auto.
    - destruct (rec_delegate P (c_push cfg) KPush st) as [s e] eqn:HW. apply pair_equal_spec in H as [<- <-].
      apply delegate_cap in HW. destruct (c_push cfg); [exists []|]; simpl; intuition.
    - destruct (rec_delegate P (c_rdl cfg) KRdl st) as [s e] eqn:HW. apply pair_equal_spec in H as [<- <-].
      apply delegate_cap in HW. destruct (c_rdl cfg); [exists []|]; simpl; intuition.
    - destruct (rec_delegate P (c_wdl cfg) KWdl st) as [s e] eqn:HW. apply pair_equal_spec in H as [<- <-].
      apply delegate_cap in HW. destruct (c_wdl cfg); [exists []|]; simpl; intuition.
    - destruct (rec_delegate P (c_dup cfg) KDup st) as [s e] eqn:HW. apply pair_equal_spec in H as [<- <-].
      apply delegate_cap in HW. destruct (c_dup cfg); [exists []|]; simpl; intuition.
  Qed.
End StepCaps.

(* ---------- helpers on a response nothing has been sent on ---------- *)

Lemma final_not_info code : final code = true -> (100 <=? code) && (code <=? 199) && negb (code =? 101) = false.
Proof. rewrite final_spec. intros H. apply negb_true_iff in H. exact H. Qed.

Lemma fresh_header code (v l : option bytes) :
  final code = true ->
  rec_write_header (r_init, mku [] v l) code = (mkr 0 code false, mku [EvHeader code] v l).
Proof. intros H. unfold rec_write_header. simpl. rewrite (final_not_info _ H). reflexivity. Qed.

Definition sent_exactly (code : Z) (v l : option bytes) (data : bytes) (st' : state) (e : err) : Prop :=
  headers (lg (snd st')) = [code] /\ u_ct (snd st') = v /\ u_loc (snd st') = l /\
  r_status (fst st') = code /\
  exists k, body (lg (snd st')) = firstn k data /\ (e = ENil -> k = length data).

(* a first body write on a response whose header was just sent *)
Lemma write_after_header P code v l p st' n e :
  io_writer_contract P ->
  rec_write P (mkr 0 code false, mku [EvHeader code] v l) p = (st', n, e) ->
  sent_exactly code v l p st' e.
Proof.
  intros C. unfold rec_write. simpl.
  destruct (uw_write P (mku [EvHeader code] v l) p) as [[u2 n2] e2] eqn:HW.
  intros H. apply pair_equal_spec in H as [H <-]. apply pair_equal_spec in H as [<- <-].
  destruct (uw_write_log _ _ _ _ _ _ HW) as (Hl & Hn & Hc & Hloc). simpl in *.
  unfold sent_exactly, lg. simpl. rewrite Hl. simpl. rewrite ?app_nil_r. repeat split; auto.
  exists n2. split; [reflexivity|]. intros E. eapply uw_write_contract; eauto.
Qed.

Lemma copy_after_header P code v l cs fail st' n e :
  copy_chunks (rec_write P) (mkr 0 code false, mku [EvHeader code] v l) cs 0%nat fail = (st', n, e) ->
  sent_exactly code v l (concat cs) st' e.
Proof.
  intros H.
  destruct (copy_chunks_log (rec_write P) (fun st => lg (snd st))
              (fun st => r_hij (fst st) = false /\ 0 <= r_size (fst st) /\ r_status (fst st) = code /\
                         u_ct (snd st) = v /\ u_loc (snd st) = l))
    with (cs := cs) (s := (mkr 0 code false, mku [EvHeader code] v l)) (w := 0%nat) (fail := fail)
         (s' := st') (w' := n) (e := e) as ((G1 & G2 & G3 & G4 & G5) & bs & k & Hl & Hc & Hk & _ & He); auto.
  - intros [r u] c [r' u'] n0 e0 (A1 & A2 & A3 & A4 & A5) HW. simpl in *.
    unfold rec_write in HW. rewrite A1 in HW.
    destruct (r_size r =? not_written) eqn:E; [apply eqb_nw_true in E; unfold not_written in E; lia|].
    destruct (uw_write P u c) as [[u2 n2] e2] eqn:HU.
    apply pair_equal_spec in HW as [HW <-]. apply pair_equal_spec in HW as [HW <-].
    apply pair_equal_spec in HW as [<- <-].
    destruct (uw_write_log _ _ _ _ _ _ HU) as (B1 & B2 & B3 & B4). simpl.
    repeat split; auto; try congruence. lia.
  - simpl. repeat split; auto. lia.
  - unfold sent_exactly. rewrite Hl. rewrite headers_app, headers_map_body, body_app, body_map_body. simpl.
    repeat split; auto. exists k. split; auto. intros E. apply He; auto.
Qed.

Lemma uw_read_from_log P u src u' n e :
  uw_read_from P u src = (u', n, e) ->
  exists bs k, lg u' = lg u ++ map EvBody bs /\ concat bs = firstn k (s_data src) /\ n = k /\
               (e = ENil -> k = length (s_data src)) /\ u_ct u' = u_ct u /\ u_loc u' = u_loc u.
Proof.
  unfold uw_read_from. intros H.
  destruct (copy_chunks_log (uw_write P) lg (fun x => u_ct x = u_ct u /\ u_loc x = u_loc u))
    with (cs := chunks_of src) (s := u) (w := 0%nat) (fail := src_fails src) (s' := u') (w' := n) (e := e)
    as ((G1 & G2) & bs & k & Hl & Hc & Hk & Hn & He); auto.
  - intros s c s' n0 e0 (A1 & A2) HW. destruct (uw_write_log _ _ _ _ _ _ HW) as (B1 & B2 & B3 & B4).
    repeat split; auto; congruence.
  - rewrite chunks_of_concat in *. exists bs, k. repeat split; auto. intros E. apply He; auto.
Qed.

Lemma redirect_code_ok_spec code : redirect_code_ok code = negb ((code <? 300) || (308 <? code)).
Proof.
  unfold redirect_code_ok.
  destruct (300 <=? code) eqn:A, (code <=? 308) eqn:B, (code <? 300) eqn:C, (308 <? code) eqn:D; try reflexivity;
    rewrite ?Z.leb_le, ?Z.leb_gt, ?Z.ltb_lt, ?Z.ltb_ge in *; lia.
Qed.

Section Helpers.
  Variable RF : policy -> ucfg -> state -> source -> state * nat * err.
  Variable P : policy.
  Variable cfg : ucfg.
  Hypothesis contract : io_writer_contract P.
  (* ReadFrom right after the header of a fresh response *)
  Hypothesis RF_after_header : forall code ct src st' n e,
    RF P cfg (mkr 0 code false, mku [EvHeader code] (Some ct) None) src = (st', n, e) ->
    sent_exactly code (Some ct) None (s_data src) st' e.

  Lemma step_helper_exact c :
    is_helper c = true -> final (helper_code c) = true ->
    let '(st', r) := step_with RF P cfg st_init c in
    helper_exact c r (lg (snd st')) (u_ct (snd st')) (u_loc (snd st')) (rec_answers (fst st')).
  Proof.
    intros Hh Hf. destruct c; try discriminate; cbn [step_with helper_code] in *.
    - unfold ctx_string, st_init, u_init, on_u, set_ct, ct_empty; cbn [fst snd u_ct u_tr u_loc].
      rewrite (fresh_header _ _ _ Hf).
      destruct (rec_write P _ payload) as [[s n] e] eqn:HW.
      destruct (write_after_header _ _ _ _ _ _ _ _ contract HW) as (A & B & C & D & k & E & F).
      simpl. repeat split; auto. exists k; auto. intros X. rewrite E, (F X). apply firstn_all.
    - unfold ctx_blob, st_init, u_init, on_u, set_ct, ct_empty; cbn [fst snd u_ct u_tr u_loc].
      rewrite (fresh_header _ _ _ Hf).
      destruct (rec_write P _ payload) as [[s n] e] eqn:HW.
      destruct (write_after_header _ _ _ _ _ _ _ _ contract HW) as (A & B & C & D & k & E & F).
      simpl. repeat split; auto. exists k; auto. intros X. rewrite E, (F X). apply firstn_all.
    - unfold ctx_stream, st_init, u_init, on_u, set_ct, ct_empty; cbn [fst snd u_ct u_tr u_loc].
      rewrite (fresh_header _ _ _ Hf).
      destruct (s_wt s).
      + destruct (copy_chunks (rec_write P) _ (whole (s_data s)) 0%nat false) as [[s1 n] e] eqn:HW.
        destruct (copy_after_header _ _ _ _ _ _ _ _ _ HW) as (A & B & C & D & k & E & F).
        rewrite whole_concat in *.
        simpl. repeat split; auto. exists k; auto. intros X. rewrite E, (F X). apply firstn_all.
      + destruct (RF P cfg _ s) as [[s1 n] e] eqn:HW.
        destruct (RF_after_header _ _ _ _ _ _ HW) as (A & B & C & D & k & E & F).
        simpl. repeat split; auto. exists k; auto. intros X. rewrite E, (F X). apply firstn_all.
    - destruct (ctx_redirect P st_init code url body) as [st' e] eqn:HR.
      cbn [helper_exact]. rewrite redirect_code_ok_spec. unfold ctx_redirect in HR.
      destruct ((code <? 300) || (308 <? code)); cbn [negb].
      + apply pair_equal_spec in HR as [<- <-]. simpl. auto.
      + unfold st_init, u_init, on_u, set_ct, set_loc in HR; cbn [fst snd u_ct u_tr u_loc] in HR.
        rewrite (fresh_header _ _ _ Hf) in HR.
        destruct (rec_write P _ body) as [[s n] e0] eqn:HW.
        apply pair_equal_spec in HR as [<- <-].
        destruct (write_after_header _ _ _ _ _ _ _ _ contract HW) as (A & B & C & D & k & E & F).
        simpl. repeat split; auto. exists k; auto.
  Qed.
End Helpers.
