(* C14 model of a fox Router served THROUGH another fox Context's Writer():
     parent.Handle(..., WrapH(child))   /   child.ServeHTTP(c.Writer(), c.Request())
   cTx.reset (context.go:120) stacks the child's recorder on whatever
   http.ResponseWriter it is given, here the parent's recorder:

       child's recorder  ->  parent's recorder  ->  the real underlying writer

   The child's recorder is the SAME code (response_writer.go:81-288) as the parent's;
   only the writer underneath differs: a *recorder offers every optional interface
   statically (io.ReaderFrom, io.StringWriter through WriteString, FlushError,
   http.Hijacker, http.Pusher, deadlines, full duplex), so the child always takes the
   type-assertion branches and calls the parent's method, which in turn looks at what
   the real writer offers.  The parent's side is literally Model.v ([rec_*] /
   [step_with]); the child's side is the recorder once more with every
   r.ResponseWriter.X replaced by the parent's X.  Header() is the embedded method
   all the way down: both contexts edit the real writer's header map. *)
From FoxBase Require Import Bytes.
From FoxC14 Require Import Types Model ModelFixed.
From Coq Require Import List.
Import ListNotations.
Open Scope Z_scope.

(* who makes a call: a handler/middleware of the parent router on the parent's
   Context, or a handler of the mounted router on the child's Context *)
Inductive who := Parent | Child.

Section Nested.
  (* ReadFrom of the PARENT's recorder (Model.rec_read_from / ModelFixed.rec_read_from_fixed) ... *)
  Variable RF : policy -> ucfg -> state -> source -> state * nat * err.
  (* ... and which of the two the child's recorder has (same code, so the same choice) *)
  Variable fx : bool.
  Variable P : policy.
  Variable cfg : ucfg.     (* optional interfaces of the REAL writer *)

  (* child's recorder fields, on top of the parent's recorder + real writer *)
  Definition nstate := (rstate * state)%type.
  Definition nst_init : nstate := (r_init, st_init).

  (* WriteHeader, :121-144, r.ResponseWriter = the parent's recorder *)
  Definition nrec_write_header (ns : nstate) (code : Z) : nstate :=
    let '(r, s) := ns in
    if r_hij r then ns
    else if negb (r_size r =? not_written) then ns
    else if (100 <=? code) && (code <=? 199) && negb (code =? 101) then (r, rec_write_header s code)
    else (mkr 0 code (r_hij r), rec_write_header s code).

  (* if r.size == notWritten { r.size = 0; r.ResponseWriter.WriteHeader(r.status) } *)
  Definition ncommit (ns : nstate) : nstate :=
    let '(r, s) := ns in
    if r_size r =? not_written then (mkr 0 (r_status r) (r_hij r), rec_write_header s (r_status r)) else ns.

  Definition nadd (r : rstate) (n : nat) : rstate := mkr (r_size r + Z.of_nat n) (r_status r) (r_hij r).

  (* Write, :148-165 *)
  Definition nrec_write (ns : nstate) (buf : bytes) : nstate * nat * err :=
    if r_hij (fst ns) then (ns, 0%nat, EHijacked)
    else
      let ns1 := ncommit ns in
      let '(s2, n, e) := rec_write P (snd ns1) buf in
      ((nadd (fst ns1) n, s2), n, e).

  (* WriteString, :170-187: io.WriteString(parent's recorder, s) = its WriteString *)
  Definition nrec_write_string (ns : nstate) (s : bytes) : nstate * nat * err :=
    if r_hij (fst ns) then (ns, 0%nat, EHijacked)
    else
      let ns1 := ncommit ns in
      let '(s2, n, e) := rec_write_string P cfg (snd ns1) s in
      ((nadd (fst ns1) n, s2), n, e).

  (* ReadFrom, :191-209: the parent's recorder IS an io.ReaderFrom, always the fast path *)
  Definition nrec_read_from (ns : nstate) (src : source) : nstate * nat * err :=
    if fx then
      if r_hij (fst ns) then (ns, 0%nat, EHijacked)
      else
        let ns1 := ncommit ns in
        let '(s2, n, e) := RF P cfg (snd ns1) src in
        ((nadd (fst ns1) n, s2), n, e)
    else
      let '(r, s) := ns in
      let '(s2, n, e) := RF P cfg s src in
      let r' := if is_nil e
                then mkr ((if r_size r =? not_written then 0 else r_size r) + Z.of_nat n) (r_status r) (r_hij r)
                else r in
      ((r', s2), n, e).

  (* FlushError, :213-229: the parent's recorder has FlushError() error: first case of the type switch *)
  Definition nrec_flush_error (ns : nstate) : nstate * err :=
    let ns1 := if r_size (fst ns) =? not_written then nrec_write_header ns (r_status (fst ns)) else ns in
    let '(s2, e) := rec_flush_error P cfg (snd ns1) in
    ((fst ns1, s2), e).

  (* Push / SetReadDeadline / SetWriteDeadline / EnableFullDuplex, :233-288: the parent's recorder has the method *)
  Definition nrec_delegate (offered : bool) (k : cap) (ns : nstate) : nstate * err :=
    let '(s2, e) := rec_delegate P offered k (snd ns) in ((fst ns, s2), e).

  (* Hijack, :242-248: the parent's recorder is an http.Hijacker: the child's flag is set whatever it answers *)
  Definition nrec_hijack (ns : nstate) : nstate * err :=
    let '(r, s) := ns in
    let '(s2, e) := rec_hijack P cfg s in
    ((mkr (r_size r) (r_status r) true, s2), e).

  (* ---------- Context helpers on the child's Context ---------- *)

  Definition non_u (f : ustate -> ustate) (ns : nstate) : nstate := (fst ns, on_u f (snd ns)).
  Definition nu (ns : nstate) : ustate := snd (snd ns).

  Definition nctx_string (ns : nstate) (code : Z) (p : bytes) : nstate * err :=
    let ns0 := if ct_empty (nu ns) then non_u (fun u => set_ct u text_plain) ns else ns in
    let ns1 := nrec_write_header ns0 code in
    let '(ns2, _, e) := nrec_write ns1 p in
    (ns2, e).

  Definition nctx_blob (ns : nstate) (code : Z) (ct p : bytes) : nstate * err :=
    let ns0 := non_u (fun u => set_ct u ct) ns in
    let ns1 := nrec_write_header ns0 code in
    let '(ns2, _, e) := nrec_write ns1 p in
    (ns2, e).

  Definition nctx_stream (ns : nstate) (code : Z) (ct : bytes) (src : source) : nstate * err :=
    let ns0 := non_u (fun u => set_ct u ct) ns in
    let ns1 := nrec_write_header ns0 code in
    let '(ns2, _, e) :=
      if s_wt src then copy_chunks nrec_write ns1 (whole (s_data src)) 0%nat false
      else nrec_read_from ns1 src in
    (ns2, e).

  Definition nctx_redirect (ns : nstate) (code : Z) (url body : bytes) : nstate * err :=
    if (code <? 300) || (308 <? code) then (ns, EInvalidRedirect)
    else
      let had_ct := match u_ct (nu ns) with Some _ => true | None => false end in
      let ns0 := non_u (fun u => set_loc u url) ns in
      let ns1 := if had_ct then ns0 else non_u (fun u => set_ct u text_html) ns0 in
      let ns2 := nrec_write_header ns1 code in
      if had_ct then (ns2, ENil)
      else let '(ns3, _, _) := nrec_write ns2 body in (ns3, ENil).

  (* one call on the child's Context / ResponseWriter *)
  Definition cstep (ns : nstate) (c : call) : nstate * result :=
    match c with
    | CWriteHeader code => (nrec_write_header ns code, res0 ENil)
    | CWrite b => let '(ns', n, e) := nrec_write ns b in (ns', mkres (Z.of_nat n) e)
    | CWriteString b => let '(ns', n, e) := nrec_write_string ns b in (ns', mkres (Z.of_nat n) e)
    | CReadFrom s => let '(ns', n, e) := nrec_read_from ns s in (ns', mkres (Z.of_nat n) e)
    | CFlushError => let '(ns', e) := nrec_flush_error ns in (ns', res0 e)
    | CHijack => let '(ns', e) := nrec_hijack ns in (ns', res0 e)
    | CPush => let '(ns', e) := nrec_delegate (c_push cfg) KPush ns in (ns', res0 e)
    | CSetReadDeadline => let '(ns', e) := nrec_delegate (c_rdl cfg) KRdl ns in (ns', res0 e)
    | CSetWriteDeadline => let '(ns', e) := nrec_delegate (c_wdl cfg) KWdl ns in (ns', res0 e)
    | CEnableFullDuplex => let '(ns', e) := nrec_delegate (c_dup cfg) KDup ns in (ns', res0 e)
    | CUnwrap => (ns, res0 ENil)          (* returns the parent's recorder *)
    | CString code p => let '(ns', e) := nctx_string ns code p in (ns', res0 e)
    | CBlob code ct p => let '(ns', e) := nctx_blob ns code ct p in (ns', res0 e)
    | CStream code ct s => let '(ns', e) := nctx_stream ns code ct s in (ns', res0 e)
    | CRedirect code url body => let '(ns', e) := nctx_redirect ns code url body in (ns', res0 e)
    end.

  (* a call by either party: the parent's handlers act on the parent's recorder
     exactly as in Model.v, the child's recorder is not involved *)
  Definition nstep (ns : nstate) (wc : who * call) : nstate * result :=
    match fst wc with
    | Parent => let '(s', r) := step_with RF P cfg (snd ns) (snd wc) in ((fst ns, s'), r)
    | Child => cstep ns (snd wc)
    end.

  Fixpoint nrun_from (ns : nstate) (cs : list (who * call)) : nstate * list (result * nstate) :=
    match cs with
    | [] => (ns, [])
    | c :: cs' =>
        let '(ns1, r) := nstep ns c in
        let '(nsn, l) := nrun_from ns1 cs' in
        (nsn, (r, ns1) :: l)
    end.
End Nested.

(* the code as it is (pinned ReadFrom) and with the ReadFrom repair *)
Definition nrun (P : policy) (cfg : ucfg) (cs : list (who * call)) :=
  nrun_from rec_read_from false P cfg nst_init cs.
Definition nrun_fixed (P : policy) (cfg : ucfg) (cs : list (who * call)) :=
  nrun_from rec_read_from_fixed true P cfg nst_init cs.
