(* C14, tie A: the generated methods (GenRec.v) on concrete, non-trivial states
   (non-vacuity of the bridge theorems of Props_GenRec.v). *)
From FoxBase Require Import Bytes.
From FoxC14 Require Import Types Spec Model ModelFixed RecSem GenRec BridgeRec Lemmas Invariant Corr Examples.
From Coq Require Import String List ZArith Bool.
Import ListNotations.
Open Scope Z_scope.

(* what an earlier request may have left in a pooled recorder *)
Definition ex_dirty : state := (mkr 17 404 true, uw_header u_init 404).
Definition ex_flusher_only : ucfg := mkcfg false false FFlusher false false false false false.
Definition ex_src : source := mksrc (S2B "hello") true 2 false.   (* "he" "ll" "o", then an error *)

Lemma ex_gen_reset : gen_rec_reset ex_dirty u_init = st_init /\ ex_dirty <> st_init.
Proof. split; [reflexivity|discriminate]. Qed.

Lemma ex_gen_getters :
  gen_answers st_init = mkans 200 false 0 /\
  gen_answers (mkr 5 201 false, u_init) = mkans 201 true 5 /\
  gen_answers (mkr 0 204 false, u_init) = mkans 204 true 0 /\
  gen_rec_unwrap ex_dirty = uw_header u_init 404.
Proof. repeat split; reflexivity. Qed.

Lemma ex_gen_write_header :
  gen_rec_write_header st_init 404 = (mkr 0 404 false, uw_header u_init 404) /\
  gen_rec_write_header st_init 103 = (r_init, uw_header u_init 103) /\
  gen_rec_write_header st_init 199 = (r_init, uw_header u_init 199) /\
  gen_rec_write_header st_init 101 = (mkr 0 101 false, uw_header u_init 101) /\
  gen_rec_write_header (mkr 0 404 false, u_init) 500 = (mkr 0 404 false, u_init) /\
  gen_rec_write_header (mkr (-1) 200 true, u_init) 500 = (mkr (-1) 200 true, u_init).
Proof. repeat split; reflexivity. Qed.

(* a write cut short by the underlying writer (budget 2): implicit 200 first, size = accepted bytes *)
Lemma ex_gen_write :
  gen_rec_write (pol (Some 2%nat) false) st_init (S2B "abc") =
    ((mkr 2 200 false, mku [EvBody (S2B "ab"); EvHeader 200] None None), 2%nat, EUw) /\
  gen_rec_write (pol None false) (mkr 0 200 true, u_init) (S2B "abc") = ((mkr 0 200 true, u_init), 0%nat, EHijacked).
Proof. vm_compute. split; reflexivity. Qed.

Lemma ex_gen_write_string :
  gen_rec_write_string (pol None false) ex_all (mkr 3 201 false, u_init) (S2B "abc") =
    ((mkr 6 201 false, mku [EvBody (S2B "abc")] None None), 3%nat, ENil).
Proof. vm_compute. reflexivity. Qed.

Lemma ex_gen_flush_error :
  gen_rec_flush_error (pol None false) ex_all st_init = ((mkr 0 200 false, mku [EvCap KFlushError; EvHeader 200] None None), ENil) /\
  gen_rec_flush_error (pol None false) ex_flusher_only st_init = ((mkr 0 200 false, mku [EvCap KFlush; EvHeader 200] None None), ENil) /\
  gen_rec_flush_error (pol None false) ex_none st_init = (st_init, ENotSupported).
Proof. vm_compute. repeat split; reflexivity. Qed.

Lemma ex_gen_hijack :
  gen_rec_hijack (pol None false) ex_all st_init = ((mkr (-1) 200 true, mku [EvCap KHijack] None None), ENil) /\
  gen_rec_hijack (pol None false) ex_none st_init = (st_init, ENotSupported).
Proof. vm_compute. split; reflexivity. Qed.

Lemma ex_gen_delegations :
  gen_rec_push (pol None true) ex_all st_init = ((r_init, mku [EvCap KPush] None None), ECap) /\
  gen_rec_set_read_deadline (pol None false) ex_all st_init = ((r_init, mku [EvCap KRdl] None None), ENil) /\
  gen_rec_set_write_deadline (pol None false) ex_all st_init = ((r_init, mku [EvCap KWdl] None None), ENil) /\
  gen_rec_enable_full_duplex (pol None false) ex_all st_init = ((r_init, mku [EvCap KDup] None None), ENil) /\
  gen_rec_push (pol None false) ex_none st_init = (st_init, ENotSupported).
Proof. vm_compute. repeat split; reflexivity. Qed.

(* a failing source, with and without the underlying io.ReaderFrom: header first, all
   accepted bytes counted (true of both ReadFrom bodies the models know only for the fallback;
   of the one after the `fix:` commit for both) *)
Lemma ex_gen_read_from_fallback :
  gen_rec_read_from (pol None false) ex_none st_init ex_src =
    ((mkr 5 200 false, mku [EvBody (S2B "o"); EvBody (S2B "ll"); EvBody (S2B "he"); EvHeader 200] None None), 5%nat, ESrc).
Proof. vm_compute. reflexivity. Qed.

(* outside its own methods, the fields of a recorder are assigned (or a recorder literal built) only here *)
Lemma gen_rec_foreign_writers_pinned :
  gen_rec_foreign_writers = ["cTx.Clone"%string; "newResponseWriter"%string].
Proof. reflexivity. Qed.
