(* AllocE2E — C16 for EVERY reachable tree (agent p-compose2).

   Route/Alloc2.params_bounded proves "params / tsrParams never grow during a lookup" under the tree
   invariant  wroots (t_roots t) <= t_maxparams t  ("no root-to-leaf key chain holds more wildcards
   than tXn.maxParams"), and Alloc2.insert_keeps_wroots shows only that Tree.insert keeps it.
   Here the invariant is proved for every tree the router can build (any history of Handle / Update /
   Delete / Truncate, direct or inside committed / aborted transactions), semantically:

     1. in a well-formed tree every root-to-leaf key chain is a decomposition of a prefix of some
        REGISTERED pattern, and parse_wildcard is super-additive (Alloc2.W_app), so
           wroots (t_roots t) <= max { W p | p registered in t }           (wroots_le_of_patterns_thm)
     2. every registered pattern p of a reachable txn has W p <= t_maxparams: psLen handed to insert is
        parseRoute's wildcard count = W p (W_closed), maxParams only grows on insert and is copied by
        update / remove / truncate, and the registered set after each operation is given by
        TreeMap.{insert,update,remove,truncate}_tree_spec                  (HJ_step, HJ_run)
     3. hence params_bounded applies to pub, to the open transaction and to the visible txn.

   Assumed of the steps: [hop_ok_full] (an accepted step carries a valid pattern, hostSplit = index of
   its first '/', psLen = its number of wildcards); discharged from parseRoute in the _parser / _closed
   variants through ParserBridge. *)
From Coq Require Import Lia Arith List Permutation.
From FoxBase Require Import Bytes.
From FoxRoute Require Import Node Lookup Spec Tree MapSpec Corr CorrHist WFDef TreeWF TreeMap TreeMap2
  StaticEquiv StaticEquiv2 EndToEnd EndToEnd2 Alloc Alloc2.
From FoxCompose Require Import ParserBridge.
Import ListNotations.
Open Scope char_scope.

(* ------------------------------------------------------------------ *)
(* 0. W p = number of wildcard tokens, for a legal pattern              *)
(* ------------------------------------------------------------------ *)
Lemma pw_spec_length : forall kt pos, List.length (pw_spec kt pos) = count_wildcards kt.
Proof.
  induction kt as [|t kt IH]; intros pos; [reflexivity|].
  destruct t as [c|nm|nm]; cbn [pw_spec count_wildcards List.length]; rewrite ?IH; reflexivity.
Qed.

Lemma W_closed p : closed p = true -> W p = count_wildcards (tokenize p).
Proof.
  intros Hc. destruct (valid_render p Hc) as [Hr Hok].
  transitivity (List.length (parse_wildcard_go (render (tokenize p)) 0 PwDefault [])).
  - rewrite Hr. reflexivity.
  - rewrite (pw_render (tokenize p) 0 Hok). apply pw_spec_length.
Qed.

Lemma valid_closed p : valid_patternb p = true -> closed p = true.
Proof. unfold valid_patternb. intros H. apply andb_prop in H. exact (proj1 H). Qed.

Lemma W_valid_full ri : valid_rinfo_full ri -> W (rpat (ri_route ri)) = ri_pslen ri.
Proof. intros [[Hv _] Hps]. rewrite Hps. apply W_closed, valid_closed, Hv. Qed.

(* ------------------------------------------------------------------ *)
(* 1. tree lemma: a key chain is dominated by a registered pattern      *)
(* ------------------------------------------------------------------ *)
Lemma maxl_attained (f : node -> nat) : forall l, l <> [] -> exists c, In c l /\ maxl f l = f c.
Proof.
  induction l as [|x r IH]; intros Hne; [congruence|].
  destruct r as [|y r'].
  - exists x. split; [left; reflexivity|]. cbn. lia.
  - destruct IH as [c [Hc Hm]]; [discriminate|].
    change (maxl f (x :: y :: r')) with (Nat.max (f x) (maxl f (y :: r'))). rewrite Hm.
    destruct (Nat.max_spec (f x) (f c)) as [[_ E]|[_ E]]; rewrite E.
    + exists c. split; [right; exact Hc|reflexivity].
    + exists x. split; [left; reflexivity|reflexivity].
Qed.

Lemma maxl_le (f : node -> nat) B : forall l, (forall c, In c l -> f c <= B) -> maxl f l <= B.
Proof.
  induction l as [|x r IH]; intros H; [cbn; lia|].
  change (maxl f (x :: r)) with (Nat.max (f x) (maxl f r)).
  assert (f x <= B) by (apply H; left; reflexivity).
  assert (maxl f r <= B) by (apply IH; intros c Hc; apply H; right; exact Hc). lia.
Qed.

(* below a well-formed node (whose key starts after [pre]) there is a route pre ++ q whose remainder q
   holds at least as many wildcards as the deepest key chain from the node *)
Lemma wdepth_route : forall n pre, WF_node pre n ->
  exists rt q, In rt (rlist n) /\ rpat rt = pre ++ q /\ wdepth n <= W q.
Proof.
  induction n as [k r ch IH] using node_ind2. intros pre Hwf.
  inversion Hwf as [? ? ? ? Hk Hcl Hh Hs Hr Hn Hch]; subst.
  rewrite wdepth_node.
  destruct ch as [|c0 ch0].
  - destruct r as [rt|].
    + destruct (Hr rt eq_refl) as [Hp _]. exists rt, k. split; [left; reflexivity|].
      split; [exact Hp|]. cbn. lia.
    + exfalso. destruct (Hn eq_refl) as [H2 | [_ [g [Hg _]]]]; [cbn in H2; lia|discriminate Hg].
  - destruct (maxl_attained wdepth (c0 :: ch0)) as [c [Hc Hm]]; [discriminate|].
    rewrite Hm. rewrite Forall_forall in IH, Hch.
    destruct (IH c Hc (pre ++ k) (Hch c Hc)) as [rt [q [Hin [Hp Hw]]]].
    exists rt, (k ++ q). split; [|split].
    + cbn [rlist]. apply in_or_app. right. apply in_flat_map. exists c. split; assumption.
    + rewrite Hp, <- app_assoc. reflexivity.
    + pose proof (W_app k q). lia.
Qed.

(* the registered patterns of a txn are bounded by B *)
Definition pats_le (t : txn) (B : nat) : Prop :=
  forall m p id, In (m, p, id) (routes_of_txn t) -> W p <= B.

(* tree-level form: on a well-formed forest, a bound on the registered patterns bounds every key chain *)
Theorem wroots_le_of_patterns_thm t B : WF_txn t -> pats_le t B -> wroots (t_roots t) <= B.
Proof.
  intros [[_ [_ [_ Hroots]]] _] Hb. unfold wroots. apply maxl_le. intros root Hroot.
  rewrite Forall_forall in Hroots. destruct (Hroots root Hroot) as [Hnr [_ Hch]].
  unfold maxc. apply maxl_le. intros c Hc. rewrite Forall_forall in Hch.
  destruct (wdepth_route c [] (Hch c Hc)) as [rt [q [Hin [Hp Hw]]]]. cbn [app] in Hp.
  assert (In (nkey root, rpat rt, rid rt) (routes_of_txn t)) as Hreg.
  { unfold routes_of_txn. apply in_flat_map. exists root. split; [exact Hroot|].
    unfold routes_of_root. apply in_map_iff. exists rt. split; [reflexivity|].
    rewrite (rlist_root_children root Hnr). apply in_flat_map. exists c. split; assumption. }
  specialize (Hb _ _ _ Hreg). rewrite Hp in Hb. lia.
Qed.

Theorem wroots_le_maxparams_tree_thm t :
  WF_txn t -> (forall m p id, In (m, p, id) (routes_of_txn t) -> W p <= t_maxparams t) ->
  wroots (t_roots t) <= t_maxparams t.
Proof. intros Hw Hb. exact (wroots_le_of_patterns_thm t (t_maxparams t) Hw Hb). Qed.

(* ------------------------------------------------------------------ *)
(* 2. maxParams under the four write operations                         *)
(* ------------------------------------------------------------------ *)
Lemma insert_maxparams t m ri t' : insert t m ri = ROk t' ->
  t_maxparams t' = Nat.max (t_maxparams t) (ri_pslen ri).
Proof.
  unfold insert. intros H.
  destruct (method_index (t_roots t) m) as [i|].
  - destruct (nth_error (t_roots t) i) as [root|]; [|discriminate].
    destruct (ins (S (List.length (rpat (ri_route ri)))) ri root 0 0 (rpat (ri_route ri))) as [root' d|[p|ps]];
      try discriminate.
    injection H as <-. reflexivity.
  - destruct (nth_error (t_roots t ++ [empty_root m]) (List.length (t_roots t))) as [root|]; [|discriminate].
    destruct (ins (S (List.length (rpat (ri_route ri)))) ri root 0 0 (rpat (ri_route ri))) as [root' d|[p|ps]];
      try discriminate.
    injection H as <-. reflexivity.
Qed.

Lemma update_maxparams t m ri t' : update t m ri = ROk t' -> t_maxparams t' = t_maxparams t.
Proof.
  unfold update. intros H.
  destruct (method_index (t_roots t) m) as [i|]; [|discriminate].
  destruct (nth_error (t_roots t) i) as [root|]; [|discriminate].
  destruct (upd (S (List.length (rpat (ri_route ri)))) (ri_route ri) root (rpat (ri_route ri))) as [root'|];
    [|discriminate].
  injection H as <-. reflexivity.
Qed.

Lemma remove_maxparams t m p t' r : remove t m p = DOk t' r -> t_maxparams t' = t_maxparams t.
Proof.
  unfold remove. intros H.
  destruct (method_index (t_roots t) m) as [i|]; [|discriminate].
  destruct (nth_error (t_roots t) i) as [root|]; [|discriminate].
  destruct (rem (S (List.length p)) root true p) as [|root' r0|r0|parent r0]; try discriminate.
  - injection H as <- _. reflexivity.
  - destruct (Tree.is_nil (nchildren parent) && is_removable m); injection H as <- _; reflexivity.
Qed.

Lemma truncate_maxparams t ms : t_maxparams (truncate t ms) = t_maxparams t.
Proof.
  unfold truncate. destruct ms as [|m more]; [reflexivity|].
  destruct (truncate_methods (t_roots t) (t_size t) (m :: more)) as [rs sz]. reflexivity.
Qed.

(* ------------------------------------------------------------------ *)
(* 3. the invariant of a txn and its preservation                       *)
(* ------------------------------------------------------------------ *)
(* J t: well formed, and every registered pattern has at most maxParams wildcards *)
Definition J (t : txn) : Prop := WF_txn t /\ pats_le t (t_maxparams t).

Lemma J_wroots t : J t -> wroots (t_roots t) <= t_maxparams t.
Proof. intros [Hw Hb]. apply wroots_le_maxparams_tree_thm; assumption. Qed.

Lemma J_empty : J empty_txn.
Proof. split; [exact WF_empty|]. intros m p id Hin. cbn in Hin. contradiction. Qed.

Lemma J_insert t m ri t' : J t -> valid_rinfo_full ri -> insert t m ri = ROk t' -> J t'.
Proof.
  intros [Hw Hb] Hfull E. pose proof (W_valid_full ri Hfull) as HW. destruct Hfull as [Hv _].
  pose proof (insert_tree_spec t m ri Hw Hv) as H. cbn zeta in H. rewrite E in H.
  destruct H as [Hw' [Hp _]]. split; [exact Hw'|].
  unfold pats_le. rewrite (insert_maxparams _ _ _ _ E).
  intros m0 p0 id0 Hin. apply (Permutation_in _ Hp) in Hin. destruct Hin as [Heq|Hin].
  - injection Heq as _ <- _. lia.
  - specialize (Hb _ _ _ Hin). lia.
Qed.

Lemma J_update t m ri t' : J t -> rpat (ri_route ri) <> [] -> update t m ri = ROk t' -> J t'.
Proof.
  intros [Hw Hb] Hne E.
  pose proof (update_tree_spec t m ri Hw Hne) as H. cbn zeta in H. rewrite E in H.
  destruct H as [Hw' [old [l [Hp Hp']]]]. split; [exact Hw'|].
  unfold pats_le. rewrite (update_maxparams _ _ _ _ E).
  intros m0 p0 id0 Hin. apply (Permutation_in _ Hp') in Hin. destruct Hin as [Heq|Hin].
  - injection Heq as _ <- _. apply (Hb m (rpat (ri_route ri)) old).
    apply (Permutation_in _ (Permutation_sym Hp)). left. reflexivity.
  - apply (Hb m0 p0 id0). apply (Permutation_in _ (Permutation_sym Hp)). right. exact Hin.
Qed.

Lemma J_remove t m p t' r : J t -> p <> [] -> remove t m p = DOk t' r -> J t'.
Proof.
  intros [Hw Hb] Hne E.
  pose proof (remove_tree_spec t m p Hw Hne) as H. rewrite E in H.
  destruct H as [Hw' [_ Hp]]. split; [exact Hw'|].
  unfold pats_le. rewrite (remove_maxparams _ _ _ _ _ E).
  intros m0 p0 id0 Hin. apply (Hb m0 p0 id0).
  apply (Permutation_in _ (Permutation_sym Hp)). right. exact Hin.
Qed.

Lemma J_truncate t ms : J t -> J (truncate t ms).
Proof.
  intros [Hw Hb]. destruct (truncate_tree_spec t ms Hw) as [Hw' Hr]. split; [exact Hw'|].
  unfold pats_le. rewrite truncate_maxparams, Hr.
  intros m0 p0 id0 Hin. destruct ms as [|m more]; [contradiction|].
  apply filter_In in Hin. apply (Hb m0 p0 id0), Hin.
Qed.

(* ------------------------------------------------------------------ *)
(* 4. histories                                                         *)
(* ------------------------------------------------------------------ *)
(* the validation oracle of a step, full version: an accepted pattern is valid, hostSplit is the index
   of its first '/', and psLen is its number of wildcards (what parseRoute returns: ParserBridge) *)
Definition hop_ok_full (o : hop) : Prop := h_valid o = true -> valid_rinfo_full (hop_ri o).

Lemma hop_ok_full_ok o : hop_ok_full o -> hop_ok o.
Proof. intros H Hv. exact (proj1 (H Hv)). Qed.

Lemma hops_ok_full_ok ops : Forall hop_ok_full ops -> Forall hop_ok ops.
Proof. intros H. eapply Forall_impl; [|exact H]. exact hop_ok_full_ok. Qed.

Lemma hops_parsed_ok_full mp mk ops : Forall (hop_parsed mp mk) ops -> Forall hop_ok_full ops.
Proof. intros H. eapply Forall_impl; [|exact H]. intros o Ho Hv. exact (hop_parsed_full mp mk o Ho Hv). Qed.

Definition HJ (s : hstate) : Prop := J (pub s) /\ (forall t, cur s = Some t -> J t).

Lemma HJ_visible s : HJ s -> J (visible s).
Proof. intros [H1 H2]. unfold visible. destruct (cur s) as [t|]; [apply H2; reflexivity|exact H1]. Qed.

Lemma HJ_put s t : HJ s -> J t -> HJ (put s t).
Proof.
  intros [H1 H2] Ht. unfold put, HJ. destruct (cur s) as [t0|]; cbn [pub cur]; split; auto;
    intros t1 E; try discriminate E. injection E as <-. exact Ht.
Qed.

Lemma HJ_init : HJ init_hstate.
Proof. split; [exact J_empty|]. intros t E. discriminate E. Qed.

Lemma HJ_step s o : HJ s -> hop_ok_full o -> HJ (fst (fst (hstep s o))).
Proof.
  intros HS Hok. pose proof (HJ_visible s HS) as Hv.
  unfold hstep. fold (hop_ri o). destruct (h_kind o).
  - (* Handle *)
    destruct (negb (valid_method_handle (h_method o)) || negb (h_valid o)) eqn:Eg; cbn [fst]; [exact HS|].
    apply orb_false_elim in Eg. destruct Eg as [_ Ev]. apply negb_false_iff in Ev.
    destruct (insert (visible s) (h_method o) (hop_ri o)) as [t'|e|ps|] eqn:Ei; cbn [fst]; try exact HS.
    apply HJ_put; [exact HS|]. exact (J_insert _ _ _ _ Hv (Hok Ev) Ei).
  - (* Update *)
    destruct (Tree.is_nil (h_method o) || negb (h_valid o)) eqn:Eg; cbn [fst]; [exact HS|].
    apply orb_false_elim in Eg. destruct Eg as [_ Ev]. apply negb_false_iff in Ev.
    destruct (update (visible s) (h_method o) (hop_ri o)) as [t'|e|ps|] eqn:Eu; cbn [fst]; try exact HS.
    apply HJ_put; [exact HS|]. refine (J_update _ _ _ _ Hv _ Eu).
    apply valid_nonempty. exact (proj1 (Hok Ev)).
  - (* Delete *)
    destruct (Tree.is_nil (h_method o) || negb (h_valid o)) eqn:Eg; cbn [fst]; [exact HS|].
    apply orb_false_elim in Eg. destruct Eg as [_ Ev]. apply negb_false_iff in Ev.
    destruct (remove (visible s) (h_method o) (h_pat o)) as [t' r|] eqn:Er; cbn [fst]; try exact HS.
    apply HJ_put; [exact HS|]. refine (J_remove _ _ _ _ _ Hv _ Er).
    apply (valid_nonempty (hop_ri o)). exact (proj1 (Hok Ev)).
  - (* Truncate *)
    cbn [fst]. apply HJ_put; [exact HS|]. apply J_truncate. exact Hv.
  - (* Begin *)
    cbn [fst]. destruct HS as [H1 H2]. split; cbn [pub cur]; [exact H1|].
    intros t E. injection E as <-. exact H1.
  - (* Commit *)
    cbn [fst]. destruct (cur s) as [t'|] eqn:Ec; [|exact HS].
    destruct HS as [H1 H2]. split; cbn [pub cur]; [apply H2; exact Ec|]. intros t E. discriminate E.
  - (* Abort *)
    cbn [fst]. destruct HS as [H1 H2]. split; cbn [pub cur]; [exact H1|]. intros t E. discriminate E.
Qed.

Lemma HJ_run ops : Forall hop_ok_full ops -> forall s, HJ s -> HJ (hrun_state s ops).
Proof.
  induction ops as [|o r IH]; intros Hok s HS; [exact HS|].
  inversion Hok as [|? ? Ho Hr]; subst. unfold hrun_state. cbn [fold_left].
  apply (IH Hr). apply HJ_step; assumption.
Qed.

(* every reachable txn -- published, open, visible -- is well formed and its registered patterns have
   at most maxParams wildcards *)
Theorem J_reachable_thm ops : Forall hop_ok_full ops ->
  let s := hrun_state init_hstate ops in
  J (pub s) /\ (forall t, cur s = Some t -> J t) /\ J (final_txn ops).
Proof.
  intros Hok s. pose proof (HJ_run ops Hok _ HJ_init) as HS. fold s in HS.
  split; [exact (proj1 HS)|]. split; [exact (proj2 HS)|]. exact (HJ_visible _ HS).
Qed.

(* ---- the C16 tree invariant for every tree the router can build ---- *)
Theorem wroots_le_maxparams_reachable_thm ops : Forall hop_ok_full ops ->
  wroots (t_roots (final_txn ops)) <= t_maxparams (final_txn ops).
Proof. intros Hok. apply J_wroots. exact (proj2 (proj2 (J_reachable_thm ops Hok))). Qed.

Theorem wroots_le_maxparams_reachable_pub_thm ops : Forall hop_ok_full ops ->
  wroots (t_roots (pub (hrun_state init_hstate ops))) <= t_maxparams (pub (hrun_state init_hstate ops)).
Proof. intros Hok. apply J_wroots. exact (proj1 (J_reachable_thm ops Hok)). Qed.

Theorem wroots_le_maxparams_reachable_cur_thm ops : Forall hop_ok_full ops ->
  forall t, cur (hrun_state init_hstate ops) = Some t -> wroots (t_roots t) <= t_maxparams t.
Proof. intros Hok t E. apply J_wroots. exact (proj1 (proj2 (J_reachable_thm ops Hok)) t E). Qed.

(* all three in one statement *)
Theorem wroots_le_maxparams_reachable_all_thm ops : Forall hop_ok_full ops ->
  let s := hrun_state init_hstate ops in
  wroots (t_roots (pub s)) <= t_maxparams (pub s) /\
  (forall t, cur s = Some t -> wroots (t_roots t) <= t_maxparams t) /\
  wroots (t_roots (visible s)) <= t_maxparams (visible s).
Proof.
  intros Hok s. split; [exact (wroots_le_maxparams_reachable_pub_thm ops Hok)|].
  split; [exact (wroots_le_maxparams_reachable_cur_thm ops Hok)|exact (wroots_le_maxparams_reachable_thm ops Hok)].
Qed.

(* ------------------------------------------------------------------ *)
(* 5. maxParams along a history (no hypothesis on the steps)            *)
(* ------------------------------------------------------------------ *)
Definition is_write (k : opk) : bool :=
  match k with KHandle | KUpdate | KDelete | KTruncate => true | _ => false end.

Lemma visible_put s t : visible (put s t) = t.
Proof. unfold visible, put. destruct (cur s); reflexivity. Qed.

Lemma pub_put s t : pub (put s t) = match cur s with Some _ => pub s | None => t end.
Proof. unfold put. destruct (cur s); reflexivity. Qed.

Lemma cur_put s t : cur (put s t) = match cur s with Some _ => Some t | None => None end.
Proof. unfold put. destruct (cur s); reflexivity. Qed.

(* a write step either leaves the state alone or installs a txn whose maxParams is the old one, or
   (Handle only) max(old, psLen) *)
Lemma hstep_write_shape s o : is_write (h_kind o) = true ->
  fst (fst (hstep s o)) = s \/
  exists t', fst (fst (hstep s o)) = put s t' /\
             (t_maxparams t' = t_maxparams (visible s) \/
              (h_kind o = KHandle /\ t_maxparams t' = Nat.max (t_maxparams (visible s)) (h_pslen o))).
Proof.
  intros Hk. unfold hstep. fold (hop_ri o). destruct (h_kind o) eqn:Ek; try discriminate Hk.
  - destruct (negb (valid_method_handle (h_method o)) || negb (h_valid o)); cbn [fst]; [left; reflexivity|].
    destruct (insert (visible s) (h_method o) (hop_ri o)) as [t'|e|ps|] eqn:Ei; cbn [fst];
      try (left; reflexivity).
    right. exists t'. split; [reflexivity|]. right. split; [reflexivity|].
    exact (insert_maxparams _ _ _ _ Ei).
  - destruct (Tree.is_nil (h_method o) || negb (h_valid o)); cbn [fst]; [left; reflexivity|].
    destruct (update (visible s) (h_method o) (hop_ri o)) as [t'|e|ps|] eqn:Eu; cbn [fst];
      try (left; reflexivity).
    right. exists t'. split; [reflexivity|]. left. exact (update_maxparams _ _ _ _ Eu).
  - destruct (Tree.is_nil (h_method o) || negb (h_valid o)); cbn [fst]; [left; reflexivity|].
    destruct (remove (visible s) (h_method o) (h_pat o)) as [t' r|] eqn:Er; cbn [fst];
      try (left; reflexivity).
    right. exists t'. split; [reflexivity|]. left. exact (remove_maxparams _ _ _ _ _ Er).
  - cbn [fst]. right. exists (truncate (visible s) (h_methods o)). split; [reflexivity|]. left.
    apply truncate_maxparams.
Qed.

(* what one step does to maxParams, kind by kind *)
Theorem maxparams_monotone_thm : forall s o,
  let s' := fst (fst (hstep s o)) in
  match h_kind o with
  | KHandle =>                                (* grows to max(old, psLen) on success, else unchanged *)
      (t_maxparams (visible s') = t_maxparams (visible s) \/
       t_maxparams (visible s') = Nat.max (t_maxparams (visible s)) (h_pslen o)) /\
      t_maxparams (visible s) <= t_maxparams (visible s')
  | KUpdate | KDelete | KTruncate =>          (* copied: never shrinks, even when routes are removed *)
      t_maxparams (visible s') = t_maxparams (visible s)
  | KBegin => visible s' = pub s /\ pub s' = pub s                 (* a txn starts from the published tree *)
  | KCommit => pub s' = visible s /\ cur s' = None                 (* the txn's tree (and value) is published *)
  | KAbort => pub s' = pub s /\ cur s' = None /\ visible s' = pub s (* the published value is restored *)
  end.
Proof.
  intros s o s'.
  destruct (h_kind o) eqn:Ek.
  1-4: (assert (is_write (h_kind o) = true) as Hw by (rewrite Ek; reflexivity);
        destruct (hstep_write_shape s o Hw) as [E|[t' [E [Hm|[Hk Hm]]]]]; fold s' in E; rewrite E, ?visible_put;
        try (rewrite Ek in Hk; discriminate Hk); try lia; try (split; [auto|lia])).
  all: subst s'; unfold hstep; rewrite Ek; cbn [fst].
  - split; reflexivity.
  - unfold visible. destruct (cur s) as [t|] eqn:Ec; cbn [pub cur]; [split; reflexivity|]. rewrite Ec. split; reflexivity.
  - repeat split.
Qed.

(* while a transaction is open its maxParams is at least the published one *)
Definition tx_ge (s : hstate) : Prop := forall t, cur s = Some t -> t_maxparams (pub s) <= t_maxparams t.

Lemma tx_ge_init : tx_ge init_hstate.
Proof. intros t E. discriminate E. Qed.

Lemma tx_ge_step s o : tx_ge s ->
  tx_ge (fst (fst (hstep s o))) /\ t_maxparams (pub s) <= t_maxparams (pub (fst (fst (hstep s o)))).
Proof.
  intros Hg. destruct (is_write (h_kind o)) eqn:Hw.
  - destruct (hstep_write_shape s o Hw) as [E|[t' [E Hm]]]; rewrite E; [split; [exact Hg|lia]|].
    assert (t_maxparams (visible s) <= t_maxparams t') as Hle by (destruct Hm as [Hm|[_ Hm]]; lia).
    unfold tx_ge. rewrite pub_put, cur_put. unfold visible in Hle.
    destruct (cur s) as [t0|] eqn:Ec.
    + specialize (Hg t0 Ec). split; [|lia]. intros t1 E1. injection E1 as <-. lia.
    + split; [intros t1 E1; discriminate E1|exact Hle].
  - unfold hstep. destruct (h_kind o); try discriminate Hw; cbn [fst pub cur].
    + split; [|lia]. intros t E. cbn [cur pub] in *. injection E as <-. lia.
    + destruct (cur s) as [t'|] eqn:Ec; cbn [pub cur].
      * split; [intros t E; discriminate E|]. apply Hg. exact Ec.
      * split; [exact Hg|lia].
    + split; [intros t E; discriminate E|lia].
Qed.

Lemma tx_ge_run : forall ops s, tx_ge s ->
  tx_ge (hrun_state s ops) /\ t_maxparams (pub s) <= t_maxparams (pub (hrun_state s ops)).
Proof.
  induction ops as [|o r IH]; intros s Hg; [split; [exact Hg|cbn; lia]|].
  unfold hrun_state. cbn [fold_left]. destruct (tx_ge_step s o Hg) as [Hg' Hle].
  destruct (IH _ Hg') as [Hg'' Hle']. split; [exact Hg''|]. unfold hrun_state in Hle'. lia.
Qed.

(* the published maxParams never decreases along a history, whatever the steps (aborted transactions
   included), and an open transaction never holds less than the published value *)
Theorem maxparams_published_monotone_thm ops1 ops2 :
  t_maxparams (pub (hrun_state init_hstate ops1)) <= t_maxparams (pub (hrun_state init_hstate (ops1 ++ ops2))) /\
  (forall t, cur (hrun_state init_hstate ops1) = Some t ->
             t_maxparams (pub (hrun_state init_hstate ops1)) <= t_maxparams t).
Proof.
  destruct (tx_ge_run ops1 init_hstate tx_ge_init) as [Hg _]. split; [|exact Hg].
  unfold hrun_state at 2. rewrite fold_left_app. exact (proj2 (tx_ge_run ops2 _ Hg)).
Qed.

(* ------------------------------------------------------------------ *)
(* 6. C16: params / tsrParams never grow on any reachable tree          *)
(* ------------------------------------------------------------------ *)
Theorem params_never_grow_reachable_thm ops : Forall hop_ok_full ops ->
  forall f m host path lazy tps0,
  let t := final_txn ops in
  let h := snd (roots_lookupI f (t_roots t) m host path lazy [] tps0 hw0) in
  grow_ps (txn_caps t) h = false /\ grow_tps (txn_caps t) h = false.
Proof.
  intros Hok f m host path lazy tps0.
  exact (params_bounded f (final_txn ops) m host path lazy tps0 (wroots_le_maxparams_reachable_thm ops Hok)).
Qed.

(* the same for the PUBLISHED tree (what concurrent readers see while a transaction is open) *)
Theorem params_never_grow_reachable_pub_thm ops : Forall hop_ok_full ops ->
  forall f m host path lazy tps0,
  let t := pub (hrun_state init_hstate ops) in
  let h := snd (roots_lookupI f (t_roots t) m host path lazy [] tps0 hw0) in
  grow_ps (txn_caps t) h = false /\ grow_tps (txn_caps t) h = false.
Proof.
  intros Hok f m host path lazy tps0.
  exact (params_bounded f _ m host path lazy tps0 (wroots_le_maxparams_reachable_pub_thm ops Hok)).
Qed.

(* oracle-free: the recorded flag / psLen / hostSplit are parseRoute's results (any limits) *)
Theorem wroots_le_maxparams_reachable_parser_thm mp mk ops : Forall (hop_parsed mp mk) ops ->
  let s := hrun_state init_hstate ops in
  wroots (t_roots (pub s)) <= t_maxparams (pub s) /\
  (forall t, cur s = Some t -> wroots (t_roots t) <= t_maxparams t) /\
  wroots (t_roots (visible s)) <= t_maxparams (visible s).
Proof. intros Hp. exact (wroots_le_maxparams_reachable_all_thm ops (hops_parsed_ok_full mp mk ops Hp)). Qed.

Theorem params_never_grow_reachable_parser_thm mp mk ops : Forall (hop_parsed mp mk) ops ->
  forall f m host path lazy tps0,
  let t := final_txn ops in
  let h := snd (roots_lookupI f (t_roots t) m host path lazy [] tps0 hw0) in
  grow_ps (txn_caps t) h = false /\ grow_tps (txn_caps t) h = false.
Proof. intros Hp. exact (params_never_grow_reachable_thm ops (hops_parsed_ok_full mp mk ops Hp)). Qed.

(* no hypothesis at all: histories of API requests whose oracle fields are COMPUTED by parseRoute *)
Theorem wroots_le_maxparams_reachable_closed_thm mp mk qs :
  let s := hrun_state init_hstate (map (parsed_hop mp mk) qs) in
  wroots (t_roots (pub s)) <= t_maxparams (pub s) /\
  (forall t, cur s = Some t -> wroots (t_roots t) <= t_maxparams t) /\
  wroots (t_roots (visible s)) <= t_maxparams (visible s).
Proof. exact (wroots_le_maxparams_reachable_parser_thm mp mk _ (parsed_hops_parsed mp mk qs)). Qed.

Theorem params_never_grow_reachable_closed_thm mp mk qs :
  forall f m host path lazy tps0,
  let t := final_txn (map (parsed_hop mp mk) qs) in
  let h := snd (roots_lookupI f (t_roots t) m host path lazy [] tps0 hw0) in
  grow_ps (txn_caps t) h = false /\ grow_tps (txn_caps t) h = false.
Proof. exact (params_never_grow_reachable_parser_thm mp mk _ (parsed_hops_parsed mp mk qs)). Qed.

Theorem params_never_grow_reachable_pub_closed_thm mp mk qs :
  forall f m host path lazy tps0,
  let t := pub (hrun_state init_hstate (map (parsed_hop mp mk) qs)) in
  let h := snd (roots_lookupI f (t_roots t) m host path lazy [] tps0 hw0) in
  grow_ps (txn_caps t) h = false /\ grow_tps (txn_caps t) h = false.
Proof.
  exact (params_never_grow_reachable_pub_thm _ (hops_parsed_ok_full mp mk _ (parsed_hops_parsed mp mk qs))).
Qed.

(* ------------------------------------------------------------------ *)
(* 7. non-vacuity: a concrete history of API requests (limits 100/100)  *)
(* ------------------------------------------------------------------ *)
Definition aq (k : opk) (m p : string) (id : N) (ms : list bytes) : hreq :=
  {| q_kind := k; q_method := S2B m; q_pat := S2B p; q_rid := id; q_methods := ms; q_obs := dummy_obs |}.

Definition alloc_reqs : list hreq :=
  [ aq KHandle "GET" "/a/{x}/b/{y}" 1 [];
    aq KHandle "GET" "{sub}.ex.com/u/{id}/*{rest}" 2 [];            (* hostname + path, 3 wildcards *)
    aq KHandle "POST" "/p/{a}" 3 [];
    aq KHandle "GET" "/bad/{x" 4 [];                                 (* rejected by parseRoute *)
    aq KUpdate "GET" "/a/{x}/b/{y}" 5 [];
    aq KBegin "" "" 0 []; aq KHandle "GET" "/t/{a}/{b}/{c}/{d}" 6 []; aq KAbort "" "" 0 [];   (* 4 wildcards, aborted *)
    aq KBegin "" "" 0 []; aq KHandle "PUT" "/q/*{w}" 7 []; aq KDelete "POST" "/p/{a}" 0 []; aq KCommit "" "" 0 [];
    aq KTruncate "" "" 0 [S2B "PUT"];
    aq KDelete "GET" "/a/{x}/b/{y}" 0 [] ].

Notation alloc_ops := (map (parsed_hop 100 100) alloc_reqs).

(* the hypotheses of the oracle versions hold for it *)
Example alloc_ops_ok_full : Forall hop_ok_full alloc_ops.
Proof. exact (hops_parsed_ok_full 100 100 _ (parsed_hops_parsed 100 100 alloc_reqs)). Qed.

Example alloc_ops_flags :
  map h_valid alloc_ops = [true; true; true; false; true; false; true; false; false; true; true; false; false; true]
  /\ map h_pslen alloc_ops = [2; 3; 1; 0; 2; 0; 4; 0; 0; 1; 1; 0; 0; 2].
Proof. vm_compute. split; reflexivity. Qed.

(* the bound is attained on the final tree: some key chain holds exactly maxParams = 3 wildcards *)
Example alloc_bound_attained :
  wroots (t_roots (final_txn alloc_ops)) = 3 /\ t_maxparams (final_txn alloc_ops) = 3 /\
  List.length (routes_of_txn (final_txn alloc_ops)) = 1.
Proof. vm_compute. repeat split. Qed.

(* a lookup on the final tree fills params up to exactly the capacity, and nothing grows *)
Example alloc_lookup_fills :
  let t := final_txn alloc_ops in
  let x := roots_lookupI 100 (t_roots t) (S2B "GET") (S2B "foo.ex.com") (S2B "/u/7/x/y") false [] [] hw0 in
  model_outcome (fst x) = Some (true, false, S2B "{sub}.ex.com/u/{id}/*{rest}") /\
  h_ps (snd x) = t_maxparams t /\ grow_ps (txn_caps t) (snd x) = false /\ grow_tps (txn_caps t) (snd x) = false.
Proof. vm_compute. repeat split. Qed.

(* inside the aborted transaction the open txn held 4; after the abort the published 3 is back *)
Example alloc_abort_restores :
  let s7 := hrun_state init_hstate (firstn 7 alloc_ops) in
  let s8 := hrun_state init_hstate (firstn 8 alloc_ops) in
  t_maxparams (visible s7) = 4 /\ wroots (t_roots (visible s7)) = 4 /\ t_maxparams (pub s7) = 3 /\
  t_maxparams (visible s8) = 3 /\ wroots (t_roots (visible s8)) = 3.
Proof. vm_compute. repeat split. Qed.

(* maxParams never shrinks: after deleting the only 3-wildcard route the invariant is strict *)
Example alloc_strict_after_delete :
  let t := final_txn (alloc_ops ++ [parsed_hop 100 100 (aq KDelete "GET" "{sub}.ex.com/u/{id}/*{rest}" 0 [])]) in
  wroots (t_roots t) = 0 /\ t_maxparams t = 3 /\ routes_of_txn t = [].
Proof. vm_compute. repeat split. Qed.

(* the general theorems instantiated on the example (checks that they apply without unfolding it) *)
Example alloc_example_invariant :
  wroots (t_roots (final_txn alloc_ops)) <= t_maxparams (final_txn alloc_ops).
Proof. exact (wroots_le_maxparams_reachable_thm _ alloc_ops_ok_full). Qed.
