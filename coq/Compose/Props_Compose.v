(* Props_Compose — the seams between the areas, closed by proof (statements only; docs/Compose.md).
   Every theorem is closed by [exact] and followed by Print Assumptions; each group has an Example
   evaluated on a concrete history / request (non-vacuity). *)
From FoxBase Require Import Bytes.
From FoxC17 Require Model Spec.
From FoxPattern Require ParseRoute Token.
From FoxRoute Require Import Node Lookup Spec Tree MapSpec Corr CorrHist WFDef TreeMap2
  StaticEquiv StaticEquiv2 EndToEnd2 TsrEquiv2 Guard.
From FoxDispatch Require Import Dispatch DispatchSpec.
From FoxDispatch Require Redirect Dispatch_C08.
From FoxCompose Require Import ParserBridge TsrE2E ServeE2E.
Open Scope char_scope.

(* ================================================================== *)
(* 1. C10 => the validation oracle of C02 / C01                         *)
(* ================================================================== *)
(* whatever parseRoute accepts (any limits) passes Route's pattern automaton, its endHost is the
   hostSplit Route expects (index of the first '/'; 0 for a path-only pattern), its parameter count
   is the number of wildcard tokens of Route's tokenizer, and the two areas' tokenizers agree on it *)
Theorem accept_implies_valid : forall mp mk p n eh,
  PR.parseRoute mp mk p = PR.Accept n eh ->
  valid_patternb p = true /\
  index_byte p "/" = Some eh /\
  n = count_wildcards (Spec.tokenize p) /\
  Spec.tokenize p = map tk (PT.tokenize p).
Proof. exact accept_implies_valid_thm. Qed.
Print Assumptions accept_implies_valid.

Theorem tokenizers_agree : forall p, closed p = true -> Spec.tokenize p = map tk (PT.tokenize p).
Proof. exact tokenizers_agree_closed. Qed.
Print Assumptions tokenizers_agree.

(* the recorded oracle of a step is sound as soon as it is parseRoute's answer *)
Theorem parsed_step_oracle_sound : forall mp mk o, hop_parsed mp mk o -> h_valid o = true -> valid_rinfo_full (hop_ri o).
Proof. exact hop_parsed_full. Qed.
Print Assumptions parsed_step_oracle_sound.

Definition ex_pat := S2B "{sub}.ex-ample.de{f}.com/foo/x:{bar}/*{rest}/y".
Example accept_implies_valid_ex :
  PR.parseRoute 7 9 ex_pat = PR.Accept 4 24 /\
  valid_patternb ex_pat = true /\ index_byte ex_pat "/" = Some 24 /\ count_wildcards (Spec.tokenize ex_pat) = 4 /\
  Spec.tokenize ex_pat = map tk (PT.tokenize ex_pat) /\
  PR.parseRoute 7 9 (S2B "/a/{id}") = PR.Accept 1 0 /\ index_byte (S2B "/a/{id}") "/" = Some 0.
Proof. vm_compute. repeat split. Qed.
(* the agreement needs acceptance: on a rejected pattern the tokenizers differ (unclosed brace) *)
Example tokenizers_differ_on_rejected :
  PR.parseRoute 7 9 (S2B "/a{x") = PR.Reject PR.EUnclosedParam /\
  Spec.tokenize (S2B "/a{x") <> map tk (PT.tokenize (S2B "/a{x")).
Proof. split; [vm_compute; reflexivity|vm_compute; discriminate]. Qed.

(* ---- C02: the radix forest refines the map, for every history, the oracle being parseRoute ---- *)
Theorem C02_refines_map_parser : forall mp mk ops,
  Forall (hop_parsed mp mk) ops -> hist_ok init_hstate sinit ops.
Proof. exact C02_refines_map_parser_thm. Qed.
Print Assumptions C02_refines_map_parser.

(* no hypothesis left: any sequence of API requests, validated by parseRoute itself *)
Theorem C02_refines_map_closed : forall mp mk (qs : list hreq),
  hist_ok init_hstate sinit (map (parsed_hop mp mk) qs).
Proof. exact C02_refines_map_closed_thm. Qed.
Print Assumptions C02_refines_map_closed.

Theorem WF_reachable_parser : forall mp mk ops, Forall (hop_parsed mp mk) ops ->
  WF_txn (pub (hrun_state init_hstate ops)) /\
  (forall t, cur (hrun_state init_hstate ops) = Some t -> WF_txn t).
Proof. exact WF_reachable_parser_thm. Qed.
Print Assumptions WF_reachable_parser.

(* ---- C01 end to end, the oracle being parseRoute ---- *)
Theorem C01_end_to_end_parser : forall mp mk ops, Forall (hop_parsed mp mk) ops ->
  forall m host path fuel,
  path_only (reg_patterns (final_map ops) m) ->
  okpath path = true \/ plain_method (t_roots (final_txn ops)) m = true ->
  e2e_fuel path (t_roots (final_txn ops)) m <= fuel ->
  direct_obs (roots_lookup fuel (t_roots (final_txn ops)) m host path false [] []) =
  sres_direct (spec_lookup (reg_patterns (final_map ops) m) host path).
Proof. exact C01_end_to_end_parser_thm. Qed.
Print Assumptions C01_end_to_end_parser.

Theorem C01_end_to_end_closed : forall mp mk (qs : list hreq),
  let ops := map (parsed_hop mp mk) qs in
  forall m host path fuel,
  path_only (reg_patterns (final_map ops) m) ->
  okpath path = true \/ plain_method (t_roots (final_txn ops)) m = true ->
  e2e_fuel path (t_roots (final_txn ops)) m <= fuel ->
  direct_obs (roots_lookup fuel (t_roots (final_txn ops)) m host path false [] []) =
  sres_direct (spec_lookup (reg_patterns (final_map ops) m) host path).
Proof. exact C01_end_to_end_closed_thm. Qed.
Print Assumptions C01_end_to_end_closed.

(* ---- a concrete history of API requests (limits 100 / 100) ---- *)
Definition mkq (k : opk) (m p : string) (id : N) (ms : list bytes) : hreq :=
  {| q_kind := k; q_method := S2B m; q_pat := S2B p; q_rid := id; q_methods := ms; q_obs := dummy_obs |}.
Definition ex_reqs : list hreq :=
  [ mkq KHandle "GET" "/a/b" 1 []; mkq KHandle "GET" "/a/{x}" 2 []; mkq KHandle "GET" "/a/{y}" 3 [];   (* conflict *)
    mkq KHandle "GET" "/bad/{x" 4 []; mkq KHandle "GET" "/*x}" 5 [];                                   (* rejected by parseRoute *)
    mkq KHandle "GET" "/a/*{w}/z" 6 []; mkq KHandle "GET" "/c/" 7 [];
    mkq KBegin "" "" 0 []; mkq KHandle "GET" "/gone" 8 []; mkq KAbort "" "" 0 [];
    mkq KHandle "POST" "/a/b" 9 []; mkq KHandle "PURGE" "/c" 10 [];
    mkq KBegin "" "" 0 []; mkq KHandle "GET" "/tmp" 11 []; mkq KDelete "GET" "/tmp" 0 []; mkq KCommit "" "" 0 [];
    mkq KUpdate "GET" "/a/b" 12 [] ].
(* notations, not definitions: the instances below are then syntactically the theorems' statements *)
Notation ex_ops := (map (parsed_hop 100 100) ex_reqs).
Notation ex_t := (final_txn ex_ops).
Notation ex_s := (final_map ex_ops).
Notation m_GET := (S2B "GET").

Example ex_history_runs :
  map (fun o => (h_valid o, h_pslen o, h_hostsplit o)) (firstn 6 ex_ops) =
    [(true, 0, 0); (true, 1, 0); (true, 1, 0); (false, 0, 0); (false, 0, 0); (true, 1, 0)] /\
  ex_s = [((S2B "GET", S2B "/a/b"), 12%N); ((S2B "GET", S2B "/a/{x}"), 2%N); ((S2B "GET", S2B "/a/*{w}/z"), 6%N);
          ((S2B "GET", S2B "/c/"), 7%N); ((S2B "POST", S2B "/a/b"), 9%N); ((S2B "PURGE", S2B "/c"), 10%N)] /\
  wf_txnb ex_t = true /\ t_size ex_t = 6%Z.
Proof. vm_compute. repeat split. Qed.

Example C02_refines_map_closed_ex : hist_ok init_hstate sinit ex_ops.
Proof. exact (C02_refines_map_closed 100 100 ex_reqs). Qed.

Example ex_get_path_only : path_only (reg_patterns ex_s m_GET).
Proof. apply (all_path_only_b ex_s). vm_compute. reflexivity. Qed.

Example C01_end_to_end_closed_ex :
  let path := S2B "/a/q/r/z" in
  let fuel := e2e_fuel path (t_roots ex_t) m_GET in
  direct_obs (roots_lookup fuel (t_roots ex_t) m_GET [] path false [] []) = Some (S2B "/a/*{w}/z", [(S2B "w", S2B "q/r")]) /\
  direct_obs (roots_lookup fuel (t_roots ex_t) m_GET [] path false [] []) =
  sres_direct (spec_lookup (reg_patterns ex_s m_GET) [] path).
Proof.
  split; [vm_compute; reflexivity|].
  exact (C01_end_to_end_closed 100 100 ex_reqs m_GET [] (S2B "/a/q/r/z") _ ex_get_path_only
           (or_introl (eq_refl true)) (le_n _)).
Qed.

(* ================================================================== *)
(* 2. C08 (detection) for every reachable tree                          *)
(* ================================================================== *)
(* for every history the router accepts, every method with path-only routes, every non-empty
   request path without '*' byte and "//" (or not starting with '/' at all) and enough fuel:
   the FULL outcome of roots.lookup on the final tree — direct match with its parameters, or
   trailing-slash recommendation with the recommended route and ITS parameters, or nothing —
   is spec_lookup on the registered set *)
Theorem C08_end_to_end : forall ops, Forall hop_ok ops ->
  forall m host path fuel,
  path_only (reg_patterns (final_map ops) m) ->
  path <> [] -> reqpath_ok path ->
  e2e_fuel path (t_roots (final_txn ops)) m <= fuel ->
  lres_sres (roots_lookup fuel (t_roots (final_txn ops)) m host path false [] []) =
  Some (spec_lookup (reg_patterns (final_map ops) m) host path).
Proof. exact C08_end_to_end_thm. Qed.
Print Assumptions C08_end_to_end.

(* same for the guarded entry point (Host containing '/': hostname pass skipped) *)
Theorem C08_end_to_end_guarded : forall ops, Forall hop_ok ops ->
  forall m host path fuel,
  path_only (reg_patterns (final_map ops) m) ->
  path <> [] -> reqpath_ok path ->
  e2e_fuel path (t_roots (final_txn ops)) m <= fuel ->
  lres_sres (roots_lookup_g fuel (t_roots (final_txn ops)) m host path false [] []) =
  Some (spec_lookup_g (reg_patterns (final_map ops) m) host path).
Proof. exact C08_end_to_end_g_thm. Qed.
Print Assumptions C08_end_to_end_guarded.

Theorem C08_end_to_end_parser : forall mp mk ops, Forall (hop_parsed mp mk) ops ->
  forall m host path fuel,
  path_only (reg_patterns (final_map ops) m) ->
  path <> [] -> reqpath_ok path ->
  e2e_fuel path (t_roots (final_txn ops)) m <= fuel ->
  lres_sres (roots_lookup fuel (t_roots (final_txn ops)) m host path false [] []) =
  Some (spec_lookup (reg_patterns (final_map ops) m) host path).
Proof. exact C08_end_to_end_parser_thm. Qed.
Print Assumptions C08_end_to_end_parser.

Theorem C08_end_to_end_closed : forall mp mk (qs : list hreq),
  let ops := map (parsed_hop mp mk) qs in
  forall m host path fuel,
  path_only (reg_patterns (final_map ops) m) ->
  path <> [] -> reqpath_ok path ->
  e2e_fuel path (t_roots (final_txn ops)) m <= fuel ->
  lres_sres (roots_lookup fuel (t_roots (final_txn ops)) m host path false [] []) =
  Some (spec_lookup (reg_patterns (final_map ops) m) host path).
Proof. exact C08_end_to_end_closed_thm. Qed.
Print Assumptions C08_end_to_end_closed.

(* a recommendation is made exactly when S has no direct match but a slash-adjusted one *)
Theorem C08_tsr_iff : forall ops, Forall hop_ok ops ->
  forall m host path fuel,
  path_only (reg_patterns (final_map ops) m) ->
  path <> [] -> reqpath_ok path ->
  e2e_fuel path (t_roots (final_txn ops)) m <= fuel ->
  forall p ps,
  (exists n rt pss, roots_lookup fuel (t_roots (final_txn ops)) m host path false [] [] = Found (Some n) true pss ps /\
                    nroute n = Some rt /\ rpat rt = p)
  <-> spec_lookup (reg_patterns (final_map ops) m) host path = STsr p ps.
Proof. exact C08_tsr_iff_thm. Qed.
Print Assumptions C08_tsr_iff.

(* tree-level form (any well-formed forest) *)
Theorem C08_wf_tree : forall t m host path fuel, WF_txn t ->
  path_only (method_patterns (t_roots t) m) ->
  path <> [] -> reqpath_ok path ->
  e2e_fuel path (t_roots t) m <= fuel ->
  lres_sres (roots_lookup fuel (t_roots t) m host path false [] []) =
  Some (spec_lookup (method_patterns (t_roots t) m) host path).
Proof. exact WF_tsr_eq_Spec. Qed.
Print Assumptions C08_wf_tree.

(* the full statement (hostname methods, every request path) stays open: *)
Check C08_end_to_end_statement.

Notation ex_L p :=
  (lres_sres (roots_lookup (e2e_fuel (S2B p) (t_roots ex_t) m_GET) (t_roots ex_t) m_GET [] (S2B p) false [] [])).
Example C08_end_to_end_ex_values :
  ex_L "/a/b/" = Some (STsr (S2B "/a/b") []) /\                      (* remove the slash *)
  ex_L "/c" = Some (STsr (S2B "/c/") []) /\                          (* add it *)
  ex_L "/a/v/" = Some (STsr (S2B "/a/{x}") [(S2B "x", S2B "v")]) /\   (* with the recommended route's parameters *)
  ex_L "/a/q/r/z" = Some (SDirect (S2B "/a/*{w}/z") [(S2B "w", S2B "q/r")]) /\
  ex_L "/zzz" = Some SNone /\ ex_L "*" = Some SNone.
Proof. vm_compute. repeat split. Qed.
(* the theorem's instances (hypotheses hold on that state) *)
Example C08_end_to_end_ex :
  ex_L "/a/v/" = Some (spec_lookup (reg_patterns ex_s m_GET) [] (S2B "/a/v/")) /\
  ex_L "*" = Some (spec_lookup (reg_patterns ex_s m_GET) [] (S2B "*")).
Proof.
  split.
  - exact (C08_end_to_end_closed 100 100 ex_reqs m_GET [] (S2B "/a/v/") _ ex_get_path_only
             ltac:(discriminate) (or_introl (eq_refl true)) (le_n _)).
  - exact (C08_end_to_end_closed 100 100 ex_reqs m_GET [] (S2B "*") _ ex_get_path_only
             ltac:(discriminate) (or_intror (eq_refl false)) (le_n _)).
Qed.

(* ================================================================== *)
(* 3. the whole ServeHTTP                                               *)
(* ================================================================== *)
(* Dispatch.serve_http instantiated with Route's matcher on the forest reached by ANY history, the
   real roots list and C17's CleanPath model: for every request whose path is non-empty and
   [reqpath_ok], when all registered routes are path patterns, with fuel >= the closed form
   [serve_fuel], ServeHTTP terminates without panic and what the invoked handler observes (which
   handler, Route()/Params(), scope, the Allow header read as a set) is exactly what
   DispatchSpec.dispatch_spec (C11 + C08 dispatch rules) prescribes when ITS lookup is
   Spec.spec_lookup_g on the set of routes the sequential map holds, "m has routes" is read off
   that map, and [clean] is C17's clean_spec.  ign/red: arbitrary per-route options. *)
Theorem serve_end_to_end : forall (ign red : mkey -> bool) (opts : options) ops, Forall hop_ok ops ->
  forall (rq : request) host c0 fuel,
  all_path_only (final_map ops) ->
  req_path rq <> [] -> reqpath_ok (req_path rq) ->
  serve_fuel (req_path rq) (t_roots (final_txn ops)) <= fuel ->
  let first := first_lookup fuel (t_roots (final_txn ops)) (r_method rq) host (req_path rq) in
  exists o,
    serve_http ign red cleanfn opts (disp_roots (final_txn ops))
               (route_lookup fuel (t_roots (final_txn ops)) host (req_path rq))
               rq c0 (lres_params first) (lres_tsr_params first) = Done o /\
    dispatch_spec ign red FoxC17.Spec.clean_spec opts (map_has_routes (final_map ops))
                  (spec_route_lookup (final_map ops) host (req_path rq)) rq
                  (spec_params (final_map ops) (r_method rq) host (req_path rq)) (observe o).
Proof. exact serve_end_to_end_thm. Qed.
Print Assumptions serve_end_to_end.

Theorem serve_end_to_end_parser : forall (ign red : mkey -> bool) (opts : options) mp mk ops,
  Forall (hop_parsed mp mk) ops ->
  forall (rq : request) host c0 fuel,
  all_path_only (final_map ops) ->
  req_path rq <> [] -> reqpath_ok (req_path rq) ->
  serve_fuel (req_path rq) (t_roots (final_txn ops)) <= fuel ->
  let first := first_lookup fuel (t_roots (final_txn ops)) (r_method rq) host (req_path rq) in
  exists o,
    serve_http ign red cleanfn opts (disp_roots (final_txn ops))
               (route_lookup fuel (t_roots (final_txn ops)) host (req_path rq))
               rq c0 (lres_params first) (lres_tsr_params first) = Done o /\
    dispatch_spec ign red FoxC17.Spec.clean_spec opts (map_has_routes (final_map ops))
                  (spec_route_lookup (final_map ops) host (req_path rq)) rq
                  (spec_params (final_map ops) (r_method rq) host (req_path rq)) (observe o).
Proof. exact serve_end_to_end_parser_thm. Qed.
Print Assumptions serve_end_to_end_parser.

(* registration API requests -> parseRoute -> tree -> matcher -> ServeHTTP, no oracle anywhere *)
Theorem serve_end_to_end_closed : forall (ign red : mkey -> bool) (opts : options) mp mk (qs : list hreq),
  let ops := map (parsed_hop mp mk) qs in
  forall (rq : request) host c0 fuel,
  all_path_only (final_map ops) ->
  req_path rq <> [] -> reqpath_ok (req_path rq) ->
  serve_fuel (req_path rq) (t_roots (final_txn ops)) <= fuel ->
  let first := first_lookup fuel (t_roots (final_txn ops)) (r_method rq) host (req_path rq) in
  exists o,
    serve_http ign red cleanfn opts (disp_roots (final_txn ops))
               (route_lookup fuel (t_roots (final_txn ops)) host (req_path rq))
               rq c0 (lres_params first) (lres_tsr_params first) = Done o /\
    dispatch_spec ign red FoxC17.Spec.clean_spec opts (map_has_routes (final_map ops))
                  (spec_route_lookup (final_map ops) host (req_path rq)) rq
                  (spec_params (final_map ops) (r_method rq) host (req_path rq)) (observe o).
Proof. exact serve_end_to_end_closed_thm. Qed.
Print Assumptions serve_end_to_end_closed.

(* tree-level form: any well-formed forest related to a map *)
Theorem serve_wf_tree : forall (ign red : mkey -> bool) (opts : options) t s (rq : request) host c0 fuel,
  WF_txn t -> Rel t s -> all_path_only s ->
  req_path rq <> [] -> reqpath_ok (req_path rq) ->
  serve_fuel (req_path rq) (t_roots t) <= fuel ->
  let first := first_lookup fuel (t_roots t) (r_method rq) host (req_path rq) in
  exists o,
    serve_http ign red cleanfn opts (disp_roots t) (route_lookup fuel (t_roots t) host (req_path rq))
               rq c0 (lres_params first) (lres_tsr_params first) = Done o /\
    dispatch_spec ign red FoxC17.Spec.clean_spec opts (map_has_routes s)
                  (spec_route_lookup s host (req_path rq)) rq
                  (spec_params s (r_method rq) host (req_path rq)) (observe o).
Proof. exact WF_serve_eq_spec. Qed.
Print Assumptions serve_wf_tree.

(* the three hypotheses of Dispatch's theorems, discharged for the real roots list *)
Theorem serve_roots_cover : forall t fuel host path, WF_txn t ->
  DispatchProofs.roots_cover (disp_roots t) (route_lookup fuel (t_roots t) host path).
Proof. exact WF_roots_cover. Qed.
Print Assumptions serve_roots_cover.
Theorem serve_has_routes_def : forall t s, WF_txn t -> Rel t s ->
  DispatchProofs.has_routes_def (disp_roots t) (map_has_routes s).
Proof. exact WF_has_routes_def. Qed.
Print Assumptions serve_has_routes_def.
Theorem serve_cleanfn_correct : DispatchProofs.cleanfn_correct cleanfn FoxC17.Spec.clean_spec.
Proof. exact cleanfn_is_correct. Qed.
Print Assumptions serve_cleanfn_correct.

(* status of the redirect the RedirectHandler branch issues (matcher-independent, from Dispatch) *)
Theorem serve_redirect_status : forall v m urlpath rawpath escaped q,
  exists loc, FoxDispatch.Redirect.redirect_handler v m urlpath rawpath escaped q =
              FoxDispatch.Redirect.ROk (if bytes_eqb m mGET then 301%Z else 308%Z) loc.
Proof. exact FoxDispatch.Dispatch_C08.C08_redirect_code. Qed.
Print Assumptions serve_redirect_status.

(* the full statement (hostname routes, any request path) stays open: *)
Check serve_end_to_end_statement.

(* ---- non-vacuity: the example history, a stale pooled context, three requests ---- *)
Definition ex_c0 : ctx mkey :=
  {| c_route := Some (S2B "<stale>", S2B "<stale>"); c_tsr := true;
     c_params := [(S2B "<stale>", S2B "<stale>")]; c_tsrParams := [(S2B "<stale>", S2B "<stale>")];
     c_scope := OptionsHandler |}.
Definition ex_opts : options := {| handleMethodNotAllowed := true; handleOptions := true |}.
Definition ex_ign (k : mkey) : bool := bytes_eqb (snd k) (S2B "/c/").    (* /c/ ignores the trailing slash *)
Definition ex_red (k : mkey) : bool := true.                             (* every other route redirects *)
Definition ex_rq (m p : string) : request := {| r_method := S2B m; r_urlpath := S2B p; r_rawpath := [] |}.
Notation ex_fuel m p := (serve_fuel (req_path (ex_rq m p)) (t_roots ex_t)).
Notation ex_first m p := (first_lookup (ex_fuel m p) (t_roots ex_t) (r_method (ex_rq m p)) [] (req_path (ex_rq m p))).
Notation ex_serve m p :=
  (serve_http ex_ign ex_red cleanfn ex_opts (disp_roots ex_t)
              (route_lookup (ex_fuel m p) (t_roots ex_t) [] (req_path (ex_rq m p)))
              (ex_rq m p) ex_c0 (lres_params (ex_first m p)) (lres_tsr_params (ex_first m p))).
Definition ex_view (r : result mkey) :=
  match r with
  | Done o => Some (o_handler o, c_route (o_ctx o), ctx_params (o_ctx o), o_allow o)
  | _ => None
  end.

Example ex_all_path_only : all_path_only ex_s.
Proof. apply all_path_only_b. vm_compute. reflexivity. Qed.

Example serve_end_to_end_ex_values :
  ex_view (ex_serve "GET" "/a/v") =
    Some (HRoute (S2B "GET", S2B "/a/{x}"), Some (S2B "GET", S2B "/a/{x}"), [(S2B "x", S2B "v")], None) /\
  ex_view (ex_serve "GET" "/a/v/") = Some (HRedirect, None, [], None) /\                  (* tsr + redirect option + clean path *)
  ex_view (ex_serve "GET" "/a/./v/") = Some (HNoRoute, None, [], None) /\
  ex_view (ex_serve "GET" "/c") = Some (HRoute (S2B "GET", S2B "/c/"), Some (S2B "GET", S2B "/c/"), [], None) /\   (* tsr ignored *)
  ex_view (ex_serve "PUT" "/a/b") = Some (HNoMethod, None, [], Some [S2B "GET"; S2B "POST"; S2B "OPTIONS"]) /\
  ex_view (ex_serve "PUT" "/c") = Some (HNoMethod, None, [], Some [S2B "GET"; S2B "PURGE"; S2B "OPTIONS"]) /\
  ex_view (ex_serve "OPTIONS" "*") = Some (HOptions, None, [], Some [S2B "GET"; S2B "POST"; S2B "PURGE"; S2B "OPTIONS"]) /\
  ex_view (ex_serve "OPTIONS" "/a/b/") = Some (HNoRoute, None, [], None).                   (* only redirect-tsr matches: nobody serves it *)
Proof. vm_compute. repeat split. Qed.

(* the theorem's instance on that state: hypotheses hold, conclusion is about the values above *)
Example serve_end_to_end_ex : forall m p, In (m, p) [("GET", "/a/v/"); ("PUT", "/c"); ("OPTIONS", "*")]%string ->
  exists o, ex_serve m p = Done o /\
    dispatch_spec ex_ign ex_red FoxC17.Spec.clean_spec ex_opts (map_has_routes ex_s)
                  (spec_route_lookup ex_s [] (req_path (ex_rq m p))) (ex_rq m p)
                  (spec_params ex_s (r_method (ex_rq m p)) [] (req_path (ex_rq m p))) (observe o).
Proof.
  intros m p Hin.
  assert (Hside : req_path (ex_rq m p) <> [] /\ reqpath_ok (req_path (ex_rq m p))).
  { simpl in Hin. destruct Hin as [E|[E|[E|[]]]]; injection E as <- <-; (split; [discriminate|]);
      [left|left|right]; vm_compute; reflexivity. }
  destruct Hside as [Hne Hok].
  exact (serve_end_to_end_closed ex_ign ex_red ex_opts 100 100 ex_reqs (ex_rq m p) [] ex_c0 _ ex_all_path_only Hne Hok (le_n _)).
Qed.
