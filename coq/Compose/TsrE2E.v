(* TsrE2E — C08 (detection half) for every reachable tree.

   TsrEquiv2.roots_lookup_eq_spec_tsr is stated for a path-only method tree satisfying [pwf].
   Here it is composed, exactly as EndToEnd2 did for direct matches, with
     the bridge  WF_txn => pwf / path-only shape   (EndToEnd.WF_root_path_only),
     C02         forest = map, WF preserved        (TreeMap2, via EndToEnd2.final_rel, Rel_spec_lookup)
   so that the FULL outcome of the matcher (direct / trailing-slash recommendation with route and
   parameter values / nothing) on the tree after ANY history equals [spec_lookup] on the set of
   patterns the sequential map holds.  The oracle-free forms use ParserBridge. *)
From FoxBase Require Import Bytes.
From FoxRoute Require Import Node Lookup Spec SpecFacts Tree MapSpec Corr CorrHist WFDef TreeWF TreeMap TreeMap2
  StaticEquiv StaticEquiv2 EndToEnd EndToEnd2 TsrEquiv TsrEquiv2 Guard.
From FoxCompose Require Import ParserBridge.
Open Scope char_scope.

(* ------------------------------------------------------------------ *)
(* tree level: every well-formed forest                                 *)
(* ------------------------------------------------------------------ *)
Lemma WF_method_index_nth t m i : WF_txn t -> method_index (t_roots t) m = Some i ->
  exists root, nth_error (t_roots t) i = Some root /\ nkey root = m /\ In root (t_roots t).
Proof.
  intros [(H4 & _) _] Ei.
  assert (firstn 4 (map nkey (t_roots t)) = common_verbs) as H4' by (rewrite firstn_map; exact H4).
  destruct (method_index_some _ _ _ H4' Ei) as (l1 & root & l2 & E & -> & Hk & _).
  exists root. rewrite E, nth_error_app_mid. repeat split; auto. apply in_or_app. right. left. reflexivity.
Qed.

(* ------------------------------------------------------------------ *)
(* request paths that do not start with a slash (the star of an OPTIONS-star request): nothing on either side *)
(* ------------------------------------------------------------------ *)
Lemma m2t_nonslash sl t c r : starts_with "/" (nkey t) = true -> c <> "/" -> m2t sl None t (c :: r) = TN None.
Proof.
  destruct t as [k rr ch]. cbn [nkey]. intros Hk Hc. destruct k as [|x k']; [discriminate|].
  cbn [starts_with] in Hk. apply Ascii.eqb_eq in Hk. subst x.
  cbn [m2t]. rewrite tokenize_cons. cbn [Ascii.eqb Bool.eqb]. cbn [kmt].
  destruct (Ascii.eqb_spec "/" c) as [E|_]; [congruence|]. reflexivity.
Qed.

Lemma lbp_nonslash t c r fuel : pwf [] t -> starts_with "/" (nkey t) = true -> c <> "/" ->
  m2_fuel (c :: r) t <= fuel ->
  lres_sres (lookup_by_path fuel t (c :: r) false [] []) = Some SNone.
Proof.
  intros Hwf Hk Hc Hf. pose proof (lbp_eq_m2t t (c :: r) false fuel Hwf ltac:(discriminate) Hf) as H.
  rewrite (m2t_nonslash _ t c r Hk Hc) in H. cbn [tsr_res] in H. destruct H as [ps' ->]. reflexivity.
Qed.

Lemma path_cands_static pats : (forall p, In p pats -> is_path_pattern p = true) ->
  forall k, In k (map mk_cand pats) -> exists t, toks k = TStatic "/" :: t.
Proof.
  intros Hp k Hk. apply in_map_iff in Hk. destruct Hk as (p & <- & Hin). specialize (Hp p Hin).
  destruct p as [|x p']; [discriminate|]. cbn [is_path_pattern] in Hp.
  destruct (Ascii.eqb_spec x "/") as [->|N]; [|destruct x as [[|][|][|][|][|][|][|][|]]; try discriminate Hp; congruence].
  exists (tokenize p'). cbn [mk_cand toks]. rewrite tokenize_cons. reflexivity.
Qed.

Lemma adv_nonslash c : c <> "/" -> forall cs, (forall k, In k cs -> exists t, toks k = TStatic "/" :: t) ->
  adv_static c cs = [] /\ adv_param cs = [] /\ adv_catch cs = [].
Proof.
  intros Hc. unfold adv_static, adv_param, adv_catch. induction cs as [|k cs IH]; intros Hcs; [auto|].
  destruct (IH (fun k' Hk' => Hcs k' (or_intror Hk'))) as (I1 & I2 & I3). cbn [flat_map].
  destruct (Hcs k (or_introl eq_refl)) as [t ->]. cbv beta iota.
  destruct (Ascii.eqb_spec c "/") as [E|_]; [congruence|]. cbn [app]. auto.
Qed.

Lemma select_nonslash fuel cs c r vals : (forall k, In k cs -> exists t, toks k = TStatic "/" :: t) ->
  c <> "/" -> select fuel cs (c :: r) 0 vals = None.
Proof.
  intros Hcs Hc. destruct fuel as [|fuel]; [reflexivity|]. cbn [select].
  destruct (adv_nonslash c Hc cs Hcs) as (H1 & H2 & H3).
  rewrite H1, H2, H3. cbn. destruct (Ascii.eqb c "{" || Ascii.eqb c "*"); reflexivity.
Qed.

Lemma select_in_nonslash pats host c r : (forall p, In p pats -> is_path_pattern p = true) -> c <> "/" ->
  select_in pats host (c :: r) false = None.
Proof.
  intros Hp Hc. unfold select_in. apply select_nonslash; [|exact Hc]. apply path_cands_static.
  intros p Hin. apply filter_In in Hin. apply Hp. apply Hin.
Qed.

Lemma spec_lookup_nonslash pats host c r : (forall p, In p pats -> is_path_pattern p = true) -> c <> "/" ->
  spec_lookup pats host (c :: r) = SNone.
Proof.
  intros Hp Hc. rewrite spec_lookup_path_only by (apply Forall_forall; exact Hp).
  rewrite (select_in_nonslash pats host c r Hp Hc). unfold select_tsr_in.
  destruct r as [|d r']; [reflexivity|]. destruct (ends_with_slash (c :: d :: r')).
  - change (removelast (c :: d :: r')) with (c :: removelast (d :: r')).
    rewrite (select_in_nonslash pats host c _ Hp Hc). reflexivity.
  - rewrite <- app_comm_cons. rewrite select_in_nonslash; [reflexivity| |exact Hc].
    intros p Hin. apply filter_In in Hin. apply Hp. apply Hin.
Qed.

(* the request paths covered: no '*' byte and no empty segment, or not starting with '/' at all *)
Definition reqpath_ok (path : bytes) : Prop := okpath path = true \/ starts_with "/" path = false.

Theorem WF_tsr_eq_Spec t m host path fuel : WF_txn t ->
  path_only (method_patterns (t_roots t) m) ->
  path <> [] -> reqpath_ok path ->
  e2e_fuel path (t_roots t) m <= fuel ->
  lres_sres (roots_lookup fuel (t_roots t) m host path false [] []) =
  Some (spec_lookup (method_patterns (t_roots t) m) host path).
Proof.
  intros Hwf Hpo Hne Hok Hfuel.
  destruct (method_root (t_roots t) m) as [root|] eqn:Er.
  - destruct (method_root_spec t m root Hwf Er) as (i & Hi & Hn & Hroot & Hmp).
    destruct (WF_root_path_only root Hroot) as [Hch|(c & Hch & Hsl & Hpw)].
    + intros rt Hin. apply Hpo. rewrite Hmp. apply in_map. exact Hin.
    + assert (method_patterns (t_roots t) m = []) as ->.
      { rewrite Hmp, (rlist_root_children root (proj1 Hroot)), Hch. reflexivity. }
      rewrite spec_lookup_nil. unfold roots_lookup. rewrite Hi, Hn, Hch. reflexivity.
    + assert (Hr : path_only_root (t_roots t) m c) by (exists i, root; repeat split; auto; exact (proj1 Hroot)).
      unfold e2e_fuel in Hfuel. rewrite Er, Hch in Hfuel.
      destruct Hok as [Hok|Hns]; [apply (roots_lookup_eq_spec_tsr (t_roots t) m c); auto|].
      destruct path as [|x r]; [congruence|]. cbn [starts_with] in Hns. apply Ascii.eqb_neq in Hns.
      rewrite (roots_lookup_path_only _ _ _ _ _ _ _ _ c Hr), spec_lookup_nonslash; auto.
      apply lbp_nonslash; auto.
  - unfold method_root in Er. unfold method_patterns, roots_lookup.
    destruct (method_index (t_roots t) m) as [i|] eqn:Ei.
    + destruct (WF_method_index_nth t m i Hwf Ei) as (root & Hn & _). congruence.
    + rewrite spec_lookup_nil. reflexivity.
Qed.

(* the guarded entry point (roots.lookup after the Host-with-slash repair) and the guarded spec *)
Theorem WF_tsr_eq_Spec_g t m host path fuel : WF_txn t ->
  path_only (method_patterns (t_roots t) m) ->
  path <> [] -> reqpath_ok path ->
  e2e_fuel path (t_roots t) m <= fuel ->
  lres_sres (roots_lookup_g fuel (t_roots t) m host path false [] []) =
  Some (spec_lookup_g (method_patterns (t_roots t) m) host path).
Proof. intros. unfold roots_lookup_g, spec_lookup_g. apply WF_tsr_eq_Spec; auto. Qed.

(* ------------------------------------------------------------------ *)
(* every history                                                        *)
(* ------------------------------------------------------------------ *)
(* the full statement: every method (hostname routes included), every request *)
Definition C08_end_to_end_statement : Prop :=
  forall ops, Forall hop_ok ops -> forall m host path,
  exists fuel0, forall fuel, fuel0 <= fuel ->
  lres_sres (roots_lookup_g fuel (t_roots (final_txn ops)) m host path false [] []) =
  Some (spec_lookup_g (reg_patterns (final_map ops) m) host path).

Theorem C08_end_to_end_thm ops : Forall hop_ok ops ->
  forall m host path fuel,
  path_only (reg_patterns (final_map ops) m) ->
  path <> [] -> reqpath_ok path ->
  e2e_fuel path (t_roots (final_txn ops)) m <= fuel ->
  lres_sres (roots_lookup fuel (t_roots (final_txn ops)) m host path false [] []) =
  Some (spec_lookup (reg_patterns (final_map ops) m) host path).
Proof.
  intros Hok m host path fuel Hpo Hne Hokp Hfuel. destruct (final_rel ops Hok) as [Hwf Hrel].
  rewrite <- (Rel_spec_lookup _ _ m host path Hwf Hrel). apply WF_tsr_eq_Spec; auto.
  intros p Hp. apply Hpo. apply (Rel_patterns _ _ m Hwf Hrel). exact Hp.
Qed.

Theorem C08_end_to_end_g_thm ops : Forall hop_ok ops ->
  forall m host path fuel,
  path_only (reg_patterns (final_map ops) m) ->
  path <> [] -> reqpath_ok path ->
  e2e_fuel path (t_roots (final_txn ops)) m <= fuel ->
  lres_sres (roots_lookup_g fuel (t_roots (final_txn ops)) m host path false [] []) =
  Some (spec_lookup_g (reg_patterns (final_map ops) m) host path).
Proof. intros. unfold roots_lookup_g, spec_lookup_g. apply C08_end_to_end_thm; auto. Qed.

(* oracle-free: the recorded validity / psLen / hostSplit are parseRoute's results *)
Theorem C08_end_to_end_parser_thm mp mk ops : Forall (hop_parsed mp mk) ops ->
  forall m host path fuel,
  path_only (reg_patterns (final_map ops) m) ->
  path <> [] -> reqpath_ok path ->
  e2e_fuel path (t_roots (final_txn ops)) m <= fuel ->
  lres_sres (roots_lookup fuel (t_roots (final_txn ops)) m host path false [] []) =
  Some (spec_lookup (reg_patterns (final_map ops) m) host path).
Proof. intros H. apply C08_end_to_end_thm. eapply hops_parsed_ok. exact H. Qed.

(* no hypothesis on the steps: histories of API requests validated by parseRoute itself *)
Theorem C08_end_to_end_closed_thm mp mk qs :
  let ops := map (parsed_hop mp mk) qs in
  forall m host path fuel,
  path_only (reg_patterns (final_map ops) m) ->
  path <> [] -> reqpath_ok path ->
  e2e_fuel path (t_roots (final_txn ops)) m <= fuel ->
  lres_sres (roots_lookup fuel (t_roots (final_txn ops)) m host path false [] []) =
  Some (spec_lookup (reg_patterns (final_map ops) m) host path).
Proof. intros ops. apply (C08_end_to_end_parser_thm mp mk). apply parsed_hops_parsed. Qed.

(* consequences in the property's words: a recommendation is made exactly when the specification
   has no direct match but a slash-adjusted one, with that route and those values; and never a
   false "nothing" *)
Corollary C08_tsr_iff_thm ops : Forall hop_ok ops ->
  forall m host path fuel,
  path_only (reg_patterns (final_map ops) m) ->
  path <> [] -> reqpath_ok path ->
  e2e_fuel path (t_roots (final_txn ops)) m <= fuel ->
  forall p ps,
  (exists n rt pss, roots_lookup fuel (t_roots (final_txn ops)) m host path false [] [] = Found (Some n) true pss ps /\
                    nroute n = Some rt /\ rpat rt = p)
  <-> spec_lookup (reg_patterns (final_map ops) m) host path = STsr p ps.
Proof.
  intros Hok m host path fuel Hpo Hne Hokp Hfuel p ps.
  pose proof (C08_end_to_end_thm ops Hok m host path fuel Hpo Hne Hokp Hfuel) as H. split.
  - intros (n & rt & pss & E & Hr & Hp). rewrite E in H. cbn [lres_sres] in H. rewrite Hr in H.
    injection H as H. rewrite <- H, Hp. reflexivity.
  - intros Es. rewrite Es in H.
    destruct (roots_lookup fuel (t_roots (final_txn ops)) m host path false [] []) as [[n|] tsr pss tpss| |];
      cbn [lres_sres] in H; try discriminate H.
    destruct (nroute n) as [rt|] eqn:Hr; [|discriminate H]. destruct tsr; [|discriminate H].
    injection H as H1 H2. subst. exists n, rt, pss. auto.
Qed.
