(* Props_Compose2 — second round of compositions (agent p-compose2; docs/Compose2.md).
   Statements only: every theorem is closed by [exact] and followed by Print Assumptions; each group has
   Examples evaluated on concrete histories / requests (non-vacuity).
     1. Serve2.v       ServeHTTP end to end for ALL route sets (hostname routes included), on C09_end_to_end
     2. TxnConcrete.v  C04 over the concrete radix forest, and C04 + C02 (committed fold)
     3. AllocE2E.v     C16 buffer bounds for every reachable tree *)
From FoxBase Require Import Bytes.
From FoxC17 Require Model Spec.
From FoxTxn Require TxnSeq TxnSeqProofs TxnSem.
From FoxRoute Require Import Node Lookup Spec Guard Tree MapSpec Corr CorrHist Iter WFDef TreeMap2
  StaticEquiv StaticEquiv2 EndToEnd2 TsrEquiv2 HostEquiv HostEquiv2 HostEquiv4 Alloc Alloc2.
From FoxDispatch Require Import Dispatch DispatchSpec.
From FoxDispatch Require Redirect Dispatch_C08.
From FoxCompose Require Import ParserBridge TsrE2E ServeE2E Serve2 TxnConcrete AllocE2E.
From Coq Require Import Permutation.
Open Scope char_scope.

(* ================================================================== *)
(* 1. ServeHTTP, all route sets                                         *)
(* ================================================================== *)
(* request paths covered: [reqpath_ok_h path] := (pathok path /\ okpath path) \/ path is ONE byte other
   than '/' (the "*" of `OPTIONS *`).  Fuel: [serve_fuel_h] = max over the method roots of
   HostEquiv2.root_fuel. *)

(* ---- the matcher = S, every history, EVERY method, every Host, incl. the one-byte path ---- *)
Theorem lookup_end_to_end_all : forall ops, Forall hop_ok ops ->
  forall m host path fuel,
  path <> [] -> reqpath_ok_h path ->
  e2e_fuel_h path (t_roots (final_txn ops)) m <= fuel ->
  lres_sres (roots_lookup_g fuel (t_roots (final_txn ops)) m host path false [] []) =
  Some (spec_lookup_g (reg_patterns (final_map ops) m) host path).
Proof. exact lookup_end_to_end_all_thm. Qed.
Print Assumptions lookup_end_to_end_all.

Theorem lookup_wf_tree_all : forall t m host path fuel, WF_txn t ->
  path <> [] -> reqpath_ok_h path ->
  e2e_fuel_h path (t_roots t) m <= fuel ->
  lres_sres (roots_lookup_g fuel (t_roots t) m host path false [] []) =
  Some (spec_lookup_g (method_patterns (t_roots t) m) host path).
Proof. exact WF_lookup_eq_spec_all. Qed.
Print Assumptions lookup_wf_tree_all.

(* a request path that does not start with '/': the matcher finds nothing (any length; hostname pass
   and fallback), and for a one-byte path the specification says nothing as well (hostname mode
   included: every hostname candidate still has its literal '/' ahead) *)
Theorem nonslash_path_matcher_nothing : forall t m host c r fuel, WF_txn t -> c <> "/" ->
  e2e_fuel_h (c :: r) (t_roots t) m <= fuel ->
  lres_sres (roots_lookup_g fuel (t_roots t) m host (c :: r) false [] []) = Some SNone.
Proof. exact WF_lookup_nonslash. Qed.
Print Assumptions nonslash_path_matcher_nothing.

Theorem star_path_spec_nothing : forall t m host c, WF_txn t -> c <> "/" ->
  spec_lookup_g (method_patterns (t_roots t) m) host [c] = SNone.
Proof. exact WF_spec_star. Qed.
Print Assumptions star_path_spec_nothing.

(* why "one byte": S in hostname mode matches host ++ path, so a longer path without leading '/'
   is outside its domain (pathok) — the matcher answers nothing there (theorem above) *)
Example spec_host_mode_needs_pathok_ex :
  spec_lookup [S2B "ab/"] (S2B "a") (S2B "b/") = SDirect (S2B "ab/") [].
Proof. exact spec_host_mode_needs_pathok. Qed.

(* ---- the whole ServeHTTP: for EVERY history the router accepts (hostname and path-only route sets
   alike), every request whose path is non-empty and [reqpath_ok_h], every Host, every pooled context,
   fuel >= [serve_fuel_h]: Dispatch.serve_http instantiated with Route's matcher (lazy lookups in the
   Allow loops, non-lazy first lookup leaving the parameter slices) and C17's CleanPath terminates
   without panic, and what the invoked handler observes — handler kind (route / redirect / OPTIONS /
   405 / 404), Route(), Params(), scope, Allow header as a set — is what DispatchSpec.dispatch_spec
   prescribes over Spec.spec_lookup_g on the REGISTERED SET (the sequential map) ---- *)
Theorem serve_end_to_end_all : forall (ign red : mkey -> bool) (opts : options) ops, Forall hop_ok ops ->
  forall (rq : request) host c0 fuel,
  req_path rq <> [] -> reqpath_ok_h (req_path rq) ->
  serve_fuel_h (req_path rq) (t_roots (final_txn ops)) <= fuel ->
  let first := first_lookup fuel (t_roots (final_txn ops)) (r_method rq) host (req_path rq) in
  exists o,
    serve_http ign red cleanfn opts (disp_roots (final_txn ops))
               (route_lookup fuel (t_roots (final_txn ops)) host (req_path rq))
               rq c0 (lres_params first) (lres_tsr_params first) = Done o /\
    dispatch_spec ign red FoxC17.Spec.clean_spec opts (map_has_routes (final_map ops))
                  (spec_route_lookup (final_map ops) host (req_path rq)) rq
                  (spec_params (final_map ops) (r_method rq) host (req_path rq)) (observe o).
Proof. exact serve_end_to_end_all_thm. Qed.
Print Assumptions serve_end_to_end_all.

Theorem serve_end_to_end_all_parser : forall (ign red : mkey -> bool) (opts : options) mp mk ops,
  Forall (hop_parsed mp mk) ops ->
  forall (rq : request) host c0 fuel,
  req_path rq <> [] -> reqpath_ok_h (req_path rq) ->
  serve_fuel_h (req_path rq) (t_roots (final_txn ops)) <= fuel ->
  let first := first_lookup fuel (t_roots (final_txn ops)) (r_method rq) host (req_path rq) in
  exists o,
    serve_http ign red cleanfn opts (disp_roots (final_txn ops))
               (route_lookup fuel (t_roots (final_txn ops)) host (req_path rq))
               rq c0 (lres_params first) (lres_tsr_params first) = Done o /\
    dispatch_spec ign red FoxC17.Spec.clean_spec opts (map_has_routes (final_map ops))
                  (spec_route_lookup (final_map ops) host (req_path rq)) rq
                  (spec_params (final_map ops) (r_method rq) host (req_path rq)) (observe o).
Proof. exact serve_end_to_end_all_parser_thm. Qed.
Print Assumptions serve_end_to_end_all_parser.

(* no hypothesis on the history at all: any list of API requests, validated by the model of parseRoute *)
Theorem serve_end_to_end_all_closed : forall (ign red : mkey -> bool) (opts : options) mp mk (qs : list hreq),
  let ops := map (parsed_hop mp mk) qs in
  forall (rq : request) host c0 fuel,
  req_path rq <> [] -> reqpath_ok_h (req_path rq) ->
  serve_fuel_h (req_path rq) (t_roots (final_txn ops)) <= fuel ->
  let first := first_lookup fuel (t_roots (final_txn ops)) (r_method rq) host (req_path rq) in
  exists o,
    serve_http ign red cleanfn opts (disp_roots (final_txn ops))
               (route_lookup fuel (t_roots (final_txn ops)) host (req_path rq))
               rq c0 (lres_params first) (lres_tsr_params first) = Done o /\
    dispatch_spec ign red FoxC17.Spec.clean_spec opts (map_has_routes (final_map ops))
                  (spec_route_lookup (final_map ops) host (req_path rq)) rq
                  (spec_params (final_map ops) (r_method rq) host (req_path rq)) (observe o).
Proof. exact serve_end_to_end_all_closed_thm. Qed.
Print Assumptions serve_end_to_end_all_closed.

(* tree level: every well-formed forest related to a map *)
Theorem serve_wf_tree_all : forall (ign red : mkey -> bool) (opts : options) t s (rq : request) host c0 fuel,
  WF_txn t -> Rel t s ->
  req_path rq <> [] -> reqpath_ok_h (req_path rq) ->
  serve_fuel_h (req_path rq) (t_roots t) <= fuel ->
  let first := first_lookup fuel (t_roots t) (r_method rq) host (req_path rq) in
  exists o,
    serve_http ign red cleanfn opts (disp_roots t) (route_lookup fuel (t_roots t) host (req_path rq))
               rq c0 (lres_params first) (lres_tsr_params first) = Done o /\
    dispatch_spec ign red FoxC17.Spec.clean_spec opts (map_has_routes s)
                  (spec_route_lookup s host (req_path rq)) rq
                  (spec_params s (r_method rq) host (req_path rq)) (observe o).
Proof. exact WF_serve_eq_spec_all. Qed.
Print Assumptions serve_wf_tree_all.

(* the status of the redirect the RedirectHandler branch issues (matcher-independent, Dispatch) *)
Theorem serve_redirect_status_all : forall v m urlpath rawpath escaped q,
  exists loc, FoxDispatch.Redirect.redirect_handler v m urlpath rawpath escaped q =
              FoxDispatch.Redirect.ROk (if bytes_eqb m mGET then 301%Z else 308%Z) loc.
Proof. exact FoxDispatch.Dispatch_C08.C08_redirect_code. Qed.
Print Assumptions serve_redirect_status_all.

(* still open (ServeE2E.serve_end_to_end_statement): request paths with a '*' byte or an empty segment
   (refuted at the lookup level: Props_C09_e2e.C09_end_to_end_unrestricted_refuted, known finding
   star-byte) and the empty path *)
Check serve_end_to_end_statement.

(* ---- non-vacuity: a history with hostname AND path-only routes (conflict, rejected pattern, aborted
   and committed transactions, update), a stale pooled context, requests with and without Host ---- *)
Definition hx_reqs : list hreq :=
  [ aq KHandle "GET" "example.com/" 1 []; aq KHandle "GET" "{sub}.example.com/x" 2 [];
    aq KHandle "GET" "{s}.example.com/x" 3 [];                                                  (* conflict *)
    aq KBegin "" "" 0 []; aq KHandle "GET" "gone.org/" 4 []; aq KAbort "" "" 0 [];
    aq KHandle "GET" "a.b.com/{id}/x/" 5 []; aq KHandle "GET" "a.*{h}.com/" 6 [];               (* rejected *)
    aq KHandle "GET" "/x" 7 []; aq KHandle "GET" "/{v}/x" 8 [];
    aq KBegin "" "" 0 []; aq KHandle "POST" "example.com/p" 9 []; aq KHandle "PUT" "/x" 10 []; aq KCommit "" "" 0 [];
    aq KHandle "POST" "/only/path/" 11 []; aq KUpdate "GET" "/x" 12 [] ].
Notation hx_ops := (map (parsed_hop 100 100) hx_reqs).
Notation hx_t := (final_txn hx_ops).
Notation hx_s := (final_map hx_ops).
Definition hx_c0 : ctx mkey :=
  {| c_route := Some (S2B "<stale>", S2B "<stale>"); c_tsr := true;
     c_params := [(S2B "<stale>", S2B "<stale>")]; c_tsrParams := [(S2B "<stale>", S2B "<stale>")];
     c_scope := OptionsHandler |}.
Definition hx_opts : options := {| handleMethodNotAllowed := true; handleOptions := true |}.
Definition hx_ign (k : mkey) : bool := bytes_eqb (snd k) (S2B "/only/path/").   (* ignores the trailing slash *)
Definition hx_red (k : mkey) : bool := true.                                   (* every other route redirects *)
Definition hx_rq (m p : string) : request := {| r_method := S2B m; r_urlpath := S2B p; r_rawpath := [] |}.
Notation hx_fuel m p := (serve_fuel_h (req_path (hx_rq m p)) (t_roots hx_t)).
Notation hx_first m h p := (first_lookup (hx_fuel m p) (t_roots hx_t) (r_method (hx_rq m p)) (S2B h) (req_path (hx_rq m p))).
Notation hx_serve m h p :=
  (serve_http hx_ign hx_red cleanfn hx_opts (disp_roots hx_t)
              (route_lookup (hx_fuel m p) (t_roots hx_t) (S2B h) (req_path (hx_rq m p)))
              (hx_rq m p) hx_c0 (lres_params (hx_first m h p)) (lres_tsr_params (hx_first m h p))).
Definition hx_view (r : result mkey) :=
  match r with
  | Done o => Some (o_handler o, c_route (o_ctx o), ctx_params (o_ctx o), o_allow o)
  | _ => None
  end.

Example hx_registered :
  hx_s = [((S2B "GET", S2B "example.com/"), 1%N); ((S2B "GET", S2B "{sub}.example.com/x"), 2%N);
          ((S2B "GET", S2B "a.b.com/{id}/x/"), 5%N); ((S2B "GET", S2B "/x"), 12%N); ((S2B "GET", S2B "/{v}/x"), 8%N);
          ((S2B "POST", S2B "example.com/p"), 9%N); ((S2B "PUT", S2B "/x"), 10%N);
          ((S2B "POST", S2B "/only/path/"), 11%N)] /\
  wf_txnb hx_t = true.
Proof. vm_compute. split; reflexivity. Qed.

Example serve_end_to_end_all_ex_values :
  (* direct hostname matches, with a parameter label *)
  hx_view (hx_serve "GET" "example.com" "/") =
    Some (HRoute (S2B "GET", S2B "example.com/"), Some (S2B "GET", S2B "example.com/"), [], None) /\
  hx_view (hx_serve "GET" "www.example.com" "/x") =
    Some (HRoute (S2B "GET", S2B "{sub}.example.com/x"), Some (S2B "GET", S2B "{sub}.example.com/x"),
          [(S2B "sub", S2B "www")], None) /\
  (* hostname trailing slash (remove) => redirect; (add) pre-empts the path-only DIRECT match /{v}/x *)
  hx_view (hx_serve "GET" "www.example.com" "/x/") = Some (HRedirect, None, [], None) /\
  hx_view (hx_serve "GET" "a.b.com" "/7/x") = Some (HRedirect, None, [], None) /\
  hx_view (hx_serve "GET" "" "/7/x") =
    Some (HRoute (S2B "GET", S2B "/{v}/x"), Some (S2B "GET", S2B "/{v}/x"), [(S2B "v", S2B "7")], None) /\
  (* fallback to the path-only routes for a foreign host; a Host with '/' is no Host; host prefix attack *)
  hx_view (hx_serve "GET" "evil.org" "/x/") = Some (HRedirect, None, [], None) /\
  hx_view (hx_serve "GET" "example.com/" "/x") = Some (HRoute (S2B "GET", S2B "/x"), Some (S2B "GET", S2B "/x"), [], None) /\
  hx_view (hx_serve "GET" "example.com.evil.org" "/") = Some (HNoRoute, None, [], None) /\
  (* 405: Allow depends on the Host (POST example.com/p is a hostname route) *)
  hx_view (hx_serve "DELETE" "example.com" "/x") = Some (HNoMethod, None, [], Some [S2B "GET"; S2B "PUT"; S2B "OPTIONS"]) /\
  hx_view (hx_serve "DELETE" "example.com" "/p") = Some (HNoMethod, None, [], Some [S2B "POST"; S2B "OPTIONS"]) /\
  (* OPTIONS: server-wide, per path with the matching Host, and 404 with another Host *)
  hx_view (hx_serve "OPTIONS" "example.com" "*") =
    Some (HOptions, None, [], Some [S2B "GET"; S2B "POST"; S2B "PUT"; S2B "OPTIONS"]) /\
  hx_view (hx_serve "OPTIONS" "example.com" "/p") = Some (HOptions, None, [], Some [S2B "POST"; S2B "OPTIONS"]) /\
  hx_view (hx_serve "OPTIONS" "other.com" "/p") = Some (HNoRoute, None, [], None) /\
  (* ignored trailing slash *)
  hx_view (hx_serve "POST" "x.org" "/only/path") =
    Some (HRoute (S2B "POST", S2B "/only/path/"), Some (S2B "POST", S2B "/only/path/"), [], None).
Proof. vm_compute. repeat split. Qed.

(* the theorem's instance on that state: hypotheses hold, the conclusion is about the values above *)
Example serve_end_to_end_all_ex : forall m h p,
  In (m, h, p) [("GET", "a.b.com", "/7/x"); ("DELETE", "example.com", "/p"); ("OPTIONS", "example.com", "*");
                ("GET", "www.example.com", "/x")]%string ->
  exists o, hx_serve m h p = Done o /\
    dispatch_spec hx_ign hx_red FoxC17.Spec.clean_spec hx_opts (map_has_routes hx_s)
                  (spec_route_lookup hx_s (S2B h) (req_path (hx_rq m p))) (hx_rq m p)
                  (spec_params hx_s (r_method (hx_rq m p)) (S2B h) (req_path (hx_rq m p))) (observe o).
Proof.
  intros m h p Hin.
  assert (Hside : req_path (hx_rq m p) <> [] /\ reqpath_ok_h (req_path (hx_rq m p))).
  { simpl in Hin. destruct Hin as [E|[E|[E|[E|[]]]]]; injection E as <- <- <-; (split; [discriminate|]);
      apply reqpath_ok_hb_sound; vm_compute; reflexivity. }
  destruct Hside as [Hne Hok].
  exact (serve_end_to_end_all_closed hx_ign hx_red hx_opts 100 100 hx_reqs (hx_rq m p) (S2B h) hx_c0 _ Hne Hok (le_n _)).
Qed.

Example lookup_end_to_end_all_ex :
  let fuel := e2e_fuel_h (S2B "/7/x") (t_roots hx_t) (S2B "GET") in
  lres_sres (roots_lookup_g fuel (t_roots hx_t) (S2B "GET") (S2B "a.b.com") (S2B "/7/x") false [] []) =
    Some (STsr (S2B "a.b.com/{id}/x/") [(S2B "id", S2B "7")]) /\
  lres_sres (roots_lookup_g fuel (t_roots hx_t) (S2B "GET") (S2B "a.b.com") (S2B "/7/x") false [] []) =
    Some (spec_lookup_g (reg_patterns hx_s (S2B "GET")) (S2B "a.b.com") (S2B "/7/x")).
Proof.
  split; [vm_compute; reflexivity|].
  exact (lookup_end_to_end_all hx_ops (hops_parsed_ok 100 100 _ (parsed_hops_parsed 100 100 hx_reqs))
           (S2B "GET") (S2B "a.b.com") (S2B "/7/x") _ ltac:(discriminate)
           ltac:(apply reqpath_ok_hb_sound; vm_compute; reflexivity) (le_n _)).
Qed.

(* ================================================================== *)
(* 2. C04 over the concrete router; C04 + C02                           *)
(* ================================================================== *)
(* Pfox : TxnSem.sem — St := Tree.txn, wop := CorrHist.hop, wapply := tree_apply (CorrHist.hstep on a state
   without open transaction), reads := tree_read (roots_lookup_g, Iter.route_of / has / methods_of /
   prefix_routes, all_of, t_size).  PfoxL: the same with a ghost log of the write operations. *)

(* the write semantics is what CorrHist.hstep does, spelled out *)
Theorem tree_apply_is_hstep : forall t o, tree_apply t o =
  match h_kind o with
  | KHandle =>
      if negb (valid_method_handle (h_method o)) || negb (h_valid o) then (t, WDone OutInvalid None)
      else match insert t (h_method o) (hop_ri o) with
           | ROk t' => (t', WDone OutOk None)
           | RExist _ => (t, WDone OutExist None)
           | RConflict ps => (t, WDone (OutConflict ps) None)
           | RNotFound => (t, WDone OutNotFound None)
           end
  | KUpdate =>
      if Tree.is_nil (h_method o) || negb (h_valid o) then (t, WDone OutInvalid None)
      else match update t (h_method o) (hop_ri o) with
           | ROk t' => (t', WDone OutOk None)
           | _ => (t, WDone OutNotFound None)
           end
  | KDelete =>
      if Tree.is_nil (h_method o) || negb (h_valid o) then (t, WDone OutInvalid None)
      else match remove t (h_method o) (h_pat o) with
           | DOk t' r => (t', WDone OutOk (Some (rid r)))
           | DNotFound => (t, WDone OutNotFound None)
           end
  | KTruncate => (truncate t (h_methods o), WDone OutOk None)
  | KBegin | KCommit | KAbort => (t, WDone OutOk None)
  end.
Proof. exact tree_apply_eq. Qed.
Print Assumptions tree_apply_is_hstep.

(* ---- the C04 theorems at Pfox ---- *)
Theorem fox_wf_reachable :
  forall (l : list (TxnSem.Step Pfox)) (t : Tree.txn), TxnSem.m_wf Pfox (fst (TxnSem.m_run Pfox l (TxnSeq.init t))).
Proof. exact (TxnSeqProofs.wf_run Tree.txn hop cwout crop crout tree_apply cw_fail tree_read cro_out). Qed.
Print Assumptions fox_wf_reachable.

Theorem fox_published_only_at_commit :
  forall (x : TxnSem.BStep Pfox) (w : TxnSem.World Pfox),
    wpub (fst (TxnSem.m_bstep Pfox x w)) = wpub w \/
    (exists h t, x = TxnSeq.TCommit h /\ nth_error (wtxns w) h = Some (TxnSeq.mkTxn true (Some t)) /\
                 wpub (fst (TxnSem.m_bstep Pfox x w)) = t) \/
    (exists o, x = TxnSeq.Single o /\ wlocked w = false /\ cw_fail (snd (tree_apply (wpub w) o)) = false /\
               wpub (fst (TxnSem.m_bstep Pfox x w)) = fst (tree_apply (wpub w) o)).
Proof. exact (TxnSeqProofs.published_only_at_commit_lemma Tree.txn hop cwout crop crout tree_apply cw_fail tree_read cro_out). Qed.
Print Assumptions fox_published_only_at_commit.

Theorem fox_abort_error_panic_invisible :
    (forall (w : TxnSem.World Pfox) h t, nth_error (wtxns w) h = Some (TxnSeq.mkTxn true (Some t)) ->
        wpub (fst (TxnSem.m_abort Pfox h w)) = wpub w /\ wlocked (fst (TxnSem.m_abort Pfox h w)) = false /\
        nth_error (wtxns (fst (TxnSem.m_abort Pfox h w))) h = Some (TxnSeq.mkTxn true None)) /\
    (forall (b : list (TxnSem.BStep Pfox)) (e : TxnSeq.ending) (w : TxnSem.World Pfox), TxnSem.m_wf Pfox w -> wlocked w = false ->
        Forall (fun x => TxnSem.m_quiet Pfox (List.length (wtxns w)) x = true) b ->
        e <> TxnSeq.RetNil \/ snd (TxnSem.m_body Pfox b (fst (TxnSem.m_begin Pfox true w))) = true ->
        wpub (fst (TxnSem.m_managed Pfox true b e w)) = wpub w) /\
    (forall (o : hop) (w : TxnSem.World Pfox), cw_fail (snd (tree_apply (wpub w) o)) = true ->
        wpub (fst (TxnSem.m_single Pfox o w)) = wpub w) /\
    (forall (l : list (TxnSem.BStep Pfox)) (w : TxnSem.World Pfox), TxnSem.m_wf Pfox w -> wlocked w = false ->
        Forall (fun x => TxnSem.m_starts_writer Pfox x = false) l ->
        wpub (TxnSem.m_bsteps Pfox l w) = wpub w).
Proof. exact (TxnSeqProofs.abort_error_panic_invisible_thm Tree.txn hop cwout crop crout tree_apply cw_fail tree_read cro_out). Qed.
Print Assumptions fox_abort_error_panic_invisible.

Theorem fox_commit_all_at_once :
  forall (l : list (TxnSem.BStep Pfox)) (w : TxnSem.World Pfox), TxnSem.m_wf Pfox w -> wlocked w = false ->
    let h := List.length (wtxns w) in
    let w1 := fst (TxnSem.m_begin Pfox true w) in
    Forall (fun x => TxnSem.m_not_ending Pfox h x = true) l ->
    (forall n, wpub (TxnSem.m_bsteps Pfox (firstn n l) w1) = wpub w) /\
    wpub (fst (TxnSem.m_commit Pfox h (TxnSem.m_bsteps Pfox l w1))) = tree_fold (wpub w) (TxnSem.m_own_writes Pfox h l) /\
    wlocked (fst (TxnSem.m_commit Pfox h (TxnSem.m_bsteps Pfox l w1))) = false.
Proof. exact (TxnSeqProofs.commit_all_at_once_thm Tree.txn hop cwout crop crout tree_apply cw_fail tree_read cro_out). Qed.
Print Assumptions fox_commit_all_at_once.

Theorem fox_updates_commit_all_at_once :
  forall (b : list (TxnSem.BStep Pfox)) (w : TxnSem.World Pfox), TxnSem.m_wf Pfox w -> wlocked w = false ->
    let h := List.length (wtxns w) in
    Forall (fun x => TxnSem.m_not_ending Pfox h x = true) b ->
    snd (TxnSem.m_body Pfox b (fst (TxnSem.m_begin Pfox true w))) = false ->
    wpub (fst (TxnSem.m_managed Pfox true b TxnSeq.RetNil w)) = tree_fold (wpub w) (TxnSem.m_own_writes Pfox h b) /\
    wlocked (fst (TxnSem.m_managed Pfox true b TxnSeq.RetNil w)) = false.
Proof. exact (TxnSeqProofs.updates_commit_all_at_once Tree.txn hop cwout crop crout tree_apply cw_fail tree_read cro_out). Qed.
Print Assumptions fox_updates_commit_all_at_once.

(* reads through a write transaction (Txn.Lookup / Route / Has / Iter / Len) see exactly its own writes *)
Theorem fox_read_your_writes :
  forall h (l : list (TxnSem.BStep Pfox)) (w : TxnSem.World Pfox) t,
    TxnSem.m_wf Pfox w -> nth_error (wtxns w) h = Some (TxnSeq.mkTxn true (Some t)) ->
    Forall (fun x => TxnSem.m_not_ending Pfox h x = true) l ->
    forall r, snd (TxnSem.m_read Pfox h r (TxnSem.m_bsteps Pfox l w)) =
              TxnSeq.OR (tree_read (tree_fold t (TxnSem.m_own_writes Pfox h l)) r).
Proof. exact (TxnSeqProofs.read_your_writes_thm Tree.txn hop cwout crop crout tree_apply cw_fail tree_read cro_out). Qed.
Print Assumptions fox_read_your_writes.

Theorem fox_lock_released :
    (forall h (w : TxnSem.World Pfox) t, nth_error (wtxns w) h = Some (TxnSeq.mkTxn true (Some t)) ->
        wlocked (fst (TxnSem.m_commit Pfox h w)) = false /\ wlocked (fst (TxnSem.m_abort Pfox h w)) = false) /\
    (forall h (w : TxnSem.World Pfox) t, nth_error (wtxns w) h = Some t -> TxnSem.m_live Pfox t = false ->
        TxnSem.m_commit Pfox h w = (w, TxnSeq.OUnit) /\ TxnSem.m_abort Pfox h w = (w, TxnSeq.OUnit)) /\
    (forall h (w : TxnSem.World Pfox),
        fst (TxnSem.m_commit Pfox h (fst (TxnSem.m_commit Pfox h w))) = fst (TxnSem.m_commit Pfox h w) /\
        fst (TxnSem.m_abort Pfox h (fst (TxnSem.m_commit Pfox h w))) = fst (TxnSem.m_commit Pfox h w) /\
        fst (TxnSem.m_commit Pfox h (fst (TxnSem.m_abort Pfox h w))) = fst (TxnSem.m_abort Pfox h w) /\
        fst (TxnSem.m_abort Pfox h (fst (TxnSem.m_abort Pfox h w))) = fst (TxnSem.m_abort Pfox h w)) /\
    (forall wr (b : list (TxnSem.BStep Pfox)) e (w : TxnSem.World Pfox), TxnSem.m_wf Pfox w -> wlocked w = false ->
        Forall (fun x => TxnSem.m_no_begin_w Pfox x = true) b ->
        wlocked (fst (TxnSem.m_managed Pfox wr b e w)) = false) /\
    (forall (o : hop) (w : TxnSem.World Pfox), wlocked w = false -> wlocked (fst (TxnSem.m_single Pfox o w)) = false).
Proof. exact (TxnSeqProofs.lock_released_thm Tree.txn hop cwout crop crout tree_apply cw_fail tree_read cro_out). Qed.
Print Assumptions fox_lock_released.

(* ---- C02 for one write on a private forest: WF kept, route sets related, same outcome / removed id ---- *)
Theorem C02_one_write : forall t s o, WF_txn t -> Rel t s -> hop_ok o ->
  WF_txn (fst (tree_apply t o)) /\ Rel (fst (tree_apply t o)) (fst (map_apply s o)) /\
  match snd (tree_apply t o) with
  | WDone out rm => mout_matches (fst (snd (map_apply s o))) out = true /\ rm = snd (snd (map_apply s o))
  | WReadOnly => False
  end.
Proof. exact apply_refines. Qed.
Print Assumptions C02_one_write.

Theorem map_apply_is_mapspec : forall s o, fst (map_apply s o) =
  match h_kind o with
  | KHandle => fst (m_handle s (valid_method_handle (h_method o) && h_valid o) (h_method o) (h_pat o) (h_rid o))
  | KUpdate => fst (m_update s (negb (Tree.is_nil (h_method o)) && h_valid o) (h_method o) (h_pat o) (h_rid o))
  | KDelete => fst (fst (m_delete s (negb (Tree.is_nil (h_method o)) && h_valid o) (h_method o) (h_pat o)))
  | KTruncate => m_truncate s (h_methods o)
  | KBegin | KCommit | KAbort => s
  end.
Proof. exact map_apply_eq. Qed.
Print Assumptions map_apply_is_mapspec.

(* ---- generic: a simulation between two semantics lifts through EVERY step of the lifecycle model ---- *)
Theorem lifecycle_simulation :
  forall (St1 St2 wop wout1 wout2 rop rout1 rout2 : Type)
    (wapply1 : St1 -> wop -> St1 * wout1) (wfail1 : wout1 -> bool) (rread1 : St1 -> rop -> rout1) (ro_out1 : wop -> wout1)
    (wapply2 : St2 -> wop -> St2 * wout2) (wfail2 : wout2 -> bool) (rread2 : St2 -> rop -> rout2) (ro_out2 : wop -> wout2)
    (RS : St1 -> St2 -> Prop) (okop : wop -> Prop),
  (forall s1 s2 o, RS s1 s2 -> okop o ->
     RS (fst (wapply1 s1 o)) (fst (wapply2 s2 o)) /\ wfail1 (snd (wapply1 s1 o)) = wfail2 (snd (wapply2 s2 o))) ->
  (forall o, wfail1 (ro_out1 o) = wfail2 (ro_out2 o)) ->
  forall l, Forall (Gen.sok okop) l -> forall w1 w2, Gen.wrel RS w1 w2 ->
  Gen.wrel RS (fst (TxnSeq.run wapply1 wfail1 rread1 ro_out1 l w1)) (fst (TxnSeq.run wapply2 wfail2 rread2 ro_out2 l w2)) /\
  Forall2 (Forall2 (Gen.orel wfail1 wfail2))
          (snd (TxnSeq.run wapply1 wfail1 rread1 ro_out1 l w1)) (snd (TxnSeq.run wapply2 wfail2 rread2 ro_out2 l w2)).
Proof. exact (@Gen.sim_run). Qed.
Print Assumptions lifecycle_simulation.

(* the logged run is the plain run plus the ghost: same published forest, same lock, same handles *)
Theorem logged_erase : forall (l : list (TxnSeq.step hop crop)) t0,
  Gen.wrel RSerase (fst (TxnSem.m_run PfoxL l (TxnSeq.init (t0, [])))) (fst (TxnSem.m_run Pfox l (TxnSeq.init t0))).
Proof. exact logged_erase_thm. Qed.
Print Assumptions logged_erase.

(* ---- C04_C02_committed_fold: after ANY history of the lifecycle model whose write operations satisfy
   hop_ok (committed, aborted, failing, panicking, managed or not, helpers, read-only handles, snapshots,
   blocked writers), the PUBLISHED forest is well formed and its route set (routes_of_txn: method,
   pattern, id) is exactly the fold over the sequential map of the ghost log of the published state ---- *)
Theorem C04_C02_committed_fold : forall (l : list (TxnSeq.step hop crop)), Forall sok l ->
  let w := fst (TxnSem.m_run Pfox l (TxnSeq.init empty_txn)) in
  let wl := fst (TxnSem.m_run PfoxL l (TxnSeq.init (empty_txn, []))) in
  fst (wpub wl) = wpub w /\ WF_txn (wpub w) /\
  Permutation (routes_of_txn (wpub w)) (map flat (map_fold [] (snd (wpub wl)))) /\
  NoDup (map fst (map_fold [] (snd (wpub wl)))).
Proof. exact C04_C02_committed_fold_thm. Qed.
Print Assumptions C04_C02_committed_fold.

(* the same for the private state of every handle that is still open *)
Theorem C04_C02_handles_fold : forall (l : list (TxnSeq.step hop crop)), Forall sok l ->
  let wl := fst (TxnSem.m_run PfoxL l (TxnSeq.init (empty_txn, []))) in
  Qlog (wpub wl) /\
  forall h tl sl, nth_error (wtxns wl) h = Some tl -> TxnSeq.t_root tl = Some sl -> Qlog sl.
Proof. exact logged_inv_thm. Qed.
Print Assumptions C04_C02_handles_fold.

(* ---- ... and that ghost log IS the operations of the committed transactions: C04 at PfoxL ---- *)
(* it changes only at the Commit of the live write transaction (to that transaction's log) or at a
   successful helper (one operation appended) *)
Theorem committed_log_only_at_commit :
  forall (x : TxnSem.BStep PfoxL) (w : TxnSem.World PfoxL),
    wpub (fst (TxnSem.m_bstep PfoxL x w)) = wpub w \/
    (exists h sl, x = TxnSeq.TCommit h /\ nth_error (wtxns w) h = Some (TxnSeq.mkTxn true (Some sl)) /\
                  wpub (fst (TxnSem.m_bstep PfoxL x w)) = sl) \/
    (exists o, x = TxnSeq.Single o /\ wlocked w = false /\ cw_fail (snd (tree_apply (fst (wpub w)) o)) = false /\
               wpub (fst (TxnSem.m_bstep PfoxL x w)) = (fst (tree_apply (fst (wpub w)) o), snd (wpub w) ++ [o])).
Proof. exact (TxnSeqProofs.published_only_at_commit_lemma (Tree.txn * list hop) hop cwout crop crout
               (Gen.lwapply tree_apply) cw_fail (Gen.lrread tree_read) cro_out). Qed.
Print Assumptions committed_log_only_at_commit.

(* Begin; steps that do not end h; Commit: unchanged at every prefix; the Commit appends exactly h's own
   write operations, in order, in one step *)
Theorem committed_log_commit : forall (l : list (TxnSem.BStep PfoxL)) (wl : TxnSem.World PfoxL),
  TxnSem.m_wf PfoxL wl -> wlocked wl = false ->
  let h := List.length (wtxns wl) in
  let w1 := fst (TxnSem.m_begin PfoxL true wl) in
  Forall (fun x => TxnSem.m_not_ending PfoxL h x = true) l ->
  (forall n, wpub (TxnSem.m_bsteps PfoxL (firstn n l) w1) = wpub wl) /\
  snd (wpub (fst (TxnSem.m_commit PfoxL h (TxnSem.m_bsteps PfoxL l w1)))) = snd (wpub wl) ++ TxnSem.m_own_writes PfoxL h l /\
  fst (wpub (fst (TxnSem.m_commit PfoxL h (TxnSem.m_bsteps PfoxL l w1)))) = tree_fold (fst (wpub wl)) (TxnSem.m_own_writes PfoxL h l).
Proof. exact committed_log_commit_thm. Qed.
Print Assumptions committed_log_commit.

(* Abort, Updates ending with an error or a panic, failing helper, and "ever": the log (and the forest)
   of the published state is unchanged *)
Theorem committed_log_abort_invisible :
    (forall (w : TxnSem.World PfoxL) h sl, nth_error (wtxns w) h = Some (TxnSeq.mkTxn true (Some sl)) ->
        wpub (fst (TxnSem.m_abort PfoxL h w)) = wpub w /\ wlocked (fst (TxnSem.m_abort PfoxL h w)) = false /\
        nth_error (wtxns (fst (TxnSem.m_abort PfoxL h w))) h = Some (TxnSeq.mkTxn true None)) /\
    (forall (b : list (TxnSem.BStep PfoxL)) (e : TxnSeq.ending) (w : TxnSem.World PfoxL), TxnSem.m_wf PfoxL w -> wlocked w = false ->
        Forall (fun x => TxnSem.m_quiet PfoxL (List.length (wtxns w)) x = true) b ->
        e <> TxnSeq.RetNil \/ snd (TxnSem.m_body PfoxL b (fst (TxnSem.m_begin PfoxL true w))) = true ->
        wpub (fst (TxnSem.m_managed PfoxL true b e w)) = wpub w) /\
    (forall (o : hop) (w : TxnSem.World PfoxL), cw_fail (snd (tree_apply (fst (wpub w)) o)) = true ->
        wpub (fst (TxnSem.m_single PfoxL o w)) = wpub w) /\
    (forall (l : list (TxnSem.BStep PfoxL)) (w : TxnSem.World PfoxL), TxnSem.m_wf PfoxL w -> wlocked w = false ->
        Forall (fun x => TxnSem.m_starts_writer PfoxL x = false) l ->
        wpub (TxnSem.m_bsteps PfoxL l w) = wpub w).
Proof. exact (TxnSeqProofs.abort_error_panic_invisible_thm (Tree.txn * list hop) hop cwout crop crout
               (Gen.lwapply tree_apply) cw_fail (Gen.lrread tree_read) cro_out). Qed.
Print Assumptions committed_log_abort_invisible.

(* ---- one transaction, without the ghost: on a well-formed published forest related to a map s0,
   Begin; any steps that do not end the transaction (own writes satisfying hop_ok; anything else in
   between); then Commit publishes the fold of its own operations over s0 — or Abort publishes nothing ---- *)
Theorem C04_C02_txn_fold : forall (w : TxnSem.World Pfox) (s0 : mstate) (l : list (TxnSem.BStep Pfox)),
  TxnSem.m_wf Pfox w -> wlocked w = false -> WF_txn (wpub w) -> Rel (wpub w) s0 ->
  let h := List.length (wtxns w) in
  let w1 := fst (TxnSem.m_begin Pfox true w) in
  Forall (fun x => TxnSem.m_not_ending Pfox h x = true) l -> Forall bok l ->
  (forall n, wpub (TxnSem.m_bsteps Pfox (firstn n l) w1) = wpub w) /\
  (let t' := wpub (fst (TxnSem.m_commit Pfox h (TxnSem.m_bsteps Pfox l w1))) in
   t' = tree_fold (wpub w) (TxnSem.m_own_writes Pfox h l) /\ WF_txn t' /\
   Permutation (routes_of_txn t') (map flat (map_fold s0 (TxnSem.m_own_writes Pfox h l))) /\
   NoDup (map fst (map_fold s0 (TxnSem.m_own_writes Pfox h l)))) /\
  wpub (fst (TxnSem.m_abort Pfox h (TxnSem.m_bsteps Pfox l w1))) = wpub w.
Proof. exact C04_C02_txn_fold_thm. Qed.
Print Assumptions C04_C02_txn_fold.

(* abort / error / panic leave the published ROUTE SET (indeed the forest, hence every read) unchanged *)
Theorem abort_error_panic_same_route_set :
  (forall (b : list (TxnSem.BStep Pfox)) (e : TxnSeq.ending) (w : TxnSem.World Pfox),
      TxnSem.m_wf Pfox w -> wlocked w = false ->
      Forall (fun x => TxnSem.m_quiet Pfox (List.length (wtxns w)) x = true) b ->
      e <> TxnSeq.RetNil \/ snd (TxnSem.m_body Pfox b (fst (TxnSem.m_begin Pfox true w))) = true ->
      routes_of_txn (wpub (fst (TxnSem.m_managed Pfox true b e w))) = routes_of_txn (wpub w) /\
      forall r, tree_read (wpub (fst (TxnSem.m_managed Pfox true b e w))) r = tree_read (wpub w) r) /\
  (forall (o : hop) (w : TxnSem.World Pfox), cw_fail (snd (tree_apply (wpub w) o)) = true ->
      routes_of_txn (wpub (fst (TxnSem.m_single Pfox o w))) = routes_of_txn (wpub w) /\
      forall r, tree_read (wpub (fst (TxnSem.m_single Pfox o w))) r = tree_read (wpub w) r).
Proof. exact abort_error_panic_same_reads_thm. Qed.
Print Assumptions abort_error_panic_same_route_set.

(* ---- non-vacuity (TxnConcrete.Ex): an 11-step history with a helper, Updates ending in an error,
   an explicit transaction (second Begin blocks, snapshot refuses writes), Updates ending in a panic,
   a failing helper ---- *)
Example txn_history_ok : Forall sok Ex.ex_steps.
Proof. exact Ex.ex_steps_ok. Qed.

Example txn_history_values :
  let w := fst (TxnSem.m_run Pfox Ex.ex_steps (TxnSeq.init empty_txn)) in
  let wl := fst (TxnSem.m_run PfoxL Ex.ex_steps (TxnSeq.init (empty_txn, []))) in
  all_of (wpub w) = [(S2B "GET", S2B "x.com/{p}", 3%N)] /\
  map h_pat (snd (wpub wl)) = [S2B "/a"; S2B "x.com/{p}"; S2B "/a"] /\
  map_fold [] (snd (wpub wl)) = [((S2B "GET", S2B "x.com/{p}"), 3%N)] /\
  wlocked w = false.
Proof. vm_compute. repeat split. Qed.

Example C04_C02_committed_fold_ex :
  let w := fst (TxnSem.m_run Pfox Ex.ex_steps (TxnSeq.init empty_txn)) in
  let wl := fst (TxnSem.m_run PfoxL Ex.ex_steps (TxnSeq.init (empty_txn, []))) in
  fst (wpub wl) = wpub w /\ WF_txn (wpub w) /\
  Permutation (routes_of_txn (wpub w)) (map flat (map_fold [] (snd (wpub wl)))) /\
  NoDup (map fst (map_fold [] (snd (wpub wl)))).
Proof. exact (C04_C02_committed_fold Ex.ex_steps txn_history_ok). Qed.

Example C04_C02_txn_fold_ex_hyps :
  let w0 := fst (TxnSem.m_run Pfox Ex.ex_pre (TxnSeq.init empty_txn)) in
  let s0 := map_fold [] (snd (wpub (fst (TxnSem.m_run PfoxL Ex.ex_pre (TxnSeq.init (empty_txn, [])))))) in
  TxnSem.m_wf Pfox w0 /\ wlocked w0 = false /\ WF_txn (wpub w0) /\ Rel (wpub w0) s0 /\
  List.length (wtxns w0) = 1 /\
  Forall (fun x => TxnSem.m_not_ending Pfox 1 x = true) Ex.ex_body /\ Forall bok Ex.ex_body.
Proof. exact Ex.C04_C02_txn_fold_hyps. Qed.

Example C04_C02_txn_fold_ex_values :
  let w0 := fst (TxnSem.m_run Pfox Ex.ex_pre (TxnSeq.init empty_txn)) in
  let s0 := map_fold [] (snd (wpub (fst (TxnSem.m_run PfoxL Ex.ex_pre (TxnSeq.init (empty_txn, [])))))) in
  let w1 := fst (TxnSem.m_begin Pfox true w0) in
  s0 = [((S2B "GET", S2B "/a"), 1%N)] /\
  map_fold s0 (TxnSem.m_own_writes Pfox 1 Ex.ex_body) = [((S2B "GET", S2B "/b/{x}"), 2%N)] /\
  all_of (wpub (TxnSem.m_bsteps Pfox Ex.ex_body w1)) = [(S2B "GET", S2B "/a", 1%N)] /\
  all_of (wpub (fst (TxnSem.m_commit Pfox 1 (TxnSem.m_bsteps Pfox Ex.ex_body w1)))) = [(S2B "GET", S2B "/b/{x}", 2%N)] /\
  all_of (wpub (fst (TxnSem.m_abort Pfox 1 (TxnSem.m_bsteps Pfox Ex.ex_body w1)))) = [(S2B "GET", S2B "/a", 1%N)].
Proof. vm_compute. repeat split. Qed.

(* ================================================================== *)
(* 3. C16: the capacity invariant on every reachable tree               *)
(* ================================================================== *)
(* W k = number of wildcards parse_wildcard finds in k; wroots = most wildcards on a root-to-leaf key
   chain; hop_ok_full: the recorded psLen is the pattern's wildcard count (parseRoute: ParserBridge) *)

(* tree level: a well-formed forest never stacks more wildcards than its richest registered pattern *)
Theorem wroots_le_of_patterns : forall t B, WF_txn t -> pats_le t B -> wroots (t_roots t) <= B.
Proof. exact wroots_le_of_patterns_thm. Qed.
Print Assumptions wroots_le_of_patterns.

(* the invariant J (well formed, every registered pattern has at most maxParams wildcards) holds for the
   published tree, the open transaction and the visible tree after every history *)
Theorem alloc_invariant_reachable : forall ops, Forall hop_ok_full ops ->
  let s := hrun_state init_hstate ops in
  J (pub s) /\ (forall t, cur s = Some t -> J t) /\ J (final_txn ops).
Proof. exact J_reachable_thm. Qed.
Print Assumptions alloc_invariant_reachable.

Theorem wroots_le_maxparams_reachable : forall ops, Forall hop_ok_full ops ->
  let s := hrun_state init_hstate ops in
  wroots (t_roots (pub s)) <= t_maxparams (pub s) /\
  (forall t, cur s = Some t -> wroots (t_roots t) <= t_maxparams t) /\
  wroots (t_roots (visible s)) <= t_maxparams (visible s).
Proof. exact wroots_le_maxparams_reachable_all_thm. Qed.
Print Assumptions wroots_le_maxparams_reachable.

(* maxParams along one step (no hypothesis), and of the published tree along a history *)
Theorem maxparams_monotone : forall s o,
  let s' := fst (fst (hstep s o)) in
  match h_kind o with
  | KHandle =>
      (t_maxparams (visible s') = t_maxparams (visible s) \/
       t_maxparams (visible s') = Nat.max (t_maxparams (visible s)) (h_pslen o)) /\
      t_maxparams (visible s) <= t_maxparams (visible s')
  | KUpdate | KDelete | KTruncate => t_maxparams (visible s') = t_maxparams (visible s)
  | KBegin => visible s' = pub s /\ pub s' = pub s
  | KCommit => pub s' = visible s /\ cur s' = None
  | KAbort => pub s' = pub s /\ cur s' = None /\ visible s' = pub s
  end.
Proof. exact maxparams_monotone_thm. Qed.
Print Assumptions maxparams_monotone.

Theorem maxparams_published_monotone : forall ops1 ops2,
  t_maxparams (pub (hrun_state init_hstate ops1)) <= t_maxparams (pub (hrun_state init_hstate (ops1 ++ ops2))) /\
  (forall t, cur (hrun_state init_hstate ops1) = Some t ->
             t_maxparams (pub (hrun_state init_hstate ops1)) <= t_maxparams t).
Proof. exact maxparams_published_monotone_thm. Qed.
Print Assumptions maxparams_published_monotone.

(* ---- params_never_grow_reachable: on every tree the router can build (visible = the open transaction
   if any, else the published tree; and the published tree), for every request (method, host, path,
   lazy or not, any stale tsrParams, any fuel): params / tsrParams never exceed the capacity
   allocateContext gives them — not even on a cold context ---- *)
Theorem params_never_grow_reachable : forall ops, Forall hop_ok_full ops ->
  forall f m host path lazy tps0,
  let t := final_txn ops in
  let h := snd (roots_lookupI f (t_roots t) m host path lazy [] tps0 hw0) in
  grow_ps (txn_caps t) h = false /\ grow_tps (txn_caps t) h = false.
Proof. exact params_never_grow_reachable_thm. Qed.
Print Assumptions params_never_grow_reachable.

Theorem params_never_grow_reachable_pub : forall ops, Forall hop_ok_full ops ->
  forall f m host path lazy tps0,
  let t := pub (hrun_state init_hstate ops) in
  let h := snd (roots_lookupI f (t_roots t) m host path lazy [] tps0 hw0) in
  grow_ps (txn_caps t) h = false /\ grow_tps (txn_caps t) h = false.
Proof. exact params_never_grow_reachable_pub_thm. Qed.
Print Assumptions params_never_grow_reachable_pub.

Theorem params_never_grow_reachable_parser : forall mp mk ops, Forall (hop_parsed mp mk) ops ->
  forall f m host path lazy tps0,
  let t := final_txn ops in
  let h := snd (roots_lookupI f (t_roots t) m host path lazy [] tps0 hw0) in
  grow_ps (txn_caps t) h = false /\ grow_tps (txn_caps t) h = false.
Proof. exact params_never_grow_reachable_parser_thm. Qed.
Print Assumptions params_never_grow_reachable_parser.

(* no hypothesis at all: any list of API requests, psLen computed by the model of parseRoute *)
Theorem params_never_grow_reachable_closed : forall mp mk (qs : list hreq),
  forall f m host path lazy tps0,
  let t := final_txn (map (parsed_hop mp mk) qs) in
  let h := snd (roots_lookupI f (t_roots t) m host path lazy [] tps0 hw0) in
  grow_ps (txn_caps t) h = false /\ grow_tps (txn_caps t) h = false.
Proof. exact params_never_grow_reachable_closed_thm. Qed.
Print Assumptions params_never_grow_reachable_closed.

Theorem wroots_le_maxparams_reachable_closed : forall mp mk (qs : list hreq),
  let s := hrun_state init_hstate (map (parsed_hop mp mk) qs) in
  wroots (t_roots (pub s)) <= t_maxparams (pub s) /\
  (forall t, cur s = Some t -> wroots (t_roots t) <= t_maxparams t) /\
  wroots (t_roots (visible s)) <= t_maxparams (visible s).
Proof. exact wroots_le_maxparams_reachable_closed_thm. Qed.
Print Assumptions wroots_le_maxparams_reachable_closed.

(* ---- non-vacuity (AllocE2E): 14 API requests; the bound is attained (3 = 3), a lookup fills params up
   to exactly the capacity, an aborted transaction held 4 ---- *)
Example alloc_history_ok : Forall hop_ok_full alloc_ops.
Proof. exact alloc_ops_ok_full. Qed.

Example params_never_grow_reachable_ex :
  let t := final_txn alloc_ops in
  let x := roots_lookupI 100 (t_roots t) (S2B "GET") (S2B "foo.ex.com") (S2B "/u/7/x/y") false [] [] hw0 in
  (wroots (t_roots t) = 3 /\ t_maxparams t = 3) /\
  (model_outcome (fst x) = Some (true, false, S2B "{sub}.ex.com/u/{id}/*{rest}") /\ h_ps (snd x) = t_maxparams t) /\
  (grow_ps (txn_caps t) (snd x) = false /\ grow_tps (txn_caps t) (snd x) = false).
Proof.
  split; [vm_compute; split; reflexivity|]. split; [vm_compute; split; reflexivity|].
  exact (params_never_grow_reachable alloc_ops alloc_history_ok 100 (S2B "GET") (S2B "foo.ex.com") (S2B "/u/7/x/y") false []).
Qed.

Example alloc_abort_restores_ex :
  let s7 := hrun_state init_hstate (firstn 7 alloc_ops) in
  let s8 := hrun_state init_hstate (firstn 8 alloc_ops) in
  t_maxparams (visible s7) = 4 /\ wroots (t_roots (visible s7)) = 4 /\ t_maxparams (pub s7) = 3 /\
  t_maxparams (visible s8) = 3 /\ wroots (t_roots (visible s8)) = 3.
Proof. exact alloc_abort_restores. Qed.
