(* TxnConcrete — C04 over the CONCRETE router, and its connection with C02.

   coq/Txn proves atomicity / isolation (C04) of the transaction lifecycle over an ABSTRACT state:
   TxnSem.sem = (St, wop, wout, rop, rout, wapply, wfail, rread, ro_out).  Here
   1. [Gen]  two generic facts about that lifecycle model, for ANY semantics:
        sim_run      — a simulation between two semantics (relation on states preserved by every
                       write, same failure flag) lifts to whole worlds through EVERY step (Begin, writes,
                       reads, Commit, Abort, Snapshot, Iter, single-operation helpers, Updates / View with
                       any body and any ending): published states related, lock equal, every handle related;
        logged       — the semantics paired with a ghost log of the write operations applied so far.
   2. [Pfox] the semantics instantiated with Route's concrete state: St := Tree.txn (the radix forest with
      size / maxParams / depth), writes := Tree.insert / update / remove / truncate exactly as
      CorrHist.hstep applies them (validation flags and outcomes included), reads := the read API
      (roots_lookup_g, Iter.route_of / has / methods_of / prefix_routes, All, Len);
      the C04 theorems instantiated at Pfox;
   3. C04 + C02: the published forest is well formed and holds exactly the routes obtained by folding the
      operations of the COMMITTED transactions over the sequential map (MapSpec), whatever else happened
      (aborted / failed / panicking transactions, read-only handles, snapshots, blocked writers). *)
From FoxBase Require Import Bytes.
From FoxTxn Require TxnSeq TxnSeqProofs TxnSem.
From FoxRoute Require Import Node Lookup HostPort Spec Guard Tree MapSpec Corr CorrHist Iter WFDef TreeWF TreeMap TreeMap2.
From Coq Require Import Permutation Lia.

(* ================================================================== *)
(* Part 1 — generic: simulation and ghost log                           *)
(* ================================================================== *)
Module Gen.
Import TxnSeq TxnSeqProofs.
Local Open Scope list_scope.

Lemma F2_nth {A B} (R : A -> B -> Prop) l1 l2 : Forall2 R l1 l2 -> forall h,
  match nth_error l1 h, nth_error l2 h with
  | Some a, Some b => R a b | None, None => True | _, _ => False end.
Proof. intros H. induction H as [|a b l1 l2 Hab H IH]; intros [|h]; simpl; auto. apply IH. Qed.

Lemma F2_upd {A B} (R : A -> B -> Prop) l1 l2 x y : Forall2 R l1 l2 -> R x y -> forall h,
  Forall2 R (upd_nth h x l1) (upd_nth h y l2).
Proof.
  intros H Hxy. induction H as [|a b l1 l2 Hab H IH]; intros [|h]; simpl; constructor; auto.
Qed.

Lemma F2_snoc {A B} (R : A -> B -> Prop) l1 l2 x y : Forall2 R l1 l2 -> R x y -> Forall2 R (l1 ++ [x]) (l2 ++ [y]).
Proof. intros H Hxy. apply Forall2_app; auto. Qed.

Lemma F2_len {A B} (R : A -> B -> Prop) l1 l2 : Forall2 R l1 l2 -> List.length l1 = List.length l2.
Proof. intros H. induction H; simpl; auto. Qed.

Section Sim.
  Context {St1 St2 wop wout1 wout2 rop rout1 rout2 : Type}.
  Variable wapply1 : St1 -> wop -> St1 * wout1.
  Variable wfail1 : wout1 -> bool.
  Variable rread1 : St1 -> rop -> rout1.
  Variable ro_out1 : wop -> wout1.
  Variable wapply2 : St2 -> wop -> St2 * wout2.
  Variable wfail2 : wout2 -> bool.
  Variable rread2 : St2 -> rop -> rout2.
  Variable ro_out2 : wop -> wout2.

  Variable RS : St1 -> St2 -> Prop.        (* the simulation relation on states *)
  Variable okop : wop -> Prop.             (* side condition on write operations *)
  Hypothesis Hap : forall s1 s2 o, RS s1 s2 -> okop o ->
    RS (fst (wapply1 s1 o)) (fst (wapply2 s2 o)) /\ wfail1 (snd (wapply1 s1 o)) = wfail2 (snd (wapply2 s2 o)).
  Hypothesis Hro : forall o, wfail1 (ro_out1 o) = wfail2 (ro_out2 o).

  Notation begin1 := (@begin St1 wout1 rout1).
  Notation begin2 := (@begin St2 wout2 rout2).
  Notation t_wop1 := (@t_wop St1 wop wout1 rout1 wapply1 ro_out1).
  Notation t_wop2 := (@t_wop St2 wop wout2 rout2 wapply2 ro_out2).
  Notation t_rop1 := (@t_rop St1 wout1 rop rout1 rread1).
  Notation t_rop2 := (@t_rop St2 wout2 rop rout2 rread2).
  Notation commit1 := (@commit St1 wout1 rout1).
  Notation commit2 := (@commit St2 wout2 rout2).
  Notation abort1 := (@abort St1 wout1 rout1).
  Notation abort2 := (@abort St2 wout2 rout2).
  Notation snapshot1 := (@snapshot St1 wout1 rout1).
  Notation snapshot2 := (@snapshot St2 wout2 rout2).
  Notation iter1 := (@iter St1 wout1 rout1).
  Notation iter2 := (@iter St2 wout2 rout2).
  Notation single1 := (@single St1 wop wout1 rout1 wapply1 wfail1 ro_out1).
  Notation single2 := (@single St2 wop wout2 rout2 wapply2 wfail2 ro_out2).
  Notation bstep_run1 := (@bstep_run St1 wop wout1 rop rout1 wapply1 wfail1 rread1 ro_out1).
  Notation bstep_run2 := (@bstep_run St2 wop wout2 rop rout2 wapply2 wfail2 rread2 ro_out2).
  Notation run_body1 := (@run_body St1 wop wout1 rop rout1 wapply1 wfail1 rread1 ro_out1).
  Notation run_body2 := (@run_body St2 wop wout2 rop rout2 wapply2 wfail2 rread2 ro_out2).
  Notation run_bsteps1 := (@run_bsteps St1 wop wout1 rop rout1 wapply1 wfail1 rread1 ro_out1).
  Notation run_bsteps2 := (@run_bsteps St2 wop wout2 rop rout2 wapply2 wfail2 rread2 ro_out2).
  Notation managed1 := (@managed St1 wop wout1 rop rout1 wapply1 wfail1 rread1 ro_out1).
  Notation managed2 := (@managed St2 wop wout2 rop rout2 wapply2 wfail2 rread2 ro_out2).
  Notation step_run1 := (@step_run St1 wop wout1 rop rout1 wapply1 wfail1 rread1 ro_out1).
  Notation step_run2 := (@step_run St2 wop wout2 rop rout2 wapply2 wfail2 rread2 ro_out2).
  Notation run1 := (@run St1 wop wout1 rop rout1 wapply1 wfail1 rread1 ro_out1).
  Notation run2 := (@run St2 wop wout2 rop rout2 wapply2 wfail2 rread2 ro_out2).

  Definition orel_root (a : option St1) (b : option St2) : Prop :=
    match a, b with None, None => True | Some x, Some y => RS x y | _, _ => False end.
  Definition trel (t1 : txn St1) (t2 : txn St2) : Prop :=
    t_write t1 = t_write t2 /\ orel_root (t_root t1) (t_root t2).
  Definition wrel (w1 : world St1) (w2 : world St2) : Prop :=
    RS (pub w1) (pub w2) /\ locked w1 = locked w2 /\ Forall2 trel (txns w1) (txns w2).

  (* observations: same constructor, same handle, same failure flag of a write result; read results free *)
  Definition orel (o1 : obs wout1 rout1) (o2 : obs wout2 rout2) : Prop :=
    match o1, o2 with
    | OW x1, OW x2 => wfail1 x1 = wfail2 x2
    | OR _, OR _ => True
    | OHandle a, OHandle b => a = b
    | OUnit, OUnit | OBlocked, OBlocked | ONoHandle, ONoHandle | OPanicSettled, OPanicSettled | ONil, ONil
    | OFinNil, OFinNil | OFinErr, OFinErr | OFinPanicV, OFinPanicV | OFinPanicSettled, OFinPanicSettled
    | OFinBlocked, OFinBlocked | OFinGoexit, OFinGoexit => True
    | _, _ => False
    end.

  Definition bok (x : bstep wop rop) : Prop :=
    match x with TWrite _ o | Single o => okop o | _ => True end.
  Definition sok (x : step wop rop) : Prop :=
    match x with Plain b => bok b | Updates b _ | View b _ => Forall bok b end.

  Lemma orel_panic o1 o2 : orel o1 o2 -> is_panic o1 = is_panic o2.
  Proof. destruct o1, o2; simpl; intros H; try contradiction; reflexivity. Qed.

  Ltac nth_pair Hw h :=
    let Hn := fresh "Hn" in
    pose proof (F2_nth trel _ _ (proj2 (proj2 Hw)) h) as Hn;
    destruct (nth_error (txns _) h) as [[wr1 r1]|], (nth_error (txns _) h) as [[wr2 r2]|];
    try contradiction; [destruct Hn as [Hwr Hr]; cbn [t_write t_root] in Hwr, Hr; subst wr2|].

  Lemma sim_begin wr w1 w2 : wrel w1 w2 ->
    wrel (fst (begin1 wr w1)) (fst (begin2 wr w2)) /\ orel (snd (begin1 wr w1)) (snd (begin2 wr w2)).
  Proof.
    intros (Hp & Hl & Ht). unfold begin. rewrite Hl. destruct (wr && locked w2); cbn [fst snd].
    - split; [split; auto|exact I].
    - split; [|simpl; apply (F2_len _ _ _ Ht)].
      split; [exact Hp|]. split; [reflexivity|]. cbn [txns].
      apply F2_snoc; [exact Ht|]. split; [reflexivity|exact Hp].
  Qed.

  Lemma sim_t_wop h o w1 w2 : okop o -> wrel w1 w2 ->
    wrel (fst (t_wop1 h o w1)) (fst (t_wop2 h o w2)) /\ orel (snd (t_wop1 h o w1)) (snd (t_wop2 h o w2)).
  Proof.
    intros Hok Hw. unfold t_wop. nth_pair Hw h; [|split; [exact Hw|exact I]].
    cbn [t_root t_write]. destruct r1 as [s1|], r2 as [s2|]; try contradiction; [|split; [exact Hw|exact I]].
    destruct wr1.
    - destruct (Hap s1 s2 o Hr Hok) as [Ha Hf].
      destruct (wapply1 s1 o) as [s1' x1], (wapply2 s2 o) as [s2' x2]. cbn [fst snd] in *.
      split; [|exact Hf]. destruct Hw as (Hp & Hl & Ht). split; [exact Hp|]. split; [exact Hl|].
      cbn [txns set_txn]. apply F2_upd; [exact Ht|]. split; [reflexivity|exact Ha].
    - split; [exact Hw|apply Hro].
  Qed.

  Lemma sim_t_rop h r w1 w2 : wrel w1 w2 ->
    wrel (fst (t_rop1 h r w1)) (fst (t_rop2 h r w2)) /\ orel (snd (t_rop1 h r w1)) (snd (t_rop2 h r w2)).
  Proof.
    intros Hw. unfold t_rop. nth_pair Hw h; [|split; [exact Hw|exact I]].
    cbn [t_root]. destruct r1 as [s1|], r2 as [s2|]; try contradiction; split; try exact Hw; exact I.
  Qed.

  Lemma sim_commit h w1 w2 : wrel w1 w2 ->
    wrel (fst (commit1 h w1)) (fst (commit2 h w2)) /\ orel (snd (commit1 h w1)) (snd (commit2 h w2)).
  Proof.
    intros Hw. unfold commit. nth_pair Hw h; [|split; [exact Hw|exact I]].
    cbn [t_root t_write]. destruct wr1; cbn [negb]; [|split; [exact Hw|exact I]].
    destruct r1 as [s1|], r2 as [s2|]; try contradiction; [|split; [exact Hw|exact I]].
    split; [|exact I]. destruct Hw as (Hp & Hl & Ht). split; [exact Hr|]. split; [reflexivity|].
    cbn [txns]. apply F2_upd; [exact Ht|]. split; [reflexivity|exact I].
  Qed.

  Lemma sim_abort h w1 w2 : wrel w1 w2 ->
    wrel (fst (abort1 h w1)) (fst (abort2 h w2)) /\ orel (snd (abort1 h w1)) (snd (abort2 h w2)).
  Proof.
    intros Hw. unfold abort. nth_pair Hw h; [|split; [exact Hw|exact I]].
    cbn [t_root t_write]. destruct wr1; cbn [negb]; [|split; [exact Hw|exact I]].
    destruct r1 as [s1|], r2 as [s2|]; try contradiction; [|split; [exact Hw|exact I]].
    split; [|exact I]. destruct Hw as (Hp & Hl & Ht). split; [exact Hp|]. split; [reflexivity|].
    cbn [txns]. apply F2_upd; [exact Ht|]. split; [reflexivity|exact I].
  Qed.

  Lemma sim_snapshot h w1 w2 : wrel w1 w2 ->
    wrel (fst (snapshot1 h w1)) (fst (snapshot2 h w2)) /\ orel (snd (snapshot1 h w1)) (snd (snapshot2 h w2)).
  Proof.
    intros Hw. unfold snapshot. nth_pair Hw h; [|split; [exact Hw|exact I]].
    cbn [t_root]. destruct r1 as [s1|], r2 as [s2|]; try contradiction; [|split; [exact Hw|exact I]].
    destruct Hw as (Hp & Hl & Ht). split; [|simpl; apply (F2_len _ _ _ Ht)].
    split; [exact Hp|]. split; [exact Hl|]. cbn [txns]. apply F2_snoc; [exact Ht|]. split; [reflexivity|exact Hr].
  Qed.

  Lemma sim_iter h w1 w2 : wrel w1 w2 ->
    wrel (fst (iter1 h w1)) (fst (iter2 h w2)) /\ orel (snd (iter1 h w1)) (snd (iter2 h w2)).
  Proof.
    intros Hw. unfold iter. nth_pair Hw h; [|split; [exact Hw|exact I]].
    cbn [t_root]. destruct r1 as [s1|], r2 as [s2|]; try contradiction; [|split; [exact Hw|exact I]].
    destruct Hw as (Hp & Hl & Ht). split; [|simpl; apply (F2_len _ _ _ Ht)].
    split; [exact Hp|]. split; [exact Hl|]. cbn [txns]. apply F2_snoc; [exact Ht|]. split; [reflexivity|exact Hr].
  Qed.

  Lemma sim_single o w1 w2 : okop o -> wrel w1 w2 ->
    wrel (fst (single1 o w1)) (fst (single2 o w2)) /\ orel (snd (single1 o w1)) (snd (single2 o w2)).
  Proof.
    intros Hok Hw. unfold single.
    destruct (sim_begin true w1 w2 Hw) as [Hb Hob].
    destruct (begin1 true w1) as [u1 ob1], (begin2 true w2) as [u2 ob2]. cbn [fst snd] in Hb, Hob.
    destruct ob1, ob2; try contradiction; try (split; [exact Hb|exact Hob]).
    cbn [orel] in Hob. subst h0.
    destruct (sim_t_wop h o u1 u2 Hok Hb) as [Hc Hoc].
    destruct (t_wop1 h o u1) as [v1 r1], (t_wop2 h o u2) as [v2 r2]. cbn [fst snd] in Hc, Hoc.
    destruct r1, r2; try contradiction; try (split; [apply sim_abort; exact Hc|exact Hoc]).
    assert (Hoc' : orel (OW o0) (OW o1)) by exact Hoc.
    cbn [orel] in Hoc. rewrite Hoc. clear Hoc. destruct (wfail2 o1); (split; [|exact Hoc']).
    - apply sim_abort; exact Hc.
    - apply sim_abort. apply sim_commit. exact Hc.
  Qed.

  Lemma sim_bstep x w1 w2 : bok x -> wrel w1 w2 ->
    wrel (fst (bstep_run1 x w1)) (fst (bstep_run2 x w2)) /\ orel (snd (bstep_run1 x w1)) (snd (bstep_run2 x w2)).
  Proof.
    intros Hok Hw. destruct x; cbn [bstep_run bok] in *.
    - apply sim_begin; auto.
    - apply sim_t_wop; auto.
    - apply sim_t_rop; auto.
    - apply sim_commit; auto.
    - apply sim_abort; auto.
    - apply sim_snapshot; auto.
    - apply sim_iter; auto.
    - apply sim_single; auto.
    - split; [exact Hw|exact I].
  Qed.

  Lemma sim_bsteps l : Forall bok l -> forall w1 w2, wrel w1 w2 -> wrel (run_bsteps1 l w1) (run_bsteps2 l w2).
  Proof.
    induction l as [|x l IH]; intros Hl w1 w2 Hw; [exact Hw|]. inversion Hl; subst. cbn [run_bsteps].
    apply IH; auto. apply sim_bstep; auto.
  Qed.

  Lemma sim_body b : Forall bok b -> forall w1 w2, wrel w1 w2 ->
    wrel (fst (fst (run_body1 b w1))) (fst (fst (run_body2 b w2))) /\
    Forall2 orel (snd (fst (run_body1 b w1))) (snd (fst (run_body2 b w2))) /\
    snd (run_body1 b w1) = snd (run_body2 b w2).
  Proof.
    induction b as [|x b IH]; intros Hb w1 w2 Hw; [cbn; auto|]. inversion Hb as [|? ? Hx Hb']; subst.
    cbn [run_body]. destruct (sim_bstep x w1 w2 Hx Hw) as [Hs Ho].
    destruct (bstep_run1 x w1) as [u1 o1], (bstep_run2 x w2) as [u2 o2]. cbn [fst snd] in Hs, Ho.
    rewrite (orel_panic o1 o2 Ho). destruct (is_panic o2); [cbn; auto|].
    destruct (IH Hb' u1 u2 Hs) as (H1 & H2 & H3).
    destruct (run_body1 b u1) as [[a1 os1] p1], (run_body2 b u2) as [[a2 os2] p2]. cbn [fst snd] in *. auto.
  Qed.

  Lemma sim_abort_w h w1 w2 : wrel w1 w2 -> wrel (fst (abort1 h w1)) (fst (abort2 h w2)).
  Proof. intros H. apply sim_abort. exact H. Qed.
  Lemma sim_commit_w h w1 w2 : wrel w1 w2 -> wrel (fst (commit1 h w1)) (fst (commit2 h w2)).
  Proof. intros H. apply sim_commit. exact H. Qed.

  Lemma F2_snoc1 os1 os2 (a : obs wout1 rout1) (b : obs wout2 rout2) :
    Forall2 orel os1 os2 -> orel a b -> Forall2 orel (os1 ++ [a]) (os2 ++ [b]).
  Proof. intros. apply F2_snoc; auto. Qed.

  Lemma sim_managed wr b e w1 w2 : Forall bok b -> wrel w1 w2 ->
    wrel (fst (managed1 wr b e w1)) (fst (managed2 wr b e w2)) /\
    Forall2 orel (snd (managed1 wr b e w1)) (snd (managed2 wr b e w2)).
  Proof.
    intros Hb Hw. unfold managed.
    destruct (sim_begin wr w1 w2 Hw) as [Hs Hob].
    destruct (begin1 wr w1) as [u1 ob1], (begin2 wr w2) as [u2 ob2]. cbn [fst snd] in Hs, Hob.
    destruct ob1, ob2; try contradiction; try (split; [exact Hs|repeat constructor]).
    cbn [orel] in Hob. subst h0.
    destruct (sim_body b Hb u1 u2 Hs) as (H1 & H2 & H3).
    destruct (run_body1 b u1) as [[a1 os1] p1], (run_body2 b u2) as [[a2 os2] p2]. cbn [fst snd] in *. subst p2.
    destruct p1.
    - split; [apply sim_abort_w; exact H1|apply F2_snoc1; [exact H2|exact I]].
    - destruct e.
      + destruct wr; (split; [|apply F2_snoc1; [exact H2|exact I]]).
        * apply sim_abort_w. apply sim_commit_w. exact H1.
        * apply sim_abort_w. exact H1.
      + split; [apply sim_abort_w; exact H1|apply F2_snoc1; [exact H2|exact I]].
      + split; [apply sim_abort_w; exact H1|apply F2_snoc1; [exact H2|exact I]].
      + split; [apply sim_abort_w; exact H1|apply F2_snoc1; [exact H2|exact I]].
  Qed.

  Lemma sim_step x w1 w2 : sok x -> wrel w1 w2 ->
    wrel (fst (step_run1 x w1)) (fst (step_run2 x w2)) /\
    Forall2 orel (snd (step_run1 x w1)) (snd (step_run2 x w2)).
  Proof.
    intros Hx Hw. destruct x as [x|b e|b e]; cbn [step_run sok] in *.
    - destruct (sim_bstep x w1 w2 Hx Hw) as [H1 H2].
      destruct (bstep_run1 x w1), (bstep_run2 x w2). cbn [fst snd] in *. split; [exact H1|repeat constructor; exact H2].
    - apply sim_managed; auto.
    - apply sim_managed; auto.
  Qed.

  Theorem sim_run l : Forall sok l -> forall w1 w2, wrel w1 w2 ->
    wrel (fst (run1 l w1)) (fst (run2 l w2)) /\
    Forall2 (Forall2 orel) (snd (run1 l w1)) (snd (run2 l w2)).
  Proof.
    induction l as [|x l IH]; intros Hl w1 w2 Hw; [cbn; auto|]. inversion Hl as [|? ? Hx Hl']; subst.
    cbn [run]. destruct (sim_step x w1 w2 Hx Hw) as [H1 H2].
    destruct (step_run1 x w1) as [u1 o1], (step_run2 x w2) as [u2 o2]. cbn [fst snd] in H1, H2.
    destruct (IH Hl' u1 u2 H1) as [H3 H4].
    destruct (run1 l u1) as [a1 os1], (run2 l u2) as [a2 os2]. cbn [fst snd] in *. auto.
  Qed.

  Lemma wrel_init s1 s2 : RS s1 s2 -> wrel (init s1) (init s2).
  Proof. intros H. split; [exact H|]. split; [reflexivity|constructor]. Qed.
End Sim.

(* ---- the semantics with a ghost log: every state carries the list of write operations applied to
   the initial state to obtain it ---- *)
Section Logged.
  Context {St wop wout rop rout : Type}.
  Variable wapply : St -> wop -> St * wout.
  Variable wfail : wout -> bool.
  Variable rread : St -> rop -> rout.
  Variable ro_out : wop -> wout.

  Definition lwapply (sl : St * list wop) (o : wop) : (St * list wop) * wout :=
    ((fst (wapply (fst sl) o), snd sl ++ [o]), snd (wapply (fst sl) o)).
  Definition lrread (sl : St * list wop) (r : rop) : rout := rread (fst sl) r.

  Lemma lwfold_log sl os : snd (wfold lwapply sl os) = snd sl ++ os.
  Proof.
    revert sl. induction os as [|o os IH]; intros sl; cbn [wfold fold_left]; [rewrite app_nil_r; reflexivity|].
    change (fold_left (fun s o0 => fst (lwapply s o0)) os (fst (lwapply sl o))) with (wfold lwapply (fst (lwapply sl o)) os).
    rewrite IH. cbn [lwapply fst snd]. rewrite <- app_assoc. reflexivity.
  Qed.

  Lemma lwfold_state sl os : fst (wfold lwapply sl os) = wfold wapply (fst sl) os.
  Proof.
    revert sl. induction os as [|o os IH]; intros sl; cbn [wfold fold_left]; [reflexivity|].
    change (fold_left (fun s o0 => fst (lwapply s o0)) os (fst (lwapply sl o))) with (wfold lwapply (fst (lwapply sl o)) os).
    change (fold_left (fun s o0 => fst (wapply s o0)) os (fst (wapply (fst sl) o))) with (wfold wapply (fst (wapply (fst sl) o)) os).
    rewrite IH. reflexivity.
  Qed.
End Logged.
End Gen.

(* ================================================================== *)
(* Part 2 — the concrete semantics: Route's forest under the lifecycle  *)
(* ================================================================== *)
Local Open Scope list_scope.

(* what a write returns: the outcome and the removed route id as CorrHist.hstep computes them, or
   ErrReadOnlyTxn *)
Inductive cwout := WDone (out : outcome) (rm : option N) | WReadOnly.
Definition cw_fail (x : cwout) : bool := match x with WDone OutOk _ => false | _ => true end.

(* one write operation on a private forest: CorrHist.hstep on a state without open transaction *)
Definition tree_apply (t : Tree.txn) (o : hop) : Tree.txn * cwout :=
  match hstep {| CorrHist.pub := t; cur := None |} o with
  | (hs', out, rm) => (visible hs', WDone out rm)
  end.

(* spelled out: Tree.insert / update / remove / truncate with the validation prologue of txn.go *)
Lemma tree_apply_eq t o : tree_apply t o =
  match h_kind o with
  | KHandle =>
      if negb (valid_method_handle (h_method o)) || negb (h_valid o) then (t, WDone OutInvalid None)
      else match insert t (h_method o) (hop_ri o) with
           | ROk t' => (t', WDone OutOk None)
           | RExist _ => (t, WDone OutExist None)
           | RConflict ps => (t, WDone (OutConflict ps) None)
           | RNotFound => (t, WDone OutNotFound None)
           end
  | KUpdate =>
      if Tree.is_nil (h_method o) || negb (h_valid o) then (t, WDone OutInvalid None)
      else match update t (h_method o) (hop_ri o) with
           | ROk t' => (t', WDone OutOk None)
           | _ => (t, WDone OutNotFound None)
           end
  | KDelete =>
      if Tree.is_nil (h_method o) || negb (h_valid o) then (t, WDone OutInvalid None)
      else match remove t (h_method o) (h_pat o) with
           | DOk t' r => (t', WDone OutOk (Some (rid r)))
           | DNotFound => (t, WDone OutNotFound None)
           end
  | KTruncate => (truncate t (h_methods o), WDone OutOk None)
  | KBegin | KCommit | KAbort => (t, WDone OutOk None)
  end.
Proof.
  unfold tree_apply, hstep. fold (hop_ri o). cbn [visible CorrHist.pub cur put].
  destruct (h_kind o); try reflexivity.
  - destruct (negb (valid_method_handle (h_method o)) || negb (h_valid o)); [reflexivity|].
    destruct (insert t (h_method o) (hop_ri o)); reflexivity.
  - destruct (Tree.is_nil (h_method o) || negb (h_valid o)); [reflexivity|].
    destruct (update t (h_method o) (hop_ri o)); reflexivity.
  - destruct (Tree.is_nil (h_method o) || negb (h_valid o)); [reflexivity|].
    destruct (remove t (h_method o) (h_pat o)); reflexivity.
Qed.

(* reads: the matcher (Lookup / ServeHTTP / Reverse go through roots.lookup), Route, Has, Iter.Methods,
   Iter.Prefix, Iter.All, Len *)
Inductive crop :=
| RLookup (fuel : nat) (m host path : bytes) (lazy : bool)
| RRoute (m pattern : bytes)
| RHas (m pattern : bytes)
| RMethods
| RPrefix (m prefix : bytes)
| RAll
| RLen.
Inductive crout :=
| VLookup (r : lres)
| VRoute (r : option route)
| VBool (b : bool)
| VMethods (l : list bytes)
| VRoutes (l : list route)
| VAll (l : list (bytes * bytes * N))
| VLen (z : Z).
Definition tree_read (t : Tree.txn) (r : crop) : crout :=
  match r with
  | RLookup fuel m host path lazy => VLookup (roots_lookup_g fuel (t_roots t) m host path lazy [] [])
  | RRoute m p => VRoute (route_of (t_roots t) m p)
  | RHas m p => VBool (has (t_roots t) m p)
  | RMethods => VMethods (methods_of (t_roots t))
  | RPrefix m p => VRoutes (prefix_routes (t_roots t) m p)
  | RAll => VAll (all_of t)
  | RLen => VLen (t_size t)
  end.
Definition cro_out (o : hop) : cwout := WReadOnly.

Definition Pfox : TxnSem.sem :=
  TxnSem.mkSem Tree.txn hop cwout crop crout tree_apply cw_fail tree_read cro_out.

(* the same semantics with the ghost log of write operations *)
Definition PfoxL : TxnSem.sem :=
  TxnSem.mkSem (Tree.txn * list hop) hop cwout crop crout (Gen.lwapply tree_apply) cw_fail (Gen.lrread tree_read) cro_out.

(* ---- the sequential map under the same operations (CorrHist.sstep without open transaction) ---- *)
Definition map_apply (s : mstate) (o : hop) : mstate * (mout * option N) :=
  match sstep {| spub := s; scur := None |} o with
  | (ss', mo, rm) => (svisible ss', (mo, rm))
  end.

Lemma map_apply_eq s o : fst (map_apply s o) =
  match h_kind o with
  | KHandle => fst (m_handle s (valid_method_handle (h_method o) && h_valid o) (h_method o) (h_pat o) (h_rid o))
  | KUpdate => fst (m_update s (negb (Tree.is_nil (h_method o)) && h_valid o) (h_method o) (h_pat o) (h_rid o))
  | KDelete => fst (fst (m_delete s (negb (Tree.is_nil (h_method o)) && h_valid o) (h_method o) (h_pat o)))
  | KTruncate => m_truncate s (h_methods o)
  | KBegin | KCommit | KAbort => s
  end.
Proof.
  unfold map_apply, sstep. cbn [svisible spub scur sput].
  destruct (h_kind o); try reflexivity.
  - destruct (m_handle s _ _ _ _). reflexivity.
  - destruct (m_update s _ _ _ _). reflexivity.
  - destruct (m_delete s _ _ _) as [[? ?] ?]. reflexivity.
Qed.

Definition map_fold (s : mstate) (os : list hop) : mstate := TxnSeq.wfold map_apply s os.
Definition tree_fold (t : Tree.txn) (os : list hop) : Tree.txn := TxnSeq.wfold tree_apply t os.

Lemma map_fold_snoc s os o : map_fold s (os ++ [o]) = fst (map_apply (map_fold s os) o).
Proof. unfold map_fold, TxnSeq.wfold. rewrite fold_left_app. reflexivity. Qed.

(* C02 for one write: well-formedness kept, route sets related, same outcome and removed id *)
Lemma apply_refines t s o : WF_txn t -> Rel t s -> hop_ok o ->
  WF_txn (fst (tree_apply t o)) /\ Rel (fst (tree_apply t o)) (fst (map_apply s o)) /\
  match snd (tree_apply t o) with
  | WDone out rm => mout_matches (fst (snd (map_apply s o))) out = true /\ rm = snd (snd (map_apply s o))
  | WReadOnly => False
  end.
Proof.
  intros Hw Hr Hok.
  assert (HS : SRel {| CorrHist.pub := t; cur := None |} {| spub := s; scur := None |}) by (unfold SRel; simpl; tauto).
  pose proof (step_refines _ _ o HS Hok) as H. unfold tree_apply, map_apply.
  destruct (hstep {| CorrHist.pub := t; cur := None |} o) as [[hs' out] rm].
  destruct (sstep {| spub := s; scur := None |} o) as [[ss' mo] rm'].
  destruct H as (HS' & Hm & Hrm). destruct (SRel_visible _ _ HS') as [Hw' Hr']. cbn [fst snd]. auto.
Qed.

Lemma fold_refines os : Forall hop_ok os -> forall t s, WF_txn t -> Rel t s ->
  WF_txn (tree_fold t os) /\ Rel (tree_fold t os) (map_fold s os).
Proof.
  induction os as [|o os IH]; intros Hos t s Hw Hr; [auto|]. inversion Hos as [|? ? Ho Hos']; subst.
  destruct (apply_refines t s o Hw Hr Ho) as (Hw' & Hr' & _).
  unfold tree_fold, map_fold, TxnSeq.wfold. cbn [fold_left]. apply IH; auto.
Qed.

(* outcomes agree: a write fails on the forest iff it fails on the map *)
Definition mout_fail (x : mout * option N) : bool := match fst x with MOk => false | _ => true end.
Lemma apply_fail_agrees t s o : WF_txn t -> Rel t s -> hop_ok o ->
  cw_fail (snd (tree_apply t o)) = mout_fail (snd (map_apply s o)).
Proof.
  intros Hw Hr Hok. destruct (apply_refines t s o Hw Hr Hok) as (_ & _ & H).
  destruct (snd (tree_apply t o)) as [out rm|]; [|contradiction]. destruct H as [Hm _].
  unfold mout_fail. destruct (fst (snd (map_apply s o))), out; simpl in *; try discriminate; reflexivity.
Qed.

(* ================================================================== *)
(* Part 3 — C04 at Pfox (instances), and C04 + C02                      *)
(* ================================================================== *)
Notation wpub := (@TxnSeq.pub _).
Notation wlocked := (@TxnSeq.locked _).
Notation wtxns := (@TxnSeq.txns _).

(* ---- the invariant carried by every state of the logged semantics ---- *)
Definition Qlog (sl : Tree.txn * list hop) : Prop :=
  WF_txn (fst sl) /\ Rel (fst sl) (map_fold [] (snd sl)).
Definition RSinv (a b : Tree.txn * list hop) : Prop := a = b /\ Qlog a.
Definition RSerase (a : Tree.txn * list hop) (t : Tree.txn) : Prop := fst a = t.

Lemma Qlog_apply sl o : Qlog sl -> hop_ok o -> Qlog (fst (Gen.lwapply tree_apply sl o)).
Proof.
  intros [Hw Hr] Hok. unfold Qlog, Gen.lwapply. cbn [fst snd]. rewrite map_fold_snoc.
  destruct (apply_refines (fst sl) _ o Hw Hr Hok) as (Hw' & Hr' & _). auto.
Qed.

Lemma RSinv_ap s1 s2 o : RSinv s1 s2 -> hop_ok o ->
  RSinv (fst (Gen.lwapply tree_apply s1 o)) (fst (Gen.lwapply tree_apply s2 o)) /\
  cw_fail (snd (Gen.lwapply tree_apply s1 o)) = cw_fail (snd (Gen.lwapply tree_apply s2 o)).
Proof. intros [-> HQ] Hok. split; [split; [reflexivity|apply Qlog_apply; auto]|reflexivity]. Qed.

Lemma RSerase_ap s1 s2 o : RSerase s1 s2 -> True ->
  RSerase (fst (Gen.lwapply tree_apply s1 o)) (fst (tree_apply s2 o)) /\
  cw_fail (snd (Gen.lwapply tree_apply s1 o)) = cw_fail (snd (tree_apply s2 o)).
Proof. unfold RSerase. intros <- _. split; reflexivity. Qed.

Lemma Qlog_init : Qlog (empty_txn, []).
Proof. split; [exact WF_empty|]. split; [reflexivity|constructor]. Qed.

Definition bok := @Gen.bok hop crop hop_ok.     (* every write operation of the step satisfies hop_ok *)
Definition sok := @Gen.sok hop crop hop_ok.

Lemma sok_true (l : list (TxnSeq.step hop crop)) : Forall (@Gen.sok hop crop (fun _ => True)) l.
Proof.
  apply Forall_forall. intros x _. destruct x as [b|b e|b e]; cbn.
  - destruct b; exact I.
  - apply Forall_forall. intros y _. destruct y; exact I.
  - apply Forall_forall. intros y _. destruct y; exact I.
Qed.

(* the logged run projects onto the plain run: same lock, same handles, same forests *)
Theorem logged_erase_thm (l : list (TxnSeq.step hop crop)) t0 :
  Gen.wrel RSerase (fst (TxnSem.m_run PfoxL l (TxnSeq.init (t0, [])))) (fst (TxnSem.m_run Pfox l (TxnSeq.init t0))).
Proof.
  apply (Gen.sim_run (Gen.lwapply tree_apply) cw_fail (Gen.lrread tree_read) cro_out
                     tree_apply cw_fail tree_read cro_out RSerase (fun _ => True) RSerase_ap (fun _ => eq_refl) l (sok_true l)).
  apply Gen.wrel_init. reflexivity.
Qed.

(* every state of a reachable logged world (published, and the private state of every live handle)
   is a well-formed forest holding exactly the fold of its log over the sequential map *)
Theorem logged_inv_thm (l : list (TxnSeq.step hop crop)) : Forall sok l ->
  let wl := fst (TxnSem.m_run PfoxL l (TxnSeq.init (empty_txn, []))) in
  Qlog (wpub wl) /\
  forall h tl sl, nth_error (wtxns wl) h = Some tl -> TxnSeq.t_root tl = Some sl -> Qlog sl.
Proof.
  intros Hl wl.
  pose proof (Gen.sim_run (Gen.lwapply tree_apply) cw_fail (Gen.lrread tree_read) cro_out
                (Gen.lwapply tree_apply) cw_fail (Gen.lrread tree_read) cro_out RSinv hop_ok RSinv_ap (fun _ => eq_refl) l Hl
                (TxnSeq.init (empty_txn, [])) (TxnSeq.init (empty_txn, []))
                (Gen.wrel_init RSinv _ _ (conj eq_refl Qlog_init))) as [Hw _].
  fold wl in Hw. change (fst (TxnSeq.run (Gen.lwapply tree_apply) cw_fail (Gen.lrread tree_read) cro_out l (TxnSeq.init (empty_txn, [])))) with wl in Hw.
  destruct Hw as ((_ & Hp) & _ & Ht). split; [exact Hp|].
  intros h tl sl Hn Hroot. pose proof (Gen.F2_nth _ _ _ Ht h) as H.
  assert (Hn' : nth_error (@TxnSeq.txns (Tree.txn * list hop) wl) h = Some tl) by exact Hn.
  rewrite Hn' in H. destruct H as [_ Hr].
  assert (Hroot' : @TxnSeq.t_root (Tree.txn * list hop) tl = Some sl) by exact Hroot.
  rewrite Hroot' in Hr. cbn in Hr. apply Hr.
Qed.

(* C04 + C02: after ANY history of the lifecycle model (committed, aborted, failing and panicking
   transactions, managed or not, helpers, read-only handles, snapshots), the PUBLISHED forest is well
   formed and its route set is the fold, over the sequential map, of the ghost log of the published
   state — the operations of the committed transactions, see committed_log_* below *)
Theorem C04_C02_committed_fold_thm (l : list (TxnSeq.step hop crop)) : Forall sok l ->
  let w := fst (TxnSem.m_run Pfox l (TxnSeq.init empty_txn)) in
  let wl := fst (TxnSem.m_run PfoxL l (TxnSeq.init (empty_txn, []))) in
  fst (wpub wl) = wpub w /\ WF_txn (wpub w) /\
  Permutation (routes_of_txn (wpub w)) (map flat (map_fold [] (snd (wpub wl)))) /\
  NoDup (map fst (map_fold [] (snd (wpub wl)))).
Proof.
  intros Hl w wl. destruct (logged_erase_thm l empty_txn) as (He & _ & _). fold wl w in He. unfold RSerase in He.
  destruct (logged_inv_thm l Hl) as [[Hw [Hp Hn]] _].
  change (fst (wpub wl) = wpub w) in He. split; [exact He|]. rewrite <- He.
  split; [exact Hw|]. split; [exact Hp|exact Hn].
Qed.

(* ---- what the ghost log of the published state is: C04 at the logged semantics ---- *)
(* Begin; steps that do not end h; Commit: the log is unchanged at every prefix, and the Commit appends,
   in one step, exactly h's own write operations (in order); the forest is the fold of those operations *)
Theorem committed_log_commit_thm (l : list (TxnSem.BStep PfoxL)) (wl : TxnSem.World PfoxL) :
  TxnSem.m_wf PfoxL wl -> wlocked wl = false ->
  let h := List.length (wtxns wl) in
  let w1 := fst (TxnSem.m_begin PfoxL true wl) in
  Forall (fun x => TxnSem.m_not_ending PfoxL h x = true) l ->
  (forall n, wpub (TxnSem.m_bsteps PfoxL (firstn n l) w1) = wpub wl) /\
  snd (wpub (fst (TxnSem.m_commit PfoxL h (TxnSem.m_bsteps PfoxL l w1)))) = snd (wpub wl) ++ TxnSem.m_own_writes PfoxL h l /\
  fst (wpub (fst (TxnSem.m_commit PfoxL h (TxnSem.m_bsteps PfoxL l w1)))) = tree_fold (fst (wpub wl)) (TxnSem.m_own_writes PfoxL h l).
Proof.
  intros Hwf Hu h w1 Hl.
  destruct (TxnSeqProofs.commit_all_at_once_thm (Tree.txn * list hop) hop cwout crop crout
              (Gen.lwapply tree_apply) cw_fail (Gen.lrread tree_read) cro_out l wl Hwf Hu Hl) as (H1 & H2 & _).
  split; [exact H1|].
  change (wpub (fst (TxnSem.m_commit PfoxL h (TxnSem.m_bsteps PfoxL l w1))) =
          TxnSeq.wfold (Gen.lwapply tree_apply) (wpub wl) (TxnSem.m_own_writes PfoxL h l)) in H2.
  rewrite H2. split; [apply Gen.lwfold_log|apply Gen.lwfold_state].
Qed.

Lemma own_writes_ok h (l : list (TxnSeq.bstep hop crop)) : Forall bok l ->
  Forall hop_ok (TxnSeqProofs.own_writes hop crop h l).
Proof.
  induction l as [|x l IH]; intros Hl; [constructor|]. inversion Hl as [|? ? Hx Hl']; subst.
  destruct x; cbn [TxnSeqProofs.own_writes]; auto. destruct (Nat.eqb h0 h); auto.
Qed.

(* ---- one transaction, without the ghost: Begin; any steps that do not end it; then Commit or Abort ---- *)
Theorem C04_C02_txn_fold_thm (w : TxnSem.World Pfox) (s0 : mstate) (l : list (TxnSem.BStep Pfox)) :
  TxnSem.m_wf Pfox w -> wlocked w = false -> WF_txn (wpub w) -> Rel (wpub w) s0 ->
  let h := List.length (wtxns w) in
  let w1 := fst (TxnSem.m_begin Pfox true w) in
  Forall (fun x => TxnSem.m_not_ending Pfox h x = true) l -> Forall bok l ->
  (* nothing is visible before the end *)
  (forall n, wpub (TxnSem.m_bsteps Pfox (firstn n l) w1) = wpub w) /\
  (* Commit publishes a well-formed forest whose route set is the fold of the transaction's own
     operations over the sequential map *)
  (let t' := wpub (fst (TxnSem.m_commit Pfox h (TxnSem.m_bsteps Pfox l w1))) in
   t' = tree_fold (wpub w) (TxnSem.m_own_writes Pfox h l) /\ WF_txn t' /\
   Permutation (routes_of_txn t') (map flat (map_fold s0 (TxnSem.m_own_writes Pfox h l))) /\
   NoDup (map fst (map_fold s0 (TxnSem.m_own_writes Pfox h l)))) /\
  (* Abort publishes nothing: the very same forest, hence the same route set *)
  wpub (fst (TxnSem.m_abort Pfox h (TxnSem.m_bsteps Pfox l w1))) = wpub w.
Proof.
  intros Hwf Hu Hw Hr h w1 Hl Hok.
  destruct (TxnSeqProofs.commit_all_at_once_thm Tree.txn hop cwout crop crout
              tree_apply cw_fail tree_read cro_out l w Hwf Hu Hl) as (H1 & H2 & _).
  split; [exact H1|]. split.
  - intros t'. assert (Et : t' = tree_fold (wpub w) (TxnSem.m_own_writes Pfox h l)) by exact H2.
    split; [exact Et|]. rewrite Et.
    destruct (fold_refines _ (own_writes_ok h l Hok) (wpub w) s0 Hw Hr) as [Hw' [Hp Hn]]. auto.
  - unfold TxnSem.m_abort.
    rewrite (TxnSeqProofs.abort_pub Tree.txn cwout crout).
    specialize (H1 (List.length l)). rewrite firstn_all in H1. exact H1.
Qed.

(* Updates(fn) ending with an error or a panic (after any prefix of any body), and a failing helper:
   the published forest is THE SAME, so every read of the router answers as before *)
Theorem abort_error_panic_same_reads_thm :
  (forall (b : list (TxnSem.BStep Pfox)) (e : TxnSeq.ending) (w : TxnSem.World Pfox),
      TxnSem.m_wf Pfox w -> wlocked w = false ->
      Forall (fun x => TxnSem.m_quiet Pfox (List.length (wtxns w)) x = true) b ->
      e <> TxnSeq.RetNil \/ snd (TxnSem.m_body Pfox b (fst (TxnSem.m_begin Pfox true w))) = true ->
      routes_of_txn (wpub (fst (TxnSem.m_managed Pfox true b e w))) = routes_of_txn (wpub w) /\
      forall r, tree_read (wpub (fst (TxnSem.m_managed Pfox true b e w))) r = tree_read (wpub w) r) /\
  (forall (o : hop) (w : TxnSem.World Pfox), cw_fail (snd (tree_apply (wpub w) o)) = true ->
      routes_of_txn (wpub (fst (TxnSem.m_single Pfox o w))) = routes_of_txn (wpub w) /\
      forall r, tree_read (wpub (fst (TxnSem.m_single Pfox o w))) r = tree_read (wpub w) r).
Proof.
  destruct (TxnSeqProofs.abort_error_panic_invisible_thm Tree.txn hop cwout crop crout
              tree_apply cw_fail tree_read cro_out) as (_ & H2 & H3 & _).
  split.
  - intros b e w Hwf Hu Hq He. pose proof (H2 b e w Hwf Hu Hq He) as E.
    change (wpub (fst (TxnSem.m_managed Pfox true b e w)) = wpub w) in E. rewrite E. auto.
  - intros o w Hf. pose proof (H3 o w Hf) as E.
    change (wpub (fst (TxnSem.m_single Pfox o w)) = wpub w) in E. rewrite E. auto.
Qed.

(* ================================================================== *)
(* Part 4 — non-vacuity: a concrete history of the lifecycle model       *)
(* ================================================================== *)
Module Ex.
Import TxnSeq.
Local Open Scope string_scope.

Ltac prove_bok := cbn; try exact I; apply hop_okb_ok; vm_compute; reflexivity.
Ltac prove_boks := repeat (apply Forall_cons; [prove_bok|]); apply Forall_nil.

(* handles: 0 helper, 1 Updates (error), 2 explicit write txn (the second Begin blocks), 3 snapshot of 2,
   4 Updates (panic after its txn was used; an unknown handle in between), 5 failing helper (conflict) *)
Definition ex_steps : list (step hop crop) :=
  [ Plain (Single (mkop KHandle "GET" "/a" 1 []));
    Updates [TWrite 1 (mkop KHandle "GET" "/b/{x}" 2 []); TRead 1 RAll] RetErr;
    Plain (Begin true);
    Plain (TWrite 2 (mkop KHandle "GET" "x.com/{p}" 3 []));
    Plain (TWrite 2 (mkop KDelete "GET" "/a" 0 []));
    Plain (Begin true);
    Plain (TSnapshot 2);
    Plain (TWrite 3 (mkop KHandle "GET" "/ro" 9 []));
    Plain (TCommit 2);
    Updates [TWrite 4 (mkop KHandle "POST" "/c" 4 []); TCommit 9; TWrite 4 (mkop KUpdate "POST" "/c" 5 [])] PanicV;
    Plain (Single (mkop KHandle "GET" "x.com/{q}" 6 [])) ].

Example ex_steps_ok : Forall sok ex_steps.
Proof.
  unfold ex_steps. repeat (apply Forall_cons; [first [prove_bok|cbn; prove_boks]|]). apply Forall_nil.
Qed.

Notation ex_w := (fst (TxnSem.m_run Pfox ex_steps (init empty_txn))).
Notation ex_wl := (fst (TxnSem.m_run PfoxL ex_steps (init (empty_txn, [])))).

(* what the run does: only the helper and the explicit transaction are published; the committed log
   holds exactly their operations; the observations show the blocked Begin, ErrReadOnlyTxn on the
   snapshot, the error / panic endings and the conflict of the last helper *)
Example ex_run_values :
  all_of (pub ex_w) = [(S2B "GET", S2B "x.com/{p}", 3%N)] /\
  map h_pat (snd (pub ex_wl)) = [S2B "/a"; S2B "x.com/{p}"; S2B "/a"] /\
  map_fold [] (snd (pub ex_wl)) = [((S2B "GET", S2B "x.com/{p}"), 3%N)] /\
  locked ex_w = false /\
  map (@t_root _) (txns ex_w) = [None; None; None; Some (pub ex_w); None; None] /\
  snd (TxnSem.m_run Pfox ex_steps (init empty_txn)) =
    [ [OW (WDone OutOk None)];
      [OW (WDone OutOk None); OR (VAll [(S2B "GET", S2B "/a", 1%N); (S2B "GET", S2B "/b/{x}", 2%N)]); OFinErr];
      [OHandle 2]; [OW (WDone OutOk None)]; [OW (WDone OutOk (Some 1%N))]; [OBlocked]; [OHandle 3];
      [OW WReadOnly]; [OUnit];
      [OW (WDone OutOk None); ONoHandle; OW (WDone OutOk None); OFinPanicV];
      [OW (WDone (OutConflict [S2B "x.com/{p}"]) None)] ].
Proof. vm_compute. repeat split. Qed.

Example C04_C02_committed_fold_ex :
  fst (pub ex_wl) = pub ex_w /\ WF_txn (pub ex_w) /\
  Permutation (routes_of_txn (pub ex_w)) (map flat (map_fold [] (snd (pub ex_wl)))) /\
  NoDup (map fst (map_fold [] (snd (pub ex_wl)))).
Proof. exact (C04_C02_committed_fold_thm ex_steps ex_steps_ok). Qed.

(* one transaction on top of a reachable world *)
Definition ex_pre : list (step hop crop) := [Plain (Single (mkop KHandle "GET" "/a" 1 []))].
Definition ex_body : list (bstep hop crop) :=
  [ TWrite 1 (mkop KHandle "GET" "/b/{x}" 2 []); TRead 1 RAll; RRead RAll; Begin true;
    TWrite 1 (mkop KHandle "GET" "/b/{y}" 3 []); TWrite 1 (mkop KDelete "GET" "/a" 0 []) ].
Notation ex_w0 := (fst (TxnSem.m_run Pfox ex_pre (init empty_txn))).
Notation ex_s0 := (map_fold [] (snd (pub (fst (TxnSem.m_run PfoxL ex_pre (init (empty_txn, []))))))).

Example ex_pre_ok : Forall sok ex_pre.
Proof. unfold ex_pre. repeat (apply Forall_cons; [prove_bok|]). apply Forall_nil. Qed.

Example C04_C02_txn_fold_hyps :
  TxnSem.m_wf Pfox ex_w0 /\ locked ex_w0 = false /\ WF_txn (pub ex_w0) /\ Rel (pub ex_w0) ex_s0 /\
  List.length (txns ex_w0) = 1 /\
  Forall (fun x => TxnSem.m_not_ending Pfox 1 x = true) ex_body /\ Forall bok ex_body.
Proof.
  destruct (C04_C02_committed_fold_thm ex_pre ex_pre_ok) as (_ & Hw & Hp & Hn).
  split; [vm_compute; reflexivity|]. split; [vm_compute; reflexivity|]. split; [exact Hw|].
  split; [exact (conj Hp Hn)|]. split; [vm_compute; reflexivity|].
  split; [unfold ex_body; repeat (apply Forall_cons; [reflexivity|]); apply Forall_nil|].
  unfold ex_body. prove_boks.
Qed.

Example C04_C02_txn_fold_values :
  let w1 := fst (TxnSem.m_begin Pfox true ex_w0) in
  ex_s0 = [((S2B "GET", S2B "/a"), 1%N)] /\
  TxnSem.m_own_writes Pfox 1 ex_body =
    [mkop KHandle "GET" "/b/{x}" 2 []; mkop KHandle "GET" "/b/{y}" 3 []; mkop KDelete "GET" "/a" 0 []] /\
  map_fold ex_s0 (TxnSem.m_own_writes Pfox 1 ex_body) = [((S2B "GET", S2B "/b/{x}"), 2%N)] /\
  all_of (pub (TxnSem.m_bsteps Pfox ex_body w1)) = [(S2B "GET", S2B "/a", 1%N)] /\
  all_of (pub (fst (TxnSem.m_commit Pfox 1 (TxnSem.m_bsteps Pfox ex_body w1)))) = [(S2B "GET", S2B "/b/{x}", 2%N)] /\
  all_of (pub (fst (TxnSem.m_abort Pfox 1 (TxnSem.m_bsteps Pfox ex_body w1)))) = [(S2B "GET", S2B "/a", 1%N)].
Proof. vm_compute. repeat split. Qed.
End Ex.
