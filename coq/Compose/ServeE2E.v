(* ServeE2E — the whole ServeHTTP, with the matcher no longer a parameter.

   FoxDispatch.Dispatch.serve_http models Router.ServeHTTP over an ARBITRARY function
   [lookup : method -> option (R * tsr)] and an arbitrary [cleanfn]; its theorem dispatch_correct
   (C11 + dispatch half of C08) assumes roots_cover / has_routes_def / cleanfn_correct.
   Here it is instantiated with
     lookup  := Route's matcher roots_lookup_g on the forest reached by a history   (route_lookup)
     roots   := the (method key, len(children) > 0) view of that forest             (disp_roots)
     cleanfn := C17's model of CleanPath                                            (cleanfn)
     R       := (method, pattern), the key of the sequential map (MapSpec.mkey)
   and the three hypotheses are PROVED (from WF_txn, Rel and C17.cleanpath_correct).  The resulting
   dispatch is then shown to be what DispatchSpec.dispatch_spec prescribes when the specification's
   lookup is Spec.spec_lookup_g on the REGISTERED SET (the sequential map), i.e. C11/C08 with
   C01/C08-detection/C02/C10/C17 composed in. *)
From FoxBase Require Import Bytes.
From FoxC17 Require Model Spec ProofsModel.
From FoxRoute Require Import Node Lookup Spec SpecFacts Tree MapSpec Corr CorrHist WFDef TreeWF TreeMap TreeMap2
  StaticEquiv StaticEquiv2 EndToEnd EndToEnd2 TsrEquiv TsrEquiv2 Guard LazyProofs2.
From FoxDispatch Require Import Dispatch DispatchSpec DispatchProofs.
From FoxCompose Require Import ParserBridge TsrE2E.
From Coq Require Import Permutation.
Open Scope char_scope.

(* ------------------------------------------------------------------ *)
(* the instantiation                                                    *)
(* ------------------------------------------------------------------ *)
(* what ServeHTTP reads off a lookup result: the route of the node and the tsr flag *)
Definition lres_route (m : bytes) (r : lres) : option (mkey * bool) :=
  match r with
  | Found (Some n) tsr _ _ => match nroute n with Some rt => Some ((m, rpat rt), tsr) | None => None end
  | _ => None
  end.
Definition lres_params (r : lres) : list kv := match r with Found _ _ ps _ => ps | _ => [] end.
Definition lres_tsr_params (r : lres) : list kv := match r with Found _ _ _ tps => tps | _ => [] end.

(* tree.lookup(m, host, path, c, lazy=true): the matcher, as the Allow loops call it *)
Definition route_lookup (fuel : nat) (r : roots) (host path : bytes) : bytes -> option (mkey * bool) :=
  fun m => lres_route m (roots_lookup_g fuel r m host path true [] []).

(* the first, non-lazy lookup of ServeHTTP and the parameter slices it leaves in the context *)
Definition first_lookup (fuel : nat) (r : roots) (m host path : bytes) : lres :=
  roots_lookup_g fuel r m host path false [] [].

(* tree.root as ServeHTTP's Allow loops see it *)
Definition disp_roots (t : txn) : list Dispatch.root :=
  map (fun root => (nkey root, negb (Tree.is_nil (nchildren root)))) (t_roots t).

Definition cleanfn (p : bytes) : cres :=
  match FoxC17.Model.cleanpath p with
  | FoxC17.Model.Ok o => COk o | FoxC17.Model.Panic => CPanic | FoxC17.Model.OutOfFuel => CFuel
  end.

(* closed-form fuel: enough for every method root *)
Definition root_fuel (path : bytes) (root : node) : nat :=
  match nchildren root with c0 :: _ => m2_fuel path c0 | [] => 0 end.
Definition serve_fuel (path : bytes) (r : roots) : nat := list_max (map (root_fuel path) r).

(* ---- specification side: everything read off the sequential map ---- *)
Definition sres_route (m : bytes) (s : sres) : option (mkey * bool) :=
  match s with SNone => None | SDirect p _ => Some ((m, p), false) | STsr p _ => Some ((m, p), true) end.
Definition sres_params (s : sres) : list (bytes * bytes) :=
  match s with SNone => [] | SDirect _ ps | STsr _ ps => ps end.

Definition spec_route_lookup (s : mstate) (host path : bytes) : bytes -> option (mkey * bool) :=
  fun m => sres_route m (spec_lookup_g (reg_patterns s m) host path).
Definition spec_params (s : mstate) (m host path : bytes) : list (bytes * bytes) :=
  sres_params (spec_lookup_g (reg_patterns s m) host path).
Definition map_has_routes (s : mstate) (m : bytes) : bool := negb (Spec.is_nil (reg_patterns s m)).

(* every registered route is a path pattern (hostname methods: C09, outside this theorem) *)
Definition all_path_only (s : mstate) : Prop := forall m, path_only (reg_patterns s m).

(* ------------------------------------------------------------------ *)
(* dispatch_spec depends on the lookup function only through its values *)
(* ------------------------------------------------------------------ *)
Section Ext.
  Context {R : Type}.
  Variable ign red : R -> bool.
  Variable clean : bytes -> bytes.
  Variable opts : options.
  Variable hr : bytes -> bool.
  Variable lk1 lk2 : bytes -> option (R * bool).
  Hypothesis Hlk : forall m, lk1 m = lk2 m.

  Lemma serves_ext m : serves ign lk1 m <-> serves ign lk2 m.
  Proof. unfold serves. rewrite (Hlk m). reflexivity. Qed.

  Lemma options_set_ext rq m : options_set ign hr lk1 rq m <-> options_set ign hr lk2 rq m.
  Proof. unfold options_set. pose proof (serves_ext m). tauto. Qed.

  Lemma other_set_ext rq m : other_set ign lk1 rq m <-> other_set ign lk2 rq m.
  Proof. unfold other_set. pose proof (serves_ext m). tauto. Qed.

  Lemma unserved_spec_ext rq o : unserved_spec ign opts hr lk1 rq o -> unserved_spec ign opts hr lk2 rq o.
  Proof.
    unfold unserved_spec. intros [H1 [H2 H3]]. split; [|split; [|exact H3]].
    - intros Ha. destruct (H1 Ha) as [Hx Hy]. split.
      + intros [m Hm]. apply options_set_ext in Hm.
        destruct (Hx (ex_intro _ m Hm)) as (A & B & l & El & Hl). split; [exact A|]. split; [exact B|].
        exists l. split; [exact El|]. intros m'. specialize (Hl m'). pose proof (options_set_ext rq m'). tauto.
      + intros Hn. apply Hy. intros m Hm. apply (Hn m). apply options_set_ext. exact Hm.
    - intros Ha Hb. destruct (H2 Ha Hb) as [Hx Hy]. split.
      + intros [m Hm]. apply other_set_ext in Hm.
        destruct (Hx (ex_intro _ m Hm)) as (A & B & l & El & Hl). split; [exact A|]. split; [exact B|].
        exists l. split; [exact El|]. intros m'. specialize (Hl m'). pose proof (other_set_ext rq m'). tauto.
      + intros Hn. apply Hy. intros m Hm. apply (Hn m). apply other_set_ext. exact Hm.
  Qed.

  Lemma dispatch_spec_ext rq mp1 mp2 o : (lk1 (r_method rq) <> None -> mp1 = mp2) ->
    dispatch_spec ign red clean opts hr lk1 rq mp1 o -> dispatch_spec ign red clean opts hr lk2 rq mp2 o.
  Proof.
    unfold dispatch_spec. rewrite <- (Hlk (r_method rq)). intros Hmp.
    destruct (lk1 (r_method rq)) as [[r [|]]|].
    - rewrite <- (Hmp ltac:(discriminate)). intros (A & B & C). split; [exact A|]. split; [exact B|].
      intros Hc. apply unserved_spec_ext. apply C. exact Hc.
    - rewrite <- (Hmp ltac:(discriminate)). exact (fun H => H).
    - apply unserved_spec_ext.
  Qed.
End Ext.

(* ------------------------------------------------------------------ *)
(* facts about the real roots list                                      *)
(* ------------------------------------------------------------------ *)
Lemma proj_lres_route m a b : proj a = proj b -> lres_route m a = lres_route m b.
Proof. destruct a, b; cbn; intros H; try discriminate H; try reflexivity. injection H as -> ->. reflexivity. Qed.

Lemma route_lookup_first fuel r host path m :
  route_lookup fuel r host path m = lres_route m (first_lookup fuel r m host path).
Proof. unfold route_lookup, first_lookup, roots_lookup_g. apply proj_lres_route. apply roots_lookup_lazy_irrelevant. Qed.

Lemma lres_sres_route m r x : lres_sres r = Some x -> lres_route m r = sres_route m x.
Proof.
  destruct r as [[n|] tsr pss tpss| |]; cbn; try discriminate.
  - destruct (nroute n) as [rt|]; [|discriminate]. destruct tsr; intros [= <-]; reflexivity.
  - intros [= <-]. reflexivity.
Qed.

Lemma lres_sres_params r x : lres_sres r = Some x -> lres_route [] r <> None ->
  (if match lres_route [] r with Some (_, true) => true | _ => false end then lres_tsr_params r else lres_params r)
  = sres_params x.
Proof.
  destruct r as [[n|] tsr pss tpss| |]; cbn; try discriminate; try congruence.
  destruct (nroute n) as [rt|]; [|discriminate]. destruct tsr; intros [= <-] _; reflexivity.
Qed.

Lemma map_fst_disp_roots t : map fst (disp_roots t) = map nkey (t_roots t).
Proof. unfold disp_roots. rewrite map_map. reflexivity. Qed.

(* the matcher finds routes only under existing roots *)
Lemma WF_roots_cover t fuel host path : WF_txn t -> roots_cover (disp_roots t) (route_lookup fuel (t_roots t) host path).
Proof.
  intros Hwf m Hne. rewrite map_fst_disp_roots. unfold route_lookup, roots_lookup_g, roots_lookup in Hne.
  destruct (method_index (t_roots t) m) as [i|] eqn:Ei; [|exfalso; apply Hne; reflexivity].
  destruct (WF_method_index_nth t m i Hwf Ei) as (root & _ & Hk & Hin). rewrite <- Hk. apply in_map. exact Hin.
Qed.

Lemma WF_root_children_routes root : WF_root root -> (nchildren root <> [] <-> rlist root <> []).
Proof.
  intros (Hr & _ & Hf). rewrite (rlist_root_children root Hr). destruct (nchildren root) as [|c ch]; [simpl; tauto|].
  split; [|intros _; discriminate]. intros _ E. inversion Hf as [|? ? Hc _]; subst.
  apply (WF_rlist_nonempty c [] Hc). simpl in E. apply app_eq_nil in E. apply E.
Qed.

(* "m has routes", read off tree.root, is "the map holds a route for m" *)
Lemma WF_has_routes_def t s : WF_txn t -> Rel t s -> has_routes_def (disp_roots t) (map_has_routes s).
Proof.
  intros Hwf Hrel m. pose proof Hwf as [(_ & _ & Hnd & Hroots) _]. rewrite Forall_forall in Hroots.
  unfold map_has_routes, disp_roots. rewrite in_map_iff. split.
  - intros Hne. destruct (reg_patterns s m) as [|p ps] eqn:Ep; [discriminate|].
    assert (Hp : In p (mpats t m)).
    { apply (mpats_rel t s m p Hrel). apply reg_patterns_in. rewrite Ep. left. reflexivity. }
    apply mpats_in in Hp. destruct Hp as [id Hp]. unfold routes_of_txn in Hp. apply in_flat_map in Hp.
    destruct Hp as (root & Hin & Hp). unfold routes_of_root in Hp. apply in_map_iff in Hp.
    destruct Hp as (rt & E & Hrt). injection E as Ek _ _. exists root. split; [|exact Hin].
    rewrite Ek. f_equal. assert (Hc : nchildren root <> []).
    { apply (WF_root_children_routes root (Hroots root Hin)). intros E. rewrite E in Hrt. destruct Hrt. }
    destruct (nchildren root); [contradiction|reflexivity].
  - intros (root & E & Hin). injection E as Ek Ec.
    assert (Hc : rlist root <> []).
    { apply (WF_root_children_routes root (Hroots root Hin)). intros E. rewrite E in Ec. discriminate. }
    destruct (rlist root) as [|rt rts] eqn:Erl; [contradiction|].
    destruct (in_split root (t_roots t) Hin) as (l1 & l2 & El).
    assert (Hp : In (rpat rt) (mpats t m)).
    { rewrite <- Ek, (mpats_root t l1 root l2 El Hnd), Erl. left. reflexivity. }
    apply (mpats_rel t s m _ Hrel) in Hp. apply reg_patterns_in in Hp.
    destruct (reg_patterns s m); [destruct Hp|reflexivity].
Qed.

Lemma cleanfn_is_correct : cleanfn_correct cleanfn FoxC17.Spec.clean_spec.
Proof. intros p. unfold cleanfn. rewrite FoxC17.ProofsModel.cleanpath_correct. reflexivity. Qed.

Lemma e2e_fuel_le_serve path r m : e2e_fuel path r m <= serve_fuel path r.
Proof.
  unfold e2e_fuel, serve_fuel. destruct (method_root r m) as [root|] eqn:Er; [|lia].
  assert (Hin : In root r).
  { unfold method_root in Er. destruct (method_index r m) as [i|]; [|discriminate]. eapply nth_error_In; eauto. }
  pose proof (proj1 (list_max_le (map (root_fuel path) r) _) (le_n _)) as Hf. rewrite Forall_forall in Hf.
  apply (Hf (root_fuel path root)). apply in_map. exact Hin.
Qed.

(* ------------------------------------------------------------------ *)
(* tree level: every well-formed forest related to a map                 *)
(* ------------------------------------------------------------------ *)
Section Serve.
  Variable ign red : mkey -> bool.      (* per-route options, keyed like the map *)
  Variable opts : options.

  Theorem WF_serve_eq_spec t s (rq : request) host c0 fuel :
    WF_txn t -> Rel t s -> all_path_only s ->
    req_path rq <> [] -> reqpath_ok (req_path rq) ->
    serve_fuel (req_path rq) (t_roots t) <= fuel ->
    let first := first_lookup fuel (t_roots t) (r_method rq) host (req_path rq) in
    exists o,
      serve_http ign red cleanfn opts (disp_roots t) (route_lookup fuel (t_roots t) host (req_path rq))
                 rq c0 (lres_params first) (lres_tsr_params first) = Done o /\
      dispatch_spec ign red FoxC17.Spec.clean_spec opts (map_has_routes s)
                    (spec_route_lookup s host (req_path rq)) rq
                    (spec_params s (r_method rq) host (req_path rq)) (observe o).
  Proof.
    intros Hwf Hrel Hpo Hne Hok Hfuel first. set (path := req_path rq) in *.
    assert (Heq : forall m, lres_sres (first_lookup fuel (t_roots t) m host path) =
                            Some (spec_lookup_g (reg_patterns s m) host path)).
    { intros m. unfold first_lookup, spec_lookup_g. rewrite <- (Rel_spec_lookup t s m _ path Hwf Hrel).
      apply WF_tsr_eq_Spec_g; auto.
      - intros p Hp. apply (Hpo m). apply (Rel_patterns t s m Hwf Hrel). exact Hp.
      - pose proof (e2e_fuel_le_serve path (t_roots t) m). lia. }
    assert (Hlk : forall m, route_lookup fuel (t_roots t) host path m = spec_route_lookup s host path m).
    { intros m. rewrite route_lookup_first. apply lres_sres_route. apply Heq. }
    destruct (dispatch_correct ign red cleanfn opts (disp_roots t) (route_lookup fuel (t_roots t) host path)
                (map_has_routes s) FoxC17.Spec.clean_spec
                (WF_roots_cover t fuel host path Hwf) (WF_has_routes_def t s Hwf Hrel) cleanfn_is_correct
                rq c0 (lres_params first) (lres_tsr_params first)) as [o [Hs Hd]].
    exists o. split; [exact Hs|].
    eapply dispatch_spec_ext; [exact Hlk| |exact Hd].
    intros Hsome. unfold match_params_of, spec_params. rewrite route_lookup_first in *. fold first in Hsome |- *.
    pose proof (Heq (r_method rq)) as H. fold first in H.
    rewrite <- (lres_sres_params first _ H).
    - destruct first as [[n|] tsr pss tpss| |]; cbn in *; try congruence.
      destruct (nroute n); [|congruence]. destruct tsr; reflexivity.
    - destruct first as [[n|] tsr pss tpss| |]; cbn in *; try congruence.
      destruct (nroute n); [discriminate|congruence].
  Qed.

  (* ---------------------------------------------------------------- *)
  (* every history                                                     *)
  (* ---------------------------------------------------------------- *)
  Theorem serve_end_to_end_thm ops : Forall hop_ok ops ->
    forall (rq : request) host c0 fuel,
    all_path_only (final_map ops) ->
    req_path rq <> [] -> reqpath_ok (req_path rq) ->
    serve_fuel (req_path rq) (t_roots (final_txn ops)) <= fuel ->
    let first := first_lookup fuel (t_roots (final_txn ops)) (r_method rq) host (req_path rq) in
    exists o,
      serve_http ign red cleanfn opts (disp_roots (final_txn ops))
                 (route_lookup fuel (t_roots (final_txn ops)) host (req_path rq))
                 rq c0 (lres_params first) (lres_tsr_params first) = Done o /\
      dispatch_spec ign red FoxC17.Spec.clean_spec opts (map_has_routes (final_map ops))
                    (spec_route_lookup (final_map ops) host (req_path rq)) rq
                    (spec_params (final_map ops) (r_method rq) host (req_path rq)) (observe o).
  Proof.
    intros Hok rq host c0 fuel Hpo Hne Hokp Hfuel. destruct (final_rel ops Hok) as [Hwf Hrel].
    apply WF_serve_eq_spec; auto.
  Qed.

  (* oracle-free: validity / psLen / hostSplit of every step are parseRoute's results *)
  Theorem serve_end_to_end_parser_thm mp mk ops : Forall (hop_parsed mp mk) ops ->
    forall (rq : request) host c0 fuel,
    all_path_only (final_map ops) ->
    req_path rq <> [] -> reqpath_ok (req_path rq) ->
    serve_fuel (req_path rq) (t_roots (final_txn ops)) <= fuel ->
    let first := first_lookup fuel (t_roots (final_txn ops)) (r_method rq) host (req_path rq) in
    exists o,
      serve_http ign red cleanfn opts (disp_roots (final_txn ops))
                 (route_lookup fuel (t_roots (final_txn ops)) host (req_path rq))
                 rq c0 (lres_params first) (lres_tsr_params first) = Done o /\
      dispatch_spec ign red FoxC17.Spec.clean_spec opts (map_has_routes (final_map ops))
                    (spec_route_lookup (final_map ops) host (req_path rq)) rq
                    (spec_params (final_map ops) (r_method rq) host (req_path rq)) (observe o).
  Proof. intros H. apply serve_end_to_end_thm. eapply hops_parsed_ok. exact H. Qed.

  (* no hypothesis on the steps at all: API requests validated by parseRoute itself *)
  Theorem serve_end_to_end_closed_thm mp mk qs :
    let ops := map (parsed_hop mp mk) qs in
    forall (rq : request) host c0 fuel,
    all_path_only (final_map ops) ->
    req_path rq <> [] -> reqpath_ok (req_path rq) ->
    serve_fuel (req_path rq) (t_roots (final_txn ops)) <= fuel ->
    let first := first_lookup fuel (t_roots (final_txn ops)) (r_method rq) host (req_path rq) in
    exists o,
      serve_http ign red cleanfn opts (disp_roots (final_txn ops))
                 (route_lookup fuel (t_roots (final_txn ops)) host (req_path rq))
                 rq c0 (lres_params first) (lres_tsr_params first) = Done o /\
      dispatch_spec ign red FoxC17.Spec.clean_spec opts (map_has_routes (final_map ops))
                    (spec_route_lookup (final_map ops) host (req_path rq)) rq
                    (spec_params (final_map ops) (r_method rq) host (req_path rq)) (observe o).
  Proof. intros ops. apply (serve_end_to_end_parser_thm mp mk). apply parsed_hops_parsed. Qed.
End Serve.

(* the full statement: no restriction to path-only sets, nor on the request path *)
Definition serve_end_to_end_statement : Prop :=
  forall (ign red : mkey -> bool) opts mp mk qs (rq : request) host c0,
  let ops := map (parsed_hop mp mk) qs in
  exists fuel0, forall fuel, fuel0 <= fuel ->
  let first := first_lookup fuel (t_roots (final_txn ops)) (r_method rq) host (req_path rq) in
  exists o,
    serve_http ign red cleanfn opts (disp_roots (final_txn ops))
               (route_lookup fuel (t_roots (final_txn ops)) host (req_path rq))
               rq c0 (lres_params first) (lres_tsr_params first) = Done o /\
    dispatch_spec ign red FoxC17.Spec.clean_spec opts (map_has_routes (final_map ops))
                  (spec_route_lookup (final_map ops) host (req_path rq)) rq
                  (spec_params (final_map ops) (r_method rq) host (req_path rq)) (observe o).

(* evaluable form of the side condition on the registered set *)
Lemma all_path_only_b (s : mstate) :
  forallb (fun e : mkey * N => is_path_pattern (snd (fst e))) s = true -> all_path_only s.
Proof.
  intros H m p Hp. unfold reg_patterns in Hp. apply in_map_iff in Hp. destruct Hp as (e & <- & He).
  apply filter_In in He. rewrite forallb_forall in H. apply H. apply He.
Qed.
