(* Serve2 — the whole ServeHTTP for ALL route sets (hostname routes included).

   ServeE2E.serve_end_to_end composes Dispatch.serve_http with Route's matcher under the restriction
   that every registered route is a path pattern (it rests on C08_end_to_end).  p-host2 has since
   proved C09_end_to_end (HostEquiv4): for every WF forest, EVERY method, every Host, every non-empty
   request path with pathok / okpath, roots_lookup_g = spec_lookup_g (direct / tsr / none).
   Here the composition is redone on top of it, and the one request path ServeHTTP sees that does not
   start with '/' — the "*" of `OPTIONS *` — is covered by a separate argument (Part A/B: for a
   one-byte path other than "/" both the matcher and S answer "nothing", hostname routes or not).

   Note (domain of S): for a LONGER path that does not start with '/', S in hostname mode is not
   meaningful (it matches host ++ path: pattern "ab/", Host "a", path "b/" is a direct match for S and
   nothing for the matcher; Example below) — net/http never produces such a path; pathok excludes it. *)
From FoxBase Require Import Bytes.
From FoxC17 Require Model Spec ProofsModel.
From FoxRoute Require Import Node Lookup HostPort Spec SpecFacts Tree MapSpec Corr CorrHist WFDef TreeWF TreeMap TreeMap2
  StaticEquiv StaticEquiv2 EndToEnd EndToEnd2 TsrEquiv TsrEquiv2 Guard LazyProofs2
  HostEquiv HostEquiv2 HostEquiv3 HostEquiv4.
From FoxDispatch Require Import Dispatch DispatchSpec DispatchProofs.
From FoxCompose Require Import ParserBridge TsrE2E ServeE2E.
From Coq Require Import Permutation Lia.
Open Scope char_scope.

(* ================================================================== *)
(* Part A — the matcher on a path that does not start with '/'          *)
(* ================================================================== *)
Lemma kht_none K : (forall q, K q = TN None) -> forall kt h, kht K kt h = TN None.
Proof.
  intros HK. induction kt as [|t kt IH]; intros h; cbn [kht]; auto.
  destruct h as [|x h']; auto. destruct t as [d|nm|nm]; auto.
  - destruct (Ascii.eqb d x && sbyte x); auto.
  - destruct (seg is_dot (x :: h')); auto. rewrite IH. reflexivity.
Qed.

Lemma m2ht_nonslash sl c r : c <> "/" -> forall n h, m2ht sl (c :: r) n h = TN None.
Proof.
  intros Hc. induction n as [k rr ch IH] using node_ind2. intros h. rewrite m2ht_eq. apply kht_none.
  intros q. unfold Khtof. cbn [nchildren]. destruct q as [|x q'].
  - destruct (first_child "/" ch) as [y|] eqn:E; auto. apply first_child_in in E.
    apply m2t_nonslash; tauto.
  - assert (Hch : forall cc, m2ht_child sl (c :: r) cc ch (x :: q') = TN None).
    { intros cc. unfold m2ht_child. destruct (first_child cc ch) as [y|] eqn:E; auto.
      apply first_child_in in E. rewrite Forall_forall in IH. apply IH. tauto. }
    rewrite !Hch. reflexivity.
Qed.

Lemma m2ht_root_nonslash sl c r root h : c <> "/" -> m2ht_root sl (c :: r) root h = TN None.
Proof.
  intros Hc. unfold m2ht_root. destruct h as [|x h']; auto.
  assert (Hch : forall cc, m2ht_child sl (c :: r) cc (nchildren root) (x :: h') = TN None).
  { intros cc. unfold m2ht_child. destruct (first_child cc (nchildren root)); auto. apply m2ht_nonslash; auto. }
  rewrite !Hch. reflexivity.
Qed.

(* the hostname pass finds nothing and leaves no trailing-slash candidate *)
Lemma lbd_nonslash host c r root fuel : nohslash host -> hroot_ok root -> host <> [] -> c <> "/" ->
  hroot_fuel (c :: r) root <= fuel ->
  exists ps', lookup_by_domain fuel root host (c :: r) false [] [] = Found None false ps' [].
Proof.
  intros Hns Hroot Hne Hc Hf.
  pose proof (lbd_eq_m2ht host (c :: r) root false fuel Hns Hroot Hne ltac:(discriminate) Hf) as H.
  rewrite (m2ht_root_nonslash _ c r root host Hc) in H. exact H.
Qed.

Lemma fallback_nonslash fuel root c r p : hroot_ok root -> c <> "/" ->
  HostEquiv2.root_fuel (c :: r) root <= fuel ->
  lres_sres (path_fallback fuel root (c :: r) false p []) = Some SNone.
Proof.
  intros (Hnd & Hpw & Hsplit) Hc Hf. unfold path_fallback. rewrite get_edge_first.
  rewrite Forall_forall in Hpw.
  destruct (first_child "/" (nchildren root)) as [x|] eqn:Ex; [|reflexivity].
  apply first_child_in in Ex. destruct Ex as [Hin Hsl].
  apply lbp_nonslash; auto.
  unfold m2_fuel. unfold HostEquiv2.root_fuel in Hf. pose proof (pcost_in (List.length (c :: r)) x _ Hin). lia.
Qed.

Lemma WF_lookup_nonslash t m host c r fuel : WF_txn t -> c <> "/" ->
  e2e_fuel_h (c :: r) (t_roots t) m <= fuel ->
  lres_sres (roots_lookup_g fuel (t_roots t) m host (c :: r) false [] []) = Some SNone.
Proof.
  intros Hwf Hc Hfuel.
  pose proof Hwf as [(H4 & _ & _ & _) _].
  assert (firstn 4 (map nkey (t_roots t)) = common_verbs) as H4' by (rewrite firstn_map; exact H4).
  unfold e2e_fuel_h, method_root in Hfuel. unfold roots_lookup_g.
  assert (Hns : nohslash (host_guard host)).
  { apply nohslashb_sound. unfold nohslashb. rewrite host_guard_noslash. reflexivity. }
  remember (host_guard host) as g eqn:Eg. clear Eg host.
  destruct (method_index (t_roots t) m) as [i|] eqn:Ei.
  - destruct (method_index_some _ _ _ H4' Ei) as (l1 & root & l2 & E & Hi & _ & _).
    assert (Hn : nth_error (t_roots t) i = Some root) by (rewrite E, Hi; apply nth_error_app_mid).
    rewrite Hn in Hfuel.
    assert (Hin : In root (t_roots t)) by (eapply nth_error_In; eauto).
    destruct (WF_hroot_ok_thm t root Hwf Hin) as [Hroot Hr].
    pose proof (root_fuel_hroot (c :: r) root) as Hhf.
    destruct (nchildren root) as [|c0 rest] eqn:Ech.
    + unfold roots_lookup. rewrite Ei, Hn, Ech. reflexivity.
    + destruct (shortcut root) eqn:Esc.
      * unfold shortcut in Esc. rewrite Ech in Esc. destruct rest as [|c1 rest]; [|discriminate].
        rewrite (roots_lookup_shortcut fuel (t_roots t) m i root c0 g (c :: r) false [] [] Ei Hn Ech Esc).
        apply lbp_nonslash; auto.
        -- destruct Hroot as (_ & Hpw & _). rewrite Ech in Hpw. inversion Hpw; subst; assumption.
        -- pose proof (root_fuel_single (c :: r) root c0 Ech). lia.
      * assert (Hne : nchildren root <> []) by (rewrite Ech; discriminate).
        destruct g as [|h0 g'].
        -- rewrite (roots_lookup_nohost fuel (t_roots t) m i root (c :: r) false [] [] Ei Hn Hne Esc).
           apply fallback_nonslash; auto.
        -- rewrite (roots_lookup_hostpass fuel (t_roots t) m i root (h0 :: g') (c :: r) false [] [] Ei Hn Hne Esc ltac:(discriminate)).
           destruct (lbd_nonslash (h0 :: g') c r root fuel Hns Hroot ltac:(discriminate) Hc ltac:(lia)) as [ps' ->].
           apply fallback_nonslash; auto.
  - unfold roots_lookup. rewrite Ei. reflexivity.
Qed.

(* ================================================================== *)
(* Part B — the specification on a ONE-BYTE path other than "/"          *)
(* ================================================================== *)
(* a token list of a hostname pattern seen from inside the host: a literal '/' lies ahead, before it
   only literals other than '/' and parameters *)
Fixpoint hform (ts : list token) : bool :=
  match ts with
  | [] => false
  | TStatic d :: t => if Ascii.eqb d "/" then true else hform t
  | TParam _ :: t => hform t
  | TCatch _ :: _ => false
  end.

Definition allh (cs : list cand) : Prop := forall k, In k cs -> hform (toks k) = true.

Lemma allh_static x cs : x <> "/" -> allh cs -> allh (adv_static x cs).
Proof.
  intros Hx H k Hk. unfold adv_static in Hk. apply in_flat_map in Hk. destruct Hk as (k0 & Hin & Hk).
  specialize (H k0 Hin). destruct (toks k0) as [|[d|nm|nm] t]; try (destruct Hk; fail).
  destruct (Ascii.eqb_spec x d) as [<-|_]; [|destruct Hk]. destruct Hk as [<-|[]]. cbn [toks].
  cbn [hform] in H. destruct (Ascii.eqb_spec x "/"); [congruence|exact H].
Qed.

Lemma allh_param cs : allh cs -> allh (adv_param cs).
Proof.
  intros H k Hk. unfold adv_param in Hk. apply in_flat_map in Hk. destruct Hk as (k0 & Hin & Hk).
  specialize (H k0 Hin). destruct (toks k0) as [|[d|nm|nm] t]; try (destruct Hk; fail).
  destruct Hk as [<-|[]]. exact H.
Qed.

Lemma allh_catch cs : allh cs -> adv_catch cs = [].
Proof.
  intros H. unfold adv_catch. induction cs as [|k cs IH]; [reflexivity|]. cbn [flat_map].
  rewrite IH by (intros k' Hk'; apply H; right; exact Hk').
  pose proof (H k (or_introl eq_refl)) as Hk. destruct (toks k) as [|[d|nm|nm] t]; try reflexivity. discriminate Hk.
Qed.

Lemma leaf_allh cs : allh cs -> leaf cs = None.
Proof.
  intros H. unfold leaf.
  assert (filter (fun k => match toks k with [] => true | _ => false end) cs = []) as ->; [|reflexivity].
  apply filter_none. intros k Hk. specialize (H k Hk). destruct (toks k); [discriminate H|reflexivity].
Qed.

Lemma select_nil_allh fuel cs hr vals : allh cs -> select fuel cs [] hr vals = None.
Proof. intros H. destruct fuel as [|fuel]; [reflexivity|]. cbn [select]. rewrite (leaf_allh cs H). reflexivity. Qed.

Lemma orelse_none {A} (x : option A) y : x = None -> orelse x y = y tt.
Proof. intros ->. reflexivity. Qed.

Lemma select_S fuel cs c r host_rem vals :
  select (S fuel) cs (c :: r) host_rem vals =
    orelse (if Ascii.eqb c "{" || Ascii.eqb c "*" then None
            else match adv_static c cs with
                 | [] => None
                 | cs' => select fuel cs' r (pred host_rem) vals end)
    (fun _ =>
    orelse (match adv_param cs with
            | [] => None
            | cs' =>
                let v := if negb (Nat.eqb host_rem 0) then seg (fun x => Ascii.eqb x ".") (firstn host_rem (c :: r))
                         else seg (fun x => Ascii.eqb x "/") (c :: r) in
                match v with
                | [] => None
                | _ => select fuel cs' (skipn (List.length v) (c :: r)) (host_rem - List.length v) (v :: vals)
                end
            end)
    (fun _ =>
       if negb (Nat.eqb host_rem 0) then None else
       match adv_catch cs with
       | [] => None
       | cs' =>
           try_splits (List.length (c :: r)) 1 (c :: r) (fun v rest => select fuel cs' rest 0 (v :: vals))
       end)).
Proof. reflexivity. Qed.

Lemma seg_split stop : forall s, s = seg stop s ++ skipn (List.length (seg stop s)) s.
Proof. induction s as [|x s IH]; [reflexivity|]. cbn [seg]. destruct (stop x); [reflexivity|]. cbn. f_equal. exact IH. Qed.

Lemma select_star c : c <> "/" -> forall fuel cs h vals, allh cs -> nohslash h ->
  select fuel cs (h ++ [c]) (List.length h) vals = None.
Proof.
  intros Hc. induction fuel as [|fuel IH]; intros cs h vals Hcs Hns; [reflexivity|].
  destruct h as [|x h'].
  - cbn [app List.length]. rewrite select_S. cbn [Nat.eqb negb].
    rewrite orelse_none.
    2:{ destruct (Ascii.eqb c "{" || Ascii.eqb c "*"); [reflexivity|].
        pose proof (allh_static c cs Hc Hcs) as Hs. destruct (adv_static c cs) as [|k l]; [reflexivity|].
        apply select_nil_allh. exact Hs. }
    rewrite orelse_none.
    2:{ pose proof (allh_param cs Hcs) as Hp. destruct (adv_param cs) as [|k l]; [reflexivity|].
        cbv zeta. cbn [seg]. destruct (Ascii.eqb_spec c "/") as [E|_]; [congruence|].
        cbn [List.length skipn]. apply select_nil_allh. exact Hp. }
    rewrite (allh_catch cs Hcs). reflexivity.
  - assert (Hx : x <> "/") by (apply Hns; left; reflexivity).
    assert (Hns' : nohslash h') by (intros y Hy; apply Hns; right; exact Hy).
    change ((x :: h') ++ [c]) with (x :: (h' ++ [c])). change (List.length (x :: h')) with (S (List.length h')).
    rewrite select_S. cbn [Nat.eqb negb].
    rewrite orelse_none.
    2:{ destruct (Ascii.eqb x "{" || Ascii.eqb x "*"); [reflexivity|].
        pose proof (allh_static x cs Hx Hcs) as Hs. destruct (adv_static x cs) as [|k l]; [reflexivity|].
        cbn [pred]. apply IH; auto. }
    rewrite orelse_none; [reflexivity|].
    pose proof (allh_param cs Hcs) as Hp. destruct (adv_param cs) as [|k l]; [reflexivity|].
    cbv zeta.
    change (x :: h' ++ [c]) with ((x :: h') ++ [c]).
    replace (firstn (S (List.length h')) ((x :: h') ++ [c])) with (x :: h')
      by (symmetry; apply (firstn_app_exact (x :: h') [c])).
    pose proof (seg_split (fun y => Ascii.eqb y ".") (x :: h')) as Hsp.
    remember (skipn (List.length (seg (fun y => Ascii.eqb y ".") (x :: h'))) (x :: h')) as h2 eqn:Eh2. clear Eh2.
    remember (seg (fun y => Ascii.eqb y ".") (x :: h')) as v eqn:Ev. clear Ev.
    destruct v as [|v0 v']; [reflexivity|].
    replace (S (List.length h')) with (List.length ((v0 :: v') ++ h2)) by (rewrite <- Hsp; reflexivity).
    rewrite Hsp, <- app_assoc, skipn_app_exact, app_length.
    replace (List.length (v0 :: v') + List.length h2 - List.length (v0 :: v')) with (List.length h2) by lia.
    apply IH; auto.
    intros y Hy. apply Hns. rewrite Hsp. apply in_or_app. right. exact Hy.
Qed.

(* the candidates of S in hostname mode below a hostname node all have the form hform *)
Lemma hform_app a b : forallb htok_ok a = true -> hform b = true -> hform (a ++ b) = true.
Proof.
  induction a as [|t a IH]; intros Ha Hb; [exact Hb|]. cbn [forallb] in Ha. apply andb_prop in Ha. destruct Ha as [Ht Ha].
  cbn [app]. destruct t as [d|nm|nm]; cbn [hform htok_ok] in *.
  - apply andb_prop in Ht. destruct Ht as [_ Ht]. apply negb_true_iff in Ht. rewrite Ht. auto.
  - auto.
  - discriminate Ht.
Qed.

Lemma tokenize_slash k : starts_with "/" k = true -> exists t, tokenize k = TStatic "/" :: t.
Proof.
  destruct k as [|x k']; [discriminate|]. cbn [starts_with]. intros E. apply Ascii.eqb_eq in E. subst x.
  rewrite tokenize_cons. cbn. eexists; reflexivity.
Qed.

Lemma cands_of_slash x : starts_with "/" (nkey x) = true -> allh (cands_of x).
Proof.
  intros Hs k Hk. destruct x as [kk r ch]. cbn [nkey] in Hs. cbn [cands_of] in Hk.
  apply in_map_iff in Hk. destruct Hk as (k0 & <- & _). unfold prep. cbn [toks].
  destruct (tokenize_slash kk Hs) as [t ->]. reflexivity.
Qed.

Lemma cands_of_hostb : forall x, hostb x = true -> allh (cands_of x).
Proof.
  induction x as [kk r ch IH] using node_ind2. intros Hb k Hk.
  apply hostb_inv in Hb. destruct Hb as (-> & Htok & Hch).
  cbn [cands_of own app] in Hk. apply in_map_iff in Hk. destruct Hk as (k0 & <- & Hk0). unfold prep. cbn [toks].
  apply hform_app; [exact Htok|]. apply in_flat_map in Hk0. destruct Hk0 as (y & Hy & Hk0).
  destruct (Hch y Hy) as [Hs|Hh].
  - apply (cands_of_slash y Hs). exact Hk0.
  - rewrite Forall_forall in IH. apply (IH y Hy Hh). exact Hk0.
Qed.

Lemma select_in_host_star root host c : hroot_ok root -> nroute root = None -> nohslash host -> c <> "/" ->
  select_in (map rpat (routes_of_node root)) host [c] true = None.
Proof.
  intros (Hnd & Hpw & Hsplit) Hr Hns Hc. unfold select_in.
  rewrite routes_of_node_s, (host_cands root Hpw Hr).
  destruct host as [|h0 host']; [reflexivity|].
  apply select_star; auto.
  intros k Hk. unfold below in Hk. cbn [own app] in Hk. apply in_flat_map in Hk. destruct Hk as (y & Hy & Hk).
  unfold hostkids in Hy. apply filter_In in Hy. destruct Hy as [Hy Hyn].
  destruct (Hsplit y Hy) as [Hs|Hh]; [rewrite Hs in Hyn; discriminate|].
  apply (cands_of_hostb y Hh). exact Hk.
Qed.

Lemma select_in_path_nonslash pats host c r : c <> "/" -> select_in pats host (c :: r) false = None.
Proof.
  intros Hc. rewrite select_in_path_filter. apply select_in_nonslash; [|exact Hc].
  intros p Hp. apply filter_In in Hp. apply Hp.
Qed.

Lemma spec_lookup_star root host c : hroot_ok root -> nroute root = None -> nohslash host -> c <> "/" ->
  spec_lookup (map rpat (routes_of_node root)) host [c] = SNone.
Proof.
  intros Hroot Hr Hns Hc. unfold spec_lookup.
  rewrite (select_in_host_star root host c Hroot Hr Hns Hc), (select_in_path_nonslash _ host c [] Hc).
  cbn [select_tsr_in].
  destruct (negb (Spec.is_nil (filter (fun p => negb (is_path_pattern p)) (map rpat (routes_of_node root)))) &&
            negb (Spec.is_nil host)); reflexivity.
Qed.

Lemma WF_spec_star t m host c : WF_txn t -> c <> "/" ->
  spec_lookup_g (method_patterns (t_roots t) m) host [c] = SNone.
Proof.
  intros Hwf Hc. unfold spec_lookup_g.
  assert (Hns : nohslash (host_guard host)).
  { apply nohslashb_sound. unfold nohslashb. rewrite host_guard_noslash. reflexivity. }
  unfold method_patterns.
  destruct (method_index (t_roots t) m) as [i|] eqn:Ei; [|apply spec_lookup_nil].
  destruct (nth_error (t_roots t) i) as [root|] eqn:En; [|apply spec_lookup_nil].
  assert (Hin : In root (t_roots t)) by (eapply nth_error_In; eauto).
  destruct (WF_hroot_ok_thm t root Hwf Hin) as [Hroot Hr].
  apply spec_lookup_star; auto.
Qed.

(* ================================================================== *)
(* Part C — the matcher = S on every well-formed forest, all requests ServeHTTP can see *)
(* ================================================================== *)
(* request paths covered: starts with '/', no '*' byte, no empty segment — or the one-byte path of
   `OPTIONS *` (any single byte other than '/') *)
Definition reqpath_ok_h (path : bytes) : Prop :=
  (pathok path = true /\ okpath path = true) \/ (exists c, path = [c] /\ c <> "/").

Definition reqpath_ok_hb (path : bytes) : bool :=
  (pathok path && okpath path) || match path with [c] => negb (Ascii.eqb c "/") | _ => false end.

Lemma reqpath_ok_hb_sound path : reqpath_ok_hb path = true -> reqpath_ok_h path.
Proof.
  unfold reqpath_ok_hb, reqpath_ok_h. intros H. apply orb_prop in H. destruct H as [H|H].
  - apply andb_prop in H. left. exact H.
  - right. destruct path as [|c [|d r]]; try discriminate. exists c. split; [reflexivity|].
    apply negb_true_iff in H. apply Ascii.eqb_neq. exact H.
Qed.

Theorem WF_lookup_eq_spec_all t m host path fuel : WF_txn t ->
  path <> [] -> reqpath_ok_h path ->
  e2e_fuel_h path (t_roots t) m <= fuel ->
  lres_sres (roots_lookup_g fuel (t_roots t) m host path false [] []) =
  Some (spec_lookup_g (method_patterns (t_roots t) m) host path).
Proof.
  intros Hwf Hne [[Hpo Hok]|(c & -> & Hc)] Hfuel.
  - apply WF_roots_lookup_g_eq_spec; auto.
  - rewrite (WF_spec_star t m host c Hwf Hc). apply WF_lookup_nonslash; auto.
Qed.

(* closed-form fuel: enough for every method root *)
Definition serve_fuel_h (path : bytes) (r : roots) : nat := list_max (map (HostEquiv2.root_fuel path) r).

Lemma e2e_fuel_h_le_serve path r m : e2e_fuel_h path r m <= serve_fuel_h path r.
Proof.
  unfold e2e_fuel_h, serve_fuel_h. destruct (method_root r m) as [root|] eqn:Er; [|lia].
  assert (Hin : In root r).
  { unfold method_root in Er. destruct (method_index r m) as [i|]; [|discriminate]. eapply nth_error_In; eauto. }
  pose proof (proj1 (list_max_le (map (HostEquiv2.root_fuel path) r) _) (le_n _)) as Hf. rewrite Forall_forall in Hf.
  apply (Hf (HostEquiv2.root_fuel path root)). apply in_map. exact Hin.
Qed.

(* every history, every method: the full outcome of the matcher = S on the registered set *)
Theorem lookup_end_to_end_all_thm ops : Forall hop_ok ops ->
  forall m host path fuel,
  path <> [] -> reqpath_ok_h path ->
  e2e_fuel_h path (t_roots (final_txn ops)) m <= fuel ->
  lres_sres (roots_lookup_g fuel (t_roots (final_txn ops)) m host path false [] []) =
  Some (spec_lookup_g (reg_patterns (final_map ops) m) host path).
Proof.
  intros Hops m host path fuel Hne Hok Hfuel. destruct (final_rel ops Hops) as [Hwf Hrel].
  unfold spec_lookup_g. rewrite <- (Rel_spec_lookup _ _ m (host_guard host) path Hwf Hrel).
  apply WF_lookup_eq_spec_all; auto.
Qed.

(* ================================================================== *)
(* Part D — ServeHTTP                                                    *)
(* ================================================================== *)
Section Serve.
  Variable ign red : mkey -> bool.      (* per-route options, keyed like the map *)
  Variable opts : options.

  Theorem WF_serve_eq_spec_all t s (rq : request) host c0 fuel :
    WF_txn t -> Rel t s ->
    req_path rq <> [] -> reqpath_ok_h (req_path rq) ->
    serve_fuel_h (req_path rq) (t_roots t) <= fuel ->
    let first := first_lookup fuel (t_roots t) (r_method rq) host (req_path rq) in
    exists o,
      serve_http ign red cleanfn opts (disp_roots t) (route_lookup fuel (t_roots t) host (req_path rq))
                 rq c0 (lres_params first) (lres_tsr_params first) = Done o /\
      dispatch_spec ign red FoxC17.Spec.clean_spec opts (map_has_routes s)
                    (spec_route_lookup s host (req_path rq)) rq
                    (spec_params s (r_method rq) host (req_path rq)) (observe o).
  Proof.
    intros Hwf Hrel Hne Hok Hfuel first. set (path := req_path rq) in *.
    assert (Heq : forall m, lres_sres (first_lookup fuel (t_roots t) m host path) =
                            Some (spec_lookup_g (reg_patterns s m) host path)).
    { intros m. unfold first_lookup, spec_lookup_g. rewrite <- (Rel_spec_lookup t s m _ path Hwf Hrel).
      apply WF_lookup_eq_spec_all; auto.
      pose proof (e2e_fuel_h_le_serve path (t_roots t) m). lia. }
    assert (Hlk : forall m, route_lookup fuel (t_roots t) host path m = spec_route_lookup s host path m).
    { intros m. rewrite route_lookup_first. apply lres_sres_route. apply Heq. }
    destruct (dispatch_correct ign red cleanfn opts (disp_roots t) (route_lookup fuel (t_roots t) host path)
                (map_has_routes s) FoxC17.Spec.clean_spec
                (WF_roots_cover t fuel host path Hwf) (WF_has_routes_def t s Hwf Hrel) cleanfn_is_correct
                rq c0 (lres_params first) (lres_tsr_params first)) as [o [Hs Hd]].
    exists o. split; [exact Hs|].
    eapply dispatch_spec_ext; [exact Hlk| |exact Hd].
    intros Hsome. unfold match_params_of, spec_params. rewrite route_lookup_first in *. fold first in Hsome |- *.
    pose proof (Heq (r_method rq)) as H. fold first in H.
    rewrite <- (lres_sres_params first _ H).
    - destruct first as [[n|] tsr pss tpss| |]; cbn in *; try congruence.
      destruct (nroute n); [|congruence]. destruct tsr; reflexivity.
    - destruct first as [[n|] tsr pss tpss| |]; cbn in *; try congruence.
      destruct (nroute n); [discriminate|congruence].
  Qed.

  Theorem serve_end_to_end_all_thm ops : Forall hop_ok ops ->
    forall (rq : request) host c0 fuel,
    req_path rq <> [] -> reqpath_ok_h (req_path rq) ->
    serve_fuel_h (req_path rq) (t_roots (final_txn ops)) <= fuel ->
    let first := first_lookup fuel (t_roots (final_txn ops)) (r_method rq) host (req_path rq) in
    exists o,
      serve_http ign red cleanfn opts (disp_roots (final_txn ops))
                 (route_lookup fuel (t_roots (final_txn ops)) host (req_path rq))
                 rq c0 (lres_params first) (lres_tsr_params first) = Done o /\
      dispatch_spec ign red FoxC17.Spec.clean_spec opts (map_has_routes (final_map ops))
                    (spec_route_lookup (final_map ops) host (req_path rq)) rq
                    (spec_params (final_map ops) (r_method rq) host (req_path rq)) (observe o).
  Proof.
    intros Hok rq host c0 fuel Hne Hokp Hfuel. destruct (final_rel ops Hok) as [Hwf Hrel].
    apply WF_serve_eq_spec_all; auto.
  Qed.

  (* oracle-free: validity / psLen / hostSplit of every step are parseRoute's results *)
  Theorem serve_end_to_end_all_parser_thm mp mk ops : Forall (hop_parsed mp mk) ops ->
    forall (rq : request) host c0 fuel,
    req_path rq <> [] -> reqpath_ok_h (req_path rq) ->
    serve_fuel_h (req_path rq) (t_roots (final_txn ops)) <= fuel ->
    let first := first_lookup fuel (t_roots (final_txn ops)) (r_method rq) host (req_path rq) in
    exists o,
      serve_http ign red cleanfn opts (disp_roots (final_txn ops))
                 (route_lookup fuel (t_roots (final_txn ops)) host (req_path rq))
                 rq c0 (lres_params first) (lres_tsr_params first) = Done o /\
      dispatch_spec ign red FoxC17.Spec.clean_spec opts (map_has_routes (final_map ops))
                    (spec_route_lookup (final_map ops) host (req_path rq)) rq
                    (spec_params (final_map ops) (r_method rq) host (req_path rq)) (observe o).
  Proof. intros H. apply serve_end_to_end_all_thm. eapply hops_parsed_ok. exact H. Qed.

  (* no hypothesis on the steps at all: API requests validated by parseRoute itself *)
  Theorem serve_end_to_end_all_closed_thm mp mk qs :
    let ops := map (parsed_hop mp mk) qs in
    forall (rq : request) host c0 fuel,
    req_path rq <> [] -> reqpath_ok_h (req_path rq) ->
    serve_fuel_h (req_path rq) (t_roots (final_txn ops)) <= fuel ->
    let first := first_lookup fuel (t_roots (final_txn ops)) (r_method rq) host (req_path rq) in
    exists o,
      serve_http ign red cleanfn opts (disp_roots (final_txn ops))
                 (route_lookup fuel (t_roots (final_txn ops)) host (req_path rq))
                 rq c0 (lres_params first) (lres_tsr_params first) = Done o /\
      dispatch_spec ign red FoxC17.Spec.clean_spec opts (map_has_routes (final_map ops))
                    (spec_route_lookup (final_map ops) host (req_path rq)) rq
                    (spec_params (final_map ops) (r_method rq) host (req_path rq)) (observe o).
  Proof. intros ops. apply (serve_end_to_end_all_parser_thm mp mk). apply parsed_hops_parsed. Qed.
End Serve.

(* the side condition "one byte" of the non-'/' case cannot be dropped on the specification side:
   S in hostname mode matches host ++ path *)
Example spec_host_mode_needs_pathok :
  spec_lookup [S2B "ab/"] (S2B "a") (S2B "b/") = SDirect (S2B "ab/") [].
Proof. vm_compute. reflexivity. Qed.
