(* ParserBridge — C10 => C02 / C01: the validation oracle of a history step is what parseRoute returns.

   Route's theorems about histories (TreeMap2.C02_refines_map_thm, EndToEnd2.C01_end_to_end_thm)
   assume [hop_ok o]: a step whose recorded flag [h_valid o] is true carries a pattern that passes
   Route's automaton [valid_patternb] and [h_hostsplit o] is the index of its first '/'.  In the Go
   code the flag is "parseRoute returned no error" and hostSplit / psLen are parseRoute's results.
   Here that oracle is discharged by proof from the Pattern area (C10):
     accept_implies_valid   parseRoute mp mk p = Accept n eh  (any limits)  ==>
                            valid_patternb p, index_byte p '/' = Some eh, n = #wildcards of Spec.tokenize p
     tokenizers_agree       FoxRoute.Spec.tokenize = FoxPattern.Token.tokenize on every legal pattern
   and the two history theorems are restated with the hypothesis [hop_parsed] ("the recorded values
   are parseRoute's") and, with no hypothesis on the steps at all, for histories of requests whose
   oracle fields are COMPUTED by parseRoute ([parsed_hop]).  See docs/Compose.md. *)
From FoxBase Require Import Bytes.
From FoxPattern Require ParseRoute Token Grammar Props_C10.
From FoxRoute Require Import Node Lookup Spec Tree MapSpec Corr CorrHist WFDef TreeWF TreeMap TreeMap2
  StaticEquiv StaticEquiv2 EndToEnd EndToEnd2.
Open Scope char_scope.

Module PR := FoxPattern.ParseRoute.
Module PT := FoxPattern.Token.
Module PG := FoxPattern.Grammar.

(* ------------------------------------------------------------------ *)
(* the two token types                                                  *)
(* ------------------------------------------------------------------ *)
Definition tk (t : PT.token) : token :=
  match t with PT.TStatic c => TStatic c | PT.TParam n => TParam n | PT.TCatch n => TCatch n end.

Lemma tok_param_run : forall nm acc r2, ~ In "}" nm ->
  PT.tok PT.MParam acc (nm ++ "}" :: r2) = PT.TParam (rev acc ++ nm) :: PT.tok PT.MDefault [] r2.
Proof.
  induction nm as [|c nm IH]; intros acc r2 Hni.
  - simpl. rewrite app_nil_r. reflexivity.
  - cbn [app PT.tok]. destruct (Ascii.eqb_spec c "}") as [->|Hne]; [exfalso; apply Hni; left; reflexivity|].
    rewrite IH by (intros H; apply Hni; right; exact H). simpl. rewrite <- app_assoc. reflexivity.
Qed.

Lemma tok_catch_run : forall nm acc r2, ~ In "}" nm ->
  PT.tok PT.MCatch acc (nm ++ "}" :: r2) = PT.TCatch (rev acc ++ nm) :: PT.tok PT.MDefault [] r2.
Proof.
  induction nm as [|c nm IH]; intros acc r2 Hni.
  - simpl. rewrite app_nil_r. reflexivity.
  - cbn [app PT.tok]. destruct (Ascii.eqb_spec c "}") as [->|Hne]; [exfalso; apply Hni; left; reflexivity|].
    rewrite IH by (intros H; apply Hni; right; exact H). simpl. rewrite <- app_assoc. reflexivity.
Qed.

(* on every stretch the automaton of WFDef reads from a closed state to a closed state, the two
   tokenizers produce the same tokens *)
Lemma tokenizers_agree_gen : forall n u s0, List.length u <= n -> okstart s0 ->
  vclosed (fold_left vstep u s0) = true -> tokenize u = map tk (PT.tokenize u).
Proof.
  induction n as [|n IH]; intros u s0 Hl Hs Hc.
  { destruct u; [reflexivity|simpl in Hl; lia]. }
  destruct u as [|c r]; [reflexivity|]. simpl in Hl. destruct s0 as [h st].
  rewrite tokenize_cons. unfold PT.tokenize. cbn [PT.tok]. cbn [fold_left] in Hc.
  assert (Hstatic : forall s1, vstep (h, st) c = s1 -> okstart s1 ->
            TStatic c :: tokenize r = map tk (PT.TStatic c :: PT.tok PT.MDefault [] r)).
  { intros s1 E Hs1. rewrite E in Hc. simpl. f_equal. apply (IH r s1); auto; lia. }
  destruct Hs as [Hs|Hs]; simpl in Hs; subst st.
  - destruct (Ascii.eqb_spec c "{") as [->|N1].
    + simpl in Hc. destruct (vname_run r h Hc) as [nm [r2 [-> [Hni Hf]]]].
      rewrite take_name_app by exact Hni. rewrite tok_param_run by exact Hni. simpl. f_equal.
      rewrite Hf in Hc. apply (IH r2 (h, VAfter)); [rewrite app_length in Hl; simpl in Hl; lia|right; reflexivity|exact Hc].
    + destruct (Ascii.eqb_spec c "*") as [->|N2].
      * simpl in Hc. destruct h; [rewrite vbad_abs in Hc; discriminate|].
        destruct r as [|d r1]; [discriminate|]. simpl in Hc.
        destruct (Ascii.eqb_spec d "{") as [->|N3]; [|rewrite vbad_abs in Hc; discriminate].
        destruct (vname_run r1 false Hc) as [nm [r2 [-> [Hni Hf]]]].
        rewrite take_name_app by exact Hni. rewrite tok_catch_run by exact Hni. simpl. f_equal.
        rewrite Hf in Hc. apply (IH r2 (false, VAfter)); [simpl in Hl; rewrite app_length in Hl; simpl in Hl; lia|right; reflexivity|exact Hc].
      * simpl in Hc. destruct (Ascii.eqb_spec c "/") as [->|N3].
        -- eapply Hstatic; [simpl; reflexivity|left; reflexivity].
        -- apply (Hstatic (h, VDef)); [|left; reflexivity]. simpl.
           destruct (Ascii.eqb_spec c "/"); [contradiction|]. destruct (Ascii.eqb_spec c "{"); [contradiction|].
           destruct (Ascii.eqb_spec c "*"); [contradiction|]. reflexivity.
  - simpl in Hc. destruct (Ascii.eqb_spec c "/") as [->|N1].
    + simpl. eapply Hstatic; [simpl; reflexivity|left; reflexivity].
    + destruct (h && Ascii.eqb c ".") eqn:E; [|rewrite vbad_abs in Hc; discriminate].
      apply andb_true_iff in E. destruct E as [-> E]. apply Ascii.eqb_eq in E. subst c. simpl.
      eapply Hstatic; [simpl; reflexivity|left; reflexivity].
Qed.

(* Route's and Pattern's tokenizers agree on every pattern that is a legal closed prefix for Route's
   automaton — in particular on every pattern parseRoute accepts (accept_implies_valid below) *)
Theorem tokenizers_agree_closed p : closed p = true -> tokenize p = map tk (PT.tokenize p).
Proof. intros H. apply (tokenizers_agree_gen (List.length p) p vinit); auto. left. reflexivity. Qed.

Lemma count_wildcards_tk ts : count_wildcards (map tk ts) = PT.tok_wilds ts.
Proof.
  unfold PT.tok_wilds. induction ts as [|t ts IH]; [reflexivity|].
  destruct t; simpl; rewrite IH; reflexivity.
Qed.

Lemma wildcard_names_tk ts : wildcard_names (map tk ts) = PT.tok_names ts.
Proof. induction ts as [|t ts IH]; [reflexivity|]. destruct t; simpl; rewrite IH; reflexivity. Qed.

(* ------------------------------------------------------------------ *)
(* the grammar's syntax trees pass Route's automaton                    *)
(* ------------------------------------------------------------------ *)
Definition okst (st : vst) : Prop := st = VDef \/ st = VAfter.

Lemma run_static h st : forallb PG.static_byte st = true -> fold_left vstep st (h, VDef) = (h, VDef).
Proof.
  induction st as [|a st IH]; intros H; [reflexivity|]. cbn [forallb] in H. apply andb_true_iff in H.
  destruct H as [Ha Hr]. unfold PG.static_byte in Ha. cbn [fold_left vstep].
  destruct (Ascii.eqb a "/"); [discriminate|]. destruct (Ascii.eqb a "{"); [discriminate|].
  destruct (Ascii.eqb a "*"); [discriminate|]. apply IH. exact Hr.
Qed.

Lemma run_name h n : forallb (PG.name_byte h) n = true -> fold_left vstep n (h, VName) = (h, VName).
Proof.
  induction n as [|a n IH]; intros H; [reflexivity|]. cbn [forallb] in H. apply andb_true_iff in H.
  destruct H as [Ha Hr]. unfold PG.name_byte in Ha. cbn [fold_left vstep].
  destruct (Ascii.eqb a "{"); [discriminate|]. destruct (Ascii.eqb a "}"); [discriminate|].
  destruct (Ascii.eqb a "*"); [discriminate|]. destruct (Ascii.eqb a "/"); [discriminate|].
  destruct (h && Ascii.eqb a "."); [discriminate|]. simpl. apply IH. exact Hr.
Qed.

Lemma name_ok_bytes h mk n : PG.name_ok h mk n = true -> forallb (PG.name_byte h) n = true.
Proof. unfold PG.name_ok. intros H. apply andb_true_iff in H. apply H. Qed.

Lemma run_param h mk n : PG.name_ok h mk n = true ->
  fold_left vstep (PG.render_wild (PG.WParam n)) (h, VDef) = (h, VAfter).
Proof.
  intros H. cbn [PG.render_wild fold_left]. change (vstep (h, VDef) "{") with (h, VName).
  rewrite fold_left_app, (run_name h n (name_ok_bytes _ _ _ H)). reflexivity.
Qed.

Lemma run_catch mk n : PG.name_ok false mk n = true ->
  fold_left vstep (PG.render_wild (PG.WCatch n)) (false, VDef) = (false, VAfter).
Proof.
  intros H. cbn [PG.render_wild fold_left]. change (vstep (false, VDef) "*") with (false, VStar).
  change (vstep (false, VStar) "{") with (false, VName).
  rewrite fold_left_app, (run_name false n (name_ok_bytes _ _ _ H)). reflexivity.
Qed.

Lemma run_seg mk s : PG.seg_ok mk s = true ->
  exists st, fold_left vstep (PG.render_piece s) (false, VDef) = (false, st) /\ okst st.
Proof.
  unfold PG.seg_ok, PG.render_piece. intros H. apply andb_true_iff in H. destruct H as [Hs Hw].
  rewrite fold_left_app, (run_static false _ Hs). destruct (PG.p_wild s) as [[n|n]|].
  - exists VAfter. split; [eapply run_param; exact Hw|right; reflexivity].
  - exists VAfter. split; [eapply run_catch; exact Hw|right; reflexivity].
  - exists VDef. split; [reflexivity|left; reflexivity].
Qed.

Lemma slash_step h st : okst st -> vstep (h, st) "/" = (false, VDef).
Proof. intros [->| ->]; reflexivity. Qed.

Lemma run_path mk : forall ss h st0, okst st0 -> forallb (PG.seg_ok mk) ss = true ->
  exists st, fold_left vstep (List.concat (map (fun s => "/" :: PG.render_piece s) ss)) (h, st0)
             = ((if PG.is_nil ss then h else false), st) /\ okst st.
Proof.
  induction ss as [|s ss IH]; intros h st0 H0 Hf.
  - exists st0. split; [reflexivity|exact H0].
  - cbn [forallb] in Hf. apply andb_true_iff in Hf. destruct Hf as [Hs Hr].
    cbn [map List.concat PG.is_nil]. rewrite <- app_comm_cons. cbn [fold_left]. rewrite (slash_step h st0 H0), fold_left_app.
    destruct (run_seg mk s Hs) as [st1 [E1 H1]]. rewrite E1.
    destruct (IH false st1 H1 Hr) as [st [E Hst]]. exists st. split; [|exact Hst]. rewrite E.
    destruct (PG.is_nil ss); reflexivity.
Qed.

Section HostClass.
  Variable hb : ascii -> bool.
  Hypothesis hb_static : forall c, hb c = true -> PG.static_byte c = true.

  Lemma run_label mk l : PG.label_ok_with hb mk l = true ->
    exists st, fold_left vstep (PG.render_piece l) (true, VDef) = (true, st) /\ okst st.
  Proof.
    unfold PG.label_ok_with, PG.render_piece. intros H. repeat (apply andb_true_iff in H; destruct H as [H ?]).
    assert (Hs : forallb PG.static_byte (PG.p_static l) = true).
    { rewrite forallb_forall in *. intros c Hc. apply hb_static. apply H. exact Hc. }
    rewrite fold_left_app, (run_static true _ Hs). destruct (PG.p_wild l) as [[n|n]|].
    - exists VAfter. split; [eapply run_param; eassumption|right; reflexivity].
    - discriminate.
    - exists VDef. split; [reflexivity|left; reflexivity].
  Qed.

  Lemma dot_step st : okst st -> vstep (true, st) "." = (true, VDef).
  Proof. intros [->| ->]; reflexivity. Qed.

  Lemma run_host mk : forall ls, forallb (PG.label_ok_with hb mk) ls = true ->
    exists st, fold_left vstep (PG.join "." (map PG.render_piece ls)) (true, VDef) = (true, st) /\ okst st.
  Proof.
    induction ls as [|l ls IH]; intros Hf.
    - exists VDef. split; [reflexivity|left; reflexivity].
    - cbn [forallb] in Hf. apply andb_true_iff in Hf. destruct Hf as [Hl Hr].
      destruct (run_label mk l Hl) as [st1 [E1 H1]]. cbn [map PG.join].
      destruct ls as [|l2 ls2].
      + exists st1. split; [exact E1|exact H1].
      + change (map PG.render_piece (l2 :: ls2)) with (PG.render_piece l2 :: map PG.render_piece ls2).
        cbv iota. change (PG.render_piece l2 :: map PG.render_piece ls2) with (map PG.render_piece (l2 :: ls2)).
        rewrite fold_left_app, E1. cbn [fold_left]. rewrite (dot_step st1 H1). apply IH. exact Hr.
  Qed.

  Lemma host_ok_labels mk ls : PG.host_ok_with hb mk ls = true -> forallb (PG.label_ok_with hb mk) ls = true.
  Proof.
    unfold PG.host_ok_with. intros H. apply orb_true_iff in H. destruct H as [H|H].
    - destruct ls; [reflexivity|discriminate].
    - apply andb_true_iff in H. destruct H as [H _]. apply andb_true_iff in H. apply H.
  Qed.

  (* every well-formed syntax tree renders to a pattern Route's automaton accepts *)
  Theorem grammar_valid mp mk p : PG.wf_with hb mp mk p = true -> valid_patternb (PG.render_pat p) = true.
  Proof.
    unfold PG.wf_with. intros H. apply andb_true_iff in H. destruct H as [H _].
    apply andb_true_iff in H. destruct H as [Hh Hp].
    unfold PG.path_ok in Hp. apply andb_true_iff in Hp. destruct Hp as [Hp _].
    apply andb_true_iff in Hp. destruct Hp as [Hne Hsegs].
    destruct (run_host mk _ (host_ok_labels mk _ Hh)) as [st1 [E1 H1]].
    destruct (run_path mk (PG.p_path p) true st1 H1 Hsegs) as [st [E Hst]].
    assert (Hrun : vrun (PG.render_pat p) = (false, st)).
    { unfold PG.render_pat, PG.host_text, PG.path_text. rewrite vrun_app. unfold vrun at 1. fold vinit.
      change vinit with (true, VDef). rewrite E1, E. destruct (PG.is_nil (PG.p_path p)); [discriminate|reflexivity]. }
    unfold valid_patternb, closed, hostpart. rewrite Hrun. destruct Hst as [->| ->]; reflexivity.
  Qed.
End HostClass.

Lemma ldh_us_static c : PG.ldh_or_underscore c = true -> PG.static_byte c = true.
Proof.
  destruct c as [[|] [|] [|] [|] [|] [|] [|] [|]]; vm_compute; intros H; try reflexivity; discriminate H.
Qed.

(* ------------------------------------------------------------------ *)
(* hostSplit                                                            *)
(* ------------------------------------------------------------------ *)
Lemma index_byte_host_len : forall s, In "/" s -> index_byte s "/" = Some (PT.host_len s).
Proof.
  induction s as [|c s IH]; intros Hin; [destruct Hin|]. cbn [index_byte PT.host_len].
  destruct (Ascii.eqb_spec c "/") as [->|Hne]; [reflexivity|].
  destruct Hin as [E|Hin]; [congruence|]. rewrite (IH Hin). reflexivity.
Qed.

Lemma valid_has_slash p : valid_patternb p = true -> In "/" p.
Proof.
  unfold valid_patternb. intros H. apply andb_true_iff in H. destruct H as [Hc Hh].
  apply negb_true_iff in Hh. destruct (in_dec ascii_dec "/" p) as [Hi|Hni]; [exact Hi|].
  apply (hostpart_slash p (closed_nonbad p Hc)) in Hni. congruence.
Qed.

(* ------------------------------------------------------------------ *)
(* THE BRIDGE                                                           *)
(* ------------------------------------------------------------------ *)
Theorem accept_implies_valid_thm mp mk p n eh :
  PR.parseRoute mp mk p = PR.Accept n eh ->
  valid_patternb p = true /\
  index_byte p "/" = Some eh /\
  n = count_wildcards (tokenize p) /\
  tokenize p = map tk (PT.tokenize p).
Proof.
  intros Hacc.
  destruct (proj1 (Props_C10.parseRoute_accepts_exactly mp mk p n eh) Hacc) as (pt & Hr & Hwf & _ & _).
  destruct (Props_C10.accepted_count_and_split mp mk p n eh Hacc) as [Hn He].
  assert (Hv : valid_patternb p = true) by (rewrite <- Hr; exact (grammar_valid _ ldh_us_static mp mk pt Hwf)).
  assert (Hcl : closed p = true) by (unfold valid_patternb in Hv; apply andb_true_iff in Hv; apply Hv).
  pose proof (tokenizers_agree_closed p Hcl) as Ht.
  split; [exact Hv|]. split; [|split; [|exact Ht]].
  - rewrite He. apply index_byte_host_len. apply valid_has_slash. exact Hv.
  - rewrite Ht, count_wildcards_tk. exact Hn.
Qed.

(* ------------------------------------------------------------------ *)
(* histories whose oracle fields are parseRoute's results               *)
(* ------------------------------------------------------------------ *)
(* "the recorded flag / psLen / hostSplit of the step are what parseRoute returned" (only the
   accepting direction is needed: both the model and the map consult the same flag) *)
Definition hop_parsed (mp mk : nat) (o : hop) : Prop :=
  h_valid o = true -> PR.parseRoute mp mk (h_pat o) = PR.Accept (h_pslen o) (h_hostsplit o).

Lemma hop_parsed_full mp mk o : hop_parsed mp mk o -> h_valid o = true -> valid_rinfo_full (hop_ri o).
Proof.
  intros Hp Hv. destruct (accept_implies_valid_thm mp mk _ _ _ (Hp Hv)) as (H1 & H2 & H3 & _).
  split; [split; [exact H1|exact H2]|exact H3].
Qed.

Lemma hop_parsed_ok mp mk o : hop_parsed mp mk o -> hop_ok o.
Proof. intros Hp Hv. exact (proj1 (hop_parsed_full mp mk o Hp Hv)). Qed.

Lemma hops_parsed_ok mp mk ops : Forall (hop_parsed mp mk) ops -> Forall hop_ok ops.
Proof. intros H. eapply Forall_impl; [|exact H]. intros o. apply hop_parsed_ok. Qed.

(* a request to the registration API, before validation *)
Record hreq := { q_kind : opk; q_method : bytes; q_pat : bytes; q_rid : N; q_methods : list bytes; q_obs : hobs }.

(* the step the router performs for it: validity, psLen and hostSplit COMPUTED by parseRoute *)
Definition parsed_hop (mp mk : nat) (q : hreq) : hop :=
  let res := PR.parseRoute mp mk (q_pat q) in
  {| h_kind := q_kind q; h_method := q_method q; h_pat := q_pat q;
     h_valid := match res with PR.Accept _ _ => true | _ => false end;
     h_pslen := match res with PR.Accept n _ => n | _ => 0 end;
     h_hostsplit := match res with PR.Accept _ eh => eh | _ => 0 end;
     h_rid := q_rid q; h_methods := q_methods q; h_obs := q_obs q |}.

Lemma parsed_hop_parsed mp mk q : hop_parsed mp mk (parsed_hop mp mk q).
Proof.
  unfold hop_parsed, parsed_hop. cbn. destruct (PR.parseRoute mp mk (q_pat q)); intros H; try discriminate H. reflexivity.
Qed.

Lemma parsed_hops_parsed mp mk qs : Forall (hop_parsed mp mk) (map (parsed_hop mp mk) qs).
Proof. apply Forall_forall. intros o Ho. apply in_map_iff in Ho. destruct Ho as [q [<- _]]. apply parsed_hop_parsed. Qed.

(* C02 without the oracle hypothesis *)
Theorem C02_refines_map_parser_thm mp mk ops : Forall (hop_parsed mp mk) ops -> hist_ok init_hstate sinit ops.
Proof. intros H. apply C02_refines_map_thm. eapply hops_parsed_ok. exact H. Qed.

Theorem C02_refines_map_closed_thm mp mk qs : hist_ok init_hstate sinit (map (parsed_hop mp mk) qs).
Proof. apply (C02_refines_map_parser_thm mp mk). apply parsed_hops_parsed. Qed.

Theorem WF_reachable_parser_thm mp mk ops : Forall (hop_parsed mp mk) ops ->
  WF_txn (pub (hrun_state init_hstate ops)) /\
  (forall t, cur (hrun_state init_hstate ops) = Some t -> WF_txn t).
Proof. intros H. apply WF_reachable_thm. eapply hops_parsed_ok. exact H. Qed.

(* C01 end to end without the oracle hypothesis *)
Theorem C01_end_to_end_parser_thm mp mk ops : Forall (hop_parsed mp mk) ops ->
  forall m host path fuel,
  path_only (reg_patterns (final_map ops) m) ->
  okpath path = true \/ plain_method (t_roots (final_txn ops)) m = true ->
  e2e_fuel path (t_roots (final_txn ops)) m <= fuel ->
  direct_obs (roots_lookup fuel (t_roots (final_txn ops)) m host path false [] []) =
  sres_direct (spec_lookup (reg_patterns (final_map ops) m) host path).
Proof. intros H. apply C01_end_to_end_thm. eapply hops_parsed_ok. exact H. Qed.

Theorem C01_end_to_end_closed_thm mp mk qs :
  let ops := map (parsed_hop mp mk) qs in
  forall m host path fuel,
  path_only (reg_patterns (final_map ops) m) ->
  okpath path = true \/ plain_method (t_roots (final_txn ops)) m = true ->
  e2e_fuel path (t_roots (final_txn ops)) m <= fuel ->
  direct_obs (roots_lookup fuel (t_roots (final_txn ops)) m host path false [] []) =
  sres_direct (spec_lookup (reg_patterns (final_map ops) m) host path).
Proof. intros ops. apply (C01_end_to_end_parser_thm mp mk). apply parsed_hops_parsed. Qed.
