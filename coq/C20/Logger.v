(* C20 model: the Logger middleware of /repo/logger.go:16-73, the part of the recorder
   (response_writer.go) it reads, and Context.ClientIP's resolver selection (context.go:194).
   Transliteration; control flow as in the Go code. *)
From FoxBase Require Import Bytes.
From FoxC20 Require Import Types GenFuns.
Open Scope Z_scope.

(* ---- recorder (response_writer.go): size = -1 means "not written" ---- *)
Record wstate := { w_size : Z; w_status : Z; w_location : bytes }.

Definition notWritten : Z := -1.
(* recorder.reset *)
Definition w_reset : wstate := {| w_size := notWritten; w_status := 200; w_location := [] |}.

(* what the underlying http.ResponseWriter offers for flushing: nothing, http.Flusher, or
   FlushError() error (every real net/http connection) *)
Inductive flushkind := FNone | FFlusher | FFlushError.

(* what a wrapped handler may do to the writer, as far as the Logger can tell *)
Inductive action :=
| AWriteHeader (code : Z)
| AWrite (n : Z)                 (* Write / WriteString of n bytes accepted by the underlying writer *)
| ASetLocation (v : bytes)       (* Header().Set("Location", v); [] deletes it *)
| AFlush (k : flushkind)         (* FlushError() / ResponseController.Flush on an underlying writer offering k *)
| APanic (id : N).               (* panic(value number id) *)

(* recorder.WriteHeader *)
Definition write_header (w : wstate) (code : Z) : wstate :=
  if negb (w_size w =? notWritten) then w                              (* superfluous call: ignored *)
  else if (code >=? 100) && (code <=? 199) && negb (code =? 101) then w  (* informational: forwarded, not recorded *)
  else {| w_size := 0; w_status := code; w_location := w_location w |}.

(* recorder.Write / WriteString *)
Definition write (w : wstate) (n : Z) : wstate :=
  let w1 := if w_size w =? notWritten
            then {| w_size := 0; w_status := w_status w; w_location := w_location w |} else w in
  {| w_size := w_size w1 + n; w_status := w_status w1; w_location := w_location w1 |}.

(* recorder.FlushError (response_writer.go:217-233): both supported branches first record the
   pending header (WriteHeader(r.status)), then flush; unsupported: ErrNotSupported, no effect *)
Definition flush (w : wstate) (k : flushkind) : wstate :=
  match k with
  | FFlushError => if w_size w =? notWritten then write_header w (w_status w) else w
  | FFlusher => if w_size w =? notWritten then write_header w (w_status w) else w
  | FNone => w
  end.

Inductive hres := Returned | Panicked (id : N).

(* events seen by an observer of the request: steps of the wrapped handler, records logged *)
Inductive event := EvStep (a : action) | EvLog (r : logrec).

(* a wrapped handler (handler + inner middleware) is any function of the writer state and
   the event history; [run_actions] is the family of handlers the harness drives *)
Definition handler := wstate -> list event -> hres * wstate * list event.

Fixpoint run_actions (acts : list action) (w : wstate) (tr : list event) : hres * wstate * list event :=
  match acts with
  | [] => (Returned, w, tr)
  | a :: rest =>
      let tr' := tr ++ [EvStep a] in
      match a with
      | AWriteHeader c => run_actions rest (write_header w c) tr'
      | AWrite n => run_actions rest (write w n) tr'
      | AFlush k => run_actions rest (flush w k) tr'
      | ASetLocation v => run_actions rest {| w_size := w_size w; w_status := w_status w; w_location := v |} tr'
      | APanic id => (Panicked id, w, tr')
      end
  end.

(* ---- Context.ClientIP (context.go:194-201) + NewRoute / WithClientIPResolver (options.go:248) ---- *)
Definition noClientIPResolver : resolution := ResErr (ELeaf noResolverId).

(* the router's resolver: WithClientIPResolver(nil) globally is ignored, default is noClientIPResolver *)
Definition router_resolver (glob : option resolution) : resolution :=
  match glob with Some r => r | None => noClientIPResolver end.

(* route.clientip: copied from the router at NewRoute, overridden by the route option
   (nil => noClientIPResolver through cmp.Or) *)
Definition route_resolver (glob : option resolution) (rt : route_res) : resolution :=
  match rt with RInherit => router_resolver glob | RNil => noClientIPResolver | RSet r => r end.

(* c.route == nil for every scope but the route handler *)
Definition has_route (k : kind) : bool := match k with KRoute | KRouteTsr => true | _ => false end.

Definition client_ip (k : kind) (glob : option resolution) (rt : route_res) : resolution :=
  if has_route k then route_resolver glob rt else router_resolver glob.

(* errors.Is(err, target) for a comparable sentinel: depth-first over Unwrap *)
Fixpoint errors_is (target : N) (e : err) : bool :=
  match e with
  | ELeaf id => N.eqb id target
  | EWrap e' => errors_is target e'
  | EJoin l => existsb (errors_is target) l
  end.

(* ---- the request as the Logger reads it ---- *)
Record env := {
  e_kind : kind; e_glob : option resolution; e_route : route_res;
  e_method : bytes; e_host : bytes; e_path : bytes;
  e_remote : bytes;    (* c.RemoteIP().String() *)
  e_min : option slog_level   (* minimum level of the slog.Handler given to LoggerWithHandler *)
}.

(* logger.go:24-64, executed after next(c) returned *)
Definition assemble (e : env) (w : wstate) : logrec :=
  let lvl := level (w_status w) in
  let location := if level_eqb lvl LevelDebug then w_location w else [] in
  let ipStr := match client_ip (e_kind e) (e_glob e) (e_route e) with
               | ResOk ip => ip
               | ResErr er => if errors_is noResolverId er then e_remote e else S2B "unknown"
               end in
  let base := [ (S2B "status", VInt (w_status w)); (S2B "method", VStr (e_method e));
                (S2B "host", VStr (e_host e)); (S2B "path", VStr (e_path e)); (S2B "latency", VDur) ] in
  {| r_level := lvl; r_msg := ipStr;
     r_attrs := match location with [] => base | _ => base ++ [(S2B "location", VStr location)] end |}.

(* log.LogAttrs(ctx, lvl, ...): slog.Logger asks the handler's Enabled(lvl) first *)
Definition emit (e : env) (w : wstate) : list event :=
  if enabled_at (e_min e) (r_level (assemble e w)) then [EvLog (assemble e w)] else [].

(* LoggerWithHandler's closure: next(c) runs first; a panic in next unwinds through the
   closure (no defer, no recover), so nothing after next(c) runs *)
Definition logger (e : env) (next : handler) : handler :=
  fun w tr =>
    match next w tr with
    | (Returned, w', tr') => (Returned, w', tr' ++ emit e w')
    | (Panicked id, w', tr') => (Panicked id, w', tr')
    end.

Definition logs_of (tr : list event) : list logrec :=
  flat_map (fun ev => match ev with EvLog r => [r] | _ => [] end) tr.

(* ---- middleware records and composition (options.go:119-156, fox.go:859-888), as far as
   instances of the Logger are concerned ---- *)
Record mwrec := { mw_scope : list hscope; mw_g : bool }.
Definition all_scopes : list hscope := [SRoute; SNoRoute; SNoMethod; SRedirect; SOptions].

(* the record each option appends *)
Definition global_rec (a : attach) : mwrec :=
  match a with
  | AWithMiddleware => {| mw_scope := all_scopes; mw_g := true |}            (* WithMiddleware, router *)
  | AWithMiddlewareFor mask => {| mw_scope := mask; mw_g := true |}         (* WithMiddlewareFor *)
  end.
Definition route_rec : mwrec := {| mw_scope := [SRoute]; mw_g := false |}.    (* WithMiddleware, route *)

Definition in_scope (s : hscope) (m : mwrec) : bool := existsb (hscope_eqb s) (mw_scope m).

(* NewRoute: the router's records followed by the route's own *)
Definition route_mws (globals : list attach) (level : nat) : list mwrec :=
  map global_rec globals ++ repeat route_rec level.

(* applyMiddleware(scope, mws, h): number of wrappers *)
Definition apply_count (s : hscope) (mws : list mwrec) : nat := List.length (filter (in_scope s) mws).
(* applyRouteMiddleware: (hself, hall) *)
Definition hall_count (mws : list mwrec) : nat := List.length (filter (in_scope SRoute) mws).
Definition hself_count (mws : list mwrec) : nat :=
  List.length (filter (fun m => in_scope SRoute m && negb (mw_g m)) mws).

Definition loggers_run (k : kind) (d : dispatch) (globals : list attach) (target_level alias_level : nat) : nat :=
  match d with
  | DServe => if has_route k then hall_count (route_mws globals target_level)
              else apply_count (scope_of k) (map global_rec globals)
  | DAliasMiddleware => hall_count (route_mws globals alias_level) + hself_count (route_mws globals target_level)
  | DAliasHandle => hall_count (route_mws globals alias_level)
  | DLookupMiddleware => hself_count (route_mws globals target_level)
  | DLookupHandle => 0
  end.

(* n instances of the Logger around a handler *)
Definition loggers (n : nat) (e : env) (next : handler) : handler := Nat.iter n (logger e) next.
