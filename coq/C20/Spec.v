(* C20 specification, written from the property text (properties.jsonl, C20); it does not
   look at logger.go.  It judges an OBSERVATION: what a capturing slog.Handler received and
   what the underlying http.ResponseWriter saw, for one request served through the Logger.

   "For every request whose wrapped handler returns, the Logger middleware emits exactly one
    record, after the handler, carrying the response status actually recorded, the request
    method, host and path, and as message the client IP from the configured resolver, the
    remote address when no resolver is configured, or 'unknown' when resolution fails.  The
    level is INFO for 2xx, DEBUG for 3xx together with the Location header, WARN for 4xx and
    ERROR for 5xx, and the middleware never alters the response or a panic passing through." *)
From FoxBase Require Import Bytes.
From FoxC20 Require Import Types.
Open Scope Z_scope.

(* --- level classes named by the property; nothing is required outside 200..599 --- *)
Definition spec_level_ok (status : Z) (l : slog_level) : bool :=
  if (200 <=? status) && (status <=? 299) then level_eqb l LevelInfo
  else if (300 <=? status) && (status <=? 399) then level_eqb l LevelDebug
  else if (400 <=? status) && (status <=? 499) then level_eqb l LevelWarn
  else if (500 <=? status) && (status <=? 599) then level_eqb l LevelError
  else true.

(* --- which resolver is "the configured resolver" of a request --- *)
(* a route handler uses the route's own resolver when the route was registered with one
   (an explicit nil means: none), otherwise the router-wide one; the 404/405/redirect/OPTIONS
   handlers have no route and use the router-wide one *)
Definition configured (k : kind) (glob : option resolution) (rt : route_res) : option resolution :=
  match k with
  | KRoute | KRouteTsr =>
      match rt with RInherit => glob | RNil => None | RSet r => Some r end
  | _ => glob
  end.

(* errors.Is(e, ErrNoClientIPResolver): "no resolver is configured" is also what a resolver
   reports when it answers with (a wrapping of) that sentinel *)
Fixpoint says_no_resolver (e : err) : bool :=
  match e with
  | ELeaf id => N.eqb id noResolverId
  | EWrap e' => says_no_resolver e'
  | EJoin l => existsb says_no_resolver l
  end.

Definition unknown : bytes := S2B "unknown".

Definition expected_msg (k : kind) (glob : option resolution) (rt : route_res) (remote : bytes) : bytes :=
  match configured k glob rt with
  | None => remote
  | Some (ResOk ip) => ip
  | Some (ResErr e) => if says_no_resolver e then remote else unknown
  end.

(* --- the observation --- *)
Record observation := {
  o_records : list logrec;      (* records received by the capturing slog.Handler, in order *)
  o_panic : option N;           (* Some id: ServeHTTP panicked with the harness' panic value number id
                                   (identity checked in Go; 999 = some other value) *)
  o_status : Z;                 (* final status seen by the underlying writer (200 if never written) *)
  o_location : bytes;           (* Location entry of the response header map when ServeHTTP returned *)
  o_same_response : bool;       (* underlying writer saw exactly what it sees without the Logger *)
  o_after_handler : bool        (* every record arrived after the wrapped handler's last step *)
}.

Definition lookup (k : bytes) (l : list (bytes * aval)) : option aval :=
  match find (fun p => bytes_eqb (fst p) k) l with Some p => Some (snd p) | None => None end.

Definition has_str (k v : bytes) (l : list (bytes * aval)) : bool :=
  match lookup k l with Some (VStr b) => bytes_eqb b v | _ => false end.
Definition has_int (k : bytes) (z : Z) (l : list (bytes * aval)) : bool :=
  match lookup k l with Some (VInt b) => Z.eqb b z | _ => false end.
Definition absent (k : bytes) (l : list (bytes * aval)) : bool :=
  match lookup k l with None => true | _ => false end.

Definition record_ok (k : kind) (glob : option resolution) (rt : route_res)
           (method host path remote : bytes) (o : observation) (r : logrec) : bool :=
  has_int (S2B "status") (o_status o) (r_attrs r)
  && has_str (S2B "method") method (r_attrs r)
  && has_str (S2B "host") host (r_attrs r)
  && has_str (S2B "path") path (r_attrs r)
  && bytes_eqb (r_msg r) (expected_msg k glob rt remote)
  && spec_level_ok (o_status o) (r_level r)
  && (if (300 <=? o_status o) && (o_status o <=? 399)
      then match o_location o with
           | [] => absent (S2B "location") (r_attrs r)
           | loc => has_str (S2B "location") loc (r_attrs r)
           end
      else absent (S2B "location") (r_attrs r)).

(* --- how many Logger instances a request passes through, "as the options say" ---
   a Logger attached router-wide sees a request once when the request is served by the router in
   one of the scopes it was attached for; a Logger attached to a route (route option) sees every
   run of that route's handler that goes through ServeHTTP or Route.HandleMiddleware;
   Route.Handle runs the bare handler; Lookup + HandleMiddleware/Handle does not go through the
   router-wide middleware at all. *)
Definition attached_for (s : hscope) (a : attach) : bool :=
  match a with AWithMiddleware => true | AWithMiddlewareFor mask => existsb (hscope_eqb s) mask end.

Definition expected_records (k : kind) (d : dispatch) (globals : list attach)
           (target_level alias_level : nat) : nat :=
  let router_wide := List.length (filter (attached_for (scope_of k)) globals) in
  match d with
  | DServe => router_wide + match scope_of k with SRoute => target_level | _ => 0 end
  | DAliasMiddleware => router_wide + alias_level + target_level
  | DAliasHandle => router_wide + alias_level
  | DLookupMiddleware => target_level
  | DLookupHandle => 0
  end.

(* the level the property fixes for a status, if it does *)
Definition determined_level (status : Z) : option slog_level :=
  if (200 <=? status) && (status <=? 299) then Some LevelInfo
  else if (300 <=? status) && (status <=? 399) then Some LevelDebug
  else if (400 <=? status) && (status <=? 499) then Some LevelWarn
  else if (500 <=? status) && (status <=? 599) then Some LevelError
  else None.

(* one record per Logger instance whenever the log handler accepts the record's level, none
   otherwise ([min]: the handler's minimum level; None = enabled at no level) *)
Definition count_ok (min : option slog_level) (status : Z) (n len : nat) : bool :=
  match determined_level status with
  | Some l => Nat.eqb len (if enabled_at min l then n else 0%nat)
  | None => Nat.eqb len n || Nat.eqb len 0
  end.

(* [thrown]: Some id when the wrapped handler panicked with value number id; [n]: number of
   Logger instances the request passes through: one record each, all after the handler *)
Definition spec_ok (k : kind) (glob : option resolution) (rt : route_res)
           (method host path remote : bytes) (min : option slog_level) (thrown : option N) (n : nat)
           (o : observation) : bool :=
  o_same_response o
  && match thrown with
     | Some id =>
         (* the panic passes through unchanged, and nothing is logged by the Logger *)
         match o_panic o with Some id' => N.eqb id id' | None => false end
         && match o_records o with [] => true | _ => false end
     | None =>
         match o_panic o with
         | None => count_ok min (o_status o) n (List.length (o_records o))
                   && match o_records o with [] => true | _ => o_after_handler o end
                   && forallb (record_ok k glob rt method host path remote o) (o_records o)
         | Some _ => false
         end
     end.
