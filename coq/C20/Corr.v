(* C20 correspondence: case = configuration + request + handler script + observation. *)
From FoxBase Require Import Bytes.
From FoxC20 Require Import Types GenFuns Spec Logger.
Open Scope Z_scope.

Record case := MkCase {
  c_env : env;
  c_acts : list action;
  c_obs : observation;
  c_disp : dispatch;
  c_globals : list attach;       (* Logger instances attached router-wide, in option order *)
  c_tlevel : nat;                (* Logger instances attached to the target route *)
  c_alevel : nat                 (* Logger instances attached to the alias route *)
}.

Definition mk (k : kind) (glob : option resolution) (rt : route_res) (method host path remote : bytes)
           (min : option slog_level) (acts : list action) (recs : list logrec) (pan : option N) (status : Z) (loc : bytes)
           (same after : bool) (d : dispatch) (globals : list attach) (tl al : nat) : case :=
  MkCase {| e_kind := k; e_glob := glob; e_route := rt; e_method := method; e_host := host;
            e_path := path; e_remote := remote; e_min := min |}
         acts
         {| o_records := recs; o_panic := pan; o_status := status; o_location := loc;
            o_same_response := same; o_after_handler := after |}
         d globals tl al.

Definition R (l : slog_level) (msg : bytes) (attrs : list (bytes * aval)) : logrec :=
  {| r_level := l; r_msg := msg; r_attrs := attrs |}.

Definition thrown (acts : list action) : option N :=
  match run_actions acts w_reset [] with (Panicked id, _, _) => Some id | _ => None end.

(* the model's prediction: records logged, panic raised, and the log event is the last event *)
Definition model_agrees (c : case) : bool :=
  match loggers (loggers_run (e_kind (c_env c)) (c_disp c) (c_globals c) (c_tlevel c) (c_alevel c))
                (c_env c) (run_actions (c_acts c)) w_reset [] with
  | (r, w, tr) =>
      list_eqb logrec_eqb (logs_of tr) (o_records (c_obs c))
      && opt_eqb N.eqb (match r with Panicked id => Some id | Returned => None end) (o_panic (c_obs c))
  end.

Definition case_spec_ok (c : case) : bool :=
  let e := c_env c in
  spec_ok (e_kind e) (e_glob e) (e_route e) (e_method e) (e_host e) (e_path e) (e_remote e) (e_min e)
          (thrown (c_acts c))
          (expected_records (e_kind e) (c_disp c) (c_globals c) (c_tlevel c) (c_alevel c)) (c_obs c).

Definition mismatches (cs : list case) : list nat := true_idx (map (fun c => negb (model_agrees c)) cs).
Definition spec_violations (cs : list case) : list nat := true_idx (map (fun c => negb (case_spec_ok c)) cs).
Definition fuel_outs (cs : list case) : list nat := [].
