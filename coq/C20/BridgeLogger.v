(* C20 tie A: the hand-written model of the Logger middleware (Logger.logger / emit / assemble) is
   EQUAL, for every slog handler, wrapped handler, request, writer state and event history, to the
   term harness/cmd/loggen regenerates from logger.go on every run (GenLogger.v).
   Every lemma below re-opens when the Go text changes.  (docs/GenC20.md) *)
From FoxBase Require Import Bytes.
From FoxC20 Require Import Types GenFuns Spec Logger Corr Proofs LogSem GenLogger.
Open Scope Z_scope.

(* the model keeps the slog handler's minimum level in the request record; the Go function takes
   the handler as its own argument *)
Definition env_with_min (e : env) (h : option slog_level) : env :=
  {| e_kind := e_kind e; e_glob := e_glob e; e_route := e_route e; e_method := e_method e;
     e_host := e_host e; e_path := e_path e; e_remote := e_remote e; e_min := h |}.

Lemma env_with_min_id e : env_with_min e (e_min e) = e.
Proof. destruct e; reflexivity. Qed.

Ltac unfold_prims :=
  unfold go_call_handler, slog_log_attrs, slog_new, slog_int, slog_string, slog_duration,
         ctx_method, ctx_host, ctx_path, ctx_remote_ip_string, ctx_client_ip,
         writer_status, writer_header_location, errors_is_no_resolver in *.

(* 1. the wrapped handler runs FIRST, on the state and history the closure was entered with; when it
      panics nothing else of the closure runs (no record, state and history as the handler left them) *)
Lemma gen_logger_panic_eq : forall h e next w tr id w' tr',
  next w tr = (Panicked id, w', tr') ->
  gen_LoggerWithHandler h next e w tr = (Panicked id, w', tr').
Proof.
  intros h e next w tr id w' tr' H.
  unfold gen_LoggerWithHandler. unfold_prims. cbv zeta. rewrite H. reflexivity.
Qed.

(* 2. when it returns: result and writer state are the handler's, the history is the handler's
      followed by what Logger.emit says - level, message, every attribute (name, value, order),
      location iff Debug and non-empty, the Enabled test at the record's level - all read from the
      state the handler LEFT *)
Lemma gen_logger_return_eq : forall h e next w tr w' tr',
  next w tr = (Returned, w', tr') ->
  gen_LoggerWithHandler h next e w tr = (Returned, w', tr' ++ emit (env_with_min e h) w').
Proof.
  intros h e next w tr w' tr' H.
  unfold gen_LoggerWithHandler. unfold_prims. cbv zeta. rewrite H.
  unfold emit, assemble, env_with_min; cbn [e_kind e_glob e_route e_method e_host e_path e_remote e_min r_level].
  destruct (level (w_status w'));
    destruct (w_location w') as [|a l];
    destruct (client_ip (e_kind e) (e_glob e) (e_route e)) as [ip|er];
    try destruct (errors_is noResolverId er);
    cbn; destruct (enabled_at h _); reflexivity.
Qed.

(* 3. the middleware, for all inputs *)
Lemma gen_logger_eq_min : forall h e next w tr,
  gen_LoggerWithHandler h next e w tr = logger (env_with_min e h) next w tr.
Proof.
  intros h e next w tr. unfold logger.
  destruct (next w tr) as [[r w'] tr'] eqn:H. destruct r as [|id].
  - apply gen_logger_return_eq; exact H.
  - apply gen_logger_panic_eq; exact H.
Qed.

Lemma gen_logger_eq : forall e next w tr,
  gen_LoggerWithHandler (e_min e) next e w tr = logger e next w tr.
Proof. intros. rewrite gen_logger_eq_min, env_with_min_id. reflexivity. Qed.

(* n instances around a handler (Logger.loggers), generated version *)
Definition gen_loggers (n : nat) (e : env) (next : handler) : handler :=
  Nat.iter n (fun nx => gen_LoggerWithHandler (e_min e) nx e) next.

Lemma logger_ext e f g : (forall w tr, f w tr = g w tr) -> forall w tr, logger e f w tr = logger e g w tr.
Proof. intros E w tr. unfold logger. rewrite E. reflexivity. Qed.

Lemma gen_loggers_S n e next :
  gen_loggers (S n) e next = gen_LoggerWithHandler (e_min e) (gen_loggers n e next) e.
Proof. reflexivity. Qed.

Lemma gen_loggers_eq : forall n e next w tr, gen_loggers n e next w tr = loggers n e next w tr.
Proof.
  induction n as [|n IH]; intros e next w tr; [reflexivity|].
  rewrite gen_loggers_S, loggers_S, gen_logger_eq.
  apply logger_ext. intros. apply IH.
Qed.

(* ---- the property's theorems restated over the generated definition (rewriting with the bridge) ---- *)

Lemma gen_one_record_after_return_proof : forall (e : env) (next : handler) w tr,
  (forall w' tr', next w tr = (Returned, w', tr') ->
     gen_LoggerWithHandler (e_min e) next e w tr = (Returned, w', tr' ++ emit e w') /\
     logs_of (snd (gen_LoggerWithHandler (e_min e) next e w tr))
     = logs_of tr' ++ (if enabled_at (e_min e) (level (w_status w')) then [assemble e w'] else [])) /\
  (forall id w' tr', next w tr = (Panicked id, w', tr') ->
     gen_LoggerWithHandler (e_min e) next e w tr = (Panicked id, w', tr') /\
     logs_of (snd (gen_LoggerWithHandler (e_min e) next e w tr)) = logs_of tr').
Proof. intros. rewrite gen_logger_eq. apply one_record_after_return_proof. Qed.

Lemma gen_one_record_iff_returns_proof : forall (e : env) (next : handler) w tr,
  (forall l, enabled_at (e_min e) l = true) ->
  let '(r, _, tr') := next w tr in
  let n := List.length (logs_of (snd (gen_LoggerWithHandler (e_min e) next e w tr))) in
  (r = Returned <-> n = S (List.length (logs_of tr'))) /\
  ((exists id, r = Panicked id) <-> n = List.length (logs_of tr')).
Proof. intros e next w tr. rewrite gen_logger_eq. apply record_count_proof. Qed.

(* the record the GENERATED closure appends, field by field (record_fields + ip_message_three_way) *)
Lemma gen_record_fields_proof : forall (h : option slog_level) (e : env) (next : handler) w tr w' tr',
  next w tr = (Returned, w', tr') ->
  enabled_at h (level (w_status w')) = true ->
  exists r, gen_LoggerWithHandler h next e w tr = (Returned, w', tr' ++ [EvLog r]) /\
  r_level r = level (w_status w') /\
  lookup (S2B "status") (r_attrs r) = Some (VInt (w_status w')) /\
  lookup (S2B "method") (r_attrs r) = Some (VStr (e_method e)) /\
  lookup (S2B "host") (r_attrs r) = Some (VStr (e_host e)) /\
  lookup (S2B "path") (r_attrs r) = Some (VStr (e_path e)) /\
  lookup (S2B "latency") (r_attrs r) = Some VDur /\
  (level (w_status w') = LevelDebug /\ w_location w' <> [] ->
     lookup (S2B "location") (r_attrs r) = Some (VStr (w_location w'))) /\
  (level (w_status w') <> LevelDebug \/ w_location w' = [] ->
     lookup (S2B "location") (r_attrs r) = None) /\
  let res := client_ip (e_kind e) (e_glob e) (e_route e) in
  (forall ip, res = ResOk ip -> r_msg r = ip) /\
  (forall er, res = ResErr er -> errors_is noResolverId er = true -> r_msg r = e_remote e) /\
  (forall er, res = ResErr er -> errors_is noResolverId er = false -> r_msg r = S2B "unknown").
Proof.
  intros h e next w tr w' tr' H En.
  exists (assemble (env_with_min e h) w'). split.
  - rewrite (gen_logger_return_eq h e next w tr w' tr' H).
    change (emit (env_with_min e h) w')
      with (if enabled_at h (level (w_status w')) then [EvLog (assemble (env_with_min e h) w')] else []).
    rewrite En. reflexivity.
  - pose proof (record_fields_proof (env_with_min e h) w') as F.
    pose proof (ip_message_three_way_proof (env_with_min e h) w') as M.
    cbv zeta in F, M. cbn [env_with_min e_kind e_glob e_route e_method e_host e_path e_remote] in F, M.
    destruct F as (F1 & F2 & F3 & F4 & F5 & F6 & F7 & F8).
    repeat split; try assumption; apply M.
Qed.

Lemma gen_logger_transparent_proof : forall (e : env) (next : handler) w tr,
  let '(r, w', tr') := next w tr in
  let '(r2, w2, tr2) := gen_LoggerWithHandler (e_min e) next e w tr in
  r2 = r /\ w2 = w' /\ steps_of tr2 = steps_of tr' /\
  (exists suffix, tr2 = tr' ++ suffix /\ steps_of suffix = []).
Proof. intros e next w tr. rewrite gen_logger_eq. apply logger_transparent_proof. Qed.

Lemma gen_loggers_records_proof : forall n (e : env) (next : handler) w tr,
  (forall w' tr', next w tr = (Returned, w', tr') ->
     gen_loggers n e next w tr = (Returned, w', tr' ++ List.concat (repeat (emit e w') n))) /\
  (forall id w' tr', next w tr = (Panicked id, w', tr') ->
     gen_loggers n e next w tr = (Panicked id, w', tr')).
Proof. intros. rewrite gen_loggers_eq. apply loggers_records_proof. Qed.

(* the observation an ideal observer makes of the GENERATED closure's run (Proofs.observe with the
   generated definition in place of Logger.logger) *)
Definition gen_observe (e : env) (next : handler) : observation :=
  match gen_LoggerWithHandler (e_min e) next e w_reset [] with
  | (r, w, tr) =>
      {| o_records := logs_of tr;
         o_panic := match r with Panicked id => Some id | Returned => None end;
         o_status := w_status w; o_location := w_location w;
         o_same_response := true;
         o_after_handler := match r, rev tr with Returned, EvLog _ :: _ => true | _, _ => false end |}
  end.

Lemma gen_observe_eq e next : gen_observe e next = observe e next.
Proof. unfold gen_observe, observe. rewrite gen_logger_eq. reflexivity. Qed.

Lemma gen_model_meets_spec_proof : forall (e : env) (next : handler),
  (forall r w tr, next w_reset [] = (r, w, tr) -> logs_of tr = []) ->
  spec_ok (e_kind e) (e_glob e) (e_route e) (e_method e) (e_host e) (e_path e) (e_remote e) (e_min e)
          (match next w_reset [] with (Panicked id, _, _) => Some id | _ => None end) 1%nat
          (gen_observe e next) = true.
Proof. intros e next H. rewrite gen_observe_eq. apply model_meets_spec_proof; exact H. Qed.
