(* C20 shared vocabulary: slog levels, attribute values, log records, error trees.
   No behaviour here; used by the generated GenFuns.v, the specification and the model. *)
From FoxBase Require Import Bytes.

Inductive slog_level := LevelDebug | LevelInfo | LevelWarn | LevelError.

Definition level_eqb (a b : slog_level) : bool :=
  match a, b with
  | LevelDebug, LevelDebug | LevelInfo, LevelInfo | LevelWarn, LevelWarn | LevelError, LevelError => true
  | _, _ => false
  end.

(* slog's numeric levels; a slog.Handler with minimum level m is enabled at l iff m <= l.
   [None]: a handler enabled at no level (slog.DiscardHandler, a minimum above Error) *)
Definition level_rank (l : slog_level) : Z :=
  match l with LevelDebug => -4 | LevelInfo => 0 | LevelWarn => 4 | LevelError => 8 end%Z.
Definition enabled_at (min : option slog_level) (l : slog_level) : bool :=
  match min with Some m => (level_rank m <=? level_rank l)%Z | None => false end.

(* value of a slog attribute, as projected by the capturing slog.Handler of the
   harness: integers, strings, and durations (value not compared: it is time) *)
Inductive aval := VInt (z : Z) | VStr (b : bytes) | VDur.

Definition aval_eqb (a b : aval) : bool :=
  match a, b with
  | VInt x, VInt y => Z.eqb x y
  | VStr x, VStr y => bytes_eqb x y
  | VDur, VDur => true
  | _, _ => false
  end.

Record logrec := { r_level : slog_level; r_msg : bytes; r_attrs : list (bytes * aval) }.

Definition attr_eqb (a b : bytes * aval) : bool := bytes_eqb (fst a) (fst b) && aval_eqb (snd a) (snd b).

Definition logrec_eqb (a b : logrec) : bool :=
  level_eqb (r_level a) (r_level b) && bytes_eqb (r_msg a) (r_msg b) && list_eqb attr_eqb (r_attrs a) (r_attrs b).

(* Go error values as far as errors.Is can see them: a sentinel identified by a
   number (0 is fox.ErrNoClientIPResolver), a wrapper with Unwrap() error
   (fmt.Errorf("%w")), a multi-error with Unwrap() []error (errors.Join). *)
Inductive err := ELeaf (id : N) | EWrap (e : err) | EJoin (l : list err).

Definition noResolverId : N := 0%N.

(* what a ClientIPResolver returns for the request at hand *)
Inductive resolution := ResOk (ip : bytes) | ResErr (e : err).

(* handler kinds = the five scopes of fox; KRouteTsr is a route handler reached through
   the ignore-trailing-slash option (still the route's handler, c.Route() non nil) *)
Inductive kind := KRoute | KRouteTsr | KNoRoute | KNoMethod | KRedirect | KOptions.

(* per-route resolver option: not given (inherits the router's), given nil, given a resolver *)
Inductive route_res := RInherit | RNil | RSet (r : resolution).

(* the five handler scopes a router-wide middleware can be attached for *)
Inductive hscope := SRoute | SNoRoute | SNoMethod | SRedirect | SOptions.
Definition hscope_eqb (a b : hscope) : bool :=
  match a, b with
  | SRoute, SRoute | SNoRoute, SNoRoute | SNoMethod, SNoMethod | SRedirect, SRedirect | SOptions, SOptions => true
  | _, _ => false
  end.
Definition scope_of (k : kind) : hscope :=
  match k with
  | KRoute | KRouteTsr => SRoute | KNoRoute => SNoRoute | KNoMethod => SNoMethod
  | KRedirect => SRedirect | KOptions => SOptions
  end.

(* how a Logger instance is attached router-wide *)
Inductive attach := AWithMiddleware | AWithMiddlewareFor (mask : list hscope).

(* how the handler is reached: ServeHTTP; ServeHTTP to an alias route whose handler re-dispatches
   to the target route with Route.HandleMiddleware / Route.Handle; Router.Lookup followed by
   Route.HandleMiddleware / Route.Handle on the returned context *)
Inductive dispatch := DServe | DAliasMiddleware | DAliasHandle | DLookupMiddleware | DLookupHandle.
