(* C20 property theorems: statements only, each closed by [exact]. *)
From FoxBase Require Import Bytes.
From FoxC20 Require Import Types GenFuns Spec Logger Corr Proofs.
Open Scope Z_scope.

(* status class -> level, about the function GENERATED from logger.go:82-95.
   Below 200 (only 101 can be recorded) and above 599 the code's behaviour is stated as it is. *)
Theorem level_classes : forall s : Z,
  (200 <= s < 300 -> level s = LevelInfo) /\
  (300 <= s < 400 -> level s = LevelDebug) /\
  (400 <= s < 500 -> level s = LevelWarn) /\
  (500 <= s -> level s = LevelError) /\
  (s < 200 -> level s = LevelInfo).
Proof. exact level_classes_proof. Qed.
Print Assumptions level_classes.

Example level_classes_nonvacuous :
  map level [101; 200; 299; 300; 399; 400; 499; 500; 999] =
  [LevelInfo; LevelInfo; LevelInfo; LevelDebug; LevelDebug; LevelWarn; LevelWarn; LevelError; LevelError].
Proof. reflexivity. Qed.

(* for ANY wrapped handler (a function of writer state and history): if it returns, the
   Logger's run is the handler's run followed by exactly one record assembled from the
   writer state the handler left; if it panics, same panic value and no record *)
Theorem one_record_after_return : forall (e : env) (next : handler) w tr,
  (forall w' tr', next w tr = (Returned, w', tr') ->
     logger e next w tr = (Returned, w', tr' ++ emit e w') /\
     logs_of (snd (logger e next w tr))
     = logs_of tr' ++ (if enabled_at (e_min e) (level (w_status w')) then [assemble e w'] else [])) /\
  (forall id w' tr', next w tr = (Panicked id, w', tr') ->
     logger e next w tr = (Panicked id, w', tr') /\
     logs_of (snd (logger e next w tr)) = logs_of tr').
Proof. exact one_record_after_return_proof. Qed.
Print Assumptions one_record_after_return.

Theorem one_record_iff_returns : forall (e : env) (next : handler) w tr,
  (forall l, enabled_at (e_min e) l = true) ->          (* a log handler enabled at every level *)
  let '(r, _, tr') := next w tr in
  let n := List.length (logs_of (snd (logger e next w tr))) in
  (r = Returned <-> n = S (List.length (logs_of tr'))) /\
  ((exists id, r = Panicked id) <-> n = List.length (logs_of tr')).
Proof. exact record_count_proof. Qed.
Print Assumptions one_record_iff_returns.

Example one_record_nonvacuous :
  logs_of (snd (logger ex_env (run_actions ex_acts) w_reset [])) =
  [R LevelDebug (S2B "192.0.2.1")
     [(S2B "status", VInt 302); (S2B "method", VStr (S2B "GET")); (S2B "host", VStr (S2B "a.b"));
      (S2B "path", VStr (S2B "/x")); (S2B "latency", VDur); (S2B "location", VStr (S2B "/y"))]]
  /\ logger ex_env (run_actions [AWriteHeader 204; APanic 5%N]) w_reset [] =
     (Panicked 5%N, {| w_size := 0; w_status := 204; w_location := [] |},
      [EvStep (AWriteHeader 204); EvStep (APanic 5%N)]).
Proof. split; reflexivity. Qed.

Theorem record_fields : forall (e : env) (w : wstate),
  let r := assemble e w in
  r_level r = level (w_status w) /\
  lookup (S2B "status") (r_attrs r) = Some (VInt (w_status w)) /\
  lookup (S2B "method") (r_attrs r) = Some (VStr (e_method e)) /\
  lookup (S2B "host") (r_attrs r) = Some (VStr (e_host e)) /\
  lookup (S2B "path") (r_attrs r) = Some (VStr (e_path e)) /\
  lookup (S2B "latency") (r_attrs r) = Some VDur /\
  (level (w_status w) = LevelDebug /\ w_location w <> [] ->
     lookup (S2B "location") (r_attrs r) = Some (VStr (w_location w))) /\
  (level (w_status w) <> LevelDebug \/ w_location w = [] ->
     lookup (S2B "location") (r_attrs r) = None).
Proof. exact record_fields_proof. Qed.
Print Assumptions record_fields.

Theorem ip_message_three_way : forall (e : env) (w : wstate),
  let res := client_ip (e_kind e) (e_glob e) (e_route e) in
  (forall ip, res = ResOk ip -> r_msg (assemble e w) = ip) /\
  (forall er, res = ResErr er -> errors_is noResolverId er = true -> r_msg (assemble e w) = e_remote e) /\
  (forall er, res = ResErr er -> errors_is noResolverId er = false -> r_msg (assemble e w) = S2B "unknown").
Proof. exact ip_message_three_way_proof. Qed.
Print Assumptions ip_message_three_way.

Example ip_message_nonvacuous :
  r_msg (assemble ex_env w_reset) = S2B "192.0.2.1" /\
  (forall k, r_msg (assemble {| e_kind := k; e_glob := Some (ResErr (ELeaf 7%N)); e_route := RNil;
                       e_method := []; e_host := []; e_path := []; e_remote := S2B "r"; e_min := None |} w_reset)
     = if has_route k then S2B "r" else S2B "unknown").
Proof. split; [reflexivity | intros []; reflexivity]. Qed.

(* result, writer state and the handler's own steps are those of the wrapped handler alone;
   the Logger only appends non-step events *)
Theorem logger_transparent : forall (e : env) (next : handler) w tr,
  let '(r, w', tr') := next w tr in
  let '(r2, w2, tr2) := logger e next w tr in
  r2 = r /\ w2 = w' /\ steps_of tr2 = steps_of tr' /\
  (exists suffix, tr2 = tr' ++ suffix /\ steps_of suffix = []).
Proof. exact logger_transparent_proof. Qed.
Print Assumptions logger_transparent.

(* link to Spec.v: for every configuration, request and wrapped handler that does not log
   by itself, an ideal observation of the model's run passes the specification *)
Theorem model_meets_spec : forall (e : env) (next : handler),
  (forall r w tr, next w_reset [] = (r, w, tr) -> logs_of tr = []) ->
  spec_ok (e_kind e) (e_glob e) (e_route e) (e_method e) (e_host e) (e_path e) (e_remote e) (e_min e)
          (match next w_reset [] with (Panicked id, _, _) => Some id | _ => None end) 1%nat
          (observe e next) = true.
Proof. exact model_meets_spec_proof. Qed.
Print Assumptions model_meets_spec.

Example model_meets_spec_nonvacuous :
  forall r w tr, run_actions ex_acts w_reset [] = (r, w, tr) -> logs_of tr = [].
Proof. intros r w tr H. apply run_actions_no_logs in H. exact H. Qed.

(* a bare flush starts the response with 200: a later WriteHeader(500) is superfluous and the
   record says 200 / INFO — what the client received *)
Example flush_then_superfluous_header :
  logs_of (snd (logger ex_env (run_actions [AFlush FFlushError; AWriteHeader 500; AWrite 5]) w_reset [])) =
  [R LevelInfo (S2B "192.0.2.1")
     [(S2B "status", VInt 200); (S2B "method", VStr (S2B "GET")); (S2B "host", VStr (S2B "a.b"));
      (S2B "path", VStr (S2B "/x")); (S2B "latency", VDur)]]
  /\ w_status (snd (fst (run_actions [AFlush FNone; AWriteHeader 500] w_reset []))) = 500.
Proof. split; reflexivity. Qed.

(* n Logger instances in the chain: n records, each assembled from the state the handler left,
   all after the handler; none if it panics *)
Theorem loggers_records : forall n (e : env) (next : handler) w tr,
  (forall w' tr', next w tr = (Returned, w', tr') ->
     loggers n e next w tr = (Returned, w', tr' ++ List.concat (repeat (emit e w') n))) /\
  (forall id w' tr', next w tr = (Panicked id, w', tr') ->
     loggers n e next w tr = (Panicked id, w', tr')).
Proof. exact loggers_records_proof. Qed.
Print Assumptions loggers_records.

(* one record per request per Logger instance, as the options say: the number of instances fox's
   composition runs (records appended by WithMiddleware / WithMiddlewareFor / route-level
   WithMiddleware, then applyMiddleware or applyRouteMiddleware, for every entry point) is the
   number the specification expects *)
Theorem chain_meets_spec : forall k d globals tl al,
  d = DServe \/ has_route k = true ->      (* the alias / Lookup entry points reach route handlers only *)
  loggers_run k d globals tl al = expected_records k d globals tl al.
Proof. exact chain_meets_spec_proof. Qed.
Print Assumptions chain_meets_spec.

Example chain_nonvacuous :
  let globals := [AWithMiddlewareFor [SRoute; SNoRoute]; AWithMiddleware; AWithMiddlewareFor [SOptions]] in
  map (fun d => loggers_run KRoute d globals 1 0) [DServe; DAliasMiddleware; DAliasHandle; DLookupMiddleware; DLookupHandle]
  = [3; 3; 2; 1; 0]%nat /\ loggers_run KNoRoute DServe globals 1 0 = 2%nat /\ loggers_run KRedirect DServe globals 1 0 = 1%nat.
Proof. repeat split. Qed.

(* scope masks: a Logger attached by WithMiddlewareFor(mask) runs once for a request served by a
   handler kind of the mask and not at all otherwise (each of the five kinds on its own: the
   automatic OPTIONS reply is not the 405 handler) *)
Theorem scoped_logger : forall k mask,
  let n := if existsb (hscope_eqb (scope_of k)) mask then 1%nat else 0%nat in
  loggers_run k DServe [AWithMiddlewareFor mask] 0 0 = n
  /\ expected_records k DServe [AWithMiddlewareFor mask] 0 0 = n.
Proof. exact scoped_logger_proof. Qed.
Print Assumptions scoped_logger.

Example scoped_logger_nonvacuous :
  map (fun k => expected_records k DServe [AWithMiddlewareFor [SRoute; SOptions]] 0 0) [KRoute; KRouteTsr; KNoRoute; KNoMethod; KRedirect; KOptions]
  = [1; 1; 0; 0; 0; 1]%nat
  /\ map (fun k => loggers_run k DServe [AWithMiddlewareFor [SNoMethod]] 0 0) [KRoute; KRouteTsr; KNoRoute; KNoMethod; KRedirect; KOptions]
  = [0; 0; 0; 1; 0; 0]%nat.
Proof. split; reflexivity. Qed.

(* a log handler with minimum level WARN: nothing for a 2xx, one WARN record for a 404 — the
   decision is taken after the handler, at the record's level *)
Example min_level_is_checked_at_the_records_level :
  let e := {| e_kind := KRoute; e_glob := None; e_route := RInherit; e_method := S2B "GET"; e_host := [];
              e_path := S2B "/"; e_remote := S2B "r"; e_min := Some LevelWarn |} in
  logs_of (snd (logger e (run_actions [AWriteHeader 204]) w_reset [])) = [] /\
  List.length (logs_of (snd (logger e (run_actions [AWriteHeader 404]) w_reset []))) = 1%nat /\
  List.length (logs_of (snd (logger e (run_actions [AWriteHeader 302]) w_reset []))) = 0%nat.
Proof. repeat split. Qed.
