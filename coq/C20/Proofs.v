(* C20 proofs. *)
From FoxBase Require Import Bytes.
From FoxC20 Require Import Types GenFuns Spec Logger Corr.
From Coq Require Import Lia ZArith Bool.
Open Scope Z_scope.

(* ---------- level (GENERATED function) ---------- *)

Ltac split_ifs :=
  repeat match goal with
         | |- context [if ?b then _ else _] => let E := fresh "E" in destruct b eqn:E
         end.

Lemma level_classes_proof : forall s : Z,
  (200 <= s < 300 -> level s = LevelInfo) /\
  (300 <= s < 400 -> level s = LevelDebug) /\
  (400 <= s < 500 -> level s = LevelWarn) /\
  (500 <= s -> level s = LevelError) /\
  (s < 200 -> level s = LevelInfo).
Proof.
  intro s. unfold level.
  repeat split; intro H; split_ifs; try reflexivity; exfalso; lia.
Qed.

Lemma level_spec_ok s : spec_level_ok s (level s) = true.
Proof.
  destruct (level_classes_proof s) as (H2 & H3 & H4 & H5 & _).
  unfold spec_level_ok. split_ifs.
  - rewrite H2 by lia. reflexivity.
  - rewrite H3 by lia. reflexivity.
  - rewrite H4 by lia. reflexivity.
  - rewrite H5 by lia. reflexivity.
  - reflexivity.
Qed.

Lemma level_debug_iff s : level_eqb (level s) LevelDebug = true <-> 300 <= s <= 399.
Proof.
  destruct (level_classes_proof s) as (H2 & H3 & H4 & H5 & H1).
  split.
  - intro H.
    destruct (Z_lt_ge_dec s 200) as [L|L]; [rewrite H1 in H by lia; discriminate|].
    destruct (Z_lt_ge_dec s 300) as [L3|L3]; [rewrite H2 in H by lia; discriminate|].
    destruct (Z_lt_ge_dec s 400) as [L4|L4]; [lia|].
    destruct (Z_lt_ge_dec s 500) as [L5|L5]; [rewrite H4 in H by lia; discriminate|].
    rewrite H5 in H by lia; discriminate.
  - intro H. rewrite H3 by lia. reflexivity.
Qed.

(* ---------- one record, after the handler ---------- *)

Lemma emit_logs e w :
  logs_of (emit e w) = if enabled_at (e_min e) (level (w_status w)) then [assemble e w] else [].
Proof. unfold emit. cbn [assemble r_level]. destruct (enabled_at (e_min e) (level (w_status w))); reflexivity. Qed.

Lemma one_record_after_return_proof : forall (e : env) (next : handler) w tr,
  (forall w' tr', next w tr = (Returned, w', tr') ->
     logger e next w tr = (Returned, w', tr' ++ emit e w') /\
     logs_of (snd (logger e next w tr))
     = logs_of tr' ++ (if enabled_at (e_min e) (level (w_status w')) then [assemble e w'] else [])) /\
  (forall id w' tr', next w tr = (Panicked id, w', tr') ->
     logger e next w tr = (Panicked id, w', tr') /\
     logs_of (snd (logger e next w tr)) = logs_of tr').
Proof.
  intros e next w tr. split.
  - intros w' tr' H. unfold logger. rewrite H. split; [reflexivity|].
    cbn [snd]. unfold logs_of at 1. rewrite flat_map_app. fold (logs_of tr'). fold (logs_of (emit e w')).
    rewrite emit_logs. reflexivity.
  - intros id w' tr' H. unfold logger. rewrite H. split; reflexivity.
Qed.

(* a handler enabled at every level the Logger can choose: exactly one more record iff the
   wrapped handler returns *)
Lemma record_count_proof : forall (e : env) (next : handler) w tr,
  (forall l, enabled_at (e_min e) l = true) ->
  let '(r, _, tr') := next w tr in
  let n := List.length (logs_of (snd (logger e next w tr))) in
  (r = Returned <-> n = S (List.length (logs_of tr'))) /\
  ((exists id, r = Panicked id) <-> n = List.length (logs_of tr')).
Proof.
  intros e next w tr Hen.
  destruct (next w tr) as [[r w'] tr'] eqn:H.
  destruct (one_record_after_return_proof e next w tr) as [HR HP].
  destruct r as [|id].
  - destruct (HR _ _ H) as [_ HL]. rewrite HL, Hen, app_length. cbn [List.length].
    split; split; intro X.
    + lia.
    + reflexivity.
    + destruct X as [? X]; discriminate.
    + exfalso; lia.
  - destruct (HP _ _ _ H) as [_ HL]. rewrite HL.
    split; split; intro X.
    + discriminate.
    + exfalso; lia.
    + reflexivity.
    + exists id; reflexivity.
Qed.

(* ---------- fields ---------- *)

Lemma lookup_app_base k base extra :
  lookup k (base ++ extra) = match lookup k base with Some v => Some v | None => lookup k extra end.
Proof.
  unfold lookup. induction base as [|p base IH]; cbn [find app].
  - destruct (find _ extra); reflexivity.
  - destruct (bytes_eqb (fst p) k); [reflexivity|exact IH].
Qed.

Lemma record_fields_proof : forall (e : env) (w : wstate),
  let r := assemble e w in
  r_level r = level (w_status w) /\
  lookup (S2B "status") (r_attrs r) = Some (VInt (w_status w)) /\
  lookup (S2B "method") (r_attrs r) = Some (VStr (e_method e)) /\
  lookup (S2B "host") (r_attrs r) = Some (VStr (e_host e)) /\
  lookup (S2B "path") (r_attrs r) = Some (VStr (e_path e)) /\
  lookup (S2B "latency") (r_attrs r) = Some VDur /\
  (level (w_status w) = LevelDebug /\ w_location w <> [] ->
     lookup (S2B "location") (r_attrs r) = Some (VStr (w_location w))) /\
  (level (w_status w) <> LevelDebug \/ w_location w = [] ->
     lookup (S2B "location") (r_attrs r) = None).
Proof.
  intros e w. unfold assemble. cbv zeta.
  assert (HD : level_eqb (level (w_status w)) LevelDebug = true <-> level (w_status w) = LevelDebug).
  { destruct (level (w_status w)); split; intro X; try discriminate; reflexivity. }
  destruct (level_eqb (level (w_status w)) LevelDebug) eqn:EL.
  - destruct (w_location w) as [|c l] eqn:EW; cbn [r_level r_attrs].
    + split; [reflexivity|]. do 5 (split; [reflexivity|]). split.
      * intros [_ H]; congruence.
      * intros _. reflexivity.
    + split; [reflexivity|]. do 5 (split; [rewrite lookup_app_base; reflexivity|]). split.
      * intros _. rewrite lookup_app_base. reflexivity.
      * intros [H|H]; [|discriminate]. exfalso; apply H, HD; reflexivity.
  - cbn [r_level r_attrs]. split; [reflexivity|]. do 5 (split; [reflexivity|]). split.
    + intros [H _]. apply HD in H. discriminate.
    + intros _. reflexivity.
Qed.

(* ---------- message ---------- *)

Fixpoint errors_is_says (e : err) : errors_is noResolverId e = says_no_resolver e :=
  match e with
  | ELeaf id => eq_refl
  | EWrap e' => errors_is_says e'
  | EJoin l =>
      (fix G (l : list err) : existsb (errors_is noResolverId) l = existsb says_no_resolver l :=
         match l with
         | [] => eq_refl
         | x :: r => f_equal2 orb (errors_is_says x) (G r)
         end) l
  end.

Lemma ip_message_three_way_proof : forall (e : env) (w : wstate),
  let res := client_ip (e_kind e) (e_glob e) (e_route e) in
  (forall ip, res = ResOk ip -> r_msg (assemble e w) = ip) /\
  (forall er, res = ResErr er -> errors_is noResolverId er = true -> r_msg (assemble e w) = e_remote e) /\
  (forall er, res = ResErr er -> errors_is noResolverId er = false -> r_msg (assemble e w) = S2B "unknown").
Proof.
  intros e w res. unfold assemble; cbv zeta; cbn [r_msg]. fold res.
  repeat split.
  - intros ip H. rewrite H. reflexivity.
  - intros er H1 H2. rewrite H1, H2. reflexivity.
  - intros er H1 H2. rewrite H1, H2. reflexivity.
Qed.

(* the model's resolver selection is the specification's "configured resolver" *)
Lemma msg_meets_spec e w :
  r_msg (assemble e w) = expected_msg (e_kind e) (e_glob e) (e_route e) (e_remote e).
Proof.
  unfold assemble; cbv zeta; cbn [r_msg]. unfold expected_msg, client_ip, configured, has_route,
    route_resolver, router_resolver, noClientIPResolver.
  destruct (e_kind e); destruct (e_route e) as [| |r]; destruct (e_glob e) as [g|];
    try destruct g as [ip|er]; try destruct r as [ip'|er']; cbn; try rewrite errors_is_says; reflexivity.
Qed.

(* ---------- transparency ---------- *)

Definition steps_of (tr : list event) : list action :=
  flat_map (fun ev => match ev with EvStep a => [a] | _ => [] end) tr.

Lemma logger_transparent_proof : forall (e : env) (next : handler) w tr,
  let '(r, w', tr') := next w tr in
  let '(r2, w2, tr2) := logger e next w tr in
  r2 = r /\ w2 = w' /\ steps_of tr2 = steps_of tr' /\
  (exists suffix, tr2 = tr' ++ suffix /\ steps_of suffix = []).
Proof.
  intros e next w tr. unfold logger.
  destruct (next w tr) as [[r w'] tr'].
  destruct r as [|id].
  - assert (HS : steps_of (emit e w') = []) by (unfold emit; destruct (enabled_at _ _); reflexivity).
    repeat split.
    + unfold steps_of in *. rewrite flat_map_app, HS. apply app_nil_r.
    + exists (emit e w'). split; [reflexivity|exact HS].
  - repeat split. exists []. rewrite app_nil_r. split; reflexivity.
Qed.

(* ---------- the model satisfies the specification ---------- *)

(* the observation an ideal observer makes of the model's run *)
Definition observe (e : env) (next : handler) : observation :=
  match logger e next w_reset [] with
  | (r, w, tr) =>
      {| o_records := logs_of tr;
         o_panic := match r with Panicked id => Some id | Returned => None end;
         o_status := w_status w; o_location := w_location w;
         o_same_response := true;
         o_after_handler := match r, rev tr with Returned, EvLog _ :: _ => true | _, _ => false end |}
  end.

Lemma has_int_of_lookup k z l : lookup k l = Some (VInt z) -> has_int k z l = true.
Proof. unfold has_int. intros ->. apply Z.eqb_refl. Qed.
Lemma has_str_of_lookup k v l : lookup k l = Some (VStr v) -> has_str k v l = true.
Proof. unfold has_str. intros ->. apply bytes_eqb_refl. Qed.
Lemma absent_of_lookup k l : lookup k l = None -> absent k l = true.
Proof. unfold absent. intros ->. reflexivity. Qed.

Lemma assemble_record_ok e w o :
  o_status o = w_status w -> o_location o = w_location w ->
  record_ok (e_kind e) (e_glob e) (e_route e) (e_method e) (e_host e) (e_path e) (e_remote e) o (assemble e w) = true.
Proof.
  intros HS HL.
  destruct (record_fields_proof e w) as (Hl & Hst & Hm & Hh & Hp & _ & Hloc1 & Hloc2).
  unfold record_ok. rewrite HS, HL.
  rewrite (has_int_of_lookup _ _ _ Hst), (has_str_of_lookup _ _ _ Hm), (has_str_of_lookup _ _ _ Hh),
    (has_str_of_lookup _ _ _ Hp).
  rewrite msg_meets_spec, bytes_eqb_refl. rewrite Hl, level_spec_ok. cbn [andb].
  destruct ((300 <=? w_status w) && (w_status w <=? 399)) eqn:E3.
  - assert (HD : level (w_status w) = LevelDebug).
    { destruct (level_debug_iff (w_status w)) as [_ H]. 
      assert (X : level_eqb (level (w_status w)) LevelDebug = true) by (apply H; lia).
      destruct (level (w_status w)); try discriminate; reflexivity. }
    destruct (w_location w) as [|c l] eqn:EW.
    + apply absent_of_lookup, Hloc2. right; reflexivity.
    + apply has_str_of_lookup, Hloc1. split; [exact HD|discriminate].
  - apply absent_of_lookup, Hloc2. left. intro HD.
    destruct (level_debug_iff (w_status w)) as [H _].
    rewrite HD in H. specialize (H eq_refl). lia.
Qed.

Lemma determined_level_is_level s l : determined_level s = Some l -> level s = l.
Proof.
  destruct (level_classes_proof s) as (H2 & H3 & H4 & H5 & _).
  unfold determined_level. split_ifs; intro X; inversion X; subst.
  - apply H2; lia.
  - apply H3; lia.
  - apply H4; lia.
  - apply H5; lia.
Qed.

(* for every wrapped handler that does not itself log: the run of the model passes the
   specification's judgement *)
Lemma model_meets_spec_proof : forall (e : env) (next : handler),
  (forall r w tr, next w_reset [] = (r, w, tr) -> logs_of tr = []) ->
  spec_ok (e_kind e) (e_glob e) (e_route e) (e_method e) (e_host e) (e_path e) (e_remote e) (e_min e)
          (match next w_reset [] with (Panicked id, _, _) => Some id | _ => None end) 1%nat
          (observe e next) = true.
Proof.
  intros e next Hq. unfold observe, logger.
  destruct (next w_reset []) as [[r w] tr] eqn:H.
  specialize (Hq _ _ _ eq_refl).
  destruct r as [|id]; unfold spec_ok; cbn [o_same_response o_panic o_records o_after_handler o_status andb].
  - assert (HL : logs_of (tr ++ emit e w) = logs_of (emit e w)).
    { unfold logs_of in *. rewrite flat_map_app, Hq. reflexivity. }
    rewrite HL, emit_logs. unfold emit. cbn [assemble r_level].
    destruct (enabled_at (e_min e) (level (w_status w))) eqn:EN.
    + rewrite rev_app_distr. cbn [rev app List.length forallb].
      rewrite assemble_record_ok by reflexivity. cbn [andb].
      unfold count_ok. destruct (determined_level (w_status w)) as [l|] eqn:ED.
      * apply determined_level_is_level in ED. rewrite <- ED, EN. reflexivity.
      * reflexivity.
    + cbn [List.length forallb andb]. unfold count_ok.
      destruct (determined_level (w_status w)) as [l|] eqn:ED.
      * apply determined_level_is_level in ED. rewrite <- ED, EN. reflexivity.
      * reflexivity.
  - rewrite Hq, N.eqb_refl. reflexivity.
Qed.

Lemma run_actions_no_logs acts : forall w tr r w' tr',
  run_actions acts w tr = (r, w', tr') -> logs_of tr' = logs_of tr.
Proof.
  induction acts as [|a rest IH]; intros w tr r w' tr' H; cbn [run_actions] in H.
  - inversion H; reflexivity.
  - assert (X : logs_of (tr ++ [EvStep a]) = logs_of tr).
    { unfold logs_of. rewrite flat_map_app. cbn. apply app_nil_r. }
    destruct a; try (apply IH in H; rewrite H; exact X).
    inversion H; subst. exact X.
Qed.

(* ---------- several Logger instances in one chain ---------- *)

Lemma loggers_S n e next : loggers (S n) e next = logger e (loggers n e next).
Proof. reflexivity. Qed.

Lemma loggers_records_proof : forall n (e : env) (next : handler) w tr,
  (forall w' tr', next w tr = (Returned, w', tr') ->
     loggers n e next w tr = (Returned, w', tr' ++ List.concat (repeat (emit e w') n))) /\
  (forall id w' tr', next w tr = (Panicked id, w', tr') ->
     loggers n e next w tr = (Panicked id, w', tr')).
Proof.
  induction n as [|n IH]; intros e next w tr; split.
  - intros w' tr' H. cbn. rewrite app_nil_r. exact H.
  - intros id w' tr' H. exact H.
  - intros w' tr' H. rewrite loggers_S.
    unfold logger at 1. destruct (IH e next w tr) as [IHr _]. rewrite (IHr _ _ H).
    rewrite <- app_assoc. f_equal. f_equal.
    clear. induction n as [|n IHn]; [cbn; rewrite app_nil_r; reflexivity|].
    cbn [repeat List.concat]. rewrite <- app_assoc, IHn. reflexivity.
  - intros id w' tr' H. rewrite loggers_S.
    unfold logger at 1. destruct (IH e next w tr) as [_ IHp]. rewrite (IHp _ _ _ H). reflexivity.
Qed.

Lemma filter_app_len {A} (f : A -> bool) a b :
  List.length (filter f (a ++ b)) = (List.length (filter f a) + List.length (filter f b))%nat.
Proof. rewrite filter_app, app_length. reflexivity. Qed.

Lemma filter_repeat_true {A} (f : A -> bool) x n : f x = true -> List.length (filter f (repeat x n)) = n.
Proof. intro H. induction n as [|n IH]; cbn; [reflexivity|]. rewrite H. cbn. rewrite IH. reflexivity. Qed.

Lemma filter_repeat_false {A} (f : A -> bool) x n : f x = false -> List.length (filter f (repeat x n)) = 0%nat.
Proof. intro H. induction n as [|n IH]; cbn; [reflexivity|]. rewrite H. exact IH. Qed.

Lemma in_scope_global s a : in_scope s (global_rec a) = attached_for s a.
Proof. destruct a; [destruct s; reflexivity|reflexivity]. Qed.

Lemma global_filter s globals :
  List.length (filter (in_scope s) (map global_rec globals)) = List.length (filter (attached_for s) globals).
Proof.
  induction globals as [|a l IH]; cbn [map filter]; [reflexivity|].
  rewrite in_scope_global. destruct (attached_for s a); cbn [List.length]; rewrite IH; reflexivity.
Qed.

Lemma global_self_filter globals :
  List.length (filter (fun m => in_scope SRoute m && negb (mw_g m)) (map global_rec globals)) = 0%nat.
Proof.
  induction globals as [|a l IH]; cbn [map filter]; [reflexivity|].
  destruct a; cbn [global_rec mw_g negb]; rewrite andb_false_r; exact IH.
Qed.

Lemma hall_count_eq globals n :
  hall_count (route_mws globals n) = (List.length (filter (attached_for SRoute) globals) + n)%nat.
Proof.
  unfold hall_count, route_mws. rewrite filter_app_len, global_filter, filter_repeat_true by reflexivity. reflexivity.
Qed.

Lemma hself_count_eq globals n : hself_count (route_mws globals n) = n.
Proof.
  unfold hself_count, route_mws. rewrite filter_app_len, global_self_filter, filter_repeat_true by reflexivity. reflexivity.
Qed.

(* the composition of fox (applyMiddleware / applyRouteMiddleware over the records the options
   append) runs exactly the Logger instances the specification expects *)
Lemma chain_meets_spec_proof : forall k d globals tl al,
  d = DServe \/ has_route k = true ->      (* the alias / Lookup entry points reach route handlers only *)
  loggers_run k d globals tl al = expected_records k d globals tl al.
Proof.
  intros k d globals tl al Hd. unfold loggers_run, expected_records. cbv zeta.
  rewrite ?hall_count_eq, ?hself_count_eq.
  destruct d; destruct k; cbn [has_route scope_of] in *; try (destruct Hd; discriminate); rewrite ?hall_count_eq; unfold apply_count;
    rewrite ?global_filter; lia.
Qed.

(* a Logger attached for a set of handler kinds (WithMiddlewareFor mask) sees a request served by the
   router exactly when the kind of handler that served it is in the set — in the code and in the
   specification *)
Lemma scoped_logger_proof : forall k mask,
  let n := if existsb (hscope_eqb (scope_of k)) mask then 1%nat else 0%nat in
  loggers_run k DServe [AWithMiddlewareFor mask] 0 0 = n
  /\ expected_records k DServe [AWithMiddlewareFor mask] 0 0 = n.
Proof.
  intros k mask n.
  assert (H : expected_records k DServe [AWithMiddlewareFor mask] 0 0 = n).
  { subst n. unfold expected_records. cbv zeta. cbn [filter attached_for].
    destruct (existsb (hscope_eqb (scope_of k)) mask); destruct k; reflexivity. }
  split; [rewrite chain_meets_spec_proof by (left; reflexivity)|]; exact H.
Qed.

(* ---------- non-vacuity ---------- *)
Definition ex_env : env :=
  {| e_kind := KRoute; e_glob := Some (ResErr (ELeaf 7%N)); e_route := RSet (ResErr (EWrap (EJoin [ELeaf 3%N; ELeaf 0%N])));
     e_method := S2B "GET"; e_host := S2B "a.b"; e_path := S2B "/x"; e_remote := S2B "192.0.2.1";
     e_min := Some LevelDebug |}.
Definition ex_acts := [ASetLocation (S2B "/y"); AWriteHeader 103; AWriteHeader 302; AWriteHeader 500; AWrite 3].
