(* C20 tie A (docs/GenC20.md): statements only, each closed by [exact].  GenLogger.v is regenerated
   from logger.go of the tree under test by harness/cmd/loggen on every run of bin/check C20. *)
From FoxBase Require Import Bytes.
From FoxC20 Require Import Types GenFuns Spec Logger Corr Proofs LogSem GenLogger BridgeLogger.
Open Scope Z_scope.

(* ---- bridge: hand-written model = generated definition, for ALL inputs ---- *)

(* the wrapped handler is called first; if it panics the closure does nothing else *)
Theorem gen_logger_panic_eq : forall h e next w tr id w' tr',
  next w tr = (Panicked id, w', tr') ->
  gen_LoggerWithHandler h next e w tr = (Panicked id, w', tr').
Proof. exact BridgeLogger.gen_logger_panic_eq. Qed.
Print Assumptions gen_logger_panic_eq.

(* if it returns: what the generated closure appends is Logger.emit on the state the handler left
   (level, message, attribute list, location iff Debug and non-empty, Enabled at the record's level) *)
Theorem gen_logger_return_eq : forall h e next w tr w' tr',
  next w tr = (Returned, w', tr') ->
  gen_LoggerWithHandler h next e w tr = (Returned, w', tr' ++ emit (env_with_min e h) w').
Proof. exact BridgeLogger.gen_logger_return_eq. Qed.
Print Assumptions gen_logger_return_eq.

Theorem gen_logger_eq_min : forall h e next w tr,
  gen_LoggerWithHandler h next e w tr = logger (env_with_min e h) next w tr.
Proof. exact BridgeLogger.gen_logger_eq_min. Qed.
Print Assumptions gen_logger_eq_min.

Theorem gen_logger_eq : forall e next w tr,
  gen_LoggerWithHandler (e_min e) next e w tr = logger e next w tr.
Proof. exact BridgeLogger.gen_logger_eq. Qed.
Print Assumptions gen_logger_eq.

(* non-vacuity: the generated closure computes; a 302 with Location at a DEBUG handler gives the
   six-attribute record, a panic after WriteHeader(204) gives none; a resolver error that is not
   ErrNoClientIPResolver gives "unknown"; a WARN handler drops the INFO record *)
Example gen_logger_nonvacuous :
  logs_of (snd (gen_LoggerWithHandler (Some LevelDebug) (run_actions ex_acts) ex_env w_reset [])) =
  [R LevelDebug (S2B "192.0.2.1")
     [(S2B "status", VInt 302); (S2B "method", VStr (S2B "GET")); (S2B "host", VStr (S2B "a.b"));
      (S2B "path", VStr (S2B "/x")); (S2B "latency", VDur); (S2B "location", VStr (S2B "/y"))]]
  /\ gen_LoggerWithHandler (Some LevelDebug) (run_actions [AWriteHeader 204; APanic 5%N]) ex_env w_reset [] =
     (Panicked 5%N, {| w_size := 0; w_status := 204; w_location := [] |},
      [EvStep (AWriteHeader 204); EvStep (APanic 5%N)])
  /\ (let e := {| e_kind := KNoRoute; e_glob := Some (ResErr (ELeaf 7%N)); e_route := RNil; e_method := S2B "PUT";
                  e_host := S2B "h"; e_path := S2B "/p"; e_remote := S2B "r"; e_min := None |} in
      logs_of (snd (gen_LoggerWithHandler (Some LevelInfo) (run_actions [ASetLocation (S2B "/z"); AWriteHeader 404]) e w_reset []))
      = [R LevelWarn (S2B "unknown") [(S2B "status", VInt 404); (S2B "method", VStr (S2B "PUT")); (S2B "host", VStr (S2B "h"));
                                      (S2B "path", VStr (S2B "/p")); (S2B "latency", VDur)]]
      /\ logs_of (snd (gen_LoggerWithHandler (Some LevelWarn) (run_actions [AWrite 3]) e w_reset [])) = []).
Proof. repeat split. Qed.

Theorem gen_loggers_eq : forall n e next w tr, gen_loggers n e next w tr = loggers n e next w tr.
Proof. exact BridgeLogger.gen_loggers_eq. Qed.
Print Assumptions gen_loggers_eq.

Example gen_loggers_nonvacuous :
  List.length (logs_of (snd (gen_loggers 3 ex_env (run_actions ex_acts) w_reset []))) = 3%nat.
Proof. reflexivity. Qed.

(* ---- the property's theorems over the GENERATED definition ---- *)

Theorem gen_one_record_after_return : forall (e : env) (next : handler) w tr,
  (forall w' tr', next w tr = (Returned, w', tr') ->
     gen_LoggerWithHandler (e_min e) next e w tr = (Returned, w', tr' ++ emit e w') /\
     logs_of (snd (gen_LoggerWithHandler (e_min e) next e w tr))
     = logs_of tr' ++ (if enabled_at (e_min e) (level (w_status w')) then [assemble e w'] else [])) /\
  (forall id w' tr', next w tr = (Panicked id, w', tr') ->
     gen_LoggerWithHandler (e_min e) next e w tr = (Panicked id, w', tr') /\
     logs_of (snd (gen_LoggerWithHandler (e_min e) next e w tr)) = logs_of tr').
Proof. exact gen_one_record_after_return_proof. Qed.
Print Assumptions gen_one_record_after_return.

Theorem gen_one_record_iff_returns : forall (e : env) (next : handler) w tr,
  (forall l, enabled_at (e_min e) l = true) ->
  let '(r, _, tr') := next w tr in
  let n := List.length (logs_of (snd (gen_LoggerWithHandler (e_min e) next e w tr))) in
  (r = Returned <-> n = S (List.length (logs_of tr'))) /\
  ((exists id, r = Panicked id) <-> n = List.length (logs_of tr')).
Proof. exact gen_one_record_iff_returns_proof. Qed.
Print Assumptions gen_one_record_iff_returns.

Example gen_one_record_nonvacuous :
  (forall l, enabled_at (e_min ex_env) l = true) /\
  List.length (logs_of (snd (gen_LoggerWithHandler (e_min ex_env) (run_actions ex_acts) ex_env w_reset []))) = 1%nat /\
  List.length (logs_of (snd (gen_LoggerWithHandler (e_min ex_env) (run_actions [AWrite 1; APanic 2%N]) ex_env w_reset []))) = 0%nat.
Proof. split; [intros []; reflexivity | split; reflexivity]. Qed.

(* record_fields + ip_message_three_way about the record the generated closure appends: for any
   handler that returns and any slog handler enabled at the record's level *)
Theorem gen_record_fields : forall (h : option slog_level) (e : env) (next : handler) w tr w' tr',
  next w tr = (Returned, w', tr') ->
  enabled_at h (level (w_status w')) = true ->
  exists r, gen_LoggerWithHandler h next e w tr = (Returned, w', tr' ++ [EvLog r]) /\
  r_level r = level (w_status w') /\
  lookup (S2B "status") (r_attrs r) = Some (VInt (w_status w')) /\
  lookup (S2B "method") (r_attrs r) = Some (VStr (e_method e)) /\
  lookup (S2B "host") (r_attrs r) = Some (VStr (e_host e)) /\
  lookup (S2B "path") (r_attrs r) = Some (VStr (e_path e)) /\
  lookup (S2B "latency") (r_attrs r) = Some VDur /\
  (level (w_status w') = LevelDebug /\ w_location w' <> [] ->
     lookup (S2B "location") (r_attrs r) = Some (VStr (w_location w'))) /\
  (level (w_status w') <> LevelDebug \/ w_location w' = [] ->
     lookup (S2B "location") (r_attrs r) = None) /\
  let res := client_ip (e_kind e) (e_glob e) (e_route e) in
  (forall ip, res = ResOk ip -> r_msg r = ip) /\
  (forall er, res = ResErr er -> errors_is noResolverId er = true -> r_msg r = e_remote e) /\
  (forall er, res = ResErr er -> errors_is noResolverId er = false -> r_msg r = S2B "unknown").
Proof. exact gen_record_fields_proof. Qed.
Print Assumptions gen_record_fields.

Example gen_record_fields_nonvacuous :
  run_actions ex_acts w_reset [] =
    (Returned, {| w_size := 3; w_status := 302; w_location := S2B "/y" |}, map EvStep ex_acts)
  /\ enabled_at (Some LevelDebug) (level 302) = true
  /\ level 302 = LevelDebug /\ S2B "/y" <> [].
Proof. repeat split. discriminate. Qed.

Theorem gen_logger_transparent : forall (e : env) (next : handler) w tr,
  let '(r, w', tr') := next w tr in
  let '(r2, w2, tr2) := gen_LoggerWithHandler (e_min e) next e w tr in
  r2 = r /\ w2 = w' /\ steps_of tr2 = steps_of tr' /\
  (exists suffix, tr2 = tr' ++ suffix /\ steps_of suffix = []).
Proof. exact gen_logger_transparent_proof. Qed.
Print Assumptions gen_logger_transparent.

Example gen_logger_transparent_nonvacuous :
  fst (gen_LoggerWithHandler (e_min ex_env) (run_actions ex_acts) ex_env w_reset []) = fst (run_actions ex_acts w_reset [])
  /\ steps_of (snd (gen_LoggerWithHandler (e_min ex_env) (run_actions ex_acts) ex_env w_reset [])) = ex_acts.
Proof. split; reflexivity. Qed.

Theorem gen_loggers_records : forall n (e : env) (next : handler) w tr,
  (forall w' tr', next w tr = (Returned, w', tr') ->
     gen_loggers n e next w tr = (Returned, w', tr' ++ List.concat (repeat (emit e w') n))) /\
  (forall id w' tr', next w tr = (Panicked id, w', tr') ->
     gen_loggers n e next w tr = (Panicked id, w', tr')).
Proof. exact gen_loggers_records_proof. Qed.
Print Assumptions gen_loggers_records.

(* link to Spec.v over the generated closure: an ideal observation of ITS run passes the specification *)
Theorem gen_model_meets_spec : forall (e : env) (next : handler),
  (forall r w tr, next w_reset [] = (r, w, tr) -> logs_of tr = []) ->
  spec_ok (e_kind e) (e_glob e) (e_route e) (e_method e) (e_host e) (e_path e) (e_remote e) (e_min e)
          (match next w_reset [] with (Panicked id, _, _) => Some id | _ => None end) 1%nat
          (gen_observe e next) = true.
Proof. exact gen_model_meets_spec_proof. Qed.
Print Assumptions gen_model_meets_spec.

Example gen_model_meets_spec_nonvacuous :
  (forall r w tr, run_actions ex_acts w_reset [] = (r, w, tr) -> logs_of tr = [])
  /\ o_records (gen_observe ex_env (run_actions ex_acts)) = logs_of (snd (logger ex_env (run_actions ex_acts) w_reset [])).
Proof. split; [intros r w tr H; apply run_actions_no_logs in H; exact H | reflexivity]. Qed.
