(* C20 tie A, hand-written and TRUSTED: the meaning of the primitives that harness/cmd/loggen emits
   when it translates the handler closure of LoggerWithHandler (logger.go) into GenLogger.v.
   Nothing here mentions Logger.assemble / Logger.emit / Logger.logger: those are what
   BridgeLogger.v proves equal to the generated term.  (docs/GenC20.md) *)
From FoxBase Require Import Bytes.
From FoxC20 Require Import Types GenFuns Logger.
Open Scope Z_scope.

(* a fox.HandlerFunc applied to the context: the wrapped handler runs on the writer state and
   the event history; when it returns, the rest of the closure [k] goes on with the state it
   left; when it panics, the closure (no defer, no recover) is unwound: nothing of [k] runs *)
Definition go_call_handler (next : handler) (w : wstate) (tr : list event)
                           (k : wstate -> list event -> hres * wstate * list event)
  : hres * wstate * list event :=
  match next w tr with
  | (Returned, w', tr') => k w' tr'
  | (Panicked id, w', tr') => (Panicked id, w', tr')
  end.

(* a slog.Handler is known by its minimum level; slog.New(h) keeps it *)
Definition slog_logger := option slog_level.
Definition slog_new (h : option slog_level) : slog_logger := h.

(* slog.Int / slog.String / slog.Duration (the duration's value is time: not represented) *)
Definition slog_int (k : bytes) (v : Z) : bytes * aval := (k, VInt v).
Definition slog_string (k : bytes) (v : bytes) : bytes * aval := (k, VStr v).
Definition slog_duration (k : bytes) : bytes * aval := (k, VDur).

(* slog.Logger.LogAttrs(ctx, level, msg, attrs...): the handler's Enabled(level) is asked
   first; the context argument is not represented *)
Definition slog_log_attrs (l : slog_logger) (lvl : slog_level) (msg : bytes) (attrs : list (bytes * aval))
  : list event :=
  if enabled_at l lvl then [EvLog {| r_level := lvl; r_msg := msg; r_attrs := attrs |}] else [].

(* getters of fox.Context on the request at hand *)
Definition ctx_method (c : env) : bytes := e_method c.
Definition ctx_host (c : env) : bytes := e_host c.
Definition ctx_path (c : env) : bytes := e_path c.
Definition ctx_remote_ip_string (c : env) : bytes := e_remote c.           (* c.RemoteIP().String() *)
Definition ctx_client_ip (c : env) : resolution :=                          (* c.ClientIP() *)
  client_ip (e_kind c) (e_glob c) (e_route c).
(* getters of c.Writer() on the CURRENT writer state *)
Definition writer_status (w : wstate) : Z := w_status w.                    (* c.Writer().Status() *)
Definition writer_header_location (w : wstate) : bytes := w_location w.     (* c.Writer().Header().Get("Location") *)

(* errors.Is(err, fox.ErrNoClientIPResolver) *)
Definition errors_is_no_resolver (e : err) : bool := errors_is noResolverId e.
