(* C15 proofs, part 2: containment, response, broken-connection detection, lifecycle. *)
From FoxBase Require Import Bytes.
From FoxC15 Require Import Types GenConsts Spec Redact Recovery Lifecycle Corr ProofsRedact.
From Coq Require Import Lia ZArith.
Open Scope Z_scope.

(* ---------- induction over error trees ---------- *)
Section err_ind2.
  Variable P : err -> Prop.
  Hypothesis HA : P EAbort.
  Hypothesis HL : forall m, P (ELeaf m).
  Hypothesis HW : forall m e, P e -> P (EWrap m e).
  Hypothesis HJ : forall l, Forall P l -> P (EJoin l).
  Hypothesis HO : forall o e, P e -> P (EOp o e).
  Hypothesis HS : forall c e, P e -> P (ESys c e).
  Fixpoint err_ind2 (e : err) : P e :=
    match e with
    | EAbort => HA
    | ELeaf m => HL m
    | EWrap m e' => HW m e' (err_ind2 e')
    | EJoin l => HJ l ((fix G (l : list err) : Forall P l :=
                          match l with
                          | [] => Forall_nil P
                          | x :: r => Forall_cons x (err_ind2 x) (G r)
                          end) l)
    | EOp o e' => HO o e' (err_ind2 e')
    | ESys c e' => HS c e' (err_ind2 e')
    end.
End err_ind2.

(* ---------- errors.Is / errors.As agree with the specification's reading ---------- *)

Lemma errors_is_abort_spec e : errors_is_abort e = carries_abort_e e.
Proof.
  induction e using err_ind2; cbn [errors_is_abort carries_abort_e]; try reflexivity; try assumption.
  all: try (induction H as [|x r Hx _ IH]; cbn [existsb]; [reflexivity|]; rewrite Hx, IH; reflexivity).
Qed.

Definition as_pair (s : err) : option (bytes * err) :=
  match s with ESys c e' => Some (c, e') | _ => None end.

Lemma first_syscall_shape e : forall s, first_syscall e = Some s -> exists c e', s = ESys c e'.
Proof.
  induction e using err_ind2; cbn [first_syscall]; intros s Hs; try discriminate; try (apply IHe; exact Hs).
  - induction H as [|x r Hx _ IH]; [discriminate|].
    destruct (first_syscall x) as [sx|] eqn:E.
    + inversion Hs; subst. apply Hx. reflexivity.
    + apply IH. exact Hs.
  - inversion Hs; subst. eexists; eexists; reflexivity.
Qed.

Lemma errors_as_first e :
  errors_as_syscall e = match first_syscall e with Some s => as_pair s | None => None end.
Proof.
  induction e using err_ind2; cbn [errors_as_syscall first_syscall as_pair]; try reflexivity; try assumption.
  induction H as [|x r Hx _ IH]; [reflexivity|].
  rewrite Hx. destruct (first_syscall x) as [sx|] eqn:E.
  - destruct (first_syscall_shape x sx E) as (c & e' & ->). reflexivity.
  - exact IH.
Qed.

(* ---------- ToLower + Contains = "mentions, in any capitalisation" ---------- *)

Lemma prefix_fold p : Forall (fun c => lower c = c) p -> forall t,
  prefix_b p (map lower t) = prefix_b (map upper p) (map upper t).
Proof.
  induction 1 as [|x p Hx _ IH]; intros [|y t]; cbn [prefix_b map]; try reflexivity.
  rewrite <- char_fold, Hx, IH. reflexivity.
Qed.

Lemma infix_fold p : Forall (fun c => lower c = c) p -> forall t,
  infix_b p (map lower t) = infix_b (map upper p) (map upper t).
Proof.
  intros Hp t. induction t as [|y t IH]; cbn [map infix_b].
  - pose proof (prefix_fold p Hp []) as X. cbn [map] in X. rewrite X. reflexivity.
  - pose proof (prefix_fold p Hp (y :: t)) as X. cbn [map] in X. rewrite X, IH. reflexivity.
Qed.

Lemma lowercase_ok p : forallb (fun c => Ascii.eqb (lower c) c) p = true -> Forall (fun c => lower c = c) p.
Proof. intro H. rewrite forallb_forall in H. apply Forall_forall. intros c Hc. apply Ascii.eqb_eq, H, Hc. Qed.

Lemma conn_broken_spec v : connIsBroken v = reports_broken_connection v.
Proof.
  destruct v as [e| | |]; try reflexivity.
  destruct e as [|m|m e'|l|op e'|c e']; try reflexivity.
  unfold connIsBroken, reports_broken_connection.
  rewrite errors_as_first.
  destruct (first_syscall (EOp op e')) as [s|] eqn:E; [|reflexivity].
  destruct (first_syscall_shape _ _ E) as (c & e'' & ->).
  cbn [as_pair text]. unfold mentions, to_lower.
  rewrite !infix_fold by (apply lowercase_ok; vm_compute; reflexivity).
  reflexivity.
Qed.

(* ---------- recorder / underlying writer invariant ---------- *)

Definition consistent (w : wstate) : Prop :=
  (w_size w = -1 /\ u_wrote w = false) \/ (w_size w >= 0 /\ u_wrote w = true).

Lemma consistent_reset : consistent w_reset.
Proof. left. split; reflexivity. Qed.

Lemma written_iff w : consistent w -> written w = u_wrote w.
Proof.
  unfold written, notWritten. intros [[H1 H2]|[H1 H2]]; rewrite H2.
  - rewrite H1. reflexivity.
  - destruct (Z.eqb_spec (w_size w) (-1)); [lia|reflexivity].
Qed.

Lemma write_header_consistent w c : consistent w -> consistent (write_header w c).
Proof.
  intro H. unfold write_header. destruct (written w) eqn:EW; [exact H|].
  destruct ((c >=? 100) && (c <=? 199) && negb (c =? 101)); [exact H|].
  right. cbn. rewrite (written_iff w H) in EW. unfold under_header. rewrite EW. cbn. split; [lia|reflexivity].
Qed.

Lemma write_consistent w b : consistent w -> consistent (write w b).
Proof.
  intro H. unfold write. destruct (written w) eqn:EW.
  - right. cbn. rewrite (written_iff w H) in EW. destruct H as [[_ H2]|[H1 _]]; [congruence|]. split; [lia|exact EW].
  - right. cbn. rewrite (written_iff w H) in EW. unfold under_header. rewrite EW. cbn. split; [lia|reflexivity].
Qed.

Lemma flush_consistent w k : consistent w -> consistent (flush w k).
Proof.
  intro H. destruct k; cbn [flush]; try exact H; destruct (written w); try exact H; apply write_header_consistent; exact H.
Qed.

Lemma run_actions_consistent acts fin : forall w, consistent w -> consistent (snd (run_actions acts fin w)).
Proof.
  induction acts as [|a rest IH]; intros w H; cbn [run_actions].
  - exact H.
  - destruct a; apply IH; [apply write_header_consistent|apply write_consistent|apply flush_consistent]; exact H.
Qed.

Lemma handle500_response_proof : forall w, consistent w -> written w = false ->
  u_wrote (handle500 w) = true /\ u_status (handle500 w) = 500 /\
  u_body (handle500 w) = u_body w ++ S2B "Internal Server Error
".
Proof.
  intros w H EW. pose proof EW as EU. rewrite (written_iff w H) in EU.
  unfold handle500, write_header. rewrite EW. cbn [andb Z.geb Z.leb Z.compare negb].
  unfold write, written, under_header. rewrite EU. cbn. repeat split.
Qed.

(* ---------- containment ---------- *)

Lemma panic_contained_proof : forall (q : reqinfo) (stack : bytes) (next : handler) (w : wstate) (log : list logrec),
  match next w with
  | (Returned, w') => recovery_mw q stack next w log = (Returned, w', log)
  | (Panicked v, w') =>
      if carries_abort v
      then recovery_mw q stack next w log = (Panicked v, w', log)
      else exists w'',
          recovery_mw q stack next w log = (Returned, w'', logged q v stack log) /\
          (written w' = true -> w'' = w') /\
          (written w' = false -> reports_broken_connection v = true -> w'' = w') /\
          (written w' = false -> reports_broken_connection v = false -> w'' = handle500 w')
  end.
Proof.
  intros q stack next w log. unfold recovery_mw.
  destruct (next w) as [[|v] w'] eqn:E; [reflexivity|].
  assert (HA : match v with PErr e => errors_is_abort e | _ => false end = carries_abort v).
  { destruct v; try reflexivity; apply errors_is_abort_spec. }
  rewrite HA. destruct (carries_abort v); [reflexivity|].
  rewrite conn_broken_spec.
  destruct (written w') eqn:EW; cbn [negb andb].
  - exists w'. repeat split; intros; try reflexivity; discriminate.
  - destruct (reports_broken_connection v) eqn:EB; cbn [negb].
    + exists w'. repeat split; intros; try reflexivity; discriminate.
    + exists (handle500 w'). repeat split; intros; try reflexivity; discriminate.
Qed.

(* ---------- an ideal observation of the model passes the specification's containment and
   response clauses, for every scripted handler ---------- *)

Definition observe (q : reqinfo) (stack : bytes) (acts : list action) (v : pval) (vid : N) : pobs :=
  let next := run_actions acts (Some v) in
  let pre := snd (next w_reset) in
  match recovery_mw q stack next w_reset [] with
  | (r, w, log) =>
      {| o_escaped := match r with Panicked _ => Some vid | Returned => None end;
         o_pre_started := u_wrote pre; o_untouched := under_eqb pre w;
         o_wrote := u_wrote w; o_status := u_status w; o_body := u_body w; o_records := log; o_records_visible := true;
         o_followup_ok := true; o_write_ok := true; o_routes_same := true |}
  end.

Lemma run_actions_panics acts v : forall w, fst (run_actions acts (Some v) w) = Panicked v.
Proof. induction acts as [|a rest IH]; intro w; cbn [run_actions]; [reflexivity|destruct a; apply IH]. Qed.

Lemma under_eqb_refl w : under_eqb w w = true.
Proof. unfold under_eqb. rewrite Bool.eqb_reflx, Z.eqb_refl, bytes_eqb_refl. reflexivity. Qed.

Lemma model_meets_spec_response_proof : forall q stack acts v vid,
  let o := observe q stack acts v vid in
  contained_ok v vid o = true /\ response_ok v o = true /\
  (carries_abort v = false -> o_records o = logged q v stack []).
Proof.
  intros q stack acts v vid. unfold observe.
  pose proof (panic_contained_proof q stack (run_actions acts (Some v)) w_reset []) as PC.
  pose proof (run_actions_consistent acts (Some v) w_reset consistent_reset) as HC.
  pose proof (run_actions_panics acts v w_reset) as HP.
  destruct (run_actions acts (Some v) w_reset) as [r pre] eqn:E. cbn [fst snd] in *. subst r.
  unfold contained_ok, response_ok.
  destruct (carries_abort v) eqn:EA.
  - rewrite PC. cbn. rewrite N.eqb_refl. repeat split. discriminate.
  - destruct PC as (w'' & -> & H1 & H2 & H3). cbn.
    rewrite <- (written_iff pre HC).
    destruct (written pre) eqn:EW.
    + rewrite (H1 eq_refl), under_eqb_refl. repeat split.
    + destruct (reports_broken_connection v) eqn:EB.
      * rewrite (H2 eq_refl eq_refl), under_eqb_refl. rewrite <- (written_iff pre HC), EW. repeat split.
      * rewrite (H3 eq_refl eq_refl).
        destruct (handle500_response_proof pre HC EW) as (Hw & Hs & _). rewrite Hw, Hs. repeat split.
Qed.

(* ---------- lifecycle ---------- *)

Lemma apply_op_open t o : t_write t = true -> t_root t <> None ->
  t_write (apply_op t o) = true /\ t_root (apply_op t o) <> None.
Proof.
  intros Hw Hr. unfold apply_op. destruct (t_root t) as [rs|] eqn:E; [|congruence].
  rewrite Hw. cbn [negb].
  destruct o as [k v|k v|k|ms|k]; try (destruct (mem k rs)); cbn;
    try (split; [reflexivity|discriminate]); split; try exact Hw; rewrite E; discriminate.
Qed.

Lemma fold_open ops : forall t, t_write t = true -> t_root t <> None ->
  t_write (fold_left apply_op ops t) = true /\ t_root (fold_left apply_op ops t) <> None.
Proof.
  induction ops as [|o ops IH]; intros t Hw Hr; cbn [fold_left]; [split; assumption|].
  destruct (apply_op_open t o Hw Hr) as [H1 H2]. apply IH; assumption.
Qed.

Lemma apply_op_ro t o : t_write t = false -> apply_op t o = t.
Proof. intro Hw. unfold apply_op. destruct (t_root t); [|reflexivity]. rewrite Hw. reflexivity. Qed.

Lemma fold_ro ops : forall t, t_write t = false -> fold_left apply_op ops t = t.
Proof. induction ops as [|o ops IH]; intros t Hw; cbn [fold_left]; [reflexivity|]. rewrite apply_op_ro by exact Hw. apply IH, Hw. Qed.

Lemma abort_open st t : t_write t = true -> t_root t <> None ->
  fst (abort st t) = {| locked := false; published := published st |}.
Proof. intros Hw Hr. unfold abort. rewrite Hw. cbn [negb]. destruct (t_root t); [reflexivity|congruence]. Qed.

Lemma abort_open_full st t : t_write t = true -> t_root t <> None ->
  abort st t = ({| locked := false; published := published st |}, {| t_write := true; t_root := None |}).
Proof. intros Hw Hr. unfold abort. rewrite Hw. cbn [negb]. destruct (t_root t); [reflexivity|congruence]. Qed.

Lemma unlocked_eta st : locked st = false -> {| locked := false; published := published st |} = st.
Proof. destruct st as [l p]; cbn; intros ->; reflexivity. Qed.

(* a panic in the function of Updates / View, or in user code run by a write helper: the same
   value propagates, the lock is free again and the published routes are unchanged *)
Lemma router_usable_after_panic_proof : forall k st ops id,
  locked st = false -> (k = THelper -> exists o, ops = [o]) ->
  run_txn k st ops (EndPanic id) = Some (TPanic id, st) /\ write_possible st = true.
Proof.
  intros k st ops id Hl Hk.
  assert (WP : write_possible st = true).
  { unfold write_possible, helper, txn_begin. rewrite Hl.
    destruct (op_fails (published st) (OpHandle (S2B "GET /probe") 0%N)); [reflexivity|].
    destruct (commit _ _); reflexivity. }
  split; [|exact WP].
  destruct k; cbn [run_txn].
  - unfold updates, txn_begin. rewrite Hl.
    destruct (fold_open ops {| t_write := true; t_root := Some (published st) |} eq_refl ltac:(discriminate)) as [H1 H2].
    rewrite abort_open by assumption. cbn [published]. rewrite unlocked_eta by exact Hl. reflexivity.
  - unfold view, txn_begin. rewrite fold_ro by reflexivity. unfold abort. cbn. reflexivity.
  - destruct (Hk eq_refl) as [o ->]. unfold helper, txn_begin. rewrite Hl.
    rewrite abort_open by (cbn; congruence). cbn [published]. rewrite unlocked_eta by exact Hl. reflexivity.
  - unfold manual, txn_begin. rewrite Hl.
    destruct (fold_open ops {| t_write := true; t_root := Some (published st) |} eq_refl ltac:(discriminate)) as [H1 H2].
    rewrite abort_open by assumption. cbn [published]. rewrite unlocked_eta by exact Hl. reflexivity.
Qed.

(* whatever the ending: the lock is free afterwards and a later write is possible; routes
   change only through a successful commit *)
Lemma lock_released_always_proof : forall k st ops e out st',
  locked st = false -> run_txn k st ops e = Some (out, st') ->
  locked st' = false /\ write_possible st' = true /\ (out <> TOk -> published st' = published st).
Proof.
  intros k st ops e out st' Hl Hrun.
  assert (WP : forall s, locked s = false -> write_possible s = true).
  { intros s Hs. unfold write_possible, helper, txn_begin. rewrite Hs.
    destruct (op_fails (published s) (OpHandle (S2B "GET /probe") 0%N)); [reflexivity|]. destruct (commit _ _); reflexivity. }
  assert (G : locked st' = false /\ (out <> TOk -> published st' = published st)).
  { destruct k; cbn [run_txn] in Hrun.
    - unfold updates, txn_begin in Hrun. rewrite Hl in Hrun.
      destruct (fold_open ops {| t_write := true; t_root := Some (published st) |} eq_refl ltac:(discriminate)) as [H1 H2].
      destruct e.
      + rewrite abort_open in Hrun by assumption. inversion Hrun; subst. split; [reflexivity|reflexivity].
      + rewrite abort_open in Hrun by assumption. inversion Hrun; subst. split; reflexivity.
      + unfold commit in Hrun. rewrite H1 in Hrun. cbn [negb] in Hrun.
        destruct (t_root (fold_left apply_op ops _)) as [rs|]; [|congruence].
        cbn in Hrun. inversion Hrun; subst. split; [reflexivity|congruence].
    - unfold view, txn_begin in Hrun. rewrite fold_ro in Hrun by reflexivity. cbn in Hrun.
      inversion Hrun; subst. split; [exact Hl|reflexivity].
    - destruct ops as [|o [|? ?]]; try discriminate.
      unfold helper, txn_begin in Hrun. rewrite Hl in Hrun.
      destruct e.
      + rewrite abort_open in Hrun by (cbn; congruence). inversion Hrun; subst. split; reflexivity.
      + destruct (op_fails (published st) o).
        * rewrite abort_open in Hrun by (cbn; congruence). inversion Hrun; subst. split; reflexivity.
        * destruct (apply_op_open {| t_write := true; t_root := Some (published st) |} o eq_refl ltac:(discriminate)) as [H1 H2].
          unfold commit in Hrun. rewrite H1 in Hrun. cbn [negb] in Hrun.
          destruct (t_root (apply_op _ o)) as [rs|]; [|congruence].
          cbn in Hrun. inversion Hrun; subst. split; [reflexivity|congruence].
      + destruct (op_fails (published st) o).
        * rewrite abort_open in Hrun by (cbn; congruence). inversion Hrun; subst. split; reflexivity.
        * destruct (apply_op_open {| t_write := true; t_root := Some (published st) |} o eq_refl ltac:(discriminate)) as [H1 H2].
          unfold commit in Hrun. rewrite H1 in Hrun. cbn [negb] in Hrun.
          destruct (t_root (apply_op _ o)) as [rs|]; [|congruence].
          cbn in Hrun. inversion Hrun; subst. split; [reflexivity|congruence].
    - unfold manual, txn_begin in Hrun. rewrite Hl in Hrun.
      destruct (fold_open ops {| t_write := true; t_root := Some (published st) |} eq_refl ltac:(discriminate)) as [H1 H2].
      destruct e.
      + rewrite abort_open in Hrun by assumption. inversion Hrun; subst. split; reflexivity.
      + rewrite abort_open_full in Hrun by assumption. cbn in Hrun. inversion Hrun; subst. split; reflexivity.
      + unfold commit in Hrun. rewrite H1 in Hrun. cbn [negb] in Hrun.
        destruct (t_root (fold_left apply_op ops _)) as [rs|]; [|congruence].
        cbn in Hrun. inversion Hrun; subst. split; [reflexivity|congruence]. }
  destruct G as [G1 G2]. split; [exact G1|]. split; [apply WP; exact G1|exact G2].
Qed.

(* ---------- non-vacuity material ---------- *)
Definition ex_broken : pval :=
  PErr (EOp (S2B "write") (EWrap (S2B "ctx") (EJoin [ELeaf (S2B "boom"); ESys (S2B "write") (ELeaf (S2B "Broken Pipe"))]))).
Definition ex_abort : pval := PErr (EWrap (S2B "w") (EJoin [ELeaf (S2B "x"); EOp (S2B "read") EAbort])).
Definition ex_q : reqinfo :=
  Q RouteHandler (S2B "/r/{id}") true [(S2B "id", S2B "1")]
    (render (S2B "GET /r/1 HTTP/1.1") [(S2B "Host", S2B "h"); (S2B "x-csrf-TOKEN", S2B "secret"); (S2B "Accept", S2B "*/*")])
    true.
