(* C15 specification, written from the property text (properties.jsonl, C15); it does not
   look at recovery.go / fox.go.  It judges OBSERVATIONS made on the running router.

   "With the Recovery middleware installed, a panic with any value raised by a handler or
    inner middleware never escapes ServeHTTP, except http.ErrAbortHandler which is re-raised
    unchanged; the client gets a 500 response if nothing had been written (nothing at all when
    the panic value reports a broken connection) and the already started response is left
    untouched otherwise.  A panic in a handler or inside a managed transaction function leaves
    the router fully usable: its routes unchanged, later requests served normally and the
    writer lock released.  The diagnostic record logged for a recovered panic names the route,
    its parameters and the request line but never contains the values of credential-bearing
    headers (Authorization, Proxy-Authorization, Cookie, Set-Cookie, X-CSRF-Token,
    X-Vault-Token), however their names are capitalised." *)
From FoxBase Require Import Bytes.
From FoxC15 Require Import Types.
Open Scope Z_scope.

(* ---------- credential-bearing header names, whatever their capitalisation ---------- *)

Definition credential_names : list bytes :=
  [S2B "Authorization"; S2B "Proxy-Authorization"; S2B "Cookie"; S2B "Set-Cookie";
   S2B "X-CSRF-Token"; S2B "X-Vault-Token"].

(* ASCII upper-casing: 'a'..'z' -> 'A'..'Z', every other byte unchanged *)
Definition upper (c : ascii) : ascii :=
  let n := N_of_ascii c in
  if ((97 <=? n) && (n <=? 122))%N then ascii_of_N (n - 32) else c.

Definition same_ignoring_case (a b : bytes) : Prop := map upper a = map upper b.
Definition same_ignoring_case_b (a b : bytes) : bool := bytes_eqb (map upper a) (map upper b).

Definition sensitive (name : bytes) : Prop :=
  exists c, In c credential_names /\ same_ignoring_case name c.
Definition sensitive_b (name : bytes) : bool :=
  existsb (same_ignoring_case_b name) credential_names.

(* ---------- classes of panic values the property singles out ---------- *)

(* "http.ErrAbortHandler": the value is an error that is (in the sense of errors.Is: itself,
   or anything it wraps) the sentinel *)
Fixpoint carries_abort_e (e : err) : bool :=
  match e with
  | EAbort => true
  | ELeaf _ => false
  | EWrap _ e' | EOp _ e' | ESys _ e' => carries_abort_e e'
  | EJoin l => existsb carries_abort_e l
  end.
Definition carries_abort (v : pval) : bool :=
  match v with PErr e => carries_abort_e e | _ => false end.

(* "the panic value reports a broken connection": it is a network operation error
   (net.OpError) and the operating-system call error underneath it (the first one met going
   down the chain) says "broken pipe" or "connection reset by peer", in any capitalisation *)
Fixpoint first_syscall (e : err) : option err :=
  match e with
  | ESys _ _ => Some e
  | EAbort | ELeaf _ => None
  | EWrap _ e' | EOp _ e' => first_syscall e'
  | EJoin l =>
      (fix first (l : list err) : option err :=
         match l with
         | [] => None
         | x :: r => match first_syscall x with Some s => Some s | None => first r end
         end) l
  end.

Definition mentions (what : bytes) (txt : bytes) : bool := infix_b (map upper what) (map upper txt).

Definition reports_broken_connection (v : pval) : bool :=
  match v with
  | PErr (EOp op e') =>
      match first_syscall (EOp op e') with
      | Some s => mentions (S2B "broken pipe") (text s) || mentions (S2B "connection reset by peer") (text s)
      | None => false
      end
  | _ => false
  end.

(* ---------- observation of one request whose handler (or inner middleware) panics ---------- *)

Record pobs := {
  o_escaped : option N;     (* Some id: ServeHTTP panicked with the harness' panic value number id
                               (identity checked in Go; 999 = some other value) *)
  o_pre_started : bool;     (* the underlying writer had been given a status line when the panic was raised *)
  o_untouched : bool;       (* what the underlying writer holds at the end = what it held when the panic was raised *)
  o_wrote : bool;           (* at the end: a status line was written *)
  o_status : Z;             (* at the end: that status (0 if none) *)
  o_body : bytes;           (* at the end: the body *)
  o_records : list logrec;  (* records received by the capturing slog.Handler *)
  o_records_visible : bool; (* false: the middleware logs to a handler the observer cannot read (Recovery(), CustomRecovery()) *)
  o_followup_ok : bool;     (* a later request to a control route is served normally *)
  o_write_ok : bool;        (* a later Handle + Delete completes (the writer lock is free) *)
  o_routes_same : bool      (* the registered routes are those registered before the request *)
}.

Definition lookup (k : bytes) (l : list (bytes * aval)) : option aval :=
  match find (fun p => bytes_eqb (fst p) k) l with Some p => Some (snd p) | None => None end.

(* the value [v] occurs nowhere in the record *)
Definition aval_mentions (v : bytes) (a : aval) : bool :=
  match a with
  | VStr b => infix_b v b
  | VGroup l => existsb (fun kv => infix_b v (fst kv) || infix_b v (snd kv)) l
  | _ => false
  end.
Definition record_mentions (v : bytes) (r : logrec) : bool :=
  infix_b v (r_msg r) || existsb (fun a => infix_b v (fst a) || aval_mentions v (snd a)) (r_attrs r).

Definition no_credential_value (headers : list (bytes * bytes)) (r : logrec) : bool :=
  forallb (fun h => negb (sensitive_b (fst h)) || negb (record_mentions (snd h) r)) headers.

Definition record_ok (sc : scope) (pattern : bytes) (params : list (bytes * bytes)) (reqline : bytes)
           (headers : list (bytes * bytes)) (r : logrec) : bool :=
  infix_b reqline (r_msg r)
  && no_credential_value headers r
  && match sc with
     | RouteHandler =>
         match lookup (S2B "route") (r_attrs r) with Some (VStr p) => bytes_eqb p pattern | _ => false end
         && match params, lookup (S2B "params") (r_attrs r) with
            | [], None => true
            | ps, Some (VGroup g) => list_eqb kv_eqb ps g
            | _, _ => false
            end
     | _ => true      (* no route to name outside the route scope *)
     end.

Definition usable (o : pobs) : bool := o_followup_ok o && o_write_ok o && o_routes_same o.

(* never escapes, except ErrAbortHandler, re-raised unchanged *)
Definition contained_ok (v : pval) (vid : N) (o : pobs) : bool :=
  if carries_abort v
  then match o_escaped o with Some id => N.eqb id vid | None => false end
  else match o_escaped o with Some _ => false | None => true end.

(* 500 if nothing had been written (nothing at all for a broken connection); a started
   response is left untouched *)
Definition response_ok (v : pval) (o : pobs) : bool :=
  if carries_abort v then true
  else if o_pre_started o then o_untouched o
  else if reports_broken_connection v then o_untouched o && negb (o_wrote o)
  else o_wrote o && (o_status o =? 500).

(* one diagnostic record for a recovered panic, when the log handler given to the middleware
   accepts records at level Error (none can exist otherwise); whatever the handler does with
   records must not change the containment and response clauses *)
Definition records_ok (sc : scope) (pattern : bytes) (params : list (bytes * bytes)) (reqline : bytes)
           (headers : list (bytes * bytes)) (enabled : bool) (v : pval) (o : pobs) : bool :=
  if carries_abort v then true
  else if negb (o_records_visible o) then true
  else match o_records o with
       | [r] => enabled && record_ok sc pattern params reqline headers r
       | [] => negb enabled
       | _ => false
       end.

Definition spec_panic_ok (sc : scope) (pattern : bytes) (params : list (bytes * bytes)) (reqline : bytes)
           (headers : list (bytes * bytes)) (enabled : bool) (v : pval) (vid : N) (o : pobs) : bool :=
  usable o && contained_ok v vid o && response_ok v o && records_ok sc pattern params reqline headers enabled v o.

(* ---------- observation of a managed transaction (Updates / View) ---------- *)

Definition route_eqb (a b : bytes * N) : bool := bytes_eqb (fst a) (fst b) && N.eqb (snd a) (snd b).

Record tobs := {
  t_out : tout;                  (* how Updates / View / the helper ended (panic value identity checked in Go) *)
  t_routes : list (bytes * N);   (* afterwards: (method+" "+pattern, version of the handler a request reaches), sorted *)
  t_views_agree : bool;          (* Iter().All, Has and one request per route tell the same route set *)
  t_followup_ok : bool;          (* a later request (to an unregistered path) is answered 404 without panic *)
  t_write_ok : bool
}.

(* [panics]: Some id when the transaction function panics with value number id; [aborted]: the
   transaction ended without commit (panic, error returned, explicit Abort) *)
Definition spec_txn_ok (initial : list (bytes * N)) (panics : option N) (aborted : bool) (o : tobs) : bool :=
  t_followup_ok o && t_write_ok o && t_views_agree o
  && match panics with Some id => tout_eqb (t_out o) (TPanic id) | None => true end
  && (if aborted then list_eqb route_eqb (t_routes o) initial else true).
