(* C15 shared vocabulary: handler scopes, panic values (error trees), slog records. *)
From FoxBase Require Import Bytes.

(* the HandlerScope constants of fox.go:81-92 (c15gen checks the list against the source) *)
Inductive scope := RouteHandler | NoRouteHandler | NoMethodHandler | RedirectHandler | OptionsHandler.

Definition scope_eqb (a b : scope) : bool :=
  match a, b with
  | RouteHandler, RouteHandler | NoRouteHandler, NoRouteHandler | NoMethodHandler, NoMethodHandler
  | RedirectHandler, RedirectHandler | OptionsHandler, OptionsHandler => true
  | _, _ => false
  end.

(* Go error values as far as errors.Is / errors.As / Error() can see them *)
Inductive err :=
| EAbort                              (* the sentinel http.ErrAbortHandler *)
| ELeaf (msg : bytes)                 (* an error without Unwrap; Error() = msg *)
| EWrap (msg : bytes) (e : err)       (* Unwrap() error = e; Error() = msg *)
| EJoin (l : list err)                (* errors.Join: Unwrap() []error; Error() = texts joined by "\n" *)
| EOp (op : bytes) (e : err)          (* *net.OpError{Op: op, Err: e}; Error() = op ": " text e *)
| ESys (call : bytes) (e : err).      (* *os.SyscallError{Syscall: call, Err: e}; Error() = call ": " text e *)

(* text of an error: what Error() returns (net.OpError with only Op and Err set) *)
Definition colon_sp : bytes := S2B ": ".
Fixpoint text (e : err) : bytes :=
  match e with
  | EAbort => S2B "net/http: abort Handler"
  | ELeaf m => m
  | EWrap m _ => m
  | EJoin l =>
      (fix join (l : list err) : bytes :=
         match l with
         | [] => []
         | [x] => text x
         | x :: r => text x ++ S2B "
" ++ join r
         end) l
  | EOp op e' => op ++ colon_sp ++ text e'
  | ESys call e' => call ++ colon_sp ++ text e'
  end.


(* values given to panic().  panic(nil) reaches recover() as *runtime.PanicNilError, an
   error: the harness writes it PErr (ELeaf <its text>). *)
Inductive pval :=
| PErr (e : err)
| PStr (s : bytes)
| PInt (z : Z)
| PCustom (id : N).                   (* a value of some non-error type, number id *)

(* slog attribute values as projected by the capturing handler *)
Inductive aval := VStr (b : bytes) | VInt (z : Z) | VGroup (l : list (bytes * bytes)) | VAny (id : N).

Definition kv_eqb (a b : bytes * bytes) : bool := bytes_eqb (fst a) (fst b) && bytes_eqb (snd a) (snd b).

Definition aval_eqb (a b : aval) : bool :=
  match a, b with
  | VStr x, VStr y => bytes_eqb x y
  | VInt x, VInt y => Z.eqb x y
  | VGroup x, VGroup y => list_eqb kv_eqb x y
  | VAny x, VAny y => N.eqb x y
  | _, _ => false
  end.

(* a record at level ERROR: message and attributes *)
Record logrec := { r_msg : bytes; r_attrs : list (bytes * aval) }.

Definition attr_eqb (a b : bytes * aval) : bool := bytes_eqb (fst a) (fst b) && aval_eqb (snd a) (snd b).

(* is [p] a prefix of [s] / does [p] occur in [s] *)
Fixpoint prefix_b (p s : bytes) : bool :=
  match p, s with
  | [], _ => true
  | x :: p', y :: s' => Ascii.eqb x y && prefix_b p' s'
  | _ :: _, [] => false
  end.

Fixpoint infix_b (p s : bytes) : bool :=
  prefix_b p s || match s with [] => false | _ :: s' => infix_b p s' end.

(* how a managed transaction / write helper ended *)
Inductive tout := TPanic (id : N) | TErr | TOk.
Definition tout_eqb (a b : tout) : bool :=
  match a, b with TPanic x, TPanic y => N.eqb x y | TErr, TErr | TOk, TOk => true | _, _ => false end.

