(* C15, tie A (docs/GenC15.md): the hand-written decision model (Recovery.v, Redact.v) is equal, for
   ALL inputs, to the definitions regenerated from recovery.go on this run (GenRecovery.v, by
   harness/cmd/recovgen).  One lemma per decision, from the particular to the whole, so that the
   first lemma that no longer compiles names what changed. *)
From FoxBase Require Import Bytes.
From FoxC15 Require Import Types GenConsts Spec Redact Recovery RecSem GenRecovery ProofsRedact ProofsRecovery.
Open Scope Z_scope.

(* ---- what the hand-written model says about the deferred function alone ---- *)
Definition is_abort (v : pval) : bool := match v with PErr e => errors_is_abort e | _ => false end.

(* recovery(): the body of Recovery.recovery_mw after `next w` has ended, with the recovery
   function as a parameter (Recovery.v fixes it to handle500); the recovery function is an external
   callback, so it is given everything done so far: the writer AND the log (that is what makes the
   order `log, then handle` visible) *)
Definition model_recovery (handle : wstate -> list logrec -> pval -> wstate) (q : reqinfo) (stack : bytes)
           (rv : option pval) (w : wstate) (log : list logrec) : outcome :=
  match rv with
  | None => (Returned, w, log)
  | Some v =>
      if is_abort v then (Panicked v, w, log)
      else
        let log' := logged q v stack log in
        if negb (written w) && negb (connIsBroken v)
        then (Returned, handle w log' v, log')
        else (Returned, w, log')
  end.

Lemma recovery_mw_is_model_recovery q stack next w log :
  recovery_mw q stack next w log =
  match next w with
  | (Returned, w') => model_recovery (fun w _ _ => handle500 w) q stack None w' log
  | (Panicked v, w') => model_recovery (fun w _ _ => handle500 w) q stack (Some v) w' log
  end.
Proof. unfold recovery_mw, model_recovery, is_abort. destruct (next w) as [[|v] w']; reflexivity. Qed.

(* ---- generic facts about the primitives ---- *)
Lemma range_seq_ext {A S : Type} (l : list A) (f g : S -> A -> S) :
  (forall s a, f s a = g s a) -> forall st, range_seq l f st = range_seq l g st.
Proof.
  intro H. unfold range_seq. induction l as [|x l IH]; intro st; simpl; [reflexivity|].
  rewrite H. apply IH.
Qed.

Lemma range_seq_app (f : bytes -> bytes) (l : list bytes) : forall sb,
  range_seq l (fun sb h => sb ++ f h) sb = sb ++ flat_map f l.
Proof.
  unfold range_seq. induction l as [|x l IH]; intro sb; simpl.
  - now rewrite app_nil_r.
  - rewrite IH. now rewrite app_assoc.
Qed.

(* one round of the header loop, in the shape the code has: separator; index of ':'; no colon:
   nothing more; blacklisted name: name and ": <redacted>"; else the line *)
Lemma dump_step (sb h : bytes) :
  (if bytes_IndexByte h colon <? 0 then sb ++ reqHeaderSep
   else if isBlacklistedHeader (slice_to h (bytes_IndexByte h colon))
        then ((sb ++ reqHeaderSep) ++ slice_to h (bytes_IndexByte h colon)) ++ redacted
        else (sb ++ reqHeaderSep) ++ h)
  = sb ++ (reqHeaderSep ++ dump_line h).
Proof.
  unfold bytes_IndexByte, dump_line, slice_to.
  destruct (index_byte colon h) as [i|].
  - replace (Z.of_nat i <? 0) with false by (symmetry; apply Z.ltb_ge; lia).
    rewrite Nat2Z.id.
    destruct (isBlacklistedHeader (firstn i h)); now rewrite <- !app_assoc.
  - change (-1 <? 0) with true. cbv iota. now rewrite app_nil_r.
Qed.

(* ---- the separator ---- *)
Lemma gen_reqHeaderSep_eq_l : gen_reqHeaderSep = reqHeaderSep.
Proof. reflexivity. Qed.

(* ---- connIsBroken ---- *)
Lemma gen_connIsBroken_eq_l : forall v, gen_connIsBroken v = connIsBroken v.
Proof.
  intros [e| | |]; try reflexivity.
  destruct e; try reflexivity.
  unfold gen_connIsBroken, connIsBroken, assert_OpError, errors_As_SyscallError.
  destruct (errors_as_syscall (EOp op e)) as [[c e'']|]; reflexivity.
Qed.

(* ---- DefaultHandleRecovery ---- *)
Lemma gen_DefaultHandleRecovery_eq_l : forall w v, gen_DefaultHandleRecovery w v = handle500 w.
Proof. reflexivity. Qed.

(* ---- recovery(): decision by decision ---- *)
Ltac abort_cases v Hab :=
  unfold is_abort in Hab; unfold gen_recovery, errors_Is_ErrAbortHandler;
  destruct v as [e| | |]; cbn [comma_ok_and assert_error];
  try rewrite Hab; cbv zeta.

Ltac msg_tac q :=
  unfold sb_grow, message_prefix, logged_dump, bytes_Cut_crlf, SplitBytesSeq_crlf;
  destruct (cut_crlf (q_dump q)) as [[before after]|];
  try (erewrite range_seq_ext by (intros; apply dump_step);
       rewrite (range_seq_app (fun h => reqHeaderSep ++ dump_line h)));
  cbn [app]; rewrite <- ?app_assoc; reflexivity.

Ltac attrs_tac q :=
  unfold string_is_empty, mapParamsToAttr, slog_String, slog_Group, slog_Any, err_Error, error_attr;
  destruct (q_pattern q); destruct (q_has_route q); cbn [app]; try destruct (q_params q); reflexivity.

(* 1. nothing recovered: nothing happens *)
Lemma gen_recovery_no_panic_l : forall handle q stack w log,
  gen_recovery handle q stack None w log = (Returned, w, log).
Proof. reflexivity. Qed.

(* 2. errors.Is(e, http.ErrAbortHandler): the same value is re-raised before anything else is done *)
Lemma gen_recovery_repanics_abort_l : forall handle q stack v w log,
  is_abort v = true -> gen_recovery handle q stack (Some v) w log = (Panicked v, w, log).
Proof.
  intros handle q stack v w log Hab. unfold is_abort in Hab.
  destruct v as [e| | |]; try discriminate.
  unfold gen_recovery, errors_Is_ErrAbortHandler. cbn [comma_ok_and assert_error]. now rewrite Hab.
Qed.

(* 3. the message: prefix, dump with the per-line redaction decision, "Stack:", stack text *)
Lemma gen_recovery_message_l : forall handle q stack v w log,
  is_abort v = false ->
  map r_msg (snd (gen_recovery handle q stack (Some v) w log)) = map r_msg (logged q v stack log).
Proof.
  intros handle q stack v w log Hab. abort_cases v Hab.
  all: unfold logger_Error, logged; destruct (q_log_enabled q); cbn [snd]; [|reflexivity].
  all: rewrite !map_app; f_equal; cbn [map r_msg record]; f_equal.
  all: msg_tac q.
Qed.

(* 4. the attributes: route (pattern, or the scope name when the pattern is empty), params (only
   with a route; an empty group is dropped), error (Error() of an error, the value otherwise) *)
Lemma gen_recovery_attrs_l : forall handle q stack v w log,
  is_abort v = false ->
  map r_attrs (snd (gen_recovery handle q stack (Some v) w log)) = map r_attrs (logged q v stack log).
Proof.
  intros handle q stack v w log Hab. abort_cases v Hab.
  all: unfold logger_Error, logged; destruct (q_log_enabled q); cbn [snd]; [|reflexivity].
  all: rewrite !map_app; f_equal; cbn [map r_attrs record]; f_equal.
  all: attrs_tac q.
Qed.

(* 5. the record as a whole, appended only when the log handler is enabled *)
Lemma gen_recovery_log_l : forall handle q stack v w log,
  is_abort v = false ->
  snd (gen_recovery handle q stack (Some v) w log) = logged q v stack log.
Proof.
  intros handle q stack v w log Hab.
  abort_cases v Hab.
  all: unfold logger_Error, logged; destruct (q_log_enabled q); cbn [snd]; [|reflexivity].
  all: f_equal; f_equal; unfold record; f_equal; [msg_tac q | attrs_tac q].
Qed.

(* 6. the response: the recovery function runs iff nothing was written and the value does not
   report a broken connection; it runs after the record was logged, on the writer as it is *)
Lemma gen_recovery_response_l : forall handle q stack v w log,
  is_abort v = false ->
  fst (gen_recovery handle q stack (Some v) w log) =
  (Returned, if negb (written w) && negb (connIsBroken v) then handle w (logged q v stack log) v else w).
Proof.
  intros handle q stack v w log Hab.
  pose proof (gen_recovery_log_l handle q stack v w log Hab) as Hl. revert Hl.
  abort_cases v Hab.
  all: cbn [fst snd]; intro Hl; rewrite Hl, gen_connIsBroken_eq_l; reflexivity.
Qed.

(* ---- the deferred function as a whole ---- *)
Lemma gen_recovery_eq_l : forall handle q stack rv w log,
  gen_recovery handle q stack rv w log = model_recovery handle q stack rv w log.
Proof.
  intros handle q stack [v|] w log; [|reflexivity].
  unfold model_recovery. destruct (is_abort v) eqn:Hab.
  - now apply gen_recovery_repanics_abort_l.
  - rewrite (surjective_pairing (gen_recovery handle q stack (Some v) w log)).
    rewrite gen_recovery_log_l, gen_recovery_response_l by exact Hab.
    cbv zeta. destruct (negb (written w) && negb (connIsBroken v)); reflexivity.
Qed.

(* ---- the middleware: defer recovery(..); next(c) — and Recovery() installs DefaultHandleRecovery ---- *)
Lemma gen_middleware_eq_l : forall handle q stack next w log,
  gen_middleware handle q stack next w log =
  match next w with
  | (Returned, w') => model_recovery handle q stack None w' log
  | (Panicked v, w') => model_recovery handle q stack (Some v) w' log
  end.
Proof.
  intros. unfold gen_middleware, run_deferred.
  destruct (next w) as [[|v] w']; apply gen_recovery_eq_l.
Qed.

Lemma model_recovery_ext h1 h2 q stack rv w log :
  (forall w l v, h1 w l v = h2 w l v) -> model_recovery h1 q stack rv w log = model_recovery h2 q stack rv w log.
Proof. intro H. unfold model_recovery. destruct rv; [|reflexivity]. now rewrite H. Qed.

Lemma gen_Recovery_eq_l : forall q stack next w log,
  recovery_mw q stack next w log = gen_Recovery q stack next w log.
Proof.
  intros. unfold gen_Recovery. rewrite gen_middleware_eq_l, recovery_mw_is_model_recovery.
  destruct (next w) as [[|v] w']; apply model_recovery_ext; intros; symmetry; apply gen_DefaultHandleRecovery_eq_l.
Qed.

(* ---- the property's main theorems, restated over the generated definitions ---- *)
Lemma gen_panic_contained_l : forall (q : reqinfo) (stack : bytes) (next : handler) (w : wstate) (log : list logrec),
  match next w with
  | (Returned, w') => gen_Recovery q stack next w log = (Returned, w', log)
  | (Panicked v, w') =>
      if carries_abort v
      then gen_Recovery q stack next w log = (Panicked v, w', log)
      else exists w'',
          gen_Recovery q stack next w log = (Returned, w'', logged q v stack log) /\
          (written w' = true -> w'' = w') /\
          (written w' = false -> reports_broken_connection v = true -> w'' = w') /\
          (written w' = false -> reports_broken_connection v = false -> w'' = gen_DefaultHandleRecovery w' v)
  end.
Proof.
  intros. rewrite <- gen_Recovery_eq_l.
  pose proof (panic_contained_proof q stack next w log) as H.
  destruct (next w) as [[|v] w']; exact H.
Qed.

Lemma gen_broken_connection_class_l : forall v, gen_connIsBroken v = reports_broken_connection v.
Proof. intro v. rewrite gen_connIsBroken_eq_l. apply conn_broken_spec. Qed.

Lemma gen_handle500_response_l : forall w v, consistent w -> written w = false ->
  u_wrote (gen_DefaultHandleRecovery w v) = true /\ u_status (gen_DefaultHandleRecovery w v) = 500 /\
  u_body (gen_DefaultHandleRecovery w v) = u_body w ++ S2B "Internal Server Error
".
Proof. intros w v. rewrite gen_DefaultHandleRecovery_eq_l. apply handle500_response_proof. Qed.

(* non-interference over the generated deferred function: two requests whose dumps differ only in
   values of credential headers get the same logged message *)
Lemma gen_redaction_hides_values_l : forall handle q q' stack v w log reqline hdrs hdrs',
  is_abort v = false -> q_log_enabled q = q_log_enabled q' ->
  q_dump q = render reqline hdrs -> q_dump q' = render reqline hdrs' ->
  ~ In CR reqline -> Forall wf_header hdrs -> Forall wf_header hdrs' ->
  Forall2 (fun h h' => fst h = fst h' /\ (sensitive (fst h) \/ snd h = snd h')) hdrs hdrs' ->
  map r_msg (snd (gen_recovery handle q stack (Some v) w log)) =
  map r_msg (snd (gen_recovery handle q' stack (Some v) w log)).
Proof.
  intros handle q q' stack v w log reqline hdrs hdrs' Hab Hen Hq Hq' Hcr Hw Hw' Hf.
  rewrite !gen_recovery_message_l by exact Hab.
  unfold logged. rewrite Hen. destruct (q_log_enabled q'); [|reflexivity].
  rewrite !map_app. f_equal. cbn [map r_msg record]. rewrite Hq, Hq'.
  now rewrite (redaction_hides_values_proof reqline hdrs hdrs' Hcr Hw Hw' Hf).
Qed.
