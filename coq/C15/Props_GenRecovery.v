(* C15, tie A (docs/GenC15.md): the hand-written decision model of the Recovery middleware is equal, for
   all inputs, to the definitions regenerated from recovery.go on this run (GenRecovery.v, by
   harness/cmd/recovgen).  Statements only, each closed by [exact]. *)
From FoxBase Require Import Bytes.
From FoxC15 Require Import Types GenConsts Spec Redact Recovery Corr RecSem GenRecovery ProofsRedact ProofsRecovery BridgeRecovery.
Open Scope Z_scope.

(* the separator written between the dumped lines is the one Redact.v cuts and splits at *)
Theorem gen_reqHeaderSep_eq : gen_reqHeaderSep = reqHeaderSep.
Proof. exact gen_reqHeaderSep_eq_l. Qed.
Print Assumptions gen_reqHeaderSep_eq.

(* connIsBroken: type assertion, errors.As, ToLower, the two Contains tests, in that order *)
Theorem gen_connIsBroken_eq : forall v, gen_connIsBroken v = connIsBroken v.
Proof. exact gen_connIsBroken_eq_l. Qed.
Print Assumptions gen_connIsBroken_eq.

Example gen_connIsBroken_example :
  gen_connIsBroken ex_broken = true /\
  gen_connIsBroken (PErr (EWrap (S2B "outside") (EOp (S2B "write") (ESys (S2B "write") (ELeaf (S2B "broken pipe")))))) = false /\
  gen_connIsBroken (PErr (EOp (S2B "read") (ESys (S2B "read") (ELeaf (S2B "Connection RESET by peer"))))) = true /\
  gen_connIsBroken (PErr (EOp (S2B "read") (ELeaf (S2B "broken pipe")))) = false /\
  gen_connIsBroken (PStr (S2B "broken pipe")) = false.
Proof. vm_compute. repeat split. Qed.

(* DefaultHandleRecovery *)
Theorem gen_DefaultHandleRecovery_eq : forall w v, gen_DefaultHandleRecovery w v = handle500 w.
Proof. exact gen_DefaultHandleRecovery_eq_l. Qed.
Print Assumptions gen_DefaultHandleRecovery_eq.

Example gen_DefaultHandleRecovery_example :
  u_status (gen_DefaultHandleRecovery w_reset (PInt 3)) = 500 /\
  u_body (gen_DefaultHandleRecovery w_reset (PInt 3)) = S2B "Internal Server Error
" /\
  u_status (gen_DefaultHandleRecovery (write w_reset (S2B "ab")) (PInt 3)) = 200.
Proof. vm_compute. repeat split. Qed.

(* recovery(), decision by decision (any recovery function [handle]) *)
Theorem gen_recovery_no_panic : forall handle q stack w log,
  gen_recovery handle q stack None w log = (Returned, w, log).
Proof. exact gen_recovery_no_panic_l. Qed.
Print Assumptions gen_recovery_no_panic.

Theorem gen_recovery_repanics_abort : forall handle q stack v w log,
  is_abort v = true -> gen_recovery handle q stack (Some v) w log = (Panicked v, w, log).
Proof. exact gen_recovery_repanics_abort_l. Qed.
Print Assumptions gen_recovery_repanics_abort.

Theorem gen_recovery_message : forall handle q stack v w log,
  is_abort v = false ->
  map r_msg (snd (gen_recovery handle q stack (Some v) w log)) = map r_msg (logged q v stack log).
Proof. exact gen_recovery_message_l. Qed.
Print Assumptions gen_recovery_message.

Theorem gen_recovery_attrs : forall handle q stack v w log,
  is_abort v = false ->
  map r_attrs (snd (gen_recovery handle q stack (Some v) w log)) = map r_attrs (logged q v stack log).
Proof. exact gen_recovery_attrs_l. Qed.
Print Assumptions gen_recovery_attrs.

Theorem gen_recovery_log : forall handle q stack v w log,
  is_abort v = false -> snd (gen_recovery handle q stack (Some v) w log) = logged q v stack log.
Proof. exact gen_recovery_log_l. Qed.
Print Assumptions gen_recovery_log.

Theorem gen_recovery_response : forall handle q stack v w log,
  is_abort v = false ->
  fst (gen_recovery handle q stack (Some v) w log) =
  (Returned, if negb (written w) && negb (connIsBroken v) then handle w (logged q v stack log) v else w).
Proof. exact gen_recovery_response_l. Qed.
Print Assumptions gen_recovery_response.

(* recovery() as a whole = the part of Recovery.recovery_mw after `next w` *)
Theorem gen_recovery_eq : forall handle q stack rv w log,
  gen_recovery handle q stack rv w log = model_recovery handle q stack rv w log.
Proof. exact gen_recovery_eq_l. Qed.
Print Assumptions gen_recovery_eq.

Example gen_recovery_example :
  (* ErrAbortHandler deep inside: re-raised, nothing logged, recovery function not called *)
  is_abort ex_abort = true /\
  gen_recovery (fun w _ _ => handle500 w) ex_q [] (Some ex_abort) w_reset [] = (Panicked ex_abort, w_reset, []) /\
  (* a string: logged with redaction and route, 500 *)
  is_abort (PStr (S2B "boom")) = false /\
  (let '(r, w, log) := gen_recovery (fun w _ v => gen_DefaultHandleRecovery w v) ex_q (S2B "<stack>") (Some (PStr (S2B "boom"))) w_reset [] in
   r = Returned /\ u_status w = 500 /\
   map r_msg log = [S2B "Recovered from PANIC
Request Dump:
GET /r/1 HTTP/1.1" ++ reqHeaderSep ++ S2B "Host: h" ++ reqHeaderSep ++ S2B "x-csrf-TOKEN: <redacted>" ++ reqHeaderSep
  ++ S2B "Accept: */*" ++ reqHeaderSep ++ reqHeaderSep ++ S2B "Stack:
<stack>"] /\
   map r_attrs log = [[(S2B "route", VStr (S2B "/r/{id}")); (S2B "params", VGroup [(S2B "id", S2B "1")]); (S2B "error", VStr (S2B "boom"))]]) /\
  (* no route: the scope name is logged, no params group; broken connection: recovery function not called *)
  (let '(r, w, log) := gen_recovery (fun w _ v => gen_DefaultHandleRecovery w v) (Q NoMethodHandler [] false [(S2B "id", S2B "1")] [] true) []
                         (Some ex_broken) w_reset [] in
   r = Returned /\ u_wrote w = false /\
   map r_attrs log = [[(S2B "route", VStr (S2B "NoMethodHandler")); (S2B "error", VStr (text match ex_broken with PErr e => e | _ => EAbort end))]]) /\
  (* already written: untouched; log handler disabled: no record *)
  (let '(r, w, log) := gen_recovery (fun w _ v => gen_DefaultHandleRecovery w v) (Q RouteHandler (S2B "/a") true [] [] false) []
                         (Some (PInt 7)) (write w_reset (S2B "ab")) [] in
   r = Returned /\ u_body w = S2B "ab" /\ log = []).
Proof. vm_compute. repeat split. Qed.

(* the middleware Recovery(): defer recovery(..); next(c), with DefaultHandleRecovery *)
Theorem gen_Recovery_eq : forall q stack next w log,
  recovery_mw q stack next w log = gen_Recovery q stack next w log.
Proof. exact gen_Recovery_eq_l. Qed.
Print Assumptions gen_Recovery_eq.

Example gen_Recovery_example :
  gen_Recovery ex_q [] (run_actions [AWrite (S2B "ab")] None) w_reset [] = (Returned, write w_reset (S2B "ab"), []) /\
  (let '(r, w, log) := gen_Recovery ex_q [] (run_actions [AWriteHeader 103] (Some (PCustom 4))) w_reset [] in
   r = Returned /\ u_status w = 500 /\ List.length log = 1%nat).
Proof. vm_compute. repeat split. Qed.

(* ---- the property's main theorems over the generated definitions ---- *)
Theorem gen_panic_contained : forall (q : reqinfo) (stack : bytes) (next : handler) (w : wstate) (log : list logrec),
  match next w with
  | (Returned, w') => gen_Recovery q stack next w log = (Returned, w', log)
  | (Panicked v, w') =>
      if carries_abort v
      then gen_Recovery q stack next w log = (Panicked v, w', log)
      else exists w'',
          gen_Recovery q stack next w log = (Returned, w'', logged q v stack log) /\
          (written w' = true -> w'' = w') /\
          (written w' = false -> reports_broken_connection v = true -> w'' = w') /\
          (written w' = false -> reports_broken_connection v = false -> w'' = gen_DefaultHandleRecovery w' v)
  end.
Proof. exact gen_panic_contained_l. Qed.
Print Assumptions gen_panic_contained.

Theorem gen_broken_connection_class : forall v, gen_connIsBroken v = reports_broken_connection v.
Proof. exact gen_broken_connection_class_l. Qed.
Print Assumptions gen_broken_connection_class.

Theorem gen_handle500_response : forall w v, consistent w -> written w = false ->
  u_wrote (gen_DefaultHandleRecovery w v) = true /\ u_status (gen_DefaultHandleRecovery w v) = 500 /\
  u_body (gen_DefaultHandleRecovery w v) = u_body w ++ S2B "Internal Server Error
".
Proof. exact gen_handle500_response_l. Qed.
Print Assumptions gen_handle500_response.

Theorem gen_redaction_hides_values : forall handle q q' stack v w log reqline hdrs hdrs',
  is_abort v = false -> q_log_enabled q = q_log_enabled q' ->
  q_dump q = render reqline hdrs -> q_dump q' = render reqline hdrs' ->
  ~ In CR reqline -> Forall wf_header hdrs -> Forall wf_header hdrs' ->
  Forall2 (fun h h' => fst h = fst h' /\ (sensitive (fst h) \/ snd h = snd h')) hdrs hdrs' ->
  map r_msg (snd (gen_recovery handle q stack (Some v) w log)) =
  map r_msg (snd (gen_recovery handle q' stack (Some v) w log)).
Proof. exact gen_redaction_hides_values_l. Qed.
Print Assumptions gen_redaction_hides_values.
