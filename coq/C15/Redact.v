(* C15 model, part 1: the request dump written into the recovery log (recovery.go:70-91,
   isBlacklistedHeader recovery.go:137-145, iterutil.SplitBytesSeq).  Transliteration. *)
From FoxBase Require Import Bytes.
From FoxC15 Require Import Types GenConsts.

Definition CR : ascii := ascii_of_N 13.
Definition LF : ascii := ascii_of_N 10.
Definition reqHeaderSep : bytes := [CR; LF].
Definition colon : ascii := ascii_of_N 58.

(* bytes.Cut(s, "\r\n"): before and after the first occurrence *)
Fixpoint cut_crlf (s : bytes) : option (bytes * bytes) :=
  match s with
  | [] => None
  | c :: r =>
      match r with
      | d :: r' =>
          if Ascii.eqb c CR && Ascii.eqb d LF then Some ([], r')
          else match cut_crlf r with Some (b, a) => Some (c :: b, a) | None => None end
      | [] => None
      end
  end.

(* iterutil.SplitBytesSeq(s, "\r\n"): the Index-and-reslice loop as one left-to-right scan;
   [cur] is the current fragment, reversed.  The final fragment is always yielded. *)
Fixpoint split_crlf (cur : bytes) (s : bytes) : list bytes :=
  match s with
  | [] => [rev cur]
  | c :: r =>
      match r with
      | d :: r' =>
          if Ascii.eqb c CR && Ascii.eqb d LF then rev cur :: split_crlf [] r'
          else split_crlf (c :: cur) r
      | [] => [rev (c :: cur)]
      end
  end.

(* bytes.IndexByte *)
Fixpoint index_byte (c : ascii) (s : bytes) : option nat :=
  match s with
  | [] => None
  | x :: r => if Ascii.eqb x c then Some O else match index_byte c r with Some i => Some (S i) | None => None end
  end.

(* strings.EqualFold on ASCII strings: only 'A'..'Z' / 'a'..'z' fold.  (Header names that reach
   the dump are HTTP tokens: net/http drops any other key when it writes a header block.) *)
Definition lower (c : ascii) : ascii :=
  let n := N_of_ascii c in
  if ((65 <=? n) && (n <=? 90))%N then ascii_of_N (n + 32) else c.

Fixpoint equal_fold (a b : bytes) : bool :=
  match a, b with
  | [], [] => true
  | x :: a', y :: b' => Ascii.eqb (lower x) (lower y) && equal_fold a' b'
  | _, _ => false
  end.

(* recovery.go:137 — blacklistedHeader is the GENERATED list *)
Definition isBlacklistedHeader (name : bytes) : bool :=
  existsb (fun h => equal_fold h name) blacklistedHeader.

Definition redacted : bytes := S2B ": <redacted>".

(* body of the loop at recovery.go:76-89, after sb.Write(reqHeaderSep) *)
Definition dump_line (header : bytes) : bytes :=
  match index_byte colon header with
  | None => []                                   (* idx < 0: continue *)
  | Some idx =>
      let name := firstn idx header in
      if isBlacklistedHeader name then name ++ redacted else header
  end.

(* recovery.go:73-91: what is appended to the message for the dump *)
Definition logged_dump (dump : bytes) : bytes :=
  match cut_crlf dump with
  | Some (before, after) =>
      S2B "Request Dump:
" ++ before ++ flat_map (fun h => reqHeaderSep ++ dump_line h) (split_crlf [] after)
  | None => []
  end.

(* the message up to and including "Stack:\n"; the stack text itself is environment *)
Definition message_prefix (dump : bytes) : bytes :=
  S2B "Recovered from PANIC
" ++ logged_dump dump ++ S2B "Stack:
".
