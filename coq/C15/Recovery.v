(* C15 model, part 2: the decision of recovery() (recovery.go:60-135), the recorder and
   underlying writer it acts on, DefaultHandleRecovery.  Transliteration. *)
From FoxBase Require Import Bytes.
From FoxC15 Require Import Types GenConsts Redact.
Open Scope Z_scope.

(* ---- recorder (response_writer.go) over an underlying http.ResponseWriter ---- *)
Record wstate := {
  w_size : Z;          (* recorder.size, -1 = notWritten *)
  w_status : Z;        (* recorder.status *)
  u_wrote : bool;      (* underlying writer: status line written *)
  u_status : Z;        (* underlying writer: that status (0 if none) *)
  u_body : bytes       (* underlying writer: body bytes *)
}.

Definition notWritten : Z := -1.
Definition w_reset : wstate :=
  {| w_size := notWritten; w_status := 200; u_wrote := false; u_status := 0; u_body := [] |}.

Definition written (w : wstate) : bool := negb (w_size w =? notWritten).

(* underlying WriteHeader with a final (non-informational) status: first one wins *)
Definition under_header (w : wstate) (code : Z) : wstate :=
  if u_wrote w then w
  else {| w_size := w_size w; w_status := w_status w; u_wrote := true; u_status := code; u_body := u_body w |}.

(* recorder.WriteHeader *)
Definition write_header (w : wstate) (code : Z) : wstate :=
  if written w then w
  else if (code >=? 100) && (code <=? 199) && negb (code =? 101) then w   (* 1xx forwarded, nothing recorded *)
  else let w1 := under_header w code in
       {| w_size := 0; w_status := code; u_wrote := u_wrote w1; u_status := u_status w1; u_body := u_body w1 |}.

(* recorder.Write / WriteString *)
Definition write (w : wstate) (b : bytes) : wstate :=
  let w1 := if written w then w
            else let w0 := under_header w (w_status w) in
                 {| w_size := 0; w_status := w_status w; u_wrote := u_wrote w0; u_status := u_status w0; u_body := u_body w0 |} in
  {| w_size := w_size w1 + Z.of_nat (List.length b); w_status := w_status w1;
     u_wrote := u_wrote w1; u_status := u_status w1; u_body := u_body w1 ++ b |}.

(* what the underlying http.ResponseWriter offers for flushing: nothing, http.Flusher, or
   FlushError() error (every real net/http connection) *)
Inductive flushkind := FNone | FFlusher | FFlushError.

(* recorder.FlushError (response_writer.go:217-233): both supported branches first record the
   pending header (WriteHeader(r.status)) and then flush; flushing a writer whose header is out
   changes nothing observable here.  Unsupported: ErrNotSupported, no effect. *)
Definition flush (w : wstate) (k : flushkind) : wstate :=
  match k with
  | FFlushError => if written w then w else write_header w (w_status w)
  | FFlusher => if written w then w else write_header w (w_status w)
  | FNone => w
  end.

Inductive action := AWriteHeader (code : Z) | AWrite (b : bytes) | AFlush (k : flushkind).

Inductive hres := Returned | Panicked (v : pval).

(* handler + inner middleware: any function of the writer state *)
Definition handler := wstate -> hres * wstate.

(* the scripted family the harness drives: actions, then optionally a panic *)
Fixpoint run_actions (acts : list action) (fin : option pval) (w : wstate) : hres * wstate :=
  match acts with
  | [] => (match fin with Some v => Panicked v | None => Returned end, w)
  | AWriteHeader c :: rest => run_actions rest fin (write_header w c)
  | AWrite b :: rest => run_actions rest fin (write w b)
  | AFlush k :: rest => run_actions rest fin (flush w k)
  end.

(* ---- errors.Is(e, http.ErrAbortHandler): the sentinel is comparable, no node has an Is method ---- *)
Fixpoint errors_is_abort (e : err) : bool :=
  match e with
  | EAbort => true
  | ELeaf _ => false
  | EWrap _ e' => errors_is_abort e'
  | EJoin l => existsb errors_is_abort l
  | EOp _ e' => errors_is_abort e'
  | ESys _ e' => errors_is_abort e'
  end.

(* ---- errors.As(ne, &se) with se *os.SyscallError: first match, depth first ---- *)
Fixpoint errors_as_syscall (e : err) : option (bytes * err) :=
  match e with
  | ESys call e' => Some (call, e')
  | EAbort => None
  | ELeaf _ => None
  | EWrap _ e' => errors_as_syscall e'
  | EOp _ e' => errors_as_syscall e'
  | EJoin l =>
      (fix first (l : list err) : option (bytes * err) :=
         match l with
         | [] => None
         | x :: r => match errors_as_syscall x with Some s => Some s | None => first r end
         end) l
  end.

(* strings.ToLower on ASCII text *)
Definition to_lower (s : bytes) : bytes := map lower s.

(* recovery.go:147-158 *)
Definition connIsBroken (v : pval) : bool :=
  match v with
  | PErr (EOp op e') =>                                   (* type assertion: err is a net.OpError pointer *)
      match errors_as_syscall (EOp op e') with
      | Some (call, e'') =>
          let seStr := to_lower (call ++ colon_sp ++ text e'') in      (* se.Error() *)
          infix_b (S2B "broken pipe") seStr || infix_b (S2B "connection reset by peer") seStr
      | None => false
      end
  | _ => false
  end.

(* ---- the request as recovery() reads it ---- *)
Record reqinfo := {
  q_scope : scope;                        (* c.Scope() *)
  q_pattern : bytes;                      (* c.Pattern(): "" when c.Route() == nil *)
  q_has_route : bool;                     (* c.Route() != nil *)
  q_params : list (bytes * bytes);        (* c.Params() *)
  q_dump : bytes;                         (* httputil.DumpRequest(c.Request(), false) *)
  q_log_enabled : bool                    (* the slog.Handler given to the middleware is enabled at level Error *)
}.

(* recovery.go:103-108; slog.Any of a string / int / other value *)
Definition error_attr (v : pval) : aval :=
  match v with
  | PErr e => VStr (text e)
  | PStr s => VStr s
  | PInt z => VInt z
  | PCustom id => VAny id
  end.

(* recovery.go:66-122; slog drops a group without attributes *)
Definition record (q : reqinfo) (v : pval) (stack : bytes) : logrec :=
  let params := if q_has_route q then q_params q else [] in
  let pattern := match q_pattern q with [] => scopeToString (q_scope q) | p => p end in
  {| r_msg := message_prefix (q_dump q) ++ stack;
     r_attrs := [(S2B "route", VStr pattern)]
                  ++ match params with [] => [] | _ => [(S2B "params", VGroup params)] end
                  ++ [(S2B "error", error_attr v)] |}.

(* logger.Error(...): slog.Logger.log asks the handler's Enabled first; an error returned by the
   handler's Handle is dropped *)
Definition logged (q : reqinfo) (v : pval) (stack : bytes) (log : list logrec) : list logrec :=
  if q_log_enabled q then log ++ [record q v stack] else log.

(* DefaultHandleRecovery: http.Error(w, "Internal Server Error", 500) *)
Definition handle500 (w : wstate) : wstate :=
  write (write_header w 500) (S2B "Internal Server Error
").

(* CustomRecoveryWithLogHandler: defer recovery(...); next(c) *)
Definition recovery_mw (q : reqinfo) (stack : bytes) (next : handler)
           (w : wstate) (log : list logrec) : hres * wstate * list logrec :=
  match next w with
  | (Returned, w') => (Returned, w', log)                       (* recover() == nil *)
  | (Panicked v, w') =>
      if match v with PErr e => errors_is_abort e | _ => false end
      then (Panicked v, w', log)                                  (* panic(e): the same value *)
      else
        let log' := logged q v stack log in
        if negb (written w') && negb (connIsBroken v)
        then (Returned, handle500 w', log')
        else (Returned, w', log')
  end.
