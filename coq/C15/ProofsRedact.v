(* C15 proofs, part 1: redaction of credential headers in the logged request dump. *)
From FoxBase Require Import Bytes.
From FoxC15 Require Import Types GenConsts Spec Redact.
From Coq Require Import Lia.

(* ---------- finite reasoning over the 256 bytes ---------- *)

Definition all_ascii : list ascii := map ascii_of_nat (seq 0 (16 * 16)).

Lemma in_all_ascii c : In c all_ascii.
Proof.
  unfold all_ascii. rewrite <- (ascii_nat_embedding c). apply in_map. apply in_seq.
  pose proof (nat_ascii_bounded c) as H. change (16 * 16)%nat with 256%nat. lia.
Qed.

Lemma forall_ascii (P : ascii -> bool) : forallb P all_ascii = true -> forall x, P x = true.
Proof. intros H x. rewrite forallb_forall in H. apply H, in_all_ascii. Qed.

Lemma forall2_ascii (P : ascii -> ascii -> bool) :
  forallb (fun x => forallb (P x) all_ascii) all_ascii = true -> forall x y, P x y = true.
Proof. intros H x y. apply (forall_ascii (P x)). apply (forall_ascii _ H x). Qed.

(* the ASCII case-folding lemma: comparing lower-cased bytes = comparing upper-cased bytes *)
Lemma char_fold x y : Ascii.eqb (lower x) (lower y) = Ascii.eqb (upper x) (upper y).
Proof.
  apply eqb_prop.
  apply (forall2_ascii (fun x y => Bool.eqb (Ascii.eqb (lower x) (lower y)) (Ascii.eqb (upper x) (upper y)))).
  vm_compute. reflexivity.
Qed.

Lemma upper_colon c : upper c = colon -> c = colon.
Proof.
  intro H. apply Ascii.eqb_eq.
  pose proof (forall_ascii (fun c => implb (Ascii.eqb (upper c) colon) (Ascii.eqb c colon))) as F.
  specialize (F ltac:(vm_compute; reflexivity) c). cbv beta in F.
  apply Ascii.eqb_eq in H. rewrite H in F. exact F.
Qed.

(* ---------- equal_fold is "same ignoring ASCII case" ---------- *)

Lemma equal_fold_iff a b : equal_fold a b = true <-> same_ignoring_case a b.
Proof.
  unfold same_ignoring_case. revert b.
  induction a as [|x a IH]; intros [|y b]; cbn [equal_fold map]; try (split; [discriminate|intro H; inversion H]).
  - split; reflexivity.
  - rewrite andb_true_iff, char_fold, Ascii.eqb_eq, IH. split.
    + intros [-> ->]. reflexivity.
    + intro H. inversion H. split; reflexivity.
Qed.

Lemma same_ignoring_case_b_iff a b : same_ignoring_case_b a b = true <-> same_ignoring_case a b.
Proof. unfold same_ignoring_case_b, same_ignoring_case. apply bytes_eqb_eq. Qed.

(* the GENERATED blacklist names every credential header of the property text *)
Lemma generated_blacklist_covers_proof :
  forall c, In c credential_names -> exists h, In h blacklistedHeader /\ same_ignoring_case h c.
Proof.
  assert (H : forallb (fun c => existsb (fun h => same_ignoring_case_b h c) blacklistedHeader) credential_names = true)
    by (vm_compute; reflexivity).
  rewrite forallb_forall in H. intros c Hc. specialize (H c Hc).
  apply existsb_exists in H. destruct H as (h & Hh & E). exists h. split; [exact Hh|].
  apply same_ignoring_case_b_iff. exact E.
Qed.

Lemma sensitive_is_blacklisted name : sensitive name -> isBlacklistedHeader name = true.
Proof.
  intros (c & Hc & E). destruct (generated_blacklist_covers_proof c Hc) as (h & Hh & Eh).
  unfold isBlacklistedHeader. apply existsb_exists. exists h. split; [exact Hh|].
  apply equal_fold_iff. unfold same_ignoring_case in *. congruence.
Qed.

(* no credential name, however capitalised, contains a colon *)
Lemma sensitive_no_colon name : sensitive name -> ~ In colon name.
Proof.
  intros (c & Hc & E) Hin. unfold same_ignoring_case in E.
  assert (Hu : In (upper colon) (map upper name)) by (apply in_map; exact Hin).
  rewrite E in Hu. change (upper colon) with colon in Hu.
  apply in_map_iff in Hu. destruct Hu as (d & Hd & Hdc).
  apply upper_colon in Hd. subst d.
  assert (F : forallb (fun c => negb (existsb (Ascii.eqb colon) c)) credential_names = true) by (vm_compute; reflexivity).
  rewrite forallb_forall in F. specialize (F c Hc). apply negb_true_iff in F.
  assert (X : existsb (Ascii.eqb colon) c = true).
  { apply existsb_exists. exists colon. split; [exact Hdc|apply Ascii.eqb_refl]. }
  congruence.
Qed.

(* ---------- index / cut / split ---------- *)

Lemma index_byte_app c name rest : ~ In c name -> index_byte c (name ++ c :: rest) = Some (List.length name).
Proof.
  induction name as [|x name IH]; intro H; cbn [index_byte app List.length].
  - rewrite Ascii.eqb_refl. reflexivity.
  - destruct (Ascii.eqb_spec x c) as [->|Hn]; [exfalso; apply H; left; reflexivity|].
    rewrite IH; [reflexivity|]. intro Hin; apply H; right; exact Hin.
Qed.

Lemma firstn_len_app {A} (a b : list A) : firstn (List.length a) (a ++ b) = a.
Proof. induction a as [|x a IH]; cbn; [reflexivity|rewrite IH; reflexivity]. Qed.

Lemma cut_step c r : r <> [] -> Ascii.eqb c CR = false ->
  cut_crlf (c :: r) = match cut_crlf r with Some (b, a) => Some (c :: b, a) | None => None end.
Proof. intros Hr Hc. destruct r as [|d r']; [congruence|]. cbn [cut_crlf]. rewrite Hc. reflexivity. Qed.

Lemma cut_crlf_line line rest : ~ In CR line -> cut_crlf (line ++ CR :: LF :: rest) = Some (line, rest).
Proof.
  induction line as [|x line IH]; intro H.
  - reflexivity.
  - cbn [app]. rewrite cut_step.
    + rewrite IH; [reflexivity|]. intro Hin; apply H; right; exact Hin.
    + destruct line; discriminate.
    + destruct (Ascii.eqb_spec x CR) as [->|]; [exfalso; apply H; left; reflexivity|reflexivity].
Qed.

Lemma split_step cur c r : r <> [] -> Ascii.eqb c CR = false ->
  split_crlf cur (c :: r) = split_crlf (c :: cur) r.
Proof. intros Hr Hc. destruct r as [|d r']; [congruence|]. cbn [split_crlf]. rewrite Hc. reflexivity. Qed.

Lemma split_crlf_line line : forall cur rest, ~ In CR line ->
  split_crlf cur (line ++ CR :: LF :: rest) = (rev cur ++ line) :: split_crlf [] rest.
Proof.
  induction line as [|x line IH]; intros cur rest H.
  - cbn [app split_crlf]. rewrite !Ascii.eqb_refl. cbn [andb]. rewrite app_nil_r. reflexivity.
  - cbn [app]. rewrite split_step.
    + rewrite IH by (intro Hin; apply H; right; exact Hin). cbn [rev]. rewrite <- app_assoc. reflexivity.
    + destruct line; discriminate.
    + destruct (Ascii.eqb_spec x CR) as [->|]; [exfalso; apply H; left; reflexivity|reflexivity].
Qed.

(* ---------- the dump as net/http renders it ---------- *)

(* "Name: value" *)
Definition render_line (h : bytes * bytes) : bytes := fst h ++ colon :: " "%char :: snd h.

(* request line CRLF (header line CRLF)* CRLF *)
Definition render (reqline : bytes) (hdrs : list (bytes * bytes)) : bytes :=
  reqline ++ reqHeaderSep ++ flat_map (fun h => render_line h ++ reqHeaderSep) hdrs ++ reqHeaderSep.

(* net/http writes only HTTP tokens as names and replaces CR / LF in values by spaces *)
Definition wf_header (h : bytes * bytes) : Prop :=
  ~ In CR (fst h) /\ ~ In colon (fst h) /\ ~ In CR (snd h).

Lemma render_line_no_cr h : wf_header h -> ~ In CR (render_line h).
Proof.
  intros (H1 & _ & H3) Hin. unfold render_line in Hin. apply in_app_or in Hin.
  destruct Hin as [Hin|[Hin|[Hin|Hin]]]; try tauto; discriminate.
Qed.

Lemma dump_line_render h : wf_header h ->
  dump_line (render_line h) = if isBlacklistedHeader (fst h) then fst h ++ redacted else render_line h.
Proof.
  intros (_ & H2 & _). unfold dump_line, render_line.
  rewrite index_byte_app by exact H2. rewrite firstn_len_app. reflexivity.
Qed.

(* what the loop writes for one header *)
Definition logged_line (h : bytes * bytes) : bytes :=
  if isBlacklistedHeader (fst h) then fst h ++ redacted else render_line h.

Lemma split_headers hdrs : Forall wf_header hdrs ->
  split_crlf [] (flat_map (fun h => render_line h ++ reqHeaderSep) hdrs ++ reqHeaderSep)
  = map render_line hdrs ++ [[]; []].
Proof.
  induction 1 as [|h hdrs Hh _ IH]; cbn [flat_map map app].
  - reflexivity.
  - rewrite <- !app_assoc. unfold reqHeaderSep at 1. cbn [app].
    rewrite split_crlf_line by (apply render_line_no_cr; exact Hh).
    cbn [rev app]. rewrite IH. reflexivity.
Qed.

Lemma logged_dump_render reqline hdrs : ~ In CR reqline -> Forall wf_header hdrs ->
  logged_dump (render reqline hdrs)
  = S2B "Request Dump:
" ++ reqline ++ flat_map (fun h => reqHeaderSep ++ logged_line h) hdrs ++ reqHeaderSep ++ reqHeaderSep.
Proof.
  intros Hr Hh. unfold logged_dump, render. unfold reqHeaderSep at 1. cbn [app].
  rewrite cut_crlf_line by exact Hr. rewrite split_headers by exact Hh.
  f_equal. f_equal. rewrite flat_map_app.
  assert (E : flat_map (fun h => reqHeaderSep ++ dump_line h) (map render_line hdrs)
              = flat_map (fun h => reqHeaderSep ++ logged_line h) hdrs).
  { induction Hh as [|h hdrs H1 _ IH]; cbn [map flat_map]; [reflexivity|].
    rewrite IH. rewrite dump_line_render by exact H1. reflexivity. }
  rewrite E. reflexivity.
Qed.

(* ---------- redaction theorems ---------- *)

(* the line logged for a credential header is "Name: <redacted>", whatever follows the colon *)
Lemma credential_line_proof : forall name rest,
  sensitive name -> dump_line (name ++ colon :: rest) = name ++ S2B ": <redacted>".
Proof.
  intros name rest Hs. unfold dump_line.
  rewrite index_byte_app by (apply sensitive_no_colon; exact Hs).
  rewrite firstn_len_app, (sensitive_is_blacklisted _ Hs). reflexivity.
Qed.

Lemma credential_value_absent_proof : forall name value,
  sensitive name ->
  infix_b value (name ++ S2B ": <redacted>") = false ->
  infix_b value (dump_line (name ++ S2B ": " ++ value)) = false.
Proof.
  intros name value Hs Hn. change (S2B ": " ++ value) with (colon :: " "%char :: value).
  rewrite credential_line_proof by exact Hs. exact Hn.
Qed.

Lemma redaction_complete_proof : forall reqline hdrs,
  ~ In CR reqline -> Forall wf_header hdrs ->
  exists lines,
    logged_dump (render reqline hdrs)
    = S2B "Request Dump:
" ++ reqline ++ flat_map (fun l => reqHeaderSep ++ l) lines ++ reqHeaderSep ++ reqHeaderSep
    /\ Forall2 (fun h l =>
                  (sensitive (fst h) -> l = fst h ++ S2B ": <redacted>")
                  /\ (l = fst h ++ S2B ": <redacted>" \/ l = render_line h)) hdrs lines.
Proof.
  intros reqline hdrs Hr Hh. exists (map logged_line hdrs). split.
  - rewrite logged_dump_render by assumption. f_equal. f_equal. f_equal.
    clear. induction hdrs as [|h hdrs IH]; cbn [flat_map map]; [reflexivity|]. rewrite IH. reflexivity.
  - clear Hr Hh. induction hdrs as [|h hdrs IH]; cbn [map]; constructor; [|exact IH].
    unfold logged_line. split.
    + intro Hs. rewrite (sensitive_is_blacklisted _ Hs). reflexivity.
    + destruct (isBlacklistedHeader (fst h)); [left|right]; reflexivity.
Qed.

(* non-interference: the logged message is the same for two requests that differ only in
   the values of credential headers *)
Lemma redaction_hides_values_proof : forall reqline hdrs hdrs',
  ~ In CR reqline -> Forall wf_header hdrs -> Forall wf_header hdrs' ->
  Forall2 (fun h h' => fst h = fst h' /\ (sensitive (fst h) \/ snd h = snd h')) hdrs hdrs' ->
  message_prefix (render reqline hdrs) = message_prefix (render reqline hdrs').
Proof.
  intros reqline hdrs hdrs' Hr H1 H2 HF. unfold message_prefix.
  rewrite !logged_dump_render by assumption.
  assert (E : flat_map (fun h => reqHeaderSep ++ logged_line h) hdrs
              = flat_map (fun h => reqHeaderSep ++ logged_line h) hdrs').
  { clear H1 H2 Hr.
    induction HF as [|h h' l l' (Hn & Hv) _ IH]; cbn [flat_map]; [reflexivity|].
    rewrite IH. f_equal. f_equal. unfold logged_line. rewrite <- Hn.
    destruct Hv as [Hs|Hv].
    - rewrite (sensitive_is_blacklisted _ Hs). reflexivity.
    - destruct h as [n v], h' as [n' v']. cbn in *. subst. reflexivity. }
  rewrite E. reflexivity.
Qed.
