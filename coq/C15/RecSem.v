(* C15, tie A (docs/GenC15.md): meaning of the primitives that harness/cmd/recovgen emits into
   GenRecovery.v.  HAND-WRITTEN and TRUSTED (together with recovgen): each primitive stands for one
   Go library call / language construct on the value representation of Types.v / Recovery.v.
   No proofs here. *)
From FoxBase Require Import Bytes.
From FoxC15 Require Import Types GenConsts Redact Recovery.
Open Scope Z_scope.

(* the result of the deferred function as the caller of the middleware sees it: how the handler
   ended (Returned / re-panicked value), the writer, the log *)
Definition outcome := (hres * wstate * list logrec)%type.

(* ---- interface values ---- *)
(* err.(error): only PErr values are errors (a string / int / custom panic value is not) *)
Definition assert_error (v : pval) : option err := match v with PErr e => Some e | _ => None end.
(* err.( *net.OpError): the dynamic type is exactly a net.OpError pointer *)
Definition assert_OpError (v : pval) : option err :=
  match v with PErr (EOp op e) => Some (EOp op e) | _ => None end.
(* `x, ok := E; ok && C x` as one test: the binding survives only if C holds *)
Definition comma_ok_and {A : Type} (o : option A) (c : A -> bool) : option A :=
  match o with Some a => if c a then Some a else None | None => None end.
(* an error stored back into an `any` (panic(e)) *)
Definition error_value (e : err) : pval := PErr e.
(* e.Error() *)
Definition err_Error (e : err) : bytes := text e.
(* errors.Is(e, http.ErrAbortHandler) *)
Definition errors_Is_ErrAbortHandler (e : err) : bool := errors_is_abort e.
(* var se *os.SyscallError; errors.As(e, &se): the node found, as an error value *)
Definition errors_As_SyscallError (e : err) : option err :=
  match errors_as_syscall e with Some (c, e') => Some (ESys c e') | None => None end.

(* ---- strings / bytes ---- *)
Definition strings_ToLower (s : bytes) : bytes := to_lower s.
Definition strings_Contains (s sub : bytes) : bool := infix_b sub s.
Definition string_is_empty (s : bytes) : bool := match s with [] => true | _ => false end.
(* bytes.IndexByte: -1 when absent *)
Definition bytes_IndexByte (s : bytes) (c : ascii) : Z :=
  match index_byte c s with Some i => Z.of_nat i | None => -1 end.
(* s[:i], emitted only where recovgen has established 0 <= i <= len(s) *)
Definition slice_to (s : bytes) (i : Z) : bytes := firstn (Z.to_nat i) s.
(* bytes.Cut(s, sep) / iterutil.SplitBytesSeq(s, sep) with sep checked by recovgen to be "\r\n" *)
Definition bytes_Cut_crlf (s : bytes) : option (bytes * bytes) := cut_crlf s.
Definition SplitBytesSeq_crlf (s : bytes) : list bytes := split_crlf [] s.
(* for x := range seq { body }: the loop state is threaded through the elements in order;
   `continue` ends one application of the body *)
Definition range_seq {A S : Type} (l : list A) (body : S -> A -> S) (st : S) : S := fold_left body l st.
(* strings.Builder.Grow: capacity only *)
Definition sb_grow (n : nat) (sb : bytes) : bytes := sb.

(* ---- slog ---- *)
Definition attr := (bytes * aval)%type.
Definition attr_zero : attr := ([], VAny 0%N).
Definition slog_String (k v : bytes) : attr := (k, VStr v).
(* slog.Any of a panic value, as projected by the capturing handler of the harness *)
Definition slog_Any (k : bytes) (v : pval) : attr :=
  (k, match v with PErr e => VStr (text e) | PStr s => VStr s | PInt z => VInt z | PCustom id => VAny id end).
Definition slog_Group (k : bytes) (l : list (bytes * bytes)) : attr := (k, VGroup l).
(* mapParamsToAttr: one slog.String(p.Key, p.Value) per parameter (body pinned by recovgen) *)
Definition mapParamsToAttr (l : list (bytes * bytes)) : list (bytes * bytes) := l.
(* logger.Error(msg, attrs...): the handler is asked Enabled first; a group without attributes is dropped *)
Definition logger_Error (q : reqinfo) (msg : bytes) (attrs : list attr) (log : list logrec) : list logrec :=
  if q_log_enabled q
  then log ++ [{| r_msg := msg;
                  r_attrs := filter (fun a => match snd a with VGroup [] => false | _ => true end) attrs |}]
  else log.

(* ---- net/http ---- *)
Definition http_StatusText (code : Z) : bytes := if code =? 500 then S2B "Internal Server Error" else [].
(* http.Error(w, msg, code): WriteHeader(code); Fprintln(w, msg) *)
Definition http_Error (w : wstate) (msg : bytes) (code : Z) : wstate := write (write_header w code) (msg ++ [LF]).

(* ---- defer f(); body: f runs when body ends; recover() inside f yields the panic value, if any ---- *)
Definition run_deferred (d : option pval -> wstate -> list logrec -> outcome)
           (body : hres * wstate) (log : list logrec) : outcome :=
  match body with
  | (Returned, w) => d None w log
  | (Panicked v, w) => d (Some v) w log
  end.
