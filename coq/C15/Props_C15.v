(* C15 property theorems: statements only, each closed by [exact]. *)
From FoxBase Require Import Bytes.
From FoxC15 Require Import Types GenConsts Spec Redact Recovery Lifecycle Corr ProofsRedact ProofsRecovery.
Open Scope Z_scope.

(* ---- containment and response ----
   For ANY handler / inner middleware (a function of the writer state), any panic value, any
   response progress: with Recovery installed the call returns normally, except when the value
   is (errors.Is) http.ErrAbortHandler, which is re-raised — the same value — with the writer
   untouched and nothing logged.  Otherwise exactly one record is logged and: a started
   response is left as it is; an unstarted one stays empty if the value reports a broken
   connection, and receives DefaultHandleRecovery's 500 otherwise. *)
Theorem panic_contained : forall (q : reqinfo) (stack : bytes) (next : handler) (w : wstate) (log : list logrec),
  match next w with
  | (Returned, w') => recovery_mw q stack next w log = (Returned, w', log)
  | (Panicked v, w') =>
      if carries_abort v
      then recovery_mw q stack next w log = (Panicked v, w', log)
      else exists w'',
          recovery_mw q stack next w log = (Returned, w'', logged q v stack log) /\
          (written w' = true -> w'' = w') /\
          (written w' = false -> reports_broken_connection v = true -> w'' = w') /\
          (written w' = false -> reports_broken_connection v = false -> w'' = handle500 w')
  end.
Proof. exact panic_contained_proof. Qed.
Print Assumptions panic_contained.

(* what the 500 looks like on the wire, for every writer state a handler can reach *)
Theorem handle500_response : forall w, consistent w -> written w = false ->
  u_wrote (handle500 w) = true /\ u_status (handle500 w) = 500 /\
  u_body (handle500 w) = u_body w ++ S2B "Internal Server Error
".
Proof. exact handle500_response_proof. Qed.
Print Assumptions handle500_response.

(* the code's tests (errors.Is, type assertion + errors.As + ToLower + Contains) are the
   classes the specification names *)
Theorem abort_class : forall e, errors_is_abort e = carries_abort_e e.
Proof. exact errors_is_abort_spec. Qed.
Print Assumptions abort_class.

Theorem broken_connection_class : forall v, connIsBroken v = reports_broken_connection v.
Proof. exact conn_broken_spec. Qed.
Print Assumptions broken_connection_class.

(* link to Spec.v: for every request, scripted handler (any actions, then a panic with any
   value) an ideal observation of the model's run passes the specification's containment and
   response clauses, and one record is logged for a recovered panic *)
Theorem model_meets_spec_response : forall q stack acts v vid,
  let o := observe q stack acts v vid in
  contained_ok v vid o = true /\ response_ok v o = true /\
  (carries_abort v = false -> o_records o = logged q v stack []).
Proof. exact model_meets_spec_response_proof. Qed.
Print Assumptions model_meets_spec_response.

Example panic_contained_nonvacuous :
  (* broken pipe found through Wrap and Join, upper-case text; nothing written: nothing at all *)
  reports_broken_connection ex_broken = true /\ carries_abort ex_broken = false /\
  (let '(r, w, log) := recovery_mw ex_q [] (run_actions [AWriteHeader 103] (Some ex_broken)) w_reset [] in
   r = Returned /\ u_wrote w = false /\ List.length log = 1%nat) /\
  (* a plain string, nothing written: 500 *)
  (let '(r, w, log) := recovery_mw ex_q [] (run_actions [] (Some (PStr (S2B "x")))) w_reset [] in
   r = Returned /\ u_status w = 500 /\ List.length log = 1%nat) /\
  (* partial body: untouched *)
  (let '(r, w, log) := recovery_mw ex_q [] (run_actions [AWrite (S2B "ab")] (Some (PInt 1))) w_reset [] in
   r = Returned /\ u_status w = 200 /\ u_body w = S2B "ab") /\
  (* ErrAbortHandler deep inside: re-raised, nothing logged *)
  carries_abort ex_abort = true /\
  recovery_mw ex_q [] (run_actions [] (Some ex_abort)) w_reset [] = (Panicked ex_abort, w_reset, []).
Proof. vm_compute. repeat split. Qed.

(* ---- redaction ---- *)

(* the GENERATED blacklist covers the six credential names of the property text *)
Theorem generated_blacklist_covers :
  forall c, In c credential_names -> exists h, In h blacklistedHeader /\ same_ignoring_case h c.
Proof. exact generated_blacklist_covers_proof. Qed.
Print Assumptions generated_blacklist_covers.

(* ASCII case folding: the code's comparison is "equal ignoring ASCII case" *)
Theorem equal_fold_is_same_ignoring_case : forall a b, equal_fold a b = true <-> same_ignoring_case a b.
Proof. exact equal_fold_iff. Qed.
Print Assumptions equal_fold_is_same_ignoring_case.

(* for EVERY name equal, ignoring ASCII case, to a credential name and EVERY text after the
   colon, the logged line is "Name: <redacted>" *)
Theorem credential_line : forall name rest,
  sensitive name -> dump_line (name ++ colon :: rest) = name ++ S2B ": <redacted>".
Proof. exact credential_line_proof. Qed.
Print Assumptions credential_line.

(* ... so the value does not occur in it (unless it occurs in "Name: <redacted>" itself) *)
Theorem credential_value_absent : forall name value,
  sensitive name ->
  infix_b value (name ++ S2B ": <redacted>") = false ->
  infix_b value (dump_line (name ++ S2B ": " ++ value)) = false.
Proof. exact credential_value_absent_proof. Qed.
Print Assumptions credential_value_absent.

(* whole dump, any number of headers in any order: every credential header is logged redacted,
   every other header either redacted or verbatim *)
Theorem redaction_complete : forall reqline hdrs,
  ~ In CR reqline -> Forall wf_header hdrs ->
  exists lines,
    logged_dump (render reqline hdrs)
    = S2B "Request Dump:
" ++ reqline ++ flat_map (fun l => reqHeaderSep ++ l) lines ++ reqHeaderSep ++ reqHeaderSep
    /\ Forall2 (fun h l =>
                  (sensitive (fst h) -> l = fst h ++ S2B ": <redacted>")
                  /\ (l = fst h ++ S2B ": <redacted>" \/ l = render_line h)) hdrs lines.
Proof. exact redaction_complete_proof. Qed.
Print Assumptions redaction_complete.

(* non-interference: the logged message does not depend on the values of credential headers *)
Theorem redaction_hides_values : forall reqline hdrs hdrs',
  ~ In CR reqline -> Forall wf_header hdrs -> Forall wf_header hdrs' ->
  Forall2 (fun h h' => fst h = fst h' /\ (sensitive (fst h) \/ snd h = snd h')) hdrs hdrs' ->
  message_prefix (render reqline hdrs) = message_prefix (render reqline hdrs').
Proof. exact redaction_hides_values_proof. Qed.
Print Assumptions redaction_hides_values.

Example redaction_nonvacuous :
  sensitive (S2B "x-csrf-TOKEN") /\ sensitive (S2B "PROXY-authorization") /\ sensitive (S2B "set-cookie") /\
  r_msg (record ex_q (PStr (S2B "boom")) (S2B "<stack>")) =
  S2B "Recovered from PANIC
Request Dump:
GET /r/1 HTTP/1.1" ++ reqHeaderSep ++ S2B "Host: h" ++ reqHeaderSep ++ S2B "x-csrf-TOKEN: <redacted>" ++ reqHeaderSep
  ++ S2B "Accept: */*" ++ reqHeaderSep ++ reqHeaderSep ++ S2B "Stack:
<stack>" /\
  r_attrs (record ex_q (PStr (S2B "boom")) []) =
  [(S2B "route", VStr (S2B "/r/{id}")); (S2B "params", VGroup [(S2B "id", S2B "1")]); (S2B "error", VStr (S2B "boom"))].
Proof.
  repeat split.
  - exists (S2B "X-CSRF-Token"). split; [vm_compute; tauto|reflexivity].
  - exists (S2B "Proxy-Authorization"). split; [vm_compute; tauto|reflexivity].
  - exists (S2B "Set-Cookie"). split; [vm_compute; tauto|reflexivity].
Qed.

(* ---- the router stays usable ---- *)

(* a panic inside the function of Updates / View, or in user code run under a write helper:
   the same value propagates, published routes and lock are as before, a later write completes *)
Theorem router_usable_after_panic : forall k st ops id,
  locked st = false -> (k = THelper -> exists o, ops = [o]) ->
  run_txn k st ops (EndPanic id) = Some (TPanic id, st) /\ write_possible st = true.
Proof. exact router_usable_after_panic_proof. Qed.
Print Assumptions router_usable_after_panic.

(* every exit path releases the writer lock; routes change only through a commit *)
Theorem lock_released_always : forall k st ops e out st',
  locked st = false -> run_txn k st ops e = Some (out, st') ->
  locked st' = false /\ write_possible st' = true /\ (out <> TOk -> published st' = published st).
Proof. exact lock_released_always_proof. Qed.
Print Assumptions lock_released_always.

Example router_usable_nonvacuous :
  let st := {| locked := false; published := [(S2B "GET /a", 0%N); (S2B "TRACE /a", 0%N)] |} in
  let ops := [OpHandle (S2B "POST /b") 1%N; OpTruncate [S2B "GET"; S2B "TRACE"]; OpUpdate (S2B "POST /b") 2%N] in
  run_txn TUpdates st ops (EndPanic 3%N) = Some (TPanic 3%N, st) /\
  run_txn TManual st ops EndErr = Some (TErr, st) /\
  run_txn TUpdates st ops EndOk = Some (TOk, {| locked := false; published := [(S2B "POST /b", 2%N)] |}) /\
  (* had the lock stayed held, the next write would block: the model can tell *)
  write_possible {| locked := true; published := [] |} = false.
Proof. vm_compute. repeat split. Qed.

(* a response started only by a flush counts as started: untouched by the recovery *)
Example flush_starts_response :
  let '(r, w, log) := recovery_mw ex_q [] (run_actions [AFlush FFlushError] (Some (PStr (S2B "x")))) w_reset [] in
  r = Returned /\ u_wrote w = true /\ u_status w = 200 /\ u_body w = [] /\
  let '(_, w2, _) := recovery_mw ex_q [] (run_actions [AFlush FNone] (Some (PStr (S2B "x")))) w_reset [] in
  u_status w2 = 500.
Proof. vm_compute. repeat split. Qed.

(* a log handler that is not enabled at Error (discard, higher level) changes nothing but the log *)
Example disabled_log_handler_still_500 :
  let q := Q RouteHandler (S2B "/r") true [] (q_dump ex_q) false in
  let '(r, w, log) := recovery_mw q [] (run_actions [] (Some (PStr (S2B "x")))) w_reset [] in
  r = Returned /\ u_wrote w = true /\ u_status w = 500 /\ log = [].
Proof. vm_compute. repeat split. Qed.
