(* C15 model, part 3: the writer lock and the published tree through Updates / View
   (fox.go:394-424), the write helpers (fox.go:183-266), Txn.Commit / Txn.Abort (txn.go:302-338),
   txnWith (fox.go:448-458), and ServeHTTP's use of them (none: it only loads the root).
   Routes are abstracted to their patterns (one method); the tree to the set of patterns. *)
From FoxBase Require Import Bytes.
From FoxC15 Require Import Types.

Record rstate := { locked : bool; published : list bytes }.
Record txn := { t_write : bool; t_root : option (list bytes) }.   (* rootTxn == nil once settled *)

Inductive op := OpHandle (r : bytes) | OpDelete (r : bytes) | OpLookup (r : bytes).

Definition mem (r : bytes) (l : list bytes) : bool := existsb (bytes_eqb r) l.
Definition remove (r : bytes) (l : list bytes) : list bytes := filter (fun x => negb (bytes_eqb r x)) l.

(* an operation on a transaction; errors (settled txn, read-only txn, route exists / not
   found) leave the transaction unchanged and are ignored by the transaction functions of the harness *)
Definition apply_op (t : txn) (o : op) : txn :=
  match t_root t with
  | None => t
  | Some rs =>
      match o with
      | OpLookup _ => t
      | OpHandle r =>
          if negb (t_write t) then t else
          if mem r rs then t else {| t_write := true; t_root := Some (rs ++ [r]) |}
      | OpDelete r =>
          if negb (t_write t) then t else {| t_write := true; t_root := Some (remove r rs) |}
      end
  end.

(* txnWith: a write transaction takes fox.mu; None = the caller blocks for ever *)
Definition txn_begin (st : rstate) (write : bool) : option (rstate * txn) :=
  if write then
    if locked st then None
    else Some ({| locked := true; published := published st |}, {| t_write := true; t_root := Some (published st) |})
  else Some (st, {| t_write := false; t_root := Some (published st) |}).

Definition commit (st : rstate) (t : txn) : rstate * txn :=
  if negb (t_write t) then (st, t) else
  match t_root t with
  | None => (st, t)
  | Some rs => ({| locked := false; published := rs |}, {| t_write := true; t_root := None |})
  end.

Definition abort (st : rstate) (t : txn) : rstate * txn :=
  if negb (t_write t) then (st, t) else
  match t_root t with
  | None => (st, t)
  | Some _ => ({| locked := false; published := published st |}, {| t_write := true; t_root := None |})
  end.

(* how the transaction function ends after its operations *)
Inductive ending := EndPanic (id : N) | EndErr | EndOk.

(* Router.Updates *)
Definition updates (st : rstate) (ops : list op) (e : ending) : option (tout * rstate) :=
  match txn_begin st true with
  | None => None
  | Some (st1, t) =>
      let t1 := fold_left apply_op ops t in
      match e with
      | EndPanic id =>            (* deferred: p := recover(); p != nil: txn.Abort(); panic(p) *)
          Some (TPanic id, fst (abort st1 t1))
      | EndErr =>                 (* return err; deferred: txn.Abort() *)
          Some (TErr, fst (abort st1 t1))
      | EndOk =>                  (* txn.Commit(); return nil; deferred: txn.Abort() (settled: no-op) *)
          let '(st2, t2) := commit st1 t1 in
          Some (TOk, fst (abort st2 t2))
      end
  end.

(* Router.View *)
Definition view (st : rstate) (ops : list op) (e : ending) : option (tout * rstate) :=
  match txn_begin st false with
  | None => None
  | Some (st1, t) =>
      let t1 := fold_left apply_op ops t in
      Some (match e with EndPanic id => TPanic id | EndErr => TErr | EndOk => TOk end, fst (abort st1 t1))
  end.

(* Router.Handle (Update, Delete, HandleRoute, UpdateRoute alike): txnWith(true, false);
   defer txn.Abort(); one operation — which may panic in user code (a middleware applied while
   the route is built) or return an error — then Commit *)
Definition op_fails (rs : list bytes) (o : op) : bool :=
  match o with OpHandle r => mem r rs | OpDelete r => negb (mem r rs) | OpLookup _ => false end.

Definition helper (st : rstate) (o : op) (e : ending) : option (tout * rstate) :=
  match txn_begin st true with
  | None => None
  | Some (st1, t) =>
      match e with
      | EndPanic id => Some (TPanic id, fst (abort st1 t))       (* deferred txn.Abort() *)
      | _ =>
          if op_fails (published st) o
          then Some (TErr, fst (abort st1 t))                     (* return nil, err; deferred txn.Abort() *)
          else let '(st2, t2) := commit st1 (apply_op t o) in
               Some (TOk, fst (abort st2 t2))
      end
  end.

Inductive tkind := TUpdates | TView | THelper.

Definition run_txn (k : tkind) (st : rstate) (ops : list op) (e : ending) : option (tout * rstate) :=
  match k with
  | TUpdates => updates st ops e
  | TView => view st ops e
  | THelper => match ops with [o] => helper st o e | _ => None end
  end.

(* "usable": the three probes of the harness, on the model state — a later write helper
   completes, the published routes are [expected] *)
Definition write_possible (st : rstate) : bool :=
  match helper st (OpHandle (S2B "/probe")) EndOk with Some _ => true | None => false end.
