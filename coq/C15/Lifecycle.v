(* C15 model, part 3: the writer lock and the published tree through Updates / View
   (fox.go:394-424), the write helpers (fox.go:183-266), Txn.Commit / Txn.Abort (txn.go:302-338),
   txnWith (fox.go:448-458), and ServeHTTP's use of them (none: it only loads the root).
   Routes are abstracted to (method+pattern key, handler version); the tree to the set of routes. *)
From FoxBase Require Import Bytes.
From FoxC15 Require Import Types.

(* a registered route: key = method ++ " " ++ pattern, and the version of its handler (which
   handler a request to it reaches; Update replaces it) *)
Definition route := (bytes * N)%type.

Record rstate := { locked : bool; published : list route }.
Record txn := { t_write : bool; t_root : option (list route) }.   (* rootTxn == nil once settled *)

Inductive op :=
| OpHandle (k : bytes) (v : N)
| OpUpdate (k : bytes) (v : N)
| OpDelete (k : bytes)
| OpTruncate (methods : list bytes)       (* Txn.Truncate(methods...): [] = every method *)
| OpLookup (k : bytes).

Definition mem (k : bytes) (l : list route) : bool := existsb (fun r => bytes_eqb k (fst r)) l.
Definition remove (k : bytes) (l : list route) : list route := filter (fun r => negb (bytes_eqb k (fst r))) l.
Definition replace (k : bytes) (v : N) (l : list route) : list route :=
  map (fun r => if bytes_eqb k (fst r) then (k, v) else r) l.

(* the route is registered under method m: its key starts with m ++ " " *)
Definition of_method (m : bytes) (r : route) : bool := prefix_b (m ++ S2B " ") (fst r).

(* tXn.truncate (tree.go:597-636) on the transaction's private root *)
Definition truncate (methods : list bytes) (l : list route) : list route :=
  match methods with
  | [] => []
  | _ => filter (fun r => negb (existsb (fun m => of_method m r) methods)) l
  end.

(* an operation on a transaction; errors (read-only txn, route exists / not found) leave the
   transaction unchanged and are ignored by the transaction functions of the harness *)
Definition apply_op (t : txn) (o : op) : txn :=
  match t_root t with
  | None => t
  | Some rs =>
      if negb (t_write t) then t else
      match o with
      | OpLookup _ => t
      | OpHandle k v => if mem k rs then t else {| t_write := true; t_root := Some (rs ++ [(k, v)]) |}
      | OpUpdate k v => if mem k rs then {| t_write := true; t_root := Some (replace k v rs) |} else t
      | OpDelete k => {| t_write := true; t_root := Some (remove k rs) |}
      | OpTruncate ms => {| t_write := true; t_root := Some (truncate ms rs) |}
      end
  end.

(* txnWith: a write transaction takes fox.mu; None = the caller blocks for ever *)
Definition txn_begin (st : rstate) (write : bool) : option (rstate * txn) :=
  if write then
    if locked st then None
    else Some ({| locked := true; published := published st |}, {| t_write := true; t_root := Some (published st) |})
  else Some (st, {| t_write := false; t_root := Some (published st) |}).

Definition commit (st : rstate) (t : txn) : rstate * txn :=
  if negb (t_write t) then (st, t) else
  match t_root t with
  | None => (st, t)
  | Some rs => ({| locked := false; published := rs |}, {| t_write := true; t_root := None |})
  end.

Definition abort (st : rstate) (t : txn) : rstate * txn :=
  if negb (t_write t) then (st, t) else
  match t_root t with
  | None => (st, t)
  | Some _ => ({| locked := false; published := published st |}, {| t_write := true; t_root := None |})
  end.

(* how the transaction function ends after its operations *)
Inductive ending := EndPanic (id : N) | EndErr | EndOk.

(* Router.Updates *)
Definition updates (st : rstate) (ops : list op) (e : ending) : option (tout * rstate) :=
  match txn_begin st true with
  | None => None
  | Some (st1, t) =>
      let t1 := fold_left apply_op ops t in
      match e with
      | EndPanic id =>            (* deferred: p := recover(); p != nil: txn.Abort(); panic(p) *)
          Some (TPanic id, fst (abort st1 t1))
      | EndErr =>                 (* return err; deferred: txn.Abort() *)
          Some (TErr, fst (abort st1 t1))
      | EndOk =>                  (* txn.Commit(); return nil; deferred: txn.Abort() (settled: no-op) *)
          let '(st2, t2) := commit st1 t1 in
          Some (TOk, fst (abort st2 t2))
      end
  end.

(* Router.View *)
Definition view (st : rstate) (ops : list op) (e : ending) : option (tout * rstate) :=
  match txn_begin st false with
  | None => None
  | Some (st1, t) =>
      let t1 := fold_left apply_op ops t in
      Some (match e with EndPanic id => TPanic id | EndErr => TErr | EndOk => TOk end, fst (abort st1 t1))
  end.

(* Router.Handle (Update, Delete, HandleRoute, UpdateRoute alike): txnWith(true, false);
   defer txn.Abort(); one operation — which may panic in user code (a middleware applied while
   the route is built) or return an error — then Commit *)
Definition op_fails (rs : list route) (o : op) : bool :=
  match o with
  | OpHandle k _ => mem k rs
  | OpUpdate k _ | OpDelete k => negb (mem k rs)
  | OpTruncate _ | OpLookup _ => false
  end.

Definition helper (st : rstate) (o : op) (e : ending) : option (tout * rstate) :=
  match txn_begin st true with
  | None => None
  | Some (st1, t) =>
      match e with
      | EndPanic id => Some (TPanic id, fst (abort st1 t))       (* deferred txn.Abort() *)
      | _ =>
          if op_fails (published st) o
          then Some (TErr, fst (abort st1 t))                     (* return nil, err; deferred txn.Abort() *)
          else let '(st2, t2) := commit st1 (apply_op t o) in
               Some (TOk, fst (abort st2 t2))
      end
  end.

(* unmanaged: txn := Router.Txn(true); defer txn.Abort(); operations; then txn.Commit() (EndOk),
   an explicit txn.Abort() (EndErr) or a panic caught above the deferred Abort (EndPanic) *)
Definition manual (st : rstate) (ops : list op) (e : ending) : option (tout * rstate) :=
  match txn_begin st true with
  | None => None
  | Some (st1, t) =>
      let t1 := fold_left apply_op ops t in
      match e with
      | EndPanic id => Some (TPanic id, fst (abort st1 t1))
      | EndErr => let '(st2, t2) := abort st1 t1 in Some (TErr, fst (abort st2 t2))
      | EndOk => let '(st2, t2) := commit st1 t1 in Some (TOk, fst (abort st2 t2))
      end
  end.

Inductive tkind := TUpdates | TView | THelper | TManual.

Definition run_txn (k : tkind) (st : rstate) (ops : list op) (e : ending) : option (tout * rstate) :=
  match k with
  | TUpdates => updates st ops e
  | TView => view st ops e
  | THelper => match ops with [o] => helper st o e | _ => None end
  | TManual => manual st ops e
  end.

(* "usable": the three probes of the harness, on the model state — a later write helper
   completes, the published routes are [expected] *)
Definition write_possible (st : rstate) : bool :=
  match helper st (OpHandle (S2B "GET /probe") 0%N) EndOk with Some _ => true | None => false end.
