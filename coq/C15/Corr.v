(* C15 correspondence: two kinds of cases.
   CPanic: one request through a router with Recovery installed; the handler / inner middleware
           performs writer actions and then panics (or returns: control cases).
   CTxn:   one managed transaction (Updates / View) or write helper whose function ends by a
           panic, an error or normally after some operations. *)
From FoxBase Require Import Bytes.
From FoxC15 Require Import Types GenConsts Spec Redact Recovery Lifecycle.
Open Scope Z_scope.

Inductive case :=
| CPanic (q : reqinfo) (reqline : bytes) (headers : list (bytes * bytes))
         (acts : list action) (fin : option (pval * N)) (o : pobs)
| CTxn (k : tkind) (initial : list (bytes * N)) (ops : list op) (e : ending) (o : tobs).

(* compact constructors used by the case files *)
Definition Q (sc : scope) (pattern : bytes) (has_route : bool) (params : list (bytes * bytes)) (dump : bytes)
           (enabled : bool) : reqinfo :=
  {| q_scope := sc; q_pattern := pattern; q_has_route := has_route; q_params := params; q_dump := dump;
     q_log_enabled := enabled |}.
Definition Rc (msg : bytes) (attrs : list (bytes * aval)) : logrec := {| r_msg := msg; r_attrs := attrs |}.
Definition PO (esc : option N) (pre untouched wrote : bool) (status : Z) (body : bytes)
           (recs : list logrec) (visible fu wr rs : bool) : pobs :=
  {| o_escaped := esc; o_pre_started := pre; o_untouched := untouched; o_wrote := wrote; o_status := status;
     o_body := body; o_records := recs; o_records_visible := visible; o_followup_ok := fu; o_write_ok := wr; o_routes_same := rs |}.
Definition TO (out : tout) (routes : list (bytes * N)) (agree fu wr : bool) : tobs :=
  {| t_out := out; t_routes := routes; t_views_agree := agree; t_followup_ok := fu; t_write_ok := wr |}.

Definition under_eqb (a b : wstate) : bool :=
  Bool.eqb (u_wrote a) (u_wrote b) && (u_status a =? u_status b) && bytes_eqb (u_body a) (u_body b).

(* record comparison: attributes exactly; message = model prefix ++ (some stack text) *)
Definition rec_agrees (model_prefix : logrec) (obs : logrec) : bool :=
  prefix_b (r_msg model_prefix) (r_msg obs) && list_eqb attr_eqb (r_attrs model_prefix) (r_attrs obs).

Definition set_eqb (a b : list (bytes * N)) : bool :=
  forallb (fun x => existsb (route_eqb x) b) a && forallb (fun x => existsb (route_eqb x) a) b.

Definition model_agrees (c : case) : bool :=
  match c with
  | CPanic q _ _ acts fin o =>
      let next := run_actions acts (option_map fst fin) in
      let pre := snd (next w_reset) in
      match recovery_mw q [] next w_reset [] with
      | (r, w, log) =>
          opt_eqb N.eqb (match r, fin with Panicked _, Some (_, id) => Some id | _, _ => None end) (o_escaped o)
          && Bool.eqb (u_wrote pre) (o_pre_started o)
          && Bool.eqb (under_eqb pre w) (o_untouched o)
          && Bool.eqb (u_wrote w) (o_wrote o) && (u_status w =? o_status o) && bytes_eqb (u_body w) (o_body o)
          && (negb (o_records_visible o) || list_eqb rec_agrees log (o_records o))
          && o_followup_ok o && o_write_ok o && o_routes_same o     (* ServeHTTP touches neither lock nor tree *)
      end
  | CTxn k initial ops e o =>
      match run_txn k {| locked := false; published := initial |} ops e with
      | Some (out, st) =>
          tout_eqb out (t_out o) && set_eqb (published st) (t_routes o)
          && Bool.eqb (write_possible st) (t_write_ok o) && t_followup_ok o && t_views_agree o
      | None => false
      end
  end.

Definition case_spec_ok (c : case) : bool :=
  match c with
  | CPanic q reqline headers _ (Some (v, vid)) o =>
      spec_panic_ok (q_scope q) (q_pattern q) (q_params q) reqline headers (q_log_enabled q) v vid o
  | CPanic _ _ _ _ None o =>
      (* control: no panic — nothing escapes, nothing is logged, the response is the handler's *)
      usable o && match o_escaped o with None => true | _ => false end
      && o_untouched o && (negb (o_records_visible o) || match o_records o with [] => true | _ => false end)
  | CTxn k initial _ e o =>
      spec_txn_ok initial (match e with EndPanic id => Some id | _ => None end)
                  (match k, e with TView, _ => true | _, EndOk => false | _, _ => true end) o
  end.

Definition mismatches (cs : list case) : list nat := true_idx (map (fun c => negb (model_agrees c)) cs).
Definition spec_violations (cs : list case) : list nat := true_idx (map (fun c => negb (case_spec_ok c)) cs).
Definition fuel_outs (cs : list case) : list nat := [].
