(* Model of Router.ServeHTTP (/repo/fox.go:531-653) over an ARBITRARY matcher.

   The radix-tree matcher is modelled elsewhere (C01/C08); here tree.lookup is a
   parameter:  lookup m = Some (r, tsr)  stands for
       tree.lookup(m, r.Host, path, c, _) = (n, tsr)  with n.route = r,
   and None for n == nil (host and path are those of the request and the same
   for every call made by one ServeHTTP, so they are not arguments).
   Contract assumed of the matcher (tree.go:38): tsr is only reported together
   with a node; (nil, true) is not representable here.

   Transliteration notes (same control flow as the Go code):
   * c.reset sets scope=RouteHandler and truncates c.params; it does NOT reset
     c.route / c.tsr / c.tsrParams of the pooled context (context.go:120-127):
     the pooled values are the argument [c0].
   * the non-lazy first lookup records parameters into c.params / c.tsrParams
     even when it ends up returning nil or a tsr node: the recorded slices are
     the arguments [rec_params], [rec_tsr_params] (arbitrary "garbage").
   * the lazy lookups of the Allow loops do not touch c.params/c.tsrParams
     (node.go: every write is under `if !lazy`).
   * sb.Len() > 0 is modelled as "the list of written method names is not
     empty": method keys are never empty (txn.go:100 rejects "").
   * CleanPath is the parameter [cleanfn] (instantiated with FoxC17.Model.cleanpath
     in Corr.v / Dispatch_C08.v); Go evaluates it only when
     n.route.redirectTrailingSlash is true (short-circuit &&). *)
From FoxBase Require Import Bytes.
Open Scope char_scope.

Definition param := (bytes * bytes)%type.

Inductive scope := RouteHandler | NoRouteHandler | NoMethodHandler | RedirectHandler | OptionsHandler.

Inductive cres := COk (o : bytes) | CPanic | CFuel.

Record options := { handleMethodNotAllowed : bool; handleOptions : bool }.

(* one entry of tree.root: the method key and  len(children) > 0 *)
Definition root := (bytes * bool)%type.

Record request := {
  r_method : bytes;
  r_urlpath : bytes;      (* r.URL.Path *)
  r_rawpath : bytes       (* r.URL.RawPath *)
}.

Definition mGET := S2B "GET".
Definition mOPTIONS := S2B "OPTIONS".
Definition mCONNECT := S2B "CONNECT".
Definition slash : bytes := ["/"].
Definition star : bytes := ["*"].

Definition nonempty {A} (l : list A) : bool := match l with [] => false | _ => true end.

(* path := r.URL.Path; if len(r.URL.RawPath) > 0 { path = r.URL.RawPath } *)
Definition req_path (rq : request) : bytes :=
  if nonempty (r_rawpath rq) then r_rawpath rq else r_urlpath rq.

Section Dispatch.
  Context {R : Type}.
  Variable ignoreTS redirectTS : R -> bool.       (* n.route.ignoreTrailingSlash / redirectTrailingSlash *)
  Variable cleanfn : bytes -> cres.               (* CleanPath *)

  Record ctx := {
    c_route : option R;
    c_tsr : bool;
    c_params : list param;
    c_tsrParams : list param;
    c_scope : scope
  }.

  (* what Context.Params() yields (context.go:204-221) *)
  Definition ctx_params (c : ctx) : list param := if c_tsr c then c_tsrParams c else c_params c.

  (* Context.CloneWith (context.go:376-392): a context taken from the pool, whatever it held ([pooled]),
     receives route, scope, tsr and a copy of the VISIBLE parameter slice (copyWithResize truncates the
     destination to the source's length); the other slice keeps the pooled content.  Context.Clone
     (context.go:336-372) builds a fresh context the same way (the other slice is nil). *)
  Definition clone_with (c pooled : ctx) : ctx :=
    {| c_route := c_route c; c_tsr := c_tsr c;
       c_params := if c_tsr c then c_params pooled else c_params c;
       c_tsrParams := if c_tsr c then c_tsrParams c else c_tsrParams pooled;
       c_scope := c_scope c |}.

  Definition clone (c : ctx) : ctx :=
    {| c_route := c_route c; c_tsr := c_tsr c;
       c_params := if c_tsr c then [] else c_params c;
       c_tsrParams := if c_tsr c then c_tsrParams c else [];
       c_scope := c_scope c |}.

  Inductive handler := HRoute (r : R) | HRedirect | HOptions | HNoMethod | HNoRoute.

  Record outcome := {
    o_handler : handler;           (* which handler chain ServeHTTP invoked *)
    o_ctx : ctx;                   (* the context it was invoked with *)
    o_allow : option (list bytes)  (* method names written to the Allow header, in order *)
  }.

  Inductive result := Done (o : outcome) | DPanic | DOutOfFuel.

  Variable opts : options.
  Variable roots : list root.
  Variable lookup : bytes -> option (R * bool).

  (* n != nil && (!tsr || n.route.ignoreTrailingSlash) *)
  Definition allowed (m : bytes) : bool :=
    match lookup m with
    | Some (r, tsr) => negb tsr || ignoreTS r
    | None => false
    end.

  Definition set_route (c : ctx) (r : option R) (tsr : bool) : ctx :=
    {| c_route := r; c_tsr := tsr; c_params := c_params c; c_tsrParams := c_tsrParams c; c_scope := c_scope c |}.

  (* truncate c.params to length 0; c.route = nil; c.tsr = false  (fox.go:580-582) *)
  Definition scrub (c : ctx) : ctx :=
    {| c_route := None; c_tsr := false; c_params := []; c_tsrParams := c_tsrParams c; c_scope := c_scope c |}.

  Definition set_scope (c : ctx) (s : scope) : ctx :=
    {| c_route := c_route c; c_tsr := c_tsr c; c_params := c_params c; c_tsrParams := c_tsrParams c; c_scope := s |}.

  Definition no_route (c : ctx) : result :=
    Done {| o_handler := HNoRoute; o_ctx := set_scope c NoRouteHandler; o_allow := None |}.

  (* fox.go:578-652, after the tsr block *)
  Definition special (rq : request) (c : ctx) : result :=
    let c := scrub c in
    let path := req_path rq in
    if bytes_eqb (r_method rq) mOPTIONS && handleOptions opts then
      let l :=
        if bytes_eqb path star then
          map fst (filter (fun rt : root => negb (bytes_eqb (fst rt) mOPTIONS) && snd rt) roots)
        else
          map fst (filter (fun rt : root => allowed (fst rt)) roots) in
      if nonempty l then
        Done {| o_handler := HOptions; o_ctx := set_scope c OptionsHandler; o_allow := Some (l ++ [mOPTIONS]) |}
      else no_route c
    else if handleMethodNotAllowed opts then
      let l := map fst (filter (fun rt : root => negb (bytes_eqb (fst rt) (r_method rq)) && allowed (fst rt)) roots) in
      if nonempty l then
        let hasOptions := existsb (fun k => bytes_eqb k mOPTIONS) l in
        let l' := if handleOptions opts && negb hasOptions then l ++ [mOPTIONS] else l in
        Done {| o_handler := HNoMethod; o_ctx := set_scope c NoMethodHandler; o_allow := Some l' |}
      else no_route c
    else no_route c.

  (* c0: the pooled context as it comes out of the pool; rec_*: what the
     non-lazy lookup leaves in c.params / c.tsrParams *)
  Definition serve_http (rq : request) (c0 : ctx) (rec_params rec_tsr_params : list param) : result :=
    let path := req_path rq in
    (* c.reset(w, r); n, tsr = tree.lookup(r.Method, r.Host, path, c, false) *)
    let c := {| c_route := c_route c0; c_tsr := c_tsr c0; c_params := rec_params;
                c_tsrParams := rec_tsr_params; c_scope := RouteHandler |} in
    match lookup (r_method rq) with
    | Some (r, false) =>
        Done {| o_handler := HRoute r; o_ctx := set_route c (Some r) false; o_allow := None |}
    | Some (r, true) =>
        if negb (bytes_eqb (r_method rq) mCONNECT) && negb (bytes_eqb (r_urlpath rq) slash) then
          if ignoreTS r then
            Done {| o_handler := HRoute r; o_ctx := set_route c (Some r) true; o_allow := None |}
          else if redirectTS r then
            match cleanfn path with
            | COk o =>
                if bytes_eqb path o then
                  Done {| o_handler := HRedirect; o_ctx := set_scope (scrub c) RedirectHandler; o_allow := None |}
                else special rq c
            | CPanic => DPanic
            | CFuel => DOutOfFuel
            end
          else special rq c
        else special rq c
    | None => special rq c
    end.

End Dispatch.

Arguments ctx : clear implicits.
Arguments handler : clear implicits.
Arguments outcome : clear implicits.
Arguments result : clear implicits.
