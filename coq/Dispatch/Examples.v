(* Non-vacuity: a concrete router state satisfying the hypotheses of the C11
   theorems, with the answers the theorems speak about. *)
From FoxBase Require Import Bytes.
From FoxDispatch Require Import Dispatch Redirect DispatchSpec DispatchProofs.
Open Scope char_scope.

Definition mPOST := S2B "POST".
Definition mPUT := S2B "PUT".
Definition mDELETE := S2B "DELETE".
Definition mFOO := S2B "FOO".

(* routes 1..4; route 2 ignores trailing slashes, route 3 redirects *)
Definition ex_ign (r : nat) : bool := Nat.eqb r 2.
Definition ex_red (r : nat) : bool := Nat.eqb r 3.
Definition ex_roots : list root := [(mGET, true); (mPOST, true); (mPUT, true); (mDELETE, false); (mFOO, true)].
Definition ex_lookup (m : bytes) : option (nat * bool) :=
  if bytes_eqb m mGET then Some (1, false)
  else if bytes_eqb m mPOST then Some (2, true)
  else if bytes_eqb m mPUT then Some (3, true)
  else if bytes_eqb m mFOO then Some (4, false)
  else None.
Definition ex_has_routes (m : bytes) : bool :=
  bytes_eqb m mGET || bytes_eqb m mPOST || bytes_eqb m mPUT || bytes_eqb m mFOO.
Definition ex_opts : options := {| handleMethodNotAllowed := true; handleOptions := true |}.
Definition ex_clean (p : bytes) : cres := COk p.
Definition ex_c0 : ctx nat :=
  {| c_route := Some 9; c_tsr := true; c_params := [(S2B "old", S2B "old")]; c_tsrParams := [(S2B "old", S2B "old")]; c_scope := OptionsHandler |}.
Definition ex_garbage : list param := [(S2B "x", S2B "leftover")].
Definition ex_req (m p : bytes) : request := {| r_method := m; r_urlpath := p; r_rawpath := [] |}.

Lemma ex_roots_cover : roots_cover ex_roots ex_lookup.
Proof.
  unfold roots_cover. intros m H. unfold ex_lookup in H. simpl.
  destruct (bytes_eqb m mGET) eqn:E1; [apply bytes_eqb_eq in E1; rewrite E1; auto|].
  destruct (bytes_eqb m mPOST) eqn:E2; [apply bytes_eqb_eq in E2; rewrite E2; auto|].
  destruct (bytes_eqb m mPUT) eqn:E3; [apply bytes_eqb_eq in E3; rewrite E3; auto|].
  destruct (bytes_eqb m mFOO) eqn:E4; [apply bytes_eqb_eq in E4; rewrite E4; auto 6|]. congruence.
Qed.

Lemma ex_has_routes_def : has_routes_def ex_roots ex_has_routes.
Proof.
  unfold has_routes_def. intros m. unfold ex_has_routes. simpl. split.
  - intros H. repeat (apply orb_true_iff in H; destruct H as [H|H]); apply bytes_eqb_eq in H; subst m; auto 6.
  - intros [H|[H|[H|[H|[H|[]]]]]]; inversion H; subst m; try reflexivity.
Qed.

(* DELETE /a with 405 handling and auto-OPTIONS on: GET and FOO serve /a directly,
   POST by ignoring the trailing slash, PUT would only redirect *)
Example ex_no_method :
  serve_http ex_ign ex_red ex_clean ex_opts ex_roots ex_lookup (ex_req mDELETE (S2B "/a")) ex_c0 ex_garbage ex_garbage =
  Done {| o_handler := HNoMethod;
          o_ctx := {| c_route := None; c_tsr := false; c_params := []; c_tsrParams := ex_garbage; c_scope := NoMethodHandler |};
          o_allow := Some [mGET; mPOST; mFOO; mOPTIONS] |}.
Proof. reflexivity. Qed.

Example ex_options :
  serve_http ex_ign ex_red ex_clean ex_opts ex_roots ex_lookup (ex_req mOPTIONS (S2B "/a")) ex_c0 ex_garbage ex_garbage =
  Done {| o_handler := HOptions;
          o_ctx := {| c_route := None; c_tsr := false; c_params := []; c_tsrParams := ex_garbage; c_scope := OptionsHandler |};
          o_allow := Some [mGET; mPOST; mFOO; mOPTIONS] |}.
Proof. reflexivity. Qed.

Example ex_options_star :
  serve_http ex_ign ex_red ex_clean ex_opts ex_roots ex_lookup (ex_req mOPTIONS (S2B "*")) ex_c0 ex_garbage ex_garbage =
  Done {| o_handler := HOptions;
          o_ctx := {| c_route := None; c_tsr := false; c_params := []; c_tsrParams := ex_garbage; c_scope := OptionsHandler |};
          o_allow := Some [mGET; mPOST; mPUT; mFOO; mOPTIONS] |}.
Proof. reflexivity. Qed.

(* PUT /a: the slash-adjusted route redirects and the path is clean *)
Example ex_redirect :
  serve_http ex_ign ex_red ex_clean ex_opts ex_roots ex_lookup (ex_req mPUT (S2B "/a")) ex_c0 ex_garbage ex_garbage =
  Done {| o_handler := HRedirect;
          o_ctx := {| c_route := None; c_tsr := false; c_params := []; c_tsrParams := ex_garbage; c_scope := RedirectHandler |};
          o_allow := None |}.
Proof. reflexivity. Qed.

(* POST /a: served by route 2 with the parameters of the adjusted match *)
Example ex_ignore :
  serve_http ex_ign ex_red ex_clean ex_opts ex_roots ex_lookup (ex_req mPOST (S2B "/a")) ex_c0 ex_garbage [(S2B "k", S2B "v")] =
  Done {| o_handler := HRoute 2;
          o_ctx := {| c_route := Some 2; c_tsr := true; c_params := ex_garbage; c_tsrParams := [(S2B "k", S2B "v")]; c_scope := RouteHandler |};
          o_allow := None |}.
Proof. reflexivity. Qed.

(* all hypotheses of the C11 theorems hold of this state, and the state reaches
   every special handler *)
Example ex_nonvacuous :
  roots_cover ex_roots ex_lookup /\ has_routes_def ex_roots ex_has_routes /\ cleanfn_correct ex_clean (fun p => p) /\
  (exists o, serve_http ex_ign ex_red ex_clean ex_opts ex_roots ex_lookup (ex_req mDELETE (S2B "/a")) ex_c0 ex_garbage ex_garbage = Done o /\ o_handler o = HNoMethod) /\
  (exists o, serve_http ex_ign ex_red ex_clean ex_opts ex_roots ex_lookup (ex_req mOPTIONS (S2B "/a")) ex_c0 ex_garbage ex_garbage = Done o /\ o_handler o = HOptions) /\
  (exists o, serve_http ex_ign ex_red ex_clean ex_opts ex_roots ex_lookup (ex_req mDELETE (S2B "/zzz")) ex_c0 ex_garbage ex_garbage = Done o /\ o_handler o = HNoMethod) /\
  (exists o, serve_http ex_ign ex_red ex_clean {| handleMethodNotAllowed := false; handleOptions := false |} ex_roots ex_lookup (ex_req mDELETE (S2B "/a")) ex_c0 ex_garbage ex_garbage = Done o /\ o_handler o = HNoRoute).
Proof.
  split; [exact ex_roots_cover|]. split; [exact ex_has_routes_def|]. split; [intros p; reflexivity|].
  repeat split; eexists; split; reflexivity.
Qed.
