(* Lemmas about the RFC 3986 functions of Uri.v on the two reference forms a
   trailing-slash redirect produces:  [./]<elem>/  and  ../<elem> . *)
From FoxBase Require Import Bytes.
From FoxDispatch Require Import Uri.
Open Scope char_scope.

Definition slash_free (s : bytes) : bool := forallb (fun c => negb (Ascii.eqb c "/")) s.

(* ------------------------------------------------------------ split / join *)

Lemma split_seg_acc s : forall cur,
  split_seg s cur = match split_seg s [] with x :: r => (rev cur ++ x) :: r | [] => [] end.
Proof.
  induction s as [|c s IH]; intros cur; simpl.
  - rewrite app_nil_r. reflexivity.
  - destruct (Ascii.eqb c "/").
    + rewrite app_nil_r. reflexivity.
    + rewrite (IH (c :: cur)), (IH [c]). destruct (split_seg s []) as [|x r]; [reflexivity|].
      simpl. rewrite <- app_assoc. reflexivity.
Qed.

Lemma split_seg_nonnil s cur : split_seg s cur <> [].
Proof. revert cur. induction s as [|c s IH]; intros cur; simpl; [congruence|]. destruct (Ascii.eqb c "/"); [congruence|apply IH]. Qed.

Lemma split_seg_app_slash a : forall b cur,
  split_seg (a ++ "/" :: b) cur = split_seg a cur ++ split_seg b [].
Proof.
  induction a as [|c a IH]; intros b cur; simpl.
  - reflexivity.
  - destruct (Ascii.eqb c "/"); simpl; rewrite IH; reflexivity.
Qed.

Lemma split_seg_slash_free s : slash_free s = true -> forall cur, split_seg s cur = [rev cur ++ s].
Proof.
  induction s as [|c s IH]; intros H cur; simpl.
  - rewrite app_nil_r. reflexivity.
  - simpl in H. apply andb_true_iff in H. destruct H as [Hc Hs]. apply negb_true_iff in Hc. rewrite Hc.
    rewrite (IH Hs). simpl. rewrite <- app_assoc. reflexivity.
Qed.

Lemma split_seg_segs_slash_free s : forall cur, slash_free cur = true ->
  Forall (fun x => slash_free x = true) (split_seg s cur).
Proof.
  induction s as [|c s IH]; intros cur Hcur; simpl.
  - constructor; [|constructor]. unfold slash_free in *. rewrite forallb_forall in *. intros x Hx.
    apply Hcur. apply in_rev. exact Hx.
  - destruct (Ascii.eqb c "/") eqn:Ec.
    + constructor.
      * unfold slash_free in *. rewrite forallb_forall in *. intros x Hx. apply Hcur. apply in_rev. exact Hx.
      * apply IH. reflexivity.
    + apply IH. simpl. rewrite Ec. simpl. exact Hcur.
Qed.

Lemma join_seg_app_last l x : l <> [] -> join_seg (l ++ [x]) = join_seg l ++ "/" :: x.
Proof.
  induction l as [|a l IH]; intros Hne; [congruence|].
  destruct l as [|b l].
  - simpl. reflexivity.
  - change (join_seg ((a :: b :: l) ++ [x])) with (a ++ "/" :: join_seg ((b :: l) ++ [x])).
    rewrite IH by congruence. change (join_seg (a :: b :: l)) with (a ++ "/" :: join_seg (b :: l)).
    rewrite <- app_assoc. reflexivity.
Qed.

Lemma join_split s : join_seg (split_seg s []) = s.
Proof.
  induction s as [|c s IH]; simpl; [reflexivity|].
  destruct (Ascii.eqb_spec c "/") as [->|Hn].
  - pose proof (split_seg_nonnil s []) as Hne. destruct (split_seg s []) as [|x r] eqn:E; [congruence|].
    change (join_seg ([] :: x :: r)) with ([] ++ "/" :: join_seg (x :: r)). rewrite IH. reflexivity.
  - rewrite split_seg_acc. pose proof (split_seg_nonnil s []) as Hne.
    destruct (split_seg s []) as [|x r] eqn:E; [congruence|].
    destruct r as [|y r].
    + simpl in *. rewrite IH. reflexivity.
    + rewrite <- IH. reflexivity.
Qed.

(* split (join segs) = segs for slash-free segments *)
Lemma split_join segs : segs <> [] -> Forall (fun x => slash_free x = true) segs ->
  split_seg (join_seg segs) [] = segs.
Proof.
  induction segs as [|a l IH]; intros Hne Hf; [congruence|].
  inversion Hf as [|? ? Ha Hl]. subst.
  destruct l as [|b l].
  - simpl. rewrite (split_seg_slash_free a Ha). reflexivity.
  - change (join_seg (a :: b :: l)) with (a ++ "/" :: join_seg (b :: l)).
    rewrite split_seg_app_slash, (split_seg_slash_free a Ha), IH by (congruence || assumption). reflexivity.
Qed.

(* every string is the join of its (slash-free) segments *)
Lemma segs_of t : exists body l, split_seg t [] = body ++ [l] /\
  Forall (fun x => slash_free x = true) (body ++ [l]) /\ t = join_seg (body ++ [l]).
Proof.
  pose proof (split_seg_nonnil t []) as Hne.
  destruct (exists_last Hne) as [body [l E]]. exists body, l. split; [exact E|]. split.
  - rewrite <- E. apply split_seg_segs_slash_free. reflexivity.
  - rewrite <- E. symmetry. apply join_split.
Qed.

(* ------------------------------------------------- remove_dot_segments *)

Lemma real_seg_not_dot s : real_seg s = true -> seg_dot s = false /\ seg_dotdot s = false.
Proof.
  unfold real_seg. intros H. apply andb_true_iff in H. destruct H as [H _]. apply andb_true_iff in H.
  destruct H as [H1 H2]. apply negb_true_iff in H1. apply negb_true_iff in H2. auto.
Qed.

Lemma rds_real_prefix xs : forall ys st, Forall (fun x => real_seg x = true) xs -> ys <> [] ->
  rds (xs ++ ys) st = rds ys (rev xs ++ st).
Proof.
  induction xs as [|x xs IH]; intros ys st Hf Hne; [reflexivity|].
  inversion Hf as [|? ? Hx Hxs]. subst. destruct (real_seg_not_dot x Hx) as [Hd Hdd].
  simpl. destruct (xs ++ ys) eqn:E.
  - destruct xs; destruct ys; simpl in E; congruence.
  - rewrite Hd, Hdd. rewrite <- E. rewrite IH by assumption. rewrite <- app_assoc. reflexivity.
Qed.

(* ------------------------------------------------------------ parse_ref *)

Definition lacks (c : ascii) (s : bytes) : bool := forallb (fun x => negb (Ascii.eqb x c)) s.

Lemma cut_lacks c s : lacks c s = true -> cut c s = (s, None).
Proof.
  induction s as [|x s IH]; simpl; intros H; [reflexivity|].
  apply andb_true_iff in H. destruct H as [Hx Hs]. apply negb_true_iff in Hx. rewrite Hx, (IH Hs). reflexivity.
Qed.

Lemma cut_at c a b : lacks c a = true -> cut c (a ++ c :: b) = (a, Some b).
Proof.
  induction a as [|x a IH]; simpl; intros H.
  - rewrite Ascii.eqb_refl. reflexivity.
  - apply andb_true_iff in H. destruct H as [Hx Ha]. apply negb_true_iff in Hx. rewrite Hx, (IH Ha). reflexivity.
Qed.

Lemma lacks_app c a b : lacks c (a ++ b) = lacks c a && lacks c b.
Proof. unfold lacks. apply forallb_app. Qed.

Lemma scheme_split_none a : forall acc rest, lacks ":" a = true -> slash_free a = true ->
  scheme_split acc (a ++ "/" :: rest) = None.
Proof.
  induction a as [|x a IH]; intros acc rest Hc Hs; simpl.
  - reflexivity.
  - simpl in Hc, Hs. apply andb_true_iff in Hc. destruct Hc as [Hx Hc]. apply negb_true_iff in Hx.
    apply andb_true_iff in Hs. destruct Hs as [Hy Hs]. apply negb_true_iff in Hy.
    rewrite Hx, Hy. apply IH; assumption.
Qed.

(* the query suffix localRedirect appends *)
Definition qs (q : bytes) : bytes := match q with [] => [] | _ => "?" :: q end.

(* a reference  <a>/<rest>  (a without ':', '/', and not empty unless rest does not start a "//")
   followed by the query suffix parses as a relative-path reference *)
Lemma parse_ref_relative a rest q :
  lacks ":" a = true -> slash_free a = true -> a <> [] ->
  lacks "#" (a ++ "/" :: rest) = true -> lacks "?" (a ++ "/" :: rest) = true -> lacks "#" q = true ->
  parse_ref ((a ++ "/" :: rest) ++ qs q) =
    {| u_scheme := None; u_authority := None; u_path := a ++ "/" :: rest; u_query := oq q; u_fragment := None |}.
Proof.
  intros Hc Hs Hne Hh Hq Hqh. unfold parse_ref.
  assert (E1 : cut "#" ((a ++ "/" :: rest) ++ qs q) = ((a ++ "/" :: rest) ++ qs q, None)).
  { apply cut_lacks. rewrite lacks_app, Hh. destruct q; [reflexivity|]. simpl qs.
    change (lacks "#" ("?" :: a0 :: q)) with (lacks "#" (a0 :: q)). exact Hqh. }
  rewrite E1.
  assert (E2 : cut "?" ((a ++ "/" :: rest) ++ qs q) = (a ++ "/" :: rest, oq q)).
  { destruct q as [|x q]; simpl qs.
    - rewrite app_nil_r. apply cut_lacks. exact Hq.
    - apply cut_at. exact Hq. }
  rewrite E2. rewrite (scheme_split_none a [] rest Hc Hs).
  destruct a as [|x a]; [congruence|]. simpl.
  simpl in Hs. apply andb_true_iff in Hs. destruct Hs as [Hx _]. apply negb_true_iff in Hx.
  destruct x as [[] [] [] [] [] [] [] []]; try reflexivity. discriminate Hx.
Qed.

(* ------------------------------------------------------------- resolution *)

Lemma split_flat body : Forall (fun x => slash_free x = true) body -> forall r,
  split_seg (flat_map (fun s => s ++ ["/"]) body ++ r) [] = body ++ split_seg r [].
Proof.
  induction body as [|a body IH]; intros Hf r; [reflexivity|].
  inversion Hf as [|? ? Ha Hb]. subst. simpl. rewrite <- !app_assoc. simpl.
  rewrite split_seg_app_slash, (split_seg_slash_free a Ha), IH by assumption. reflexivity.
Qed.

Lemma dir_of_rooted t body l : split_seg t [] = body ++ [l] ->
  dir_of ("/" :: t) = "/" :: flat_map (fun s => s ++ ["/"]) body.
Proof.
  intros E. unfold dir_of. change (split_seg ("/" :: t) []) with ([] :: split_seg t []). rewrite E.
  change ([] :: body ++ [l]) with (([] :: body) ++ [l]).
  rewrite removelast_last. reflexivity.
Qed.

Lemma slash_adjusted_snoc x c :
  slash_adjusted (x ++ [c]) = if Ascii.eqb c "/" then x else x ++ [c] ++ ["/"].
Proof.
  unfold slash_adjusted. rewrite rev_app_distr. simpl.
  destruct (Ascii.eqb_spec c "/") as [->|Hn].
  - rewrite rev_involutive. reflexivity.
  - rewrite <- app_assoc. destruct c as [[] [] [] [] [] [] [] []]; try reflexivity. congruence.
Qed.

Lemma slash_free_last l : l <> [] -> slash_free l = true -> exists x c, l = x ++ [c] /\ Ascii.eqb c "/" = false.
Proof.
  intros Hne Hs. destruct (exists_last Hne) as [x [c E]]. exists x, c. split; [exact E|].
  subst l. unfold slash_free in Hs. rewrite forallb_app in Hs. apply andb_true_iff in Hs. destruct Hs as [_ Hs].
  simpl in Hs. rewrite andb_true_r in Hs. apply negb_true_iff in Hs. exact Hs.
Qed.

(* the resolution target for a relative-path reference against a rooted base *)
Lemma resolve_relative t body l ref q :
  split_seg t [] = body ++ [l] -> Forall (fun x => slash_free x = true) body ->
  (exists c r, ref = c :: r /\ Ascii.eqb c "/" = false) ->
  resolve ("/" :: t) (oq q)
    {| u_scheme := None; u_authority := None; u_path := ref; u_query := oq q; u_fragment := None |} =
  Some ("/" :: join_seg (rds (body ++ split_seg ref []) []), oq q).
Proof.
  intros E Hf [c [r [-> Hc]]]. unfold resolve. simpl u_scheme. simpl u_authority. simpl u_path. simpl u_query.
  cbv iota beta. rewrite Hc. unfold merge. rewrite (dir_of_rooted t body l E). unfold remove_dot_segments.
  change (("/" :: flat_map (fun s => s ++ ["/"]) body) ++ c :: r)
    with ("/" :: (flat_map (fun s => s ++ ["/"]) body ++ c :: r)).
  cbv iota beta. rewrite (split_flat body Hf). reflexivity.
Qed.

Lemma join_ends_with body l : exists y, join_seg (body ++ [l]) = y ++ l.
Proof.
  destruct body as [|a body].
  - exists []. reflexivity.
  - rewrite join_seg_app_last by congruence. exists (join_seg (a :: body) ++ ["/"]).
    rewrite <- app_assoc. reflexivity.
Qed.

Lemma rds_tail_add l st : real_seg l = true -> rds [l; []] st = rev st ++ [l; []].
Proof.
  intros Hl. destruct (real_seg_not_dot l Hl) as [Hd Hdd]. simpl. rewrite Hd, Hdd. simpl.
  rewrite <- app_assoc. reflexivity.
Qed.

Lemma qo_oq q : qo (oq q) = q.
Proof. destruct q; reflexivity. Qed.

(* adding the slash:  <l>/  or  ./<l>/  *)
Lemma loc_ok_add (t : bytes) (body : list bytes) (l pre q : bytes) :
  split_seg t [] = body ++ [l] ->
  Forall (fun x => real_seg x = true) body -> real_seg l = true ->
  (pre = [] /\ lacks ":" l = true) \/ pre = ["."; "/"] ->
  lacks "#" l = true -> lacks "?" l = true -> lacks "#" q = true ->
  location_ok ("/" :: t) q ((pre ++ l ++ ["/"]) ++ qs q) = true.
Proof.
  intros E Hb Hl Hpre Hh Hq Hqh.
  pose proof (split_seg_segs_slash_free t [] eq_refl) as Hsf. rewrite E in Hsf.
  apply Forall_app in Hsf. destruct Hsf as [Hsb Hsl]. inversion Hsl as [|? ? Hsl' _]. subst.
  assert (Hlne : l <> []).
  { unfold real_seg in Hl. apply andb_true_iff in Hl. destruct Hl as [_ Hl]. destruct l; [discriminate|congruence]. }
  assert (Et : t = join_seg (body ++ [l])) by (rewrite <- E; symmetry; apply join_split).
  unfold location_ok.
  assert (Hparse : parse_ref ((pre ++ l ++ ["/"]) ++ qs q) =
            {| u_scheme := None; u_authority := None; u_path := pre ++ l ++ ["/"]; u_query := oq q; u_fragment := None |}).
  { destruct Hpre as [[-> Hc]| ->].
    - simpl app. change (l ++ ["/"]) with (l ++ "/" :: []).
      apply parse_ref_relative; try assumption.
      + rewrite lacks_app, Hh. reflexivity.
      + rewrite lacks_app, Hq. reflexivity.
    - change ((["."; "/"] ++ l ++ ["/"])) with (["."] ++ "/" :: (l ++ ["/"])).
      apply parse_ref_relative; try reflexivity; try congruence; try assumption.
      + simpl. rewrite lacks_app, Hh. reflexivity.
      + simpl. rewrite lacks_app, Hq. reflexivity. }
  rewrite Hparse. cbn [u_fragment].
  assert (Hfirst : exists c r, pre ++ l ++ ["/"] = c :: r /\ Ascii.eqb c "/" = false).
  { destruct Hpre as [[-> _]| ->].
    - destruct l as [|c l']; [congruence|]. exists c, (l' ++ ["/"]). split; [reflexivity|].
      simpl in Hsl'. apply andb_true_iff in Hsl'. destruct Hsl' as [Hc _]. apply negb_true_iff in Hc. exact Hc.
    - exists ".", ("/" :: l ++ ["/"]). split; reflexivity. }
  rewrite (resolve_relative t body l _ q E Hsb Hfirst).
  assert (Hsplit : rds (body ++ split_seg (pre ++ l ++ ["/"]) []) [] = body ++ [l; []]).
  { destruct Hpre as [[-> _]| ->].
    - simpl app. change (l ++ ["/"]) with (l ++ "/" :: []). rewrite split_seg_app_slash, (split_seg_slash_free l Hsl').
      simpl. rewrite rds_real_prefix by (assumption || congruence). rewrite rds_tail_add by assumption.
      rewrite app_nil_r, rev_involutive. reflexivity.
    - change ((["."; "/"] ++ l ++ ["/"])) with (["."] ++ "/" :: (l ++ "/" :: [])).
      rewrite !split_seg_app_slash, (split_seg_slash_free l Hsl'). simpl app.
      rewrite rds_real_prefix by (assumption || congruence).
      change (rds [["."]; l; []] (rev body ++ [])) with (rds [l; []] (rev body ++ [])).
      rewrite rds_tail_add by assumption. rewrite app_nil_r, rev_involutive. reflexivity. }
  rewrite Hsplit, qo_oq, bytes_eqb_refl, andb_true_r.
  apply bytes_eqb_eq.
  change (body ++ [l; []]) with (body ++ [l] ++ [[]]). rewrite app_assoc.
  rewrite join_seg_app_last by (destruct body; simpl; congruence). rewrite <- Et.
  destruct (join_ends_with body l) as [y Ey]. rewrite <- Et in Ey.
  destruct (slash_free_last l Hlne Hsl') as [x [c [El Hc]]].
  rewrite Ey, El. rewrite app_assoc. change ("/" :: (y ++ x) ++ [c]) with (("/" :: y ++ x) ++ [c]).
  rewrite slash_adjusted_snoc, Hc. simpl. rewrite <- !app_assoc. reflexivity.
Qed.

(* removing the slash:  ../<b>  *)
Lemma loc_ok_remove (t : bytes) (bb : list bytes) (b q : bytes) :
  split_seg t [] = (bb ++ [b]) ++ [([] : bytes)] ->
  Forall (fun x => real_seg x = true) bb -> real_seg b = true ->
  lacks "#" b = true -> lacks "?" b = true -> lacks "#" q = true ->
  location_ok ("/" :: t) q (([".";".";"/"] ++ b) ++ qs q) = true.
Proof.
  intros E Hb Hl Hh Hq Hqh.
  pose proof (split_seg_segs_slash_free t [] eq_refl) as Hsf. rewrite E in Hsf.
  apply Forall_app in Hsf. destruct Hsf as [Hsb _].
  assert (Hsb' := Hsb). apply Forall_app in Hsb'. destruct Hsb' as [Hsbb Hsl]. inversion Hsl as [|? ? Hsl' _]. subst.
  assert (Et : t = join_seg ((bb ++ [b]) ++ [([] : bytes)])) by (rewrite <- E; symmetry; apply join_split).
  unfold location_ok.
  assert (Hparse : parse_ref (([".";".";"/"] ++ b) ++ qs q) =
            {| u_scheme := None; u_authority := None; u_path := [".";".";"/"] ++ b; u_query := oq q; u_fragment := None |}).
  { change ([".";".";"/"] ++ b) with ([".";"."] ++ "/" :: b).
    apply parse_ref_relative; try reflexivity; try congruence; try assumption. }
  rewrite Hparse. cbn [u_fragment].
  assert (Hfirst : exists c r, [".";".";"/"] ++ b = c :: r /\ Ascii.eqb c "/" = false).
  { exists ".", ("." :: "/" :: b). split; reflexivity. }
  rewrite (resolve_relative t (bb ++ [b]) [] _ q E Hsb Hfirst).
  assert (Hsplit : rds ((bb ++ [b]) ++ split_seg ([".";".";"/"] ++ b) []) [] = bb ++ [b]).
  { change ([".";".";"/"] ++ b) with ([".";"."] ++ "/" :: b).
    rewrite split_seg_app_slash, (split_seg_slash_free b Hsl'). simpl app at 2. simpl rev.
    rewrite rds_real_prefix.
    - rewrite rev_app_distr. simpl rev. simpl app.
      destruct (real_seg_not_dot b Hl) as [Hd Hdd].
      change (rds [[".";"."]; b] (b :: rev bb ++ [])) with (rds [b] (rev bb ++ [])).
      simpl. rewrite Hd, Hdd. simpl. rewrite app_nil_r, rev_involutive. reflexivity.
    - apply Forall_app. split; [assumption|]. constructor; [assumption|constructor].
    - simpl. congruence. }
  match goal with |- context [rds ?xa ?xb] => replace (rds xa xb) with (bb ++ [b]) by (symmetry; exact Hsplit) end.
  rewrite qo_oq, bytes_eqb_refl, andb_true_r.
  apply bytes_eqb_eq. rewrite Et.
  rewrite (join_seg_app_last (bb ++ [b]) []) by (destruct bb; simpl; congruence).
  change ("/" :: join_seg (bb ++ [b]) ++ ["/"]) with (("/" :: join_seg (bb ++ [b])) ++ ["/"]).
  rewrite slash_adjusted_snoc. reflexivity.
Qed.

(* ------------------------------------------- RFC 3986 section 5.4 examples *)

(* base http://a/b/c/d;p?q ; expected targets as path[?query] *)
Definition rfc_res (r : bytes) : option bytes :=
  match resolve (S2B "/b/c/d;p") (Some (S2B "q")) (parse_ref r) with
  | Some (p, q) => Some (p ++ match q with Some q => "?" :: q | None => [] end)
  | None => None
  end.

Definition rfc_chk (c : string * string) : bool :=
  match rfc_res (S2B (fst c)) with Some p => bytes_eqb p (S2B (snd c)) | None => false end.

Example rfc3986_5_4_examples :
  forallb rfc_chk
    [("g","/b/c/g"); ("./g","/b/c/g"); ("g/","/b/c/g/"); ("/g","/g"); ("?y","/b/c/d;p?y"); ("g?y","/b/c/g?y");
     ("#s","/b/c/d;p?q"); ("g#s","/b/c/g"); (";x","/b/c/;x"); ("g;x","/b/c/g;x"); ("","/b/c/d;p?q");
     (".","/b/c/"); ("./","/b/c/"); ("..","/b/"); ("../","/b/"); ("../g","/b/g"); ("../..","/"); ("../../","/");
     ("../../g","/g"); ("../../../g","/g"); ("../../../../g","/g"); ("/./g","/g"); ("/../g","/g"); ("g.","/b/c/g.");
     (".g","/b/c/.g"); ("g..","/b/c/g.."); ("..g","/b/c/..g"); ("./../g","/b/g"); ("./g/.","/b/c/g/");
     ("g/./h","/b/c/g/h"); ("g/../h","/b/c/h"); ("g;x=1/./y","/b/c/g;x=1/y"); ("g;x=1/../y","/b/c/y");
     ("g?y/./x","/b/c/g?y/./x"); ("g#s/./x","/b/c/g")]%string = true /\
  rfc_res (S2B "g:h") = None /\ rfc_res (S2B "//g") = None /\ rfc_res (S2B "http:g") = None.
Proof. vm_compute. auto. Qed.
