(* Meaning of the primitives that harness/cmd/dispgen emits when it translates the body of
   Router.ServeHTTP (fox.go) into GenServe.v.  HAND-WRITTEN and TRUSTED (with dispgen): nothing
   here is specific to one version of ServeHTTP; each definition is the meaning of ONE Go construct
   of the accepted subset (docs/GenServe.md), under the assumptions stated at the top of Dispatch.v.

     outc A                       value of an expression / a loop state that may panic (Go: nil
                                  dereference, CleanPath) -- Pan -- or run out of model fuel -- Fuel
     b_not / b_and / b_or         ! && || with Go's short-circuit order: the right operand is looked at
                                  only when the left one does not decide (so a panic on the right is
                                  invisible when Go would not evaluate it)
     if_res / if_out              if COND { T } else { E } in a context that produces the result of
                                  ServeHTTP / the state of a loop
     lookup_pair                  n, tsr = tree.lookup(..): [n] is nil or a node, read through n.route
                                  (contract of the matcher, tree.go:38: tsr only together with a node)
     node_flag f n                n.route.<flag>: nil dereference when n == nil
     clean_cmp (cleanfn p) k      a comparison one operand of which is CleanPath(p)
     loop_roots body roots s      for i := 0; i < len(tree.root); i++ { body }  with tree.root[i] = rt
     set_c_*                      c.route = .. / c.tsr = .. / truncation of c.params to length 0 / c.scope = ..
     ctx_record c rp rt           the NON-lazy tree.lookup(.., c, false): the parameters recorded by the
                                  walk are left in c.params / c.tsrParams (Dispatch.v: rec_params,
                                  rec_tsr_params); a lazy lookup does not touch c (node.go: every write
                                  is under `if !lazy`) *)
From FoxBase Require Import Bytes.
From FoxDispatch Require Import Dispatch.

Inductive outc (A : Type) := Val (a : A) | Pan | Fuel.
Arguments Val {A} a.
Arguments Pan {A}.
Arguments Fuel {A}.

Definition b_not (a : outc bool) : outc bool :=
  match a with Val b => Val (negb b) | Pan => Pan | Fuel => Fuel end.
Definition b_and (a b : outc bool) : outc bool :=
  match a with Val true => b | Val false => Val false | Pan => Pan | Fuel => Fuel end.
Definition b_or (a b : outc bool) : outc bool :=
  match a with Val true => Val true | Val false => b | Pan => Pan | Fuel => Fuel end.

Definition if_out {S : Type} (c : outc bool) (t e : outc S) : outc S :=
  match c with Val true => t | Val false => e | Pan => Pan | Fuel => Fuel end.

Definition clean_cmp (c : cres) (k : bytes -> bool) : outc bool :=
  match c with COk o => Val (k o) | CPanic => Pan | CFuel => Fuel end.

Definition loop_roots {S : Type} (body : S -> root -> outc S) (roots : list root) (s0 : S) : outc S :=
  fold_left (fun acc rt => match acc with Val s => body s rt | Pan => Pan | Fuel => Fuel end) roots (Val s0).

Section Sem.
  Context {R : Type}.

  Definition if_res (c : outc bool) (t e : result R) : result R :=
    match c with Val true => t | Val false => e | Pan => DPanic | Fuel => DOutOfFuel end.

  Definition lookup_pair (o : option (R * bool)) : option R * bool :=
    match o with Some (r, tsr) => (Some r, tsr) | None => (None, false) end.

  Definition is_some (n : option R) : bool := match n with Some _ => true | None => false end.

  Definition node_flag (f : R -> bool) (n : option R) : outc bool :=
    match n with Some r => Val (f r) | None => Pan end.

  Definition set_c_route (c : ctx R) (r : option R) : ctx R :=
    {| c_route := r; c_tsr := c_tsr c; c_params := c_params c; c_tsrParams := c_tsrParams c; c_scope := c_scope c |}.
  Definition set_c_tsr (c : ctx R) (b : bool) : ctx R :=
    {| c_route := c_route c; c_tsr := b; c_params := c_params c; c_tsrParams := c_tsrParams c; c_scope := c_scope c |}.
  Definition set_c_params (c : ctx R) (l : list param) : ctx R :=
    {| c_route := c_route c; c_tsr := c_tsr c; c_params := l; c_tsrParams := c_tsrParams c; c_scope := c_scope c |}.
  Definition set_c_tsrParams (c : ctx R) (l : list param) : ctx R :=
    {| c_route := c_route c; c_tsr := c_tsr c; c_params := c_params c; c_tsrParams := l; c_scope := c_scope c |}.
  Definition set_c_scope (c : ctx R) (s : scope) : ctx R :=
    {| c_route := c_route c; c_tsr := c_tsr c; c_params := c_params c; c_tsrParams := c_tsrParams c; c_scope := s |}.

  Definition ctx_record (c : ctx R) (rec_params rec_tsr_params : list param) : ctx R :=
    {| c_route := c_route c; c_tsr := c_tsr c; c_params := rec_params; c_tsrParams := rec_tsr_params; c_scope := c_scope c |}.
End Sem.
