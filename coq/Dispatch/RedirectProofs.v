(* Proofs about Redirect.v: the status, totality, and the Location value on
   canonical paths, for both variants of the handler. *)
From FoxBase Require Import Bytes.
From FoxDispatch Require Import Dispatch Redirect Uri UriProofs.
Open Scope char_scope.

(* ------------------------------------------------------------- path.Base *)

Lemma drop_slashes_nonslash c r : Ascii.eqb c "/" = false -> drop_slashes (c :: r) = c :: r.
Proof. intros H. simpl. rewrite H. reflexivity. Qed.

Lemma take_to_slash_app a r : slash_free a = true -> take_to_slash (a ++ "/" :: r) = a.
Proof.
  induction a as [|x a IH]; intros H; simpl.
  - reflexivity.
  - simpl in H. apply andb_true_iff in H. destruct H as [Hx Ha]. apply negb_true_iff in Hx. rewrite Hx, (IH Ha).
    reflexivity.
Qed.

Lemma slash_free_rev a : slash_free (rev a) = slash_free a.
Proof.
  unfold slash_free. induction a as [|x a IH]; [reflexivity|]. simpl. rewrite forallb_app, IH. simpl.
  rewrite andb_true_r. apply andb_comm.
Qed.

(* the last element of  z/<l>  and of  z/<l>/ ... / *)
Lemma path_base_elem z l : l <> [] -> slash_free l = true -> path_base (z ++ "/" :: l) = l.
Proof.
  intros Hne Hs. unfold path_base.
  destruct (z ++ "/" :: l) eqn:E; [destruct z; discriminate|]. rewrite <- E. clear E.
  rewrite rev_app_distr. simpl rev. rewrite <- app_assoc. simpl app.
  destruct (slash_free_last l Hne Hs) as [x [c [El Hc]]].
  assert (Er : rev l = c :: rev x) by (rewrite El, rev_app_distr; reflexivity).
  rewrite Er. simpl app. rewrite (drop_slashes_nonslash c _ Hc).
  change (c :: rev x ++ "/" :: rev z) with ((c :: rev x) ++ "/" :: rev z). rewrite <- Er.
  rewrite take_to_slash_app by (rewrite slash_free_rev; exact Hs).
  rewrite rev_involutive. destruct l; [congruence|reflexivity].
Qed.

Lemma path_base_elem_slash z l : l <> [] -> slash_free l = true -> path_base ((z ++ "/" :: l) ++ ["/"]) = l.
Proof.
  intros Hne Hs. unfold path_base.
  destruct ((z ++ "/" :: l) ++ ["/"]) eqn:E; [destruct z; discriminate|]. rewrite <- E. clear E.
  rewrite rev_app_distr. simpl rev at 1. simpl app at 1.
  change (drop_slashes ("/" :: rev (z ++ "/" :: l))) with (drop_slashes (rev (z ++ "/" :: l))).
  rewrite rev_app_distr. simpl rev. rewrite <- app_assoc. simpl app.
  destruct (slash_free_last l Hne Hs) as [x [c [El Hc]]].
  assert (Er : rev l = c :: rev x) by (rewrite El, rev_app_distr; reflexivity).
  rewrite Er. simpl app. rewrite (drop_slashes_nonslash c _ Hc).
  change (c :: rev x ++ "/" :: rev z) with ((c :: rev x) ++ "/" :: rev z). rewrite <- Er.
  rewrite take_to_slash_app by (rewrite slash_free_rev; exact Hs).
  rewrite rev_involutive. destruct l; [congruence|reflexivity].
Qed.

(* ------------------------------------------------------ FixTrailingSlash *)

Lemma fix_add z l : l <> [] -> slash_free l = true ->
  fix_trailing_slash (z ++ "/" :: l) = (z ++ "/" :: l) ++ ["/"].
Proof.
  intros Hne Hs. unfold fix_trailing_slash, last_is_slash.
  destruct (slash_free_last l Hne Hs) as [x [c [El Hc]]].
  rewrite rev_app_distr. simpl rev. rewrite <- app_assoc. rewrite El, rev_app_distr. simpl.
  rewrite Hc, andb_false_r. reflexivity.
Qed.

Lemma fix_remove y : y <> [] -> fix_trailing_slash (y ++ ["/"]) = y.
Proof.
  intros Hne. unfold fix_trailing_slash, last_is_slash. rewrite rev_app_distr. simpl.
  rewrite removelast_last. rewrite app_length. simpl.
  destruct y as [|a y]; [congruence|]. simpl. rewrite Nat.add_comm. reflexivity.
Qed.

(* ---------------------------------------------------- hexEscapeNonASCII *)

Lemma hex_escape_ascii s : forallb is_ascii s = true -> hex_escape_non_ascii s = s.
Proof.
  induction s as [|c s IH]; intros H; [reflexivity|]. simpl in H. apply andb_true_iff in H. destruct H as [Hc Hs].
  unfold hex_escape_non_ascii in *. simpl. rewrite (IH Hs). unfold hex_escape_byte.
  unfold is_ascii in Hc. apply N.ltb_lt in Hc.
  destruct (128 <=? N_of_ascii c)%N eqn:E; [apply N.leb_le in E; lia|reflexivity].
Qed.

(* --------------------------------------------------------- the handler *)

Definition ref_prefix (v : variant) (l : bytes) : bytes :=
  match v with LocAsIs => [] | LocFixed => if has_colon l then ["."; "/"] else [] end.

Lemma query_suffix ref q : (if nonempty q then ref ++ ["?"] ++ q else ref) = ref ++ qs q.
Proof. destruct q; simpl; [rewrite app_nil_r|]; reflexivity. Qed.

Lemma redirect_add v m z l q : l <> [] -> slash_free l = true ->
  redirect_with v m (fix_trailing_slash (z ++ "/" :: l)) q =
  ROk (redirect_code m) (hex_escape_non_ascii ((ref_prefix v l ++ l ++ ["/"]) ++ qs q)).
Proof.
  intros Hne Hs. rewrite (fix_add z l Hne Hs). unfold redirect_with.
  rewrite rev_app_distr. simpl rev at 1. simpl app at 1. cbv iota beta.
  rewrite Ascii.eqb_refl. rewrite (path_base_elem_slash z l Hne Hs). rewrite query_suffix.
  destruct v; reflexivity.
Qed.

Lemma redirect_remove v m z b q : b <> [] -> slash_free b = true ->
  redirect_with v m (fix_trailing_slash ((z ++ "/" :: b) ++ ["/"])) q =
  ROk (redirect_code m) (hex_escape_non_ascii (([".";".";"/"] ++ b) ++ qs q)).
Proof.
  intros Hne Hs. rewrite fix_remove by (destruct z; discriminate). unfold redirect_with.
  destruct (slash_free_last b Hne Hs) as [x [c [El Hc]]].
  assert (Er : rev (z ++ "/" :: b) = c :: rev x ++ "/" :: rev z).
  { rewrite rev_app_distr. simpl rev. rewrite <- app_assoc. rewrite El at 1. rewrite rev_app_distr. reflexivity. }
  rewrite Er. cbv iota beta. rewrite Hc. rewrite (path_base_elem z b Hne Hs). rewrite query_suffix. reflexivity.
Qed.

(* the handler never indexes an empty string: FixTrailingSlash never returns "" *)
Lemma fix_trailing_slash_nonempty p : fix_trailing_slash p <> [].
Proof.
  unfold fix_trailing_slash. destruct (Nat.ltb 1 (List.length p) && last_is_slash p) eqn:E.
  - apply andb_true_iff in E. destruct E as [E _]. apply Nat.ltb_lt in E.
    destruct p as [|a [|b p]]; simpl in E; try lia. simpl. congruence.
  - destruct p; discriminate.
Qed.

Theorem redirect_total_code v m urlpath rawpath escaped q :
  exists loc, redirect_handler v m urlpath rawpath escaped q = ROk (if bytes_eqb m mGET then 301%Z else 308%Z) loc.
Proof.
  unfold redirect_handler, redirect_with.
  set (url := match v with
              | LocAsIs => if nonempty rawpath then fix_trailing_slash rawpath else fix_trailing_slash urlpath
              | LocFixed => fix_trailing_slash escaped end).
  assert (Hne : url <> []).
  { unfold url. destruct v; [destruct (nonempty rawpath)|]; apply fix_trailing_slash_nonempty. }
  destruct (rev url) as [|c r] eqn:E.
  - apply (f_equal (@rev ascii)) in E. rewrite rev_involutive in E. simpl in E. congruence.
  - eexists. reflexivity.
Qed.

(* ------------------------------------------------- canonical paths, decomposed *)

Lemma canonical_decomp w : canonical_path w = true -> w <> ["/"] ->
  exists t body l, w = "/" :: t /\ split_seg t [] = body ++ [l] /\
    Forall (fun x => real_seg x = true) body /\
    (real_seg l = true \/ (l = [] /\ exists bb b, body = bb ++ [b])).
Proof.
  intros Hc Hne. destruct w as [|c t]; [discriminate|]. simpl in Hc. apply andb_true_iff in Hc.
  destruct Hc as [Hs Hc]. apply Ascii.eqb_eq in Hs. subst c.
  destruct t as [|a t']; [congruence|]. set (t := a :: t') in *.
  pose proof (split_seg_nonnil t []) as Hnn. destruct (exists_last Hnn) as [body [l E]].
  exists t, body, l. split; [reflexivity|]. split; [exact E|].
  change (forallb real_seg (removelast (split_seg t [])) &&
          (real_seg (last (split_seg t []) []) ||
           negb (nonempty_b (last (split_seg t []) [])) && nonempty_b (removelast (split_seg t []))) = true) in Hc.
  rewrite E, removelast_last, last_last in Hc. apply andb_true_iff in Hc. destruct Hc as [Hb Hl]. split.
  - apply Forall_forall. rewrite forallb_forall in Hb. exact Hb.
  - apply orb_true_iff in Hl. destruct Hl as [Hl|Hl]; [left; exact Hl|right].
    apply andb_true_iff in Hl. destruct Hl as [Hl1 Hl2]. split.
    + destruct l; [reflexivity|discriminate].
    + destruct body as [|x body]; [discriminate|]. assert (Hx : x :: body <> []) by congruence.
      destruct (exists_last Hx) as [bb [b Eb]]. exists bb, b. exact Eb.
Qed.

Lemma rooted_join_decomp (body : list bytes) (l : bytes) :
  exists z, "/" :: join_seg (body ++ [l]) = z ++ "/" :: l.
Proof.
  destruct body as [|a body].
  - exists []. reflexivity.
  - exists ("/" :: join_seg (a :: body)). rewrite join_seg_app_last by congruence. reflexivity.
Qed.

Lemma real_seg_nonempty l : real_seg l = true -> l <> [].
Proof. unfold real_seg. intros H. apply andb_true_iff in H. destruct H as [_ H]. destruct l; [discriminate|congruence]. Qed.

Lemma has_colon_lacks l : has_colon l = false -> lacks ":" l = true.
Proof.
  unfold has_colon, lacks. induction l as [|c l IH]; [reflexivity|]. simpl. intros H.
  apply orb_false_iff in H. destruct H as [Hc Hl]. rewrite Hc, (IH Hl). reflexivity.
Qed.

Lemma forallb_sub {A} (P : A -> bool) z c l : forallb P (z ++ c :: l) = true -> forallb P l = true.
Proof. rewrite forallb_app. simpl. intros H. apply andb_true_iff in H. destruct H as [_ H]. apply andb_true_iff in H. tauto. Qed.

Lemma forallb_imp {A} (P Q : A -> bool) l : (forall x, P x = true -> Q x = true) -> forallb P l = true -> forallb Q l = true.
Proof. intros H. rewrite !forallb_forall. auto. Qed.

Lemma wire_path_ok_seg z l : wire_path_ok (z ++ "/" :: l) = true ->
  forallb is_ascii l = true /\ lacks "#" l = true /\ lacks "?" l = true.
Proof.
  intros H. apply forallb_sub in H. repeat split; revert H; apply forallb_imp; intros x Hx;
    apply andb_true_iff in Hx; destruct Hx as [Hx H3]; apply andb_true_iff in Hx; destruct Hx as [H1 H2]; assumption.
Qed.

Lemma wire_query_ok_parts q : wire_query_ok q = true -> forallb is_ascii q = true /\ lacks "#" q = true.
Proof.
  intros H. split; revert H; apply forallb_imp; intros x Hx; apply andb_true_iff in Hx; tauto.
Qed.

Lemma qs_ascii q : forallb is_ascii q = true -> forallb is_ascii (qs q) = true.
Proof. destruct q; [reflexivity|]. intros H. simpl qs. simpl. simpl in H. exact H. Qed.

(* ---------------------------------- the repaired handler: Location always resolves *)

Theorem location_resolves_fixed_proof m urlpath rawpath w q :
  canonical_path w = true -> w <> ["/"] -> wire_path_ok w = true -> wire_query_ok q = true ->
  exists loc, redirect_handler LocFixed m urlpath rawpath w q = ROk (redirect_code m) loc /\
              location_ok w q loc = true.
Proof.
  intros Hc Hne Hw Hq. destruct (canonical_decomp w Hc Hne) as [t [body [l [Ew [E [Hb Hl]]]]]].
  destruct (wire_query_ok_parts q Hq) as [Hqa Hqh].
  assert (Et : t = join_seg (body ++ [l])) by (rewrite <- E; symmetry; apply join_split).
  pose proof (split_seg_segs_slash_free t [] eq_refl) as Hsf. rewrite E in Hsf.
  unfold redirect_handler.
  destruct Hl as [Hl|[-> [bb [b ->]]]].
  - destruct (rooted_join_decomp body l) as [z Ez]. rewrite <- Et in Ez.
    apply Forall_app in Hsf. destruct Hsf as [_ Hsl]. inversion Hsl as [|? ? Hsl' _]. subst x l0.
    rewrite Ew, Ez. rewrite (redirect_add LocFixed m z l q (real_seg_nonempty l Hl) Hsl').
    eexists. split; [reflexivity|].
    rewrite Ew, Ez in Hw. destruct (wire_path_ok_seg z l Hw) as [Ha [Hh Hqm]].
    rewrite hex_escape_ascii.
    + rewrite <- Ez. apply (loc_ok_add t body l); try assumption.
      unfold ref_prefix. destruct (has_colon l) eqn:Ecol; [right; reflexivity|left].
      split; [reflexivity|apply has_colon_lacks; exact Ecol].
    + rewrite !forallb_app, Ha, (qs_ascii q Hqa). unfold ref_prefix. destruct (has_colon l); reflexivity.
  - assert (Hsb := Hsf). apply Forall_app in Hsb. destruct Hsb as [Hsb _].
    apply Forall_app in Hsb. destruct Hsb as [_ Hsl]. inversion Hsl as [|? ? Hsl' _]. subst x l.
    apply Forall_app in Hb. destruct Hb as [Hbb Hbr]. inversion Hbr as [|? ? Hbr' _]. subst x l.
    destruct (rooted_join_decomp bb b) as [z Ez].
    assert (Ew' : w = (z ++ "/" :: b) ++ ["/"]).
    { rewrite Ew, Et. rewrite (join_seg_app_last (bb ++ [b]) []) by (destruct bb; simpl; congruence).
      rewrite <- Ez. reflexivity. }
    rewrite Ew'. rewrite (redirect_remove LocFixed m z b q (real_seg_nonempty b Hbr') Hsl').
    eexists. split; [reflexivity|].
    rewrite Ew' in Hw. unfold wire_path_ok in Hw. rewrite forallb_app in Hw. apply andb_true_iff in Hw.
    destruct Hw as [Hw _]. destruct (wire_path_ok_seg z b Hw) as [Ha [Hh Hqm]].
    rewrite hex_escape_ascii.
    + rewrite <- Ew', Ew. apply (loc_ok_remove t bb b); assumption.
    + rewrite !forallb_app, Ha, (qs_ascii q Hqa). reflexivity.
Qed.

(* --------------------------------------------- net/url escape, segment-wise *)

Lemma escape_byte_slash : escape_byte "/" = ["/"].
Proof. reflexivity. Qed.

Lemma escape_byte_slash_free c : Ascii.eqb c "/" = false -> slash_free (escape_byte c) = true.
Proof. destruct c as [[] [] [] [] [] [] [] []]; intros H; try discriminate H; reflexivity. Qed.

Lemma escape_byte_head c : exists r, escape_byte c = c :: r /\ should_escape c = false \/
                                     escape_byte c = "%" :: r /\ should_escape c = true.
Proof. unfold escape_byte. destruct (should_escape c); eexists; [right|left]; split; reflexivity. Qed.

Lemma unreserved_not_escaped c : unreserved c = true -> escape_byte c = [c].
Proof.
  unfold unreserved, escape_byte, should_escape. intros H. apply orb_true_iff in H.
  destruct (is_alnum c); [reflexivity|]. destruct H as [H|H]; [discriminate|]. rewrite H. reflexivity.
Qed.

Lemma escape_app a b : escape (a ++ b) = escape a ++ escape b.
Proof. apply flat_map_app. Qed.

Lemma split_seg_prefix e : slash_free e = true -> forall s cur, split_seg (e ++ s) cur = split_seg s (rev e ++ cur).
Proof.
  induction e as [|x e IH]; intros H s cur; [reflexivity|].
  simpl in H. apply andb_true_iff in H. destruct H as [Hx He]. apply negb_true_iff in Hx.
  simpl. rewrite Hx, (IH He). rewrite <- app_assoc. reflexivity.
Qed.

Lemma split_seg_escape p : split_seg (escape p) [] = map escape (split_seg p []).
Proof.
  induction p as [|c p IH]; [reflexivity|].
  change (escape (c :: p)) with (escape_byte c ++ escape p).
  destruct (Ascii.eqb_spec c "/") as [->|Hn].
  - rewrite escape_byte_slash. simpl. rewrite IH. reflexivity.
  - assert (Hc : Ascii.eqb c "/" = false) by (apply Ascii.eqb_neq; exact Hn).
    rewrite (split_seg_prefix _ (escape_byte_slash_free c Hc)). simpl split_seg at 2. rewrite Hc.
    rewrite split_seg_acc, (split_seg_acc p [c]). rewrite IH.
    pose proof (split_seg_nonnil p []) as Hnn. destruct (split_seg p []) as [|x r]; [congruence|].
    simpl map. rewrite app_nil_r, rev_involutive. simpl rev. reflexivity.
Qed.

Lemma escape_nil x : escape x = [] -> x = [].
Proof.
  destruct x as [|c x]; [reflexivity|]. change (escape (c :: x)) with (escape_byte c ++ escape x).
  destruct (escape_byte_head c) as [r [[E _]|[E _]]]; rewrite E; discriminate.
Qed.

Lemma unreserved_percent : unreserved "%" = false.
Proof. reflexivity. Qed.

(* an element that needs no escaping is its own escaping's only preimage *)
Lemma escape_unreserved x : forall l, escape x = l -> forallb unreserved l = true -> x = l.
Proof.
  induction x as [|c x IH]; intros l E Hu.
  - simpl in E. congruence.
  - change (escape (c :: x)) with (escape_byte c ++ escape x) in E.
    destruct (escape_byte_head c) as [r [[Eb Hs]|[Eb Hs]]].
    + unfold escape_byte in Eb. rewrite Hs in Eb. inversion Eb. subst r.
      unfold escape_byte in E. rewrite Hs in E. simpl in E. subst l. simpl in Hu.
      apply andb_true_iff in Hu. destruct Hu as [_ Hu]. f_equal. apply IH; [reflexivity|exact Hu].
    + rewrite Eb in E. subst l. simpl in Hu. discriminate Hu.
Qed.

Lemma escape_rooted P t : escape P = "/" :: t -> exists P', P = "/" :: P' /\ escape P' = t.
Proof.
  destruct P as [|c P']; [discriminate|]. change (escape (c :: P')) with (escape_byte c ++ escape P').
  intros E. destruct (escape_byte_head c) as [r [[Eb Hs]|[Eb Hs]]].
  - rewrite Eb in E. inversion E. subst c. rewrite escape_byte_slash in Eb. inversion Eb. subst r.
    exists P'. split; [reflexivity|]. reflexivity.
  - rewrite Eb in E. discriminate.
Qed.

Lemma unreserved_facts l : forallb unreserved l = true ->
  forallb is_ascii l = true /\ lacks "#" l = true /\ lacks "?" l = true /\ lacks ":" l = true.
Proof.
  intros H. repeat split; revert H; apply forallb_imp; intros c;
    destruct c as [[] [] [] [] [] [] [] []]; intros Hc; try discriminate Hc; reflexivity.
Qed.

(* ------------------------------------------------------------ last_elem *)

Lemma last_elem_snoc y c : last_elem (y ++ [c]) = if Ascii.eqb c "/" then last_seg y else last_seg (y ++ [c]).
Proof.
  unfold last_elem. rewrite rev_app_distr. simpl.
  destruct (Ascii.eqb_spec c "/") as [->|Hn].
  - rewrite rev_involutive. reflexivity.
  - destruct c as [[] [] [] [] [] [] [] []]; try reflexivity. congruence.
Qed.

Lemma last_seg_rooted (body : list bytes) (l : bytes) :
  Forall (fun x => slash_free x = true) (body ++ [l]) -> last_seg ("/" :: join_seg (body ++ [l])) = l.
Proof.
  intros Hf. unfold last_seg. change (split_seg ("/" :: join_seg (body ++ [l])) []) with ([] :: split_seg (join_seg (body ++ [l])) []).
  rewrite split_join by (destruct body; simpl; congruence || assumption).
  change ([] :: body ++ [l]) with (([] :: body) ++ [l]). apply last_last.
Qed.

(* ------------------- the pinned handler: Location resolves when the last element is unreserved *)

Theorem location_resolves_partial_proof m w q urlpath rawpath escaped :
  url_view w = Some (urlpath, rawpath) ->
  canonical_path w = true -> w <> ["/"] -> forallb unreserved (last_elem w) = true -> wire_query_ok q = true ->
  exists loc, redirect_handler LocAsIs m urlpath rawpath escaped q = ROk (redirect_code m) loc /\
              location_ok w q loc = true.
Proof.
  intros Hv Hc Hne Hu Hq. destruct (canonical_decomp w Hc Hne) as [t [body [l [Ew [E [Hb Hl]]]]]].
  destruct (wire_query_ok_parts q Hq) as [Hqa Hqh].
  assert (Et : t = join_seg (body ++ [l])) by (rewrite <- E; symmetry; apply join_split).
  pose proof (split_seg_segs_slash_free t [] eq_refl) as Hsf. rewrite E in Hsf.
  (* what net/url hands to the handler *)
  unfold url_view in Hv. rewrite Ew in Hv.
  assert (Hv' : exists P, urlpath = P /\
                          rawpath = if bytes_eqb (escape P) ("/" :: t) then [] else "/" :: t).
  { simpl in Hv. destruct (unescape t) as [u|]; [|discriminate]. inversion Hv. eexists. split; reflexivity. }
  clear Hv. destruct Hv' as [P [-> ->]].
  unfold redirect_handler.
  destruct Hl as [Hl|[-> [bb [b ->]]]].
  - (* no trailing slash: the reference is  <l>/  *)
    destruct (rooted_join_decomp body l) as [z Ez]. rewrite <- Et in Ez.
    assert (Hsl' : slash_free l = true).
    { apply Forall_app in Hsf. destruct Hsf as [_ Hsl]. inversion Hsl. assumption. }
    pose proof (real_seg_nonempty l Hl) as Hlne.
    assert (Hlast : last_elem w = l).
    { destruct (slash_free_last l Hlne Hsl') as [x [c [El Hcs]]].
      rewrite Ew, Ez, El. change (z ++ "/" :: x ++ [c]) with (z ++ ("/" :: x) ++ [c]). rewrite app_assoc.
      rewrite last_elem_snoc, Hcs. rewrite <- app_assoc. change (("/" :: x) ++ [c]) with ("/" :: x ++ [c]).
      rewrite <- El, <- Ez, Et. apply last_seg_rooted. exact Hsf. }
    rewrite Hlast in Hu. destruct (unreserved_facts l Hu) as [Ha [Hh [Hqm Hcol]]].
    assert (Hgoal : forall X zX, X = zX ++ "/" :: l ->
              exists loc, redirect_with LocAsIs m (fix_trailing_slash X) q = ROk (redirect_code m) loc /\
                          location_ok w q loc = true).
    { intros X zX ->. rewrite (redirect_add LocAsIs m zX l q Hlne Hsl'). eexists. split; [reflexivity|].
      rewrite hex_escape_ascii.
      - rewrite Ew. apply (loc_ok_add t body l); try assumption. left. split; [reflexivity|exact Hcol].
      - rewrite !forallb_app, Ha, (qs_ascii q Hqa). reflexivity. }
    destruct (bytes_eqb (escape P) ("/" :: t)) eqn:Eesc.
    + apply bytes_eqb_eq in Eesc. simpl nonempty. cbv iota.
      destruct (escape_rooted P t Eesc) as [P' [-> EP']].
      pose proof (split_seg_escape P') as Hse. rewrite EP', E in Hse.
      pose proof (split_seg_nonnil P' []) as Hnn. destruct (exists_last Hnn) as [bodyP [lP EP]].
      rewrite EP, map_app in Hse. simpl in Hse. apply app_inj_tail in Hse. destruct Hse as [_ Hle].
      assert (lP = l) by (apply escape_unreserved; [symmetry; exact Hle|exact Hu]). subst lP.
      destruct (rooted_join_decomp bodyP l) as [zP EzP].
      apply (Hgoal _ zP). rewrite <- EzP, <- EP, join_split. reflexivity.
    + simpl nonempty. cbv iota. apply (Hgoal _ z). exact Ez.
  - (* trailing slash: the reference is  ../<b>  *)
    assert (Hsb := Hsf). apply Forall_app in Hsb. destruct Hsb as [Hsb _].
    assert (Hsb' := Hsb). apply Forall_app in Hsb'. destruct Hsb' as [_ Hsl]. inversion Hsl as [|? ? Hsl' _]. subst x l.
    apply Forall_app in Hb. destruct Hb as [Hbb Hbr]. inversion Hbr as [|? ? Hbr' _]. subst x l.
    pose proof (real_seg_nonempty b Hbr') as Hbne.
    destruct (rooted_join_decomp bb b) as [z Ez].
    assert (Ew' : w = (z ++ "/" :: b) ++ ["/"]).
    { rewrite Ew, Et. rewrite (join_seg_app_last (bb ++ [b]) []) by (destruct bb; simpl; congruence).
      rewrite <- Ez. reflexivity. }
    assert (Hlast : last_elem w = b).
    { rewrite Ew', last_elem_snoc. simpl. rewrite <- Ez. apply last_seg_rooted. exact Hsb. }
    rewrite Hlast in Hu. destruct (unreserved_facts b Hu) as [Ha [Hh [Hqm Hcol]]].
    assert (Hgoal : forall X zX, X = (zX ++ "/" :: b) ++ ["/"] ->
              exists loc, redirect_with LocAsIs m (fix_trailing_slash X) q = ROk (redirect_code m) loc /\
                          location_ok w q loc = true).
    { intros X zX ->. rewrite (redirect_remove LocAsIs m zX b q Hbne Hsl'). eexists. split; [reflexivity|].
      rewrite hex_escape_ascii.
      - rewrite Ew. apply (loc_ok_remove t bb b); assumption.
      - rewrite !forallb_app, Ha, (qs_ascii q Hqa). reflexivity. }
    destruct (bytes_eqb (escape P) ("/" :: t)) eqn:Eesc.
    + apply bytes_eqb_eq in Eesc. simpl nonempty. cbv iota.
      destruct (escape_rooted P t Eesc) as [P' [-> EP']].
      pose proof (split_seg_escape P') as Hse. rewrite EP', E in Hse.
      pose proof (split_seg_nonnil P' []) as Hnn. destruct (exists_last Hnn) as [bodyP [lP EP]].
      rewrite EP, map_app in Hse. simpl in Hse. apply app_inj_tail in Hse. destruct Hse as [Hbody Hle].
      assert (lP = []) by (apply escape_nil; symmetry; exact Hle). subst lP.
      assert (HbP : bodyP <> []) by (destruct bodyP; [destruct bb; discriminate|congruence]).
      destruct (exists_last HbP) as [bbP [bP EbP]]. subst bodyP.
      rewrite map_app in Hbody. simpl in Hbody. apply app_inj_tail in Hbody. destruct Hbody as [_ Hbe].
      assert (bP = b) by (apply escape_unreserved; [symmetry; exact Hbe|exact Hu]). subst bP.
      destruct (rooted_join_decomp bbP b) as [zP EzP].
      apply (Hgoal _ zP). rewrite <- EzP.
      rewrite <- (join_split P'), EP.
      rewrite (join_seg_app_last (bbP ++ [b]) []) by (destruct bbP; simpl; congruence). reflexivity.
    + simpl nonempty. cbv iota. apply (Hgoal _ z). rewrite <- Ew'. symmetry. exact Ew.
Qed.

(* ------------------------ canonical decoded path => canonical wire path *)

Lemma escape_dot x : escape x = ["."] -> x = ["."].
Proof. intros H. apply escape_unreserved; [exact H|reflexivity]. Qed.

Lemma escape_dotdot x : escape x = ["."; "."] -> x = ["."; "."].
Proof. intros H. apply escape_unreserved; [exact H|reflexivity]. Qed.

Lemma seg_dot_iff s : seg_dot s = true <-> s = ["."].
Proof.
  split; [|intros ->; reflexivity]. destruct s as [|c [|d s]]; try discriminate.
  - destruct c as [[] [] [] [] [] [] [] []]; try discriminate. reflexivity.
  - destruct c as [[] [] [] [] [] [] [] []]; discriminate.
Qed.

Lemma seg_dotdot_iff s : seg_dotdot s = true <-> s = ["."; "."].
Proof.
  split; [|intros ->; reflexivity]. destruct s as [|c [|d [|e s]]]; try discriminate.
  - destruct c as [[] [] [] [] [] [] [] []]; discriminate.
  - destruct c as [[] [] [] [] [] [] [] []]; try discriminate;
      destruct d as [[] [] [] [] [] [] [] []]; try discriminate. reflexivity.
  - destruct c as [[] [] [] [] [] [] [] []]; try discriminate;
      destruct d as [[] [] [] [] [] [] [] []]; discriminate.
Qed.

Lemma real_seg_escape x : real_seg (escape x) = real_seg x.
Proof.
  unfold real_seg.
  assert (H1 : seg_dot (escape x) = seg_dot x).
  { destruct (seg_dot x) eqn:E.
    - apply seg_dot_iff in E. subst x. reflexivity.
    - destruct (seg_dot (escape x)) eqn:E'; [|reflexivity]. apply seg_dot_iff in E'. apply escape_dot in E'.
      subst x. discriminate. }
  assert (H2 : seg_dotdot (escape x) = seg_dotdot x).
  { destruct (seg_dotdot x) eqn:E.
    - apply seg_dotdot_iff in E. subst x. reflexivity.
    - destruct (seg_dotdot (escape x)) eqn:E'; [|reflexivity]. apply seg_dotdot_iff in E'. apply escape_dotdot in E'.
      subst x. discriminate. }
  assert (H3 : nonempty_b (escape x) = nonempty_b x).
  { destruct x as [|c x]; [reflexivity|]. change (escape (c :: x)) with (escape_byte c ++ escape x).
    destruct (escape_byte_head c) as [r [[E _]|[E _]]]; rewrite E; reflexivity. }
  rewrite H1, H2, H3. reflexivity.
Qed.

Definition canon_body (t : bytes) : bool :=
  forallb real_seg (removelast (split_seg t [])) &&
  (real_seg (last (split_seg t []) []) ||
   negb (nonempty_b (last (split_seg t []) [])) && nonempty_b (removelast (split_seg t []))).

Lemma canonical_path_cons t : t <> [] -> canonical_path ("/" :: t) = canon_body t.
Proof. destruct t; [congruence|reflexivity]. Qed.

Lemma canonical_escape P : canonical_path P = true -> canonical_path (escape P) = true.
Proof.
  destruct P as [|c t]; [discriminate|]. intros H. assert (H' := H). simpl in H'. apply andb_true_iff in H'.
  destruct H' as [Hc _]. apply Ascii.eqb_eq in Hc. subst c. change (escape ("/" :: t)) with ("/" :: escape t).
  destruct (list_eq_dec ascii_dec t []) as [->|Hne]; [reflexivity|].
  assert (Hne' : escape t <> []) by (intros E; apply escape_nil in E; congruence).
  rewrite canonical_path_cons in * by assumption. unfold canon_body in *.
  rewrite split_seg_escape.
  pose proof (split_seg_nonnil t []) as Hnn. destruct (exists_last Hnn) as [body [l E]]. rewrite E in *.
  rewrite map_app. simpl map. rewrite !removelast_last, !last_last in *.
  apply andb_true_iff in H. destruct H as [Hb Hl]. rewrite forallb_forall in Hb. apply andb_true_iff. split.
  - apply forallb_forall. intros x Hx. apply in_map_iff in Hx. destruct Hx as [y [<- Hy]].
    rewrite real_seg_escape. apply Hb. exact Hy.
  - rewrite real_seg_escape.
    replace (nonempty_b (escape l)) with (nonempty_b l).
    + replace (nonempty_b (map escape body)) with (nonempty_b body) by (destruct body; reflexivity). exact Hl.
    + destruct l as [|c l]; [reflexivity|]. change (escape (c :: l)) with (escape_byte c ++ escape l).
      destruct (escape_byte_head c) as [r [[Eb _]|[Eb _]]]; rewrite Eb; reflexivity.
Qed.

Lemma url_view_not_star w : w <> ["*"] ->
  url_view w = match unescape w with
               | Some p => Some (p, if bytes_eqb (escape p) w then [] else w)
               | None => None
               end.
Proof.
  intros Hne. destruct w as [|c [|d w']].
  - reflexivity.
  - destruct c as [[] [] [] [] [] [] [] []]; try reflexivity. congruence.
  - destruct c as [[] [] [] [] [] [] [] []]; reflexivity.
Qed.

Lemma url_view_cases w u r : url_view w = Some (u, r) ->
  (w = ["*"] /\ u = ["*"] /\ r = []) \/
  (w <> ["*"] /\ unescape w = Some u /\ r = if bytes_eqb (escape u) w then [] else w).
Proof.
  intros Hv. destruct (list_eq_dec ascii_dec w ["*"]) as [->|Hne].
  - left. vm_compute in Hv. injection Hv as <- <-. auto.
  - right. rewrite (url_view_not_star w Hne) in Hv. destruct (unescape w) as [p|]; [|discriminate].
    injection Hv as <- <-. auto.
Qed.

(* the wire path is canonical whenever the path ServeHTTP matches on is *)
Lemma canonical_wire w urlpath rawpath :
  url_view w = Some (urlpath, rawpath) ->
  canonical_path (if nonempty rawpath then rawpath else urlpath) = true -> canonical_path w = true.
Proof.
  intros Hv Hc. destruct (url_view_cases w urlpath rawpath Hv) as [[-> [-> ->]]|[_ [Hu ->]]].
  - discriminate Hc.
  - destruct (bytes_eqb (escape urlpath) w) eqn:E.
    + apply bytes_eqb_eq in E. subst w. apply canonical_escape. exact Hc.
    + destruct w as [|c w']; [|exact Hc]. simpl in Hu. injection Hu as <-. discriminate Hc.
Qed.

Lemma url_view_root urlpath rawpath : url_view ["/"] = Some (urlpath, rawpath) -> urlpath = ["/"].
Proof. intros H. vm_compute in H. inversion H. reflexivity. Qed.
