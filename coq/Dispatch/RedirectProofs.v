(* Proofs about Redirect.v: the status, totality, and the Location value on
   canonical paths, for both variants of the handler. *)
From FoxBase Require Import Bytes.
From FoxDispatch Require Import Dispatch Redirect Uri UriProofs.
Open Scope char_scope.

(* ------------------------------------------------------------- path.Base *)

Lemma drop_slashes_nonslash c r : Ascii.eqb c "/" = false -> drop_slashes (c :: r) = c :: r.
Proof. intros H. simpl. rewrite H. reflexivity. Qed.

Lemma take_to_slash_app a r : slash_free a = true -> take_to_slash (a ++ "/" :: r) = a.
Proof.
  induction a as [|x a IH]; intros H; simpl.
  - reflexivity.
  - simpl in H. apply andb_true_iff in H. destruct H as [Hx Ha]. apply negb_true_iff in Hx. rewrite Hx, (IH Ha).
    reflexivity.
Qed.

Lemma slash_free_rev a : slash_free (rev a) = slash_free a.
Proof.
  unfold slash_free. induction a as [|x a IH]; [reflexivity|]. simpl. rewrite forallb_app, IH. simpl.
  rewrite andb_true_r. apply andb_comm.
Qed.

(* the last element of  z/<l>  and of  z/<l>/ ... / *)
Lemma path_base_elem z l : l <> [] -> slash_free l = true -> path_base (z ++ "/" :: l) = l.
Proof.
  intros Hne Hs. unfold path_base.
  destruct (z ++ "/" :: l) eqn:E; [destruct z; discriminate|]. rewrite <- E. clear E.
  rewrite rev_app_distr. simpl rev. rewrite <- app_assoc. simpl app.
  destruct (slash_free_last l Hne Hs) as [x [c [El Hc]]].
  assert (Er : rev l = c :: rev x) by (rewrite El, rev_app_distr; reflexivity).
  rewrite Er. simpl app. rewrite (drop_slashes_nonslash c _ Hc).
  change (c :: rev x ++ "/" :: rev z) with ((c :: rev x) ++ "/" :: rev z). rewrite <- Er.
  rewrite take_to_slash_app by (rewrite slash_free_rev; exact Hs).
  rewrite rev_involutive. destruct l; [congruence|reflexivity].
Qed.

Lemma path_base_elem_slash z l : l <> [] -> slash_free l = true -> path_base ((z ++ "/" :: l) ++ ["/"]) = l.
Proof.
  intros Hne Hs. unfold path_base.
  destruct ((z ++ "/" :: l) ++ ["/"]) eqn:E; [destruct z; discriminate|]. rewrite <- E. clear E.
  rewrite rev_app_distr. simpl rev at 1. simpl app at 1.
  change (drop_slashes ("/" :: rev (z ++ "/" :: l))) with (drop_slashes (rev (z ++ "/" :: l))).
  rewrite rev_app_distr. simpl rev. rewrite <- app_assoc. simpl app.
  destruct (slash_free_last l Hne Hs) as [x [c [El Hc]]].
  assert (Er : rev l = c :: rev x) by (rewrite El, rev_app_distr; reflexivity).
  rewrite Er. simpl app. rewrite (drop_slashes_nonslash c _ Hc).
  change (c :: rev x ++ "/" :: rev z) with ((c :: rev x) ++ "/" :: rev z). rewrite <- Er.
  rewrite take_to_slash_app by (rewrite slash_free_rev; exact Hs).
  rewrite rev_involutive. destruct l; [congruence|reflexivity].
Qed.

(* ------------------------------------------------------ FixTrailingSlash *)

Lemma fix_add z l : l <> [] -> slash_free l = true ->
  fix_trailing_slash (z ++ "/" :: l) = (z ++ "/" :: l) ++ ["/"].
Proof.
  intros Hne Hs. unfold fix_trailing_slash, last_is_slash.
  destruct (slash_free_last l Hne Hs) as [x [c [El Hc]]].
  rewrite rev_app_distr. simpl rev. rewrite <- app_assoc. rewrite El, rev_app_distr. simpl.
  rewrite Hc, andb_false_r. reflexivity.
Qed.

Lemma fix_remove y : y <> [] -> fix_trailing_slash (y ++ ["/"]) = y.
Proof.
  intros Hne. unfold fix_trailing_slash, last_is_slash. rewrite rev_app_distr. simpl.
  rewrite removelast_last. rewrite app_length. simpl.
  destruct y as [|a y]; [congruence|]. simpl. rewrite Nat.add_comm. reflexivity.
Qed.

(* ---------------------------------------------------- hexEscapeNonASCII *)

Lemma hex_escape_ascii s : forallb is_ascii s = true -> hex_escape_non_ascii s = s.
Proof.
  induction s as [|c s IH]; intros H; [reflexivity|]. simpl in H. apply andb_true_iff in H. destruct H as [Hc Hs].
  unfold hex_escape_non_ascii in *. simpl. rewrite (IH Hs). unfold hex_escape_byte.
  unfold is_ascii in Hc. apply N.ltb_lt in Hc.
  destruct (128 <=? N_of_ascii c)%N eqn:E; [apply N.leb_le in E; lia|reflexivity].
Qed.

(* --------------------------------------------------------- the handler *)

Definition ref_prefix (v : variant) (l : bytes) : bytes :=
  match v with LocAsIs => [] | LocFixed => if has_colon l then ["."; "/"] else [] end.

Lemma query_suffix ref q : (if nonempty q then ref ++ ["?"] ++ q else ref) = ref ++ qs q.
Proof. destruct q; simpl; [rewrite app_nil_r|]; reflexivity. Qed.

Lemma redirect_add v m z l q : l <> [] -> slash_free l = true ->
  redirect_with v m (fix_trailing_slash (z ++ "/" :: l)) q =
  ROk (redirect_code m) (hex_escape_non_ascii ((ref_prefix v l ++ l ++ ["/"]) ++ qs q)).
Proof.
  intros Hne Hs. rewrite (fix_add z l Hne Hs). unfold redirect_with.
  rewrite rev_app_distr. simpl rev at 1. simpl app at 1. cbv iota beta.
  rewrite Ascii.eqb_refl. rewrite (path_base_elem_slash z l Hne Hs). rewrite query_suffix.
  destruct v; reflexivity.
Qed.

Lemma redirect_remove v m z b q : b <> [] -> slash_free b = true ->
  redirect_with v m (fix_trailing_slash ((z ++ "/" :: b) ++ ["/"])) q =
  ROk (redirect_code m) (hex_escape_non_ascii (([".";".";"/"] ++ b) ++ qs q)).
Proof.
  intros Hne Hs. rewrite fix_remove by (destruct z; discriminate). unfold redirect_with.
  destruct (slash_free_last b Hne Hs) as [x [c [El Hc]]].
  assert (Er : rev (z ++ "/" :: b) = c :: rev x ++ "/" :: rev z).
  { rewrite rev_app_distr. simpl rev. rewrite <- app_assoc. rewrite El at 1. rewrite rev_app_distr. reflexivity. }
  rewrite Er. cbv iota beta. rewrite Hc. rewrite (path_base_elem z b Hne Hs). rewrite query_suffix. reflexivity.
Qed.

(* the handler never indexes an empty string: FixTrailingSlash never returns "" *)
Lemma fix_trailing_slash_nonempty p : fix_trailing_slash p <> [].
Proof.
  unfold fix_trailing_slash. destruct (Nat.ltb 1 (length p) && last_is_slash p) eqn:E.
  - apply andb_true_iff in E. destruct E as [E _]. apply Nat.ltb_lt in E.
    destruct p as [|a [|b p]]; simpl in E; try lia. simpl. congruence.
  - destruct p; discriminate.
Qed.

Theorem redirect_total_code v m urlpath rawpath escaped q :
  exists loc, redirect_handler v m urlpath rawpath escaped q = ROk (if bytes_eqb m mGET then 301%Z else 308%Z) loc.
Proof.
  unfold redirect_handler, redirect_with.
  set (url := match v with
              | LocAsIs => if nonempty rawpath then fix_trailing_slash rawpath else fix_trailing_slash urlpath
              | LocFixed => fix_trailing_slash escaped end).
  assert (Hne : url <> []).
  { unfold url. destruct v; [destruct (nonempty rawpath)|]; apply fix_trailing_slash_nonempty. }
  destruct (rev url) as [|c r] eqn:E.
  - apply (f_equal (@rev ascii)) in E. rewrite rev_involutive in E. simpl in E. congruence.
  - eexists. reflexivity.
Qed.
